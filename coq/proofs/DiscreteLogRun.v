(** * C12 at run level for the inside pass: the logarithmic run is the exponential image
    of the linear run, provided no linear denominator is 0. *)
From Coq Require Import List Arith Bool Lia Reals Lra.
From TsdateV Require Import lib.Num model.Discrete model.DiscreteER proofs.DiscreteBase proofs.DiscreteInside proofs.DiscreteLog.
Import ListNotations.
Open Scope R_scope.

Notation vrel := (Forall2 rel).

Lemma vrel_length l xs : vrel l xs -> length l = length xs.
Proof. induction 1; cbn; congruence. Qed.

Lemma vrel_nth l xs k : vrel l xs -> rel (nth k l ENInf) (nth k xs 0).
Proof. intro H. revert k. induction H as [|a x l xs Ha H IH]; intros [|k]; cbn; try apply rel_ninf; [exact Ha|apply IH]. Qed.

Lemma vrel_map2 {A} (f : A -> ER) (g : A -> R) (l : list A) : (forall a, In a l -> rel (f a) (g a)) -> vrel (map f l) (map g l).
Proof. induction l as [|a l IH]; intro H; cbn; constructor; [apply H; now left|apply IH; intros; apply H; now right]. Qed.

Lemma vrel_map (f : ER -> ER) (g : R -> R) l xs : (forall a x, rel a x -> rel (f a) (g x)) -> vrel l xs -> vrel (map f l) (map g xs).
Proof. intros Hf. induction 1; cbn; constructor; auto. Qed.

Lemma vrel_app l1 x1 l2 x2 : vrel l1 x1 -> vrel l2 x2 -> vrel (l1 ++ l2) (x1 ++ x2).
Proof. induction 1; cbn [app]; intro H2; [exact H2|constructor; auto]. Qed.

Lemma vrel_firstn n l xs : vrel l xs -> vrel (firstn n l) (firstn n xs).
Proof. intro H. revert n. induction H; intros [|n]; cbn; constructor; auto. Qed.

Lemma vrel_skipn n l xs : vrel l xs -> vrel (skipn n l) (skipn n xs).
Proof. intro H. revert n. induction H; intros [|n]; cbn [skipn]; auto; constructor; auto. Qed.

Lemma vrel_take l xs idx : vrel l xs -> vrel (take LogER l idx) (take LinR xs idx).
Proof. intro H. unfold take. apply vrel_map2. intros k _. now apply vrel_nth. Qed.

Lemma vrel_vcomb a x b y : vrel a x -> vrel b y -> vrel (vcomb LogER a b) (vcomb LinR x y).
Proof. intro H. revert b y. induction H as [|p q a x Hp H IH]; intros b y Hb; unfold vcomb in *; cbn [combine map]; [constructor|].
  destruct Hb as [|r s b y Hr Hb]; cbn [combine map]; constructor; [now apply rel_comb|now apply IH]. Qed.

Lemma vrel_vratio a x d dl : vrel a x -> rel d dl -> dl <> 0 -> vrel (vratio LogER a d) (vratio LinR x dl).
Proof. intros H Hd Hn. unfold vratio. apply (vrel_map (fun v => s_ratio LogER v d) (fun v => s_ratio LinR v dl)); [|exact H].
  intros; now apply rel_ratio. Qed.

Lemma vrel_reduceat arr arr' : vrel arr arr' -> forall idx, vrel (reduceat LogER arr idx) (reduceat LinR arr' idx).
Proof. intros H. induction idx as [|i rest IH]; cbn [reduceat]; [constructor|].
  destruct rest as [|j rest'].
  - constructor; [|constructor]. apply rel_rsum. now apply vrel_skipn.
  - constructor; [|exact IH]. destruct (Nat.ltb i j).
    + apply rel_rsum. apply vrel_firstn. now apply vrel_skipn.
    + now apply vrel_nth. Qed.

Lemma vrel_concat {A} (f : A -> list ER) (g : A -> list R) (l : list A) :
  (forall a, In a l -> vrel (f a) (g a)) -> vrel (concat (map f l)) (concat (map g l)).
Proof. induction l as [|a l IH]; intro H; cbn; [constructor|]. apply vrel_app; [apply H; now left|apply IH; intros; apply H; now right]. Qed.

Lemma vrel_repeat a x n : rel a x -> vrel (repeat a n) (repeat x n).
Proof. intro H. induction n; cbn; constructor; auto. Qed.

Section Run.
  Variable G : nat.
  Variable likL : nat -> nat -> nat -> ER.
  Variable likR : nat -> nat -> nat -> R.
  Hypothesis lik_rel : forall e i j, rel (likL e i j) (likR e i j).
  Variable sfR : nat -> R.
  Hypothesis sf_pos : forall e, 0 < sfR e.
  Definition sfL (e : nat) : ER := EFin (sfR e).
  Variable fixed : nat -> bool.
  Variable priorL : nat -> list ER.
  Variable priorR : nat -> list R.
  Hypothesis prior_rel : forall u, vrel (priorL u) (priorR u).

  Lemma ll_lower_rel e : vrel (ll_lower LogER G likL e) (ll_lower LinR G likR e).
  Proof. unfold ll_lower. apply vrel_concat. intros i _. apply vrel_map2. intros j _. apply lik_rel. Qed.

  Lemma ll_fixed_rel e : vrel (ll_fixed LogER G likL e) (ll_fixed LinR G likR e).
  Proof. unfold ll_fixed. apply vrel_map2. intros i _. apply lik_rel. Qed.

  Lemma liks_rel l xs : vrel l xs -> vrel (liks LogER l) (liks LinR xs).
  Proof. intro H. unfold liks. apply (vrel_map (s_comb LogER (s_id LogER)) (s_comb LinR (s_id LinR))); [|exact H].
    intros a x Ha. apply rel_comb; [apply rel_id|exact Ha]. Qed.

  Lemma get_inside_rel arr arr' e : vrel arr arr' ->
    vrel (get_inside LogER G likL arr e) (get_inside LinR G likR arr' e).
  Proof. intro H. unfold get_inside, rowsum_lower_tri. apply vrel_reduceat. apply vrel_vcomb; [exact H|].
    apply liks_rel. apply ll_lower_rel. Qed.

  Lemma get_fixed_rel a x e : rel a x -> vrel (get_fixed LogER G likL a e) (get_fixed LinR G likR x e).
  Proof. intro H. unfold get_fixed. apply (vrel_map (s_comb LogER a) (s_comb LinR x)).
    - intros b y Hb. now apply rel_comb.
    - apply liks_rel. apply ll_fixed_rel. Qed.

  (** related optional vectors *)
  Definition orel (a : option (list ER)) (x : option (list R)) : Prop :=
    match a, x with
    | Some l, Some xs => vrel l xs
    | None, None => True
    | _, _ => False
    end.

  Lemma edge_msg_rel insL insR e :
    (fixed (e_child e) = false -> orel (insL (e_child e)) (insR (e_child e))) ->
    orel (edge_msg LogER G likL sfL fixed insL e) (edge_msg LinR G likR sfR fixed insR e).
  Proof. intro H. unfold edge_msg. destruct (fixed (e_child e)).
    - cbn [orel]. apply get_fixed_rel. unfold sfL. apply rel_geom; [apply sf_pos|apply rel_id].
    - specialize (H eq_refl). destruct (insL (e_child e)) as [l|], (insR (e_child e)) as [xs|]; cbn [orel] in *; try tauto.
      apply get_inside_rel. apply (vrel_map (s_geom LogER (sfL (e_id e))) (s_geom LinR (sfR (e_id e)))).
      + intros a x Ha. unfold sfL. apply rel_geom; [apply sf_pos|exact Ha].
      + unfold make_lower_tri. now apply vrel_take. Qed.

  Lemma fold_msgs_rel insL insR : forall es vL vR,
    (forall e, In e es -> fixed (e_child e) = false -> orel (insL (e_child e)) (insR (e_child e))) ->
    vrel vL vR ->
    orel (fold_msgs LogER G likL sfL fixed insL vL es) (fold_msgs LinR G likR sfR fixed insR vR es).
  Proof. induction es as [|e r IH]; intros vL vR H Hv; cbn [fold_msgs]; [exact Hv|].
    pose proof (edge_msg_rel insL insR e (H e (or_introl eq_refl))) as Hm.
    destruct (edge_msg LogER G likL sfL fixed insL e) as [mL|], (edge_msg LinR G likR sfR fixed insR e) as [mR|];
      cbn [orel] in Hm; try tauto.
    apply IH; [intros; apply H; [now right|assumption]|now apply vrel_vcomb]. Qed.

  (** along any valid order: the solutions of the two equation systems are related *)
  Lemma inside_rel_from : forall gs seen insL denL insR denR,
    inside_order fixed seen gs ->
    (forall u, In u seen -> orel (insL u) (insR u) /\ insL u <> None) ->
    (forall g, In g gs -> group_eq LogER G likL sfL fixed priorL true insL denL g) ->
    (forall g, In g gs -> group_eq LinR G likR sfR fixed priorR true insR denR g) ->
    (forall g d, In g gs -> fixed (fst g) = false -> denR (fst g) = Some d -> d <> 0) ->
    forall g, In g gs -> fixed (fst g) = false ->
      orel (insL (fst g)) (insR (fst g)) /\ insL (fst g) <> None /\
      exists d dl, denL (fst g) = Some d /\ denR (fst g) = Some dl /\ rel d dl.
  Proof. induction gs as [|[p es] r IH]; intros seen insL denL insR denR Hord Hseen HL HR Hnz g Hg Hfx; [destruct Hg|].
    destruct Hord as (Hn & Hkids & Hord).
    assert (Hp : fixed p = false -> orel (insL p) (insR p) /\ insL p <> None /\
                 exists d dl, denL p = Some d /\ denR p = Some dl /\ rel d dl).
    { intro Hfp. destruct (HL (p, es) (or_introl eq_refl) Hfp) as (vL & HvL & HiL & HdL).
      destruct (HR (p, es) (or_introl eq_refl) Hfp) as (vR & HvR & HiR & HdR). cbn [fst snd] in *.
      assert (Hv : vrel vL vR).
      { pose proof (fold_msgs_rel insL insR es (priorL p) (priorR p)) as Hf.
        rewrite HvL, HvR in Hf. cbn [orel] in Hf. apply Hf; [|apply prior_rel].
        intros e He Hfc. apply Hseen. destruct (Hkids e He); [congruence|assumption]. }
      assert (Hd : rel (npmax LogER vL) (npmax LinR vR)) by (now apply rel_npmax).
      assert (Hdn : npmax LinR vR <> 0) by (apply (Hnz (p, es)); [now left|exact Hfp|exact HdR]).
      rewrite HiL, HiR. split; [cbn [orel]; now apply vrel_vratio|]. split; [discriminate|].
      exists (npmax LogER vL), (npmax LinR vR). auto. }
    destruct Hg as [<-|Hg]; [exact (Hp Hfx)|].
    apply (IH (if fixed p then seen else p :: seen) insL denL insR denR Hord); try assumption.
    - intros u Hu. destruct (fixed p) eqn:Hfp; [now apply Hseen|].
      destruct Hu as [<-|Hu]; [|now apply Hseen]. destruct (Hp eq_refl) as (Ha & Hb & _). auto.
    - intros; apply HL; now right.
    - intros; apply HR; now right.
    - intros g' d Hg' Hf' Hd'. apply (Hnz g' d); [now right|assumption|assumption]. Qed.

  Lemma marg_acc_rel denL denR : forall gs mL mR,
    (forall g, In g gs -> fixed (fst g) = false ->
       exists d dl, denL (fst g) = Some d /\ denR (fst g) = Some dl /\ rel d dl) ->
    rel mL mR -> rel (marg_acc LogER fixed denL mL gs) (marg_acc LinR fixed denR mR gs).
  Proof. induction gs as [|[p es] r IH]; intros mL mR H Hm; cbn [marg_acc]; [exact Hm|].
    destruct (fixed p) eqn:Hfp; [apply IH; [intros; apply H; [now right|assumption]|exact Hm]|].
    destruct (H (p, es) (or_introl eq_refl) Hfp) as (d & dl & E1 & E2 & Hd). cbn [fst] in E1, E2. rewrite E1, E2.
    apply IH; [intros; apply H; [now right|assumption]|now apply rel_comb]. Qed.

  Lemma marg_roots_rel insL insR : forall (roots : list (nat * R)) mL mR,
    (forall rf, In rf roots -> 0 < snd rf /\ orel (insL (fst rf)) (insR (fst rf))) ->
    rel mL mR ->
    match marg_roots LogER insL mL (map (fun rf => (fst rf, EFin (snd rf))) roots), marg_roots LinR insR mR roots with
    | Some a, Some x => rel a x
    | None, None => True
    | _, _ => False
    end.
  Proof. induction roots as [|[r f] rest IH]; intros mL mR H Hm; cbn [marg_roots map fst snd]; [exact Hm|].
    destruct (H (r, f) (or_introl eq_refl)) as (Hf & Ho). cbn [fst snd] in *.
    destruct (insL r) as [l|], (insR r) as [xs|]; cbn [orel] in Ho; try tauto.
    apply IH; [intros; apply H; now right|]. apply rel_comb; [exact Hm|]. apply rel_msum.
    apply (vrel_map (s_geom LogER (EFin f)) (s_geom LinR f)); [|exact Ho]. intros a x Ha. now apply rel_geom. Qed.

  (** ** the inside pass in the two spaces *)
  Theorem inside_pass_agree es (roots : list (nat * R)) stL mL stR mR :
    let gs := groupby e_parent es in
    inside_order fixed [] gs ->
    inside_pass LogER G likL sfL fixed priorL true es (map (fun rf => (fst rf, EFin (snd rf))) roots) = Some (stL, mL) ->
    inside_pass LinR G likR sfR fixed priorR true es roots = Some (stR, mR) ->
    (* no linear-space denominator is 0 *)
    (forall g d, In g gs -> fixed (fst g) = false -> i_den LinR stR (fst g) = Some d -> d <> 0) ->
    (* the roots are non-fixed parents with positive span fractions *)
    (forall rf, In rf roots -> 0 < snd rf /\ fixed (fst rf) = false /\ In (fst rf) (map fst gs)) ->
    (forall g, In g gs -> fixed (fst g) = false ->
       exists l xs, i_ins LogER stL (fst g) = Some l /\ i_ins LinR stR (fst g) = Some xs /\ Forall2 rel l xs) /\
    rel mL mR.
  Proof. intros gs Hord HL HR Hnz Hroots. unfold inside_pass in HL, HR. fold gs in HL, HR.
    destruct (inside_groups LogER G likL sfL fixed priorL true (istate0 LogER) gs) as [sL|] eqn:HgL; [|discriminate].
    destruct (inside_groups LinR G likR sfR fixed priorR true (istate0 LinR) gs) as [sR|] eqn:HgR; [|discriminate].
    destruct (inside_groups_spec LogER G likL sfL fixed priorL true gs [] _ _ Hord HgL) as (_ & EL & ML).
    destruct (inside_groups_spec LinR G likR sfR fixed priorR true gs [] _ _ Hord HgR) as (_ & ER' & MR).
    destruct (marg_roots LogER (i_ins LogER sL) (i_marg LogER sL) (map (fun rf => (fst rf, EFin (snd rf))) roots)) as [a|] eqn:Ea; [|discriminate].
    destruct (marg_roots LinR (i_ins LinR sR) (i_marg LinR sR) roots) as [x|] eqn:Ex; [|discriminate].
    assert (EsL : stL = sL) by congruence. assert (EsR : stR = sR) by congruence.
    assert (EaL : a = mL) by congruence. assert (ExR : x = mR) by congruence.
    subst sL sR a x. clear HL HR.
    pose proof (inside_rel_from gs [] (i_ins LogER stL) (i_den LogER stL) (i_ins LinR stR) (i_den LinR stR) Hord
                  (fun u (H : In u []) => match H with end) EL ER' Hnz) as Hrel.
    assert (Hins : forall g, In g gs -> fixed (fst g) = false ->
              exists l xs, i_ins LogER stL (fst g) = Some l /\ i_ins LinR stR (fst g) = Some xs /\ Forall2 rel l xs).
    { intros g Hg Hfx. destruct (Hrel g Hg Hfx) as (Ho & Hsome & _).
      destruct (i_ins LogER stL (fst g)) as [l|]; [|exfalso; now apply Hsome].
      destruct (i_ins LinR stR (fst g)) as [xs|]; cbn [orel] in Ho; [|tauto]. eauto. }
    split; [exact Hins|].
    pose proof (marg_roots_rel (i_ins LogER stL) (i_ins LinR stR) roots (i_marg LogER stL) (i_marg LinR stR)) as Hm.
    rewrite Ea, Ex in Hm. apply Hm.
    - intros rf Hrf. destruct (Hroots rf Hrf) as (Hf & Hfx & Hin). split; [exact Hf|].
      apply in_map_iff in Hin. destruct Hin as (g & Eg & Hg). rewrite <- Eg in *.
      destruct (Hins g Hg Hfx) as (l & xs & -> & -> & Hv). exact Hv.
    - rewrite ML, MR. apply marg_acc_rel; [|apply rel_id].
      intros g Hg Hfx. destruct (Hrel g Hg Hfx) as (_ & _ & Hd). exact Hd. Qed.
End Run.
