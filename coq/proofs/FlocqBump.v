(** * IEEE doubles meet the hypotheses of the abstract forced-pass theorems:
    [x |-> x (+) eps] (round-to-nearest-even addition) is monotone on finite floats
    as long as neither sum overflows.  (Flocq) *)
From Coq Require Import ZArith Reals Lra Psatz.
From Flocq Require Import Core BinarySingleNaN.
Open Scope R_scope.
Section F.
Variable prec emax : Z.
Context (prec_gt_0_ : Prec_gt_0 prec) (Hmax : (prec < emax)%Z).
Let fexp := FLT_exp (3 - emax - prec) prec.
Notation bf := (binary_float prec emax).
Notation bplus := (@Bplus prec emax prec_gt_0_ Hmax mode_NE).

Theorem bump_mono (eps x y : bf) :
  is_finite eps = true -> is_finite x = true -> is_finite y = true ->
  Rabs (round radix2 fexp ZnearestE (B2R x + B2R eps)) < bpow radix2 emax ->
  Rabs (round radix2 fexp ZnearestE (B2R y + B2R eps)) < bpow radix2 emax ->
  B2R x <= B2R y -> B2R (bplus x eps) <= B2R (bplus y eps).
Proof.
  intros He Hx Hy Ox Oy Hxy.
  pose proof (Bplus_correct prec emax prec_gt_0_ Hmax mode_NE x eps Hx He) as Cx.
  pose proof (Bplus_correct prec emax prec_gt_0_ Hmax mode_NE y eps Hy He) as Cy.
  cbn [round_mode] in Cx, Cy.
  assert (Ex : Rlt_bool (Rabs (round radix2 (SpecFloat.fexp prec emax) ZnearestE (B2R x + B2R eps))) (bpow radix2 emax) = true) by (apply Rlt_bool_true; exact Ox).
  assert (Ey : Rlt_bool (Rabs (round radix2 (SpecFloat.fexp prec emax) ZnearestE (B2R y + B2R eps))) (bpow radix2 emax) = true) by (apply Rlt_bool_true; exact Oy).
  rewrite Ex in Cx. rewrite Ey in Cy. destruct Cx as (-> & _). destruct Cy as (-> & _).
  apply round_le; [apply fexp_correct; exact prec_gt_0_ | apply valid_rnd_N | lra].
Qed.
End F.
