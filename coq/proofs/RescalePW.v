(** * The piecewise-linear time map of [piecewise_scale_point_estimate] /
    [piecewise_scale_posterior] over the reals (C25, C37). *)
From Coq Require Import List Arith Lia Bool Reals Lra Psatz.
From TsdateV Require Import lib.Num model.Rescale.
Import ListNotations.
Open Scope R_scope.

(** ** strictly increasing lists *)
Fixpoint incr (l : list R) : Prop :=
  match l with
  | a :: ((b :: _) as r) => a < b /\ incr r
  | _ => True
  end.

Lemma incr_tl a l : incr (a :: l) -> incr l.
Proof. destruct l; cbn; tauto. Qed.

Lemma strict_inc_incr l : strict_inc RNum l = true <-> incr l.
Proof.
  induction l as [|a [|b r] IH]; cbn; try tauto.
  unfold strict_inc in *. cbn [diff tl combine map forallb fst snd] in *.
  rewrite andb_true_iff, IH. cbn [RNum ltb sub zero].
  rewrite Rltb_true. split; intros [H1 H2]; split; try assumption; lra.
Qed.

Lemma incr_nth_lt l : incr l -> forall i j, (i < j < length l)%nat -> nth i l 0 < nth j l 0.
Proof.
  induction l as [|a [|b r] IH]; intros Hi i j Hij; cbn [length] in Hij; try lia.
  destruct Hi as [Hab Hr].
  destruct i as [|i], j as [|j]; try lia.
  - (* i = 0 *) destruct j as [|j]; [exact Hab|].
    cbn [nth]. apply Rlt_trans with b; [exact Hab|].
    apply (IH Hr 0%nat (S j)). cbn [length] in *. lia.
  - apply (IH Hr i j). cbn [length] in *. lia.
Qed.

Lemma incr_nth_le l : incr l -> forall i j, (i <= j < length l)%nat -> nth i l 0 <= nth j l 0.
Proof. intros H i j Hij. destruct (Nat.eq_dec i j) as [->|]; [lra|].
  left. apply incr_nth_lt; [exact H|lia]. Qed.

Lemma incr_nth_inv l : incr l -> forall i j, (i < length l)%nat -> (j < length l)%nat ->
  nth i l 0 < nth j l 0 -> (i < j)%nat.
Proof. intros H i j Hi Hj Hlt. destruct (le_lt_dec j i) as [Hle|]; [|assumption].
  assert (nth j l 0 <= nth i l 0) by (apply incr_nth_le; [exact H|lia]). lra. Qed.

Lemma incr_succ l : (forall i, (S i < length l)%nat -> nth i l 0 < nth (S i) l 0) -> incr l.
Proof.
  induction l as [|a [|b r] IH]; intro H; cbn; try tauto. split.
  - apply (H 0%nat). cbn. lia.
  - apply IH. intros i Hi. apply (H (S i)). cbn [length] in *. lia.
Qed.

(** ** a structurally recursive evaluator, equal to [pw] above the first break *)
Fixpoint pwr (ob rb : list R) (x : R) : R :=
  match ob, rb with
  | o0 :: ((o1 :: _) as ob'), r0 :: ((r1 :: _) as rb') =>
      if Rle_dec o1 x then pwr ob' rb' x else r0 + (r1 - r0) / (o1 - o0) * (x - o0)
  | o0 :: _, r0 :: _ => r0 + 0 * (x - o0)
  | _, _ => 0
  end.

Lemma pwr_cons2 o0 o1 ob r0 r1 rb x :
  pwr (o0 :: o1 :: ob) (r0 :: r1 :: rb) x
  = if Rle_dec o1 x then pwr (o1 :: ob) (r1 :: rb) x else r0 + (r1 - r0) / (o1 - o0) * (x - o0).
Proof. reflexivity. Qed.

Lemma scalings_cons o0 o1 ob r0 r1 rb :
  scalings RNum (o0 :: o1 :: ob) (r0 :: r1 :: rb)
  = (r1 - r0) / (o1 - o0) :: scalings RNum (o1 :: ob) (r1 :: rb).
Proof. reflexivity. Qed.

Lemma ssr_cons b r x : ssr RNum (b :: r) x = if Rle_dec b x then S (ssr RNum r x) else O.
Proof. cbn [ssr RNum leb]. unfold Rleb. destruct (Rle_dec b x); reflexivity. Qed.

Lemma pw_pwr : forall ob rb x, length ob = length rb -> ob <> [] -> nth 0 ob 0 <= x ->
  pw RNum ob rb x = pwr ob rb x.
Proof.
  induction ob as [|o0 ob IH]; intros rb x Hlen Hne H0; [congruence|].
  destruct rb as [|r0 rb]; [discriminate|].
  cbn [nth] in H0.
  destruct ob as [|o1 ob], rb as [|r1 rb]; try discriminate.
  - (* single break *)
    unfold pw, widx. rewrite ssr_cons. destruct (Rle_dec o0 x); [|contradiction].
    cbn. reflexivity.
  - rewrite !pwr_cons2. destruct (Rle_dec o1 x) as [H1|H1].
    + rewrite <- IH; [|cbn in *; lia|discriminate|exact H1].
      unfold pw, widx. rewrite ssr_cons. destruct (Rle_dec o0 x); [|contradiction].
      rewrite (ssr_cons o1). destruct (Rle_dec o1 x); [|contradiction].
      rewrite scalings_cons. unfold nthT. cbn [nth]. reflexivity.
    + unfold pw, widx. rewrite ssr_cons. destruct (Rle_dec o0 x); [|contradiction].
      rewrite (ssr_cons o1). destruct (Rle_dec o1 x); [contradiction|].
      rewrite scalings_cons. unfold nthT. cbn [nth RNum add mul sub]. reflexivity.
Qed.

(** below the first break the index [-1] wraps around to the last break *)
Lemma pw_wrap ob rb x : ob <> [] -> x < nth 0 ob 0 ->
  pw RNum ob rb x = nth (length ob - 1) rb 0
                    + nth (length ob - 1) (scalings RNum ob rb) 0 * (x - nth (length ob - 1) ob 0).
Proof.
  intros Hne Hx. destruct ob as [|o0 ob]; [congruence|]. cbn [nth] in Hx.
  unfold pw, widx. rewrite ssr_cons. destruct (Rle_dec o0 x); [lra|]. reflexivity.
Qed.

(** ** facts about [pwr] for strictly increasing breaks *)
Definition last_of (l : list R) : R := nth (length l - 1) l 0.

Lemma last_of_cons a b l : last_of (a :: b :: l) = last_of (b :: l).
Proof. unfold last_of. cbn [length]. replace (S (S (length l)) - 1)%nat with (S (length l)) by lia.
  replace (S (length l) - 1)%nat with (length l) by lia. reflexivity. Qed.

Lemma pwr_first : forall ob rb, length ob = length rb -> ob <> [] -> incr ob ->
  pwr ob rb (nth 0 ob 0) = nth 0 rb 0.
Proof.
  intros [|o0 [|o1 ob]] [|r0 [|r1 rb]] Hlen Hne Hi; try discriminate; try congruence; cbn.
  - ring.
  - destruct Hi as [H01 _]. destruct (Rle_dec o1 o0); [lra|]. ring.
Qed.

Lemma pwr_ge_first : forall ob rb x, length ob = length rb -> incr ob -> incr rb ->
  nth 0 ob 0 <= x -> nth 0 rb 0 <= pwr ob rb x.
Proof.
  induction ob as [|o0 ob IH]; intros rb x Hlen Hio Hir H0; [destruct rb; [cbn; lra|discriminate]|].
  destruct rb as [|r0 rb]; [discriminate|].
  destruct ob as [|o1 ob], rb as [|r1 rb]; try discriminate; cbn [nth] in *.
  - cbn. lra.
  - rewrite !pwr_cons2. destruct Hio as [Ho Hio], Hir as [Hr Hir]. destruct (Rle_dec o1 x) as [H1|H1].
    + assert (r1 <= pwr (o1 :: ob) (r1 :: rb) x).
      { apply (IH (r1 :: rb) x); [cbn in *; lia|exact Hio|exact Hir|exact H1]. } lra.
    + assert (0 <= (r1 - r0) / (o1 - o0) * (x - o0)); [|lra].
      apply Rmult_le_pos; [|lra]. apply Rlt_le, Rdiv_lt_0_compat; lra.
Qed.

Lemma pwr_le_last : forall ob rb x, length ob = length rb -> incr ob -> incr rb ->
  nth 0 ob 0 <= x -> pwr ob rb x <= last_of rb.
Proof.
  induction ob as [|o0 ob IH]; intros rb x Hlen Hio Hir H0; [destruct rb; [unfold last_of; cbn; lra|discriminate]|].
  destruct rb as [|r0 rb]; [discriminate|].
  destruct ob as [|o1 ob], rb as [|r1 rb]; try discriminate; cbn [nth] in *.
  - cbn. lra.
  - rewrite last_of_cons. rewrite !pwr_cons2. destruct Hio as [Ho Hio], Hir as [Hr Hir].
    destruct (Rle_dec o1 x) as [H1|H1].
    + apply (IH (r1 :: rb) x); [cbn in *; lia|exact Hio|exact Hir|exact H1].
    + assert (Hl : r1 <= last_of (r1 :: rb)).
      { unfold last_of. apply (incr_nth_le (r1 :: rb) Hir 0%nat). cbn [length]. lia. }
      assert ((r1 - r0) / (o1 - o0) * (x - o0) <= (r1 - r0) / (o1 - o0) * (o1 - o0)).
      { apply Rmult_le_compat_l; [|lra]. apply Rlt_le, Rdiv_lt_0_compat; lra. }
      replace ((r1 - r0) / (o1 - o0) * (o1 - o0)) with (r1 - r0) in H by (field; lra). lra.
Qed.

Lemma pwr_mono : forall ob rb x y, length ob = length rb -> incr ob -> incr rb ->
  nth 0 ob 0 <= x -> x <= y -> pwr ob rb x <= pwr ob rb y.
Proof.
  induction ob as [|o0 ob IH]; intros rb x y Hlen Hio Hir H0 Hxy; [destruct rb; [cbn; lra|discriminate]|].
  destruct rb as [|r0 rb]; [discriminate|].
  destruct ob as [|o1 ob], rb as [|r1 rb]; try discriminate; cbn [nth] in *.
  - cbn. lra.
  - rewrite !pwr_cons2. destruct Hio as [Ho Hio], Hir as [Hr Hir].
    assert (Hs : 0 < (r1 - r0) / (o1 - o0)) by (apply Rdiv_lt_0_compat; lra).
    destruct (Rle_dec o1 x) as [H1|H1], (Rle_dec o1 y) as [H2|H2]; try lra.
    + apply (IH (r1 :: rb)); [cbn in *; lia|exact Hio|exact Hir|exact H1|exact Hxy].
    + assert (Ha : r1 <= pwr (o1 :: ob) (r1 :: rb) y).
      { apply (pwr_ge_first (o1 :: ob) (r1 :: rb) y); [cbn in *; lia|exact Hio|exact Hir|exact H2]. }
      assert (Hb : (r1 - r0) / (o1 - o0) * (x - o0) <= (r1 - r0) / (o1 - o0) * (o1 - o0)).
      { apply Rmult_le_compat_l; lra. }
      replace ((r1 - r0) / (o1 - o0) * (o1 - o0)) with (r1 - r0) in Hb by (field; lra). lra.
    + assert ((r1 - r0) / (o1 - o0) * (x - o0) <= (r1 - r0) / (o1 - o0) * (y - o0)).
      { apply Rmult_le_compat_l; lra. } lra.
Qed.

Lemma pwr_strict : forall ob rb x y, length ob = length rb -> incr ob -> incr rb ->
  nth 0 ob 0 <= x -> x < y -> y <= last_of ob -> pwr ob rb x < pwr ob rb y.
Proof.
  induction ob as [|o0 ob IH]; intros rb x y Hlen Hio Hir H0 Hxy Hy.
  { unfold last_of in Hy. cbn in *. lra. }
  destruct rb as [|r0 rb]; [discriminate|].
  destruct ob as [|o1 ob], rb as [|r1 rb]; try discriminate; cbn [nth] in *.
  - unfold last_of in Hy. cbn in Hy. lra.
  - rewrite last_of_cons in Hy. rewrite !pwr_cons2. destruct Hio as [Ho Hio], Hir as [Hr Hir].
    assert (Hs : 0 < (r1 - r0) / (o1 - o0)) by (apply Rdiv_lt_0_compat; lra).
    destruct (Rle_dec o1 x) as [H1|H1], (Rle_dec o1 y) as [H2|H2]; try lra.
    + apply (IH (r1 :: rb)); [cbn in *; lia|exact Hio|exact Hir|exact H1|exact Hxy|exact Hy].
    + assert (Ha : r1 <= pwr (o1 :: ob) (r1 :: rb) y).
      { apply (pwr_ge_first (o1 :: ob) (r1 :: rb) y); [cbn in *; lia|exact Hio|exact Hir|exact H2]. }
      assert (Hb : (r1 - r0) / (o1 - o0) * (x - o0) < (r1 - r0) / (o1 - o0) * (o1 - o0)).
      { apply Rmult_lt_compat_l; lra. }
      replace ((r1 - r0) / (o1 - o0) * (o1 - o0)) with (r1 - r0) in Hb by (field; lra). lra.
    + assert ((r1 - r0) / (o1 - o0) * (x - o0) < (r1 - r0) / (o1 - o0) * (y - o0)).
      { apply Rmult_lt_compat_l; lra. } lra.
Qed.

Lemma pwr_after_last : forall ob rb x, length ob = length rb -> ob <> [] -> incr ob ->
  last_of ob <= x -> pwr ob rb x = last_of rb.
Proof.
  induction ob as [|o0 ob IH]; intros rb x Hlen Hne Hio Hx; [congruence|].
  destruct rb as [|r0 rb]; [discriminate|].
  destruct ob as [|o1 ob], rb as [|r1 rb]; try discriminate.
  - unfold last_of. cbn. ring.
  - rewrite last_of_cons in *. rewrite !pwr_cons2. destruct Hio as [Ho Hio].
    assert (o1 <= last_of (o1 :: ob)).
    { unfold last_of. apply (incr_nth_le (o1 :: ob) Hio 0%nat). cbn [length]. lia. }
    destruct (Rle_dec o1 x); [|lra].
    apply IH; [cbn in *; lia|discriminate|exact Hio|exact Hx].
Qed.

(** interpolation: on [ob_i, ob_{i+1}) the map is the chord through the two break pairs *)
Lemma pwr_interp : forall ob rb i x, length ob = length rb -> incr ob ->
  (S i < length ob)%nat -> nth i ob 0 <= x -> x < nth (S i) ob 0 ->
  pwr ob rb x = nth i rb 0 + (nth (S i) rb 0 - nth i rb 0) / (nth (S i) ob 0 - nth i ob 0) * (x - nth i ob 0).
Proof.
  induction ob as [|o0 ob IH]; intros rb i x Hlen Hio Hi Hlo Hhi; [cbn in Hi; lia|].
  destruct rb as [|r0 rb]; [discriminate|].
  destruct ob as [|o1 ob], rb as [|r1 rb]; try discriminate; [cbn in Hi; lia|].
  destruct Hio as [Ho Hio]. rewrite !pwr_cons2. destruct i as [|i].
  - cbn [nth] in *. destruct (Rle_dec o1 x); [lra|]. reflexivity.
  - change (nth (S i) (o0 :: o1 :: ob) 0) with (nth i (o1 :: ob) 0) in *.
    change (nth (S (S i)) (o0 :: o1 :: ob) 0) with (nth (S i) (o1 :: ob) 0) in *.
    change (nth (S i) (r0 :: r1 :: rb) 0) with (nth i (r1 :: rb) 0).
    change (nth (S (S i)) (r0 :: r1 :: rb) 0) with (nth (S i) (r1 :: rb) 0).
    assert (o1 <= nth i (o1 :: ob) 0).
    { apply (incr_nth_le (o1 :: ob) Hio 0%nat i). cbn [length] in *. lia. }
    destruct (Rle_dec o1 x); [|lra].
    apply IH; [cbn in *; lia|exact Hio|cbn [length] in *; lia|exact Hlo|exact Hhi].
Qed.

(** Lipschitz bound: the largest slope *)
Fixpoint smax (ob rb : list R) : R :=
  match ob, rb with
  | o0 :: ((o1 :: _) as ob'), r0 :: ((r1 :: _) as rb') => Rmax ((r1 - r0) / (o1 - o0)) (smax ob' rb')
  | _, _ => 0
  end.

Lemma smax_cons2 o0 o1 ob r0 r1 rb :
  smax (o0 :: o1 :: ob) (r0 :: r1 :: rb) = Rmax ((r1 - r0) / (o1 - o0)) (smax (o1 :: ob) (r1 :: rb)).
Proof. reflexivity. Qed.

Lemma smax_nonneg : forall ob rb, 0 <= smax ob rb.
Proof.
  induction ob as [|o0 ob IH]; intros rb; [cbn; lra|].
  destruct rb as [|r0 rb]; [cbn; destruct ob; lra|].
  destruct ob as [|o1 ob], rb as [|r1 rb]; try (cbn [smax]; lra). rewrite smax_cons2.
  eapply Rle_trans; [apply (IH (r1 :: rb))|apply Rmax_r].
Qed.

Lemma pwr_lipschitz : forall ob rb x y, length ob = length rb -> ob <> [] -> incr ob -> incr rb ->
  nth 0 ob 0 <= x -> x <= y -> pwr ob rb y - pwr ob rb x <= smax ob rb * (y - x).
Proof.
  induction ob as [|o0 ob IH]; intros rb x y Hlen Hne Hio Hir H0 Hxy; [congruence|].
  destruct rb as [|r0 rb]; [discriminate|].
  destruct ob as [|o1 ob], rb as [|r1 rb]; try discriminate; cbn [nth] in *.
  - cbn. lra.
  - rewrite !pwr_cons2, smax_cons2. destruct Hio as [Ho Hio], Hir as [Hr Hir].
    set (s := (r1 - r0) / (o1 - o0)). set (L' := smax (o1 :: ob) (r1 :: rb)).
    assert (Hs : 0 < s) by (apply Rdiv_lt_0_compat; lra).
    assert (HL' : 0 <= L') by apply smax_nonneg.
    assert (HsL : s <= Rmax s L') by apply Rmax_l.
    assert (HLL : L' <= Rmax s L') by apply Rmax_r.
    destruct (Rle_dec o1 x) as [H1|H1], (Rle_dec o1 y) as [H2|H2]; try lra.
    + assert (pwr (o1 :: ob) (r1 :: rb) y - pwr (o1 :: ob) (r1 :: rb) x <= L' * (y - x)).
      { apply (IH (r1 :: rb)); [cbn in *; lia|discriminate|exact Hio|exact Hir|exact H1|exact Hxy]. }
      assert (L' * (y - x) <= Rmax s L' * (y - x)) by (apply Rmult_le_compat_r; lra). lra.
    + assert (E : pwr (o1 :: ob) (r1 :: rb) o1 = r1).
      { apply (pwr_first (o1 :: ob) (r1 :: rb)); [cbn in *; lia|discriminate|exact Hio]. }
      assert (pwr (o1 :: ob) (r1 :: rb) y - pwr (o1 :: ob) (r1 :: rb) o1 <= L' * (y - o1)).
      { apply (IH (r1 :: rb)); [cbn in *; lia|discriminate|exact Hio|exact Hir|cbn; lra|exact H2]. }
      rewrite E in H.
      assert (L' * (y - o1) <= Rmax s L' * (y - o1)) by (apply Rmult_le_compat_r; lra).
      assert (E2 : s * (o1 - o0) = r1 - r0) by (unfold s; field; lra).
      assert (s * (o1 - x) <= Rmax s L' * (o1 - x)) by (apply Rmult_le_compat_r; lra).
      nra.
    + assert (s * (y - x) <= Rmax s L' * (y - x)) by (apply Rmult_le_compat_r; lra). nra.
Qed.

(** ** the statements about [pw] used by the property files *)
Section PW.
  Variables ob rb : list R.
  Hypothesis Hok : breaks_ok RNum ob rb = true.
  Hypothesis Ho0 : nth 0 ob 0 = 0.
  Hypothesis Hr0 : nth 0 rb 0 = 0.

  Lemma ok_parts : incr ob /\ incr rb /\ length ob = length rb /\ ob <> [].
  Proof.
    unfold breaks_ok in Hok. rewrite !andb_true_iff in Hok. destruct Hok as [[[H1 H2] H3] H4].
    apply strict_inc_incr in H1, H2. apply Nat.eqb_eq in H3.
    repeat split; try assumption. intros ->. discriminate.
  Qed.

  Lemma pw_eq x : 0 <= x -> pw RNum ob rb x = pwr ob rb x.
  Proof. intro Hx. destruct ok_parts as (_ & _ & Hl & Hne). apply pw_pwr; try assumption. lra. Qed.

  Lemma pw_zero : pw RNum ob rb 0 = 0.
  Proof. destruct ok_parts as (Hio & _ & Hl & Hne). rewrite pw_eq by lra.
    pose proof (pwr_first ob rb Hl Hne Hio) as E. rewrite Ho0, Hr0 in E. exact E. Qed.

  Lemma pw_nonneg x : 0 <= x -> 0 <= pw RNum ob rb x.
  Proof. intro Hx. destruct ok_parts as (Hio & Hir & Hl & Hne). rewrite pw_eq by assumption.
    rewrite <- Hr0. apply pwr_ge_first; try assumption. lra. Qed.

  Lemma pw_mono x y : 0 <= x -> x <= y -> pw RNum ob rb x <= pw RNum ob rb y.
  Proof. intros Hx Hxy. destruct ok_parts as (Hio & Hir & Hl & Hne).
    rewrite !pw_eq by lra. apply pwr_mono; try assumption. lra. Qed.

  Lemma pw_strict x y : 0 <= x -> x < y -> y <= last_of ob -> pw RNum ob rb x < pw RNum ob rb y.
  Proof. intros Hx Hxy Hy. destruct ok_parts as (Hio & Hir & Hl & Hne).
    rewrite !pw_eq by lra. apply pwr_strict; try assumption. lra. Qed.

  Lemma pw_after_last x : last_of ob <= x -> pw RNum ob rb x = last_of rb.
  Proof. intro Hx. destruct ok_parts as (Hio & Hir & Hl & Hne).
    assert (0 <= last_of ob).
    { pose proof (incr_nth_le ob Hio 0%nat (length ob - 1)) as E. rewrite Ho0 in E. apply E.
      destruct ob; [congruence|cbn [length]; lia]. }
    rewrite pw_eq by lra. apply pwr_after_last; assumption. Qed.

  (** with at least two breaks the map is positive on positive times *)
  Lemma pw_pos x : (2 <= length ob)%nat -> 0 < x -> 0 < pw RNum ob rb x.
  Proof. intros H2 Hx. destruct ok_parts as (Hio & Hir & Hl & Hne).
    destruct (Rle_dec x (last_of ob)) as [Hle|Hgt].
    - rewrite <- pw_zero. apply pw_strict; lra.
    - rewrite pw_after_last by lra.
      pose proof (incr_nth_lt rb Hir 0%nat (length rb - 1)) as E. rewrite Hr0 in E. apply E. lia.
  Qed.

  Lemma pw_interp i x : (S i < length ob)%nat -> nth i ob 0 <= x -> x < nth (S i) ob 0 ->
    pw RNum ob rb x
    = nth i rb 0 + (nth (S i) rb 0 - nth i rb 0) / (nth (S i) ob 0 - nth i ob 0) * (x - nth i ob 0).
  Proof. intros Hi Hlo Hhi. destruct ok_parts as (Hio & Hir & Hl & Hne).
    assert (0 <= nth i ob 0).
    { pose proof (incr_nth_le ob Hio 0%nat i) as E. rewrite Ho0 in E. apply E. lia. }
    rewrite pw_eq by lra. apply pwr_interp; assumption. Qed.

  Lemma pw_at_break i : (i < length ob)%nat -> pw RNum ob rb (nth i ob 0) = nth i rb 0.
  Proof. intros Hi. destruct ok_parts as (Hio & Hir & Hl & Hne).
    destruct (Nat.eq_dec (S i) (length ob)) as [E|E].
    - replace i with (length ob - 1)%nat at 1 by lia. fold (last_of ob).
      rewrite pw_after_last by lra. unfold last_of. f_equal. lia.
    - rewrite (pw_interp i); [|lia|lra|apply incr_nth_lt; [exact Hio|lia]].
      replace (nth i ob 0 - nth i ob 0) with 0 by lra. rewrite Rmult_0_r, Rplus_0_r. reflexivity.
  Qed.

  Lemma pw_lipschitz x y : 0 <= x -> 0 <= y ->
    Rabs (pw RNum ob rb y - pw RNum ob rb x) <= smax ob rb * Rabs (y - x).
  Proof. intros Hx Hy. destruct ok_parts as (Hio & Hir & Hl & Hne).
    rewrite !pw_eq by assumption.
    destruct (Rle_dec x y) as [Hxy|Hxy].
    - assert (pwr ob rb x <= pwr ob rb y) by (apply pwr_mono; try assumption; lra).
      rewrite !Rabs_pos_eq by lra. apply pwr_lipschitz; try assumption. lra.
    - assert (pwr ob rb y <= pwr ob rb x) by (apply pwr_mono; try assumption; lra).
      rewrite (Rabs_minus_sym (pwr ob rb y)), (Rabs_minus_sym y).
      rewrite !Rabs_pos_eq by lra. apply pwr_lipschitz; try assumption; lra.
  Qed.

  (** continuity on [0, infinity), epsilon-delta form *)
  Lemma pw_continuous x : 0 <= x -> forall eps, 0 < eps -> exists delta, 0 < delta /\
    forall y, 0 <= y -> Rabs (y - x) < delta -> Rabs (pw RNum ob rb y - pw RNum ob rb x) < eps.
  Proof.
    intros Hx eps Heps. pose proof (smax_nonneg ob rb) as HL.
    exists (eps / (smax ob rb + 1)). split; [apply Rdiv_lt_0_compat; lra|].
    intros y Hy Hd. eapply Rle_lt_trans; [apply pw_lipschitz; assumption|].
    apply Rle_lt_trans with ((smax ob rb + 1) * Rabs (y - x)).
    - apply Rmult_le_compat_r; [apply Rabs_pos|lra].
    - apply Rlt_le_trans with ((smax ob rb + 1) * (eps / (smax ob rb + 1))).
      + apply Rmult_lt_compat_l; lra.
      + right. field. lra.
  Qed.
End PW.
