(** * Over the reals the order of the edges INSIDE a parent group does not matter either
    (renumbering the children permutes a parent's edges in the tskit edge table). *)
From Coq Require Import List Arith Bool Lia Reals Lra Permutation.
From TsdateV Require Import lib.Num model.Discrete proofs.DiscreteBase proofs.DiscreteInside.
Import ListNotations.
Open Scope R_scope.

Lemma vcomb_swap (v a b : list R) : vcomb LinR (vcomb LinR v a) b = vcomb LinR (vcomb LinR v b) a.
Proof. apply (nth_ext _ _ 0 0).
  - rewrite !(vcomb_length LinR). lia.
  - intros t Ht. rewrite !(vcomb_length LinR) in Ht.
    rewrite !(vcomb_nth LinR) by (rewrite ?(vcomb_length LinR); lia).
    cbn [s_comb LinR LinSpace mul RNum]. ring. Qed.

Section Perm.
  Variable G : nat.
  Variable lik : nat -> nat -> nat -> R.
  Variable sfrac : nat -> R.
  Variable fixed : nat -> bool.
  Variable prior : nat -> list R.
  Notation fold_msgs := (fold_msgs LinR G lik sfrac fixed).
  Notation edge_msg := (edge_msg LinR G lik sfrac fixed).
  Notation group_eq := (group_eq LinR G lik sfrac fixed prior).

  Lemma fold_msgs_perm ins es es' : Permutation es es' -> forall v, fold_msgs ins v es = fold_msgs ins v es'.
  Proof. induction 1 as [|e l l' Hp IH|e1 e2 l|l1 l2 l3 H1 IH1 H2 IH2]; intro v; cbn [DiscreteInside.fold_msgs].
    - reflexivity.
    - destruct (edge_msg ins e); [apply IH|reflexivity].
    - destruct (edge_msg ins e1) as [m1|], (edge_msg ins e2) as [m2|]; try reflexivity. now rewrite vcomb_swap.
    - now rewrite IH1, IH2. Qed.

  Lemma inside_unique_perm std : forall gs seen ins1 den1 ins2 den2,
    inside_order fixed seen gs ->
    (forall u, In u seen -> ins1 u = ins2 u) ->
    (forall g, In g gs -> group_eq std ins1 den1 g) ->
    (forall g, In g gs -> exists es', Permutation (snd g) es' /\ group_eq std ins2 den2 (fst g, es')) ->
    forall g, In g gs -> fixed (fst g) = false ->
      ins1 (fst g) = ins2 (fst g) /\ den1 (fst g) = den2 (fst g).
  Proof. induction gs as [|[p es] r IH]; intros seen ins1 den1 ins2 den2 Hord Hseen H1 H2 g Hg Hfx; [destruct Hg|].
    destruct Hord as (Hn & Hkids & Hord).
    assert (Hp : fixed p = false -> ins1 p = ins2 p /\ den1 p = den2 p).
    { intro Hfp. destruct (H1 (p, es) (or_introl eq_refl) Hfp) as (v1 & Hv1 & Hi1 & Hd1).
      destruct (H2 (p, es) (or_introl eq_refl)) as (es' & Hperm & Heq2). destruct (Heq2 Hfp) as (v2 & Hv2 & Hi2 & Hd2).
      cbn [fst snd] in *.
      assert (E : v1 = v2).
      { rewrite <- (fold_msgs_perm ins2 es es' Hperm) in Hv2.
        rewrite (fold_msgs_ext LinR G lik sfrac fixed ins1 ins2) in Hv1; [congruence|].
        intros e He Hfc. apply Hseen. destruct (Hkids e He); [congruence|assumption]. }
      subst v2. rewrite Hi1, Hi2, Hd1, Hd2. auto. }
    destruct Hg as [<-|Hg]; [exact (Hp Hfx)|].
    apply (IH (if fixed p then seen else p :: seen) ins1 den1 ins2 den2 Hord); try assumption.
    - intros u Hu. destruct (fixed p) eqn:Hfp; [now apply Hseen|].
      destruct Hu as [<-|Hu]; [now apply Hp|now apply Hseen].
    - intros; apply H1; now right.
    - intros; apply H2; now right. Qed.

  (** two valid orders whose parent groups carry the same edges, possibly in a different order
      within each group, give the same inside values and denominators *)
  Theorem inside_group_order_independent std gs1 gs2 st1 st2 s1 s2 :
    inside_order fixed [] gs1 -> inside_order fixed [] gs2 ->
    (forall g, In g gs1 -> exists es', Permutation (snd g) es' /\ In (fst g, es') gs2) ->
    inside_groups LinR G lik sfrac fixed prior std s1 gs1 = Some st1 ->
    inside_groups LinR G lik sfrac fixed prior std s2 gs2 = Some st2 ->
    forall g, In g gs1 -> fixed (fst g) = false ->
      i_ins LinR st1 (fst g) = i_ins LinR st2 (fst g) /\ i_den LinR st1 (fst g) = i_den LinR st2 (fst g).
  Proof. intros Ho1 Ho2 Hsame H1 H2.
    destruct (inside_groups_spec LinR G lik sfrac fixed prior std gs1 [] s1 st1 Ho1 H1) as (_ & E1 & _).
    destruct (inside_groups_spec LinR G lik sfrac fixed prior std gs2 [] s2 st2 Ho2 H2) as (_ & E2 & _).
    apply (inside_unique_perm std gs1 [] _ _ _ _ Ho1); [intros ? []|exact E1|].
    intros g Hg. destruct (Hsame g Hg) as (es' & Hperm & Hin). exists es'. split; [exact Hperm|]. now apply E2. Qed.
End Perm.
