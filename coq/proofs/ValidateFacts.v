(** * Facts about the validation model [model/Validate.v] (C35) *)
From Coq Require Import List ZArith QArith Bool Btauto.
From TsdateV Require Import model.Validate.
Import ListNotations.

(** ** Declarative specification, written from the documentation / property text,
    independent of the order in which the code performs its checks *)

(** keywords the chosen method does not accept (Python answers TypeError) *)
Definition foreign_kwargs (p : params) : bool :=
  match p_method p with
  | None | Some MVariational =>
      given (p_Ne p) || negb (match p_probability_space p with PSNone => true | _ => false end)
      || given (p_num_threads p) || p_io_only p
  | Some MInsideOutside => given (p_max_iterations p) || given (p_max_shape p) || p_var_only p
  | Some MMaximization => given (p_max_iterations p) || given (p_max_shape p) || p_var_only p || p_io_only p
  | Some MUnknown => false
  end.

Definition ok_opt (test : num -> bool) (o : option num) : bool :=
  match o with None => true | Some n => test n end.

(** min_branch_length is positive and finite (not NaN, not inf); constr_iterations is a
    non-negative int *)
Definition ok_mbl (p : params) : bool := ok_opt (fun n => gt0 n && finite n) (p_min_branch_length p).
Definition ok_constr (p : params) : bool := ok_opt (fun n => is_int n && ge0 n) (p_constr_iterations p).
Definition ok_maxiter (p : params) : bool := ok_opt gt0 (p_max_iterations p).
(** mutation rate given and positive *)
Definition ok_rate (p : params) : bool :=
  match p_mutation_rate p with None => false | Some n => gt0 n end.

Definition ok_common (p : params) : bool :=
  negb (p_return_posteriors p) && negb (given (p_recombination_rate p)) && ok_constr p && ok_mbl p.

(** the population size a discrete method ends up with: exactly one of Ne / population_size *)
Definition eff_pop (p : params) : option popsize :=
  match p_Ne p with
  | None => Some (p_population_size p)
  | Some n => if pop_given (p_population_size p) then None else Some (PopNum n)
  end.

Definition ok_popsize (pop : popsize) : bool :=
  match pop with
  | PopNone => false
  | PopNum n => gt0 n && finite n
  | PopDict ok => ok
  | PopObj => true
  end.

(** priors xor a valid population size; with a population size the tree sequence must be
    acceptable to the prior builder *)
Definition ok_prior_source (p : params) (f : tsfacts) : bool :=
  match eff_pop p with
  | None => false
  | Some pop =>
      if p_priors p then negb (pop_given pop)
      else ok_popsize pop && negb (f_prior_ts_err f)
  end.

Definition ok_pspace (p : params) : bool :=
  match p_probability_space p with PSOther => false | _ => true end.

Definition valid_spec (p : params) (f : tsfacts) : bool :=
  match p_method p with
  | None | Some MVariational =>
      negb (foreign_kwargs p) && ok_common p
      && negb (given (p_eps p)) && negb (f_nomut f)
      && negb (p_priors p) && negb (pop_given (p_population_size p))
      && ok_maxiter p && ok_rate p
      && (truthy (p_allow_unary p) || negb (f_unary f))
  | Some MInsideOutside =>
      negb (foreign_kwargs p) && ok_common p && ok_prior_source p f
      && (given (p_mutation_rate p) || negb (f_multitree f))
      && ok_pspace p && f_contemporary f
  | Some MMaximization =>
      negb (foreign_kwargs p) && ok_common p && ok_prior_source p f
      && given (p_mutation_rate p)
      && ok_pspace p && f_contemporary f
  | Some MUnknown => false
  end.

(** the invalid inputs listed in the property statement *)
Definition is_variational (p : params) : bool :=
  match p_method p with None | Some MVariational => true | _ => false end.

Definition listed_invalid (p : params) (f : tsfacts) : bool :=
  match p_method p with Some MUnknown => true | _ => false end   (* unknown method *)
  || given (p_recombination_rate p)                               (* recombination rate *)
  || negb (ok_mbl p)                                              (* non-positive / NaN / infinite min_branch_length *)
  || negb (ok_constr p)                                           (* negative / non-integer constr_iterations *)
  || is_variational p &&
     (negb (ok_maxiter p)                                         (* max_iterations <= 0 *)
      || negb (ok_opt gt0 (p_mutation_rate p))                    (* non-positive / NaN mutation rate *)
      || pop_given (p_population_size p)                          (* population size where unused *)
      || p_priors p                                               (* priors where unused *)
      || given (p_eps p)                                          (* eps *)
      || f_nomut f).                                              (* no mutations *)

(** exception class belonging to each message *)
Definition class_of (t : tag) : eclass :=
  match t with
  | T_unexpected_kwarg => TE
  | T_recombination | T_topology_clock | T_samples_time0 => NIE
  | _ => VE
  end.

(** what must be true of the input when a given message is raised *)
Definition tag_cond (t : tag) (p : params) (f : tsfacts) : bool :=
  match t with
  | T_method => match p_method p with Some MUnknown => true | _ => false end
  | T_eps_variational => is_variational p && given (p_eps p)
  | T_no_mutations => is_variational p && f_nomut f
  | T_unexpected_kwarg => foreign_kwargs p
  | T_return_posteriors => p_return_posteriors p
  | T_recombination => given (p_recombination_rate p)
  | T_popsize_dict => match p_population_size p with PopDict false => true | _ => false end
  | T_constr_iterations => negb (ok_constr p)
  | T_min_branch_length => negb (ok_mbl p)
  | T_priors_unused => is_variational p && p_priors p
  | T_popsize_unused => is_variational p && pop_given (p_population_size p)
  | T_popsize_required =>
      negb (is_variational p) && negb (p_priors p)
      && negb (pop_given (p_population_size p)) && negb (given (p_Ne p))
  | T_prior_ts => negb (is_variational p) && f_prior_ts_err f
  | T_popsize_nonpositive =>
      negb (is_variational p) &&
      match eff_pop p with Some (PopNum n) => negb (gt0 n) | _ => false end
  | T_popsize_infinite =>
      negb (is_variational p) &&
      match eff_pop p with Some (PopNum n) => negb (finite n) | _ => false end
  | T_popsize_and_priors =>
      negb (is_variational p) && p_priors p
      && (pop_given (p_population_size p) || given (p_Ne p))
  | T_ne_both => negb (is_variational p) && given (p_Ne p) && pop_given (p_population_size p)
  | T_max_iterations => is_variational p && negb (ok_maxiter p)
  | T_variational_needs_rate => is_variational p && negb (given (p_mutation_rate p))
  | T_rate_positive => is_variational p && negb (ok_opt gt0 (p_mutation_rate p))
  | T_unary => is_variational p && f_unary f && negb (truthy (p_allow_unary p))
  | T_topology_clock =>
      match p_method p with Some MInsideOutside => true | _ => false end
      && negb (given (p_mutation_rate p)) && f_multitree f
  | T_maximization_needs_rate =>
      match p_method p with Some MMaximization => true | _ => false end
      && negb (given (p_mutation_rate p))
  | T_samples_time0 => negb (is_variational p) && negb (f_contemporary f)
  | T_probability_space => negb (is_variational p) && negb (ok_pspace p)
  end.

(** ** Algebra of the check chain *)
Definition okb (o : outcome) : bool := match o with Proceed => true | _ => false end.

Lemma okb_proceed o : o = Proceed <-> okb o = true.
Proof. destruct o; simpl; split; intros; congruence. Qed.
Lemma okb_andthen a b : okb (a >> b) = okb a && okb b.
Proof. destruct a; reflexivity. Qed.
Lemma okb_check b c t : okb (check b c t) = negb b.
Proof. destruct b; reflexivity. Qed.

Lemma andthen_reject a b c t :
  a >> b = Reject c t -> a = Reject c t \/ (a = Proceed /\ b = Reject c t).
Proof. destruct a; simpl; intros H; [right; split; [reflexivity | exact H] | left; exact H]. Qed.
Lemma check_reject b c t c' t' :
  check b c t = Reject c' t' -> b = true /\ c' = c /\ t' = t.
Proof. destruct b; simpl; intros H; inversion H; auto. Qed.

Lemma andthen_proceed a b : a >> b = Proceed -> a = Proceed /\ b = Proceed.
Proof. destruct a; simpl; intros H; [split; [reflexivity | exact H] | discriminate H]. Qed.

(** split a failing chain into the single failing check *)
Ltac chain :=
  repeat match goal with
  | H : _ >> _ = Proceed |- _ => apply andthen_proceed in H; destruct H as [? ?]
  | H : _ >> _ = Reject _ _ |- _ =>
      apply andthen_reject in H; destruct H as [H | [? H]]
  | H : check _ _ _ = Reject _ _ |- _ =>
      apply check_reject in H; destruct H as (H & ? & ?); subst
  | H : Proceed = Reject _ _ |- _ => discriminate H
  end.

(** ** Accept  <->  valid *)
Lemma init_ok variational pop p f :
  okb (init_checks variational pop p f) =
  negb (p_return_posteriors p) && negb (given (p_recombination_rate p))
  && negb (match pop with PopDict false => true | _ => false end)
  && ok_constr p && ok_mbl p
  && (if variational then negb (p_priors p) && negb (pop_given pop)
      else if p_priors p then negb (pop_given pop)
      else ok_popsize pop && negb (f_prior_ts_err f)).
Proof.
  unfold init_checks, ok_constr, ok_mbl, ok_opt.
  rewrite !okb_andthen, !okb_check.
  destruct (p_constr_iterations p), (p_min_branch_length p); simpl;
  destruct variational, (p_priors p); simpl;
  rewrite ?okb_andthen, ?okb_check;
  destruct pop as [|m|[]|]; simpl; rewrite ?okb_andthen, ?okb_check, ?negb_involutive;
  try btauto.
Qed.

Lemma beq_iff (a b : bool) : a = b -> (a = true <-> b = true).
Proof. intros E; subst; reflexivity. Qed.
Ltac beq := apply beq_iff; btauto.

Theorem accept_iff_valid p f : decide p f = Proceed <-> valid_spec p f = true.
Proof.
  rewrite okb_proceed.
  unfold decide, valid_spec, foreign_kwargs.
  destruct (p_method p) as [[| | |]|].
  - (* variational *)
    unfold variational_gamma. rewrite !okb_andthen, !okb_check, init_ok.
    unfold ok_common, ok_maxiter, ok_rate, ok_opt.
    destruct (p_population_size p) as [|m|[]|], (p_max_iterations p), (p_mutation_rate p); simpl;
      rewrite ?negb_involutive; beq.
  - (* inside_outside *)
    unfold inside_outside, main_algorithm, alias_ne, ok_prior_source, eff_pop, ok_pspace.
    destruct (p_Ne p), (p_population_size p) as [|m|[]|], (p_probability_space p); simpl;
      rewrite ?okb_andthen, ?okb_check, ?init_ok; unfold ok_common; simpl;
      rewrite ?negb_involutive; try beq.
    all: destruct (p_priors p); simpl; beq.
  - (* maximization *)
    unfold maximization, main_algorithm, alias_ne, ok_prior_source, eff_pop, ok_pspace.
    destruct (p_Ne p), (p_population_size p) as [|m|[]|], (p_probability_space p); simpl;
      rewrite ?okb_andthen, ?okb_check, ?init_ok; unfold ok_common; simpl;
      rewrite ?negb_involutive; try beq.
    all: destruct (p_priors p); simpl; beq.
  - simpl. split; discriminate.
  - unfold variational_gamma. rewrite !okb_andthen, !okb_check, init_ok.
    unfold ok_common, ok_maxiter, ok_rate, ok_opt.
    destruct (p_population_size p) as [|m|[]|], (p_max_iterations p), (p_mutation_rate p); simpl;
      rewrite ?negb_involutive; beq.
Qed.

(** ** Every rejection is justified, and its class is the class of its message *)
Lemma init_reject variational pop p f c t :
  init_checks variational pop p f = Reject c t ->
  c = class_of t /\
  match t with
  | T_return_posteriors => p_return_posteriors p = true
  | T_recombination => given (p_recombination_rate p) = true
  | T_popsize_dict => pop = PopDict false
  | T_constr_iterations => ok_constr p = false
  | T_min_branch_length => ok_mbl p = false
  | T_priors_unused => variational = true /\ p_priors p = true
  | T_popsize_unused => variational = true /\ pop_given pop = true
  | T_popsize_required => variational = false /\ p_priors p = false /\ pop = PopNone
  | T_prior_ts => variational = false /\ f_prior_ts_err f = true
  | T_popsize_nonpositive => variational = false /\ exists n, pop = PopNum n /\ gt0 n = false
  | T_popsize_infinite => variational = false /\ exists n, pop = PopNum n /\ finite n = false
  | T_popsize_and_priors => variational = false /\ p_priors p = true /\ pop_given pop = true
  | _ => False
  end.
Proof.
  unfold init_checks, ok_constr, ok_mbl, ok_opt. intros H.
  destruct variational.
  - chain; simpl; auto.
    + destruct pop as [|m|[]|]; try discriminate; auto.
    + destruct (p_constr_iterations p); try discriminate. split; auto. now apply negb_true_iff.
    + destruct (p_min_branch_length p); try discriminate. split; auto. now apply negb_true_iff.
  - destruct (p_priors p) eqn:Ep; simpl in H.
    + chain; simpl; auto.
      * destruct pop as [|m|[]|]; try discriminate; auto.
      * destruct (p_constr_iterations p); try discriminate. split; auto. now apply negb_true_iff.
      * destruct (p_min_branch_length p); try discriminate. split; auto. now apply negb_true_iff.
    + chain; simpl; auto.
      * destruct pop as [|m|[]|]; try discriminate; auto.
      * destruct (p_constr_iterations p); try discriminate. split; auto. now apply negb_true_iff.
      * destruct (p_min_branch_length p); try discriminate. split; auto. now apply negb_true_iff.
      * destruct pop; try discriminate; auto.
      * destruct pop as [|m|[]|]; try discriminate. chain; simpl; split; auto; split; auto;
          exists m; split; auto; now apply negb_true_iff.
Qed.

Lemma is_var_unfold p :
  is_variational p = match p_method p with None | Some MVariational => true | _ => false end.
Proof. reflexivity. Qed.

Lemma variational_reject p f c t :
  is_variational p = true ->
  variational_gamma p f = Reject c t -> c = class_of t /\ tag_cond t p f = true.
Proof.
  intros V H. unfold variational_gamma in H. chain.
  - simpl; rewrite V, H; auto.
  - simpl; rewrite V, H; auto.
  - simpl. split; auto. unfold foreign_kwargs. unfold is_variational in V.
    destruct (p_method p) as [[]|]; try discriminate; exact H.
  - apply init_reject in H. destruct H as [Hc Ht]. split; auto.
    destruct t; try contradiction; simpl; rewrite ?V; simpl;
      try (match type of Ht with _ /\ _ => destruct Ht as [Hv Ht]; try discriminate Hv end);
      try (rewrite Ht; reflexivity); auto.
  - simpl. rewrite V. split; auto. unfold ok_maxiter, ok_opt.
    destruct (p_max_iterations p); try discriminate. simpl. exact H.
  - simpl. rewrite V, H. auto.
  - simpl. rewrite V. split; auto. unfold ok_opt.
    destruct (p_mutation_rate p); try discriminate. exact H.
  - apply andb_true_iff in H. destruct H as [Hx1 Hx2].
    simpl. rewrite V, Hx1, Hx2. auto.
Qed.

Lemma alias_ne_ok p :
  fst (alias_ne p) = Proceed -> eff_pop p = Some (snd (alias_ne p)).
Proof.
  unfold alias_ne, eff_pop. destruct (p_Ne p); simpl; auto.
  destruct (pop_given (p_population_size p)); simpl; auto. discriminate.
Qed.

Lemma alias_ne_reject p c t :
  fst (alias_ne p) = Reject c t ->
  c = VE /\ t = T_ne_both /\ given (p_Ne p) = true /\ pop_given (p_population_size p) = true.
Proof.
  unfold alias_ne. destruct (p_Ne p); simpl; try discriminate.
  destruct (pop_given (p_population_size p)); simpl; try discriminate.
  intros H; inversion H; auto.
Qed.

Lemma pop_given_alias p :
  fst (alias_ne p) = Proceed ->
  pop_given (snd (alias_ne p)) = pop_given (p_population_size p) || given (p_Ne p).
Proof.
  unfold alias_ne. destruct (p_Ne p); simpl.
  - destruct (pop_given (p_population_size p)); simpl; auto. discriminate.
  - intros _. now rewrite orb_false_r.
Qed.

Lemma discrete_init_reject p f c t :
  is_variational p = false ->
  fst (alias_ne p) = Proceed ->
  init_checks false (snd (alias_ne p)) p f = Reject c t ->
  c = class_of t /\ tag_cond t p f = true.
Proof.
  intros V A H. apply init_reject in H. destruct H as [Hc Ht]. split; auto.
  pose proof (alias_ne_ok p A) as E. pose proof (pop_given_alias p A) as G.
  destruct t; try contradiction; simpl; rewrite ?V; simpl;
    try (match type of Ht with _ /\ _ => destruct Ht as [Hv Ht]; try discriminate Hv end);
    try (rewrite Ht; reflexivity); auto.
  - (* popsize_dict: the dict can only come from population_size itself *)
    unfold alias_ne in Ht, A. destruct (p_Ne p); simpl in *.
    + destruct (pop_given (p_population_size p)); simpl in *; discriminate.
    + rewrite Ht. reflexivity.
  - (* popsize_required *)
    destruct Ht as [Hp Hn]. rewrite Hn in G. simpl in G. symmetry in G.
    apply orb_false_iff in G. destruct G as [G1 G2]. rewrite Hp, G1, G2. reflexivity.
  - destruct Ht as (n & Hn & Hg). rewrite E, Hn, Hg. reflexivity.
  - destruct Ht as (n & Hn & Hg). rewrite E, Hn, Hg. reflexivity.
  - destruct Ht as [Hp Hg]. rewrite Hg in G. rewrite Hp, <- G. reflexivity.
Qed.

Lemma main_algorithm_reject p f c t :
  is_variational p = false ->
  main_algorithm p f = Reject c t -> c = class_of t /\ tag_cond t p f = true.
Proof.
  intros V H. unfold main_algorithm in H.
  destruct (p_probability_space p) eqn:E; chain; simpl; rewrite ?V; unfold ok_pspace; rewrite ?E; simpl; auto.
  - inversion H; subst. simpl. rewrite V. unfold ok_pspace. rewrite E. auto.
Qed.

Lemma inside_outside_reject p f c t :
  p_method p = Some MInsideOutside ->
  inside_outside p f = Reject c t -> c = class_of t /\ tag_cond t p f = true.
Proof.
  intros M H. assert (V : is_variational p = false) by (unfold is_variational; now rewrite M).
  unfold inside_outside in H. chain.
  - apply alias_ne_reject in H. destruct H as (-> & -> & Hx1 & Hx2). simpl. rewrite V, Hx1, Hx2. auto.
  - simpl. unfold foreign_kwargs. rewrite M. auto.
  - match goal with A : fst (alias_ne p) = Proceed |- _ => apply (discrete_init_reject p f c t V A H) end.
  - apply andb_true_iff in H. destruct H as [Hx1 Hx2]. simpl. rewrite M, Hx1, Hx2. auto.
  - apply main_algorithm_reject; assumption.
Qed.

Lemma maximization_reject p f c t :
  p_method p = Some MMaximization ->
  maximization p f = Reject c t -> c = class_of t /\ tag_cond t p f = true.
Proof.
  intros M H. assert (V : is_variational p = false) by (unfold is_variational; now rewrite M).
  unfold maximization in H. chain.
  - apply alias_ne_reject in H. destruct H as (-> & -> & Hx1 & Hx2). simpl. rewrite V, Hx1, Hx2. auto.
  - simpl. unfold foreign_kwargs. rewrite M. auto.
  - match goal with A : fst (alias_ne p) = Proceed |- _ => apply (discrete_init_reject p f c t V A H) end.
  - simpl. rewrite M, H. auto.
  - apply main_algorithm_reject; assumption.
Qed.

Theorem rejections_justified p f c t :
  decide p f = Reject c t -> c = class_of t /\ tag_cond t p f = true.
Proof.
  unfold decide. destruct (p_method p) as [[| | |]|] eqn:M.
  - apply variational_reject. unfold is_variational. now rewrite M.
  - now apply inside_outside_reject.
  - now apply maximization_reject.
  - intros H; inversion H; subst. simpl. rewrite M. auto.
  - apply variational_reject. unfold is_variational. now rewrite M.
Qed.

(** ** The listed invalid inputs are always rejected, cleanly *)
Lemma listed_invalid_not_valid p f : listed_invalid p f = true -> valid_spec p f = false.
Proof.
  unfold listed_invalid, valid_spec, is_variational, ok_common, ok_rate, ok_opt.
  destruct (p_method p) as [[| | |]|]; simpl; auto;
    destruct (p_mutation_rate p); simpl; intros H;
    match goal with H : ?a = true |- ?b = false =>
      let E := fresh in assert (E : a && b = false) by btauto; rewrite H in E; exact E end.
Qed.

Theorem invalid_rejected p f :
  listed_invalid p f = true ->
  exists c t, decide p f = Reject c t /\ (foreign_kwargs p = false -> c = VE \/ c = NIE).
Proof.
  intros L. apply listed_invalid_not_valid in L.
  destruct (decide p f) as [|c t] eqn:D.
  - apply accept_iff_valid in D. congruence.
  - exists c, t. split; auto. intros F.
    destruct (rejections_justified p f c t D) as [-> Ht].
    destruct t; simpl; auto. simpl in Ht. congruence.
Qed.

(** with no foreign keyword the exception is always a ValueError / NotImplementedError *)
Theorem rejection_class_clean p f c t :
  foreign_kwargs p = false -> decide p f = Reject c t -> c = VE \/ c = NIE.
Proof.
  intros F D. destruct (rejections_justified p f c t D) as [-> Ht].
  destruct t; simpl; auto. simpl in Ht. congruence.
Qed.

(** ** parse_result *)
Definition result_items (r : ritem + list ritem) : list ritem :=
  match r with inl x => [x] | inr l => l end.
Definition is_tuple (r : ritem + list ritem) : bool :=
  match r with inl _ => false | inr _ => true end.

Theorem result_shape p :
  result_items (parse_result p) =
    RTreeSequence :: (if truthy (p_return_fit p) then [RFit] else [])
                  ++ (if truthy (p_return_likelihood p) then [RLikelihood] else [])
  /\ is_tuple (parse_result p) = truthy (p_return_fit p) || truthy (p_return_likelihood p).
Proof.
  unfold parse_result.
  destruct (truthy (p_return_fit p)), (truthy (p_return_likelihood p)); simpl; auto.
Qed.

(** ** Non-positive mutation rates are NOT validated by the discrete-time methods *)
Definition base_params : params :=
  {| p_method := Some MInsideOutside; p_mutation_rate := Some (NInt 0);
     p_recombination_rate := None; p_population_size := PopNum (NInt 1); p_Ne := None;
     p_priors := false; p_eps := None; p_constr_iterations := None;
     p_min_branch_length := None; p_max_iterations := None; p_max_shape := None;
     p_probability_space := PSNone; p_num_threads := None; p_var_only := false;
     p_io_only := false; p_return_posteriors := false; p_allow_unary := None;
     p_return_fit := None; p_return_likelihood := None |}.
Definition nice_ts : tsfacts :=
  {| f_nomut := false; f_multitree := true; f_contemporary := true; f_unary := false;
     f_prior_ts_err := false |}.

Theorem discrete_rate_unvalidated :
  exists p f, p_method p = Some MInsideOutside /\
              p_mutation_rate p = Some (NInt 0) /\ decide p f = Proceed.
Proof. exists base_params, nice_ts. vm_compute. auto. Qed.

(** ** Non-vacuity *)
Definition vg_params : params :=
  {| p_method := None; p_mutation_rate := Some (NFloat (XFin (1 # 100)));
     p_recombination_rate := None; p_population_size := PopNone; p_Ne := None;
     p_priors := false; p_eps := None; p_constr_iterations := Some (NInt 0);
     p_min_branch_length := Some (NFloat (XFin (1 # 100000000))); p_max_iterations := Some (NInt 5);
     p_max_shape := None;
     p_probability_space := PSNone; p_num_threads := None; p_var_only := true;
     p_io_only := false; p_return_posteriors := false; p_allow_unary := None;
     p_return_fit := Some (NBool true); p_return_likelihood := None |}.
Definition set_mbl (p : params) (v : option num) : params :=
  {| p_method := p_method p; p_mutation_rate := p_mutation_rate p;
     p_recombination_rate := p_recombination_rate p; p_population_size := p_population_size p;
     p_Ne := p_Ne p; p_priors := p_priors p; p_eps := p_eps p;
     p_constr_iterations := p_constr_iterations p; p_min_branch_length := v;
     p_max_iterations := p_max_iterations p; p_max_shape := p_max_shape p;
     p_probability_space := p_probability_space p; p_num_threads := p_num_threads p;
     p_var_only := p_var_only p; p_io_only := p_io_only p;
     p_return_posteriors := p_return_posteriors p; p_allow_unary := p_allow_unary p;
     p_return_fit := p_return_fit p; p_return_likelihood := p_return_likelihood p |}.

Lemma example_nonvacuous :
  decide vg_params nice_ts = Proceed /\
  parse_result vg_params = inr [RTreeSequence; RFit] /\
  listed_invalid (set_mbl vg_params (Some (NFloat XNaN))) nice_ts = true /\
  decide (set_mbl vg_params (Some (NFloat XNaN))) nice_ts = Reject VE T_min_branch_length /\
  decide (set_mbl vg_params (Some (NFloat XPInf))) nice_ts = Reject VE T_min_branch_length.
Proof. vm_compute. auto. Qed.
