(** * Exactness of the two unary-node detectors (C30). *)
From Coq Require Import List ZArith Bool Arith Lia Sorting.Permutation Sorting.Sorted.
From TsdateV Require Import lib.Tables model.Sweep model.Unary proofs.SweepFacts proofs.TablesFacts.
Import ListNotations.
Open Scope Z_scope.

Section UnaryFacts.
  Variable es : list edge.
  Variable L : Z.
  Variable mask : nat -> bool.
  Variables insq remq : list nat.
  Hypothesis Hrange : edges_in_range L es.
  Hypothesis Hidx : valid_index es insq remq.
  Hypothesis HL : 0 <= L.

  Let kl := fun i => eleft (edge_at es i).
  Let kr := fun i => eright (edge_at es i).
  Let par := fun i => eparent (edge_at es i).
  Definition cntp (l : list nat) (p : nat) : Z := zlen (filter (fun i => Nat.eqb (par i) p) l).

  Lemma cntp_cons i l p : cntp (i :: l) p = b2z (Nat.eqb (par i) p) + cntp l p.
  Proof. exact (zlen_filter_cons (fun j => Nat.eqb (par j) p) i l). Qed.

  Lemma fold_rmv x : forall l s,
    let s' := fold_left (fun s b => un_rmv es x b s) l s in
    (forall p, un_children s' p = un_children s p - cntp l p) /\ un_found s' = un_found s /\
    (forall p, In p (un_check s') <-> In p (un_check s) \/ exists i, In i l /\ par i = p).
  Proof. induction l as [|i l IH]; intro s; cbn [fold_left].
    - split; [intro p; unfold cntp, zlen; cbn; lia|]. split; [reflexivity|].
      intro p. split; [tauto|]. intros [H|[i [[] _]]]. exact H.
    - destruct (IH (un_rmv es x i s)) as [Hc [Hf Hk]]. split; [|split].
      + intro p. rewrite Hc, cntp_cons. unfold un_rmv. cbn [un_children]. fold (par i).
        destruct (Nat.eqb_spec (par i) p) as [->|Hne].
        * rewrite upd_same. cbn [b2z]. lia.
        * rewrite upd_other by congruence. cbn [b2z]. lia.
      + rewrite Hf. reflexivity.
      + intro p. rewrite Hk. unfold un_rmv. cbn [un_check]. fold (par i). split.
        * intros [[H|H]|[j [Hj Hp]]]; [right; exists i; split; [left; reflexivity|exact H]|left; exact H|].
          right. exists j. split; [right; exact Hj|exact Hp].
        * intros [H|[j [[->|Hj] Hp]]]; [left; right; exact H|left; left; exact Hp|].
          right. exists j. tauto. Qed.

  Lemma fold_ins x : forall l s,
    let s' := fold_left (fun s b => un_ins es x b s) l s in
    (forall p, un_children s' p = un_children s p + cntp l p) /\ un_found s' = un_found s /\
    (forall p, In p (un_check s') <-> In p (un_check s) \/ exists i, In i l /\ par i = p).
  Proof. induction l as [|i l IH]; intro s; cbn [fold_left].
    - split; [intro p; unfold cntp, zlen; cbn; lia|]. split; [reflexivity|].
      intro p. split; [tauto|]. intros [H|[i [[] _]]]. exact H.
    - destruct (IH (un_ins es x i s)) as [Hc [Hf Hk]]. split; [|split].
      + intro p. rewrite Hc, cntp_cons. unfold un_ins. cbn [un_children]. fold (par i).
        destruct (Nat.eqb_spec (par i) p) as [->|Hne].
        * rewrite upd_same. cbn [b2z]. lia.
        * rewrite upd_other by congruence. cbn [b2z]. lia.
      + rewrite Hf. reflexivity.
      + intro p. rewrite Hk. unfold un_ins. cbn [un_check]. fold (par i). split.
        * intros [[H|H]|[j [Hj Hp]]]; [right; exists i; split; [left; reflexivity|exact H]|left; exact H|].
          right. exists j. split; [right; exact Hj|exact Hp].
        * intros [H|[j [[->|Hj] Hp]]]; [left; right; exact H|left; left; exact Hp|].
          right. exists j. tauto. Qed.

  Let PI : Permutation insq (edge_ids es) := proj1 Hidx.
  Let PR : Permutation remq (edge_ids es) := proj1 (proj2 Hidx).
  Let SI : sorted_by kl insq := proj1 (proj2 (proj2 Hidx)).
  Let SR : sorted_by kr remq := proj2 (proj2 (proj2 Hidx)).

  Lemma keysI a : In a insq -> 0 <= kl a <= L.
  Proof. intro Ha. apply (perm_in_ids es insq a PI) in Ha. destruct (Hrange a Ha). unfold kl. lia. Qed.
  Lemma keysR a : In a remq -> 0 <= kr a <= L.
  Proof. intro Ha. apply (perm_in_ids es remq a PR) in Ha. destruct (Hrange a Ha). unfold kr. lia. Qed.

  (** child counts across one step of the sweep *)
  Lemma num_children_step prev left p : prev < left -> nokey kl kr insq remq prev left ->
    num_children es left p =
      num_children es prev p - cntp (evR kr remq left) p + cntp (evI kl insq left) p.
  Proof. intros Hlt [HnI HnR]. unfold num_children, children_at, cntp, evR, evI.
    rewrite !filter_filter. fold (@zlen nat).
    change (Z.of_nat (length ?l)) with (zlen l).
    unfold zlen at 3 4.
    rewrite (perm_filter_length _ remq (edge_ids es) PR), (perm_filter_length _ insq (edge_ids es) PI).
    fold (zlen (filter (fun a => (kr a =? left) && Nat.eqb (par a) p) (edge_ids es))).
    fold (zlen (filter (fun a => (kl a =? left) && Nat.eqb (par a) p) (edge_ids es))).
    apply zlen_filter_lin. intros i Hi. rewrite in_edge_ids in Hi.
    destruct (Hrange i Hi) as [Hr1 Hr2].
    assert (Hi' : In i insq) by (apply (perm_in_ids es insq i PI); exact Hi).
    assert (Hi'' : In i remq) by (apply (perm_in_ids es remq i PR); exact Hi).
    specialize (HnI i Hi'). specialize (HnR i Hi''). unfold kl, kr, par in *. unfold covers.
    destruct (Nat.eqb (eparent (edge_at es i)) p); rewrite ?andb_false_r, ?andb_true_r; [|reflexivity].
    destruct (Z.leb_spec (eleft (edge_at es i)) left), (Z.ltb_spec left (eright (edge_at es i))),
             (Z.leb_spec (eleft (edge_at es i)) prev), (Z.ltb_spec prev (eright (edge_at es i))),
             (Z.eqb_spec (eright (edge_at es i)) left), (Z.eqb_spec (eleft (edge_at es i)) left);
      cbn; try reflexivity; lia. Qed.

  (** the sweep invariant *)
  Definition G (prev left : Z) (s : un_state) : Prop :=
    (forall p, un_children s p = num_children es prev p) /\ un_check s = [] /\ un_found s = false /\
    (forall x u, x <= prev -> mask u = false -> changed_at es x u -> num_children es x u <> 1).

  Definition ubody := body un_state kl kr L (un_rmv es) (un_ins es) (un_after mask) insq remq.

  Lemma body_facts prev left s : G prev left s -> prev < left -> nokey kl kr insq remq prev left ->
    let r := ubody left s in
    (forall p, un_children r p = num_children es left p) /\ un_check r = [] /\
    (un_found r = true <-> exists p, changed_at es left p /\ mask p = false /\ num_children es left p = 1).
  Proof. intros [Hc [Hk [Hf Hno]]] Hlt Hnk. unfold ubody, body.
    set (s1 := fold_left (fun s b => un_rmv es left b s) (evR kr remq left) s).
    set (s2 := fold_left (fun s a => un_ins es left a s) (evI kl insq left) s1).
    destruct (fold_rmv left (evR kr remq left) s) as [Hc1 [Hf1 Hk1]]. fold s1 in Hc1, Hf1, Hk1.
    destruct (fold_ins left (evI kl insq left) s1) as [Hc2 [Hf2 Hk2]]. fold s2 in Hc2, Hf2, Hk2.
    assert (Hcnt : forall p, un_children s2 p = num_children es left p).
    { intro p. rewrite Hc2, Hc1, Hc. symmetry. apply num_children_step; assumption. }
    assert (Hchk : forall p, In p (un_check s2) <-> changed_at es left p).
    { intro p. rewrite Hk2, Hk1, Hk. unfold changed_at, evR, evI. split.
      - intros [[[]|[i [Hi Hp]]]|[i [Hi Hp]]]; apply filter_In in Hi; destruct Hi as [Hi Hkey];
          apply Z.eqb_eq in Hkey; exists i.
        + apply (perm_in_ids es remq i PR) in Hi. unfold kr, par in *. tauto.
        + apply (perm_in_ids es insq i PI) in Hi. unfold kl, par in *. tauto.
      - intros [i [Hi [Hp [Hkey|Hkey]]]].
        + right. exists i. split; [|exact Hp]. apply filter_In. split;
            [apply (perm_in_ids es insq i PI); exact Hi|apply Z.eqb_eq; exact Hkey].
        + left. right. exists i. split; [|exact Hp]. apply filter_In. split;
            [apply (perm_in_ids es remq i PR); exact Hi|apply Z.eqb_eq; exact Hkey]. }
    cbn. unfold un_after. cbn [un_children un_check un_found]. split; [exact Hcnt|]. split; [reflexivity|].
    rewrite existsb_exists. split.
    - intros [p [Hin Hp]]. apply andb_true_iff in Hp. destruct Hp as [Hm H1].
      apply negb_true_iff in Hm. apply Z.eqb_eq in H1. exists p. rewrite <- Hcnt. rewrite <- Hchk. tauto.
    - intros [p [Hch [Hm H1]]]. exists p. rewrite Hchk. split; [exact Hch|].
      rewrite Hm, Hcnt, H1. reflexivity. Qed.

  Lemma Gstep : forall prev left s,
    G prev left s -> prev < left -> nokey kl kr insq remq prev left -> more kl kr insq remq prev -> left <= L ->
    un_found (ubody left s) = false -> G left (nxt kl kr L insq remq left) (ubody left s).
  Proof. intros prev left s HG Hlt Hnk _ _ Hstop.
    destruct (body_facts prev left s HG Hlt Hnk) as [Hc [Hk Hf]].
    destruct HG as [_ [_ [_ Hno]]]. split; [exact Hc|]. split; [exact Hk|]. split; [exact Hstop|].
    intros x u Hx Hm Hch H1.
    destruct (Z.le_gt_cases x prev) as [Hle|Hgt]; [exact (Hno x u Hle Hm Hch H1)|].
    destruct (Z.eq_dec x left) as [->|Hne].
    - assert (un_found (ubody left s) = true) by (apply Hf; exists u; tauto). congruence.
    - destruct Hch as [i [Hi [_ Hkey]]]. destruct Hnk as [HnI HnR].
      assert (Hi' : In i insq) by (apply (perm_in_ids es insq i PI); exact Hi).
      assert (Hi'' : In i remq) by (apply (perm_in_ids es remq i PR); exact Hi).
      specialize (HnI i Hi'). specialize (HnR i Hi''). unfold kl, kr in *. lia. Qed.

  Theorem contains_unary_exact :
    exists b, contains_unary es mask L insq remq = Some b /\
      (b = true <-> exists x u, mask u = false /\ num_children es x u = 1).
  Proof.
    assert (HG0 : G (-1) 0 (un_init)).
    { split; [intro p; cbn; symmetry; apply (num_children_neg es L Hrange); lia|].
      split; [reflexivity|]. split; [reflexivity|].
      intros x u Hx _ _. rewrite (num_children_neg es L Hrange) by lia. discriminate. }
    destruct (loop_sound un_state kl kr L (un_rmv es) (un_ins es) (un_after mask) un_found insq remq
                SI SR keysI keysR G Gstep un_init HG0 HL) as [r [Hr HP]].
    unfold contains_unary. fold kl kr. rewrite Hr. exists (un_found r). split; [reflexivity|].
    destruct HP as [[prev [left [[_ [_ [Hf Hno]]] [Hnm Hle]]]]|[prev [left [s [HG [Hlt [Hnk [Hm [HlL [Er Hs]]]]]]]]]].
    - rewrite Hf. split; [discriminate|]. intros [x [u [Hmu H1]]]. exfalso.
      destruct (unary_descent es L Hrange u (Z.to_nat (x + 1)) x ltac:(destruct (Z.lt_ge_cases x 0); lia) H1)
        as [x0 [Hx0 [H10 Hch]]].
      apply (Hno x0 u); auto.
      destruct Hch as [i [Hi [_ Hkey]]]. apply not_more_keys in Hnm. destruct Hnm as [HI HR].
      assert (Hi' : In i insq) by (apply (perm_in_ids es insq i PI); exact Hi).
      assert (Hi'' : In i remq) by (apply (perm_in_ids es remq i PR); exact Hi).
      specialize (HI i Hi'). specialize (HR i Hi''). unfold kl, kr in *. lia.
    - rewrite Hs. split; [|reflexivity]. intros _.
      destruct (body_facts prev left s HG Hlt Hnk) as [_ [_ Hf]]. fold ubody in Er.
      rewrite Er in Hs. apply Hf in Hs. destruct Hs as [p [_ [Hmp H1]]]. exists left, p. tauto. Qed.
End UnaryFacts.

(** ** The other detector: prior.has_locally_unary_nodes *)
Section PriorFacts.
  Variable es : list edge.
  Variable L : Z.
  Hypothesis Hrange : edges_in_range L es.

  Lemma changed_parents_spec x u : In u (changed_parents es x) <-> changed_at es x u.
  Proof. unfold changed_parents, changed_at. rewrite in_map_iff. split.
    - intros [e [Hp He]]. apply filter_In in He. destruct He as [He Hk].
      apply In_nth with (d := dummy_edge) in He. destruct He as [i [Hi Ei]].
      exists i. unfold edge_at. rewrite Ei. apply orb_true_iff in Hk. rewrite !Z.eqb_eq in Hk. tauto.
    - intros [i [Hi [Hp Hk]]]. exists (edge_at es i). split; [exact Hp|]. apply filter_In.
      split; [apply nth_In; exact Hi|]. apply orb_true_iff. rewrite !Z.eqb_eq. tauto. Qed.

  Theorem prior_unary_exact :
    prior_unary es = true <-> exists x u, num_children es x u = 1.
  Proof. unfold prior_unary. rewrite existsb_exists. split.
    - intros [x [_ H]]. apply existsb_exists in H. destruct H as [p [_ H1]]. apply Z.eqb_eq in H1.
      rewrite num_children_l_eq in H1.
      exists x, p. exact H1.
    - intros [x [u H1]].
      destruct (unary_descent es L Hrange u (Z.to_nat (x + 1)) x ltac:(destruct (Z.lt_ge_cases x 0); lia) H1)
        as [x0 [Hx0 [H10 Hch]]].
      exists x0. split.
      + unfold tree_starts. right. apply in_or_app. destruct Hch as [i [Hi [_ [Hk|Hk]]]].
        * left. apply in_map_iff. exists (edge_at es i). split; [exact Hk|apply nth_In; exact Hi].
        * right. apply in_map_iff. exists (edge_at es i). split; [exact Hk|apply nth_In; exact Hi].
      + apply existsb_exists. exists u. split; [apply changed_parents_spec; exact Hch|].
        apply Z.eqb_eq. rewrite num_children_l_eq. exact H10. Qed.
End PriorFacts.

(** brute-force reference = the existential, for positions inside the sequence and nodes below
    [num_nodes] (used to justify the executable differential reference) *)
Lemma ref_unary_spec es mask nn L :
  ref_unary es mask nn L = true <->
  exists x u, 0 <= x < L /\ (u < nn)%nat /\ mask u = false /\ num_children es x u = 1.
Proof. unfold ref_unary, zrange0. rewrite existsb_exists. split.
  - intros [x [Hx H]]. apply in_map_iff in Hx. destruct Hx as [k [<- Hk]]. apply in_seq in Hk.
    apply existsb_exists in H. destruct H as [u [Hu H]]. apply in_seq in Hu.
    apply andb_true_iff in H. destruct H as [Hm H1]. apply negb_true_iff in Hm. apply Z.eqb_eq in H1.
    rewrite num_children_l_eq in H1. exists (Z.of_nat k), u. repeat split; try lia; assumption.
  - intros [x [u [Hx [Hu [Hm H1]]]]]. exists x. split.
    + apply in_map_iff. exists (Z.to_nat x). split; [lia|]. apply in_seq. lia.
    + apply existsb_exists. exists u. split; [apply in_seq; lia|]. rewrite num_children_l_eq, Hm, H1. reflexivity. Qed.
