(** * Assembled statements about [PopulationSizeHistory] (C17). *)
From Coq Require Import List Arith Lia Bool Reals Lra Psatz QArith.
From TsdateV Require Import lib.Num model.Rescale model.Demography proofs.RescalePW proofs.RescaleArea
  proofs.DemographyFacts.
Import ListNotations.
Open Scope R_scope.

Lemma widx_unique (brk : list R) t i : incr brk -> brk <> [] -> nth 0 brk 0 <= t ->
  (i < length brk)%nat -> nth i brk 0 <= t -> ((S i < length brk)%nat -> t < nth (S i) brk 0) ->
  widx RNum brk t = i.
Proof.
  intros Hi Hne H0 Hlt Hlo Hhi.
  destruct (widx_bounds brk t Hne H0) as (Jb & Jlo & Jhi). set (j := widx RNum brk t) in *.
  destruct (lt_eq_lt_dec j i) as [[Hji|E]|Hij]; [|exact E|]; exfalso.
  - assert (nth (S j) brk 0 <= nth i brk 0) by (apply incr_nth_le; [exact Hi|lia]).
    assert (t < nth (S j) brk 0) by (apply Jhi; lia). lra.
  - assert (nth (S i) brk 0 <= nth j brk 0) by (apply incr_nth_le; [exact Hi|lia]).
    assert (t < nth (S i) brk 0) by (apply Hhi; lia). lra.
Qed.

Lemma cbreaks_sum : forall (brk tm : list R) c0 i, length brk = length tm -> (i < length brk)%nat ->
  nth i (cbreaks c0 brk tm) 0
  = c0 + Rsum (map (fun j => (nth (S j) brk 0 - nth j brk 0) / nth j tm 0) (seq 0 i)).
Proof.
  intros brk tm c0 i Hl. induction i as [|i IH]; intro Hi.
  - rewrite (cbreaks_first c0 brk tm Hl) by (destruct brk; [cbn in Hi; lia|discriminate]). cbn. lra.
  - rewrite (cbreaks_succ brk tm c0 i Hl Hi), IH by lia.
    rewrite seq_S, map_app, Rsum_app. cbn [map plus Rsum fold_right]. lra.
Qed.

(** ** what the constructor builds *)
Definition hist_ok (pop brks : list R) (h : history RNum) : Prop :=
  h_tb RNum h = 0 :: brks /\
  h_ps RNum h = map (fun x => 2 * x) pop /\
  h_cb RNum h = cbreaks 0 (0 :: brks) (map (fun x => 2 * x) pop) /\
  h_cr RNum h = map (fun m => 1 / m) (map (fun x => 2 * x) pop) /\
  length (0 :: brks) = length pop /\ incr (0 :: brks) /\ allpos pop.

Lemma allpos_double pop : allpos pop -> allpos (map (fun x => 2 * x) pop).
Proof. intros H m Hm. apply in_map_iff in Hm. destruct Hm as (x & <- & Hx). specialize (H x Hx). lra. Qed.

Lemma incr_nonneg (brk : list R) : incr brk -> nth 0 brk 0 = 0 -> forall t, In t brk -> 0 <= t.
Proof.
  intros Hi H0 t Ht. destruct (In_nth brk t 0 Ht) as (k & Hk & <-).
  pose proof (incr_nth_le brk Hi 0%nat k) as E. rewrite H0 in E. apply E. lia.
Qed.

Lemma mk_history_spec (pop brks : list R) h :
  mk_history RNum pop brks = Some h -> hist_ok pop brks h.
Proof.
  unfold mk_history. intro H.
  match type of H with (if ?c then _ else _) = _ => destruct c eqn:Ec end; [|discriminate].
  rewrite !andb_true_iff in Ec. destruct Ec as [[[[E1 E2] E3] E4] E5].
  apply Nat.eqb_eq in E2. apply negb_true_iff, Nat.eqb_neq in E3. apply strict_inc_incr in E5.
  rewrite forallb_forall in E1, E4.
  assert (Hpos : allpos pop).
  { intros m Hm. specialize (E1 m Hm). cbn [RNum ltb zero] in E1. apply Rltb_true in E1. exact E1. }
  assert (Hinc : incr (0 :: brks)).
  { destruct brks as [|b brks]; [exact I|]. split; [|exact E5].
    specialize (E4 b (or_introl eq_refl)). cbn [RNum ltb zero] in E4. apply Rltb_true in E4. exact E4. }
  tnorm.
  assert (Hlen : length (0 :: brks) = length pop) by (cbn [length]; lia).
  assert (Hlen2 : length (0 :: brks) = length (map (fun x => 2 * x) pop)) by (rewrite map_length; exact Hlen).
  pose proof (ctm_value (0 :: brks) (map (fun x => 2 * x) pop) Hlen2 ltac:(discriminate) Hinc eq_refl
                (allpos_double pop Hpos) (0 :: brks) (incr_nonneg (0 :: brks) Hinc eq_refl)) as Ev.
  unfold two in H. cbn [RNum zero mul add one] in H.
  replace (map (fun x : R => (1 + 1) * x) pop) with (map (fun x => 2 * x) pop) in H
    by (apply map_ext; intro; ring).
  rewrite Ev in H. injection H as <-. cbn [h_tb h_ps h_cb h_cr].
  repeat split; try reflexivity; assumption.
Qed.

Section History.
  Variables pop brks : list R.
  Variable h : history RNum.
  Hypothesis Hh : hist_ok pop brks h.

  Notation tb := (0 :: brks).
  Notation ps := (map (fun x => 2 * x) pop).

  Let Htb : h_tb RNum h = tb := proj1 Hh.
  Let Hps : h_ps RNum h = ps := proj1 (proj2 Hh).
  Let Hcb : h_cb RNum h = cbreaks 0 tb ps := proj1 (proj2 (proj2 Hh)).
  Let Hcr : h_cr RNum h = map (fun m => 1 / m) ps := proj1 (proj2 (proj2 (proj2 Hh))).
  Let Hlen : length tb = length pop := proj1 (proj2 (proj2 (proj2 (proj2 Hh)))).
  Let Hinc : incr tb := proj1 (proj2 (proj2 (proj2 (proj2 (proj2 Hh))))).
  Let Hpos : allpos pop := proj2 (proj2 (proj2 (proj2 (proj2 (proj2 Hh))))).

  Let Hlen2 : length tb = length ps.
  Proof. rewrite map_length. exact Hlen. Qed.
  Let Hpos2 : allpos ps := allpos_double pop Hpos.

  (** the two maps as real functions *)
  Definition Fco (t : R) : R := integ tb ps t.
  Definition Fna (c : R) : R := integ (cbreaks 0 tb ps) (map (fun m => 1 / m) ps) c.

  Lemma to_coalescent_value ts : (forall t, In t ts -> 0 <= t) ->
    to_coalescent RNum h ts = Some (map Fco ts).
  Proof.
    intro Hts. unfold to_coalescent. rewrite Htb, Hps.
    rewrite (ctm_value tb ps Hlen2 ltac:(discriminate) Hinc eq_refl Hpos2 ts Hts). reflexivity.
  Qed.

  Lemma cb_facts : length (cbreaks 0 tb ps) = length (map (fun m => 1 / m) ps) /\
    cbreaks 0 tb ps <> [] /\ incr (cbreaks 0 tb ps) /\ nth 0 (cbreaks 0 tb ps) 0 = 0 /\
    allpos (map (fun m => 1 / m) ps).
  Proof.
    split; [rewrite cbreaks_length by exact Hlen2; rewrite map_length; exact Hlen2|].
    split; [intro E; apply (f_equal (@length R)) in E; rewrite cbreaks_length in E by exact Hlen2; discriminate|].
    split; [apply cbreaks_incr; assumption|].
    split; [apply cbreaks_first; [exact Hlen2|discriminate]|apply inv_allpos; exact Hpos2].
  Qed.

  Lemma to_natural_value cs : (forall c, In c cs -> 0 <= c) ->
    to_natural RNum h cs = Some (map Fna cs).
  Proof.
    intro Hcs. unfold to_natural. rewrite Hcb, Hcr.
    destruct cb_facts as (L & Ne & Inc & Z & Pos).
    rewrite (ctm_value _ _ L Ne Inc Z Pos cs Hcs). reflexivity.
  Qed.

  Lemma rejects_negative ts : (exists t, In t ts /\ t < 0) -> to_coalescent RNum h ts = None.
  Proof.
    intros (t & Ht & Hneg). unfold to_coalescent, change_time_measure.
    destruct (ctm_ok RNum ts (h_tb RNum h) (h_ps RNum h)) eqn:E; [|reflexivity].
    destruct (ctm_ok_parts _ _ _ E) as (_ & _ & _ & _ & _ & Hall). specialize (Hall t Ht). lra.
  Qed.

  Lemma Fco_nonneg t : 0 <= t -> 0 <= Fco t.
  Proof. intro Ht. apply integ_nonneg; [exact Hlen2|exact Hinc|exact Hpos2|exact Ht]. Qed.

  Lemma Fna_nonneg c : 0 <= c -> 0 <= Fna c.
  Proof. intro Hc. destruct cb_facts as (L & Ne & Inc & Z & Pos).
    apply integ_nonneg; [exact L|exact Inc|exact Pos|rewrite Z; exact Hc]. Qed.

  Lemma inverse_1 t : 0 <= t -> Fna (Fco t) = t.
  Proof.
    intro Ht. unfold Fna, Fco.
    pose proof (integ_inverse tb ps 0 t Hlen2 ltac:(discriminate) Hinc Hpos2 Ht) as E.
    rewrite Rplus_0_l in E. rewrite E. cbn [nth]. ring.
  Qed.

  Lemma inv_inv_ps : map (fun m => 1 / m) (map (fun m => 1 / m) ps) = ps.
  Proof.
    rewrite map_map. rewrite <- (map_id ps) at 2. apply map_ext_in. intros m Hm.
    specialize (Hpos2 m Hm). field. lra.
  Qed.

  Lemma inverse_2 c : 0 <= c -> Fco (Fna c) = c.
  Proof.
    intro Hc. unfold Fna, Fco. destruct cb_facts as (L & Ne & Inc & Z & Pos).
    assert (Hc' : nth 0 (cbreaks 0 tb ps) 0 <= c) by (rewrite Z; exact Hc).
    pose proof (integ_inverse _ _ 0 c L Ne Inc Pos Hc') as E.
    rewrite Rplus_0_l, Z in E.
    pose proof (cbreaks_inverse tb ps 0 Hlen2 Hpos2) as Ei. cbn [nth] in Ei.
    rewrite Ei, inv_inv_ps in E. rewrite E. ring.
  Qed.

  (** index (telescoping-sum) form: the integral of 1/(2N) *)
  Lemma Fco_integral t : 0 <= t ->
    let i := widx RNum tb t in
    (i < length tb)%nat /\ nth i tb 0 <= t /\ ((S i < length tb)%nat -> t < nth (S i) tb 0) /\
    Fco t = Rsum (map (fun j => (nth (S j) tb 0 - nth j tb 0) / (2 * nth j pop 0)) (seq 0 i))
            + (t - nth i tb 0) / (2 * nth i pop 0).
  Proof.
    intros Ht i.
    destruct (widx_bounds tb t ltac:(discriminate) Ht) as (Ib & Ilo & Ihi). fold i in Ib, Ilo, Ihi.
    split; [exact Ib|]. split; [exact Ilo|]. split; [exact Ihi|].
    pose proof (integ_index tb ps 0 t Hlen2 ltac:(discriminate) Ht) as E. cbn zeta in E. fold i in E.
    rewrite Rplus_0_l in E. unfold Fco. rewrite E.
    rewrite (cbreaks_sum tb ps 0 i Hlen2 Ib), Rplus_0_l.
    assert (Hn : forall j, (j < length pop)%nat -> nth j ps 0 = 2 * nth j pop 0).
    { intros j Hj. rewrite (nth_indep _ 0 (2 * 0)) by (rewrite map_length; exact Hj).
      apply (map_nth (fun x => 2 * x)). }
    rewrite (Hn i) by lia. f_equal. apply map_ext_in_R. intros j Hj. apply in_seq in Hj.
    rewrite (Hn j) by lia. reflexivity.
  Qed.

  Lemma Fco_zero : Fco 0 = 0.
  Proof. unfold Fco. apply (integ_first tb ps Hlen2 Hinc). Qed.

  Lemma Fco_strict x y : 0 <= x -> x < y -> Fco x < Fco y.
  Proof. intros Hx Hxy. apply integ_strict; try assumption. discriminate. Qed.

  Lemma Fna_zero : Fna 0 = 0.
  Proof. destruct cb_facts as (L & Ne & Inc & Z & Pos). unfold Fna. rewrite <- Z at 3.
    apply (integ_first _ _ L Inc). Qed.

  Lemma Fna_strict x y : 0 <= x -> x < y -> Fna x < Fna y.
  Proof. intros Hx Hxy. destruct cb_facts as (L & Ne & Inc & Z & Pos).
    apply integ_strict; try assumption. rewrite Z. exact Hx. Qed.

  Lemma lipschitz_continuous (F : R -> R) (L : R) : 0 <= L ->
    (forall x y, 0 <= x -> x <= y -> 0 <= F y - F x <= L * (y - x)) ->
    forall x, 0 <= x -> forall eps, 0 < eps -> exists delta, 0 < delta /\
      forall y, 0 <= y -> Rabs (y - x) < delta -> Rabs (F y - F x) < eps.
  Proof.
    intros HL HF x Hx eps Heps. exists (eps / (L + 1)). split; [apply Rdiv_lt_0_compat; lra|].
    intros y Hy Hd.
    assert (Hb : Rabs (F y - F x) <= L * Rabs (y - x)).
    { destruct (Rle_dec x y) as [Hxy|Hxy].
      - destruct (HF x y Hx Hxy) as [A B]. rewrite !Rabs_pos_eq by lra. exact B.
      - destruct (HF y x Hy ltac:(lra)) as [A B].
        rewrite (Rabs_minus_sym (F y)), (Rabs_minus_sym y). rewrite !Rabs_pos_eq by lra. exact B. }
    eapply Rle_lt_trans; [exact Hb|].
    apply Rle_lt_trans with ((L + 1) * Rabs (y - x)).
    - apply Rmult_le_compat_r; [apply Rabs_pos|lra].
    - apply Rlt_le_trans with ((L + 1) * (eps / (L + 1))); [apply Rmult_lt_compat_l; lra|right; field; lra].
  Qed.

  Lemma Fco_continuous x : 0 <= x -> forall eps, 0 < eps -> exists delta, 0 < delta /\
    forall y, 0 <= y -> Rabs (y - x) < delta -> Rabs (Fco y - Fco x) < eps.
  Proof.
    apply (lipschitz_continuous Fco (rmax ps) (rmax_nonneg ps)).
    intros a b Ha Hab. split.
    - destruct (Req_dec a b) as [->|Hne]; [lra|].
      assert (Fco a < Fco b) by (apply Fco_strict; lra). lra.
    - apply integ_lipschitz; try assumption. discriminate.
  Qed.

  Lemma Fna_continuous x : 0 <= x -> forall eps, 0 < eps -> exists delta, 0 < delta /\
    forall y, 0 <= y -> Rabs (y - x) < delta -> Rabs (Fna y - Fna x) < eps.
  Proof.
    destruct cb_facts as (L & Ne & Inc & Z & Pos).
    apply (lipschitz_continuous Fna (rmax (map (fun m => 1 / m) ps)) (rmax_nonneg _)).
    intros a b Ha Hab. split.
    - destruct (Req_dec a b) as [->|Hne]; [lra|].
      assert (Fna a < Fna b) by (apply Fna_strict; lra). lra.
    - apply integ_lipschitz; try assumption. rewrite Z. exact Ha.
  Qed.

  (** inside one epoch the map is affine with slope 1/(2N_i): its derivative there *)
  Lemma Fco_slope i x y : (i < length tb)%nat -> nth i tb 0 <= x -> x <= y ->
    ((S i < length tb)%nat -> y < nth (S i) tb 0) ->
    Fco y - Fco x = (y - x) / (2 * nth i pop 0).
  Proof.
    intros Hi Hx Hxy Hy.
    assert (H0i : 0 <= nth i tb 0).
    { change 0 with (nth 0 tb 0) at 1. apply incr_nth_le; [exact Hinc|lia]. }
    assert (Wx : widx RNum tb x = i).
    { apply widx_unique; try assumption; try discriminate; [cbn [nth]; lra|]. intro H. specialize (Hy H). lra. }
    assert (Wy : widx RNum tb y = i).
    { apply widx_unique; try assumption; try discriminate; [cbn [nth]; lra|lra]. }
    destruct (Fco_integral x ltac:(lra)) as (_ & _ & _ & Ex).
    destruct (Fco_integral y ltac:(lra)) as (_ & _ & _ & Ey).
    cbn zeta in Ex, Ey. rewrite Wx in Ex. rewrite Wy in Ey. rewrite Ex, Ey.
    assert (0 < nth i pop 0) by (apply Hpos, nth_In; lia). field. lra.
  Qed.

  (** [as_dict] gives back the constructor arguments *)
  Lemma as_dict_value : as_dict RNum h = (pop, brks).
  Proof.
    unfold as_dict. rewrite Hps, Htb. cbn [tl]. f_equal.
    rewrite map_map. rewrite <- (map_id pop) at 2. apply map_ext. intro x.
    unfold two. cbn [RNum div add one]. field.
  Qed.
End History.

(** ** [gamma_to_natural] for a constant population size *)
Lemma np_sum_single (x : R) : np_sum RNum [x] = x.
Proof. reflexivity. Qed.

Section GammaConst.
  Variable ginc : R -> R -> R.
  Variable gam : R -> R.
  Variable powr : R -> R -> R.
  Variable cnorm : R -> R -> R.
  Variable sqs : R -> R.
  Hypothesis sqs_def : forall x, sqs x = x * x.
  (** textbook facts about the special functions, as explicit premises *)
  Hypothesis ginc_zero : forall a, 0 < a -> ginc a 0 = 0.
  Hypothesis gam_pos : forall x, 0 < x -> 0 < gam x.
  Hypothesis gam_rec : forall x, 0 < x -> gam (x + 1) = x * gam x.
  Hypothesis powr_pos : forall r x, 0 < r -> 0 < powr r x.
  Hypothesis powr_rec : forall r x, 0 < r -> powr r (x + 1) = r * powr r x.
  Hypothesis cnorm_def : forall s r, 0 < s -> 0 < r -> cnorm s r * gam s = powr r s.

  Lemma gamma_constant_size n h shape rate :
    mk_history RNum [n] [] = Some h -> 0 < shape -> 0 < rate ->
    gamma_to_natural RNum ginc gam powr cnorm sqs h shape rate = Some (shape, rate / (2 * n)).
  Proof.
    intros Hm Hs Hr. destruct (mk_history_spec _ _ _ Hm) as (Htb & Hps & Hcb & Hcr & _ & _ & Hpos).
    assert (Hn : 0 < n) by (apply Hpos; left; reflexivity).
    unfold gamma_to_natural.
    assert (E1 : ltb RNum (zero RNum) shape = true) by (apply Rltb_true; exact Hs).
    assert (E2 : ltb RNum (zero RNum) rate = true) by (apply Rltb_true; exact Hr).
    rewrite E1, E2. cbn [andb]. unfold cdf_part. rewrite Htb, Hps, Hcb. cbn [map cbreaks app].
    unfold diff, map2, two. cbn [tl combine map fst snd].
    rewrite !np_sum_single, !sqs_def. cbn [RNum add sub mul div zero one].
    rewrite !Rmult_0_r.
    rewrite (ginc_zero (shape + 0)) by lra. rewrite (ginc_zero (shape + 1)) by lra.
    rewrite (ginc_zero (shape + (1 + 1))) by lra.
    replace (shape + 0) with shape by ring.
    replace (shape + (1 + 1)) with ((shape + 1) + 1) by ring.
    rewrite (gam_rec (shape + 1)) by lra. rewrite (gam_rec shape) by lra.
    rewrite (powr_rec rate (shape + 1)) by lra. rewrite (powr_rec rate shape) by lra.
    pose proof (cnorm_def shape rate Hs Hr) as Ec.
    pose proof (gam_pos shape Hs) as Hg. pose proof (powr_pos rate shape Hr) as Hpw.
    set (K := cnorm shape rate) in *. set (G := gam shape) in *. set (P := powr rate shape) in *.
    assert (EK : K = P / G) by (rewrite <- Ec; field; lra). rewrite EK.
    match goal with |- Some (?a * ?a / ?v, ?a / ?v) = _ =>
      assert (Ea : a = 2 * n * shape / rate) by (field; repeat split; lra);
      assert (Ev : v = 2 * n * (2 * n) * shape / (rate * rate)) by (field; repeat split; lra);
      rewrite Ev, Ea
    end.
    f_equal. f_equal; field; repeat split; lra.
  Qed.
End GammaConst.

(** ** statements in terms of the constructor *)
Definition nonneg_list (l : list R) : Prop := forall t, In t l -> 0 <= t.

Definition continuous_on_nonneg (F : R -> R) : Prop :=
  forall x, 0 <= x -> forall eps, 0 < eps -> exists delta, 0 < delta /\
    forall y, 0 <= y -> Rabs (y - x) < delta -> Rabs (F y - F x) < eps.

Lemma demo_integral (pop brks : list R) h : mk_history RNum pop brks = Some h ->
  forall ts, nonneg_list ts ->
  exists out, to_coalescent RNum h ts = Some out /\ length out = length ts /\
    forall n, (n < length ts)%nat ->
      let t := nth n ts 0 in
      let i := widx RNum (0 :: brks) t in
      (i < length (0%R :: brks))%nat /\ nth i (0 :: brks) 0 <= t /\
      ((S i < length (0%R :: brks))%nat -> t < nth (S i) (0 :: brks) 0) /\
      nth n out 0
      = Rsum (map (fun j => (nth (S j) (0 :: brks) 0 - nth j (0 :: brks) 0) / (2 * nth j pop 0)) (seq 0 i))
        + (t - nth i (0 :: brks) 0) / (2 * nth i pop 0).
Proof.
  intros Hm ts Hts. pose proof (mk_history_spec _ _ _ Hm) as Hh.
  exists (map (Fco pop brks) ts). split; [apply to_coalescent_value; assumption|].
  split; [apply map_length|]. intros n Hn t i.
  assert (Ht : 0 <= t) by (apply Hts, nth_In; exact Hn).
  destruct (Fco_integral pop brks h Hh t Ht) as (A & B & C & D). fold i in A, B, C, D.
  split; [exact A|]. split; [exact B|]. split; [exact C|].
  rewrite (nth_indep _ 0 (Fco pop brks 0)) by (rewrite map_length; exact Hn).
  rewrite (map_nth (Fco pop brks)). exact D.
Qed.

Lemma demo_rejects_negative (pop brks : list R) h : mk_history RNum pop brks = Some h ->
  forall ts, (exists t, In t ts /\ t < 0) -> to_coalescent RNum h ts = None.
Proof. intros Hm ts. apply rejects_negative. Qed.

Lemma demo_inverse (pop brks : list R) h : mk_history RNum pop brks = Some h ->
  (forall ts, nonneg_list ts ->
     exists cs, to_coalescent RNum h ts = Some cs /\ to_natural RNum h cs = Some ts) /\
  (forall cs, nonneg_list cs ->
     exists ts, to_natural RNum h cs = Some ts /\ to_coalescent RNum h ts = Some cs).
Proof.
  intro Hm. pose proof (mk_history_spec _ _ _ Hm) as Hh. split.
  - intros ts Hts. exists (map (Fco pop brks) ts). split; [apply to_coalescent_value; assumption|].
    rewrite (to_natural_value pop brks h Hh).
    + rewrite map_map. f_equal. rewrite <- (map_id ts) at 2. apply map_ext_in.
      intros t Ht. apply (inverse_1 pop brks h Hh). apply Hts. exact Ht.
    + intros c Hc. apply in_map_iff in Hc. destruct Hc as (t & <- & Ht).
      apply (Fco_nonneg pop brks h Hh). apply Hts. exact Ht.
  - intros cs Hcs. exists (map (Fna pop brks) cs). split; [apply to_natural_value; assumption|].
    rewrite (to_coalescent_value pop brks h Hh).
    + rewrite map_map. f_equal. rewrite <- (map_id cs) at 2. apply map_ext_in.
      intros c Hc. apply (inverse_2 pop brks h Hh). apply Hcs. exact Hc.
    + intros t Ht. apply in_map_iff in Ht. destruct Ht as (c & <- & Hc).
      apply (Fna_nonneg pop brks h Hh). apply Hcs. exact Hc.
Qed.

Lemma demo_monotone_continuous (pop brks : list R) h : mk_history RNum pop brks = Some h ->
  exists F G : R -> R,
    (forall ts, nonneg_list ts -> to_coalescent RNum h ts = Some (map F ts)) /\
    (forall cs, nonneg_list cs -> to_natural RNum h cs = Some (map G cs)) /\
    F 0 = 0 /\ G 0 = 0 /\
    (forall x y, 0 <= x -> x < y -> F x < F y) /\
    (forall x y, 0 <= x -> x < y -> G x < G y) /\
    continuous_on_nonneg F /\ continuous_on_nonneg G /\
    (forall t, 0 <= t -> G (F t) = t) /\ (forall c, 0 <= c -> F (G c) = c) /\
    (forall i x y, (i < length (0%R :: brks))%nat -> nth i (0 :: brks) 0 <= x -> x <= y ->
       ((S i < length (0%R :: brks))%nat -> y < nth (S i) (0 :: brks) 0) ->
       F y - F x = (y - x) / (2 * nth i pop 0)).
Proof.
  intro Hm. pose proof (mk_history_spec _ _ _ Hm) as Hh.
  exists (Fco pop brks), (Fna pop brks).
  split; [intros ts; apply to_coalescent_value; assumption|].
  split; [intros cs; apply to_natural_value; assumption|].
  split; [apply (Fco_zero pop brks h Hh)|]. split; [apply (Fna_zero pop brks h Hh)|].
  split; [apply (Fco_strict pop brks h Hh)|]. split; [apply (Fna_strict pop brks h Hh)|].
  split; [exact (Fco_continuous pop brks h Hh)|]. split; [exact (Fna_continuous pop brks h Hh)|].
  split; [apply (inverse_1 pop brks h Hh)|]. split; [apply (inverse_2 pop brks h Hh)|].
  apply (Fco_slope pop brks h Hh).
Qed.

Lemma demo_as_dict (pop brks : list R) h : mk_history RNum pop brks = Some h ->
  as_dict RNum h = (pop, brks) /\
  mk_history RNum (fst (as_dict RNum h)) (snd (as_dict RNum h)) = Some h.
Proof.
  intro Hm. pose proof (as_dict_value pop brks h (mk_history_spec _ _ _ Hm)) as E.
  split; [exact E|]. rewrite E. exact Hm.
Qed.

(** which inputs the constructor accepts *)
Lemma demo_valid_iff (pop brks : list R) :
  (exists h, mk_history RNum pop brks = Some h) <->
  (allpos pop /\ length (0 :: brks) = length pop /\ incr (0 :: brks)).
Proof.
  split.
  - intros [h Hm]. destruct (mk_history_spec _ _ _ Hm) as (_ & _ & _ & _ & L & I & P). tauto.
  - intros (P & L & I). unfold mk_history.
    assert (E : forallb (fun x : R => ltb RNum (zero RNum) x) pop
                && (length brks =? length pop - 1)%nat && negb (length pop =? 0)%nat
                && forallb (fun x : R => ltb RNum (zero RNum) x) brks && strict_inc RNum brks = true).
    { rewrite !andb_true_iff. cbn [length] in L. repeat split.
      - apply forallb_forall. intros x Hx. apply Rltb_true. apply P. exact Hx.
      - apply Nat.eqb_eq. lia.
      - apply negb_true_iff, Nat.eqb_neq. lia.
      - apply forallb_forall. intros x Hx. apply Rltb_true.
        destruct (In_nth brks x 0 Hx) as (k & Hk & <-).
        apply (incr_nth_lt (0 :: brks) I 0%nat (S k)). cbn [length]. lia.
      - apply strict_inc_incr. eapply incr_tl. exact I. }
    tnorm. rewrite E.
    assert (Hlen2 : length (0 :: brks) = length (map (fun x => 2 * x) pop)) by (rewrite map_length; exact L).
    pose proof (ctm_value (0 :: brks) (map (fun x => 2 * x) pop) Hlen2 ltac:(discriminate) I eq_refl
                  (allpos_double pop P) (0 :: brks) (incr_nonneg (0 :: brks) I eq_refl)) as Ev.
    unfold two. cbn [RNum zero mul add one].
    replace (map (fun x : R => (1 + 1) * x) pop) with (map (fun x => 2 * x) pop)
      by (apply map_ext; intro; ring).
    rewrite Ev. eexists. reflexivity.
Qed.

(** ** examples over Q *)
Open Scope Q_scope.
Definition exh_pop : list Q := [1; 2; 1 # 2].
Definition exh_brk : list Q := [10; 30].

Definition exh : history QNum :=
  mkHist QNum [0; 10; 30] [2; 4; 1] [0; 5; 10] [1 # 2; 1 # 4; 1].
Definition exh1 : history QNum := mkHist QNum [0] [6] [0] [1 # 6].

Lemma C17_example :
  mk_history QNum exh_pop exh_brk = Some exh /\
  to_coalescent QNum exh [0; 5; 10; 20; 30; 40] = Some [0; 5 # 2; 5; 15 # 2; 10; 20] /\
  to_natural QNum exh [0; 5 # 2; 5; 15 # 2; 10; 20] = Some [0; 5; 10; 20; 30; 40] /\
  as_dict QNum exh = (exh_pop, exh_brk) /\
  to_coalescent QNum exh [-1] = None.
Proof. repeat split; vm_compute; reflexivity. Qed.

(** a constant-size history with exact special-function values for shape 2, rate 5:
    Gamma(2,3,4) = 1,2,6; 5^(2,3,4) = 25,125,625; C = 25 *)
Definition ex_gam (s : Q) : Q := if Qeq_bool s 2 then 1 else if Qeq_bool s 3 then 2 else 6.
Definition ex_pow (_ s : Q) : Q := if Qeq_bool s 2 then 25 else if Qeq_bool s 3 then 125 else 625.

Lemma C17_gamma_example :
  mk_history QNum [3] [] = Some exh1 /\
  gamma_to_natural QNum (fun _ _ => 0) ex_gam ex_pow (fun _ _ => 25) (fun x => x * x) exh1 2 5 = Some (2, 5 # 6).
Proof. split; vm_compute; reflexivity. Qed.
