(** * C07: the data read from the tree sequence is invariant under
    (coordinates * c, mutation rate / c), over the reals, for every c > 0. *)
From Coq Require Import List Arith Bool Reals Lra Field.
From TsdateV Require Import lib.Num model.Inputs.
Import ListNotations.
Open Scope R_scope.

Section Scale.
Variable c : R.
Hypothesis c_pos : 0 < c.

Notation edgeR := (edge RNum).

Lemma Rleb_scale a b : Rleb (c * a) (c * b) = Rleb a b.
Proof. destruct (Rleb a b) eqn:E.
  - apply Rleb_true. apply Rleb_true in E. apply Rmult_le_compat_l; lra.
  - apply Rleb_false. apply Rleb_false in E. apply Rmult_lt_compat_l; lra. Qed.

Lemma Rltb_scale a b : Rltb (c * a) (c * b) = Rltb a b.
Proof. destruct (Rltb a b) eqn:E.
  - apply Rltb_true. apply Rltb_true in E. apply Rmult_lt_compat_l; lra.
  - apply Rltb_false. apply Rltb_false in E. apply Rmult_le_compat_l; lra. Qed.

Lemma covers_scale (e : edgeR) x :
  covers RNum (scale_edge RNum c e) (c * x) = covers RNum e x.
Proof. unfold covers, scale_edge. cbn [el er leb ltb RNum mul]. rewrite Rleb_scale, Rltb_scale. reflexivity. Qed.

Lemma find_edge_scale (es : list edgeR) : forall i x u,
  find_edge RNum (map (scale_edge RNum c) es) i (c * x) u = find_edge RNum es i x u.
Proof. induction es as [|e r IH]; intros i x u; [reflexivity|]. cbn [map find_edge].
  rewrite covers_scale. cbn [scale_edge ec]. rewrite IH. reflexivity. Qed.

Lemma mut_edges_scale (es : list edgeR) (ms : list (R * nat)) :
  mut_edges RNum (map (scale_edge RNum c) es) (map (scale_mut RNum c) ms) = mut_edges RNum es ms.
Proof. unfold mut_edges. rewrite map_map. apply map_ext. intros [x u]. cbn [scale_mut fst snd mul RNum].
  apply find_edge_scale. Qed.

Lemma edge_inputs_aux (mes : list (option nat)) (mu : R) : forall (es : list edgeR) s,
  map (fun ie : nat * edgeR => (count_edge mes (fst ie),
         mul RNum (sub RNum (er (snd ie)) (el (snd ie))) (mu / c)))
      (combine (seq s (length es)) (map (scale_edge RNum c) es))
  = map (fun ie : nat * edgeR => (count_edge mes (fst ie),
         mul RNum (sub RNum (er (snd ie)) (el (snd ie))) mu))
      (combine (seq s (length es)) es).
Proof.
  assert (H : forall e : edgeR,
    mul RNum (sub RNum (er (scale_edge RNum c e)) (el (scale_edge RNum c e))) (mu / c)
    = mul RNum (sub RNum (er e) (el e)) mu).
  { intro e.
    cbn [scale_edge el er mul sub RNum]. change (@eq (T RNum)) with (@eq R). field. lra. }
  induction es as [|e r IH]; intro s; [reflexivity|]. cbn [map length seq combine fst snd].
  rewrite IH, H. reflexivity. Qed.

Lemma edge_inputs_scale (es : list edgeR) (ms : list (R * nat)) (mu : R) :
  edge_inputs RNum (map (scale_edge RNum c) es) (map (scale_mut RNum c) ms) (mu / c)
  = edge_inputs RNum es ms mu.
Proof. unfold edge_inputs. rewrite mut_edges_scale. rewrite map_length. apply edge_inputs_aux. Qed.
End Scale.

Lemma C07_inputs (c mu : R) (es : list (edge RNum)) (ms : list (R * nat)) : 0 < c ->
  mut_edges RNum (map (scale_edge RNum c) es) (map (scale_mut RNum c) ms) = mut_edges RNum es ms /\
  edge_inputs RNum (map (scale_edge RNum c) es) (map (scale_mut RNum c) ms) (mu / c)
  = edge_inputs RNum es ms mu.
Proof. intro H. split; [apply mut_edges_scale | apply edge_inputs_scale]; exact H. Qed.

Lemma C08_factor (Junk : Type) (tb tb' : raw_tables RNum Junk) (mu : R) :
  pi tb = pi tb' -> dating_inputs tb mu = dating_inputs tb' mu.
Proof. unfold pi, dating_inputs. intro H. inversion H as [[H1 H2]]. rewrite H1, H2. reflexivity. Qed.

