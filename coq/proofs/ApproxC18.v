(** * C18: EP moment updates -- guard structure (skip or valid), closed forms, mixtures.
    All statements are about the REGENERATED text of tsdate/approx.py (gen/ApproxGen.v) over the
    reals, with the hypergeometric Laplace approximants an arbitrary record [H]. *)
From Coq Require Import Reals Lra Bool ZArith Psatz.
From TsdateV Require Import lib.Num model.ApproxBase gen.HypergeoGen gen.ApproxGen proofs.ApproxTac.
Open Scope R_scope.

(** natural parameters [(shape - 1, rate)] of a gamma obtained by matching a positive mean and
    a positive variance *)
Definition is_mom (p : R * R) : Prop :=
  exists mn va, 0 < mn /\ 0 < va /\ p = (mn * mn / va - 1, mn / va).

Lemma is_mom_proper p : is_mom p -> 0 < fst p + 1 /\ 0 < snd p.
Proof.
  intros (mn & va & Hm & Hv & ->). cbn [fst snd]. split.
  - replace (mn * mn / va - 1 + 1) with (mn * mn / va) by lra.
    apply Rdiv_lt_0_compat; [apply Rmult_lt_0_compat|]; assumption.
  - apply Rdiv_lt_0_compat; assumption.
Qed.

(** the mean and the variance of the gamma with natural parameters [p] *)
Definition nat_mean (p : R * R) : R := (fst p + 1) / snd p.
Definition nat_var (p : R * R) : R := (fst p + 1) / (snd p * snd p).

Section C18.
  Variable lgam : R -> R.
  Variable eg : R.
  Variable H : HypFns RNum.
  Notation F := (RF lgam eg).

  (** ** the method-of-moments projection (approx.approximate_gamma_mom) *)
  Lemma mom_ok mean var : 0 < mean -> 0 < var ->
    approximate_gamma_mom RNum F H mean var = Ok (mean * mean / var - 1, mean / var).
  Proof.
    intros Hm Hv. unfold approximate_gamma_mom. runfold.
    rewrite (Rltb_t (0/1) mean) by lra. rewrite (Rltb_t (0/1) var) by lra. cbn [negb andb].
    f_equal. f_equal. field. lra.
  Qed.

  Lemma mom_fail mean var : ~ (0 < mean /\ 0 < var) ->
    approximate_gamma_mom RNum F H mean var = Err EKLFail.
  Proof. intros Hn. unfold approximate_gamma_mom. runfold. rdec; reflexivity. Qed.

  Lemma mom_exact mean var p : approximate_gamma_mom RNum F H mean var = Ok p ->
    0 < mean /\ 0 < var /\ nat_mean p = mean /\ nat_var p = var.
  Proof.
    intros E. destruct (Rlt_dec 0 mean) as [Hm|Hm]; [destruct (Rlt_dec 0 var) as [Hv|Hv]|].
    - rewrite mom_ok in E by assumption. injection E as <-. unfold nat_mean, nat_var. cbn [fst snd].
      repeat split; try assumption; field; lra.
    - rewrite mom_fail in E by lra. discriminate.
    - rewrite mom_fail in E by lra. discriminate.
  Qed.

  (** ** results of the projection wrappers: skip, or a proper moment-matched gamma; the only
      possible failures are the ones of [H] and of the assertions, never the projection's own
      exception *)
  Definition ok1 (r : exc (nanv (R * (R * R)))) : Prop :=
    match r with
    | Ok (Val (_, p)) => is_mom p
    | Ok Nan => True
    | Err e => e <> EKLFail
    end.
  Definition ok2 (r : exc (nanv (R * (R * R) * (R * R)))) : Prop :=
    match r with
    | Ok (Val (_, p, q)) => is_mom p /\ is_mom q
    | Ok Nan => True
    | Err e => e <> EKLFail
    end.
  (** mutation wrappers also return a phase probability *)
  Definition okp (r : exc (nanv (R * (R * R)))) : Prop :=
    match r with
    | Ok (Val (pr, p)) => 0 <= pr <= 1 /\ is_mom p
    | Ok Nan => True
    | Err e => e <> EKLFail
    end.

  (** [H] only asserts (true of the generated Laplace functions, see [hypfns_noKL] below) *)
  Definition hyp_noKL : Prop :=
    (forall a b c z, h_hyp2f1_laplace RNum H a b c z <> Err EKLFail) /\
    (forall a b z, h_hyp1f1_laplace RNum H a b z <> Err EKLFail) /\
    (forall a b z, h_hyperu_laplace RNum H a b z <> Err EKLFail).
  Hypothesis HnoKL : hyp_noKL.

  Ltac use_valid :=
    repeat match goal with
    | |- context [valid_moments RNum ?F0 ?H0 ?m ?v] =>
        let E := fresh "E" in
        destruct (valid_moments RNum F0 H0 m v) eqn:E; [apply valid_moments_R in E|]
    end; cbn [negb andb orb].

  Ltac finish_mom :=
    repeat match goal with
    | E : 0 < ?m /\ 0 < ?v |- context [approximate_gamma_mom RNum ?F0 ?H0 ?m ?v] =>
        rewrite (mom_ok m v) by (apply E)
    end;
    cbn [ok1 ok2 okp];
    repeat match goal with
    | |- _ /\ _ => split
    | E : 0 < ?m /\ 0 < ?v |- is_mom (?m * ?m / ?v - 1, ?m / ?v) =>
        exists m, v; split; [apply E|split; [apply E|reflexivity]]
    | |- True => exact I
    end.

  (** the moment functions never raise the projection's exception *)
  Ltac noKL_call :=
    match goal with
    | |- context [match h_hyp2f1_laplace RNum H ?a ?b ?c ?z with _ => _ end] =>
        let E := fresh "E" in
        destruct (h_hyp2f1_laplace RNum H a b c z) as [?|[]] eqn:E;
        try (exfalso; exact (proj1 HnoKL a b c z E))
    | |- context [match h_hyp1f1_laplace RNum H ?a ?b ?z with _ => _ end] =>
        let E := fresh "E" in
        destruct (h_hyp1f1_laplace RNum H a b z) as [?|[]] eqn:E;
        try (exfalso; exact (proj1 (proj2 HnoKL) a b z E))
    | |- context [match h_hyperu_laplace RNum H ?a ?b ?z with _ => _ end] =>
        let E := fresh "E" in
        destruct (h_hyperu_laplace RNum H a b z) as [[? ?]|[]] eqn:E;
        try (exfalso; exact (proj2 (proj2 HnoKL) a b z E))
    end.
  Ltac noKL := repeat (first [noKL_call | match goal with |- context [if ?c then _ else _] => destruct c end]);
               try discriminate; try (intros; discriminate).

  Lemma moments_noKL a_i b_i a_j b_j y mu : moments RNum F H a_i b_i a_j b_j y mu <> Err EKLFail.
  Proof. unfold moments. noKL. Qed.
  Lemma unphased_moments_noKL a_i b_i a_j b_j y mu : unphased_moments RNum F H a_i b_i a_j b_j y mu <> Err EKLFail.
  Proof. unfold unphased_moments. noKL. Qed.
  Lemma rootward_moments_noKL t a b y mu : rootward_moments RNum F H t a b y mu <> Err EKLFail.
  Proof. unfold rootward_moments. noKL. Qed.
  Lemma leafward_moments_noKL t a b y mu : leafward_moments RNum F H t a b y mu <> Err EKLFail.
  Proof. unfold leafward_moments. noKL. Qed.
  Lemma sideways_moments_noKL t a b y mu : sideways_moments RNum F H t a b y mu <> Err EKLFail.
  Proof. unfold sideways_moments. noKL. Qed.
  Lemma mutation_moments_noKL a_i b_i a_j b_j y mu : mutation_moments RNum F H a_i b_i a_j b_j y mu <> Err EKLFail.
  Proof. unfold mutation_moments. noKL. Qed.
  Lemma mutation_unphased_moments_noKL a_i b_i a_j b_j y mu :
    mutation_unphased_moments RNum F H a_i b_i a_j b_j y mu <> Err EKLFail.
  Proof. unfold mutation_unphased_moments. noKL. Qed.
  Lemma mutation_sideways_moments_noKL t a b y mu : mutation_sideways_moments RNum F H t a b y mu <> Err EKLFail.
  Proof. unfold mutation_sideways_moments. noKL. Qed.
  Lemma mutation_rootward_moments_noKL t a b y mu : mutation_rootward_moments RNum F H t a b y mu <> Err EKLFail.
  Proof.
    unfold mutation_rootward_moments.
    pose proof (rootward_moments_noKL t a b y mu) as Hn.
    destruct (rootward_moments RNum F H t a b y mu) as [[[[? ?] ?]|]|e]; try discriminate.
    intros E; injection E as ->; apply Hn; reflexivity.
  Qed.
  Lemma mutation_leafward_moments_noKL t a b y mu : mutation_leafward_moments RNum F H t a b y mu <> Err EKLFail.
  Proof.
    unfold mutation_leafward_moments.
    pose proof (leafward_moments_noKL t a b y mu) as Hn.
    destruct (leafward_moments RNum F H t a b y mu) as [[[[? ?] ?]|]|e]; try discriminate.
    intros E; injection E as ->; apply Hn; reflexivity.
  Qed.
  Lemma mutation_block_moments_noKL t_i t_j : mutation_block_moments RNum F H t_i t_j <> Err EKLFail.
  Proof. unfold mutation_block_moments. noKL. Qed.

  (** ** skip-or-valid, wrapper by wrapper *)
  Theorem gamma_projection_ok pi pj pij : ok2 (gamma_projection RNum F H pi pj pij).
  Proof.
    destruct pi as [a_i b_i], pj as [a_j b_j], pij as [y mu]. unfold gamma_projection.
    match goal with |- context [moments RNum F H ?a ?b ?c ?d ?e ?f] =>
      pose proof (moments_noKL a b c d e f) as Hn;
      destruct (moments RNum F H a b c d e f) as [[[[[[logl mn_i] va_i] mn_j] va_j]|]|e0] end.
    - use_valid; finish_mom.
    - exact I.
    - cbn. intros ->. apply Hn; reflexivity.
  Qed.

  Theorem unphased_projection_ok pi pj pij : ok2 (unphased_projection RNum F H pi pj pij).
  Proof.
    destruct pi as [a_i b_i], pj as [a_j b_j], pij as [y mu]. unfold unphased_projection.
    match goal with |- context [unphased_moments RNum F H ?a ?b ?c ?d ?e ?f] =>
      pose proof (unphased_moments_noKL a b c d e f) as Hn;
      destruct (unphased_moments RNum F H a b c d e f) as [[[[[[logl mn_i] va_i] mn_j] va_j]|]|e0] end.
    - use_valid; finish_mom.
    - exact I.
    - cbn. intros ->. apply Hn; reflexivity.
  Qed.

  Ltac one_output f lem :=
    match goal with |- context [f RNum F H ?a ?b ?c ?d ?e] =>
      let Hn := fresh "Hn" in
      pose proof (lem a b c d e) as Hn;
      destruct (f RNum F H a b c d e) as [[[[? ?] ?]|]|e0];
      [use_valid; finish_mom | exact I | cbn; intros ->; apply Hn; reflexivity] end.

  Theorem leafward_projection_ok t pj pij : ok1 (leafward_projection RNum F H t pj pij).
  Proof. destruct pj, pij. unfold leafward_projection. one_output leafward_moments leafward_moments_noKL. Qed.
  Theorem rootward_projection_ok t pi pij : ok1 (rootward_projection RNum F H t pi pij).
  Proof. destruct pi, pij. unfold rootward_projection. one_output rootward_moments rootward_moments_noKL. Qed.
  Theorem sideways_projection_ok t pj pij : ok1 (sideways_projection RNum F H t pj pij).
  Proof. destruct pj, pij. unfold sideways_projection. one_output sideways_moments sideways_moments_noKL. Qed.

  Theorem twin_projection_ok pi pij : ok1 (twin_projection RNum F H pi pij).
  Proof.
    destruct pi, pij. unfold twin_projection.
    match goal with |- context [twin_moments RNum F H ?a ?b ?c ?d] =>
      destruct (twin_moments RNum F H a b c d) as [[? ?] ?] end.
    use_valid; finish_mom.
  Qed.

  Lemma one_le : 0 <= 1 <= 1. Proof. lra. Qed.

  (** mutation wrappers with phase probability 1 *)
  Ltac phase_one :=
    cbn [okp]; runfold; replace (1 / 1) with 1 by field;
    repeat match goal with
    | |- _ /\ _ => split
    | |- 0 <= 1 => lra
    | |- 1 <= 1 => lra
    | E : 0 < ?m /\ 0 < ?v |- is_mom (?m * ?m / ?v - 1, ?m / ?v) =>
        exists m, v; split; [apply E|split; [apply E|reflexivity]]
    | |- True => exact I
    end.

  Theorem mutation_gamma_projection_ok pi pj pij : okp (mutation_gamma_projection RNum F H pi pj pij).
  Proof.
    destruct pi, pj, pij. unfold mutation_gamma_projection.
    match goal with |- context [mutation_moments RNum F H ?a ?b ?c ?d ?e ?f] =>
      pose proof (mutation_moments_noKL a b c d e f) as Hn;
      destruct (mutation_moments RNum F H a b c d e f) as [[[mn va]|]|e0] end.
    - use_valid; [|exact I].
      rewrite (mom_ok mn va) by apply E. phase_one.
    - exact I.
    - cbn. intros ->. apply Hn; reflexivity.
  Qed.

  Ltac mut_one f lem :=
    match goal with |- context [f RNum F H ?a ?b ?c ?d ?e] =>
      let Hn := fresh "Hn" in let mn := fresh "mn" in let va := fresh "va" in
      pose proof (lem a b c d e) as Hn;
      destruct (f RNum F H a b c d e) as [[[mn va]|]|e0];
      [use_valid; [|exact I]; rewrite (mom_ok mn va) by (match goal with E : _ /\ _ |- _ => apply E end); phase_one
      | exact I | cbn; intros ->; apply Hn; reflexivity] end.

  Theorem mutation_leafward_projection_ok t pj pij : okp (mutation_leafward_projection RNum F H t pj pij).
  Proof. destruct pj, pij. unfold mutation_leafward_projection. mut_one mutation_leafward_moments mutation_leafward_moments_noKL. Qed.
  Theorem mutation_rootward_projection_ok t pi pij : okp (mutation_rootward_projection RNum F H t pi pij).
  Proof. destruct pi, pij. unfold mutation_rootward_projection. mut_one mutation_rootward_moments mutation_rootward_moments_noKL. Qed.

  Theorem mutation_edge_projection_ok t_i t_j : okp (mutation_edge_projection RNum F H t_i t_j).
  Proof.
    unfold mutation_edge_projection.
    match goal with |- context [mutation_edge_moments RNum F H ?a ?b] =>
      destruct (mutation_edge_moments RNum F H a b) as [mn va] end.
    use_valid; [|exact I]. rewrite (mom_ok mn va) by apply E. phase_one.
  Qed.

  (** mutation wrappers that return a computed phase probability *)
  Ltac phase_dyn pr mn va :=
    use_valid; try exact I;
    change (Num.leb RNum (Num.ofZ RNum 0) pr) with (Rleb 0 pr);
    change (Num.leb RNum pr (Num.ofZ RNum 1)) with (Rleb pr 1);
    destruct (Rleb 0 pr) eqn:E0; cbn [negb andb orb]; try exact I;
    destruct (Rleb pr 1) eqn:E1; cbn [negb andb orb]; try exact I;
    apply Rleb_true in E0; apply Rleb_true in E1;
    rewrite (mom_ok mn va) by (match goal with E : 0 < mn /\ _ |- _ => apply E end);
    cbn [okp]; split; [split; assumption|];
    exists mn, va; match goal with E : 0 < mn /\ _ |- _ => (split; [apply E|split; [apply E|reflexivity]]) end.

  Theorem mutation_unphased_projection_ok pi pj pij : okp (mutation_unphased_projection RNum F H pi pj pij).
  Proof.
    destruct pi, pj, pij. unfold mutation_unphased_projection.
    match goal with |- context [mutation_unphased_moments RNum F H ?a ?b ?c ?d ?e ?f] =>
      pose proof (mutation_unphased_moments_noKL a b c d e f) as Hn;
      destruct (mutation_unphased_moments RNum F H a b c d e f) as [[[[pr mn] va]|]|e0] end.
    - phase_dyn pr mn va.
    - exact I.
    - cbn. intros ->. apply Hn; reflexivity.
  Qed.

  Theorem mutation_twin_projection_ok pi pij : okp (mutation_twin_projection RNum F H pi pij).
  Proof.
    destruct pi, pij. unfold mutation_twin_projection.
    match goal with |- context [mutation_twin_moments RNum F H ?a ?b ?c ?d] =>
      destruct (mutation_twin_moments RNum F H a b c d) as [[pr mn] va] end.
    phase_dyn pr mn va.
  Qed.

  Theorem mutation_sideways_projection_ok t pj pij : okp (mutation_sideways_projection RNum F H t pj pij).
  Proof.
    destruct pj, pij. unfold mutation_sideways_projection.
    match goal with |- context [mutation_sideways_moments RNum F H ?a ?b ?c ?d ?e] =>
      pose proof (mutation_sideways_moments_noKL a b c d e) as Hn;
      destruct (mutation_sideways_moments RNum F H a b c d e) as [[[[pr mn] va]|]|e0] end.
    - phase_dyn pr mn va.
    - exact I.
    - cbn. intros ->. apply Hn; reflexivity.
  Qed.

  Theorem mutation_block_projection_ok t_i t_j : okp (mutation_block_projection RNum F H t_i t_j).
  Proof.
    unfold mutation_block_projection.
    pose proof (mutation_block_moments_noKL t_i t_j) as Hn.
    destruct (mutation_block_moments RNum F H t_i t_j) as [[[pr mn] va]|e0].
    - phase_dyn pr mn va.
    - cbn. intros ->. apply Hn; reflexivity.
  Qed.
End C18.

(** ** the generated Laplace functions only assert: [hyp_noKL] holds of them *)
Lemma hypfns_noKL lgam eg : hyp_noKL (hypfns RNum (RF lgam eg)).
Proof.
  unfold hyp_noKL, hypfns; cbn [h_hyp2f1_laplace h_hyp1f1_laplace h_hyperu_laplace]. repeat split; intros.
  - unfold hyp2f1_laplace.
    repeat match goal with |- context [if ?c then _ else _] => destruct c end; try discriminate.
    all: repeat match goal with |- context [if ?c then _ else _] => destruct c end; try discriminate.
  - unfold hyp1f1_laplace. repeat match goal with |- context [if ?c then _ else _] => destruct c end; discriminate.
  - unfold hyperu_laplace. repeat match goal with |- context [if ?c then _ else _] => destruct c end; discriminate.
Qed.

(** ** closed-form cases *)
Section Closed.
  Variable lgam : R -> R.
  Variable eg : R.
  Variable H : HypFns RNum.
  Notation F := (RF lgam eg).

  (** *** (i) child at time zero: gamma conjugacy.
      cavity kernel x Poisson kernel = kernel of Gamma(a + y, b + mu) *)
  Lemma kernel_conj a b y mu t : 0 < t ->
    (Rpower t (a - 1) * exp (- b * t)) * (Rpower t y * exp (- mu * t))
    = Rpower t (a + y - 1) * exp (- (b + mu) * t).
  Proof.
    intros Ht. replace (a + y - 1) with ((a - 1) + y) by lra. rewrite Rpower_plus.
    replace (- (b + mu) * t) with (- b * t + - mu * t) by lra. rewrite exp_plus. ring.
  Qed.

  (** the function returns log Gamma(s) - s log r and the mean s/r and variance s/r^2 of
      Gamma(s, r), s = a + y, r = b + mu *)
  Lemma rootward0 a_i b_i y mu : 0 < a_i + y -> 0 < mu + b_i ->
    rootward_moments RNum F H 0 a_i b_i y mu =
      Ok (Val (lgam (a_i + y) - (a_i + y) * ln (mu + b_i),
               (a_i + y) / (mu + b_i), (a_i + y) / ((mu + b_i) * (mu + b_i)))).
  Proof.
    intros Hs Hr. unfold rootward_moments.
    rewrite (proj2 (valid_gamma_R lgam eg H _ _)).
    2:{ runfold. lra. }
    runfold. rewrite (Rleb_t (0/1) 0) by lra. cbn [negb].
    replace (0/1) with 0 by field. rewrite Reqb_t. reflexivity.
  Qed.

  (** ... and the projection maps them back to the natural parameters of that gamma: the
      update is the exact conjugate update (cavity + likelihood) *)
  Lemma rootward_projection_conjugate a_i b_i y mu : 0 < a_i + 1 + y -> 0 < b_i + mu ->
    exists logl, rootward_projection RNum F H 0 (a_i, b_i) (y, mu) = Ok (Val (logl, (a_i + y, b_i + mu))).
  Proof.
    intros Hs Hr. unfold rootward_projection.
    change (Num.add RNum a_i (Num.ofZ RNum 1)) with (a_i + 1).
    rewrite rootward0 by lra.
    assert (Hm : 0 < (a_i + 1 + y) / (mu + b_i)) by (apply Rdiv_lt_0_compat; lra).
    assert (Hv : 0 < (a_i + 1 + y) / ((mu + b_i) * (mu + b_i))).
    { apply Rdiv_lt_0_compat; [lra|apply Rmult_lt_0_compat; lra]. }
    rewrite (proj2 (valid_moments_R lgam eg H _ _)) by (split; assumption).
    cbn [negb]. rewrite mom_ok by assumption.
    eexists. f_equal. f_equal. f_equal. f_equal; field; lra.
  Qed.

  (** *** (iii) twin blocks: Gamma(a + y, b + 2 mu) *)
  Lemma kernel_twin a b y mu t : 0 < t ->
    (Rpower t (a - 1) * exp (- b * t)) * (Rpower (2 * t) y * exp (- mu * (2 * t)))
    = Rpower 2 y * (Rpower t (a + y - 1) * exp (- (b + 2 * mu) * t)).
  Proof.
    intros Ht. rewrite <- (Rpower_mult_distr 2 t y) by lra.
    replace (a + y - 1) with ((a - 1) + y) by lra. rewrite Rpower_plus.
    replace (- (b + 2 * mu) * t) with (- b * t + - mu * (2 * t)) by lra. rewrite exp_plus. ring.
  Qed.

  Lemma twin_moments_closed a b y mu :
    twin_moments RNum F H a b y mu =
      (ln 2 * y + lgam (a + y) - ln (b + 2 * mu) * (a + y),
       (a + y) / (b + 2 * mu), (a + y) / ((b + 2 * mu) * (b + 2 * mu))).
  Proof. reflexivity. Qed.

  Lemma twin_projection_conjugate a_i b_i y mu : 0 < a_i + 1 + y -> 0 < b_i + 2 * mu ->
    exists logl, twin_projection RNum F H (a_i, b_i) (y, mu) = Ok (Val (logl, (a_i + y, b_i + 2 * mu))).
  Proof.
    intros Hs Hr. unfold twin_projection.
    change (Num.add RNum a_i (Num.ofZ RNum 1)) with (a_i + 1).
    rewrite twin_moments_closed.
    assert (Hm : 0 < (a_i + 1 + y) / (b_i + 2 * mu)) by (apply Rdiv_lt_0_compat; lra).
    assert (Hv : 0 < (a_i + 1 + y) / ((b_i + 2 * mu) * (b_i + 2 * mu))).
    { apply Rdiv_lt_0_compat; [lra|apply Rmult_lt_0_compat; lra]. }
    rewrite (proj2 (valid_moments_R lgam eg H _ _)) by (split; assumption).
    cbn [negb]. rewrite mom_ok by assumption.
    eexists. f_equal. f_equal. f_equal. f_equal; field; lra.
  Qed.

  (** *** (ii) both ends fixed: uniform on [t_j, t_i] *)
  Lemma edge_moments_uniform t_i t_j :
    mutation_edge_moments RNum F H t_i t_j = (1 / 2 * (t_i + t_j), 1 / 12 * ((t_i - t_j) * (t_i - t_j))).
  Proof. reflexivity. Qed.

  Lemma edge_projection_closed t_i t_j : t_j < t_i -> 0 < t_i + t_j ->
    let mn := 1 / 2 * (t_i + t_j) in
    let va := 1 / 12 * ((t_i - t_j) * (t_i - t_j)) in
    mutation_edge_projection RNum F H t_i t_j = Ok (Val (1, (mn * mn / va - 1, mn / va)))
    /\ t_j < mn < t_i /\ 0 < va.
  Proof.
    intros Hlt Hpos mn va.
    assert (Hv : 0 < va).
    { unfold va. assert (0 < (t_i - t_j) * (t_i - t_j)) by (apply Rmult_lt_0_compat; lra). lra. }
    assert (Hm : 0 < mn) by (unfold mn; lra).
    split; [|split; [unfold mn; lra|exact Hv]].
    unfold mutation_edge_projection. rewrite edge_moments_uniform. fold mn va.
    rewrite (proj2 (valid_moments_R lgam eg H _ _)) by (split; assumption).
    cbn [negb]. rewrite mom_ok by assumption. runfold. replace (1 / 1) with 1 by field. reflexivity.
  Qed.

  (** *** mutation variants: the mutation is uniform on its branch, so its first two moments are
      the mixtures  E[(t_i + t_j)/2]  and  E[(t_i^2 + t_i t_j + t_j^2)/3]  over the node posterior *)
  Lemma mutation_rootward_mixture t_j a b y mu :
    mutation_rootward_moments RNum F H t_j a b y mu =
    match rootward_moments RNum F H t_j a b y mu with
    | Ok (Val (_, m, v)) =>
        Ok (Val (m / 2 + t_j / 2, (v + m * m + m * t_j + t_j * t_j) / 3 - (m / 2 + t_j / 2) * (m / 2 + t_j / 2)))
    | Ok Nan => Ok Nan
    | Err e => Err e
    end.
  Proof.
    unfold mutation_rootward_moments.
    destruct (rootward_moments RNum F H t_j a b y mu) as [[[[l m] v]|]|e]; reflexivity.
  Qed.

  Lemma mutation_leafward_mixture t_i a b y mu :
    mutation_leafward_moments RNum F H t_i a b y mu =
    match leafward_moments RNum F H t_i a b y mu with
    | Ok (Val (_, m, v)) =>
        Ok (Val (m / 2 + t_i / 2, (v + m * m + m * t_i + t_i * t_i) / 3 - (m / 2 + t_i / 2) * (m / 2 + t_i / 2)))
    | Ok Nan => Ok Nan
    | Err e => Err e
    end.
  Proof.
    unfold mutation_leafward_moments.
    destruct (leafward_moments RNum F H t_i a b y mu) as [[[[l m] v]|]|e]; reflexivity.
  Qed.

  (** if the node mean lies in the support, so does the mutation mean *)
  Lemma mutation_mean_between (t m : R) : t < m -> t < m / 2 + t / 2 < m.
  Proof. intros; lra. Qed.
  Lemma mutation_mean_between' (t m : R) : m < t -> m < m / 2 + t / 2 < t.
  Proof. intros; lra. Qed.

  (** the variance of that mixture is positive whenever the node variance is *)
  Lemma mutation_mixture_var_pos (t m v : R) : 0 < v ->
    0 < (v + m * m + m * t + t * t) / 3 - (m / 2 + t / 2) * (m / 2 + t / 2).
  Proof.
    intros Hv.
    replace ((v + m * m + m * t + t * t) / 3 - (m / 2 + t / 2) * (m / 2 + t / 2))
      with (v / 3 + (m - t) * (m - t) / 12) by field.
    pose proof (Rle_0_sqr (m - t)) as Q. unfold Rsqr in Q. lra.
  Qed.

  Lemma mutation_twin_closed a b y mu :
    let s := a + y in let r := b + 2 * mu in
    mutation_twin_moments RNum F H a b y mu =
      (5 / 10, s / r / 2, (s + 1) * s / 3 / (r * r) - s / r / 2 * (s / r / 2)).
  Proof. reflexivity. Qed.

  (** ... i.e. half the twin mean, and a third of the twin second moment *)
  Lemma mutation_twin_mixture a b y mu : b + 2 * mu <> 0 ->
    let '(_, m, v) := twin_moments RNum F H a b y mu in
    mutation_twin_moments RNum F H a b y mu = (5 / 10, m / 2, (v + m * m) / 3 - m / 2 * (m / 2)).
  Proof.
    intros Hr. rewrite twin_moments_closed, mutation_twin_closed. cbv zeta.
    f_equal. f_equal. field. exact Hr.
  Qed.

  (** both ends fixed, unphased block: mixture of two uniforms *)
  Lemma block_closed t_i t_j : 0 < t_i -> 0 < t_j ->
    exists pr mn va, mutation_block_moments RNum F H t_i t_j = Ok (pr, mn, va) /\
      pr = t_i / (t_i + t_j) /\ 0 < pr < 1 /\
      mn = (t_i * t_i + t_j * t_j) / (2 * (t_i + t_j)) /\
      0 < mn /\ 0 < va.
  Proof.
    intros Hi Hj. unfold mutation_block_moments. runfold.
    rewrite (Rltb_t 0 t_i) by lra. rewrite (Rltb_t 0 t_j) by lra.
    eexists _, _, _. split; [reflexivity|].
    assert (Hs : 0 < t_i + t_j) by lra.
    assert (Hp : 0 < t_i / (t_i + t_j)) by (apply Rdiv_lt_0_compat; lra).
    assert (Hp1 : t_i / (t_i + t_j) < 1).
    { apply Rmult_lt_reg_r with (t_i + t_j); [lra|]. unfold Rdiv. rewrite Rmult_assoc, Rinv_l by lra. lra. }
    split; [reflexivity|]. split; [lra|]. split; [field; lra|].
    split.
    - replace (t_i / (t_i + t_j) * t_i / 2 + (1 - t_i / (t_i + t_j)) * t_j / 2)
        with ((t_i * t_i + t_j * t_j) / (2 * (t_i + t_j))) by (field; lra).
      apply Rdiv_lt_0_compat; nra.
    - set (N := (t_i*t_i - t_j*t_j) * (t_i*t_i - t_j*t_j) + 4 * t_i * t_j * (t_i*t_i + t_j*t_j - t_i*t_j)).
      match goal with |- 0 < ?e =>
        replace e with (N / (12 * ((t_i + t_j) * (t_i + t_j)))) by (unfold N; field; lra) end.
      apply Rdiv_lt_0_compat; [|nra].
      unfold N. assert (H1 : 0 < t_i * t_j) by (apply Rmult_lt_0_compat; assumption).
      assert (H2 : 0 < t_i*t_i + t_j*t_j - t_i*t_j).
      { pose proof (Rle_0_sqr (t_i - t_j)) as Q. unfold Rsqr in Q. lra. }
      assert (H3 : 0 <= (t_i*t_i - t_j*t_j) * (t_i*t_i - t_j*t_j)).
      { pose proof (Rle_0_sqr (t_i*t_i - t_j*t_j)) as Q. unfold Rsqr in Q. exact Q. }
      pose proof (Rmult_lt_0_compat _ _ H1 H2) as H4.
      replace (4 * t_i * t_j * (t_i*t_i + t_j*t_j - t_i*t_j))
        with (4 * (t_i * t_j * (t_i*t_i + t_j*t_j - t_i*t_j))) by ring.
      lra.
  Qed.

  (** the block update with two fixed parents is therefore never skipped *)
  Lemma block_projection_closed t_i t_j : 0 < t_i -> 0 < t_j ->
    exists pr p, mutation_block_projection RNum F H t_i t_j = Ok (Val (pr, p)) /\
      pr = t_i / (t_i + t_j) /\ 0 < pr < 1 /\ is_mom p.
  Proof.
    intros Hi Hj. destruct (block_closed t_i t_j Hi Hj) as (pr & mn & va & E & Epr & Hpr & _ & Hm & Hv).
    unfold mutation_block_projection. rewrite E.
    rewrite (proj2 (valid_moments_R lgam eg H _ _)) by (split; assumption).
    change (Num.leb RNum (Num.ofZ RNum 0) pr) with (Rleb 0 pr).
    change (Num.leb RNum pr (Num.ofZ RNum 1)) with (Rleb pr 1).
    rewrite (Rleb_t 0 pr) by lra. rewrite (Rleb_t pr 1) by lra. cbn [negb andb orb].
    rewrite mom_ok by assumption. eexists _, _. split; [reflexivity|].
    split; [exact Epr|]. split; [exact Hpr|]. exists mn, va. repeat split; assumption.
  Qed.
End Closed.

(** ** assembly for props/C18.v *)
Definition all_wrappers_ok (F : Fns RNum) (H : HypFns RNum) : Prop :=
  (forall pi pj pij, ok2 (gamma_projection RNum F H pi pj pij)) /\
  (forall pi pj pij, ok2 (unphased_projection RNum F H pi pj pij)) /\
  (forall t pj pij, ok1 (leafward_projection RNum F H t pj pij)) /\
  (forall t pi pij, ok1 (rootward_projection RNum F H t pi pij)) /\
  (forall t pj pij, ok1 (sideways_projection RNum F H t pj pij)) /\
  (forall pi pij, ok1 (twin_projection RNum F H pi pij)) /\
  (forall pi pj pij, okp (mutation_gamma_projection RNum F H pi pj pij)) /\
  (forall t pj pij, okp (mutation_leafward_projection RNum F H t pj pij)) /\
  (forall t pi pij, okp (mutation_rootward_projection RNum F H t pi pij)) /\
  (forall t_i t_j, okp (mutation_edge_projection RNum F H t_i t_j)) /\
  (forall pi pj pij, okp (mutation_unphased_projection RNum F H pi pj pij)) /\
  (forall pi pij, okp (mutation_twin_projection RNum F H pi pij)) /\
  (forall t pj pij, okp (mutation_sideways_projection RNum F H t pj pij)) /\
  (forall t_i t_j, okp (mutation_block_projection RNum F H t_i t_j)).

Lemma C18_skip_or_valid_any lgam eg (H : HypFns RNum) : hyp_noKL H -> all_wrappers_ok (RF lgam eg) H.
Proof.
  intros Hn. unfold all_wrappers_ok. repeat split; intros.
  - apply gamma_projection_ok; assumption.
  - apply unphased_projection_ok; assumption.
  - apply leafward_projection_ok; assumption.
  - apply rootward_projection_ok; assumption.
  - apply sideways_projection_ok; assumption.
  - apply twin_projection_ok.
  - apply mutation_gamma_projection_ok; assumption.
  - apply mutation_leafward_projection_ok; assumption.
  - apply mutation_rootward_projection_ok; assumption.
  - apply mutation_edge_projection_ok.
  - apply mutation_unphased_projection_ok; assumption.
  - apply mutation_twin_projection_ok.
  - apply mutation_sideways_projection_ok; assumption.
  - apply mutation_block_projection_ok.
Qed.

(** with the regenerated Laplace approximants of hypergeo.py plugged in, no hypothesis is left *)
Lemma C18_skip_or_valid_linked lgam eg : all_wrappers_ok (RF lgam eg) (hypfns RNum (RF lgam eg)).
Proof. apply C18_skip_or_valid_any. apply hypfns_noKL. Qed.

Lemma C18_example lgam eg (H : HypFns RNum) :
  exists logl, rootward_projection RNum (RF lgam eg) H 0 (1, 2) (3, 1) = Ok (Val (logl, (1 + 3, 2 + 1))).
Proof. apply rootward_projection_conjugate; lra. Qed.

(** ** in the closed-form cases the returned mean lies in the support of the tilted distribution *)
Section SupportClosed.
  Variable lgam : R -> R.
  Variable eg : R.
  Variable H : HypFns RNum.
  Notation F := (RF lgam eg).

  (* child at time zero: the free parent's mean is above the child *)
  Lemma support_rootward0 a_i b_i y mu l m v : 0 < a_i + y -> 0 < mu + b_i ->
    rootward_moments RNum F H 0 a_i b_i y mu = Ok (Val (l, m, v)) -> 0 < m /\ 0 < v.
  Proof.
    intros Hs Hr E. rewrite rootward0 in E by assumption. injection E as <- <- <-. split.
    - apply Rdiv_lt_0_compat; assumption.
    - apply Rdiv_lt_0_compat; [assumption|apply Rmult_lt_0_compat; assumption].
  Qed.

  Lemma support_twin a b y mu : 0 < a + y -> 0 < b + 2 * mu ->
    0 < snd (fst (twin_moments RNum F H a b y mu)) /\ 0 < snd (twin_moments RNum F H a b y mu).
  Proof.
    intros Hs Hr. rewrite twin_moments_closed. cbn [fst snd]. split.
    - apply Rdiv_lt_0_compat; assumption.
    - apply Rdiv_lt_0_compat; [assumption|apply Rmult_lt_0_compat; assumption].
  Qed.

  Lemma support_edge t_i t_j : t_j < t_i ->
    t_j < fst (mutation_edge_moments RNum F H t_i t_j) < t_i /\ 0 < snd (mutation_edge_moments RNum F H t_i t_j).
  Proof.
    intros Hlt. rewrite edge_moments_uniform. cbn [fst snd]. split; [lra|].
    assert (0 < (t_i - t_j) * (t_i - t_j)) by (apply Rmult_lt_0_compat; lra). lra.
  Qed.

  (* mutation above a child at time zero: between the child and the parent's mean *)
  Lemma support_mutation_rootward0 a_i b_i y mu m v : 0 < a_i + y -> 0 < mu + b_i ->
    mutation_rootward_moments RNum F H 0 a_i b_i y mu = Ok (Val (m, v)) ->
    0 < m < (a_i + y) / (mu + b_i) /\ 0 < v.
  Proof.
    intros Hs Hr E. rewrite mutation_rootward_mixture, rootward0 in E by assumption. injection E as <- <-.
    assert (Hm : 0 < (a_i + y) / (mu + b_i)) by (apply Rdiv_lt_0_compat; assumption).
    split; [lra|]. apply mutation_mixture_var_pos.
    apply Rdiv_lt_0_compat; [assumption|apply Rmult_lt_0_compat; assumption].
  Qed.
End SupportClosed.
