(** * Facts about the model of [set_time_metadata] (model/Glue.v, Section Meta). *)
From Coq Require Import String List Bool Arith Lia.
From TsdateV Require Import model.Glue.
Import ListNotations.
Open Scope string_scope.

Section MetaFacts.
  Variable T other schema byte : Type.
  Notation value := (value T other).
  Notation row := (row T other).
  Notation bytes := (bytes byte).
  Notation mtable := (@mtable schema byte).
  Variable decode : schema -> bytes -> dec T other.
  Variable encode : schema -> row -> @enc byte.

  Notation set_meta := (set_time_metadata T other schema byte decode encode).
  Notation md_array := (time_md_array T other schema byte decode encode).
  Notation loop := (md_loop T other schema byte decode encode).

  (** *** dict update *)
  Lemma get_set_same k v (r : row) : get_field T other k (set_field T other k v r) = Some v.
  Proof.
    induction r as [|[k' v'] r IH]; simpl.
    - now rewrite String.eqb_refl.
    - destruct (String.eqb k' k) eqn:E; simpl.
      + now rewrite String.eqb_refl.
      + now rewrite E.
  Qed.

  Lemma get_set_other k k2 v (r : row) : k2 <> k ->
    get_field T other k2 (set_field T other k v r) = get_field T other k2 r.
  Proof.
    intros Hne. induction r as [|[k' v'] r IH]; simpl.
    - destruct (String.eqb k k2) eqn:E; [apply String.eqb_eq in E; congruence | reflexivity].
    - destruct (String.eqb k' k) eqn:E; simpl.
      + apply String.eqb_eq in E; subst k'.
        destruct (String.eqb k k2) eqn:E2; [apply String.eqb_eq in E2; congruence | reflexivity].
      + destruct (String.eqb k' k2); [reflexivity | exact IH].
  Qed.

  Lemma add_times_mn r m v : get_field T other "mn" (add_times T other r m v) = Some (VNum m).
  Proof. unfold add_times. rewrite get_set_other by discriminate. apply get_set_same. Qed.
  Lemma add_times_vr r m v : get_field T other "vr" (add_times T other r m v) = Some (VNum v).
  Proof. unfold add_times. apply get_set_same. Qed.
  Lemma add_times_other r m v k : k <> "mn" -> k <> "vr" ->
    get_field T other k (add_times T other r m v) = get_field T other k r.
  Proof. intros H1 H2. unfold add_times. rewrite !get_set_other by assumption. reflexivity. Qed.

  (** *** what the property talks about *)

  (** the row handed to [.update] for stored bytes [b] *)
  Definition in_row (t : mtable) (s : schema) (b : bytes) : dec T other :=
    if has_bytes schema byte t then decode s b else DecRow [].

  (** [out] encodes, under [s], a dict that has mn = m, vr = v and agrees with [r0] on
      every other key *)
  Definition carries (s : schema) (r0 : row) (m v : T) (out : bytes) : Prop :=
    exists r, encode s r = EncOk out /\
      get_field T other "mn" r = Some (VNum m) /\ get_field T other "vr" r = Some (VNum v) /\
      forall k, k <> "mn" -> k <> "vr" -> get_field T other k r = get_field T other k r0.

  (** "the existing schema can encode them": a schema is set and every row, extended by
      its mn / vr, validates and encodes *)
  Definition can_encode (t : mtable) (mean var : list T) : Prop :=
    exists s, mschema t = Some s /\
      forall i b m v, nth_error (mrows t) i = Some b -> nth_error mean i = Some m ->
        nth_error var i = Some v ->
        exists r out, in_row t s b = DecRow r /\ encode s (add_times T other r m v) = EncOk out.

  (** the table's own codec behaves: stored rows decode to dicts and encoding raises
      nothing but metadata errors *)
  Definition well_behaved (t : mtable) : Prop :=
    forall s, mschema t = Some s ->
      (forall b, In b (mrows t) -> in_row t s b <> DecCrash) /\
      (forall r, encode s r <> EncCrash).

  (** the default schema encodes a fresh {"mn": m, "vr": v} *)
  Definition default_ok (d : schema) : Prop :=
    forall m v, exists out, encode d (add_times T other [] m v) = EncOk out.

  Definition lengths_ok (t : mtable) (mean var : list T) : Prop :=
    length mean = length var /\ length var = length (mrows t).

  (** every output row [i] carries (mean i, var i) on top of [base i] *)
  Definition rows_carry (s : schema) (base : bytes -> dec T other) (rows : list bytes)
      (mean var : list T) (bs : list bytes) : Prop :=
    length bs = length rows /\
    forall i b m v, nth_error rows i = Some b -> nth_error mean i = Some m ->
      nth_error var i = Some v ->
      exists r0 out, base b = DecRow r0 /\ nth_error bs i = Some out /\ carries s r0 m v out.

  (** *** the loop *)
  Lemma loop_ok_enc s dcd : forall rows mean var bs,
    loop s dcd rows mean var = MdOk bs ->
    length mean = length var -> length var = length rows ->
    length bs = length rows /\
    forall i b m v, nth_error rows i = Some b -> nth_error mean i = Some m ->
      nth_error var i = Some v ->
      exists r out, (if dcd then decode s b else DecRow []) = DecRow r /\
        encode s (add_times T other r m v) = EncOk out /\ nth_error bs i = Some out.
  Proof.
    induction rows as [|b rows IH]; intros mean var bs H L1 L2.
    - simpl in H. inversion H; subst. split; [reflexivity|].
      intros i b m v Hb. destruct i; discriminate.
    - destruct mean as [|m mean]; [simpl in *; lia|].
      destruct var as [|v var]; [simpl in *; lia|].
      simpl in H.
      destruct (if dcd then decode s b else DecRow []) as [r|] eqn:D; [|discriminate].
      destruct (encode s (add_times T other r m v)) as [out| |] eqn:E; try discriminate.
      destruct (loop s dcd rows mean var) as [l| |] eqn:R; try discriminate.
      inversion H; subst bs. simpl in L1, L2.
      destruct (IH mean var l R ltac:(lia) ltac:(lia)) as [Hl Hr].
      split; [simpl; lia|].
      intros i b' m' v' Hb Hm Hv. destruct i as [|i]; simpl in *.
      + inversion Hb; inversion Hm; inversion Hv; subst.
        exists r, out. auto.
      + exact (Hr i b' m' v' Hb Hm Hv).
  Qed.

  Lemma loop_ok s dcd rows mean var bs :
    loop s dcd rows mean var = MdOk bs ->
    length mean = length var -> length var = length rows ->
    rows_carry s (fun b => if dcd then decode s b else DecRow []) rows mean var bs.
  Proof.
    intros H L1 L2. destruct (loop_ok_enc _ _ _ _ _ _ H L1 L2) as [Hl Hr].
    split; [exact Hl|]. intros i b m v Hb Hm Hv.
    destruct (Hr i b m v Hb Hm Hv) as (r & out & D & E & N).
    exists r, out. split; [exact D|]. split; [exact N|].
    exists (add_times T other r m v). split; [exact E|].
    split; [apply add_times_mn|]. split; [apply add_times_vr|].
    intros k K1 K2. now apply add_times_other.
  Qed.

  Lemma loop_err s dcd : forall rows mean var,
    loop s dcd rows mean var = MdErr ->
    exists i b m v r, nth_error rows i = Some b /\ nth_error mean i = Some m /\
      nth_error var i = Some v /\ (if dcd then decode s b else DecRow []) = DecRow r /\
      encode s (add_times T other r m v) = EncErr.
  Proof.
    induction rows as [|b rows IH]; intros mean var H.
    - simpl in H. discriminate.
    - destruct mean as [|m mean]; [simpl in H; discriminate|].
      destruct var as [|v var]; [simpl in H; discriminate|].
      simpl in H.
      destruct (if dcd then decode s b else DecRow []) as [r|] eqn:D; [|discriminate].
      destruct (encode s (add_times T other r m v)) as [out| |] eqn:E; try discriminate.
      + destruct (loop s dcd rows mean var) as [l| |] eqn:R; try discriminate.
        destruct (IH mean var R) as (i & b' & m' & v' & r' & H1 & H2 & H3 & H4 & H5).
        exists (S i), b', m', v', r'. simpl. auto.
      + exists 0, b, m, v, r. simpl. auto.
  Qed.

  Lemma loop_crash s dcd : forall rows mean var e,
    loop s dcd rows mean var = MdCrash e ->
    exists b, In b rows /\
      ((if dcd then decode s b else DecRow []) = DecCrash \/ exists r, encode s r = EncCrash).
  Proof.
    induction rows as [|b rows IH]; intros mean var e H.
    - simpl in H. discriminate.
    - destruct mean as [|m mean]; [simpl in H; discriminate|].
      destruct var as [|v var]; [simpl in H; discriminate|].
      simpl in H.
      destruct (if dcd then decode s b else DecRow []) as [r|] eqn:D.
      + destruct (encode s (add_times T other r m v)) as [out| |] eqn:E; try discriminate.
        * destruct (loop s dcd rows mean var) as [l| |] eqn:R; try discriminate.
          destruct (IH mean var _ R) as (b' & Hin & Hc).
          exists b'. split; [now right | exact Hc].
        * exists b. split; [now left|]. right. eexists; exact E.
      + exists b. split; [now left|]. now left.
  Qed.

  (** the loop on rows without bytes under a schema that encodes fresh rows *)
  Lemma loop_fresh d (Hd : default_ok d) : forall (rows : list bytes) mean var,
    length mean = length var -> length var = length rows ->
    exists bs, loop d false rows mean var = MdOk bs.
  Proof.
    induction rows as [|b rows IH]; intros mean var L1 L2.
    - destruct mean, var; simpl in *; try lia. eexists; reflexivity.
    - destruct mean as [|m mean]; [simpl in *; lia|].
      destruct var as [|v var]; [simpl in *; lia|].
      simpl. destruct (Hd m v) as [out E]. rewrite E.
      destruct (IH mean var) as [bs R]; [simpl in *; lia | simpl in *; lia|].
      rewrite R. eexists; reflexivity.
  Qed.

  Lemma has_bytes_drop (t : mtable) : has_bytes schema byte (drop_metadata schema byte t) = false.
  Proof.
    unfold has_bytes, drop_metadata; simpl.
    induction (mrows t); simpl; auto.
  Qed.

  Lemma has_bytes_rows (t : mtable) s : has_bytes schema byte (mkMT s (mrows t)) = has_bytes schema byte t.
  Proof. reflexivity. Qed.

  Lemma lengths_eqb t mean var : lengths_ok t mean var ->
    negb (Nat.eqb (length mean) (length var) && Nat.eqb (length var) (length (mrows t))) = false.
  Proof. intros [A B]. rewrite A, B, !Nat.eqb_refl. reflexivity. Qed.

  (** under [well_behaved] the first attempt either succeeds or ends in a metadata error *)
  Lemma first_attempt t mean var : lengths_ok t mean var -> well_behaved t ->
    (can_encode t mean var /\ exists s bs, mschema t = Some s /\ md_array t mean var = MdOk bs /\
        rows_carry s (in_row t s) (mrows t) mean var bs)
    \/ (~ can_encode t mean var /\ md_array t mean var = MdErr).
  Proof.
    intros [L1 L2] WB. unfold time_md_array.
    destruct (mschema t) as [s|] eqn:S.
    - destruct (loop s (has_bytes schema byte t) (mrows t) mean var) as [bs| |e] eqn:R.
      + left. split.
        * exists s. split; [exact S|]. intros i b m v Hb Hm Hv.
          destruct (loop_ok_enc _ _ _ _ _ _ R L1 L2) as [_ RC].
          destruct (RC i b m v Hb Hm Hv) as (r & out & D & E & _).
          exists r, out. auto.
        * exists s, bs. split; [reflexivity|]. split; [reflexivity|]. exact (loop_ok _ _ _ _ _ _ R L1 L2).
      + right. split; [|reflexivity].
        intros (s' & S' & CE). rewrite S in S'. inversion S'; subst s'.
        destruct (loop_err _ _ _ _ _ R) as (i & b & m & v & r & H1 & H2 & H3 & H4 & H5).
        destruct (CE i b m v H1 H2 H3) as (r' & out & D & E).
        unfold in_row in D. rewrite H4 in D. inversion D; subst r'. congruence.
      + exfalso. destruct (WB s S) as [WD WE].
        destruct (loop_crash _ _ _ _ _ _ R) as (b & Hin & [Hc|[r Hc]]).
        * exact (WD b Hin Hc).
        * exact (WE r Hc).
    - right. split; [|reflexivity]. intros (s' & S' & _). congruence.
  Qed.

  (** the second attempt (after the schema was replaced by the default one and, if there
      was anything, the metadata dropped) always succeeds and writes fresh rows *)
  Lemma second_attempt d (rows : list bytes) mean var :
    default_ok d -> length mean = length var -> length var = length rows ->
    existsb (fun b => negb (bempty byte b)) rows = false ->
    exists bs, md_array (mkMT (Some d) rows) mean var = MdOk bs /\
      rows_carry d (fun _ => DecRow []) rows mean var bs.
  Proof.
    intros Hd L1 L2 HB. unfold time_md_array, has_bytes. simpl. rewrite HB.
    destruct (loop_fresh d Hd rows mean var L1 L2) as [bs R].
    exists bs. split; [exact R|]. exact (loop_ok _ _ _ _ _ _ R L1 L2).
  Qed.

  Lemma drop_rows_empty (t : mtable) :
    existsb (fun b => negb (bempty byte b)) (mrows (drop_metadata schema byte t)) = false.
  Proof. exact (has_bytes_drop t). Qed.

  (** *** the policy *)

  Theorem false_untouched t mean var d : set_meta (Some false) t mean var d = Done t [].
  Proof. reflexivity. Qed.

  Theorem no_variance_untouched sm t mean d : set_meta sm t mean None d = Done t [].
  Proof. destruct sm as [[|]|]; reflexivity. Qed.

  (** shared first half of None and True: the existing schema can encode *)
  Lemma kept_when_encodable sm t mean var d : sm <> Some false ->
    lengths_ok t mean var -> well_behaved t -> can_encode t mean var ->
    exists s bs, mschema t = Some s /\
      set_meta sm t mean (Some var) d = Done (mkMT (Some s) bs) [] /\
      rows_carry s (in_row t s) (mrows t) mean var bs.
  Proof.
    intros Hsm L WB CE.
    destruct (first_attempt t mean var L WB) as [(_ & s & bs & S & R & RC)|[NCE _]]; [|contradiction].
    exists s, bs. split; [exact S|]. split; [|exact RC].
    unfold set_time_metadata. rewrite (lengths_eqb _ _ _ L), R, S.
    destruct sm as [[|]|]; [reflexivity | congruence | reflexivity].
  Qed.

  Theorem none_policy t mean var d :
    lengths_ok t mean var -> well_behaved t -> default_ok d ->
    (* the existing schema can encode: rows gain mn / vr and keep every other field *)
    (can_encode t mean var ->
       exists s bs, mschema t = Some s /\
         set_meta None t mean (Some var) d = Done (mkMT (Some s) bs) [] /\
         rows_carry s (in_row t s) (mrows t) mean var bs) /\
    (* neither schema nor metadata: default schema installed, fresh rows *)
    (mschema t = None -> has_bytes schema byte t = false ->
       exists bs, set_meta None t mean (Some var) d = Done (mkMT (Some d) bs) [InfoSetSchema] /\
         rows_carry d (fun _ => DecRow []) (mrows t) mean var bs) /\
    (* otherwise: untouched, one warning *)
    (~ can_encode t mean var -> ~ (mschema t = None /\ has_bytes schema byte t = false) ->
       set_meta None t mean (Some var) d = Done t [Warn]).
  Proof.
    intros L WB Hd. split; [|split].
    - intros CE. apply kept_when_encodable; auto. discriminate.
    - intros S HB.
      destruct (first_attempt t mean var L WB) as [([s' [S' _]] & _)|[_ R]]; [congruence|].
      unfold set_time_metadata. rewrite (lengths_eqb _ _ _ L), R, S, HB. simpl.
      destruct L as [L1 L2].
      destruct (second_attempt d (mrows t) mean var Hd L1 L2 HB) as (bs & R2 & RC).
      rewrite R2. exists bs. auto.
    - intros NCE NN.
      destruct (first_attempt t mean var L WB) as [(CE & _)|[_ R]]; [contradiction|].
      unfold set_time_metadata. rewrite (lengths_eqb _ _ _ L), R.
      destruct (has_bytes schema byte t) eqn:HB; [reflexivity|].
      destruct (mschema t) eqn:S; [reflexivity|]. exfalso. apply NN. auto.
  Qed.

  Theorem true_always_writes t mean var d :
    lengths_ok t mean var -> well_behaved t -> default_ok d ->
    (can_encode t mean var ->
       exists s bs, mschema t = Some s /\
         set_meta (Some true) t mean (Some var) d = Done (mkMT (Some s) bs) [] /\
         rows_carry s (in_row t s) (mrows t) mean var bs) /\
    (* incompatible: metadata cleared (if there was a schema or any bytes), default schema,
       fresh rows that hold mn / vr only *)
    (~ can_encode t mean var ->
       exists bs,
         set_meta (Some true) t mean (Some var) d =
           Done (mkMT (Some d) bs)
                (if has_bytes schema byte t || match mschema t with Some _ => true | None => false end
                 then [InfoClear; InfoSetSchema] else [InfoSetSchema]) /\
         rows_carry d (fun _ => DecRow []) (mrows t) mean var bs).
  Proof.
    intros L WB Hd. split.
    - intros CE. apply kept_when_encodable; auto. discriminate.
    - intros NCE.
      destruct (first_attempt t mean var L WB) as [(CE & _)|[_ R]]; [contradiction|].
      unfold set_time_metadata. rewrite (lengths_eqb _ _ _ L), R. cbv zeta.
      change (is_true (Some true)) with true. change (negb true) with false.
      rewrite andb_false_r.
      destruct L as [L1 L2].
      destruct (has_bytes schema byte t || match mschema t with Some _ => true | None => false end) eqn:G;
        cbv iota.
      + assert (L2' : length var = length (mrows (drop_metadata schema byte t))).
        { unfold drop_metadata; simpl. now rewrite map_length. }
        destruct (second_attempt d _ mean var Hd L1 L2' (drop_rows_empty t)) as (bs & R2 & [RL RC]).
        rewrite R2. exists bs. split; [reflexivity|].
        split; [rewrite RL; unfold drop_metadata; simpl; now rewrite map_length|].
        intros i b m v Hb Hm Hv.
        assert (Hb' : nth_error (mrows (drop_metadata schema byte t)) i = Some []).
        { unfold drop_metadata; simpl. rewrite nth_error_map, Hb. reflexivity. }
        exact (RC i [] m v Hb' Hm Hv).
      + apply orb_false_iff in G. destruct G as [HB _].
        destruct (second_attempt d (mrows t) mean var Hd L1 L2 HB) as (bs & R2 & RC).
        rewrite R2. exists bs. auto.
  Qed.

  (** whenever the function returns without a warning and a write was requested, EVERY
      row of the result carries mn and vr (no hypothesis on the codec at all) *)
  Theorem all_rows_carry sm t mean var d t' log :
    sm <> Some false ->
    set_meta sm t mean (Some var) d = Done t' log -> ~ In Warn log ->
    exists s', mschema t' = Some s' /\ length (mrows t') = length (mrows t) /\
      forall i m v, nth_error mean i = Some m -> nth_error var i = Some v ->
        exists out r0, nth_error (mrows t') i = Some out /\ carries s' r0 m v out.
  Proof.
    intros Hsm H NW. unfold set_time_metadata in H.
    assert (H' : (if negb (Nat.eqb (length mean) (length var) && Nat.eqb (length var) (length (mrows t)))
        then Raised ExAssert else
          match md_array t mean var with
          | MdOk bs => Done (mkMT (mschema t) bs) []
          | MdCrash e => Raised e
          | MdErr =>
              let guarded := has_bytes schema byte t || match mschema t with Some _ => true | None => false end in
              if guarded && negb (is_true sm) then Done t [Warn]
              else
                let t1 := if guarded then drop_metadata schema byte t else t in
                let log1 := if guarded then [InfoClear] else [] in
                let t2 := mkMT (Some d) (mrows t1) in
                match md_array t2 mean var with
                | MdOk bs => Done (mkMT (Some d) bs) (log1 ++ [InfoSetSchema])
                | MdErr => Raised ExEncodeDefault
                | MdCrash ExEncode => Raised ExEncodeDefault
                | MdCrash e => Raised e
                end
          end) = Done t' log).
    { destruct sm as [[|]|]; [exact H | congruence | exact H]. }
    clear H. rename H' into H.
    destruct (negb (Nat.eqb (length mean) (length var) && Nat.eqb (length var) (length (mrows t)))) eqn:LL;
      [discriminate|].
    apply negb_false_iff, andb_true_iff in LL. destruct LL as [L1 L2].
    apply Nat.eqb_eq in L1, L2.
    assert (finish : forall s rows base bs, length var = length rows ->
              rows_carry s base rows mean var bs ->
              forall i m v, nth_error mean i = Some m -> nth_error var i = Some v ->
              exists out r0, nth_error bs i = Some out /\ carries s r0 m v out).
    { intros s rows base bs LR [RL RC] i m v Hm Hv.
      assert (Hi : i < length rows).
      { rewrite <- LR. apply nth_error_Some. congruence. }
      destruct (nth_error rows i) as [b|] eqn:Hb; [|apply nth_error_None in Hb; lia].
      destruct (RC i b m v Hb Hm Hv) as (r0 & out & _ & N & C). eauto. }
    destruct (md_array t mean var) as [bs| |e] eqn:R; [| |discriminate].
    - inversion H; subst t' log. simpl.
      unfold time_md_array in R. destruct (mschema t) as [s|] eqn:S; [|discriminate].
      pose proof (loop_ok _ _ _ _ _ _ R L1 L2) as RC.
      exists s. split; [reflexivity|]. split; [exact (proj1 RC)|].
      exact (finish s _ _ bs L2 RC).
    - cbv zeta in H.
      set (g := has_bytes schema byte t || match mschema t with Some _ => true | None => false end) in *.
      destruct (g && negb (is_true sm)) eqn:GW.
      + inversion H; subst. exfalso. apply NW. now left.
      + set (t1 := if g then drop_metadata schema byte t else t) in *.
        destruct (md_array (mkMT (Some d) (mrows t1)) mean var) as [bs| |e] eqn:R2.
        * inversion H; subst t' log. simpl.
          assert (LR : length var = length (mrows t1)).
          { unfold t1. destruct g; [unfold drop_metadata; simpl; now rewrite map_length | exact L2]. }
          unfold time_md_array in R2. simpl in R2.
          pose proof (loop_ok _ _ _ _ _ _ R2 L1 LR) as RC.
          exists d. split; [reflexivity|]. split.
          { rewrite (proj1 RC). congruence. }
          exact (finish d _ _ bs LR RC).
        * discriminate.
        * destruct e; discriminate.
  Qed.

End MetaFacts.

(** ** A concrete instance on which the model crashes although [set_metadata = True]:
    the stored bytes do not decode under the table's own schema (the finding recorded for
    C32: JSONDecodeError / struct.error / AttributeError escape [set_time_metadata]). *)
Definition crash_decode (_ : unit) (_ : list nat) : dec nat nat := DecCrash.
Definition crash_encode (_ : unit) (_ : row nat nat) : @enc nat := EncOk [1].

Lemma undecodable_crashes :
  set_time_metadata nat nat unit nat crash_decode crash_encode (Some true)
    (mkMT (Some tt) [[7]]) [0] (Some [0]) tt = Raised ExDecode.
Proof. reflexivity. Qed.

(** ** Non-vacuity: a concrete codec (rows are their own encoding) on which all three
    branches of the policy are taken. *)
Definition toy_decode (s : bool) (b : list (row nat nat)) : dec nat nat :=
  match b with r :: _ => DecRow r | [] => DecRow [] end.
(** schema [true] accepts everything; schema [false] rejects rows with a "vr" field *)
Definition toy_encode (s : bool) (r : row nat nat) : @enc (row nat nat) :=
  if s then EncOk [r] else
  match get_field nat nat "vr" r with Some _ => EncErr | None => EncOk [r] end.

Lemma toy_examples :
  (* permissive schema: other field kept, mn replaced, vr appended *)
  set_time_metadata nat nat bool (row nat nat) toy_decode toy_encode None
    (mkMT (Some true) [[[("a", VOther 5); ("mn", VOther 9)]]; []]) [1; 2] (Some [3; 4]) true
  = Done (mkMT (Some true) [[[("a", VOther 5); ("mn", VNum 1); ("vr", VNum 3)]];
                            [[("mn", VNum 2); ("vr", VNum 4)]]]) []
  /\
  (* restrictive schema, set_metadata=None: untouched + warning *)
  set_time_metadata nat nat bool (row nat nat) toy_decode toy_encode None
    (mkMT (Some false) [[[("a", VOther 5)]]]) [1] (Some [3]) true
  = Done (mkMT (Some false) [[[("a", VOther 5)]]]) [Warn]
  /\
  (* restrictive schema, set_metadata=True: cleared, default schema, fresh rows *)
  set_time_metadata nat nat bool (row nat nat) toy_decode toy_encode (Some true)
    (mkMT (Some false) [[[("a", VOther 5)]]]) [1] (Some [3]) true
  = Done (mkMT (Some true) [[[("mn", VNum 1); ("vr", VNum 3)]]]) [InfoClear; InfoSetSchema]
  /\
  (* no schema, raw bytes, None: untouched + warning;  no schema, no bytes: default *)
  set_time_metadata nat nat bool (row nat nat) toy_decode toy_encode None
    (mkMT None [[[("x", VOther 0)]]]) [1] (Some [3]) true
  = Done (mkMT None [[[("x", VOther 0)]]]) [Warn]
  /\
  set_time_metadata nat nat bool (row nat nat) toy_decode toy_encode None
    (mkMT None [[]]) [1] (Some [3]) true
  = Done (mkMT (Some true) [[[("mn", VNum 1); ("vr", VNum 3)]]]) [InfoSetSchema].
Proof. repeat split. Qed.
