From Coq Require Import List ZArith QArith.
From TsdateV Require Import lib.Num model.Inputs.
Import ListNotations.

Lemma inputs_example :
  edge_inputs_Q [(0%Z, 10%Z, 4%nat, 0%nat); (0%Z, 10%Z, 4%nat, 1%nat); (0%Z, 4%Z, 5%nat, 2%nat); (4%Z, 10%Z, 6%nat, 2%nat); (0%Z, 10%Z, 6%nat, 4%nat)]
                [(1%Z, 0%nat); (3%Z, 2%nat); (5%Z, 2%nat); (7%Z, 4%nat); (9%Z, 6%nat)]
  = ([Some 0%nat; Some 2%nat; Some 3%nat; Some 4%nat; None],
     [(1%nat, (10 # 1)%Q); (0%nat, (10 # 1)%Q); (1%nat, (4 # 1)%Q); (1%nat, (6 # 1)%Q); (1%nat, (10 # 1)%Q)]).
Proof. vm_compute. reflexivity. Qed.
