(** * Proofs about the mixture prior model and the reference span tables (property C15). *)
From Coq Require Import List ZArith QArith Bool Reals Lra Lia Arith.
From TsdateV Require Import lib.Num model.PriorMix.
Import ListNotations.
Open Scope R_scope.

Definition rsuml (l : list R) : R := fold_right Rplus 0 l.

Ltac rr := cbn [add sub mul div zero one neg ofZ RNum] in *; change (T RNum) with R in *.

Lemma fold_left_add (f : comp RNum -> R) : forall g a,
  fold_left (fun s c => add RNum s (f c)) g a = a + rsuml (map f g).
Proof.
  induction g as [|c r IH]; intros a; simpl; rr.
  - ring.
  - rewrite IH. rr. ring.
Qed.

Lemma sumf_R f g : sumf RNum f g = rsuml (map f g).
Proof. unfold sumf. rewrite fold_left_add. rr. ring. Qed.

Lemma rsuml_app l1 l2 : rsuml (l1 ++ l2) = rsuml l1 + rsuml l2.
Proof. induction l1; simpl; [ring|]. rewrite IHl1. ring. Qed.

Lemma acc_over_R f : forall groups a,
  fold_left (fun s g => add RNum s (sumf RNum f g)) groups a = a + rsuml (map f (concat groups)).
Proof.
  induction groups as [|g r IH]; intros a; simpl; rr.
  - ring.
  - rewrite IH, sumf_R, map_app, rsuml_app. rr. ring.
Qed.

Lemma acc_over_flat f groups : acc_over RNum f groups = rsuml (map f (concat groups)).
Proof. unfold acc_over. rewrite acc_over_R. rr. ring. Qed.

(** weighted sums of a flat list of components *)
Definition S0 (cs : list (comp RNum)) : R := rsuml (map (cw RNum) cs).
Definition S1 (cs : list (comp RNum)) : R := rsuml (map (fun c => cw RNum c * cmu RNum c) cs).
Definition S2 (cs : list (comp RNum)) : R :=
  rsuml (map (fun c => cw RNum c * (cvar RNum c + cmu RNum c * cmu RNum c)) cs).

Lemma total_variance_expand (W M : R) : forall cs,
  rsuml (map (fun c => cw RNum c / W * (cvar RNum c + (cmu RNum c - M) * (cmu RNum c - M))) cs)
  = (S2 cs - 2 * M * S1 cs + M * M * S0 cs) / W.
Proof.
  unfold S0, S1, S2. induction cs as [|c r IH]; simpl; rr.
  - unfold Rdiv. ring.
  - rewrite IH. unfold cw, cmu, cvar. rr. unfold Rdiv. ring.
Qed.

Theorem mixture_moments (groups : list (list (comp RNum))) :
  let cs := concat groups in
  S0 cs <> 0 ->
  let M := S1 cs / S0 cs in
  mixture_expect_and_var RNum groups = (M, S2 cs / S0 cs - M * M) /\
  S2 cs / S0 cs - M * M
  = rsuml (map (fun c => cw RNum c / S0 cs * (cvar RNum c + (cmu RNum c - M) * (cmu RNum c - M))) cs).
Proof.
  intros cs HW M. split.
  - unfold mixture_expect_and_var. rewrite !acc_over_flat. fold cs.
    cbn [div sub add mul RNum].
    assert (E1 : rsuml (map (fun c => cmu RNum c * cw RNum c) cs) = S1 cs).
    { unfold S1. f_equal. apply map_ext. intros; ring. }
    assert (E2 : rsuml (map (fun c => cvar RNum c * cw RNum c) cs)
                 + rsuml (map (fun c => cmu RNum c * cmu RNum c * cw RNum c) cs) = S2 cs).
    { unfold S2. clear. induction cs as [|c r IH]; simpl; [ring|]. rewrite <- IH. ring. }
    change (T RNum) with R in *. rewrite E1, E2. reflexivity.
  - rewrite total_variance_expand. unfold M. field. exact HW.
Qed.

(** a mixture with one component is that component *)
Lemma single_component_moments (s mu v : R) : s <> 0 ->
  mixture_expect_and_var RNum [[(s, mu, v)]] = (mu, v).
Proof.
  intros Hs. destruct (mixture_moments [[(s, mu, v)]]) as [E _].
  - simpl. unfold S0, cw. simpl. rr. lra.
  - rewrite E. unfold S0, S1, S2, cw, cmu, cvar. simpl. rr. f_equal; field; lra.
Qed.

Theorem single_component (approx : R -> R -> R * R) (table : nat -> nat -> option (row RNum))
        (tot k : nat) (s : R) (rw : row RNum) :
  table tot k = Some rw ->
  node_params RNum approx table [(tot, [(k, s)])] = Some (r_alpha RNum rw, r_beta RNum rw) /\
  (s <> 0 -> approx (r_mean RNum rw) (r_var RNum rw) = (r_alpha RNum rw, r_beta RNum rw) ->
   (let '(mean, var) := mixture_expect_and_var RNum [[(s, r_mean RNum rw, r_var RNum rw)]] in
    approx mean var) = (r_alpha RNum rw, r_beta RNum rw)).
Proof.
  intros Ht. split.
  - unfold node_params. rewrite Ht. reflexivity.
  - intros Hs Ha. rewrite single_component_moments by assumption. exact Ha.
Qed.

(** every other node gets the moment-matched fit of its mixture moments *)
Theorem mixture_params (approx : R -> R -> R * R) (table : nat -> nat -> option (row RNum))
        (m : mixture RNum) gs :
  (forall tot k s, m <> [(tot, [(k, s)])]) -> groups_of RNum table m = Some gs ->
  node_params RNum approx table m
  = Some (let '(mean, var) := mixture_expect_and_var RNum gs in approx mean var).
Proof.
  intros Hm Hg. unfold node_params. rewrite Hg.
  destruct m as [|[tot arr] r]; [reflexivity|].
  destruct arr as [|[k s] arr']; [destruct r; reflexivity|].
  destruct arr' as [|? ?]; [|destruct r; reflexivity].
  destruct r; [|reflexivity]. exfalso. apply (Hm tot k s). reflexivity.
Qed.

(** ** reference span tables *)
Lemma key_eqb_eq a b : key_eqb a b = true <-> a = b.
Proof.
  unfold key_eqb. destruct a as [a1 a2], b as [b1 b2]. simpl. rewrite andb_true_iff, !Nat.eqb_eq.
  split; [intros [-> ->]; reflexivity|intros E; inversion E; auto].
Qed.

Lemma fold_total (tab : list (nat * nat * R)) : forall a,
  fold_left (fun s e => add RNum s (snd e)) tab a = a + rsuml (map snd tab).
Proof.
  induction tab as [|e r IH]; intros a; simpl; rr; [ring|]. rewrite IH. rr. ring.
Qed.

Lemma total_R tab : total RNum tab = rsuml (map snd tab).
Proof. unfold total. rewrite fold_total. rr. ring. Qed.

Lemma total_add_span key (s : R) tab : total RNum (add_span RNum key s tab) = total RNum tab + s.
Proof.
  rewrite !total_R. induction tab as [|[k' s'] r IH]; simpl; rr.
  - ring.
  - destruct (key_eqb key k'); simpl; rr; [ring|]. rewrite IH. ring.
Qed.

Theorem spans_sum (trees : list (tview RNum)) (u : nat) :
  total RNum (spans_ref RNum trees u) = node_span RNum trees u.
Proof.
  unfold spans_ref, node_span.
  assert (G : forall tab s0, total RNum tab = s0 ->
     total RNum (fold_left (fun tab tv => match tv_below RNum tv u with
                                          | Some k => add_span RNum (tv_total RNum tv, k) (tv_span RNum tv) tab
                                          | None => tab end) trees tab)
     = fold_left (fun s tv => match tv_below RNum tv u with
                              | Some _ => add RNum s (tv_span RNum tv)
                              | None => s end) trees s0).
  { induction trees as [|tv r IH]; intros tab s0 E; simpl; auto.
    apply IH. destruct (tv_below RNum tv u); auto. rewrite total_add_span, E. reflexivity. }
  apply G. unfold total. reflexivity.
Qed.

(** the entry of the table for a pair (T, k), and the direct tally *)
Definition lookup (key : nat * nat) (tab : list (nat * nat * R)) : R :=
  rsuml (map (fun e => if key_eqb key (fst e) then snd e else 0) tab).

Definition direct (trees : list (tview RNum)) (u tot k : nat) : R :=
  rsuml (map (fun tv => match tv_below RNum tv u with
                        | Some k' => if key_eqb (tot, k) (tv_total RNum tv, k') then tv_span RNum tv else 0
                        | None => 0
                        end) trees).

Lemma lookup_add_span key key' (s : R) tab :
  lookup key (add_span RNum key' s tab) = lookup key tab + (if key_eqb key key' then s else 0).
Proof.
  unfold lookup. induction tab as [|[k0 s0] r IH]; simpl; rr.
  - ring.
  - destruct (key_eqb key' k0) eqn:E; simpl; rr.
    + apply key_eqb_eq in E. subst k0. destruct (key_eqb key key'); ring.
    + rewrite IH. ring.
Qed.

Theorem spans_lookup (trees : list (tview RNum)) (u tot k : nat) :
  lookup (tot, k) (spans_ref RNum trees u) = direct trees u tot k.
Proof.
  unfold spans_ref, direct.
  assert (G : forall tab,
     lookup (tot, k) (fold_left (fun tab tv => match tv_below RNum tv u with
                                          | Some k' => add_span RNum (tv_total RNum tv, k') (tv_span RNum tv) tab
                                          | None => tab end) trees tab)
     = lookup (tot, k) tab + rsuml (map (fun tv => match tv_below RNum tv u with
                        | Some k' => if key_eqb (tot, k) (tv_total RNum tv, k') then tv_span RNum tv else 0
                        | None => 0 end) trees)).
  { induction trees as [|tv r IH]; intros tab; simpl; rr; [ring|].
    rewrite IH. destruct (tv_below RNum tv u) as [k'|]; [rewrite lookup_add_span|]; rr; ring. }
  rewrite G. unfold lookup. simpl. rr. ring.
Qed.

Lemma add_span_keys key (s : R) tab : NoDup (map fst tab) ->
  NoDup (map fst (add_span RNum key s tab)) /\
  (forall x, In x (map fst (add_span RNum key s tab)) <-> x = key \/ In x (map fst tab)).
Proof.
  induction tab as [|[k0 s0] r IH]; intros Hd; simpl.
  - split; [repeat constructor; auto|]. intros x; split; intros [H|H]; auto; contradiction.
  - inversion Hd as [|? ? Hn Hr]; subst. destruct (key_eqb key k0) eqn:E; simpl.
    + apply key_eqb_eq in E. subst k0. split; [constructor; auto|]. intros x. simpl.
      split; [intros [<-|H]; auto | intros [->|[<-|H]]; auto].
    + destruct (IH Hr) as [I1 I2]. split.
      * constructor; auto. intros Hin. apply I2 in Hin. destruct Hin as [->|Hin]; [|contradiction].
        assert (key_eqb key key = true) by (apply key_eqb_eq; reflexivity). congruence.
      * intros x. simpl. rewrite I2. split; [intros [<-|[->|H]]; auto | intros [->|[<-|H]]; auto].
Qed.

Theorem spans_keys_nodup (trees : list (tview RNum)) (u : nat) : NoDup (map fst (spans_ref RNum trees u)).
Proof.
  unfold spans_ref.
  assert (G : forall tab, NoDup (map fst tab) ->
     NoDup (map fst (fold_left (fun tab tv => match tv_below RNum tv u with
                                          | Some k' => add_span RNum (tv_total RNum tv, k') (tv_span RNum tv) tab
                                          | None => tab end) trees tab))).
  { induction trees as [|tv r IH]; intros tab Hd; simpl; auto.
    apply IH. destruct (tv_below RNum tv u); auto. apply add_span_keys; auto. }
  apply G. constructor.
Qed.

(** ** concrete exact run (non-vacuity) *)
Definition ex_trees : list (tview QNum) :=
  [ mkTV QNum (30 # 1)%Q 4 (fun u => nth u [Some 1; Some 1; Some 1; Some 1; Some 2; Some 2; Some 4]%nat None);
    mkTV QNum (50 # 1)%Q 4 (fun u => nth u [Some 1; Some 1; Some 1; Some 1; Some 2; Some 3; Some 4]%nat None);
    mkTV QNum (20 # 1)%Q 3 (fun u => nth u [Some 1; Some 1; Some 1; None; Some 2; None; Some 3]%nat None) ].

Lemma C15_example :
  spans_ref QNum ex_trees 5 = [((4, 2)%nat, 30 # 1); ((4, 3)%nat, 50 # 1)]%Q /\
  spans_ref QNum ex_trees 6 = [((4, 4)%nat, 80 # 1); ((3, 3)%nat, 20 # 1)]%Q /\
  node_span QNum ex_trees 5 = (80 # 1)%Q /\ node_span QNum ex_trees 6 = (100 # 1)%Q /\
  mixture_expect_and_var QNum [[(30 # 1, 1 # 4, 1 # 18); (50 # 1, 1 # 2, 23 # 144)]]%Q
    = (13 # 32, 1247 # 9216)%Q.
Proof. vm_compute. repeat split. Qed.
