(** * C29: statements about the split kernels in the form used by [props/C29.v]. *)
From Coq Require Import List ZArith Bool Arith Lia.
From TsdateV Require Import lib.Tables model.Sweep model.Split proofs.TablesFacts proofs.SweepInv proofs.SplitFacts.
Import ListNotations.
Open Scope Z_scope.

(** every edge keeps its interval (the kernel does not touch left / right) and its new parent /
    child ids map back through [nodes_order] to the original parent / child; ids of first
    pieces are unchanged, ids of further pieces are fresh (>= num_nodes); [nodes_order] is the
    identity on the original ids followed by [split_nodes] *)
Lemma C29_back : forall es excluded N,
  (forall e, (e < length es)%nat -> (eparent (edge_at es e) < N)%nat /\ (echild (edge_at es e) < N)%nat) ->
  forall np nc order split, split_disjoint es excluded N = (np, nc, order, split) ->
  length np = length es /\ length nc = length es /\ order = seq 0 N ++ split /\
  forall e, (e < length es)%nat ->
    exists p c, nth e np (-1) = Z.of_nat p /\ nth p order O = eparent (edge_at es e) /\
                nth e nc (-1) = Z.of_nat c /\ nth c order O = echild (edge_at es e) /\
                (p = eparent (edge_at es e) \/ (N <= p)%nat) /\ (c = echild (edge_at es e) \/ (N <= c)%nat).
Proof. intros es excluded N Hn np nc order split H. unfold split_disjoint in H.
  destruct (mk_map (seq 0 N) (Z.of_nat N) (sg_seg (seg_pass es excluded))) as [nmap sp] eqn:Hmk.
  injection H as <- <- <- <-.
  split; [rewrite map_length; apply seq_length|]. split; [rewrite map_length; apply seq_length|].
  split; [reflexivity|]. intros e He.
  destruct (seg_pass_inv es excluded) as [_ [Hp Hc]]. destruct (Hn e He) as [HpN HcN].
  destruct (relabel_back N (sg_seg (seg_pass es excluded)) nmap sp (eparent (edge_at es e))
              (sg_par (seg_pass es excluded) e) Hmk HpN (Hp e)) as [p [Ep [Bp [Lp Gp]]]].
  destruct (relabel_back N (sg_seg (seg_pass es excluded)) nmap sp (echild (edge_at es e))
              (sg_chi (seg_pass es excluded) e) Hmk HcN (Hc e)) as [c [Ec [Bc [Lc Gc]]]].
  exists p, c.
  assert (Hnth : forall (f : nat -> Z), nth e (map f (edge_ids es)) (-1) = f e).
  { intro f. unfold edge_ids. rewrite (nth_indep _ (-1) (f O)) by (rewrite map_length, seq_length; exact He).
    rewrite map_nth, seq_nth by exact He. reflexivity. }
  rewrite !Hnth. split; [exact Ep|]. split; [exact Bp|]. split; [exact Ec|]. split; [exact Bc|].
  split.
  - destruct (Z.leb_spec (sg_par (seg_pass es excluded) e) 0); [left; apply Lp; lia|right; apply Gp; lia].
  - destruct (Z.leb_spec (sg_chi (seg_pass es excluded) e) 0); [left; apply Lc; lia|right; apply Gc; lia]. Qed.

(** ** _relabel_mutations_node: every mutation ends on a node that [nodes_order] maps back to
    its original node *)
Section RelabelFacts.
  Variable es : list edge.
  Variable new_parent new_child : nat -> nat.
  Variable order : nat -> nat.
  Variable mpos : nat -> Z.
  Variable mnode : nat -> nat.
  Variable N M : nat.
  Hypothesis Horder : forall u, (u < N)%nat -> order u = u.
  Hypothesis Hmnode : forall m, (m < M)%nat -> (mnode m < N)%nat.

  Definition back (z : Z) (u : nat) : Prop := exists c, z = Z.of_nat c /\ order c = u.

  Definition RInv (q : list nat) (s : rl_state) : Prop :=
    (forall u, (u < N)%nat -> back (rl_map s u) u) /\
    (forall m, (m < M)%nat -> In m q \/ back (rl_out s m) (mnode m)).

  Lemma rl_muts_inv right : forall q s, RInv q s ->
    RInv (rl_mq (rl_muts mpos mnode right q s)) (rl_muts mpos mnode right q s).
  Proof. induction q as [|m r IH]; intros s [Hm Ho]; cbn [rl_muts].
    - split; [exact Hm|exact Ho].
    - destruct (mpos m <? right).
      + apply IH. split; [exact Hm|]. cbn [rl_map rl_out]. intros m' Hm'.
        destruct (Nat.eq_dec m' m) as [->|Hne].
        * right. rewrite upd_same. apply Hm. apply Hmnode. exact Hm'.
        * destruct (Ho m' Hm') as [[E|Hin]|Hb]; [congruence|left; exact Hin|right].
          rewrite upd_other by exact Hne. exact Hb.
      + split; [exact Hm|exact Ho]. Qed.

  Lemma rl_finish_inv : forall q s, RInv q s -> rl_mq s = q ->
    forall m, (m < M)%nat -> back (rl_out (rl_finish mnode s) m) (mnode m).
  Proof. unfold rl_finish. intros q s H E. rewrite E. clear E. revert s H.
    induction q as [|a r IH]; intros s [Hm Ho] m Hlt; cbn [fold_left].
    - destruct (Ho m Hlt) as [[]|Hb]. exact Hb.
    - apply IH; [|exact Hlt]. split; [exact Hm|]. cbn [rl_map rl_out]. intros m' Hm'.
      destruct (Nat.eq_dec m' a) as [->|Hne].
      + right. rewrite upd_same. apply Hm. apply Hmnode. exact Hm'.
      + destruct (Ho m' Hm') as [[E|Hin]|Hb]; [congruence|left; exact Hin|right].
        rewrite upd_other by exact Hne. exact Hb. Qed.

  Lemma C29_relabel : forall insq remq out,
    relabel_mutations es new_parent new_child order mpos mnode M insq remq = Some out ->
    length out = M /\ forall m, (m < M)%nat -> back (nth m out (-1)) (mnode m).
  Proof. intros insq remq out H. unfold relabel_mutations in H.
    set (seqlen := relabel_seqlen es remq) in *.
    destruct (loop rl_state _ _ seqlen rl_rmv (rl_ins new_parent new_child order) (rl_after mpos mnode)
                   (fun _ => false) (cond_lt seqlen) (sweep_fuel insq remq) 0 insq remq
                   (mkRL (fun u => Z.of_nat u) (fun _ => -1) (seq 0 M))) as [s|] eqn:El; [|discriminate].
    injection H as <-. split; [unfold to_list; rewrite map_length; apply seq_length|].
    assert (HI : RInv (rl_mq s) s).
    { apply (loop_preserves rl_state _ _ seqlen rl_rmv (rl_ins new_parent new_child order) (rl_after mpos mnode)
               (fun _ => false) (cond_lt seqlen) (fun s => RInv (rl_mq s) s)) with (5 := El).
      - intros x e s0 H0. exact H0.
      - intros x e s0 [Hm Ho]. unfold rl_ins. cbn [rl_mq rl_map rl_out]. split; [|exact Ho].
        intros u Hu. specialize (Hm u Hu). unfold back in *. cbn [rl_map]. unfold upd.
        destruct (Nat.eqb_spec u (order (new_parent e))) as [E1|E1].
        + exists (new_parent e). split; [reflexivity|symmetry; exact E1].
        + destruct (Nat.eqb_spec u (order (new_child e))) as [E2|E2].
          * exists (new_child e). split; [reflexivity|symmetry; exact E2].
          * exact Hm.
      - intros l r s0 H0. unfold rl_after. apply rl_muts_inv. exact H0.
      - split; cbn [rl_map rl_out rl_mq].
        + intros u Hu. exists u. split; [reflexivity|apply Horder; exact Hu].
        + intros m Hm. left. apply in_seq. lia. }
    intros m Hm. unfold to_list.
    rewrite (nth_indep _ (-1) (rl_out (rl_finish mnode s) O)) by (rewrite map_length, seq_length; exact Hm).
    rewrite map_nth, seq_nth by exact Hm. cbn [plus].
    apply (rl_finish_inv (rl_mq s) s HI eq_refl m Hm). Qed.
End RelabelFacts.

(** non-vacuity: node 3 is the parent of samples 0, 1 on [[0, 4)] and again on [[7, 10)], while
    node 4 takes over on [[4, 7)]: node 3 is split, its second piece gets the fresh id 5; the
    mutation at position 8 on node 3 moves to node 5, the one at 2 stays, the one at 5 (node 3
    is in no edge there) stays on a piece of node 3. *)
Definition ex29_edges : list edge :=
  [mkEdge 0 4 3 0; mkEdge 7 10 3 0; mkEdge 0 4 3 1; mkEdge 7 10 3 1; mkEdge 4 7 4 0; mkEdge 4 7 4 1].
Definition ex29_smp : list bool := [true; true; true; false; false].
Definition ex29_muts : list (Z * nat) := [(2, 3%nat); (5, 3%nat); (8, 3%nat); (9, 0%nat)].

Lemma C29_example :
  valid_tablesb 10 ex29_edges [0; 2; 4; 5; 1; 3]%nat [0; 2; 4; 5; 1; 3]%nat = true /\
  split_disjoint_nodes ex29_edges ex29_smp ex29_muts [0; 2; 4; 5; 1; 3]%nat [0; 2; 4; 5; 1; 3]%nat
    = Some ([3; 5; 3; 5; 4; 4], [0; 0; 1; 1; 0; 1], [0; 1; 2; 3; 4; 3]%nat, [3%nat], [3; 3; 5; 0]).
Proof. vm_compute. repeat split. Qed.

(** regression example for the repaired defect S2 (fix 3af34f9): a valid table WITHOUT edges is an
    ordinary input -- nothing is split and every mutation keeps its node *)
Lemma C29_no_edges_example :
  valid_tablesb 10 [] [] [] = true /\
  split_disjoint_nodes [] [true; true] [(3, 0%nat)] [] [] = Some ([], [], [0; 1]%nat, [], [0]).
Proof. vm_compute. repeat split. Qed.
