(** * Proofs about the discretised prior grid model (property C16). *)
From Coq Require Import List ZArith QArith Bool Reals Lra Lia Arith Sorted Permutation.
From TsdateV Require Import lib.Num model.PriorGrid.
Import ListNotations.
Open Scope R_scope.

(** ** sorting over R *)
Lemma insert_perm x l : Permutation (insert RNum x l) (x :: l).
Proof.
  induction l as [|y r IH]; simpl; auto.
  destruct (Rleb x y); auto.
  eapply perm_trans; [apply perm_skip, IH|apply perm_swap].
Qed.

Lemma sort_perm l : Permutation (sort RNum l) l.
Proof.
  induction l as [|x r IH]; simpl; auto.
  eapply perm_trans; [apply insert_perm|apply perm_skip, IH].
Qed.

Lemma insert_strict x l : StronglySorted Rlt l -> ~ In x l -> StronglySorted Rlt (insert RNum x l).
Proof.
  induction l as [|y r IH]; intros Hs Hn; simpl.
  - repeat constructor.
  - inversion Hs as [|? ? Hr Hy]; subst.
    change (leb RNum x y) with (Rleb x y).
    destruct (Rleb x y) eqn:E.
    + apply Rleb_true in E. assert (x < y) by (destruct E; auto; exfalso; apply Hn; left; auto).
      constructor; auto. constructor; auto.
      rewrite Forall_forall in *. intros z Hz. specialize (Hy z Hz). lra.
    + apply Rleb_false in E. constructor.
      * apply IH; auto. intros Hx; apply Hn; right; auto.
      * rewrite Forall_forall in *. intros z Hz.
        apply (Permutation_in _ (insert_perm x r)) in Hz. destruct Hz as [<-|Hz]; auto.
Qed.

Lemma sort_strict l : NoDup l -> StronglySorted Rlt (sort RNum l).
Proof.
  induction l as [|x r IH]; intros Hd; simpl.
  - constructor.
  - inversion Hd; subst. apply insert_strict; auto.
    intros Hx. apply (Permutation_in _ (sort_perm r)) in Hx. contradiction.
Qed.

Lemma NoDup_map_inj_on {A B} (f : A -> B) l :
  NoDup l -> (forall x y, In x l -> In y l -> f x = f y -> x = y) -> NoDup (map f l).
Proof.
  induction l as [|a r IH]; intros Hd Hinj; simpl; constructor.
  - inversion Hd; subst. intros Hin. apply in_map_iff in Hin. destruct Hin as [y [Ey Hy]].
    assert (y = a) by (apply Hinj; simpl; auto). subst. contradiction.
  - inversion Hd; subst. apply IH; auto. intros; apply Hinj; simpl; auto.
Qed.

Lemma NoDup_app_intro {A} (l1 l2 : list A) :
  NoDup l1 -> NoDup l2 -> (forall x, In x l1 -> In x l2 -> False) -> NoDup (l1 ++ l2).
Proof.
  induction l1 as [|a r IH]; intros H1 H2 Hd; simpl; auto.
  inversion H1; subst. constructor.
  - intros Hin. apply in_app_or in Hin. destruct Hin; auto. apply (Hd a); simpl; auto.
  - apply IH; auto. intros x Hx; apply Hd; simpl; auto.
Qed.

(** ** min / max by folding *)
Lemma minl_le (x0 : R) (xs : list R) : minl RNum x0 xs <= x0 /\ forall x, In x xs -> minl RNum x0 xs <= x.
Proof.
  unfold minl. cbn [ltb RNum]. change (T RNum) with R in *. revert x0. induction xs as [|y r IH]; intros x0; simpl.
  - split; [lra|tauto].
  - destruct (Rltb y x0) eqn:E.
    + apply Rltb_true in E. destruct (IH y) as [H1 H2]. split; [lra|].
      intros x [<-|Hx]; auto.
    + apply Rltb_false in E. destruct (IH x0) as [H1 H2]. split; auto.
      intros x [<-|Hx]; auto. lra.
Qed.

Lemma maxl_ge (x0 : R) (xs : list R) : x0 <= maxl RNum x0 xs /\ forall x, In x xs -> x <= maxl RNum x0 xs.
Proof.
  unfold maxl. cbn [ltb RNum]. change (T RNum) with R in *. revert x0. induction xs as [|y r IH]; intros x0; simpl.
  - split; [lra|tauto].
  - destruct (Rltb x0 y) eqn:E.
    + apply Rltb_true in E. destruct (IH y) as [H1 H2]. split; [lra|].
      intros x [<-|Hx]; auto.
    + apply Rltb_false in E. destruct (IH x0) as [H1 H2]. split; auto.
      intros x [<-|Hx]; auto. lra.
Qed.

Lemma maxl_in (x0 : R) (xs : list R) : In (maxl RNum x0 xs) (x0 :: xs).
Proof.
  unfold maxl. cbn [ltb RNum]. revert x0. induction xs as [|y r IH]; intros x0; simpl; auto.
  destruct (Rltb x0 y).
  - destruct (IH y) as [H|H]; auto.
  - destruct (IH x0) as [H|H]; auto.
Qed.

(** ** [create_timepoints] *)
Section GridProof.
  Variable cdf ppf : nat -> R -> R.
  Variable max_n npts : nat.
  Hypothesis Hn : (2 <= max_n)%nat.
  Hypothesis Hp : (2 <= npts)%nat.
  (** the percent-point function is a right inverse of the cdf on (0,1) and positive *)
  Hypothesis cdf_ppf : forall i p, (2 <= i <= max_n)%nat -> 0 < p < 1 -> cdf i (ppf i p) = p.
  Hypothesis ppf_pos : forall i p, (2 <= i <= max_n)%nat -> 0 < p < 1 -> 0 < ppf i p.

  Let pcs := percentiles RNum npts.
  Let max_sep : R := 1 / IZR (Z.of_nat npts - 1).

  Lemma npts_pos : 0 < IZR (Z.of_nat npts).
  Proof. apply IZR_lt. lia. Qed.

  Lemma max_sep_pos : 0 < max_sep.
  Proof. unfold max_sep. apply Rdiv_lt_0_compat; [lra|]. apply IZR_lt. lia. Qed.

  Lemma pcs_range p : In p pcs -> 0 < p < 1.
  Proof.
    unfold pcs, percentiles. intros H. apply in_map_iff in H. destruct H as [j [<- Hj]].
    apply in_seq in Hj. cbn [mul div one ofZ RNum].
    pose proof npts_pos as P.
    assert (0 < IZR (Z.of_nat j)) by (apply IZR_lt; lia).
    assert (IZR (Z.of_nat j) < IZR (Z.of_nat npts)) by (apply IZR_lt; lia).
    split.
    - apply Rmult_lt_0_compat; auto. apply Rdiv_lt_0_compat; lra.
    - apply (Rmult_lt_reg_r (IZR (Z.of_nat npts))); auto.
      replace (IZR (Z.of_nat j) * (1 / IZR (Z.of_nat npts)) * IZR (Z.of_nat npts)) with (IZR (Z.of_nat j)) by (field; lra).
      lra.
  Qed.

  Lemma pcs_nodup : NoDup pcs.
  Proof.
    unfold pcs, percentiles. apply NoDup_map_inj_on; [apply seq_NoDup|].
    intros x y _ _ E. cbn [mul div one ofZ RNum] in E.
    pose proof npts_pos as P.
    assert (IZR (Z.of_nat x) = IZR (Z.of_nat y)).
    { apply (Rmult_eq_reg_r (1 / IZR (Z.of_nat npts))); auto.
      apply Rgt_not_eq. apply Rdiv_lt_0_compat; lra. }
    apply eq_IZR in H. lia.
  Qed.

  Lemma pcs_nonempty : pcs <> [].
  Proof.
    unfold pcs, percentiles. destruct npts as [|[|m]]; try lia. simpl. discriminate.
  Qed.

  Lemma ppf_inj i p q : (2 <= i <= max_n)%nat -> 0 < p < 1 -> 0 < q < 1 -> ppf i p = ppf i q -> p = q.
  Proof. intros Hi Hp' Hq E. rewrite <- (cdf_ppf i p), <- (cdf_ppf i q) by auto. rewrite E. reflexivity. Qed.

  Definition Inv (ts : list R) : Prop := NoDup ts /\ Forall (Rlt 0) ts /\ ts <> [].

  Lemma absN_zero x : absN RNum (x - x) = 0.
  Proof.
    unfold absN. cbn [ltb neg zero RNum]. replace (x - x) with 0 by ring.
    destruct (Rltb 0 0) eqn:E; [apply Rltb_true in E; lra|reflexivity].
  Qed.

  Lemma min_abs_diff_le p proj d c : min_abs_diff RNum p proj = Some d -> In c proj ->
    d <= absN RNum (p - c).
  Proof.
    unfold min_abs_diff. intros H Hc.
    destruct (map (fun c0 => absN RNum (sub RNum p c0)) proj) as [|d0 ds] eqn:E; [discriminate|].
    inversion H; subst.
    assert (Hin : In (absN RNum (p - c)) (d0 :: ds)).
    { rewrite <- E. apply in_map_iff. exists c. split; auto. }
    destruct (minl_le d0 ds) as [H0 H1]. destruct Hin as [<-|Hin]; auto.
  Qed.

  Lemma tp_step_inv i ts : (3 <= i <= max_n)%nat -> Inv ts ->
    exists ts', tp_step RNum cdf ppf max_sep pcs (Some ts) i = Some ts' /\ Inv ts' /\
                (length ts <= length ts')%nat.
  Proof.
    intros Hi [Hd [Hpos Hne]].
    set (wd := filter (fun p => match min_abs_diff RNum p (map (cdf i) ts) with
                                | Some d => ltb RNum max_sep d | None => false end) pcs).
    assert (Estep : tp_step RNum cdf ppf max_sep pcs (Some ts) i = Some (ts ++ map (ppf i) wd)).
    { unfold tp_step. destruct ts as [|t0 tr]; [contradiction|]. reflexivity. }
    exists (ts ++ map (ppf i) wd). split; [exact Estep|]. split; [|rewrite app_length; lia].
    assert (Hwd : forall p, In p wd -> In p pcs /\ exists d, min_abs_diff RNum p (map (cdf i) ts) = Some d /\ max_sep < d).
    { intros p Hp'. unfold wd in Hp'. apply filter_In in Hp'. destruct Hp' as [H1 H2]. split; auto.
      destruct (min_abs_diff RNum p (map (cdf i) ts)) as [d|]; [|discriminate].
      exists d. split; auto. apply Rltb_true. exact H2. }
    split; [|split].
    - apply NoDup_app_intro; auto.
      + apply NoDup_map_inj_on.
        * apply NoDup_filter. apply pcs_nodup.
        * intros x y Hx Hy. apply ppf_inj; try lia; apply pcs_range; apply Hwd; auto.
      + intros x Hx Hx'. apply in_map_iff in Hx'. destruct Hx' as [p [<- Hp']].
        destruct (Hwd p Hp') as [Hpc [d [Hd1 Hd2]]].
        assert (In (cdf i (ppf i p)) (map (cdf i) ts)) by (apply in_map; auto).
        pose proof (min_abs_diff_le _ _ _ _ Hd1 H) as Hle.
        rewrite cdf_ppf in Hle by (try lia; apply pcs_range; auto).
        rewrite absN_zero in Hle. pose proof max_sep_pos. lra.
    - apply Forall_app. split; auto. rewrite Forall_forall. intros x Hx.
      apply in_map_iff in Hx. destruct Hx as [p [<- Hp']]. apply ppf_pos; [lia|]. apply pcs_range, Hwd; auto.
    - destruct ts; [contradiction|discriminate].
  Qed.

  Lemma fold_steps : forall cnt a ts, (3 <= a)%nat -> (a + cnt <= max_n + 1)%nat -> Inv ts ->
    exists ts', fold_left (tp_step RNum cdf ppf max_sep pcs) (seq a cnt) (Some ts) = Some ts' /\ Inv ts' /\
                (length ts <= length ts')%nat.
  Proof.
    induction cnt; intros a ts Ha Hc HI; cbn [seq fold_left].
    - exists ts. auto.
    - destruct (tp_step_inv a ts ltac:(lia) HI) as [t1 [E1 [I1 L1]]].
      rewrite E1. destruct (IHcnt (S a) t1 ltac:(lia) ltac:(lia) I1) as [t2 [E2 [I2 L2]]].
      exists t2. split; [exact E2|]. split; [exact I2|eapply Nat.le_trans; eassumption].
  Qed.

  Theorem create_timepoints_increasing :
    exists ts, create_timepoints RNum cdf ppf max_n npts = Some (0 :: ts) /\
               StronglySorted Rlt (0 :: ts) /\ (npts - 1 <= length ts)%nat.
  Proof.
    unfold create_timepoints.
    assert (Eb : (npts <? 2)%nat = false) by (apply Nat.ltb_ge; lia). rewrite Eb. cbv zeta.
    change (percentiles RNum npts) with pcs.
    change (div RNum (one RNum) (ofZ RNum (Z.of_nat npts - 1))) with max_sep.
    assert (I0 : Inv (map (ppf 2) pcs)).
    { split; [|split].
      - apply NoDup_map_inj_on; [apply pcs_nodup|].
        intros x y Hx Hy. apply ppf_inj; try lia; apply pcs_range; auto.
      - rewrite Forall_forall. intros x Hx. apply in_map_iff in Hx. destruct Hx as [p [<- Hp']].
        apply ppf_pos; [lia|apply pcs_range; auto].
      - pose proof pcs_nonempty. destruct pcs; [contradiction|discriminate]. }
    destruct (fold_steps (max_n + 1 - 3) 3 (map (ppf 2) pcs) ltac:(lia) ltac:(lia) I0) as [ts [E [[Hd [Hpos Hne]] L]]].
    match goal with |- context [match ?X with Some _ => _ | None => _ end] =>
      replace X with (Some ts) by (symmetry; exact E) end.
    exists (sort RNum ts). split; [reflexivity|]. split.
    - constructor.
      + apply sort_strict; auto.
      + rewrite Forall_forall in *. intros x Hx. apply Hpos.
        apply (Permutation_in _ (sort_perm ts)); auto.
    - assert (E1 : length (sort RNum ts) = length ts) by (apply Permutation_length, sort_perm).
      assert (E2 : length (map (ppf 2) pcs) = (npts - 1)%nat).
      { rewrite map_length. unfold pcs, percentiles. rewrite map_length, seq_length. reflexivity. }
      change (T RNum) with R in *. rewrite E1, <- E2. exact L.
  Qed.
End GridProof.

(** ** rows of [fill_priors] + [standardize] *)
Lemma diff_map_div (mx : R) : forall cs : list R,
  diff RNum (map (fun c => div RNum c mx) cs) = map (fun d => d / mx) (diff RNum cs).
Proof.
  induction cs as [|x [|y r] IH]; try reflexivity.
  change (diff RNum (map (fun c => div RNum c mx) (x :: y :: r)))
    with (sub RNum (div RNum y mx) (div RNum x mx) :: diff RNum (map (fun c => div RNum c mx) (y :: r))).
  rewrite IH. cbn [sub div RNum]. simpl. f_equal. unfold Rdiv. ring.
Qed.

Lemma diff_pos : forall cs : list R, StronglySorted Rlt cs -> Forall (Rlt 0) (diff RNum cs).
Proof.
  induction cs as [|x [|y r] IH]; intros Hs; try constructor.
  - inversion Hs as [|? ? Hr Hx]; subst. inversion Hx; subst. cbn [sub RNum]. lra.
  - apply IH. inversion Hs; auto.
Qed.

Lemma diff_length : forall cs : list R, length (diff RNum cs) = (length cs - 1)%nat.
Proof.
  induction cs as [|x [|y r] IH]; try reflexivity.
  change (diff RNum (x :: y :: r)) with (sub RNum y x :: diff RNum (y :: r)).
  simpl length in *. rewrite IH. lia.
Qed.

Lemma prior_row_spec (cs : list R) :
  StronglySorted Rlt cs -> (2 <= length cs)%nat -> 0 <= hd 0 cs ->
  exists mx rm, 0 < mx /\ 0 < rm /\ In mx cs /\ (forall c, In c cs -> c <= mx) /\
    prior_row RNum cs = Some (0 :: map (fun d => d / mx / rm) (diff RNum cs)) /\
    Forall (fun x => 0 < x <= 1) (map (fun d => d / mx / rm) (diff RNum cs)) /\
    In 1 (map (fun d => d / mx / rm) (diff RNum cs)).
Proof.
  intros Hs Hlen H0.
  destruct cs as [|c0 [|c1 cr]]; simpl in Hlen; try lia.
  set (cs := c0 :: c1 :: cr) in *.
  set (mx := maxl RNum c0 (c1 :: cr)).
  assert (Hmx_in : In mx cs) by apply maxl_in.
  assert (Hmx_ge : forall c, In c cs -> c <= mx).
  { intros c [<-|Hc]; [apply (proj1 (maxl_ge _ _))|apply (proj2 (maxl_ge _ _)); auto]. }
  assert (Hmx_pos : 0 < mx).
  { assert (c1 <= mx) by (apply Hmx_ge; simpl; auto).
    inversion Hs as [|? ? _ Hf]; subst. inversion Hf; subst. simpl in H0. lra. }
  pose proof (diff_pos cs Hs) as Hdp.
  set (ds := map (fun d => d / mx) (diff RNum cs)).
  assert (Eds : diff RNum (map (fun c => div RNum c mx) cs) = ds) by apply diff_map_div.
  assert (Hds_pos : Forall (Rlt 0) ds).
  { unfold ds. rewrite Forall_forall in *. intros x Hx. apply in_map_iff in Hx.
    destruct Hx as [d [<- Hd]]. apply Rdiv_lt_0_compat; auto. }
  destruct ds as [|d0 dr] eqn:Eds'.
  { exfalso. assert (length ds = 0%nat) by (rewrite Eds'; reflexivity).
    unfold ds in H. rewrite map_length, diff_length in H. simpl in H. lia. }
  set (rm := maxl RNum d0 dr).
  assert (Hrm_in : In rm (d0 :: dr)) by apply maxl_in.
  assert (Hrm_ge : forall d, In d (d0 :: dr) -> d <= rm).
  { intros d [<-|Hd]; [apply (proj1 (maxl_ge _ _))|apply (proj2 (maxl_ge _ _)); auto]. }
  assert (Hrm_pos : 0 < rm).
  { rewrite Forall_forall in Hds_pos. apply Hds_pos. exact Hrm_in. }
  exists mx, rm. repeat split; auto.
  - change (prior_row RNum cs) with
      (match diff RNum (map (fun c => div RNum c mx) cs) with
       | [] => None
       | d1 :: dr0 => Some (map (fun x => div RNum x (maxl RNum d1 dr0))
                              (zero RNum :: diff RNum (map (fun c => div RNum c mx) cs)))
       end).
    rewrite Eds. fold rm.
    f_equal.
    change (map (fun x => div RNum x rm) (zero RNum :: d0 :: dr))
      with (div RNum (zero RNum) rm :: map (fun x => div RNum x rm) (d0 :: dr)).
    f_equal.
    + cbn [div zero RNum]. change (T RNum) with R. unfold Rdiv. ring.
    + rewrite <- Eds'. unfold ds. rewrite map_map. reflexivity.
  - assert (Em : map (fun d => d / mx / rm) (diff RNum cs) = map (fun d => d / rm) (d0 :: dr)).
    { rewrite <- Eds'. unfold ds. rewrite map_map. reflexivity. }
    rewrite Em. rewrite Forall_forall in *. intros x Hx. apply in_map_iff in Hx.
    destruct Hx as [d [<- Hd]]. specialize (Hds_pos d Hd). specialize (Hrm_ge d Hd). split.
    + apply Rdiv_lt_0_compat; auto.
    + apply (Rmult_le_reg_r rm); auto. replace (d / rm * rm) with d by (field; lra). lra.
  - assert (Em : map (fun d => d / mx / rm) (diff RNum cs) = map (fun d => d / rm) (d0 :: dr)).
    { rewrite <- Eds'. unfold ds. rewrite map_map. reflexivity. }
    rewrite Em. apply in_map_iff. exists rm. split; auto. field. lra.
Qed.

(** with the cdf: an increasing grid starting at 0 and a cdf that vanishes at 0 and is
    strictly increasing on the grid *)
Lemma map_strict (F : R -> R) : forall ts, StronglySorted Rlt ts ->
  (forall x y, In x ts -> In y ts -> x < y -> F x < F y) -> StronglySorted Rlt (map F ts).
Proof.
  induction ts as [|t r IH]; intros Hs HF; simpl; constructor.
  - apply IH; [inversion Hs; auto|]. intros; apply HF; simpl; auto.
  - inversion Hs as [|? ? _ Hf]; subst. rewrite Forall_forall in *. intros y Hy.
    apply in_map_iff in Hy. destruct Hy as [x [<- Hx]]. apply HF; simpl; auto.
Qed.

(** ** which nodes get a row *)
Lemma insert_by_perm (N : Num) (time : nat -> T N) u l : Permutation (insert_by N time u l) (u :: l).
Proof.
  induction l as [|v r IH]; simpl; auto.
  destruct (ltb N (time u) (time v)); auto.
  eapply perm_trans; [apply perm_skip, IH|apply perm_swap].
Qed.

Lemma nonfixed_perm (N : Num) n is_sample (time : nat -> T N) :
  Permutation (nonfixed_nodes N n is_sample time) (filter (fun u => negb (is_sample u)) (seq 0 n)).
Proof.
  unfold nonfixed_nodes. induction (filter (fun u => negb (is_sample u)) (seq 0 n)) as [|a r IH]; simpl; auto.
  eapply perm_trans; [apply insert_by_perm|apply perm_skip, IH].
Qed.

Lemma nonfixed_spec (N : Num) n is_sample (time : nat -> T N) :
  NoDup (nonfixed_nodes N n is_sample time) /\
  forall u, In u (nonfixed_nodes N n is_sample time) <-> (u < n)%nat /\ is_sample u = false.
Proof.
  pose proof (nonfixed_perm N n is_sample time) as P. split.
  - apply (Permutation_NoDup (Permutation_sym P)). apply NoDup_filter, seq_NoDup.
  - intros u. split.
    + intros H. apply (Permutation_in _ P) in H. apply filter_In in H. destruct H as [H1 H2].
      apply in_seq in H1. split; [lia|]. destruct (is_sample u); [discriminate|reflexivity].
    + intros [H1 H2]. apply (Permutation_in _ (Permutation_sym P)). apply filter_In. split.
      * apply in_seq. lia.
      * rewrite H2. reflexivity.
Qed.

(** ** the timepoints request *)
Lemma has_dup_strict : forall l : list R, StronglySorted Rlt l -> has_dup RNum l = false.
Proof.
  induction l as [|x [|y r] IH]; intros Hs; try reflexivity.
  change (has_dup RNum (x :: y :: r)) with (eqb RNum x y || has_dup RNum (y :: r)).
  inversion Hs as [|? ? Hr Hf]; subst. rewrite IH by auto. inversion Hf; subst.
  cbn [eqb RNum]. destruct (Reqb x y) eqn:E; [|reflexivity].
  apply Reqb_true in E. lra.
Qed.

Section RequestProof.
  Variable cdf ppf : nat -> R -> R.
  Variable to_c to_n : R -> R.
  Variable max_n : nat.

  Lemma user_grid (g : list R) :
    (forall x, 0 <= x -> to_n (to_c x) = x) ->
    (2 <= length g)%nat -> (forall x, In x g -> 0 <= x) -> NoDup g ->
    stored_timepoints RNum cdf ppf to_c to_n max_n (ReqGrid RNum g) = Some (sort RNum g) /\
    StronglySorted Rlt (sort RNum g) /\ Permutation (sort RNum g) g.
  Proof.
    intros Hrt Hlen Hpos Hd.
    pose proof (sort_strict g Hd) as Hs. pose proof (sort_perm g) as Hp.
    split; [|split; auto].
    unfold stored_timepoints, request_timepoints.
    assert (E1 : (length (sort RNum g) <? 2)%nat = false).
    { apply Nat.ltb_ge. rewrite (Permutation_length Hp). exact Hlen. }
    rewrite E1.
    assert (E2 : existsb (fun x => ltb RNum x (zero RNum)) (sort RNum g) = false).
    { destruct (existsb _ (sort RNum g)) eqn:E; [|reflexivity].
      apply existsb_exists in E. destruct E as [x [Hx Hlt]].
      apply (Permutation_in _ Hp) in Hx. apply Hpos in Hx. cbn [ltb zero RNum] in Hlt.
      apply Rltb_true in Hlt. lra. }
    rewrite E2, (has_dup_strict _ Hs). f_equal. rewrite map_map.
    rewrite <- (map_id (sort RNum g)) at 2. apply map_ext_in. intros x Hx.
    apply Hrt, Hpos. apply (Permutation_in _ Hp). exact Hx.
  Qed.

  Lemma count_grid (k : nat) :
    (2 <= max_n)%nat -> (2 <= k)%nat ->
    (forall i p, (2 <= i <= max_n)%nat -> 0 < p < 1 -> cdf i (ppf i p) = p) ->
    (forall i p, (2 <= i <= max_n)%nat -> 0 < p < 1 -> 0 < ppf i p) ->
    to_n 0 = 0 -> (forall x y, 0 <= x -> x < y -> to_n x < to_n y) ->
    exists ts, stored_timepoints RNum cdf ppf to_c to_n max_n (ReqCount RNum k) = Some (0 :: ts) /\
               StronglySorted Rlt (0 :: ts) /\ (k <= length ts)%nat.
  Proof.
    intros Hn Hk H1 H2 Hn0 Hinc.
    destruct (create_timepoints_increasing cdf ppf max_n (k + 1) Hn ltac:(lia) H1 H2) as [ts [E [Hs Hl]]].
    unfold stored_timepoints, request_timepoints.
    assert (Eb : (k <? 2)%nat = false) by (apply Nat.ltb_ge; lia). rewrite Eb, E.
    exists (map to_n ts). split; [cbn [map]; rewrite Hn0; reflexivity|]. split.
    - rewrite <- Hn0. change (to_n 0 :: map to_n ts) with (map to_n (0 :: ts)).
      apply map_strict; auto. intros x y Hx Hy Hxy. apply Hinc; auto.
      destruct Hx as [<-|Hx]; [lra|]. inversion Hs as [|? ? _ Hf]; subst.
      rewrite Forall_forall in Hf. apply Rlt_le. apply Hf. exact Hx.
    - rewrite map_length. lia.
  Qed.
End RequestProof.

(** ** packaged statement for rows, in terms of the cdf *)
Lemma prior_row_cdf (F : R -> R) (ts : list R) :
  StronglySorted Rlt (0 :: ts) -> ts <> [] -> F 0 = 0 ->
  (forall x y, 0 <= x -> x < y -> F x < F y) ->
  let cs := map F (0 :: ts) in
  exists mx rm, 0 < mx /\ 0 < rm /\ In mx cs /\ (forall c, In c cs -> c <= mx) /\
    prior_row RNum cs = Some (0 :: map (fun d => d / mx / rm) (diff RNum cs)) /\
    Forall (fun x => 0 < x <= 1) (map (fun d => d / mx / rm) (diff RNum cs)) /\
    In 1 (map (fun d => d / mx / rm) (diff RNum cs)).
Proof.
  intros Hs Hne F0 Finc cs. apply prior_row_spec.
  - apply map_strict; auto. intros x y Hx Hy Hxy. apply Finc; auto.
    destruct Hx as [<-|Hx]; [lra|]. inversion Hs as [|? ? _ Hf]; subst.
    rewrite Forall_forall in Hf. apply Rlt_le, Hf, Hx.
  - unfold cs. rewrite map_length. destruct ts; [contradiction|simpl; lia].
  - unfold cs. simpl. rewrite F0. lra.
Qed.

(** non-vacuity: a concrete exact run of the model on Q with a toy distribution family
    (cdf_i(t) = t / (t + i), ppf_i(p) = i p / (1 - p), mutually inverse, positive) *)
Definition toy_cdf (i : nat) (t : Q) : Q := Qred (t / (t + inject_Z (Z.of_nat i * Z.of_nat i)))%Q.
Definition toy_ppf (i : nat) (p : Q) : Q := Qred (inject_Z (Z.of_nat i * Z.of_nat i) * p / (1 - p))%Q.

Lemma C16_example :
  create_timepoints QNum toy_cdf toy_ppf 4 6 = Some [0; 4 # 5; 2 # 1; 4 # 1; 8 # 1; 20 # 1; 80 # 1]%Q /\
  prior_row QNum (map (toy_cdf 3) [0; 4 # 5; 2 # 1; 4 # 1; 8 # 1; 20 # 1; 80 # 1]%Q)
    = Some [0; 493 # 1323; 493 # 1078; 493 # 858; 29 # 39; 1; 85 # 89]%Q /\
  nonfixed_nodes QNum 6 (fun u => Nat.ltb u 3) (fun u => nth u [0; 0; 0; 5 # 1; 2 # 1; 3 # 1]%Q 0%Q)
    = [4; 5; 3]%nat.
Proof. vm_compute. repeat split. Qed.
