From Coq Require Import List Bool ZArith Permutation Reals Lra.
From TsdateV Require Import lib.Num model.Gather.
Import ListNotations.

Section Cache.
Variables K V : Type.
Variable keqb : K -> K -> bool.
Hypothesis keqb_spec : forall a b, keqb a b = true <-> a = b.

Notation assign := (assign K V keqb).

Lemma assign_comm m a b : fst a <> fst b -> forall k, assign (assign m a) b k = assign (assign m b) a k.
Proof. intros Hne k. unfold Gather.assign.
  destruct (keqb k (fst b)) eqn:Eb; destruct (keqb k (fst a)) eqn:Ea; try reflexivity.
  apply keqb_spec in Ea. apply keqb_spec in Eb. congruence. Qed.

Lemma fold_assign_ext rs : forall m m', (forall k, m k = m' k) ->
  forall k, fold_left assign rs m k = fold_left assign rs m' k.
Proof. induction rs as [|r rs IH]; intros m m' H k; [apply H|]. cbn [fold_left]. apply IH.
  intro k'. unfold Gather.assign. rewrite H. reflexivity. Qed.

(** delivery order of the results does not matter when every key is computed once *)
Theorem gather_perm keys rs rs' : NoDup (map fst rs) -> Permutation rs rs' ->
  forall k, gather K V keqb keys rs k = gather K V keqb keys rs' k.
Proof. unfold gather. intros Hnd Hp. generalize (init_cache K V keqb keys) as m. revert Hnd.
  induction Hp as [|x l l' Hp IH|x y l|l l' l'' Hp1 IH1 Hp2 IH2]; intros Hnd m k.
  - reflexivity.
  - cbn [fold_left]. apply IH. inversion Hnd; assumption.
  - cbn [fold_left]. apply fold_assign_ext. intro k'. apply assign_comm.
    cbn [map] in Hnd. inversion Hnd as [|a b Hnin Hnd']; subst. intro E. apply Hnin. left. symmetry. exact E.
  - rewrite IH1 by exact Hnd. apply IH2.
    eapply Permutation_NoDup; [apply Permutation_map; exact Hp1 | exact Hnd]. Qed.

Lemma keqb_refl k : keqb k k = true.
Proof. apply keqb_spec. reflexivity. Qed.

Lemma fold_assign_other rs : forall m k, ~ In k (map fst rs) -> fold_left assign rs m k = m k.
Proof. induction rs as [|[k1 v1] rs IH]; intros m k Hn; [reflexivity|]. cbn [fold_left].
  rewrite IH by (intro Hc; apply Hn; right; exact Hc). unfold Gather.assign. cbn [fst snd].
  destruct (keqb k k1) eqn:E; [|reflexivity]. exfalso. apply Hn. left. apply keqb_spec in E. symmetry. exact E. Qed.

(** and every key delivered ends up filled with its value *)
Theorem gather_filled keys rs : NoDup (map fst rs) ->
  forall k v, In (k, v) rs -> gather K V keqb keys rs k = Some (Some v).
Proof. unfold gather. generalize (init_cache K V keqb keys) as m.
  induction rs as [|[k0 v0] rs IH]; intros m Hnd k v Hin; [destruct Hin|]. cbn [fold_left].
  cbn [map] in Hnd. inversion Hnd as [|a b Hnin Hnd']; subst. destruct Hin as [E|Hin].
  - inversion E; subst. clear E. rewrite fold_assign_other by exact Hnin.
    unfold Gather.assign. cbn [fst snd]. rewrite keqb_refl. reflexivity.
  - apply IH; assumption. Qed.
End Cache.

(** ** probability spaces over the reals *)
Open Scope R_scope.
Section Space.
Notation to_log := (to_log RNum ln).
Notation to_lin := (to_lin RNum exp).

Lemma lin_log_lin v : 0 <= v -> to_lin (to_log v) = v.
Proof. intro H. unfold Gather.to_log, Gather.to_lin. cbn [eqb zero RNum].
  destruct (Reqb v 0) eqn:E.
  - apply Reqb_true in E. subst. reflexivity.
  - apply exp_ln. destruct (Req_dec v 0) as [->|Hne]; [|lra].
    assert (Reqb 0 0 = true) by (apply Reqb_true; reflexivity). congruence. Qed.

Lemma log_lin_log w : to_log (to_lin w) = w.
Proof. destruct w as [|x]; unfold Gather.to_log, Gather.to_lin; cbn [eqb zero RNum].
  - assert (E : Reqb 0 0 = true) by (apply Reqb_true; reflexivity). rewrite E. reflexivity.
  - destruct (Reqb (exp x) 0) eqn:E.
    + apply Reqb_true in E. pose proof (exp_pos x). lra.
    + rewrite ln_exp. reflexivity. Qed.

Definition wf (d : stored R) : Prop := match d with Lin v => 0 <= v | Log _ => True end.

Lemma force_denote s d : wf d -> denote RNum exp (force RNum exp ln s d) = denote RNum exp d.
Proof. destruct s, d as [v|w]; intro H; cbn [force denote]; try reflexivity. apply lin_log_lin; exact H. Qed.

Lemma force_wf s d : wf d -> wf (force RNum exp ln s d).
Proof. destruct s, d as [v|w]; intro H; cbn [force wf]; try exact H; try exact I.
  destruct w; cbn; [lra | left; apply exp_pos]. Qed.

(** any sequence of calls, any spaces: the denoted probability never changes *)
Theorem force_seq_denote (ss : list space) : forall d, wf d ->
  denote RNum exp (fold_left (fun d s => force RNum exp ln s d) ss d) = denote RNum exp d.
Proof. induction ss as [|s ss IH]; intros d H; [reflexivity|]. cbn [fold_left].
  rewrite IH by (apply force_wf; exact H). apply force_denote; exact H. Qed.

(** and re-entering a space returns the stored representation itself *)
Lemma force_roundtrip_log w : force RNum exp ln LOG (force RNum exp ln LIN (Log w)) = Log w.
Proof. cbn [force]. rewrite log_lin_log. reflexivity. Qed.
Lemma force_roundtrip_lin v : 0 <= v -> force RNum exp ln LIN (force RNum exp ln LOG (Lin v)) = Lin v.
Proof. intro H. cbn [force]. rewrite lin_log_lin by exact H. reflexivity. Qed.
End Space.

(** [force] applies exactly the conversion [conv] prescribes, and lands in the target space *)
Lemma force_space (s : space) (d : stored R) : space_of (force RNum exp ln s d) = s.
Proof. destruct s, d; reflexivity. Qed.
Lemma force_conv_none (s : space) (d : stored R) : conv (space_of d) s = None -> force RNum exp ln s d = d.
Proof. destruct s, d; cbn; intro H; try reflexivity; discriminate. Qed.

Lemma zkeqb_spec (a b : Z * Z) : zkeqb a b = true <-> a = b.
Proof. destruct a as [a1 a2], b as [b1 b2]. unfold zkeqb. cbn [fst snd]. rewrite Bool.andb_true_iff, !Z.eqb_eq.
  split; [intros [-> ->]; reflexivity | intro H; inversion H; split; reflexivity]. Qed.
