(** Invariants of the cache protocol model, for every interleaving of any number of
    processes, crashes, exceptions and cache clearings. *)
From Coq Require Import List Arith Lia Bool.
From TsdateV Require Import model.Cache.
Import ListNotations.

(** ** list update *)
Lemma upd_length {X} (l : list X) i x : length (upd l i x) = length l.
Proof. revert i. induction l as [|y r IH]; intros [|i]; simpl; auto. Qed.

Lemma upd_nth_error_same {X} (l : list X) i x : i < length l -> nth_error (upd l i x) i = Some x.
Proof.
  revert i. induction l as [|y r IH]; intros [|i] H; simpl in *; try lia; auto.
  apply IH. lia.
Qed.

Lemma upd_nth_error_other {X} (l : list X) i j x : i <> j -> nth_error (upd l i x) j = nth_error l j.
Proof.
  revert i j. induction l as [|y r IH]; intros [|i] [|j] H; simpl; auto; try congruence.
Qed.

Lemma upd_nth_same {X} (l : list X) i x d : i < length l -> nth i (upd l i x) d = x.
Proof.
  revert i. induction l as [|y r IH]; intros [|i] H; simpl in *; try lia; auto.
  apply IH. lia.
Qed.

Lemma upd_nth_other {X} (l : list X) i j x d : i <> j -> nth j (upd l i x) d = nth j l d.
Proof.
  revert i j. induction l as [|y r IH]; intros [|i] [|j] H; simpl; auto; try congruence.
Qed.

Lemma nth_error_lt {X} (l : list X) i x : nth_error l i = Some x -> i < length l.
Proof. intros H. apply nth_error_Some. congruence. Qed.

Section CacheInv.
  Variable A : Type.
  Variable Tbl : Type.
  Variable fresh : Tbl.
  Variable ser : list A.
  Variable validate : list A -> option Tbl.

  (** [P] : what the cached name may hold.  It must admit the complete serialisation, and
      whatever it admits must be read back as the fresh table or be rejected. *)
  Variable P : list A -> Prop.
  Hypothesis P_ser : P ser.
  Hypothesis P_valid : forall c t, P c -> validate c = Some t -> t = fresh.

  Notation state := (state A Tbl).
  Notation exec := (exec A Tbl fresh ser validate true).
  Notation run := (run A Tbl fresh ser validate true).

  Definition pc_ok (s : state) (p : nat) (c : pc Tbl) : Prop :=
    match c with
    | Writing j => j <= length ser /\ nth p (temps s) None = Some (firstn j ser)
    | Closed => nth p (temps s) None = Some ser
    | Done r => r = fresh
    | _ => True
    end.

  Record Inv (s : state) : Prop := {
    inv_final : forall c, final s = Some c -> P c;
    inv_len : length (temps s) = length (procs s);
    inv_pc : forall p c, nth_error (procs s) p = Some c -> pc_ok s p c }.

  (** changing the program counter of [p] to a state without obligations, or the final file *)
  Lemma pc_ok_set_pc s p q c c' : pc_ok s q c -> pc_ok (set_pc A Tbl s p c') q c.
  Proof. destruct c; simpl; auto. Qed.

  Lemma pc_ok_set_final s f q c : pc_ok s q c -> pc_ok (set_final A Tbl s f) q c.
  Proof. destruct c; simpl; auto. Qed.

  Lemma pc_ok_set_temp_other s p t q c : p <> q -> pc_ok s q c -> pc_ok (set_temp A Tbl s p t) q c.
  Proof.
    intros Hpq. destruct c; simpl; auto; rewrite (upd_nth_other _ p q) by assumption; auto.
  Qed.

  (** generic re-establishment: process [p] moves to [c'], possibly touching only its own temp *)
  Lemma inv_move (s : state) p c' (s1 : state) :
    Inv s -> p < length (procs s) ->
    final s1 = final s -> length (temps s1) = length (temps s) -> procs s1 = procs s ->
    (forall q, q <> p -> nth q (temps s1) None = nth q (temps s) None) ->
    pc_ok s1 p c' ->
    Inv (set_pc A Tbl s1 p c').
  Proof.
    intros I Hp Hf Hl Hpr Hoth Hc'. constructor.
    - simpl. rewrite Hf. apply (inv_final _ I).
    - simpl. rewrite upd_length, Hl, Hpr. apply (inv_len _ I).
    - intros q c Hq. simpl in Hq.
      destruct (Nat.eq_dec p q) as [<-|Hne].
      + rewrite upd_nth_error_same in Hq by (rewrite Hpr; assumption). inversion Hq; subst.
        destruct c; simpl in *; auto.
      + rewrite upd_nth_error_other in Hq by assumption. rewrite Hpr in Hq.
        pose proof (inv_pc _ I q c Hq) as Hok.
        destruct c; simpl in *; auto; rewrite Hoth by congruence; auto.
  Qed.

  Lemma exec_inv s a s' : Inv s -> exec s a = Some s' -> Inv s'.
  Proof.
    intros I H. destruct a as [|p k|p|p|]; simpl in H.
    - (* Spawn *)
      inversion H; subst; clear H. constructor; simpl.
      + apply (inv_final _ I).
      + rewrite !app_length. simpl. rewrite (inv_len _ I). reflexivity.
      + intros q c Hq.
        destruct (Nat.lt_ge_cases q (length (procs s))) as [Hlt|Hge].
        * rewrite nth_error_app1 in Hq by assumption.
          pose proof (inv_pc _ I q c Hq) as Hok.
          destruct c; simpl in *; auto;
            rewrite app_nth1 by (rewrite (inv_len _ I); assumption); auto.
        * rewrite nth_error_app2 in Hq by assumption.
          destruct (q - length (procs s)) as [|n]; simpl in Hq.
          -- inversion Hq; subst. exact Logic.I.
          -- destruct n; discriminate.
    - (* Step *)
      unfold step in H. destruct (nth_error (procs s) p) as [c|] eqn:Ep; [|discriminate].
      pose proof (nth_error_lt _ _ _ Ep) as Hp.
      pose proof (inv_pc _ I p c Ep) as Hok.
      destruct c as [| | |j| |r|]; try discriminate.
      + (* Start *) inversion H; subst; clear H.
        apply (inv_move s); auto; try (destruct (final s); exact Logic.I).
      + (* Reading *)
        destruct (final s) as [c|] eqn:Ef.
        * destruct (validate c) as [t|] eqn:Ev; inversion H; subst; clear H.
          -- apply (inv_move s); auto. simpl. eapply P_valid; [|exact Ev]. apply (inv_final _ I). assumption.
          -- apply (inv_move s); auto; try exact Logic.I.
        * inversion H; subst; clear H. apply (inv_move s); auto; try exact Logic.I.
      + (* Computing: create the temp file *)
        inversion H; subst; clear H. unfold put.
        apply (inv_move s); auto.
        * simpl. apply upd_length.
        * intros q Hq. simpl. apply upd_nth_other. congruence.
        * simpl. split; [lia|]. rewrite upd_nth_same by (rewrite (inv_len _ I); assumption). reflexivity.
      + (* Writing *)
        simpl in Hok. destruct Hok as [Hj Ht].
        destruct (Nat.ltb j (length ser)) eqn:El; inversion H; subst; clear H.
        * unfold put. apply (inv_move s); auto.
          -- simpl. apply upd_length.
          -- intros q Hq. simpl. apply upd_nth_other. congruence.
          -- simpl. split; [apply Nat.le_min_r|].
             rewrite upd_nth_same by (rewrite (inv_len _ I); assumption). reflexivity.
        * apply Nat.ltb_ge in El. assert (j = length ser) as -> by lia.
          apply (inv_move s); auto. simpl. rewrite Ht. now rewrite firstn_all.
      + (* Closed: os.replace *)
        simpl in Hok. inversion H; subst; clear H.
        rewrite Hok.
        constructor.
        * simpl. intros c Hc. inversion Hc; subst. exact P_ser.
        * simpl. rewrite !upd_length. apply (inv_len _ I).
        * intros q c Hq. simpl in Hq.
          destruct (Nat.eq_dec p q) as [<-|Hne].
          -- rewrite upd_nth_error_same in Hq by assumption. inversion Hq; subst. reflexivity.
          -- rewrite upd_nth_error_other in Hq by assumption.
             pose proof (inv_pc _ I q c Hq) as Hokq.
             apply pc_ok_set_pc. apply pc_ok_set_temp_other; [assumption|]. now apply pc_ok_set_final.
    - (* Kill *)
      destruct (nth_error (procs s) p) as [c|] eqn:Ep; [|discriminate].
      destruct (alive Tbl c); inversion H; subst; clear H.
      apply (inv_move s); auto; try exact Logic.I; try (eapply nth_error_lt; eassumption).
    - (* Raise *)
      destruct (nth_error (procs s) p) as [c|] eqn:Ep; [|discriminate].
      destruct (alive Tbl c); inversion H; subst; clear H.
      pose proof (nth_error_lt _ _ _ Ep) as Hp.
      apply (inv_move s); auto.
      + simpl. apply upd_length.
      + intros q Hq. simpl. apply upd_nth_other. congruence.
      + exact Logic.I.
    - (* Clear *)
      inversion H; subst; clear H. constructor; simpl.
      + discriminate.
      + apply (inv_len _ I).
      + intros q c Hq. apply pc_ok_set_final. exact (inv_pc _ I q c Hq).
  Qed.

  Lemma run_inv tr : forall s s', Inv s -> run s tr = Some s' -> Inv s'.
  Proof.
    induction tr as [|a r IH]; intros s s' I H; simpl in H.
    - inversion H; subst. assumption.
    - destruct (exec s a) as [s1|] eqn:E; [|discriminate].
      eapply IH; [|exact H]. eapply exec_inv; eassumption.
  Qed.

  Lemma init_inv g0 : (forall c, g0 = Some c -> P c) -> Inv (init A Tbl g0).
  Proof.
    intros Hg. constructor; simpl; auto.
    intros p c Hp. destruct p; discriminate.
  Qed.

  Theorem reachable_inv g0 tr s : (forall c, g0 = Some c -> P c) ->
    run (init A Tbl g0) tr = Some s ->
    (forall c, final s = Some c -> P c) /\
    (forall p r, nth_error (procs s) p = Some (Done r) -> r = fresh).
  Proof.
    intros Hg H. pose proof (run_inv tr _ _ (init_inv g0 Hg) H) as I. split.
    - apply (inv_final _ I).
    - intros p r Hp. exact (inv_pc _ I p _ Hp).
  Qed.
End CacheInv.

(** ** the two instances *)
Section CacheThms.
  Variable A : Type.
  Variable Tbl : Type.
  Variable fresh : Tbl.
  Variable ser : list A.
  Variable validate : list A -> option Tbl.
  (** [parse (serialize t) = Some t] and the validity checks accept the fresh table *)
  Hypothesis roundtrip : validate ser = Some fresh.

  (** starting without a cache file or with a complete one: the cached name is always
      absent or complete, and every finished run has the fresh table *)
  Theorem atomic_invariant : forall g0 tr s,
    (g0 = None \/ g0 = Some ser) ->
    run A Tbl fresh ser validate true (init A Tbl g0) tr = Some s ->
    (final s = None \/ final s = Some ser) /\
    (forall p r, nth_error (procs s) p = Some (Done r) -> r = fresh).
  Proof.
    intros g0 tr s Hg H.
    destruct (reachable_inv A Tbl fresh ser validate (fun c => c = ser) eq_refl
                ltac:(intros c t -> Hv; rewrite roundtrip in Hv; now inversion Hv) g0 tr s) as [Hf Hd].
    - intros c Hc. destruct Hg as [->| ->]; [discriminate|now inversion Hc].
    - assumption.
    - split; [|assumption]. destruct (final s) as [c|]; [right|now left]. now rewrite (Hf c eq_refl).
  Qed.

  (** starting from ANY leftover content that validation rejects (e.g. a truncated file
      written by an older version): every finished run still has the fresh table, and the
      cached name holds that leftover, nothing, or the complete serialisation *)
  Theorem readers_fresh : forall g0 tr s,
    (forall c, g0 = Some c -> c = ser \/ validate c = None) ->
    run A Tbl fresh ser validate true (init A Tbl g0) tr = Some s ->
    (forall c, final s = Some c -> c = ser \/ validate c = None) /\
    (forall p r, nth_error (procs s) p = Some (Done r) -> r = fresh).
  Proof.
    intros g0 tr s Hg H.
    apply (reachable_inv A Tbl fresh ser validate (fun c => c = ser \/ validate c = None)
             (or_introl eq_refl)) with (g0 := g0) (tr := tr); [|assumption|assumption].
    intros c t [->|Hn] Hv.
    - rewrite roundtrip in Hv. now inversion Hv.
    - congruence.
  Qed.

  (** progress (non-vacuity of the two theorems): from every state a newly started process
      can run to completion, whatever the others have left behind *)
  Notation stepT := (step A Tbl fresh ser validate true).
  Notation runT := (run A Tbl fresh ser validate true).

  Lemma set_pc_at (s : state A Tbl) p c : p < length (procs s) ->
    nth_error (procs (set_pc A Tbl s p c)) p = Some c.
  Proof. intros H. simpl. now apply upd_nth_error_same. Qed.

  Lemma writer_completes (s1 : state A Tbl) p :
    nth_error (procs s1) p = Some Computing -> p < length (procs s1) ->
    exists tr s', runT s1 tr = Some s' /\ nth_error (procs s') p = Some (Done fresh).
  Proof.
    intros H1 Hl.
    set (s2 := set_pc A Tbl (put A Tbl true s1 p []) p (Writing 0)).
    assert (E1 : stepT s1 p 0 = Some s2) by (unfold step; rewrite H1; reflexivity).
    assert (H2 : nth_error (procs s2) p = Some (Writing 0)) by (apply set_pc_at; exact Hl).
    assert (Hl2 : p < length (procs s2)) by (simpl; rewrite upd_length; exact Hl).
    destruct (Nat.ltb 0 (length ser)) eqn:E0.
    - set (s3 := set_pc A Tbl (put A Tbl true s2 p (firstn (length ser) ser)) p (Writing (length ser))).
      assert (E2 : stepT s2 p (length ser) = Some s3).
      { unfold step. rewrite H2, E0.
        replace (Nat.min (0 + Nat.max (length ser) 1) (length ser)) with (length ser) by lia.
        reflexivity. }
      assert (H3 : nth_error (procs s3) p = Some (Writing (length ser))) by (apply set_pc_at; exact Hl2).
      assert (Hl3 : p < length (procs s3)) by (simpl; rewrite upd_length; exact Hl2).
      set (s4 := set_pc A Tbl s3 p Closed).
      assert (E3 : stepT s3 p 0 = Some s4) by (unfold step; rewrite H3, Nat.ltb_irrefl; reflexivity).
      assert (H4 : nth_error (procs s4) p = Some Closed) by (apply set_pc_at; exact Hl3).
      assert (Hl4 : p < length (procs s4)) by (simpl; rewrite upd_length; exact Hl3).
      exists [Step p 0; Step p (length ser); Step p 0; Step p 0]. eexists. split.
      + simpl. rewrite E1, E2, E3. unfold step. rewrite H4. reflexivity.
      + apply set_pc_at. simpl. simpl in Hl4. exact Hl4.
    - (* empty serialisation: the second step already closes the file *)
      set (s3 := set_pc A Tbl s2 p Closed).
      assert (E2 : stepT s2 p 0 = Some s3) by (unfold step; rewrite H2, E0; reflexivity).
      assert (H3 : nth_error (procs s3) p = Some Closed) by (apply set_pc_at; exact Hl2).
      assert (Hl3 : p < length (procs s3)) by (simpl; rewrite upd_length; exact Hl2).
      exists [Step p 0; Step p 0; Step p 0]. eexists. split.
      + simpl. rewrite E1, E2. unfold step. rewrite H3. reflexivity.
      + apply set_pc_at. simpl. simpl in Hl3. exact Hl3.
  Qed.

  Lemma fresh_process_completes : forall (s : state A Tbl),
    exists tr s', runT s (Spawn :: tr) = Some s' /\
                  exists r, nth_error (procs s') (length (procs s)) = Some (Done r).
  Proof.
    intros s. set (p := length (procs s)).
    set (s0 := mkState A Tbl (final s) (temps s ++ [None]) (procs s ++ [Start])).
    assert (Hp0 : nth_error (procs s0) p = Some Start).
    { simpl. unfold p. rewrite nth_error_app2 by lia. now rewrite Nat.sub_diag. }
    assert (Hlen0 : p < length (procs s0)) by (simpl; rewrite app_length; simpl; unfold p; lia).
    destruct (final s) as [c|] eqn:Ef.
    - set (s1 := set_pc A Tbl s0 p Reading).
      assert (E1 : stepT s0 p 0 = Some s1).
      { unfold step. rewrite Hp0. simpl final. try rewrite Ef. reflexivity. }
      assert (H1 : nth_error (procs s1) p = Some Reading) by (apply set_pc_at; exact Hlen0).
      assert (Hl1 : p < length (procs s1)) by (simpl; rewrite upd_length; exact Hlen0).
      destruct (validate c) as [t|] eqn:Ev.
      + exists [Step p 0; Step p 0]. eexists. split.
        * simpl. rewrite ?Ef. fold s0. rewrite E1. unfold step. rewrite H1. unfold s1, s0. simpl. rewrite ?Ef. rewrite Ev. reflexivity.
        * exists t. apply set_pc_at. exact Hl1.
      + set (s2 := set_pc A Tbl s1 p Computing).
        assert (E2 : stepT s1 p 0 = Some s2).
        { unfold step. rewrite H1. unfold s1, s0. simpl. rewrite ?Ef. rewrite Ev. reflexivity. }
        destruct (writer_completes s2 p) as (tr & s' & Hr & Hd).
        * apply set_pc_at. exact Hl1.
        * simpl. rewrite upd_length. exact Hl1.
        * exists (Step p 0 :: Step p 0 :: tr), s'. split; [|eauto].
          simpl. rewrite ?Ef. fold s0. rewrite E1, E2. exact Hr.
    - set (s1 := set_pc A Tbl s0 p Computing).
      assert (E1 : stepT s0 p 0 = Some s1).
      { unfold step. rewrite Hp0. simpl final. try rewrite Ef. reflexivity. }
      destruct (writer_completes s1 p) as (tr & s' & Hr & Hd).
      + apply set_pc_at. exact Hlen0.
      + simpl. rewrite upd_length. exact Hlen0.
      + exists (Step p 0 :: tr), s'. split; [|eauto].
        simpl. rewrite ?Ef. fold s0. rewrite E1. exact Hr.
  Qed.
End CacheThms.

(** ** the protocol before commit 697662c, and why each half of the repair is needed *)
Definition lenient (c : list nat) : option nat := Some (length c).
  (* a parser that accepts any row-truncated file, as np.genfromtxt did *)

(** in-place writing + trusting reader: a writer killed after 2 of 4 bytes makes the next
    run return a wrong table (2 instead of 4) *)
Lemma old_protocol_witness :
  exists tr s, run nat nat 4 [0; 1; 2; 3] lenient false (init nat nat None) tr = Some s /\
               nth_error (procs s) 1 = Some (Done 2) /\ 2 <> 4.
Proof.
  exists [Spawn; Step 0 0; Step 0 0; Step 0 2; Kill 0; Spawn; Step 1 0; Step 1 0].
  eexists. split; [vm_compute; reflexivity|]. split; [reflexivity|discriminate].
Qed.

(** temp file + rename alone does not help against a truncated file left by an older
    version if the reader does not validate *)
Lemma unvalidated_legacy_witness :
  exists tr s, run nat nat 4 [0; 1; 2; 3] lenient true (init nat nat (Some [0; 1])) tr = Some s /\
               nth_error (procs s) 0 = Some (Done 2) /\ 2 <> 4.
Proof.
  exists [Spawn; Step 0 0; Step 0 0].
  eexists. split; [vm_compute; reflexivity|]. split; [reflexivity|discriminate].
Qed.

(** a concrete interleaving of two writers, a crash and a reader in the evaluated instance *)
Lemma cache_example :
  crun 5 None [Spawn; Step 0 0; Step 0 0; Step 0 2; Spawn; Step 1 0; Step 0 2; Kill 0;
               Step 1 0; Step 1 5; Step 1 1; Step 1 0; Spawn; Step 2 0; Step 2 0]
  = Some (Some (5, true), [Some 4; None; None], [99; 5; 5]).
Proof. vm_compute. reflexivity. Qed.
