(** * Facts about the site-time model (C31), over the reals *)
From Coq Require Import List Bool Reals Lra PeanoNat QArith.
From TsdateV Require Import lib.Num model.SiteTime.
Import ListNotations.
Open Scope R_scope.

Lemma isnan_R x : isnan RNum x = false.
Proof. unfold isnan. simpl. destruct (Reqb_true x x) as [_ H]. rewrite (H eq_refl). reflexivity. Qed.

(** one step keeps the larger of the two *)
Lemma step_some c a : step RNum (Some c) a = Some (Rmax c a).
Proof.
  unfold step. rewrite isnan_R. simpl. unfold Rmax.
  destruct (Rltb c a) eqn:E.
  - apply Rltb_true in E. destruct (Rle_dec c a); [reflexivity | lra].
  - apply Rltb_false in E. destruct (Rle_dec c a) as [H|H]; [f_equal; lra | reflexivity].
Qed.

Lemma fold_step_some (l : list R) : forall c,
  exists v, fold_left (step RNum) l (Some c) = Some v /\
            (v = c \/ In v l) /\ c <= v /\ (forall a, In a l -> a <= v).
Proof.
  induction l as [|a l IH]; intros c; cbn [fold_left].
  - exists c. repeat split; auto; try lra. intros a [].
  - rewrite step_some. destruct (IH (Rmax c a)) as [v [Hv [Hin [Hge Hall]]]].
    exists v. split; [exact Hv|]. pose proof (Rmax_l c a). pose proof (Rmax_r c a).
    repeat split.
    + destruct Hin as [Hin | Hin]; [| right; right; exact Hin].
      subst v. unfold Rmax. destruct (Rle_dec c a); [right; left; reflexivity | left; reflexivity].
    + lra.
    + intros b [Hb | Hb]; [subst b; lra | apply Hall; exact Hb].
Qed.

Lemma fold_left_map {A B C} (f : A -> B -> A) (g : C -> B) (l : list C) (a : A) :
  fold_left (fun x m => f x (g m)) l a = fold_left f (map g l) a.
Proof. revert a; induction l; simpl; auto. Qed.

(** the documented definition: the largest age over the site's mutations, raised to
    [min_time]; NaN ([None]) for a site without mutations *)
Theorem site_time_definition (sel : selection) (min_time : R) (t : nat -> R) ms :
  ms <> [] ->
  exists v, site_time RNum sqrt sel min_time t ms = Some v /\
    (v = min_time \/ In v (map (age RNum sqrt sel t) ms)) /\
    min_time <= v /\
    (forall a, In a (map (age RNum sqrt sel t) ms) -> a <= v).
Proof.
  intros Hne. unfold site_time. rewrite (fold_left_map (step RNum) (age RNum sqrt sel t)).
  destruct ms as [|m ms]; [contradiction|]. cbn [map fold_left]. change (step RNum None (age RNum sqrt sel t m)) with (Some (age RNum sqrt sel t m)).
  destruct (fold_step_some (map (age RNum sqrt sel t) ms) (age RNum sqrt sel t m)) as [v [Hv [Hin [Hge Hall]]]].
  rewrite Hv. unfold clamp. cbn [ltb RNum].
  destruct (Rltb v min_time) eqn:E.
  - apply Rltb_true in E. exists min_time. repeat split; auto; try lra.
    intros a [Ha | Ha]; [subst a; lra | specialize (Hall a Ha); lra].
  - apply Rltb_false in E. exists v. repeat split; auto.
    + right. destruct Hin as [Hin | Hin]; [left; symmetry; exact Hin | right; exact Hin].
    + intros a [Ha | Ha]; [subst a; lra | apply Hall; exact Ha].
Qed.

Theorem site_time_no_mutation (sel : selection) (min_time : R) (t : nat -> R) :
  site_time RNum sqrt sel min_time t [] = None.
Proof. reflexivity. Qed.

(** the age of a mutation, as documented *)
Theorem age_definition (t : nat -> R) node p :
  age RNum sqrt SelChild t (node, Some p) = t node /\
  age RNum sqrt SelParent t (node, Some p) = t p /\
  age RNum sqrt SelArithmetic t (node, Some p) = (t node + t p) / 2 /\
  age RNum sqrt SelGeometric t (node, Some p) = sqrt (t node * t p) /\
  (forall sel, age RNum sqrt sel t (node, None) = t node).
Proof.
  split; [reflexivity|]. split; [reflexivity|]. split.
  - simpl. unfold two. simpl. replace (1 + 1) with 2 by lra. reflexivity.
  - split; [reflexivity|]. intros []; reflexivity.
Qed.

(** unconstrained times: samples keep their time, other nodes take [mn] *)
Theorem unconstrained_source (times : list R) (is_sample : list bool) (mn : list (option R)) r :
  unconstrained_list RNum times is_sample mn = Some r ->
  length r = length times /\
  forall u, (u < length times)%nat ->
    (nth u is_sample false = true -> nth u r 0 = nth u times 0) /\
    (nth u is_sample true = false -> nth u mn None = Some (nth u r 0)).
Proof.
  revert is_sample mn r. induction times as [|x xs IH]; intros is_sample mn r H.
  - simpl in H. inversion H; subst. split; [reflexivity|]. intros u Hu. inversion Hu.
  - destruct is_sample as [|s ss]; [discriminate|]. destruct mn as [|m ms]; [discriminate|].
    simpl in H. destruct (unconstrained_list RNum xs ss ms) as [r'|] eqn:E; [|discriminate].
    destruct (IH ss ms r' E) as [Hlen Hu].
    destruct s.
    + inversion H; subst. split; [simpl; f_equal; exact Hlen|].
      intros [|u] Hlt; simpl.
      * split; [reflexivity | discriminate].
      * apply Hu. simpl in Hlt. apply PeanoNat.Nat.succ_lt_mono. exact Hlt.
    + destruct m as [v|]; [|discriminate]. inversion H; subst. split; [simpl; f_equal; exact Hlen|].
      intros [|u] Hlt; simpl.
      * split; [discriminate | reflexivity].
      * apply Hu. simpl in Hlt. apply PeanoNat.Nat.succ_lt_mono. exact Hlt.
Qed.

(** a non-sample node without an [mn] field makes the function fail (ValueError) *)
Theorem unconstrained_missing (times : list R) (is_sample : list bool) (mn : list (option R)) u :
  length is_sample = length times -> length mn = length times -> (u < length times)%nat ->
  nth u is_sample true = false -> nth u mn (Some 0) = None ->
  unconstrained_list RNum times is_sample mn = None.
Proof.
  revert is_sample mn u. induction times as [|x xs IH]; intros is_sample mn u H1 H2 Hu Hs Hm.
  - inversion Hu.
  - destruct is_sample as [|s ss]; [discriminate|]. destruct mn as [|m ms]; [discriminate|].
    simpl. destruct u as [|u].
    + simpl in Hs, Hm. subst s m. destruct (unconstrained_list RNum xs ss ms); reflexivity.
    + simpl in Hs, Hm, H1, H2, Hu.
      rewrite (IH ss ms u); auto. apply PeanoNat.Nat.succ_lt_mono. exact Hu.
Qed.

(** add_sampledata_times: the larger of the estimate and the bound *)
Theorem sampledata_max (e b : R) :
  exists v, sampledata_time RNum (Some e) b = Some v /\ (v = e \/ v = b) /\ e <= v /\ b <= v.
Proof.
  unfold sampledata_time, fmax. rewrite !isnan_R. simpl.
  destruct (Rltb e b) eqn:E.
  - apply Rltb_true in E. exists b. repeat split; auto; lra.
  - apply Rltb_false in E. exists e. repeat split; auto; lra.
Qed.

(** non-vacuity, over Q: two mutations at a site, one above a root *)
Definition ex_times : nat -> Q := fun u => match u with 0%nat => 0%Q | 1%nat => 3%Q | 2%nat => 7%Q | _ => 10%Q end.
Lemma example_nonvacuous :
  site_time QNum (fun x => x) SelArithmetic 1%Q ex_times [(0%nat, Some 1%nat); (1%nat, Some 2%nat); (3%nat, None)]
    = Some 10%Q /\
  site_time QNum (fun x => x) SelChild 1%Q ex_times [(0%nat, Some 1%nat)] = Some 1%Q /\
  site_time QNum (fun x => x) SelParent 1%Q ex_times [(0%nat, Some 1%nat); (1%nat, Some 2%nat)] = Some 7%Q /\
  site_time QNum (fun x => x) SelChild 1%Q ex_times [] = None.
Proof. vm_compute. repeat split; reflexivity. Qed.
