(** * The model of the prior against the explicit Kingman chain, by computation (C14).

    For every [2 <= k <= n <= 24] the exact rational value of the model
    ([ccv] / [tau_expect] on [QNum], linear log domain) equals the node-averaged
    variance / mean computed by [model/Kingman.v].  The bound is part of the statement. *)
From Coq Require Import List ZArith QArith Bool Arith Lia.
From TsdateV Require Import lib.Num model.Prior model.Kingman.
Import ListNotations.

Definition kingman_N0 : nat := 24.

Definition kingman_check (n : nat) : bool :=
  let km := kingman_table n in
  match ccv QNum (LinDom QNum) n with
  | Some cv =>
      forallb (fun k =>
                 match nth_error cv k with
                 | Some v => Qeq_bool v (snd (nth k km (0, 0)))
                 | None => false
                 end && Qeq_bool (tau_expect QNum k n) (fst (nth k km (0, 0))))
              (seq 2 (n - 1))
  | None => false
  end.

Lemma kingman_check_all : forallb kingman_check (seq 2 (kingman_N0 - 1)) = true.
Proof. vm_cast_no_check (eq_refl true). Qed.

Lemma kingman_bounded (n k : nat) : (2 <= k <= n)%nat -> (n <= kingman_N0)%nat ->
  exists v, ccv_at QNum (LinDom QNum) n k = Some v /\
            v == kingman_var n k /\ tau_expect QNum k n == kingman_mean n k.
Proof.
  intros Hk Hn.
  pose proof kingman_check_all as H. rewrite forallb_forall in H.
  specialize (H n). assert (Hin : In n (seq 2 (kingman_N0 - 1))) by (apply in_seq; lia).
  specialize (H Hin). unfold kingman_check in H. unfold ccv_at.
  destruct (ccv QNum (LinDom QNum) n) as [cv|]; [|discriminate].
  rewrite forallb_forall in H. specialize (H k).
  assert (Hk' : In k (seq 2 (n - 1))) by (apply in_seq; lia). specialize (H Hk').
  apply andb_true_iff in H. destruct H as [H1 H2].
  destruct (nth_error cv k) as [v|]; [|discriminate].
  exists v. split; [reflexivity|]. split.
  - apply Qeq_bool_iff in H1. exact H1.
  - apply Qeq_bool_iff in H2. exact H2.
Qed.

(** non-vacuity / concrete values *)
Lemma C14_example :
  ccv QNum (LinDom QNum) 5 = Some [0; 0; 1 # 18; 49 # 450; 67 # 450; 517 # 450] /\
  map (fun k => tau_expect QNum k 5) [2; 3; 4; 5]%nat = [1 # 5; 2 # 5; 3 # 5; 8 # 5] /\
  map (kingman_var 5) [2; 3; 4; 5]%nat = [1 # 18; 49 # 450; 67 # 450; 517 # 450] /\
  map (kingman_mean 5) [2; 3; 4; 5]%nat = [1 # 5; 2 # 5; 3 # 5; 8 # 5].
Proof. vm_compute. repeat split. Qed.
