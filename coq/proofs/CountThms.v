(** * C24: statements about rescaling._count_mutations / util.mutation_span_array in the
    form used by [props/C24.v], and the executable witness of finding K8. *)
From Coq Require Import List ZArith Bool Arith Lia Sorting.Permutation Sorting.Sorted.
From TsdateV Require Import lib.Tables model.Sweep model.BlockSingletons proofs.SweepFacts proofs.TablesFacts
  proofs.CountFacts.
Import ListNotations.
Open Scope Z_scope.

(** the edge above [c] at [x] as a tskit id *)
Definition edge_above_z (es : list edge) (x : Z) (c : nat) : Z :=
  match edge_above es x c with Some e => Z.of_nat e | None => -1 end.

Lemma C24_edge_above_unique : forall es, one_parent es -> forall x c e,
  edge_above es x c = Some e <->
  ((e < length es)%nat /\ covers (edge_at es e) x = true /\ echild (edge_at es e) = c).
Proof. intros es Hone x c e. split.
  - exact (edge_above_some es (fun u => u) O (fun _ => true) x c e).
  - intros [H1 [H2 H3]]. exact (edge_above_unique es (fun u => u) O (fun _ => true) Hone x c e H1 H2 H3). Qed.

Lemma C24_medge : forall es L sb mpos mnode nn M is_sample insq remq,
  edges_in_range L es -> one_parent es -> valid_index es insq remq -> 0 <= L ->
  (forall m, (m < M)%nat -> 0 <= mpos m) ->
  exists s, count_mutations es L sb mpos mnode nn is_sample M insq remq = Some s /\
    forall m, (m < M)%nat -> cm_medge s m = edge_above_z es (mpos m) (mnode m).
Proof. intros es L sb mpos mnode nn M is_sample insq remq H1 H2 H3 H4 H5.
  destruct (count_mutations_correct es L sb mpos mnode nn M is_sample insq remq H1 H2 H3 H4 H5) as [s [Hs [Hm _]]].
  exists s. split; [exact Hs|exact Hm]. Qed.

Lemma C24_counts : forall es L mpos mnode nn M is_sample insq remq,
  edges_in_range L es -> one_parent es -> valid_index es insq remq -> 0 <= L ->
  (forall m, (m < M)%nat -> 0 <= mpos m) ->
  exists s, count_mutations es L false mpos mnode nn is_sample M insq remq = Some s /\
    forall e, (e < length es)%nat ->
      cm_emuts s e = Z.of_nat (length (filter (fun m => edge_above_z es (mpos m) (mnode m) =? Z.of_nat e) (seq 0 M))) /\
      cm_espan s e = eright (edge_at es e) - eleft (edge_at es e).
Proof. intros es L mpos mnode nn M is_sample insq remq H1 H2 H3 H4 H5.
  destruct (count_mutations_correct es L false mpos mnode nn M is_sample insq remq H1 H2 H3 H4 H5) as [s [Hs [_ Hc]]].
  exists s. split; [exact Hs|]. intros e He. exact (Hc eq_refl e He). Qed.

(** the plain tallies do not depend on the sample mask *)
Lemma C24_plain_mask : forall es L mpos mnode nn M mask1 mask2 insq remq,
  edges_in_range L es -> one_parent es -> valid_index es insq remq -> 0 <= L ->
  (forall m, (m < M)%nat -> 0 <= mpos m) ->
  exists s1 s2, count_mutations es L false mpos mnode nn mask1 M insq remq = Some s1 /\
                count_mutations es L false mpos mnode nn mask2 M insq remq = Some s2 /\
    (forall m, (m < M)%nat -> cm_medge s1 m = cm_medge s2 m) /\
    (forall e, (e < length es)%nat -> cm_emuts s1 e = cm_emuts s2 e /\ cm_espan s1 e = cm_espan s2 e).
Proof. intros es L mpos mnode nn M mask1 mask2 insq remq H1 H2 H3 H4 H5.
  destruct (count_mutations_correct es L false mpos mnode nn M mask1 insq remq H1 H2 H3 H4 H5) as [s1 [Hs1 [Hm1 Hc1]]].
  destruct (count_mutations_correct es L false mpos mnode nn M mask2 insq remq H1 H2 H3 H4 H5) as [s2 [Hs2 [Hm2 Hc2]]].
  exists s1, s2. split; [exact Hs1|]. split; [exact Hs2|]. split.
  - intros m Hm. rewrite (Hm1 m Hm), (Hm2 m Hm). reflexivity.
  - intros e He. destruct (Hc1 eq_refl e He) as [A1 B1]. destruct (Hc2 eq_refl e He) as [A2 B2].
    rewrite A1, A2, B1, B2. split; reflexivity. Qed.

(** util.mutation_span_array fed with the edge tskit reports for each mutation ([mut.edge],
    assumed to be the edge above the mutation's node) gives the same two columns as the sweep *)
Lemma filter_map_length {A B} (f : A -> B) (p : B -> bool) l :
  length (filter p (map f l)) = length (filter (fun a => p (f a)) l).
Proof. induction l as [|a l IH]; [reflexivity|]. cbn. destruct (p (f a)); cbn; rewrite IH; reflexivity. Qed.

Lemma map_nth_seq {A} (d : A) : forall l, map (fun i => nth i l d) (seq 0 (length l)) = l.
Proof. induction l as [|a l IH] using rev_ind; [reflexivity|].
  rewrite app_length. cbn [length]. rewrite Nat.add_1_r, seq_S, map_app. cbn [map plus]. f_equal.
  - rewrite <- IH at 2. apply map_ext_in. intros i Hi. apply in_seq in Hi. apply app_nth1. lia.
  - rewrite nth_middle. reflexivity. Qed.

Lemma C24_span_array : forall es L mpos mnode nn M is_sample insq remq,
  edges_in_range L es -> one_parent es -> valid_index es insq remq -> 0 <= L ->
  (forall m, (m < M)%nat -> 0 <= mpos m) ->
  exists s, count_mutations es L false mpos mnode nn is_sample M insq remq = Some s /\
    mutation_span_array es (map (fun m => edge_above_z es (mpos m) (mnode m)) (seq 0 M)) =
      (to_list (length es) (cm_emuts s), to_list (length es) (cm_espan s)).
Proof. intros es L mpos mnode nn M is_sample insq remq H1 H2 H3 H4 H5.
  destruct (C24_counts es L mpos mnode nn M is_sample insq remq H1 H2 H3 H4 H5) as [s [Hs Hc]].
  exists s. split; [exact Hs|]. unfold mutation_span_array, to_list, edge_ids. f_equal.
  - apply map_ext_in. intros e He. apply in_seq in He. destruct (Hc e ltac:(lia)) as [A _]. rewrite A.
    rewrite filter_map_length. reflexivity.
  - rewrite <- (map_nth_seq dummy_edge es) at 1. rewrite map_map. apply map_ext_in.
    intros e He. apply in_seq in He. destruct (Hc e ltac:(lia)) as [_ B]. rewrite B. reflexivity. Qed.

(** ** Finding K8: with missing data (one leaf branch of an unphased individual absent over
    [[30, 60)]) the kernel counts the three singletons seen meanwhile into the NEXT block:
    block [[60, 100)] reports 4 singletons, the definition gives 1. *)
Definition k8_edges : list edge := [mkEdge 0 100 2 0; mkEdge 0 30 2 1; mkEdge 60 100 2 1].
Definition k8_muts : list (Z * nat) := [(40, 0%nat); (45, 0%nat); (50, 0%nat); (70, 1%nat)].
Definition k8_nind : list Z := [0; 0; -1].

Lemma C24_k8_witness :
  valid_tablesb 100 k8_edges [0; 1; 2]%nat [1; 0; 2]%nat = true /\
  block_singletons_list k8_edges [true] k8_nind k8_muts 100 [0; 1; 2]%nat [1; 0; 2]%nat
    = inr ([(0, Some 30); (4, Some 40)], [(1, 0); (0, 2)], [-1; -1; -1; 1]) /\
  ref_blocks k8_edges (of_list (-1) k8_nind) k8_muts 100 0
    = [(30, 0, [0; 1]%nat); (40, 1, [0; 2]%nat)].
Proof. vm_compute. repeat split. Qed.

Lemma C24_k8_refuted :
  exists es unphased nind muts L insq remq stats bedges mblock,
    valid_tablesb L es insq remq = true /\
    block_singletons_list es unphased nind muts L insq remq = inr (stats, bedges, mblock) /\
    map fst stats <> map (fun r => snd (fst r)) (ref_blocks es (of_list (-1) nind) muts L 0).
Proof. exists k8_edges, [true], k8_nind, k8_muts, 100, [0; 1; 2]%nat, [1; 0; 2]%nat,
    [(0, Some 30); (4, Some 40)], [(1, 0); (0, 2)], [-1; -1; -1; 1].
  destruct C24_k8_witness as [H1 [H2 H3]]. split; [exact H1|]. split; [exact H2|].
  rewrite H3. cbn. intro E. discriminate E. Qed.

(** repaired defect S1 (fix f3f9c6a): [individuals_block] used to be allocated with [num_edges]
    entries instead of [num_individuals]; on a valid table with more individuals than edges
    (unphased individual 2, two edges) the kernel indexed out of bounds.  Now an ordinary case:
    one block spanning the whole sequence with the one singleton. *)
Lemma C24_more_individuals_than_edges_example :
  valid_tablesb 10 [mkEdge 0 10 6 4; mkEdge 0 10 6 5] [0; 1]%nat [0; 1]%nat = true /\
  block_singletons_list [mkEdge 0 10 6 4; mkEdge 0 10 6 5] [false; false; true] [0; 0; 1; 1; 2; 2; -1]
                        [(3, 4%nat)] 10 [0; 1]%nat [0; 1]%nat = inr ([(1, Some 10)], [(0, 1)], [0]) /\
  ref_blocks [mkEdge 0 10 6 4; mkEdge 0 10 6 5] (of_list (-1) [0; 0; 1; 1; 2; 2; -1]) [(3, 4%nat)] 10 2
    = [(10, 1, [0; 1]%nat)].
Proof. vm_compute. repeat split. Qed.

(** non-vacuity of the count theorems: a two-tree example with a mutation above the root and
    one on an isolated stretch *)
Definition ex24_edges : list edge :=
  [mkEdge 0 6 3 0; mkEdge 0 10 3 1; mkEdge 6 10 4 0; mkEdge 2 10 4 2; mkEdge 0 10 4 3].
Definition ex24_muts : list (Z * nat) :=
  [(1, 2%nat); (3, 0%nat); (4, 3%nat); (7, 0%nat); (7, 4%nat); (8, 1%nat)].
Definition ex24_smp : list bool := [true; true; true; false; false].
Definition ex24_ins : list nat := [0; 1; 4; 3; 2]%nat.
Definition ex24_rem : list nat := [0; 1; 2; 3; 4]%nat.

Lemma C24_example :
  valid_tablesb 10 ex24_edges ex24_ins ex24_rem = true /\
  count_mutations_list ex24_edges 10 false ex24_muts ex24_smp ex24_ins ex24_rem
    = Some ([1; 1; 1; 0; 1], [6; 10; 4; 8; 10], [-1; 0; 4; 2; -1; 1]) /\
  count_mutations_list ex24_edges 10 true ex24_muts ex24_smp ex24_ins ex24_rem
    = Some ([1; 1; 1; 0; 2], [6; 10; 4; 8; 16], [-1; 0; 4; 2; -1; 1]) /\
  map (ref_mutation_edge ex24_edges) ex24_muts = [-1; 0; 4; 2; -1; 1] /\
  map (ref_edge_count_sb ex24_edges 5 (of_list false ex24_smp) ex24_muts) (edge_ids ex24_edges) = [1; 1; 1; 0; 2] /\
  map (ref_edge_span_sb ex24_edges 5 (of_list false ex24_smp)) (edge_ids ex24_edges) = [6; 10; 4; 8; 16].
Proof. vm_compute. repeat split. Qed.
