(** * C08: the front end is a function of the projection pi_full
    (edges, node times, sample BIT of the flags word, mutation placements). *)
From Coq Require Import List Arith Bool ZArith QArith.
From TsdateV Require Import lib.Num model.Inputs model.FrontEnd.
Import ListNotations.

Section Facts.
  Variable N : Num.
  Variable Junk : Type.
  Notation node := (node N Junk).
  Notation key := (fun n : node => (ntime n, is_sample n)).

  Lemma key_length (ns ns' : list node) : map key ns = map key ns' -> length ns = length ns'.
  Proof. intro H. rewrite <- (map_length key ns), H. apply map_length. Qed.

  Lemma samples_from_key : forall (ns ns' : list node), map key ns = map key ns' ->
    forall i, samples_from N Junk ns i = samples_from N Junk ns' i.
  Proof.
    induction ns as [|n r IH]; intros [|n' r'] H i; try discriminate H; [reflexivity|].
    cbn [map] in H. inversion H as [[Ht Hs Hr]]. cbn [samples_from]. rewrite Hs.
    rewrite (IH r' Hr (S i)). reflexivity.
  Qed.

  Lemma constraints_key : forall (ns ns' : list node), map key ns = map key ns' ->
    constraints ns = constraints ns'.
  Proof.
    induction ns as [|n r IH]; intros [|n' r'] H; try discriminate H; [reflexivity|].
    cbn [map] in H. inversion H as [[Ht Hs Hr]]. unfold constraints in *. cbn [map].
    rewrite (IH r' Hr). unfold constraint. rewrite Hs, Ht. reflexivity.
  Qed.

  Lemma unconstrained_key : forall (ns ns' : list node), map key ns = map key ns' ->
    forall (l : list bool),
    map (fun rn : bool * node => andb (fst rn) (negb (is_sample (snd rn)))) (combine l ns)
    = map (fun rn : bool * node => andb (fst rn) (negb (is_sample (snd rn)))) (combine l ns').
  Proof.
    induction ns as [|n r IH]; intros [|n' r'] H l; try discriminate H.
    - reflexivity.
    - cbn [map] in H. inversion H as [[Ht Hs Hr]]. destruct l as [|b l]; [reflexivity|].
      cbn [combine map fst snd]. rewrite Hs, (IH r' Hr l). reflexivity.
  Qed.

  Lemma terminals_key (ns ns' : list node) (es : list (edge N)) : map key ns = map key ns' ->
    terminals ns es = terminals ns' es.
  Proof.
    intro H. unfold terminals. rewrite (key_length _ _ H).
    rewrite (unconstrained_key _ _ H). reflexivity.
  Qed.

  Lemma front_end_factor (tb tb' : tables N Junk) (mu : T N) :
    pi_full tb = pi_full tb' -> front_end tb mu = front_end tb' mu.
  Proof.
    unfold pi_full, front_end. intro H. inversion H as [[He Hn Hp]].
    unfold samples. rewrite (samples_from_key _ _ Hn 0), (constraints_key _ _ Hn),
      (terminals_key _ _ _ Hn). reflexivity.
  Qed.

  (** the sample bit is all that is read of the flags word *)
  Lemma front_end_flag_bits (tb : tables N Junk) (mu : T N) (g : Z -> Z) (j : Junk -> Junk) :
    (forall f, Z.testbit (g f) 0 = Z.testbit f 0) ->
    front_end (mkTables (map (fun n : node => mkNode (g (nflags n)) (ntime n) (j (njunk n))) (t_nodes tb))
                        (t_edges tb) (t_sites tb) (t_muts tb) (j (t_rest tb))) mu
    = front_end tb mu.
  Proof.
    intro Hg. apply front_end_factor. unfold pi_full. cbn [t_nodes t_edges t_sites t_muts].
    rewrite map_map. f_equal. f_equal. apply map_ext. intro n. unfold is_sample. cbn [nflags ntime].
    rewrite Hg. reflexivity.
  Qed.
End Facts.

(** a front end that tested [flags == NODE_IS_SAMPLE] instead of the bit would NOT factor through pi_full *)
Definition constraint_eqmask {N Junk} (n : node N Junk) : T N * option (T N) :=
  if Z.eqb (nflags n) 1 then (ntime n, Some (ntime n)) else (zero N, None).

Lemma eqmask_refuted : exists (n n' : node QNum unit),
  (ntime n, is_sample n) = (ntime n', is_sample n') /\ constraint_eqmask n <> constraint_eqmask n'.
Proof.
  exists (@mkNode QNum unit 1%Z (inject_Z 2) tt), (@mkNode QNum unit 1048577%Z (inject_Z 2) tt). split; [reflexivity|].
  vm_compute. intro H. discriminate H.
Qed.

Local Open Scope nat_scope.
Definition nv_tb1 : tables QNum nat :=
  @mkTables QNum nat [@mkNode QNum nat 1%Z (inject_Z 0) 0; @mkNode QNum nat 1%Z (inject_Z 0) 0; @mkNode QNum nat 0%Z (inject_Z 1) 0]
           [@mkEdge QNum (inject_Z 0) (inject_Z 10) 2 0; @mkEdge QNum (inject_Z 0) (inject_Z 10) 2 1]
           [@mkSite QNum nat (inject_Z 3) 0] [@mkMut nat 0 1 0] 0.
Definition nv_tb2 : tables QNum nat :=
  @mkTables QNum nat [@mkNode QNum nat 1048577%Z (inject_Z 0) 5; @mkNode QNum nat 3%Z (inject_Z 0) 6; @mkNode QNum nat 2097152%Z (inject_Z 1) 7]
           [@mkEdge QNum (inject_Z 0) (inject_Z 10) 2 0; @mkEdge QNum (inject_Z 0) (inject_Z 10) 2 1]
           [@mkSite QNum nat (inject_Z 3) 9; @mkSite QNum nat (inject_Z 7) 4] [@mkMut nat 0 1 8] 3.
Lemma front_end_nonvacuous : exists (tb tb' : tables QNum nat),
  tb <> tb' /\ pi_full tb = pi_full tb' /\ t_nodes tb <> t_nodes tb' /\ t_sites tb <> t_sites tb'.
Proof. exists nv_tb1, nv_tb2. repeat split; try (intro H; discriminate H). Qed.
