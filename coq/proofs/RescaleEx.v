(** Concrete evaluations of the rescaling models over [Q] (non-vacuity examples).
    Input: samples 0,1,2 at time 0, node 3 at time 1, node 4 at time 2;
    edges 3->0, 3->1, 4->2, 4->3 with (mutations, span) rows (2,1) (1,1) (3,1) (1,1). *)
From Coq Require Import List QArith.
From TsdateV Require Import lib.Num model.Rescale.
Import ListNotations.
Open Scope Q_scope.

Definition ex_times : list Q := [0; 0; 0; 1; 2].
Definition ex_fixed : list bool := [true; true; true; false; false].
Definition ex_edges : list (nat * nat) := [(3, 0); (3, 1); (4, 2); (4, 3)]%nat.
Definition ex_liks : list (Q * Q) := [(2, 1); (1, 1); (3, 1); (1, 1)].

(** interval [0,1] is covered by 3->0, 3->1, 4->2 (rates 2 + 1 + 3/2, span 3);
    interval [1,2] by 4->2, 4->3 (rates 3/2 + 1, span 2) *)
Lemma ex_area :
  mutational_area QNum ex_times ex_liks ex_edges
  = ([9 # 2; 5 # 2], [3; 2], [1; 1], [0; 0; 0; 1; 2]%nat).
Proof. vm_compute. reflexivity. Qed.

Lemma ex_timescale :
  mutational_timescale QNum ex_times ex_liks ex_edges [0; 1; 2]%nat
  = Some ([0; 1; 2], [0; 3 # 2; 11 # 4]).
Proof. vm_compute. reflexivity. Qed.

(** two iterations, then the breakpoint recovery of ExpectationPropagation.rescale *)
Lemma ex_ep_breaks :
  ep_rescale_breaks QNum ex_times ex_fixed ex_liks ex_edges [[0; 1; 2]; [0; 2]]%nat
  = Some ([0; 2], [0; 137 # 50], [0; 0; 0; 411 # 275; 137 # 50]).
Proof. vm_compute. reflexivity. Qed.

(** posteriors with means 2 and 2 (shape 2, rate 1; shape 4, rate 2) and 1/2... through the
    map with breaks (0,1,2) -> (0, 9/2, 6); a quantile fit that always answers shape 4 *)
Lemma ex_posterior :
  piecewise_scale_posterior QNum (fun a q => a * q) (fun _ _ _ _ _ => Some (3, 1))
    [(0, 1); (0, 1); (0, 1); (1, 2); (3, 2)] ex_fixed [0; 1; 2] [0; 9 # 2; 6] (1 # 2) 10
  = Some [None; None; None; Some (3, 8 # 9); Some (3, 2 # 3)].
Proof. vm_compute. reflexivity. Qed.

(** a repeated rescaled break is rejected (the "Use fewer rescaling intervals" assertion) *)
Lemma ex_repeated_break :
  piecewise_scale_point_estimate QNum [1 # 2] [false] [0; 1; 2] [0; 1; 1] = None.
Proof. vm_compute. reflexivity. Qed.

(** rescale_tree_sequence: one iteration; mutations on edges 0 (3->0), 3 (4->3) and above the root 4 *)
Lemma ex_rescale_ts :
  rescale_ts_times QNum ex_times ex_fixed ex_liks ex_edges [[0; 1; 2]]%nat
    [(Some 0, 0); (Some 3, 3); (None, 4)]%nat
  = Some ([0; 0; 0; 3 # 2; 11 # 4], [3 # 4; 17 # 8; 11 # 4]).
Proof. vm_compute. reflexivity. Qed.
