(** Concrete evaluations of the changepoint models: non-vacuity examples and the witness
    that pruning is unsound as soon as some segment is infeasible. *)
From Coq Require Import List Arith ZArith QArith Reals Lra Lia Bool.
From TsdateV Require Import lib.Num model.Changepoint proofs.ChangepointFixed
  proofs.ChangepointPelt proofs.ChangepointPoisson.
Import ListNotations.

(** the deviance table (rounded to 1e-3) of counts = [5,5,5,3], offset = [4,1,3,2] with
    min_counts = min_offset = 3: segments [1,2) and [3,4) are infeasible *)
Definition f9_table (i j : nat) : ext Q :=
  match i, j with
  | 0, 1 => Fin (7769 # 1000) | 0, 2 => Fin (6137 # 1000) | 0, 3 => Fin (11142 # 1000)
  | 0, 4 => Fin (14840 # 1000)
  | 1, 3 => Fin (1674 # 1000) | 1, 4 => Fin (5897 # 1000)
  | 2, 3 => Fin (4892 # 1000) | 2, 4 => Fin (8480 # 1000)
  | _, _ => Inf
  end%nat%Q.

(** with pruning the recursion drops candidate 1 at j = 2 (its segment [1,2) is infeasible
    there) and ends with [0,2,4] (cost 14.617); without pruning it finds [0,1,4] (13.666) *)
Lemma pruning_with_infeasible_witness :
  pelt QNum f9_table 0%Q true 4 = Some [0; 2; 4]%nat /\
  pelt QNum f9_table 0%Q false 4 = Some [0; 1; 4]%nat /\
  (Qlt ((7769 # 1000) + (5897 # 1000)) ((6137 # 1000) + (8480 # 1000)))%Q.
Proof. split; [vm_compute; reflexivity|]. split; [vm_compute; reflexivity|]. reflexivity. Qed.

Open Scope R_scope.

Lemma C26_example :
  (* _fixed_changepoints: hypotheses hold and the model moves the first boundary back to 0 *)
  ((0 < 3)%nat /\ Forall (fun c => 0 <= c) [0; 0; 5; 1; 2] /\ 0 < Rsum [0; 0; 5; 1; 2] /\
   fixed_changepoints QNum [0; 0; 5 # 1; 1 # 1; 2 # 1]%Q 3 = Some [0; 2; 3; 5]%Z) /\
  (* _poisson_changepoints: hypotheses hold and a feasible segmentation exists *)
  (length [5; 5; 5; 3] = length [4; 1; 3; 2] /\ Forall (fun c => 0 < c) [4; 1; 3; 2] /\
   0 <= 0 /\ 0 <= 3 /\ (0 < 3 \/ Forall (fun c => 0 < c) [5; 5; 5; 3]) /\
   exists v, is_seg 0 4 (spec_cost [5; 5; 5; 3] [4; 1; 3; 2] 3 3) [0; 4]%nat v).
Proof.
  split.
  - split; [lia|]. split; [repeat constructor; lra|]. split; [unfold Rsum; simpl; lra|].
    vm_compute. reflexivity.
  - split; [reflexivity|]. split; [repeat constructor; lra|]. split; [lra|]. split; [lra|].
    split; [left; lra|].
    eexists. exists [4%nat]. eexists. split; [reflexivity|]. split; [reflexivity|]. split; [|reflexivity].
    eapply chc; [lia| |apply chn].
    unfold spec_cost, range_sum, Rsum. simpl.
    assert (Rleb 3 (4 + (1 + (3 + (2 + 0)))) = true) as -> by (apply Rleb_true; lra).
    assert (Rleb 3 (5 + (5 + (5 + (3 + 0)))) = true) as -> by (apply Rleb_true; lra).
    reflexivity.
Qed.
