(** * Facts about the discrete-time posterior rows and the [run()] models
    (model/Glue.v, Sections Discrete and Runs), over the reals. *)
From Coq Require Import String List Bool Arith ZArith Reals Lra Lia Permutation.
From TsdateV Require Import lib.Num model.Glue proofs.GlueMeta proofs.GlueFrame.
Import ListNotations.
Open Scope R_scope.

(** the mathematical sum *)
Fixpoint sumR (l : list R) : R := match l with [] => 0 | x :: r => x + sumR r end.

Section DiscreteR.
  (** numpy's summation, whatever its association order, is the sum over the reals *)
  Variable sum : list R -> R.
  Hypothesis sum_spec : forall l, sum l = sumR l.
  Variable expf : R -> R.

  Lemma sumR_map_div (l : list R) (s : R) : sumR (map (fun x => x / s) l) = sumR l / s.
  Proof. induction l as [|x l IH]; simpl; [unfold Rdiv; ring | rewrite IH; unfold Rdiv; ring]. Qed.

  Lemma sumR_nonneg (l : list R) : (forall x, In x l -> 0 <= x) -> 0 <= sumR l.
  Proof.
    induction l as [|x l IH]; simpl; intros H; [lra|].
    assert (0 <= x) by (apply H; now left).
    assert (0 <= sumR l) by (apply IH; intros y Hy; apply H; now right). lra.
  Qed.

  Lemma no_negative (l : list R) : (forall x, In x l -> 0 <= x) ->
    existsb (fun x => ltb RNum x (zero RNum)) l = false.
  Proof.
    induction l as [|x l IH]; intros H; [reflexivity|].
    cbn [existsb]. rewrite IH by (intros y Hy; apply H; now right).
    assert (0 <= x) by (apply H; now left).
    change (ltb RNum x (zero RNum)) with (Rltb x 0).
    destruct (Rltb x 0) eqn:E; [apply Rltb_true in E; lra | reflexivity].
  Qed.

  (** rows handed to [to_probabilities] that are non-negative with a non-zero total come back as
      probabilities: non-negative, summing to one *)
  Theorem rows_are_probabilities (row : list R) :
    (forall x, In x row -> 0 <= x) -> sumR row <> 0 ->
    exists p, to_probabilities RNum sum row = Some p /\
      length p = length row /\ (forall x, In x p -> 0 <= x) /\ sumR p = 1.
  Proof.
    intros Hn Hs. unfold to_probabilities. rewrite (no_negative row Hn).
    eexists. split; [reflexivity|]. rewrite sum_spec.
    assert (Hpos : 0 < sumR row) by (pose proof (sumR_nonneg row Hn); lra).
    split; [apply map_length|]. split.
    - intros x Hx. apply in_map_iff in Hx. destruct Hx as (y & <- & Hy). simpl.
      apply Rmult_le_pos; [now apply Hn | left; now apply Rinv_0_lt_compat].
    - simpl. rewrite sumR_map_div. now field.
  Qed.

  (** a negative entry trips the assertion *)
  Theorem negative_entry_asserts (row : list R) x :
    In x row -> x < 0 -> to_probabilities RNum sum row = None.
  Proof.
    intros Hin Hx. unfold to_probabilities.
    assert (E : existsb (fun x => ltb RNum x (zero RNum)) row = true).
    { apply existsb_exists. exists x. split; [exact Hin|]. simpl. now apply Rltb_true. }
    now rewrite E.
  Qed.

  (** *** mean and variance of a probability row *)
  Fixpoint dot (p t : list R) : R :=
    match p, t with x :: p', y :: t' => x * y + dot p' t' | _, _ => 0 end.
  Fixpoint dot2 (p t : list R) : R :=
    match p, t with x :: p', y :: t' => x * (y * y) + dot2 p' t' | _, _ => 0 end.

  Lemma sum_map2_mul (p t : list R) : sumR (map2 Rmult p t) = dot p t.
  Proof. revert t; induction p as [|x p IH]; intros [|y t]; simpl; try reflexivity. now rewrite IH. Qed.

  Lemma var_expand (m s : R) : forall (p t : list R), length p = length t ->
    sumR (map2 Rmult (map (fun y => (m - y) * (m - y)) t) (map (fun x => x / s) p))
    = (m * m * sumR p - 2 * m * dot p t + dot2 p t) / s.
  Proof.
    induction p as [|x p IH]; intros [|y t] L; simpl in *; try discriminate.
    - unfold Rdiv; ring.
    - rewrite IH by lia. unfold Rdiv; ring.
  Qed.

  (** for a row that sums to one: mn = sum p t, vr = sum p t^2 - mn^2 *)
  Theorem mean_var_formula (times probs : list R) :
    length probs = length times -> sumR probs = 1 ->
    mean_var_row RNum sum times probs
    = (dot probs times, dot2 probs times - dot probs times * dot probs times).
  Proof.
    intros L S. unfold mean_var_row. simpl. rewrite !sum_spec, S, sum_map2_mul.
    f_equal; [field|].
    rewrite (var_expand _ 1 probs times L), S. field.
  Qed.

  Theorem fixed_node_exact (times : list R) (t : R) :
    mean_var_node RNum sum times t None = (t, 0).
  Proof. reflexivity. Qed.

  (** *** the inside_outside run: every non-fixed row of the reported posterior is the
      to_probabilities image of something, hence (under the premises above) a probability row,
      and the metadata arrays are exactly the rows' mean_var / the node's own time *)
  Theorem io_posterior_rows sp grid post :
    io_posterior RNum sum expf sp grid = Some post ->
    length post = length grid /\
    forall i, match nth_error grid i, nth_error post i with
              | Some None, Some None => True
              | Some (Some r), Some (Some p) => posterior_row RNum sum expf sp r = Some p
              | None, None => True
              | _, _ => False
              end.
  Proof.
    revert post. induction grid as [|row grid IH]; intros post H; simpl in H.
    - inversion H. split; [reflexivity|]. intros [|i]; exact I.
    - destruct (io_posterior RNum sum expf sp grid) as [rest|] eqn:E; [|discriminate].
      destruct (IH rest eq_refl) as [L A].
      destruct row as [r|].
      + destruct (posterior_row RNum sum expf sp r) as [p|] eqn:P; [|discriminate].
        inversion H; subst post. split; [exact (f_equal S L)|]. intros [|i]; simpl; [exact P | apply A].
      + inversion H; subst post. split; [exact (f_equal S L)|]. intros [|i]; simpl; [exact I | apply A].
  Qed.

  Theorem io_metadata_is_mean_var times node_times post mnodes i t row :
    nth_error node_times i = Some t -> nth_error post i = Some row ->
    let res := io_result RNum sum times node_times post mnodes in
    nth_error (r_mean res) i = Some (fst (mean_var_node RNum sum times t row)) /\
    option_map (fun v => nth_error v i) (r_var res) = Some (Some (snd (mean_var_node RNum sum times t row))) /\
    r_mut_var res = None /\ r_mut_node res = mnodes.
  Proof.
    intros Ht Hr res. subst res. unfold io_result. cbn [r_mean r_var r_mut_var r_mut_node option_map].
    assert (X : forall (nt : list R) po j, nth_error nt j = Some t -> nth_error po j = Some row ->
              nth_error (map2 (fun t row => mean_var_node RNum sum times t row) nt po) j
              = Some (mean_var_node RNum sum times t row)).
    { induction nt as [|a nt IH]; intros [|b po] [|j] H1 H2; simpl in *; try discriminate.
      - inversion H1; inversion H2; reflexivity.
      - now apply IH. }
    pose proof (X node_times post i Ht Hr) as E.
    repeat split.
    - rewrite nth_error_map, E. reflexivity.
    - rewrite nth_error_map, E. reflexivity.
  Qed.
End DiscreteR.

(** ** The run() models: same source for metadata and fit object; maximization writes nothing *)
Section RunFacts.
  Variable N : Num.
  Notation T := (Num.T N).
  Variable ep : Type.
  Variable node_moments mutation_moments : ep -> list T * list T.
  Variable mutation_mapping : ep -> list nat.

  (** variational_gamma: the arrays handed to the metadata writer ARE the columns of
      node_posteriors() / mutation_posteriors() *)
  Theorem vgamma_same_source (st : ep) :
    let res := vgamma_result N ep node_moments mutation_moments mutation_mapping st in
    (r_mean res, r_var res)
      = (fst (vgamma_node_posteriors N ep node_moments st), Some (snd (vgamma_node_posteriors N ep node_moments st))) /\
    (r_mut_mean res, r_mut_var res)
      = (Some (fst (vgamma_mutation_posteriors N ep mutation_moments st)),
         Some (snd (vgamma_mutation_posteriors N ep mutation_moments st))).
  Proof. split; reflexivity. Qed.

  (** the discrete methods hand the input's mutation nodes through *)
  Theorem discrete_runs_keep_nodes sum times node_times post mean mnodes :
    r_mut_node (io_result N sum times node_times post mnodes) = mnodes /\
    r_mut_node (max_result N mean mnodes) = mnodes /\
    r_var (max_result N mean mnodes) = None /\ r_mut_var (max_result N mean mnodes) = None /\
    r_mut_var (io_result N sum times node_times post mnodes) = None.
  Proof. repeat split. Qed.
End RunFacts.

(** ** Through get_modified: what ends up in the metadata *)
Section Written.
  Variable N : Num.
  Notation T := (Num.T N).
  Variable other schema byte : Type.
  Variable decode : schema -> bytes byte -> dec T other.
  Variable encode : schema -> row T other -> @enc byte.
  Variable dns dms : schema.
  Variable state site indiv pop rest tunits pv : Type.
  Variable pv_string : string -> pv.
  Variable record : Type.
  Variable dump : list (string * pv) -> option record.
  Variable constrain_ages : list (nat * nat) -> list bool -> list T -> option (list T).
  Variable finish_mutations : list T -> list (edge_row N byte) -> list (mut_row N byte state) -> list (mut_row N byte state).
  Variable valid : @tables N schema byte state site indiv pop rest tunits record -> bool.
  Notation tables := (@tables N schema byte state site indiv pop rest tunits record).
  Notation get_mod := (get_modified N other schema byte decode encode dns dms state site indiv pop rest tunits
                         pv pv_string record dump constrain_ages finish_mutations valid).

  Lemma map3_md_nodes (a : list (node_row N byte)) (b : list T) (c : list (bytes byte)) :
    length b = length a -> length c = length a ->
    map n_md (map3 (fun r t md => mkNode (n_flags r) t (n_pop r) (n_ind r) md) a b c) = c.
  Proof.
    revert b c. induction a as [|x a IH]; intros [|y b] [|z c] L1 L2; simpl in *; try lia; try reflexivity.
    f_equal. apply IH; lia.
  Qed.

  (** node metadata: whenever the call returns without any warning and a write was requested,
      node i's metadata encodes a dict whose "mn" / "vr" are EXACTLY result.posterior_mean[i] /
      posterior_var[i] -- the unconstrained values the fit object reports, not the constrained
      node time *)
  Theorem node_metadata_is_result (c : config tunits pv) (tb : tables) (res : result N) out log var :
    constrain_keeps_length N constrain_ages ->
    c_set_metadata c <> Some false -> r_var res = Some var ->
    get_mod c tb res = Modified out log -> ~ In Warn log ->
    exists s', node_schema out = Some s' /\ length (nodes out) = length (nodes tb) /\
      forall i m v, nth_error (r_mean res) i = Some m -> nth_error var i = Some v ->
        exists nr r0, nth_error (nodes out) i = Some nr /\
          carries T other schema byte encode s' r0 m v (n_md nr).
  Proof.
    intros HC Hsm Hv H NW. unfold get_modified in H.
    destruct (set_time_metadata T other schema byte decode encode (c_set_metadata c)
                (mkMT (node_schema tb) (map n_md (nodes tb))) (r_mean res) (r_var res) dns) as [nmt log1|] eqn:E1;
      [|discriminate].
    destruct (set_time_metadata T other schema byte decode encode (c_set_metadata c)
                (mkMT (mut_schema tb) (map m_md (muts tb))) (opt_list (r_mut_mean res)) (r_mut_var res) dms)
      as [mmt log2|] eqn:E2; [|discriminate].
    destruct (constrain_ages _ _ (r_mean res)) as [t'|] eqn:E3; [|discriminate].
    match type of H with context [match ?p with Some _ => _ | None => Failed FailProvenance end] =>
      destruct p as [provs'|] eqn:E4; [|discriminate] end.
    match type of H with (if valid ?o then _ else _) = _ => destruct (valid o); [|discriminate] end.
    inversion H; subst out log; clear H. simpl.
    rewrite Hv in E1.
    assert (NW1 : ~ In Warn log1) by (intros X; apply NW; apply in_or_app; now left).
    destruct (all_rows_carry T other schema byte decode encode _ _ _ _ _ _ _ Hsm E1 NW1)
      as (s' & S & L & Hrows).
    simpl in L. rewrite map_length in L.
    pose proof (HC _ _ _ _ E3) as LT.
    (* lengths: mean = var = rows, from the assertion inside set_time_metadata *)
    assert (LM : length (r_mean res) = length (nodes tb)).
    { unfold set_time_metadata in E1.
      destruct (c_set_metadata c) as [[|]|]; try congruence;
      destruct (negb _) eqn:LL in E1; try discriminate;
      apply negb_false_iff, andb_true_iff in LL; destruct LL as [L1 L2];
      apply Nat.eqb_eq in L1, L2; simpl in L2; rewrite map_length in L2; lia. }
    exists s'. split; [exact S|]. split; [apply map3_length; lia|].
    intros i m v Hm Hvv. destruct (Hrows i m v Hm Hvv) as (outb & r0 & Hn & C).
    assert (MD : map n_md (map3 (fun r t md => mkNode (n_flags r) t (n_pop r) (n_ind r) md)
                                (nodes tb) t' (mrows nmt)) = mrows nmt)
      by (apply map3_md_nodes; lia).
    assert (Hn' : nth_error (map n_md (map3 (fun r t md => mkNode (n_flags r) t (n_pop r) (n_ind r) md)
                                (nodes tb) t' (mrows nmt))) i = Some outb) by (rewrite MD; exact Hn).
    rewrite nth_error_map in Hn'.
    destruct (nth_error (map3 _ (nodes tb) t' (mrows nmt)) i) as [nr|] eqn:En; [|discriminate].
    simpl in Hn'. inversion Hn'; subst outb. exists nr, r0. split; [reflexivity | exact C].
  Qed.

  (** maximization (no variance array): node metadata and schema are the input's *)
  Theorem no_variance_no_metadata (c : config tunits pv) (tb : tables) (res : result N) out log :
    constrain_keeps_length N constrain_ages ->
    length (r_mean res) = length (nodes tb) ->
    r_var res = None -> r_mut_var res = None ->
    get_mod c tb res = Modified out log ->
    node_schema out = node_schema tb /\ map n_md (nodes out) = map n_md (nodes tb) /\
    mut_schema out = mut_schema tb /\ log = [].
  Proof.
    intros HC LM Hv Hmv H. unfold get_modified in H. rewrite Hv, Hmv in H.
    rewrite !no_variance_untouched in H.
    destruct (constrain_ages _ _ (r_mean res)) as [t'|] eqn:E3; [|discriminate].
    match type of H with context [match ?p with Some _ => _ | None => Failed FailProvenance end] =>
      destruct p as [provs'|] eqn:E4; [|discriminate] end.
    match type of H with (if valid ?o then _ else _) = _ => destruct (valid o); [|discriminate] end.
    inversion H; subst out log; clear H. simpl.
    pose proof (HC _ _ _ _ E3) as LT.
    repeat split. apply map3_md_nodes; [lia | now rewrite map_length].
  Qed.
End Written.

(** ** Witnesses *)
From Coq Require Import QArith PrimFloat.
From TsdateV Require Import model.Constrain.

(** exact run over the rationals: a row proportional to (1, 2, 4) on the grid (0, 1, 2) *)
Definition qsum (l : list Q) : Q := fold_left (Num.add QNum) l 0%Q.
Lemma discrete_example :
  posterior_row QNum qsum (fun x => x) LinGrid [1; 2; 4]%Q = Some [1 # 7; 2 # 7; 4 # 7]%Q /\
  mean_var_row QNum qsum [0; 1; 2]%Q [1 # 7; 2 # 7; 4 # 7]%Q = (10 # 7, 26 # 49)%Q /\
  mean_var_node QNum qsum [0; 1; 2]%Q (5 # 1)%Q None = (5 # 1, 0)%Q.
Proof. vm_compute. repeat split. Qed.

(** K9 at the metadata level: the codec stores the dict itself, set_metadata=True, two mutations at
    one site with posterior means 5 (row 0, on sample 0) and 9 (row 1, above the root): row 0 of
    the output carries mn = 9 = mutation_posteriors()[1] *)
Definition wrow := row float Z.
Definition w_decode (_ : bool) (b : list wrow) : dec float Z :=
  match b with r :: _ => DecRow r | [] => DecRow [] end.
Definition w_encode (_ : bool) (r : wrow) : @enc wrow := EncOk [r].
Definition wNode := @mkNode FNum wrow.
Definition wEdge := @mkEdge FNum wrow.
Definition wMut := @mkMut FNum wrow Z.
Definition w_tables : @tables FNum bool wrow Z Z unit unit unit Z (list (string * Z)) :=
  @mkTables FNum bool wrow Z Z unit unit unit Z (list (string * Z)) 10%float 1%Z
    [wNode 1%Z 0%float (-1)%Z (-1)%Z []; wNode 1%Z 0%float (-1)%Z (-1)%Z []; wNode 0%Z 1%float (-1)%Z (-1)%Z []]
    None
    [wEdge 0%float 10%float 2%nat 0%nat []; wEdge 0%float 10%float 2%nat 1%nat []]
    [0%Z]
    [wMut 0%nat 0%nat (Some 0.5%float) 7%Z None []; wMut 0%nat 2%nat (Some 1%float) 8%Z None []]
    None [] tt tt [] tt.
Definition w_result : @result FNum :=
  @mkResult FNum [0%float; 0%float; 2%float] (Some [0%float; 0%float; 1%float])
           (Some [5%float; 9%float]) (Some [1%float; 1%float]) [0%nat; 2%nat].
Definition w_out :=
  get_modified FNum Z bool wrow w_decode w_encode true true Z Z unit unit unit Z Z zstr
    (list (string * Z)) zdump (fun es fx t => constrain_list FNum 1e-8%float fx 0 es t)
    (fun _ _ m => m) (fun _ => true) (mkConfig 1%Z (Some true) "variational_gamma"%string None) w_tables w_result.

Lemma metadata_rows_witness :
  match w_out with
  | Modified out _ =>
      map (fun m : mut_row FNum wrow Z => (m_state m, m_md m)) (muts out)
      = [(8%Z, [[("mn"%string, VNum 9%float); ("vr"%string, VNum 1%float)]]);
         (7%Z, [[("mn"%string, VNum 5%float); ("vr"%string, VNum 1%float)]])]
  | Failed _ => False
  end.
Proof. vm_compute. reflexivity. Qed.
