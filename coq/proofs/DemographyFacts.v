(** * [PopulationSizeHistory] over the reals (C17): the change of time measure is the integral
    of 1/measure (telescoping of [step]), strictly increasing, Lipschitz, and the two maps of a
    history are mutually inverse. *)
From Coq Require Import List Arith Lia Bool Reals Lra Psatz.
From TsdateV Require Import lib.Num model.Rescale model.Demography proofs.RescalePW proofs.RescaleArea.
Import ListNotations.
Open Scope R_scope.

Ltac tnorm := change (T RNum) with R in *.

(** ** reference semantics: the integral of 1/measure from the first break to t, and the
    images of the breaks *)
Fixpoint integ (brk tm : list R) (t : R) : R :=
  match brk, tm with
  | b0 :: ((b1 :: _) as brk'), m0 :: tm' =>
      if Rle_dec b1 t then (b1 - b0) / m0 + integ brk' tm' t else (t - b0) / m0
  | b0 :: _, m0 :: _ => (t - b0) / m0
  | _, _ => 0
  end.

Fixpoint cbreaks (c0 : R) (brk tm : list R) : list R :=
  match brk, tm with
  | b0 :: ((b1 :: _) as brk'), m0 :: tm' => c0 :: cbreaks (c0 + (b1 - b0) / m0) brk' tm'
  | _ :: _, _ :: _ => [c0]
  | _, _ => []
  end.

Lemma integ_cons2 b0 b1 brk m0 tm t :
  integ (b0 :: b1 :: brk) (m0 :: tm) t
  = if Rle_dec b1 t then (b1 - b0) / m0 + integ (b1 :: brk) tm t else (t - b0) / m0.
Proof. reflexivity. Qed.

Lemma cbreaks_cons2 c0 b0 b1 brk m0 tm :
  cbreaks c0 (b0 :: b1 :: brk) (m0 :: tm) = c0 :: cbreaks (c0 + (b1 - b0) / m0) (b1 :: brk) tm.
Proof. reflexivity. Qed.

Definition allpos (l : list R) : Prop := forall m, In m l -> 0 < m.

Lemma allpos_cons m l : allpos (m :: l) -> 0 < m /\ allpos l.
Proof. intro H. split; [apply H; left; reflexivity|intros x Hx; apply H; right; exact Hx]. Qed.

Lemma cbreaks_length : forall brk tm c0, length brk = length tm -> length (cbreaks c0 brk tm) = length brk.
Proof.
  induction brk as [|b0 brk IH]; intros tm c0 Hl; [reflexivity|].
  destruct tm as [|m0 tm]; [discriminate|]. destruct brk as [|b1 brk]; [reflexivity|].
  rewrite cbreaks_cons2. cbn [length]. rewrite IH; [reflexivity|cbn in *; lia].
Qed.

Lemma cbreaks_first c0 brk tm : length brk = length tm -> brk <> [] -> nth 0 (cbreaks c0 brk tm) 0 = c0.
Proof. destruct brk as [|b0 [|b1 brk]], tm as [|m0 tm]; intros Hl Hn; try discriminate; try congruence; reflexivity. Qed.

Lemma cbreaks_hd c1 b1 brk tm : length (b1 :: brk) = length tm ->
  exists r, cbreaks c1 (b1 :: brk) tm = c1 :: r.
Proof. destruct tm as [|m1 tm]; [discriminate|]. intros _. destruct brk; cbn; eauto. Qed.

Lemma cbreaks_incr : forall brk tm c0, length brk = length tm -> incr brk -> allpos tm ->
  incr (cbreaks c0 brk tm).
Proof.
  induction brk as [|b0 brk IH]; intros tm c0 Hl Hi Hp; [exact I|].
  destruct tm as [|m0 tm]; [discriminate|]. destruct brk as [|b1 brk]; [exact I|].
  rewrite cbreaks_cons2. destruct Hi as [Hb Hi]. destruct (allpos_cons _ _ Hp) as [Hm Hp'].
  assert (Hl' : length (b1 :: brk) = length tm) by (cbn in *; lia).
  specialize (IH tm (c0 + (b1 - b0) / m0) Hl' Hi Hp').
  destruct tm as [|m1 tm]; [discriminate|].
  destruct brk as [|b2 brk].
  - cbn. split; [|exact I]. assert (0 < (b1 - b0) / m0) by (apply Rdiv_lt_0_compat; lra). lra.
  - rewrite cbreaks_cons2 in *. split; [|exact IH].
    assert (0 < (b1 - b0) / m0) by (apply Rdiv_lt_0_compat; lra). lra.
Qed.

Lemma integ_nonneg : forall brk tm t, length brk = length tm -> incr brk -> allpos tm ->
  nth 0 brk 0 <= t -> 0 <= integ brk tm t.
Proof.
  induction brk as [|b0 brk IH]; intros tm t Hl Hi Hp Ht; [cbn; lra|].
  destruct tm as [|m0 tm]; [discriminate|]. destruct (allpos_cons _ _ Hp) as [Hm Hp'].
  cbn [nth] in Ht. destruct brk as [|b1 brk].
  - cbn. apply Rmult_le_pos; [lra|]. left. apply Rinv_0_lt_compat. exact Hm.
  - rewrite integ_cons2. destruct Hi as [Hb Hi]. destruct (Rle_dec b1 t) as [H1|H1].
    + assert (0 <= integ (b1 :: brk) tm t) by (apply IH; [cbn in *; lia|exact Hi|exact Hp'|exact H1]).
      assert (0 < (b1 - b0) / m0) by (apply Rdiv_lt_0_compat; lra). lra.
    + apply Rmult_le_pos; [lra|]. left. apply Rinv_0_lt_compat. exact Hm.
Qed.

Lemma integ_first : forall brk tm, length brk = length tm -> incr brk -> integ brk tm (nth 0 brk 0) = 0.
Proof.
  intros [|b0 [|b1 brk]] [|m0 tm] Hl Hi; try discriminate; try reflexivity; cbn [nth].
  - cbn. unfold Rdiv. rewrite Rminus_diag_eq by reflexivity. ring.
  - rewrite integ_cons2. destruct Hi as [Hb _]. destruct (Rle_dec b1 b0); [lra|].
    unfold Rdiv. rewrite Rminus_diag_eq by reflexivity. ring.
Qed.

Lemma integ_strict : forall brk tm x y, length brk = length tm -> brk <> [] -> incr brk -> allpos tm ->
  nth 0 brk 0 <= x -> x < y -> integ brk tm x < integ brk tm y.
Proof.
  induction brk as [|b0 brk IH]; intros tm x y Hl Hne Hi Hp Hx Hxy; [congruence|].
  destruct tm as [|m0 tm]; [discriminate|]. destruct (allpos_cons _ _ Hp) as [Hm Hp'].
  cbn [nth] in Hx. assert (Him : 0 < / m0) by (apply Rinv_0_lt_compat; exact Hm).
  destruct brk as [|b1 brk].
  - cbn. unfold Rdiv. apply Rmult_lt_compat_r; lra.
  - rewrite !integ_cons2. destruct Hi as [Hb Hi].
    assert (Hl' : length (b1 :: brk) = length tm) by (cbn in *; lia).
    destruct (Rle_dec b1 x) as [H1|H1], (Rle_dec b1 y) as [H2|H2]; try lra.
    + assert (integ (b1 :: brk) tm x < integ (b1 :: brk) tm y)
        by (apply IH; [exact Hl'|discriminate|exact Hi|exact Hp'|exact H1|exact Hxy]). lra.
    + assert (0 <= integ (b1 :: brk) tm y) by (apply integ_nonneg; [exact Hl'|exact Hi|exact Hp'|exact H2]).
      unfold Rdiv. assert ((x - b0) * / m0 < (b1 - b0) * / m0) by (apply Rmult_lt_compat_r; lra). lra.
    + unfold Rdiv. apply Rmult_lt_compat_r; lra.
Qed.

(** Lipschitz constant: the largest rate 1/measure *)
Fixpoint rmax (tm : list R) : R := match tm with [] => 0 | m :: r => Rmax (/ m) (rmax r) end.

Lemma rmax_nonneg tm : 0 <= rmax tm.
Proof. induction tm as [|m r IH]; cbn; [lra|]. eapply Rle_trans; [exact IH|apply Rmax_r]. Qed.

Lemma integ_lipschitz : forall brk tm x y, length brk = length tm -> brk <> [] -> incr brk -> allpos tm ->
  nth 0 brk 0 <= x -> x <= y -> integ brk tm y - integ brk tm x <= rmax tm * (y - x).
Proof.
  induction brk as [|b0 brk IH]; intros tm x y Hl Hne Hi Hp Hx Hxy; [congruence|].
  destruct tm as [|m0 tm]; [discriminate|]. destruct (allpos_cons _ _ Hp) as [Hm Hp'].
  cbn [nth] in Hx. assert (Him : 0 < / m0) by (apply Rinv_0_lt_compat; exact Hm).
  cbn [rmax]. set (L' := rmax tm). assert (HL' : 0 <= L') by apply rmax_nonneg.
  assert (HsL : / m0 <= Rmax (/ m0) L') by apply Rmax_l.
  assert (HLL : L' <= Rmax (/ m0) L') by apply Rmax_r.
  destruct brk as [|b1 brk].
  - cbn [integ]. unfold Rdiv.
    assert (/ m0 * (y - x) <= Rmax (/ m0) L' * (y - x)) by (apply Rmult_le_compat_r; lra). nra.
  - rewrite !integ_cons2. destruct Hi as [Hb Hi].
    assert (Hl' : length (b1 :: brk) = length tm) by (cbn in *; lia).
    destruct (Rle_dec b1 x) as [H1|H1], (Rle_dec b1 y) as [H2|H2]; try lra.
    + assert (integ (b1 :: brk) tm y - integ (b1 :: brk) tm x <= L' * (y - x))
        by (apply IH; [exact Hl'|discriminate|exact Hi|exact Hp'|exact H1|exact Hxy]).
      assert (L' * (y - x) <= Rmax (/ m0) L' * (y - x)) by (apply Rmult_le_compat_r; lra). lra.
    + assert (E : integ (b1 :: brk) tm b1 = 0) by (apply (integ_first (b1 :: brk) tm Hl' Hi)).
      assert (integ (b1 :: brk) tm y - integ (b1 :: brk) tm b1 <= L' * (y - b1))
        by (apply IH; [exact Hl'|discriminate|exact Hi|exact Hp'|cbn; lra|exact H2]).
      rewrite E in H.
      assert (L' * (y - b1) <= Rmax (/ m0) L' * (y - b1)) by (apply Rmult_le_compat_r; lra).
      assert (/ m0 * (b1 - x) <= Rmax (/ m0) L' * (b1 - x)) by (apply Rmult_le_compat_r; lra).
      unfold Rdiv. nra.
    + unfold Rdiv. assert (/ m0 * (y - x) <= Rmax (/ m0) L' * (y - x)) by (apply Rmult_le_compat_r; lra). nra.
Qed.

(** ** the two integrals of a history are mutually inverse *)
Lemma inv_allpos tm : allpos tm -> allpos (map (fun m => 1 / m) tm).
Proof. intros H x Hx. apply in_map_iff in Hx. destruct Hx as (m & <- & Hm).
  apply Rdiv_lt_0_compat; [lra|apply H; exact Hm]. Qed.

Lemma integ_inverse : forall brk tm c0 t, length brk = length tm -> brk <> [] -> incr brk -> allpos tm ->
  nth 0 brk 0 <= t ->
  integ (cbreaks c0 brk tm) (map (fun m => 1 / m) tm) (c0 + integ brk tm t) = t - nth 0 brk 0.
Proof.
  induction brk as [|b0 brk IH]; intros tm c0 t Hl Hne Hi Hp Ht; [congruence|].
  destruct tm as [|m0 tm]; [discriminate|]. destruct (allpos_cons _ _ Hp) as [Hm Hp'].
  cbn [nth] in *. destruct brk as [|b1 brk].
  - destruct tm; [|discriminate]. cbn. field. lra.
  - destruct Hi as [Hb Hi]. assert (Hl' : length (b1 :: brk) = length tm) by (cbn in *; lia).
    rewrite cbreaks_cons2, integ_cons2. cbn [map].
    destruct tm as [|m1 tm]; [discriminate|].
    destruct (cbreaks_hd (c0 + (b1 - b0) / m0) b1 brk (m1 :: tm) Hl') as [r Er].
    rewrite Er, integ_cons2, <- Er.
    destruct (Rle_dec b1 t) as [H1|H1].
    + assert (Hn : 0 <= integ (b1 :: brk) (m1 :: tm) t) by (apply integ_nonneg; [exact Hl'|exact Hi|exact Hp'|exact H1]).
      destruct (Rle_dec (c0 + (b1 - b0) / m0) (c0 + ((b1 - b0) / m0 + integ (b1 :: brk) (m1 :: tm) t))) as [_|Hc']; [|lra].
      replace (c0 + ((b1 - b0) / m0 + integ (b1 :: brk) (m1 :: tm) t))
        with ((c0 + (b1 - b0) / m0) + integ (b1 :: brk) (m1 :: tm) t) by ring.
      rewrite (IH (m1 :: tm) (c0 + (b1 - b0) / m0) t Hl' ltac:(discriminate) Hi Hp' H1). cbn [nth]. field. lra.
    + assert ((t - b0) / m0 < (b1 - b0) / m0).
      { unfold Rdiv. apply Rmult_lt_compat_r; [apply Rinv_0_lt_compat; exact Hm|lra]. }
      destruct (Rle_dec (c0 + (b1 - b0) / m0) (c0 + (t - b0) / m0)) as [Hc'|_]; [lra|]. field. lra.
Qed.

(** the coalescent history of (cbreaks, 1/tm) is the original one *)
Lemma cbreaks_inverse : forall brk tm c0, length brk = length tm -> allpos tm ->
  cbreaks (nth 0 brk 0) (cbreaks c0 brk tm) (map (fun m => 1 / m) tm) = brk.
Proof.
  induction brk as [|b0 brk IH]; intros tm c0 Hl Hp; [destruct tm; reflexivity|].
  destruct tm as [|m0 tm]; [discriminate|]. destruct (allpos_cons _ _ Hp) as [Hm Hp'].
  destruct brk as [|b1 brk]; [reflexivity|].
  assert (Hl' : length (b1 :: brk) = length tm) by (cbn in *; lia).
  destruct tm as [|m1 tm]; [discriminate|].
  rewrite cbreaks_cons2. cbn [map nth].
  specialize (IH (m1 :: tm) (c0 + (b1 - b0) / m0) Hl' Hp'). cbn [nth] in IH.
  assert (Hc : exists c1 r, cbreaks (c0 + (b1 - b0) / m0) (b1 :: brk) (m1 :: tm) = c1 :: r /\ c1 = c0 + (b1 - b0) / m0).
  { destruct brk as [|b2 brk]; [exists (c0 + (b1 - b0) / m0), []|
      exists (c0 + (b1 - b0) / m0), (cbreaks (c0 + (b1 - b0) / m0 + (b2 - b1) / m1) (b2 :: brk) tm)];
    split; reflexivity. }
  destruct Hc as (c1 & r & Ec & E1). rewrite Ec in *. cbn [map] in *.
  rewrite cbreaks_cons2. f_equal.
  replace (b0 + (c1 - c0) / (1 / m0)) with b1 by (rewrite E1; field; lra). exact IH.
Qed.

(** ** the model computes these *)
Lemma cumsum1_nth : forall (l : list R) k, (k < length l)%nat -> nth k (cumsum1 RNum l) 0 = Rsum (firstn (S k) l).
Proof.
  intros [|x r] k Hk; [cbn in Hk; lia|]. cbn [cumsum1]. destruct k as [|k].
  - cbn. lra.
  - cbn [nth]. tnorm. rewrite cumsum_from_nth by (cbn in Hk; lia).
    change (firstn (S (S k)) (x :: r)) with (x :: firstn (S k) r). reflexivity.
Qed.

Lemma nth_map_seq {A} (f : nat -> A) n k d : (k < n)%nat -> nth k (map f (seq 0 n)) d = f k.
Proof.
  intro Hk. rewrite (nth_indep _ d (f O)) by (rewrite map_length, seq_length; exact Hk).
  rewrite (map_nth f), seq_nth by exact Hk. reflexivity.
Qed.

Lemma step_incs_length (brk tm : list R) : length (step_incs RNum brk tm) = (length brk - 1)%nat.
Proof. unfold step_incs. rewrite map_length, seq_length. reflexivity. Qed.

Lemma step_incs_nth (brk tm : list R) k : (S k < length brk)%nat ->
  nth k (step_incs RNum brk tm) 0 = nth (S k) brk 0 * (1 / nth k tm 0 - 1 / nth (S k) tm 0).
Proof.
  intro Hk. unfold step_incs. rewrite nth_map_seq by (tnorm; lia). reflexivity.
Qed.

Lemma Rsum_firstn_S' (l : list R) m : (m < length l)%nat ->
  Rsum (firstn (S m) l) = Rsum (firstn m l) + nth m l 0.
Proof.
  revert m. induction l as [|x r IH]; intros m Hm; [cbn in Hm; lia|].
  destruct m as [|m]; [cbn; lra|].
  change (firstn (S (S m)) (x :: r)) with (x :: firstn (S m) r).
  change (firstn (S m) (x :: r)) with (x :: firstn m r).
  unfold Rsum in *. cbn [fold_right nth]. rewrite IH by (cbn in Hm; lia). lra.
Qed.

(** step[k+1] = step[k] + inc[k] *)
Lemma steps_succ (brk tm : list R) k : (S k < length brk)%nat ->
  nth (S k) (steps RNum brk tm) 0 = nth k (steps RNum brk tm) 0 + nth k (step_incs RNum brk tm) 0.
Proof.
  intro Hk. unfold steps. cbn [nth].
  assert (Hl : (k < length (step_incs RNum brk tm))%nat) by (rewrite step_incs_length; lia).
  rewrite cumsum1_nth by exact Hl. rewrite Rsum_firstn_S' by exact Hl.
  destruct k as [|k]; [unfold Rsum; cbn [firstn fold_right nth RNum zero]; reflexivity|].
  cbn [nth]. rewrite cumsum1_nth by (tnorm; lia). reflexivity.
Qed.

Lemma cbreaks_succ : forall brk tm c0 k, length brk = length tm -> (S k < length brk)%nat ->
  nth (S k) (cbreaks c0 brk tm) 0
  = nth k (cbreaks c0 brk tm) 0 + (nth (S k) brk 0 - nth k brk 0) / nth k tm 0.
Proof.
  induction brk as [|b0 brk IH]; intros tm c0 k Hl Hk; [cbn in Hk; lia|].
  destruct tm as [|m0 tm]; [discriminate|]. destruct brk as [|b1 brk]; [cbn in Hk; lia|].
  assert (Hl' : length (b1 :: brk) = length tm) by (cbn in *; lia).
  rewrite cbreaks_cons2. destruct k as [|k].
  - cbn [nth]. rewrite (cbreaks_first _ (b1 :: brk) tm Hl') by discriminate. reflexivity.
  - change (nth (S (S k)) (c0 :: ?l) 0) with (nth (S k) l 0).
    change (nth (S k) (c0 :: ?l) 0) with (nth k l 0).
    rewrite (IH tm _ k Hl') by (cbn [length] in *; lia). reflexivity.
Qed.

(** telescoping of [step]: breakpoints[k] / measure[k] + step[k] is the integral up to break k *)
Lemma steps_telescope (brk tm : list R) : length brk = length tm -> brk <> [] -> nth 0 brk 0 = 0 ->
  allpos tm ->
  forall k, (k < length brk)%nat ->
    nth k brk 0 * 1 / nth k tm 0 + nth k (steps RNum brk tm) 0 = nth k (cbreaks 0 brk tm) 0.
Proof.
  intros Hl Hne H0 Hp k. induction k as [|k IH]; intro Hk.
  - rewrite H0, (cbreaks_first 0 brk tm Hl Hne). unfold steps. cbn [nth RNum zero]. unfold Rdiv. ring.
  - rewrite steps_succ by exact Hk. rewrite step_incs_nth by exact Hk.
    rewrite (cbreaks_succ brk tm 0 k Hl Hk). rewrite <- IH by lia.
    assert (0 < nth k tm 0) by (apply Hp, nth_In; lia).
    assert (0 < nth (S k) tm 0) by (apply Hp, nth_In; lia).
    field. lra.
Qed.

(** index form of [integ] *)
Lemma integ_index : forall brk tm c0 t, length brk = length tm -> brk <> [] -> nth 0 brk 0 <= t ->
  let i := widx RNum brk t in
  c0 + integ brk tm t = nth i (cbreaks c0 brk tm) 0 + (t - nth i brk 0) / nth i tm 0.
Proof.
  induction brk as [|b0 brk IH]; intros tm c0 t Hl Hne Ht; [congruence|].
  destruct tm as [|m0 tm]; [discriminate|]. cbn [nth] in Ht.
  destruct brk as [|b1 brk].
  - unfold widx. rewrite ssr_cons. destruct (Rle_dec b0 t); [|lra]. cbn. reflexivity.
  - assert (Hl' : length (b1 :: brk) = length tm) by (cbn in *; lia).
    rewrite integ_cons2, cbreaks_cons2. unfold widx. rewrite ssr_cons. destruct (Rle_dec b0 t); [|lra].
    rewrite (ssr_cons b1). destruct (Rle_dec b1 t) as [H1|H1].
    + specialize (IH tm (c0 + (b1 - b0) / m0) t Hl' ltac:(discriminate) H1).
      unfold widx in IH. rewrite ssr_cons in IH. destruct (Rle_dec b1 t); [|lra].
      cbn zeta in IH. transitivity (c0 + (b1 - b0) / m0 + integ (b1 :: brk) tm t); [ring|exact IH].
    + cbn [nth]. reflexivity.
Qed.

Lemma widx_bounds : forall (brk : list R) t, brk <> [] -> nth 0 brk 0 <= t ->
  let i := widx RNum brk t in
  (i < length brk)%nat /\ nth i brk 0 <= t /\ ((S i < length brk)%nat -> t < nth (S i) brk 0).
Proof.
  induction brk as [|b0 brk IH]; intros t Hne Ht; [congruence|]. cbn [nth] in Ht.
  unfold widx. rewrite ssr_cons. destruct (Rle_dec b0 t); [|lra].
  destruct brk as [|b1 brk].
  - cbn. split; [lia|]. split; [exact Ht|]. intro; lia.
  - rewrite ssr_cons. destruct (Rle_dec b1 t) as [H1|H1].
    + specialize (IH t ltac:(discriminate) H1). unfold widx in IH. rewrite ssr_cons in IH.
      destruct (Rle_dec b1 t); [|lra]. cbn zeta in IH. destruct IH as (I1 & I2 & I3).
      cbn [length nth] in *. split; [lia|]. split; [exact I2|]. intro H. apply I3. lia.
    + cbn [length nth]. split; [lia|]. split; [exact Ht|]. intros _. lra.
Qed.

Section CTM.
  Variables brk tm : list R.
  Hypothesis Hl : length brk = length tm.
  Hypothesis Hne : brk <> [].
  Hypothesis Hi : incr brk.
  Hypothesis H0 : nth 0 brk 0 = 0.
  Hypothesis Hp : allpos tm.

  Lemma ctm_at_integ t : 0 <= t -> ctm_at RNum brk tm (steps RNum brk tm) t = integ brk tm t.
  Proof.
    intro Ht. unfold ctm_at, nthT. cbn [RNum add div mul one zero].
    assert (Ht' : nth 0 brk 0 <= t) by lra.
    destruct (widx_bounds brk t Hne Ht') as (Ib & _ & _).
    pose proof (integ_index brk tm 0 t Hl Hne Ht') as E. cbn zeta in E.
    pose proof (steps_telescope brk tm Hl Hne H0 Hp _ Ib) as Et.
    assert (0 < nth (widx RNum brk t) tm 0) by (apply Hp, nth_In; lia).
    rewrite Rplus_0_l in E. tnorm. rewrite E, <- Et. unfold Rdiv. ring.
  Qed.

  Lemma new_breaks_cbreaks :
    map (fun k => add RNum (div RNum (mul RNum (nthT RNum brk k) (one RNum)) (nthT RNum tm k))
                    (nthT RNum (steps RNum brk tm) k)) (seq 0 (length brk))
    = cbreaks 0 brk tm.
  Proof.
    apply (nth_ext _ _ 0 0).
    - rewrite map_length, seq_length, cbreaks_length by exact Hl. reflexivity.
    - intros k Hk. rewrite map_length, seq_length in Hk.
      rewrite nth_map_seq by exact Hk. unfold nthT. cbn [RNum add div mul one zero].
      apply steps_telescope; assumption.
  Qed.

  Lemma ctm_ok_true (ts : list R) : (forall t, In t ts -> 0 <= t) -> ctm_ok RNum ts brk tm = true.
  Proof.
    intro Hts. unfold ctm_ok. rewrite !andb_true_iff. repeat split.
    - apply strict_inc_incr. exact Hi.
    - apply negb_true_iff, Nat.eqb_neq. destruct brk; [congruence|discriminate].
    - cbn [RNum eqb zero]. apply Reqb_true. exact H0.
    - apply forallb_forall. intros x Hx. cbn [RNum leb zero]. apply Rleb_true. apply Hts. exact Hx.
    - apply forallb_forall. intros x Hx. cbn [RNum ltb zero]. apply Rltb_true. apply Hp. exact Hx.
    - apply Nat.eqb_eq. exact Hl.
  Qed.

  Lemma ctm_value (ts : list R) : (forall t, In t ts -> 0 <= t) ->
    change_time_measure RNum ts brk tm
    = Some (map (integ brk tm) ts, cbreaks 0 brk tm, map (fun m => 1 / m) tm).
  Proof.
    intro Hts. unfold change_time_measure. rewrite (ctm_ok_true ts Hts).
    cbv zeta. pose proof new_breaks_cbreaks as Eb. tnorm. rewrite Eb. f_equal. f_equal. f_equal.
    apply map_ext_in. intros t Ht. apply ctm_at_integ. apply Hts. exact Ht.
  Qed.
End CTM.

Lemma ctm_ok_parts (ts brk tm : list R) : ctm_ok RNum ts brk tm = true ->
  length brk = length tm /\ brk <> [] /\ incr brk /\ nth 0 brk 0 = 0 /\ allpos tm /\
  (forall t, In t ts -> 0 <= t).
Proof.
  unfold ctm_ok. rewrite !andb_true_iff. intros [[[[[H1 H2] H3] H4] H5] H6].
  apply strict_inc_incr in H1. apply negb_true_iff, Nat.eqb_neq in H2.
  cbn [RNum eqb zero] in H3. apply Reqb_true in H3. apply Nat.eqb_eq in H6.
  rewrite forallb_forall in H4, H5.
  split; [exact H6|]. split; [intros ->; apply H2; reflexivity|]. split; [exact H1|]. split; [exact H3|].
  split.
  - intros m Hm. specialize (H5 m Hm). cbn [RNum ltb zero] in H5. apply Rltb_true in H5. exact H5.
  - intros t Ht. specialize (H4 t Ht). cbn [RNum leb zero] in H4. apply Rleb_true in H4. exact H4.
Qed.
