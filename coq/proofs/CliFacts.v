(** * Checkers and facts about the CLI model (C34).

    The option tables are finite, so every statement below is a boolean checker, generic in
    the [cli_spec], that is evaluated on the regenerated table [gen.CliGen.cli] by
    [vm_compute].  Each checker is followed by the lemma that spells out what [= true]
    means for the first-order reading used in props/C34.v. *)
From Coq Require Import List String Ascii Bool Arith.
From TsdateV Require Import model.Cli gen.CliGen.
Import ListNotations.
Open Scope string_scope.

(** ** Which options are "API options": everything except the two file names, the
    deprecated positional, -v and -V *)
Definition api_option (c : cli_spec) (o : opt) : bool :=
  negb (o_positional o) &&
  match o_action o with ACount | AVersion => false | _ => true end.

Definition methods (c : cli_spec) : list string :=
  match find (fun o => String.eqb (o_dest o) "method") (c_date_options c) with
  | Some o => match o_choices o with Some ch => ch | None => [] end
  | None => []
  end.

Definition branch_params (c : cli_spec) (m : string) : list (string * string) :=
  c_direct c ++ (if String.eqb m (c_branch_method c) then c_then_params c else c_else_params c).
Definition branch_forbidden (c : cli_spec) (m : string) : list string :=
  if String.eqb m (c_branch_method c) then c_then_forbidden c else c_else_forbidden c.

Definition forwarded (ps : list (string * string)) (d : string) : bool :=
  existsb (fun kd => String.eqb (snd kd) d) ps.

(** the one known hole (finding K6): -e/--epsilon with variational_gamma *)
Definition k6_hole (m d : string) : bool :=
  String.eqb m "variational_gamma" && String.eqb d "epsilon".

(** ** 1. well-formedness of the tables *)
Fixpoint nodupb (l : list string) : bool :=
  match l with [] => true | x :: r => negb (mem x r) && nodupb r end.

Definition table_wf (opts : list opt) : bool :=
  nodupb (flat_map o_flags opts) && nodupb (map o_dest opts) &&
  forallb (fun o =>
    match o_action o with
    | ACount => match o_default o with DInt "0" => true | _ => false end
    | AStoreTrue => match o_default o with DBool false => true | _ => false end
    | _ => true
    end &&
    (* no flag may look like a negative number, or "-1" would not be a value *)
    forallb (fun f => negb (negative_number f)) (o_flags o) &&
    (if o_positional o then true else forallb option_like (o_flags o))) opts &&
  (* the positionals: tree_sequence, output first *)
  match filter o_positional opts with
  | a :: b :: r => String.eqb (o_dest a) "tree_sequence" && String.eqb (o_dest b) "output" &&
                   forallb (fun o => match o_nargs o with NOptional => true | NOne => false end) r
  | _ => false
  end.

Definition spec_wf (c : cli_spec) : bool :=
  table_wf (c_date_options c) && table_wf (c_preprocess_options c) &&
  (* the spellings of the two truth values are disjoint and non-empty *)
  negb (existsb (fun s => mem s (c_false c)) (c_true c)) &&
  negb (match c_true c with [] => true | _ => false end) &&
  negb (match c_false c with [] => true | _ => false end) &&
  (* the method option exists, has choices, and the branch method is one of them *)
  mem (c_branch_method c) (methods c) &&
  (* no API keyword is bound twice in one call *)
  forallb (fun m => nodupb (map fst (branch_params c m))) (methods c) &&
  nodupb (map fst (c_preprocess_params c)).

(** ** 2. every option reaches the API (structure of the mappings) *)
Definition every_date_option_reaches_api (c : cli_spec) : bool :=
  forallb (fun m =>
    forallb (fun o =>
      negb (api_option c o)
      || forwarded (branch_params c m) (o_dest o)
      || mem (o_dest o) (branch_forbidden c m)
      || k6_hole m (o_dest o)) (c_date_options c)) (methods c).

Definition every_preprocess_option_reaches_api (c : cli_spec) : bool :=
  forallb (fun o => negb (api_option c o) || forwarded (c_preprocess_params c) (o_dest o))
          (c_preprocess_options c).

(** ... and the hole is real today *)
Definition k6_open (c : cli_spec) : bool :=
  existsb (fun o => String.eqb (o_dest o) "epsilon" && api_option c o) (c_date_options c)
  && negb (forwarded (branch_params c "variational_gamma") "epsilon")
  && negb (mem "epsilon" (branch_forbidden c "variational_gamma")).

(** ** 3. end to end on sample values: the parsed value arrives *)
Definition samples_for (c : cli_spec) (o : opt) : list (string * value) :=
  match o_choices o with
  | Some ch => map (fun s => (s, VStr s)) ch
  | None =>
    match o_conv o with
    | CFloat => [("0.5", VFloatOf "0.5"); ("1e-5", VFloatOf "1e-5"); ("-1", VFloatOf "-1"); ("3", VFloatOf "3")]
    | CInt => [("3", VIntOf "3"); ("0", VIntOf "0"); ("-2", VIntOf "-2")]
    | CStr => [("linear", VStr "linear"); ("x y", VStr "x y")]
    | CPyBool | CStrToBool =>
        map (fun s => (s, VBool true)) ["True"; "true"; "1"; "yes"; "T"]
        ++ map (fun s => (s, VBool false)) ["False"; "false"; "0"; "no"; "F"]
    end
  end.

Definition kw_is (o : outcome) (api : string) (k : string) (v : value) : bool :=
  match o with
  | Call a _ _ kws =>
      String.eqb a api &&
      match find (fun kv => String.eqb (fst kv) k) kws with
      | Some (_, VNone) => match v with VNone => true | _ => false end
      | Some (_, VBool b) => match v with VBool b' => Bool.eqb b b' | _ => false end
      | Some (_, VCount n) => match v with VCount n' => Nat.eqb n n' | _ => false end
      | Some (_, VStr s) => match v with VStr s' => String.eqb s s' | _ => false end
      | Some (_, VFloatOf s) => match v with VFloatOf s' => String.eqb s s' | _ => false end
      | Some (_, VIntOf s) => match v with VIntOf s' => String.eqb s s' | _ => false end
      | None => false
      end
  | _ => false
  end.

Definition api_key (ps : list (string * string)) (d : string) : option string :=
  match find (fun kd => String.eqb (snd kd) d) ps with Some (k, _) => Some k | None => None end.

(** for every method, every forwarded option of the date parser, every flag spelling and
    every sample value: [date IN OUT --method m <flag> <value>] calls [date] with that
    keyword bound to the converted value; giving the option twice binds the last value *)
Definition date_values_arrive (c : cli_spec) : bool :=
  forallb (fun m =>
    forallb (fun o =>
      match api_key (branch_params c m) (o_dest o) with
      | Some k =>
          if api_option c o && negb (String.eqb (o_dest o) "method") then
            match o_action o with
            | AStoreTrue =>
                forallb (fun f =>
                  kw_is (cli_main c ["date"; "IN"; "OUT"; "--method"; m; f]) "date" k (VBool true)
                  && kw_is (cli_main c ["date"; f; "--method"; m; "IN"; "OUT"]) "date" k (VBool true))
                  (o_flags o)
                && kw_is (cli_main c ["date"; "IN"; "OUT"; "--method"; m]) "date" k (VBool false)
            | _ =>
                forallb (fun f =>
                  forallb (fun sv =>
                    kw_is (cli_main c ["date"; "IN"; "OUT"; "--method"; m; f; fst sv]) "date" k (snd sv)
                    && kw_is (cli_main c ["date"; f; fst sv; "--method"; m; "IN"; "OUT"]) "date" k (snd sv)
                    && kw_is (cli_main c ["date"; "IN"; "OUT"; f; "7"; "--method"; m; f; fst sv]) "date" k (snd sv))
                    (samples_for c o)) (o_flags o)
            end
          else true
      | None => true
      end) (c_date_options c)
    (* the method itself *)
    && kw_is (cli_main c ["date"; "IN"; "OUT"; "--method"; m]) "date" "method" (VStr m))
    (methods c).

Definition preprocess_values_arrive (c : cli_spec) : bool :=
  forallb (fun o =>
    match api_key (c_preprocess_params c) (o_dest o) with
    | Some k =>
        if api_option c o then
          forallb (fun f =>
            forallb (fun sv =>
              kw_is (cli_main c ["preprocess"; "IN"; "OUT"; f; fst sv]) "preprocess_ts" k (snd sv)
              && kw_is (cli_main c ["preprocess"; f; fst sv; "IN"; "OUT"]) "preprocess_ts" k (snd sv))
              (samples_for c o)) (o_flags o)
        else true
    | None => true
    end) (c_preprocess_options c).

(** defaults: an option that is not given binds its keyword to the table default *)
Definition defaults_arrive (c : cli_spec) : bool :=
  forallb (fun m =>
    forallb (fun o =>
      match api_key (branch_params c m) (o_dest o), default_value c o with
      | Some k, Some v =>
          if api_option c o && negb (String.eqb (o_dest o) "method")
          then kw_is (cli_main c ["date"; "IN"; "OUT"; "--method"; m]) "date" k v else true
      | _, _ => true
      end) (c_date_options c)) (methods c)
  && forallb (fun o =>
      match api_key (c_preprocess_params c) (o_dest o), default_value c o with
      | Some k, Some v => if api_option c o
                          then kw_is (cli_main c ["preprocess"; "IN"; "OUT"]) "preprocess_ts" k v else true
      | _, _ => true
      end) (c_preprocess_options c).

(** ** 4. booleans can be switched off (and on) *)
Definition is_bool_option (o : opt) : bool :=
  match o_conv o, o_action o with
  | CPyBool, AStore | CStrToBool, AStore => true
  | _, AStoreTrue => true
  | _, _ => false
  end.

Definition bool_options_switch (c : cli_spec) : bool :=
  let chk sub api ps opts :=
    forallb (fun o =>
      if is_bool_option o && api_option c o then
        match api_key ps (o_dest o) with
        | None => false
        | Some k =>
          match o_action o with
          | AStoreTrue =>
              forallb (fun f => kw_is (cli_main c (sub ++ [f])) api k (VBool true)) (o_flags o)
              && kw_is (cli_main c sub) api k (VBool false)
          | _ =>
              forallb (fun f =>
                forallb (fun s => kw_is (cli_main c (sub ++ [f; s])) api k (VBool false))
                        ["False"; "false"; "FALSE"; "0"; "no"; "f"; "n"]
                && forallb (fun s => kw_is (cli_main c (sub ++ [f; s])) api k (VBool true))
                        ["True"; "true"; "TRUE"; "1"; "yes"; "t"; "y"]) (o_flags o)
          end
        end
      else true) opts in
  forallb (fun m => chk ["date"; "IN"; "OUT"; "--method"; m] "date" (branch_params c m) (c_date_options c))
          (methods c)
  && chk ["preprocess"; "IN"; "OUT"] "preprocess_ts" (c_preprocess_params c) (c_preprocess_options c)
  (* there is something to check *)
  && existsb is_bool_option (c_preprocess_options c).

(** ** 5. invalid combinations exit *)
Definition is_exit_error (o : outcome) : bool := match o with ExitError => true | _ => false end.

Definition sample_arg (c : cli_spec) (o : opt) : list string :=
  match o_action o with
  | AStore => match samples_for c o with (s, _) :: _ => [s] | [] => ["1"] end
  | _ => []
  end.

Definition invalid_combinations_exit (c : cli_spec) : bool :=
  (* an option that the chosen method does not use *)
  forallb (fun m =>
    forallb (fun d =>
      match find (fun o => String.eqb (o_dest o) d) (c_date_options c) with
      | Some o => forallb (fun f =>
                    is_exit_error (cli_main c (["date"; "IN"; "OUT"; "--method"; m; f] ++ sample_arg c o))
                    && is_exit_error (cli_main c (["date"; f] ++ sample_arg c o ++ ["IN"; "OUT"; "--method"; m])))
                    (o_flags o)
      | None => false
      end) (branch_forbidden c m)
    && negb (match branch_forbidden c m with [] => true | _ => false end)) (methods c)
  (* the deprecated positional population size *)
  && is_exit_error (cli_main c ["date"; "IN"; "OUT"; "10000"])
  && is_exit_error (cli_main c ["date"; "IN"; "OUT"; "10000"; "-m"; "1e-8"])
  (* unknown method, unknown option, missing file names, no / unknown sub-command *)
  && is_exit_error (cli_main c ["date"; "IN"; "OUT"; "--method"; "foo"])
  && is_exit_error (cli_main c ["date"; "IN"; "OUT"; "--no-such-option"; "1"])
  && is_exit_error (cli_main c ["date"; "IN"])
  && is_exit_error (cli_main c ["date"])
  && is_exit_error (cli_main c ["preprocess"; "IN"])
  && is_exit_error (cli_main c ["preprocess"; "IN"; "OUT"; "EXTRA"])
  && is_exit_error (cli_main c [])
  && is_exit_error (cli_main c ["frobnicate"; "IN"; "OUT"])
  (* an option without its argument, a boolean that is neither true nor false *)
  && is_exit_error (cli_main c ["date"; "IN"; "OUT"; "-m"])
  && forallb (fun o =>
       match o_conv o, o_action o with
       | CStrToBool, AStore =>
           forallb (fun f => is_exit_error (cli_main c ["preprocess"; "IN"; "OUT"; f; "maybe"])
                             && is_exit_error (cli_main c ["preprocess"; "IN"; "OUT"; f; ""])
                             && is_exit_error (cli_main c ["preprocess"; "IN"; "OUT"; f])) (o_flags o)
       | _, _ => true
       end) (c_preprocess_options c).

(** ** The facts, by computation on the regenerated table *)
Lemma cli_wf : spec_wf cli = true.
Proof. vm_compute. reflexivity. Qed.

Lemma cli_every_date_option : every_date_option_reaches_api cli = true.
Proof. vm_compute. reflexivity. Qed.
Lemma cli_every_preprocess_option : every_preprocess_option_reaches_api cli = true.
Proof. vm_compute. reflexivity. Qed.
Lemma cli_date_values : date_values_arrive cli = true.
Proof. vm_compute. reflexivity. Qed.
Lemma cli_preprocess_values : preprocess_values_arrive cli = true.
Proof. vm_compute. reflexivity. Qed.
Lemma cli_defaults : defaults_arrive cli = true.
Proof. vm_compute. reflexivity. Qed.
Lemma cli_bools : bool_options_switch cli = true.
Proof. vm_compute. reflexivity. Qed.
Lemma cli_invalid : invalid_combinations_exit cli = true.
Proof. vm_compute. reflexivity. Qed.

(** what the structural checker means *)
Lemma every_date_option_spec (c : cli_spec) :
  every_date_option_reaches_api c = true ->
  forall m o, In m (methods c) -> In o (c_date_options c) -> api_option c o = true ->
    (exists k, In (k, o_dest o) (branch_params c m))
    \/ In (o_dest o) (branch_forbidden c m)
    \/ (m = "variational_gamma" /\ o_dest o = "epsilon").
Proof.
  unfold every_date_option_reaches_api. intros H m o Hm Ho Ha.
  rewrite forallb_forall in H. specialize (H m Hm). rewrite forallb_forall in H. specialize (H o Ho).
  rewrite Ha in H. simpl in H.
  apply orb_true_iff in H. destruct H as [H | H].
  - apply orb_true_iff in H. destruct H as [H | H].
    + left. unfold forwarded in H. apply existsb_exists in H. destruct H as [[k d] [Hin He]].
      simpl in He. apply String.eqb_eq in He. subst d. exists k. exact Hin.
    + right; left. unfold mem in H. apply existsb_exists in H. destruct H as [x [Hin He]].
      apply String.eqb_eq in He. subst x. exact Hin.
  - right; right. unfold k6_hole in H. apply andb_true_iff in H. destruct H as [H1 H2].
    apply String.eqb_eq in H1. apply String.eqb_eq in H2. auto.
Qed.

Lemma every_preprocess_option_spec (c : cli_spec) :
  every_preprocess_option_reaches_api c = true ->
  forall o, In o (c_preprocess_options c) -> api_option c o = true ->
    exists k, In (k, o_dest o) (c_preprocess_params c).
Proof.
  unfold every_preprocess_option_reaches_api. intros H o Ho Ha.
  rewrite forallb_forall in H. specialize (H o Ho). rewrite Ha in H. simpl in H.
  unfold forwarded in H. apply existsb_exists in H. destruct H as [[k d] [Hin He]].
  simpl in He. apply String.eqb_eq in He. subst d. exists k. exact Hin.
Qed.

(** a keyword listed in the mapping really is what the call receives, for EVERY command
    line the parser accepts (not only the samples): the call's keywords are the mapping
    applied to the parsed namespace *)
Lemma run_date_kwargs (c : cli_spec) (n : ns) api i o kws :
  run_date c n = Call api i o kws ->
  exists m, getv n "method" = m /\
    kws = (bind n (c_direct c) ++
          bind n (if match m with VStr s => String.eqb s (c_branch_method c) | _ => false end
                  then c_then_params c else c_else_params c))%list.
Proof.
  unfold run_date. destruct (negb (is_none (getv n (c_deprecated c)))); try discriminate.
  destruct (any_given n _); try discriminate.
  intros H. inversion H; subst. eexists; split; reflexivity.
Qed.

Lemma bind_lookup (n : ns) ps k d :
  In (k, d) ps -> In (k, getv n d) (bind n ps).
Proof. intros H. unfold bind. apply (in_map (fun kd => (fst kd, getv n (snd kd))) ps (k, d) H). Qed.

Lemma run_preprocess_kwargs (c : cli_spec) (n : ns) k d :
  In (k, d) (c_preprocess_params c) ->
  exists i o kws, run_preprocess c n = Call "preprocess_ts" i o kws /\ In (k, getv n d) kws.
Proof. intros H. unfold run_preprocess. do 3 eexists. split; [reflexivity | apply bind_lookup; exact H]. Qed.

(** ** Packaged for props/C34.v *)
Lemma every_option_reaches_api_partial :
  (forall m o, In m (methods cli) -> In o (c_date_options cli) -> api_option cli o = true ->
     (exists k, In (k, o_dest o) (branch_params cli m))
     \/ In (o_dest o) (branch_forbidden cli m)
     \/ (m = "variational_gamma" /\ o_dest o = "epsilon"))
  /\ (forall o, In o (c_preprocess_options cli) -> api_option cli o = true ->
        exists k, In (k, o_dest o) (c_preprocess_params cli)).
Proof.
  split.
  - exact (every_date_option_spec cli cli_every_date_option).
  - exact (every_preprocess_option_spec cli cli_every_preprocess_option).
Qed.

Lemma call_keywords_are_the_mapping :
  (forall n api i o kws, run_date cli n = Call api i o kws ->
     api = "date" /\
     forall k d, In (k, d) (c_direct cli) \/
                 In (k, d) (if match getv n "method" with
                               | VStr s => String.eqb s (c_branch_method cli) | _ => false end
                            then c_then_params cli else c_else_params cli) ->
                 In (k, getv n d) kws)
  /\ (forall n k d, In (k, d) (c_preprocess_params cli) ->
        exists i o kws, run_preprocess cli n = Call "preprocess_ts" i o kws /\ In (k, getv n d) kws).
Proof.
  split.
  - intros n api i o kws H. split.
    + unfold run_date in H. destruct (negb (is_none (getv n (c_deprecated cli)))); try discriminate.
      destruct (any_given n _); try discriminate. inversion H; reflexivity.
    + destruct (run_date_kwargs cli n api i o kws H) as [m [Hm Hk]]. subst m kws.
      intros k d [Hd | Hd]; apply in_or_app; [left | right]; apply bind_lookup; exact Hd.
  - intros n k d H. exact (run_preprocess_kwargs cli n k d H).
Qed.

Lemma parsed_values_arrive :
  date_values_arrive cli = true /\ preprocess_values_arrive cli = true /\ defaults_arrive cli = true.
Proof. exact (conj cli_date_values (conj cli_preprocess_values cli_defaults)). Qed.

Lemma example_nonvacuous :
  methods cli = ["inside_outside"; "maximization"; "variational_gamma"] /\
  List.length (filter (api_option cli) (c_date_options cli)) = 11%nat /\
  List.length (filter (api_option cli) (c_preprocess_options cli)) = 3%nat /\
  (let r := cli_main cli ["preprocess"; "in.trees"; "out.trees"; "--erase-flanks"; "False"; "--split-disjoint"; "no"] in
   kw_is r "preprocess_ts" "erase_flanks" (VBool false) = true /\
   kw_is r "preprocess_ts" "split_disjoint" (VBool false) = true) /\
  (let r := cli_main cli ["date"; "in.trees"; "out.trees"; "-m"; "1e-8"; "--method"; "maximization"; "-n"; "100"; "-m"; "2e-8"] in
   kw_is r "date" "mutation_rate" (VFloatOf "2e-8") = true /\
   kw_is r "date" "population_size" (VFloatOf "100") = true /\
   kw_is r "date" "method" (VStr "maximization") = true /\
   kw_is r "date" "probability_space" VNone = true) /\
  cli_main cli ["date"; "in.trees"; "out.trees"; "-m"; "1e-8"; "-n"; "100"] = ExitError.
Proof. vm_compute. repeat split; reflexivity. Qed.
