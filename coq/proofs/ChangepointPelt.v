(** Optimality of the PELT recursion of [_poisson_changepoints] over the reals, for an
    abstract segment cost: without pruning for any cost, with pruning when every
    segment cost is finite and super-additive. *)
From Coq Require Import List Arith Reals Lra Lia Bool.
From TsdateV Require Import lib.Num model.Changepoint.
Import ListNotations.
Open Scope R_scope.

(** ** extended values over R *)
Lemma eadd_fin (a b : ext R) x : eadd RNum a b = Fin x ->
  exists u v, a = Fin u /\ b = Fin v /\ x = u + v.
Proof.
  destruct a as [u| |], b as [v| |]; simpl; intros H; try discriminate.
  inversion H. exists u, v. auto.
Qed.

Lemma elt_fin (x y : R) : elt RNum (Fin x) (Fin y) = Rltb x y.
Proof. reflexivity. Qed.

(** [m <= Fin v] where an [Inf] bound is never [<=] a finite value *)
Definition ble (m : ext R) (v : R) : Prop :=
  match m with Fin u => u <= v | Inf => False | NaN => True end.

Section Argmin.
  Lemma argmin_spec_gen : forall (cs : list (nat * ext R)) a0 m0, m0 <> NaN ->
    forall a m, argmin RNum cs (a0, m0) = (a, m) ->
      m <> NaN /\
      ((a, m) = (a0, m0) \/ (In (a, m) cs /\ exists v, m = Fin v)) /\
      (forall i v', In (i, Fin v') cs -> ble m v') /\
      (forall v0, m0 = Fin v0 -> ble m v0).
  Proof.
    induction cs as [|[i c] r IH]; intros a0 m0 Hm0 a m H; simpl in H.
    - inversion H; subst. split; [assumption|]. split; [now left|]. split.
      + intros i v' [].
      + intros v0 ->. simpl. lra.
    - destruct (elt RNum c m0) eqn:E.
      + (* the head becomes the incumbent *)
        destruct c as [x| |]; try discriminate E.
        destruct (IH i (Fin x) ltac:(discriminate) a m H) as (Hn & Hin & Hall & Hle).
        split; [assumption|]. split.
        * right. destruct Hin as [Heq | [Hin Hv]].
          -- inversion Heq; subst. split; [now left | now exists x].
          -- split; [now right | assumption].
        * split.
          -- intros i' v' [Heq|Hin'].
             ++ inversion Heq; subst. now apply Hle.
             ++ now apply (Hall i').
          -- intros v0 ->. simpl in E. apply Rltb_true in E.
             specialize (Hle x eq_refl). destruct m; simpl in *; try tauto; lra.
      + destruct (IH a0 m0 Hm0 a m H) as (Hn & Hin & Hall & Hle).
        split; [assumption|]. split.
        * destruct Hin as [Heq | [Hin Hv]]; [now left | right]. split; [now right|assumption].
        * split; [|assumption].
          intros i' v' [Heq|Hin'].
          -- inversion Heq; subst.
             destruct m0 as [y| |]; try congruence.
             ++ simpl in E. apply Rltb_false in E. specialize (Hle y eq_refl).
                destruct m; simpl in *; try tauto; lra.
             ++ simpl in E. discriminate.
          -- now apply (Hall i').
  Qed.

  Lemma argmin_spec : forall (cs : list (nat * ext R)) a m,
    argmin RNum cs (0%nat, Inf) = (a, m) ->
    (m = Inf /\ a = 0%nat /\ forall i v, ~ In (i, Fin v) cs) \/
    (exists v, m = Fin v /\ In (a, m) cs /\ forall i v', In (i, Fin v') cs -> v <= v').
  Proof.
    intros cs a m H.
    destruct (argmin_spec_gen cs 0%nat Inf ltac:(discriminate) a m H) as (Hn & Hin & Hall & _).
    destruct Hin as [Heq | [Hin [v Hv]]].
    - left. inversion Heq; subst. split; [reflexivity|]. split; [reflexivity|].
      intros i v Hi. exact (Hall i v Hi).
    - right. exists v. split; [assumption|]. split; [assumption|].
      intros i v' Hi. specialize (Hall i v' Hi). subst m. exact Hall.
  Qed.
End Argmin.

(** ** lookups *)
Lemma lookup_in i (C : list (nat * list nat)) B : lookup i C = Some B -> In (i, B) C.
Proof.
  induction C as [|[k B'] r IH]; simpl; [discriminate|].
  destruct (Nat.eqb k i) eqn:E.
  - apply Nat.eqb_eq in E. intros H; inversion H; subst. now left.
  - intros H. right. auto.
Qed.

Lemma in_lookup i (C : list (nat * list nat)) : In i (map fst C) -> exists B, lookup i C = Some B.
Proof.
  induction C as [|[k B'] r IH]; simpl; [tauto|].
  intros [->|H].
  - rewrite Nat.eqb_refl. eauto.
  - destruct (Nat.eqb k i); eauto.
Qed.

Lemma in_keys i (C : list (nat * list nat)) : In i (map fst C) -> exists B, In (i, B) C.
Proof. intros H. apply in_map_iff in H. destruct H as [[k B] [E H]]. simpl in E. subst. eauto. Qed.

Section PeltR.
  Variable f : nat -> nat -> ext R.
  Variable pen : R.
  Variable prune : bool.
  Variable dim : nat.
  Hypothesis Hpen : 0 <= pen.

  (** pruning is only switched on when every segment cost is finite and super-additive *)
  Hypothesis Hfin : prune = true -> forall i j, (i < j <= dim)%nat -> exists c, f i j = Fin c.
  Hypothesis Hsuper : prune = true -> forall i j k c1 c2 c3, (i < j < k)%nat -> (k <= dim)%nat ->
    f i j = Fin c1 -> f j k = Fin c2 -> f i k = Fin c3 -> c1 + c2 <= c3.

  (** [segcost j B v]: [B ++ [j]] is a segmentation [0 = b0 < b1 < ... < j] all of whose
      segments have a finite cost, and [v = sum (f + pen) - pen] is its penalised cost.
      Mirrors [C[j] = C[i] ++ [i]]. *)
  Inductive segcost : nat -> list nat -> R -> Prop :=
  | sc0 : segcost 0 [] (- pen)
  | scS : forall i j B v c, (i < j)%nat -> segcost i B v -> f i j = Fin c ->
      segcost j (B ++ [i]) (v + c + pen).

  Lemma segcost_inv j B v : segcost j B v ->
    (j = 0%nat /\ B = [] /\ v = - pen) \/
    (exists i B0 v0 c, (i < j)%nat /\ segcost i B0 v0 /\ f i j = Fin c /\
       B = B0 ++ [i] /\ v = v0 + c + pen).
  Proof.
    intros H. destruct H as [|i j B v c Hij Hs Hf].
    - left. auto.
    - right. exists i, B, v, c. auto.
  Qed.

  Definition Fval (i : nat) (x : ext R) : Prop :=
    match x with
    | Fin v => (exists B, segcost i B v) /\ forall B' v', segcost i B' v' -> v <= v'
    | Inf => forall B' v', ~ segcost i B' v'
    | NaN => False
    end.

  Notation keys C := (map fst C).

  Record inv (j : nat) (F : list (ext R)) (C : cands) : Prop := {
    inv_len : length F = S j;
    inv_F : forall i, (i <= j)%nat -> Fval i (nth i F NaN);
    inv_keys : forall i, In i (keys C) -> (i <= j)%nat;
    inv_j : In j (keys C);
    inv_B : forall i B v, In (i, B) C -> nth i F NaN = Fin v -> segcost i B v;
    inv_all : prune = false -> forall i, (i <= j)%nat -> In i (keys C);
    inv_dom : forall i k v c, (i <= j)%nat -> (j < k)%nat -> (k <= dim)%nat ->
        nth i F NaN = Fin v -> f i k = Fin c ->
        exists i' v' c', In i' (keys C) /\ nth i' F NaN = Fin v' /\ f i' k = Fin c' /\
                         v' + c' <= v + c }.

  Lemma inv_init : inv 0 (fst (pelt_init RNum pen)) (snd (pelt_init RNum pen)).
  Proof.
    simpl. constructor; simpl.
    - reflexivity.
    - intros i Hi. assert (i = 0)%nat as -> by lia. simpl. split.
      + exists []. constructor.
      + intros B' v' H. apply segcost_inv in H. destruct H as [(_ & _ & ->) | (i & ? & ? & ? & Hlt & _)].
        * lra.
        * lia.
    - intros i [<-|[]]. lia.
    - now left.
    - intros i B v [E|[]] Hv. inversion E; subst. simpl in Hv. inversion Hv; subst. constructor.
    - intros _ i Hi. left. lia.
    - intros i k v c Hi _ _ Hv Hc. assert (i = 0)%nat as -> by lia.
      exists 0%nat, v, c. split; [now left|]. split; [assumption|]. split; [assumption|]. lra.
  Qed.

  (** every prefix has a feasible segmentation when all costs are finite *)
  Lemma fin_has_seg : prune = true -> forall i, (i <= dim)%nat -> exists B v, segcost i B v.
  Proof.
    intros Hp i Hi. destruct i as [|i].
    - exists [], (- pen). constructor.
    - destruct (Hfin Hp 0%nat (S i) ltac:(lia)) as [c Hc].
      exists ([] ++ [0%nat]), (- pen + c + pen). eapply scS; [lia|constructor|exact Hc].
  Qed.

  Lemma Fval_fin i x : Fval i x -> (exists B v, segcost i B v) -> exists v, x = Fin v.
  Proof.
    destruct x as [v| |]; simpl; intros H [B [v' Hs]].
    - eauto.
    - exfalso. exact (H B v' Hs).
    - contradiction.
  Qed.

  Lemma cost_fin F k i x : cost_of RNum f pen F k i = Fin x ->
    exists v c, nth i F NaN = Fin v /\ f i k = Fin c /\ x = v + c + pen.
  Proof.
    unfold cost_of. intros H.
    apply eadd_fin in H. destruct H as (u & p & Hu & Hp & ->).
    apply eadd_fin in Hu. destruct Hu as (v & c & Hv & Hc & ->).
    inversion Hp; subst. exists v, c. auto.
  Qed.

  Lemma cost_fin_intro F k i v c : nth i F NaN = Fin v -> f i k = Fin c ->
    cost_of RNum f pen F k i = Fin (v + c + pen).
  Proof. unfold cost_of. intros -> ->. reflexivity. Qed.

  Lemma pelt_step_inv j F C : inv j F C -> (S j <= dim)%nat ->
    exists (F' : list (ext R)) C', pelt_step RNum f pen prune (F, C) (S j) = Some (F', C') /\ inv (S j) F' C'.
  Proof.
    intros I Hj. set (k := S j).
    unfold pelt_step.
    set (costs := map (fun iB : nat * list nat => (fst iB, cost_of RNum f pen F k (fst iB))) C).
    destruct (argmin RNum costs (0%nat, Inf)) as [a m] eqn:Eam.
    (* every candidate key has its cost in the list *)
    assert (Hcosts : forall i, In i (keys C) -> In (i, cost_of RNum f pen F k i) costs).
    { intros i Hi. apply in_keys in Hi. destruct Hi as [B HB]. unfold costs.
      apply in_map_iff. exists (i, B). auto. }
    assert (Hcosts' : forall i c, In (i, c) costs -> In i (keys C) /\ c = cost_of RNum f pen F k i).
    { intros i c Hi. unfold costs in Hi. apply in_map_iff in Hi. destruct Hi as [[i0 B] [E Hin]].
      simpl in E. inversion E; subst. split; [|reflexivity].
      apply in_map_iff. exists (i, B). auto. }
    (* a feasible segmentation of [0,k) yields a finite candidate cost below its own *)
    assert (Hseg : forall B' v', segcost k B' v' ->
              exists i' x, In (i', Fin x) costs /\ x <= v').
    { intros B' v' Hs. apply segcost_inv in Hs.
      destruct Hs as [(Hk0 & _) | (i & B0 & v0 & c0 & Hik & Hs0 & Hfi & -> & ->)]; [unfold k in Hk0; lia|].
      assert (Hile : (i <= j)%nat) by (unfold k in Hik; lia).
      pose proof (inv_F _ _ _ I i Hile) as HFi.
      destruct (nth i F NaN) as [w| |] eqn:Ew; simpl in HFi.
      - destruct HFi as [_ Hmin]. specialize (Hmin B0 v0 Hs0).
        destruct (inv_dom _ _ _ I i k w c0 Hile ltac:(unfold k; lia) Hj Ew Hfi)
          as (i' & v'' & c'' & Hin' & Hv'' & Hc'' & Hle).
        exists i', (v'' + c'' + pen). split.
        + pose proof (Hcosts i' Hin') as Hci.
          rewrite (cost_fin_intro F k i' v'' c'' Hv'' Hc'') in Hci. exact Hci.
        + lra.
      - exfalso. exact (HFi B0 v0 Hs0).
      - contradiction. }
    apply argmin_spec in Eam.
    (* the new F value is the optimum for k *)
    assert (HFk : Fval k m /\
              (forall mv, m = Fin mv -> exists va c, In a (keys C) /\ nth a F NaN = Fin va /\
                                              f a k = Fin c /\ mv = va + c + pen)).
    { destruct Eam as [(-> & -> & Hnone) | (mv & -> & Hin & Hmin)].
      - split.
        + simpl. intros B' v' Hs. destruct (Hseg B' v' Hs) as (i' & x & Hin & _).
          exact (Hnone i' x Hin).
        + intros mv E. discriminate.
      - destruct (Hcosts' _ _ Hin) as [Hak Hc]. symmetry in Hc.
        apply cost_fin in Hc. destruct Hc as (va & c & Hva & Hfa & ->).
        split.
        + simpl. split.
          * destruct (in_keys _ _ Hak) as [Ba HBa].
            exists (Ba ++ [a]). eapply scS.
            -- pose proof (inv_keys _ _ _ I a Hak). unfold k. lia.
            -- exact (inv_B _ _ _ I a Ba va HBa Hva).
            -- exact Hfa.
          * intros B' v' Hs. destruct (Hseg B' v' Hs) as (i' & x & Hin' & Hle).
            specialize (Hmin i' x Hin'). lra.
        + intros mv E. inversion E; subst. exists va, c. auto. }
    destruct HFk as [HFk Hma].
    (* in pruning mode everything is finite *)
    assert (Hallfin : prune = true -> forall i, (i <= j)%nat -> exists v, nth i F NaN = Fin v).
    { intros Hp i Hi. apply (Fval_fin i); [exact (inv_F _ _ _ I i Hi)|].
      apply fin_has_seg; [assumption|lia]. }
    assert (Hmfin : prune = true -> exists mv, m = Fin mv).
    { intros Hp. apply (Fval_fin k); [assumption|]. apply fin_has_seg; assumption. }
    set (bound := eadd RNum m (Fin pen)).
    set (keep := fun iB : nat * list nat => negb (elt RNum bound (cost_of RNum f pen F k (fst iB)))).
    set (C' := if prune then filter keep C else C).
    assert (HsubC : forall iB, In iB C' -> In iB C).
    { intros iB. unfold C'. destruct prune; [|auto]. intros H. apply filter_In in H. tauto. }
    (* the argmin survives pruning *)
    assert (Ha' : In a (keys C')).
    { unfold C'. destruct prune eqn:Ep.
      - destruct (Hmfin eq_refl) as [mv ->].
        destruct (Hma mv eq_refl) as (va & c & Hak & Hva & Hfa & ->).
        destruct (in_keys _ _ Hak) as [Ba HBa].
        apply in_map_iff. exists (a, Ba). split; [reflexivity|].
        apply filter_In. split; [assumption|]. unfold keep, bound. simpl fst.
        rewrite (cost_fin_intro F k a va c Hva Hfa). simpl.
        apply negb_true_iff. apply Rltb_false. lra.
      - destruct Eam as [(-> & -> & _) | (mv & -> & _)].
        + apply (inv_all _ _ _ I Ep). lia.
        + destruct (Hma mv eq_refl) as (va & c & Hak & _). exact Hak. }
    change (exists F' C'0,
      match lookup a C' with
      | Some B => Some (F ++ [m], C' ++ [(k, B ++ [a])])
      | None => None
      end = Some (F', C'0) /\ inv k F' C'0).
    destruct (in_lookup _ _ Ha') as [Ba Hlk]. rewrite Hlk.
    pose proof (HsubC _ (lookup_in _ _ _ Hlk)) as HBa.
    exists (F ++ [m]), (C' ++ [(k, Ba ++ [a])]). split; [reflexivity|].
    pose proof (inv_len _ _ _ I) as HlenF.
    assert (Hnth_old : forall i, (i <= j)%nat -> nth i (F ++ [m]) NaN = nth i F NaN).
    { intros i Hi. apply app_nth1. lia. }
    assert (Hnth_k : nth k (F ++ [m]) NaN = m).
    { rewrite app_nth2 by (unfold k; lia). replace (k - length F)%nat with 0%nat by (unfold k; lia).
      reflexivity. }
    assert (Hkeys' : forall i, In i (keys C') -> In i (keys C)).
    { intros i Hi. apply in_keys in Hi. destruct Hi as [B HB]. apply HsubC in HB.
      apply in_map_iff. exists (i, B). auto. }
    constructor.
    - rewrite app_length. simpl. lia.
    - intros i Hi. destruct (Nat.eq_dec i k) as [->|Hne].
      + rewrite Hnth_k. exact HFk.
      + rewrite Hnth_old by (unfold k in *; lia). apply (inv_F _ _ _ I). unfold k in *; lia.
    - intros i Hi. rewrite map_app in Hi. apply in_app_or in Hi. destruct Hi as [Hi|[<-|[]]].
      + pose proof (inv_keys _ _ _ I i (Hkeys' i Hi)). unfold k. lia.
      + simpl. lia.
    - rewrite map_app. apply in_or_app. right. now left.
    - intros i B v Hin Hv. apply in_app_or in Hin. destruct Hin as [Hin|[E|[]]].
      + apply HsubC in Hin.
        assert (Hi : (i <= j)%nat).
        { apply (inv_keys _ _ _ I). apply in_map_iff. exists (i, B). auto. }
        rewrite Hnth_old in Hv by assumption. exact (inv_B _ _ _ I i B v Hin Hv).
      + inversion E; subst i B. rewrite Hnth_k in Hv.
        destruct (Hma v Hv) as (va & c & Hak & Hva & Hfa & ->).
        eapply scS.
        * pose proof (inv_keys _ _ _ I a Hak). unfold k. lia.
        * exact (inv_B _ _ _ I a Ba va HBa Hva).
        * exact Hfa.
    - intros Hp i Hi. rewrite map_app. apply in_or_app.
      destruct (Nat.eq_dec i k) as [->|Hne]; [right; now left|left].
      unfold C'. rewrite Hp. apply (inv_all _ _ _ I Hp). unfold k in *; lia.
    - intros i k' v c Hi Hk' Hk'd Hv Hc.
      destruct (Nat.eq_dec i k) as [->|Hne].
      { exists k, v, c. split; [rewrite map_app; apply in_or_app; right; now left|].
        split; [assumption|]. split; [assumption|lra]. }
      assert (Hij : (i <= j)%nat) by (unfold k in *; lia).
      rewrite Hnth_old in Hv by assumption.
      destruct (inv_dom _ _ _ I i k' v c Hij ltac:(unfold k in *; lia) Hk'd Hv Hc)
        as (i' & v' & c' & Hin' & Hv' & Hc' & Hle).
      pose proof (inv_keys _ _ _ I i' Hin') as Hi'j.
      destruct (in_keys _ _ Hin') as [Bi' HBi'].
      destruct prune eqn:Ep.
      + (* was i' pruned at this step? *)
        destruct (keep (i', Bi')) eqn:Ekeep.
        * exists i', v', c'. split.
          { rewrite map_app. apply in_or_app. left. unfold C'.
            apply in_map_iff. exists (i', Bi'). split; [reflexivity|]. apply filter_In. auto. }
          split; [now rewrite Hnth_old by assumption|]. split; [assumption|lra].
        * destruct (Hmfin eq_refl) as [mv Em].
          destruct (Hfin eq_refl i' k ltac:(unfold k in *; lia)) as [cik Hcik].
          destruct (Hfin eq_refl k k' ltac:(lia)) as [ckk Hckk].
          pose proof (Hsuper eq_refl i' k k' cik ckk c' ltac:(unfold k in *; lia) Hk'd Hcik Hckk Hc') as Hsa.
          unfold keep, bound in Ekeep. simpl fst in Ekeep.
          rewrite (cost_fin_intro F k i' v' cik Hv' Hcik) in Ekeep. rewrite Em in Ekeep.
          simpl in Ekeep. apply negb_false_iff in Ekeep. apply Rltb_true in Ekeep.
          exists k, mv, ckk. split; [rewrite map_app; apply in_or_app; right; now left|].
          split; [now rewrite Hnth_k|]. split; [assumption|lra].
      + exists i', v', c'. split.
        { rewrite map_app. apply in_or_app. left. unfold C'. exact Hin'. }
        split; [now rewrite Hnth_old by assumption|]. split; [assumption|lra].
  Qed.

  Lemma pelt_loop_inv n : forall j F C, inv j F C -> (j + n <= dim)%nat ->
    exists (F' : list (ext R)) C', pelt_loop RNum f pen prune (seq (S j) n) (F, C) = Some (F', C') /\
                  inv (j + n) F' C'.
  Proof.
    induction n as [|n IH]; intros j F C I Hn.
    - exists F, C. simpl. rewrite Nat.add_0_r. auto.
    - simpl seq.
      change (pelt_loop RNum f pen prune (S j :: seq (S (S j)) n) (F, C))
        with (match pelt_step RNum f pen prune (F, C) (S j) with
              | None => None
              | Some st' => pelt_loop RNum f pen prune (seq (S (S j)) n) st'
              end).
      destruct (pelt_step_inv j F C I ltac:(lia)) as (F1 & C1 & -> & I1).
      destruct (IH (S j) F1 C1 I1 ltac:(lia)) as (F2 & C2 & E & I2).
      exists F2, C2. split; [exact E|]. replace (j + S n)%nat with (S j + n)%nat by lia. exact I2.
  Qed.


  (** the recursion returns a segmentation; whenever any feasible segmentation of
      [0, dim) exists, the returned one is feasible and of minimal penalised cost *)
  Theorem pelt_optimal_seg :
    exists B, pelt RNum f pen prune dim = Some (B ++ [dim]) /\
      forall B' v', segcost dim B' v' -> exists v, segcost dim B v /\ v <= v'.
  Proof.
    unfold pelt.
    destruct (pelt_loop_inv dim 0%nat _ _ inv_init ltac:(lia)) as (F & C & E & I).
    simpl Nat.add in I.
    change (pelt_loop RNum f pen prune (seq 1 dim) (pelt_init RNum pen) = Some (F, C)) in E.
    rewrite E.
    destruct (in_lookup _ _ (inv_j _ _ _ I)) as [B HB]. rewrite HB.
    exists B. split; [reflexivity|].
    intros B' v' Hs. pose proof (inv_F _ _ _ I dim (le_n _)) as HF.
    destruct (nth dim F NaN) as [v| |] eqn:Ev; simpl in HF.
    - exists v. split; [|apply (proj2 HF B' v' Hs)].
      exact (inv_B _ _ _ I dim B v (lookup_in _ _ _ HB) Ev).
    - exfalso. exact (HF B' v' Hs).
    - contradiction.
  Qed.

  (** ** the same statement for segmentations written as break lists [0 :: r], with a
      specification-level cost [g] that agrees with [f] on [i < j <= dim] *)
  Variable g : nat -> nat -> ext R.
  Hypothesis Hfg : forall i j, (i < j <= dim)%nat -> f i j = g i j.

  (** [chain g i r s]: [i < r0 < r1 < ...], every segment has a finite cost under [g],
      and [s] is the sum of [cost + pen] over the segments *)
  Inductive chain (h : nat -> nat -> ext R) : nat -> list nat -> R -> Prop :=
  | chn : forall i, chain h i [] 0
  | chc : forall i j r s c, (i < j)%nat -> h i j = Fin c -> chain h j r s ->
      chain h i (j :: r) (c + pen + s).

  (** [b] is a segmentation of [0, dim) into feasible segments, of penalised cost
      [v = sum cost + pen * (number of segments - 1)] *)
  Definition is_seg (h : nat -> nat -> ext R) (b : list nat) (v : R) : Prop :=
    exists r s, b = 0%nat :: r /\ last b 0%nat = dim /\ chain h 0 r s /\ v = s - pen.

  Lemma last_nonempty {A} (x : A) l d d' : last (x :: l) d = last (x :: l) d'.
  Proof. revert x. induction l as [|y l IH]; intros x; [reflexivity|]. simpl in *. apply IH. Qed.

  Lemma chain_le_last h i r s : chain h i r s -> (i <= last (i :: r) i)%nat.
  Proof.
    induction 1 as [i|i j r s c Hij Hc Hch IH]; [simpl; lia|].
    change (last (i :: j :: r) i) with (last (j :: r) i).
    rewrite (last_nonempty j r i j). lia.
  Qed.

  Lemma chain_ext h h' : (forall i j, (i < j <= dim)%nat -> h i j = h' i j) ->
    forall i r s, chain h i r s -> (last (i :: r) i <= dim)%nat -> chain h' i r s.
  Proof.
    intros Hh i r s H. induction H as [i|i j r s c Hij Hc Hch IH]; intros Hl; [constructor|].
    change (last (i :: j :: r) i) with (last (j :: r) i) in Hl.
    rewrite (last_nonempty j r i j) in Hl.
    pose proof (chain_le_last _ _ _ _ Hch).
    constructor; [assumption| |now apply IH].
    rewrite <- Hh by lia. assumption.
  Qed.

  Lemma chain_snoc h i r s : chain h i r s -> forall j c,
    (last (i :: r) i < j)%nat -> h (last (i :: r) i) j = Fin c ->
    exists s', chain h i (r ++ [j]) s' /\ s' = s + c + pen.
  Proof.
    induction 1 as [i|i j0 r s c0 Hij Hc Hch IH]; intros j c Hl Hf.
    - simpl in *. exists (c + pen + 0). split; [|lra]. constructor; [assumption|assumption|constructor].
    - change (last (i :: j0 :: r) i) with (last (j0 :: r) i) in *.
      rewrite (last_nonempty j0 r i j0) in *.
      destruct (IH j c Hl Hf) as (s' & Hs' & ->).
      exists (c0 + pen + (s + c + pen)). split; [|lra].
      simpl. constructor; assumption.
  Qed.

  Lemma segcost_chain k B v : segcost k B v ->
    exists r s, B ++ [k] = 0%nat :: r /\ last (0%nat :: r) 0%nat = k /\ chain f 0 r s /\ v = s - pen.
  Proof.
    induction 1 as [|i j B v c Hij Hs IH Hf].
    - exists [], 0. simpl. split; [reflexivity|]. split; [reflexivity|]. split; [constructor|lra].
    - destruct IH as (r & s & Hb & Hl & Hch & ->).
      rewrite <- Hl in Hij, Hf.
      destruct (chain_snoc f 0%nat r s Hch j c Hij Hf) as (s' & Hs' & ->).
      exists (r ++ [j]), (s + c + pen). split; [rewrite Hb; reflexivity|].
      split; [|split; [assumption|lra]].
      change (0%nat :: r ++ [j]) with ((0%nat :: r) ++ [j]). apply last_last.
  Qed.

  Lemma chain_segcost i r s : chain f i r s -> forall B v, segcost i B v ->
    exists v', segcost (last (i :: r) i) (B ++ removelast (i :: r)) v' /\ v' = v + s.
  Proof.
    induction 1 as [i|i j r s c Hij Hc Hch IH]; intros B v Hs.
    - simpl. rewrite app_nil_r. exists v. split; [assumption|lra].
    - pose proof (scS i j B v c Hij Hs Hc) as Hs'.
      destruct (IH _ _ Hs') as (v' & Hv' & ->).
      exists (v + c + pen + s). split; [|lra].
      change (last (i :: j :: r) i) with (last (j :: r) i).
      rewrite (last_nonempty j r i j).
      change (removelast (i :: j :: r)) with (i :: removelast (j :: r)).
      change (B ++ i :: removelast (j :: r)) with (B ++ [i] ++ removelast (j :: r)).
      rewrite app_assoc. assumption.
  Qed.

  Theorem pelt_optimal :
    exists b, pelt RNum f pen prune dim = Some b /\
      forall b' v', is_seg g b' v' -> exists v, is_seg g b v /\ v <= v'.
  Proof.
    destruct pelt_optimal_seg as (B & HB & Hopt).
    exists (B ++ [dim]). split; [assumption|].
    intros b' v' (r' & s' & -> & Hl' & Hch' & ->).
    assert (Hfg' : forall i j, (i < j <= dim)%nat -> g i j = f i j) by (intros; symmetry; auto).
    pose proof (chain_ext g f Hfg' _ _ _ Hch' ltac:(rewrite Hl'; lia)) as Hchf.
    destruct (chain_segcost _ _ _ Hchf [] (- pen) sc0) as (v1 & Hs1 & ->).
    rewrite Hl' in Hs1. simpl app in Hs1.
    destruct (Hopt _ _ Hs1) as (v & Hsv & Hle).
    exists v. split; [|lra].
    destruct (segcost_chain _ _ _ Hsv) as (r & s & Hb & Hl & Hch & ->).
    exists r, s. split; [assumption|]. split; [rewrite Hb; assumption|].
    split; [|reflexivity].
    apply (chain_ext f g Hfg); [assumption|]. rewrite Hl. lia.
  Qed.
End PeltR.
