(** [_poisson_changepoints] over the reals: the Poisson deviance is super-additive (log-sum
    inequality), hence pruning is sound when it is switched on, and the returned
    segmentation minimises the penalised deviance among all feasible segmentations. *)
From Coq Require Import List Arith Reals Lra Lia Bool.
From TsdateV Require Import lib.Num model.Changepoint proofs.ChangepointFixed proofs.ChangepointPelt.
Import ListNotations.
Open Scope R_scope.

(** ** specification vocabulary *)

(** sum of [l[i..j)] *)
Definition range_sum (l : list R) (i j : nat) : R := Rsum (firstn (j - i) (skipn i l)).

(** twice the negative profile log-likelihood of a Poisson segment with total count [y]
    and total offset [n] (up to a constant) *)
Definition deviance (y n : R) : R := -2 * y * (ln y - ln n - 1).

(** segment cost of the specification: finite iff the segment meets both minima *)
Definition spec_cost (counts offset : list R) (minc mino : R) (i j : nat) : ext R :=
  let y := range_sum counts i j in
  let n := range_sum offset i j in
  if Rleb mino n && Rleb minc y then Fin (deviance y n) else Inf.

Lemma psum_range (l : list R) : forall i j, (i <= j)%nat -> psum l j = psum l i + range_sum l i j.
Proof.
  unfold range_sum. induction l as [|x r IH]; intros i j Hij.
  - unfold psum. rewrite skipn_nil, !firstn_nil. simpl. lra.
  - destruct i as [|i].
    + rewrite psum_0, Nat.sub_0_r. simpl skipn. unfold psum. lra.
    + destruct j as [|j]; [lia|]. rewrite !psum_cons. simpl skipn. simpl Nat.sub.
      rewrite (IH i j) by lia. lra.
Qed.

Lemma psum_pos_step (l : list R) : Forall (fun c => 0 < c) l ->
  forall i j, (i < j <= length l)%nat -> psum l i < psum l j.
Proof.
  induction 1 as [|x r Hx Hr IH]; intros i j Hij; simpl in Hij; [lia|].
  destruct j as [|j]; [lia|]. rewrite psum_cons.
  destruct i as [|i].
  - rewrite psum_0.
    assert (0 <= psum r j).
    { pose proof (psum_mono r) as Hm. rewrite <- (psum_0 r). apply Hm; [|lia].
      eapply Forall_impl; [|exact Hr]. simpl. intros; lra. }
    lra.
  - rewrite psum_cons. specialize (IH i j ltac:(lia)). lra.
Qed.

Lemma range_sum_pos (l : list R) : Forall (fun c => 0 < c) l ->
  forall i j, (i < j <= length l)%nat -> 0 < range_sum l i j.
Proof.
  intros Hl i j Hij. pose proof (psum_range l i j ltac:(lia)).
  pose proof (psum_pos_step l Hl i j Hij). lra.
Qed.

Lemma range_sum_split (l : list R) i j k : (i <= j <= k)%nat ->
  range_sum l i k = range_sum l i j + range_sum l j k.
Proof.
  intros H. pose proof (psum_range l i j ltac:(lia)). pose proof (psum_range l j k ltac:(lia)).
  pose proof (psum_range l i k ltac:(lia)). lra.
Qed.

(** ** the log-sum inequality *)
Lemma ln_le_minus_1 x : 0 < x -> ln x <= x - 1.
Proof.
  intros Hx. pose proof (exp_ineq1_le (ln x)) as H. rewrite exp_ln in H by assumption. lra.
Qed.

Lemma logsum_term y n r : 0 < y -> 0 < n -> 0 < r -> y - n * r <= y * (ln y - ln n - ln r).
Proof.
  intros Hy Hn Hr.
  assert (Hq : 0 < n * r / y).
  { apply Rmult_lt_0_compat; [apply Rmult_lt_0_compat; assumption|now apply Rinv_0_lt_compat]. }
  pose proof (ln_le_minus_1 _ Hq) as H.
  unfold Rdiv in H. rewrite ln_mult in H by (try apply Rmult_lt_0_compat; try apply Rinv_0_lt_compat; assumption).
  rewrite ln_mult in H by assumption. rewrite ln_Rinv in H by assumption.
  assert (Hm : y * (ln n + ln r + - ln y) <= y * (n * r * / y - 1)).
  { apply Rmult_le_compat_l; lra. }
  replace (y * (n * r * / y - 1)) with (n * r - y) in Hm by (field; lra).
  lra.
Qed.

Lemma deviance_superadditive y1 n1 y2 n2 : 0 < y1 -> 0 < n1 -> 0 < y2 -> 0 < n2 ->
  deviance y1 n1 + deviance y2 n2 <= deviance (y1 + y2) (n1 + n2).
Proof.
  intros Hy1 Hn1 Hy2 Hn2. unfold deviance.
  set (r := (y1 + y2) / (n1 + n2)).
  assert (Hr : 0 < r).
  { unfold r. apply Rmult_lt_0_compat; [lra|apply Rinv_0_lt_compat; lra]. }
  assert (Hlnr : ln r = ln (y1 + y2) - ln (n1 + n2)).
  { unfold r, Rdiv. rewrite ln_mult by (try apply Rinv_0_lt_compat; lra).
    rewrite ln_Rinv by lra. lra. }
  pose proof (logsum_term y1 n1 r Hy1 Hn1 Hr) as H1.
  pose proof (logsum_term y2 n2 r Hy2 Hn2 Hr) as H2.
  assert (Hz : (n1 + n2) * r = y1 + y2) by (unfold r; field; lra).
  rewrite Hlnr in H1, H2.
  set (L := ln (y1 + y2) - ln (n1 + n2)) in *.
  (* goal is linear in the logarithm terms once the products are named *)
  assert (y1 * (ln y1 - ln n1) + y2 * (ln y2 - ln n2) >= (y1 + y2) * L) by nra.
  nra.
Qed.

Section PoissonSpec.
  Variables counts offset : list R.
  Variables pen minc mino : R.
  Hypothesis Hlen : length counts = length offset.
  Hypothesis Hoff : Forall (fun c => 0 < c) offset.
  Hypothesis Hpen : 0 <= pen.
  Hypothesis Hminc : 0 <= minc.
  Hypothesis Hmino : 0 <= mino.
  (** no segment that meets the minima has a zero count *)
  Hypothesis Hnz : 0 < minc \/ Forall (fun c => 0 < c) counts.

  Let dim := length counts.
  Let f := poisson_cost RNum ln (cum0 RNum offset) (cum0 RNum counts) minc mino.
  Let g := spec_cost counts offset minc mino.
  Let prune := Rleb minc 0 && Rleb mino 0.

  Lemma f_unfold i j : (i < j <= dim)%nat ->
    f i j = let n := range_sum offset i j in let y := range_sum counts i j in
            if Rltb n mino || Rltb y minc then Inf
            else if Reqb y 0 then NaN else Fin (deviance y n).
  Proof.
    intros Hij. unfold f, poisson_cost. simpl zero.
    rewrite !cum0_nth by (unfold dim in *; lia).
    rewrite (psum_range offset i j) by lia. rewrite (psum_range counts i j) by lia.
    simpl sub.
    replace (psum offset i + range_sum offset i j - psum offset i) with (range_sum offset i j) by ring.
    replace (psum counts i + range_sum counts i j - psum counts i) with (range_sum counts i j) by ring.
    cbv zeta. simpl ltb. simpl eqb.
    destruct (Rltb _ mino || Rltb _ minc); [reflexivity|].
    destruct (Reqb _ 0); [reflexivity|].
    f_equal.
  Qed.

  Lemma f_eq_g i j : (i < j <= dim)%nat -> f i j = g i j.
  Proof.
    intros Hij. rewrite f_unfold by assumption. unfold g, spec_cost. cbv zeta.
    set (n := range_sum offset i j). set (y := range_sum counts i j).
    destruct (Rltb n mino) eqn:En; simpl orb.
    - apply Rltb_true in En. assert (Rleb mino n = false) as -> by (apply Rleb_false; lra). reflexivity.
    - apply Rltb_false in En. assert (Rleb mino n = true) as -> by (apply Rleb_true; lra). simpl andb.
      destruct (Rltb y minc) eqn:Ey.
      + apply Rltb_true in Ey. assert (Rleb minc y = false) as -> by (apply Rleb_false; lra). reflexivity.
      + apply Rltb_false in Ey. assert (Rleb minc y = true) as -> by (apply Rleb_true; lra).
        assert (Hy : 0 < y).
        { destruct Hnz as [Hm|Hall]; [lra|]. apply range_sum_pos; [assumption|]. unfold dim in Hij. lia. }
        assert (Reqb y 0 = false) as ->; [|reflexivity].
        destruct (Reqb y 0) eqn:E; [|reflexivity]. apply Reqb_true in E. lra.
  Qed.

  Lemma prune_all_pos : prune = true -> minc = 0 /\ mino = 0 /\ Forall (fun c => 0 < c) counts.
  Proof.
    unfold prune. intros H. apply andb_true_iff in H. destruct H as [H1 H2].
    apply Rleb_true in H1. apply Rleb_true in H2.
    split; [lra|]. split; [lra|]. destruct Hnz; [lra|assumption].
  Qed.

  Lemma f_fin_prune : prune = true -> forall i j, (i < j <= dim)%nat ->
    f i j = Fin (deviance (range_sum counts i j) (range_sum offset i j)).
  Proof.
    intros Hp i j Hij. destruct (prune_all_pos Hp) as (Hc0 & Ho0 & Hall).
    rewrite f_eq_g by assumption. unfold g, spec_cost. cbv zeta.
    pose proof (range_sum_pos counts Hall i j ltac:(unfold dim in *; lia)).
    pose proof (range_sum_pos offset Hoff i j ltac:(unfold dim in *; lia)).
    assert (Rleb mino (range_sum offset i j) = true) as -> by (apply Rleb_true; lra).
    assert (Rleb minc (range_sum counts i j) = true) as -> by (apply Rleb_true; lra).
    reflexivity.
  Qed.

  Theorem poisson_optimal :
    exists b, poisson_changepoints RNum ln counts offset pen minc mino = Some b /\
      forall b' v', is_seg pen dim g b' v' -> exists v, is_seg pen dim g b v /\ v <= v'.
  Proof.
    unfold poisson_changepoints. change (T RNum) with R.
    rewrite Hlen, Nat.eqb_refl. simpl negb. simpl leb. simpl zero.
    assert (Rleb 0 minc = true) as -> by (now apply Rleb_true).
    assert (Rleb 0 mino = true) as -> by (now apply Rleb_true).
    assert (Rleb 0 pen = true) as -> by (now apply Rleb_true).
    simpl negb. cbv iota. cbv zeta. rewrite <- Hlen. fold dim. fold f. fold prune.
    apply (pelt_optimal f pen prune dim Hpen).
    - intros Hp i j Hij. rewrite (f_fin_prune Hp i j Hij). eauto.
    - intros Hp i j k c1 c2 c3 Hijk Hk H1 H2 H3.
      destruct (prune_all_pos Hp) as (_ & _ & Hall).
      rewrite (f_fin_prune Hp) in H1, H2, H3 by lia.
      inversion H1; inversion H2; inversion H3; subst.
      rewrite (range_sum_split counts i j k) by lia.
      rewrite (range_sum_split offset i j k) by lia.
      apply deviance_superadditive; apply range_sum_pos; try assumption; unfold dim in *; lia.
    - exact f_eq_g.
  Qed.
End PoissonSpec.
