(** * Relational reading of the loop body of [propagate_likelihood] (model.EP.edge_step),
    for any numeric instance and any projection oracle.  Every successful step is one of:
    skip (both ends fixed), one message update (child side, or parent side incl. the twin
    case), or two message updates (both ends free).  The invariants of C21 / C05 / C20 are
    proved against this relation. *)
From Coq Require Import List Arith Bool Lia.
From TsdateV Require Import lib.Num model.EP.
Import ListNotations.

Section Spec.
  Variable N : Num.
  Notation T := (T N).
  Notation V2 := (V2 N).
  Notation state := (state N).
  Variable tiny infty : T.
  Variable nE : nat.
  Variable ep ec : nat -> nat.
  Variable nB : nat.
  Variable bj bk : nat -> nat.
  Variable nN : nat.
  Variable lo hi : nat -> T.
  Variable Orc : Type.
  Variable project : Orc -> call N -> option (V2 * V2 * Orc).

  Notation rescale_factors := (rescale_factors N ep ec bj bk).
  Notation fixedb := (fixedb N lo hi).
  Notation apply_one := (apply_one N).

  (** the state the body works on: after the TINY-triggered [_rescale_factors] *)
  Definition mr (st0 : state) (p c : nat) : state :=
    if ltb N (scl st0 p) tiny || ltb N (scl st0 c) tiny then rescale_factors st0 else st0.

  Definition msgof (unph side : bool) (st : state) (i u : nat) : V2 :=
    vscal (side_get N side (fget N unph st i)) (scl st u).
  Definition cavof (unph side : bool) (st : state) (i u : nat) (d : T) : V2 :=
    vsub (post st u) (vscal (msgof unph side st i u) d).

  Section Rel.
    Variable unph : bool.
    Variable par chi : nat -> nat.
    Variable lik : nat -> V2.
    Variable S s : T.

    Inductive step_rel : state * Orc -> nat -> state * Orc -> Prop :=
    | SR_skip st0 o i :
        fixedb (par i) = true -> fixedb (chi i) = true ->
        step_rel (st0, o) i (mr st0 (par i) (chi i), o)
    | SR_child st0 o i d newp newc o' eta :
        fixedb (par i) = true -> fixedb (chi i) = false ->
        damp (post (mr st0 (par i) (chi i)) (chi i))
             (msgof unph true (mr st0 (par i) (chi i)) i (chi i)) s = Some d ->
        project o (0%nat, unph, lo (par i), vzero,
                   cavof unph true (mr st0 (par i) (chi i)) i (chi i) d, vscal (lik i) d)
          = Some (newp, newc, o') ->
        rescale1 newc S = Some eta ->
        step_rel (st0, o) i
          (apply_one unph true (mr st0 (par i) (chi i)) i (chi i) d
             (cavof unph true (mr st0 (par i) (chi i)) i (chi i) d) newc eta, o')
    | SR_parent st0 o i kd age d newp newc o' eta :
        fixedb (par i) = false ->
        (kd = 1%nat /\ age = lo (chi i) /\ fixedb (chi i) = true) \/
        (kd = 2%nat /\ age = zero N /\ fixedb (chi i) = false /\ par i = chi i /\ unph = true) ->
        damp (post (mr st0 (par i) (chi i)) (par i))
             (msgof unph false (mr st0 (par i) (chi i)) i (par i)) s = Some d ->
        project o (kd, unph, age,
                   cavof unph false (mr st0 (par i) (chi i)) i (par i) d, vzero, vscal (lik i) d)
          = Some (newp, newc, o') ->
        rescale1 newp S = Some eta ->
        step_rel (st0, o) i
          (apply_one unph false (mr st0 (par i) (chi i)) i (par i) d
             (cavof unph false (mr st0 (par i) (chi i)) i (par i) d) newp eta, o')
    | SR_both st0 o i dp dc newp newc o' etap etac :
        fixedb (par i) = false -> fixedb (chi i) = false -> par i <> chi i ->
        damp (post (mr st0 (par i) (chi i)) (par i))
             (msgof unph false (mr st0 (par i) (chi i)) i (par i)) s = Some dp ->
        damp (post (mr st0 (par i) (chi i)) (chi i))
             (msgof unph true (mr st0 (par i) (chi i)) i (chi i)) s = Some dc ->
        project o (3%nat, unph, zero N,
                   cavof unph false (mr st0 (par i) (chi i)) i (par i) (if ltb N dc dp then dc else dp),
                   cavof unph true (mr st0 (par i) (chi i)) i (chi i) (if ltb N dc dp then dc else dp),
                   vscal (lik i) (if ltb N dc dp then dc else dp))
          = Some (newp, newc, o') ->
        rescale1 newp S = Some etap ->
        rescale1 newc S = Some etac ->
        step_rel (st0, o) i
          (apply_one unph true
             (apply_one unph false (mr st0 (par i) (chi i)) i (par i) (if ltb N dc dp then dc else dp)
                (cavof unph false (mr st0 (par i) (chi i)) i (par i) (if ltb N dc dp then dc else dp))
                newp etap)
             i (chi i) (if ltb N dc dp then dc else dp)
             (cavof unph true (mr st0 (par i) (chi i)) i (chi i) (if ltb N dc dp then dc else dp))
             newc etac, o').

    Notation edge_step :=
      (edge_step N tiny ep ec bj bk lo hi Orc project unph).

    Lemma edge_step_rel n so i so' :
      edge_step n par chi lik S s so i = Some so' -> (i < n)%nat /\ step_rel so i so'.
    Proof.
      destruct so as [st0 o]. unfold edge_step.
      destruct (Nat.ltb i n) eqn:Hi; cbn [negb]; [|discriminate].
      apply Nat.ltb_lt in Hi. intro H. split; [exact Hi|].
      fold (mr st0 (par i) (chi i)) in H.
      destruct (fixedb (par i)) eqn:Fp; destruct (fixedb (chi i)) eqn:Fc; cbn [andb] in H.
      - inversion H; subst. apply SR_skip; assumption.
      - fold (msgof unph true (mr st0 (par i) (chi i)) i (chi i)) in H.
        destruct (damp _ _ s) as [d|] eqn:Hd; cbn [obind] in H; [|discriminate].
        fold (cavof unph true (mr st0 (par i) (chi i)) i (chi i) d) in H.
        destruct (project o _) as [[[newp newc] o']|] eqn:Hp; cbn [obind] in H; [|discriminate].
        destruct (rescale1 newc S) as [eta|] eqn:Hr; cbn [obind] in H; [|discriminate].
        inversion H; subst. eapply SR_child; eassumption.
      - fold (msgof unph false (mr st0 (par i) (chi i)) i (par i)) in H.
        destruct (damp _ _ s) as [d|] eqn:Hd; cbn [obind] in H; [|discriminate].
        fold (cavof unph false (mr st0 (par i) (chi i)) i (par i) d) in H.
        destruct (project o _) as [[[newp newc] o']|] eqn:Hp; cbn [obind] in H; [|discriminate].
        destruct (rescale1 newp S) as [eta|] eqn:Hr; cbn [obind] in H; [|discriminate].
        inversion H; subst. eapply SR_parent; try eassumption. left; auto.
      - destruct (Nat.eqb (par i) (chi i)) eqn:Epc.
        + apply Nat.eqb_eq in Epc.
          destruct (negb unph) eqn:Hu; [discriminate|]. apply negb_false_iff in Hu.
          fold (msgof unph false (mr st0 (par i) (chi i)) i (par i)) in H.
          destruct (damp _ _ s) as [d|] eqn:Hd; cbn [obind] in H; [|discriminate].
          fold (cavof unph false (mr st0 (par i) (chi i)) i (par i) d) in H.
          destruct (project o _) as [[[newp newc] o']|] eqn:Hp; cbn [obind] in H; [|discriminate].
          destruct (rescale1 newp S) as [eta|] eqn:Hr; cbn [obind] in H; [|discriminate].
          inversion H; subst. eapply SR_parent; try eassumption. right; auto.
        + apply Nat.eqb_neq in Epc.
          fold (msgof unph false (mr st0 (par i) (chi i)) i (par i)) in H.
          fold (msgof unph true (mr st0 (par i) (chi i)) i (chi i)) in H.
          destruct (damp (post _ (par i)) _ s) as [dp|] eqn:Hdp; cbn [obind] in H; [|discriminate].
          destruct (damp (post _ (chi i)) _ s) as [dc|] eqn:Hdc; cbn [obind] in H; [|discriminate].
          fold (cavof unph false (mr st0 (par i) (chi i)) i (par i) (if ltb N dc dp then dc else dp)) in H.
          fold (cavof unph true (mr st0 (par i) (chi i)) i (chi i) (if ltb N dc dp then dc else dp)) in H.
          destruct (project o _) as [[[newp newc] o']|] eqn:Hp; cbn [obind] in H; [|discriminate].
          destruct (rescale1 newp S) as [etap|] eqn:Hrp; cbn [obind] in H; [|discriminate].
          destruct (rescale1 newc S) as [etac|] eqn:Hrc; cbn [obind] in H; [|discriminate].
          inversion H; subst. eapply SR_both; eassumption.
    Qed.

    (** a property preserved by every step is preserved by the whole loop *)
    Lemma edge_loop_ind (P : state * Orc -> Prop) n :
      (forall so i so', (i < n)%nat -> step_rel so i so' -> P so -> P so') ->
      forall order so so',
        edge_loop N tiny ep ec bj bk lo hi Orc project unph n par chi lik S s order so = Some so' ->
        P so -> P so'.
    Proof.
      intros Hstep order. induction order as [|i r IH]; intros so so' H HP; cbn in H.
      - inversion H; subst; exact HP.
      - destruct (edge_step n par chi lik S s so i) as [so1|] eqn:E; cbn [obind] in H; [|discriminate].
        apply edge_step_rel in E. destruct E as [Hi Hr].
        eapply IH; [exact H|]. eapply Hstep; eassumption.
    Qed.
  End Rel.

  (** ** Arbitrary sequences of the operations of [iterate] (specification device: the
      bookkeeping theorems quantify over every such sequence, [iterate] is one of them).
      [OLik true] runs over singleton blocks with [block_nodes], [OLik false] over edges. *)
  Inductive op : Type :=
  | OLik (unph : bool) (order : list nat) (lik : nat -> V2) (S s : T)
  | OPrior (free : nat -> bool) (S : T) (em_maxitt : nat) (em_reltol : T)
  | OPriorPen (free : nat -> bool) (S pen : T)
  | ORescale.

  Definition op_shape (o : op) : option T :=
    match o with
    | OLik _ _ _ sh _ => Some sh
    | OPrior _ sh _ _ => Some sh
    | OPriorPen _ sh _ => Some sh
    | ORescale => None
    end.
  Definition op_free (o : op) : nat -> bool :=
    match o with
    | OPrior f _ _ _ => f
    | OPriorPen f _ _ => f
    | _ => fun _ => false
    end.

  Definition run_op (o : op) (so : state * Orc) : option (state * Orc) :=
    match o with
    | OLik unph order lik sh s =>
        propagate_likelihood N tiny ep ec bj bk lo hi Orc project unph
          (if unph then nB else nE) (if unph then bj else ep) (if unph then bk else ec)
          lik sh s order so
    | OPrior free sh mx rt =>
        obind (propagate_prior N infty nN free sh mx rt (fst so)) (fun st => Some (st, snd so))
    | OPriorPen free sh pen =>
        obind (prior_update N nN free sh pen (fst so)) (fun st => Some (st, snd so))
    | ORescale => Some (rescale_factors (fst so), snd so)
    end.

  Fixpoint run_ops (ops : list op) (so : state * Orc) : option (state * Orc) :=
    match ops with
    | [] => Some so
    | o :: r => obind (run_op o so) (run_ops r)
    end.

  Lemma run_ops_ind (P : state * Orc -> Prop) (Q : op -> Prop) :
    (forall o so so', Q o -> run_op o so = Some so' -> P so -> P so') ->
    forall ops so so', Forall Q ops -> run_ops ops so = Some so' -> P so -> P so'.
  Proof. intros Hstep ops. induction ops as [|o r IH]; intros so so' HQ H HP; cbn in H.
    - inversion H; subst; exact HP.
    - inversion HQ; subst. destruct (run_op o so) as [so1|] eqn:E; cbn [obind] in H; [|discriminate].
      eapply IH; eauto. Qed.

  (** [iterate] is such a sequence *)
  Lemma iterate_as_ops block_order edge_order blik elik free S s mx rt (regularise : bool) so :
    iterate N tiny infty nE ep ec nB bj bk nN lo hi Orc project block_order edge_order blik elik
      free S s mx rt regularise so
    = run_ops ([OLik true block_order blik S s; OLik false edge_order elik S s]
               ++ (if regularise then [OPrior free S mx rt] else []) ++ [ORescale]) so.
  Proof. unfold iterate. cbn [run_ops app run_op].
    destruct (propagate_likelihood _ _ _ _ _ _ _ _ _ _ true _ _ _ _ _ _ _ so) as [so1|]; cbn [obind]; [|reflexivity].
    destruct (propagate_likelihood _ _ _ _ _ _ _ _ _ _ false _ _ _ _ _ _ _ so1) as [so2|]; cbn [obind]; [|reflexivity].
    destruct regularise; cbn [app run_ops run_op obind].
    - destruct (propagate_prior _ _ _ _ _ _ _ _) as [st3|]; cbn [obind fst snd]; reflexivity.
    - reflexivity. Qed.

  (** ** Structural facts: which posteriors an operation can write *)
  Lemma fset_post unph (st : state) i x : post (fset N unph st i x) = post st.
  Proof. unfold fset; destruct unph; reflexivity. Qed.
  Lemma fset_scl unph (st : state) i x : scl (fset N unph st i x) = scl st.
  Proof. unfold fset; destruct unph; reflexivity. Qed.

  Lemma apply_one_post_other unph side (st : state) i u d cav new eta w : w <> u ->
    post (apply_one unph side st i u d cav new eta) w = post st w.
  Proof. intro H. unfold EP.apply_one. cbn [post]. rewrite fset_post. unfold updf.
    destruct (Nat.eqb_spec w u); congruence. Qed.
  Lemma apply_one_scl_other unph side (st : state) i u d cav new eta w : w <> u ->
    scl (apply_one unph side st i u d cav new eta) w = scl st w.
  Proof. intro H. unfold EP.apply_one. cbn [scl]. rewrite fset_scl. unfold updf.
    destruct (Nat.eqb_spec w u); congruence. Qed.
  Lemma apply_one_other_side unph side (st : state) i u d cav new eta :
    side_get N (negb side) (fget N unph (apply_one unph side st i u d cav new eta) i)
    = side_get N (negb side) (fget N unph st i).
  Proof. unfold EP.apply_one, fset, fget, updf; destruct unph, side; cbn; rewrite Nat.eqb_refl; reflexivity. Qed.

  Lemma mr_post st p c : post (mr st p c) = post st.
  Proof. unfold mr. destruct (_ || _); reflexivity. Qed.

  Lemma step_rel_post_fixed unph par chi lik S s so i so' w :
    step_rel unph par chi lik S s so i so' -> fixedb w = true -> post (fst so') w = post (fst so) w.
  Proof. intros Hr Hw. destruct Hr; cbn [fst].
    - rewrite mr_post; reflexivity.
    - rewrite apply_one_post_other, mr_post; [reflexivity|]. intro; subst; congruence.
    - rewrite apply_one_post_other, mr_post; [reflexivity|]. intro; subst; congruence.
    - rewrite !apply_one_post_other, mr_post; [reflexivity| |]; intro; subst; congruence.
  Qed.

  Lemma prior_sets_post_other cav pen l : forall (st : state) w, ~ In w l ->
    post (fold_left (prior_set N cav pen) l st) w = post st w.
  Proof. induction l as [|a l IH]; intros st w Hw; cbn [fold_left]; [reflexivity|].
    rewrite IH by (intro; apply Hw; right; assumption).
    unfold prior_set, updf. cbn [post]. destruct (Nat.eqb_spec w a); [|reflexivity].
    exfalso; apply Hw; left; congruence. Qed.

  Lemma prior_caps_post_other S l : forall ost (st' : state) w, ~ In w l ->
    fold_left (prior_cap N S) l ost = Some st' ->
    exists st, ost = Some st /\ post st' w = post st w.
  Proof. induction l as [|a l IH]; intros ost st' w Hw H; cbn [fold_left] in H.
    - exists st'. split; [exact H|reflexivity].
    - destruct (IH _ _ w (fun Q => Hw (or_intror Q)) H) as (st1 & E1 & P1).
      unfold prior_cap in E1. destruct ost as [st|]; cbn [obind] in E1; [|discriminate].
      destruct (rescale1 (post st a) S); cbn [obind] in E1; [|discriminate].
      inversion E1; subst. exists st. split; [reflexivity|]. rewrite P1. cbn [post]. unfold updf.
      destruct (Nat.eqb_spec w a); [|reflexivity]. exfalso; apply Hw; left; congruence. Qed.

  Lemma prior_update_post_other free S pen (st st' : state) w : free w = false ->
    prior_update N nN free S pen st = Some st' -> post st' w = post st w.
  Proof. intros Hw H. unfold prior_update in H.
    assert (Hn : ~ In w (free_nodes nN free)).
    { unfold free_nodes. rewrite filter_In. intros [_ Q]. congruence. }
    destruct (prior_caps_post_other S _ _ _ w Hn H) as (st1 & E & P). inversion E; subst.
    rewrite P. apply prior_sets_post_other; exact Hn. Qed.

  Lemma run_op_post_fixed o so so' w :
    (forall u, op_free o u = true -> fixedb u = false) ->
    run_op o so = Some so' -> fixedb w = true -> post (fst so') w = post (fst so) w.
  Proof. intros Hf H Hw. destruct o as [unph order lik S s|free S mx rt|free S pen|]; cbn [run_op op_free] in *.
    - unfold propagate_likelihood in H. destruct (_ && _); [|discriminate].
      eapply (edge_loop_ind unph _ _ lik S s (fun so1 => post (fst so1) w = post (fst so) w) (if unph then nB else nE));
        [|exact H|reflexivity].
      intros so1 i so2 _ Hr E. rewrite <- E. eapply step_rel_post_fixed; eassumption.
    - assert (Fw : free w = false) by (destruct (free w) eqn:Q; [apply Hf in Q; congruence|reflexivity]).
      destruct (propagate_prior _ _ _ _ _ _ _ _) as [st|] eqn:E; cbn [obind] in H; [|discriminate].
      inversion H; subst; cbn [fst]. unfold propagate_prior in E.
      destruct (negb _); [discriminate|]. destruct (free_nodes nN free) eqn:Q; [inversion E; reflexivity|].
      rewrite <- Q in E. destruct (ltb N _ _); [|discriminate].
      eapply prior_update_post_other; eassumption.
    - assert (Fw : free w = false) by (destruct (free w) eqn:Q; [apply Hf in Q; congruence|reflexivity]).
      destruct (prior_update _ _ _ _ _ _) as [st|] eqn:E; cbn [obind] in H; [|discriminate].
      inversion H; subst; cbn [fst]. eapply prior_update_post_other; eassumption.
    - inversion H; subst; reflexivity.
  Qed.

  Lemma run_ops_post_fixed ops so so' w :
    Forall (fun o => forall u, op_free o u = true -> fixedb u = false) ops ->
    run_ops ops so = Some so' -> fixedb w = true -> post (fst so') w = post (fst so) w.
  Proof. intros HQ H Hw.
    apply (run_ops_ind (fun so1 => post (fst so1) w = post (fst so) w) _
             (fun o so1 so2 Q E P => eq_trans (run_op_post_fixed o so1 so2 w Q E Hw) P) ops so so' HQ H eq_refl). Qed.

  (** [node_moments] of a fixed node is its constraint, with zero variance *)
  Lemma node_moments_fixed (st : state) w : fixedb w = true ->
    node_moments N lo hi st w = (lo w, zero N).
  Proof. unfold fixedb, node_moments. intros ->. reflexivity. Qed.

  (** form used by props/C21.v *)
  Lemma C21_fixed ops so so' w :
    Forall (fun o => forall u, op_free o u = true -> fixedb u = false) ops ->
    run_ops ops so = Some so' -> fixedb w = true ->
    post (fst so') w = post (fst so) w /\ node_moments N lo hi (fst so') w = (lo w, zero N).
  Proof. intros HQ H Hw. split; [eapply run_ops_post_fixed; eassumption|apply node_moments_fixed; exact Hw]. Qed.
End Spec.
