(** * Relational reading of the loop body of [propagate_likelihood] (model.EP.edge_step),
    for any numeric instance and any projection oracle.  Every successful step is one of:
    skip (both ends fixed), one message update (child side, or parent side incl. the twin
    case), or two message updates (both ends free).  The invariants of C21 / C05 / C20 are
    proved against this relation. *)
From Coq Require Import List Arith Bool Lia.
From TsdateV Require Import lib.Num model.EP.
Import ListNotations.

Section Spec.
  Variable N : Num.
  Notation T := (T N).
  Notation V2 := (V2 N).
  Notation state := (state N).
  Variable tiny infty : T.
  Variable nE : nat.
  Variable ep ec : nat -> nat.
  Variable nB : nat.
  Variable bj bk : nat -> nat.
  Variable nN : nat.
  Variable lo hi : nat -> T.
  Variable Orc : Type.
  Variable project : Orc -> call N -> option (V2 * V2 * Orc).

  Notation rescale_factors := (rescale_factors N ep ec bj bk).
  Notation fixedb := (fixedb N lo hi).
  Notation apply_one := (apply_one N).

  (** the state the body works on: after the TINY-triggered [_rescale_factors] *)
  Definition mr (st0 : state) (p c : nat) : state :=
    if ltb N (scl st0 p) tiny || ltb N (scl st0 c) tiny then rescale_factors st0 else st0.

  Definition msgof (unph side : bool) (st : state) (i u : nat) : V2 :=
    vscal (side_get N side (fget N unph st i)) (scl st u).
  Definition cavof (unph side : bool) (st : state) (i u : nat) (d : T) : V2 :=
    vsub (post st u) (vscal (msgof unph side st i u) d).

  Section Rel.
    Variable unph : bool.
    Variable par chi : nat -> nat.
    Variable lik : nat -> V2.
    Variable S s : T.

    Inductive step_rel : state * Orc -> nat -> state * Orc -> Prop :=
    | SR_skip st0 o i :
        fixedb (par i) = true -> fixedb (chi i) = true ->
        step_rel (st0, o) i (mr st0 (par i) (chi i), o)
    | SR_child st0 o i d newp newc o' eta :
        fixedb (par i) = true -> fixedb (chi i) = false ->
        damp (post (mr st0 (par i) (chi i)) (chi i))
             (msgof unph true (mr st0 (par i) (chi i)) i (chi i)) s = Some d ->
        project o (0%nat, unph, lo (par i), vzero,
                   cavof unph true (mr st0 (par i) (chi i)) i (chi i) d, vscal (lik i) d)
          = Some (newp, newc, o') ->
        rescale1 newc S = Some eta ->
        step_rel (st0, o) i
          (apply_one unph true (mr st0 (par i) (chi i)) i (chi i) d
             (cavof unph true (mr st0 (par i) (chi i)) i (chi i) d) newc eta, o')
    | SR_parent st0 o i kd age d newp newc o' eta :
        fixedb (par i) = false ->
        (kd = 1%nat /\ age = lo (chi i) /\ fixedb (chi i) = true) \/
        (kd = 2%nat /\ age = zero N /\ fixedb (chi i) = false /\ par i = chi i /\ unph = true) ->
        damp (post (mr st0 (par i) (chi i)) (par i))
             (msgof unph false (mr st0 (par i) (chi i)) i (par i)) s = Some d ->
        project o (kd, unph, age,
                   cavof unph false (mr st0 (par i) (chi i)) i (par i) d, vzero, vscal (lik i) d)
          = Some (newp, newc, o') ->
        rescale1 newp S = Some eta ->
        step_rel (st0, o) i
          (apply_one unph false (mr st0 (par i) (chi i)) i (par i) d
             (cavof unph false (mr st0 (par i) (chi i)) i (par i) d) newp eta, o')
    | SR_both st0 o i dp dc newp newc o' etap etac :
        fixedb (par i) = false -> fixedb (chi i) = false -> par i <> chi i ->
        damp (post (mr st0 (par i) (chi i)) (par i))
             (msgof unph false (mr st0 (par i) (chi i)) i (par i)) s = Some dp ->
        damp (post (mr st0 (par i) (chi i)) (chi i))
             (msgof unph true (mr st0 (par i) (chi i)) i (chi i)) s = Some dc ->
        project o (3%nat, unph, zero N,
                   cavof unph false (mr st0 (par i) (chi i)) i (par i) (if ltb N dc dp then dc else dp),
                   cavof unph true (mr st0 (par i) (chi i)) i (chi i) (if ltb N dc dp then dc else dp),
                   vscal (lik i) (if ltb N dc dp then dc else dp))
          = Some (newp, newc, o') ->
        rescale1 newp S = Some etap ->
        rescale1 newc S = Some etac ->
        step_rel (st0, o) i
          (apply_one unph true
             (apply_one unph false (mr st0 (par i) (chi i)) i (par i) (if ltb N dc dp then dc else dp)
                (cavof unph false (mr st0 (par i) (chi i)) i (par i) (if ltb N dc dp then dc else dp))
                newp etap)
             i (chi i) (if ltb N dc dp then dc else dp)
             (cavof unph true (mr st0 (par i) (chi i)) i (chi i) (if ltb N dc dp then dc else dp))
             newc etac, o').

    Notation edge_step :=
      (edge_step N tiny ep ec bj bk lo hi Orc project unph).

    Lemma edge_step_rel n so i so' :
      edge_step n par chi lik S s so i = Some so' -> (i < n)%nat /\ step_rel so i so'.
    Proof.
      destruct so as [st0 o]. unfold edge_step.
      destruct (Nat.ltb i n) eqn:Hi; cbn [negb]; [|discriminate].
      apply Nat.ltb_lt in Hi. intro H. split; [exact Hi|].
      fold (mr st0 (par i) (chi i)) in H.
      destruct (fixedb (par i)) eqn:Fp; destruct (fixedb (chi i)) eqn:Fc; cbn [andb] in H.
      - inversion H; subst. apply SR_skip; assumption.
      - fold (msgof unph true (mr st0 (par i) (chi i)) i (chi i)) in H.
        destruct (damp _ _ s) as [d|] eqn:Hd; cbn [obind] in H; [|discriminate].
        fold (cavof unph true (mr st0 (par i) (chi i)) i (chi i) d) in H.
        destruct (project o _) as [[[newp newc] o']|] eqn:Hp; cbn [obind] in H; [|discriminate].
        destruct (rescale1 newc S) as [eta|] eqn:Hr; cbn [obind] in H; [|discriminate].
        inversion H; subst. eapply SR_child; eassumption.
      - fold (msgof unph false (mr st0 (par i) (chi i)) i (par i)) in H.
        destruct (damp _ _ s) as [d|] eqn:Hd; cbn [obind] in H; [|discriminate].
        fold (cavof unph false (mr st0 (par i) (chi i)) i (par i) d) in H.
        destruct (project o _) as [[[newp newc] o']|] eqn:Hp; cbn [obind] in H; [|discriminate].
        destruct (rescale1 newp S) as [eta|] eqn:Hr; cbn [obind] in H; [|discriminate].
        inversion H; subst. eapply SR_parent; try eassumption. left; auto.
      - destruct (Nat.eqb (par i) (chi i)) eqn:Epc.
        + apply Nat.eqb_eq in Epc.
          destruct (negb unph) eqn:Hu; [discriminate|]. apply negb_false_iff in Hu.
          fold (msgof unph false (mr st0 (par i) (chi i)) i (par i)) in H.
          destruct (damp _ _ s) as [d|] eqn:Hd; cbn [obind] in H; [|discriminate].
          fold (cavof unph false (mr st0 (par i) (chi i)) i (par i) d) in H.
          destruct (project o _) as [[[newp newc] o']|] eqn:Hp; cbn [obind] in H; [|discriminate].
          destruct (rescale1 newp S) as [eta|] eqn:Hr; cbn [obind] in H; [|discriminate].
          inversion H; subst. eapply SR_parent; try eassumption. right; auto.
        + apply Nat.eqb_neq in Epc.
          fold (msgof unph false (mr st0 (par i) (chi i)) i (par i)) in H.
          fold (msgof unph true (mr st0 (par i) (chi i)) i (chi i)) in H.
          destruct (damp (post _ (par i)) _ s) as [dp|] eqn:Hdp; cbn [obind] in H; [|discriminate].
          destruct (damp (post _ (chi i)) _ s) as [dc|] eqn:Hdc; cbn [obind] in H; [|discriminate].
          fold (cavof unph false (mr st0 (par i) (chi i)) i (par i) (if ltb N dc dp then dc else dp)) in H.
          fold (cavof unph true (mr st0 (par i) (chi i)) i (chi i) (if ltb N dc dp then dc else dp)) in H.
          destruct (project o _) as [[[newp newc] o']|] eqn:Hp; cbn [obind] in H; [|discriminate].
          destruct (rescale1 newp S) as [etap|] eqn:Hrp; cbn [obind] in H; [|discriminate].
          destruct (rescale1 newc S) as [etac|] eqn:Hrc; cbn [obind] in H; [|discriminate].
          inversion H; subst. eapply SR_both; eassumption.
    Qed.

    (** a property preserved by every step is preserved by the whole loop *)
    Lemma edge_loop_ind (P : state * Orc -> Prop) n :
      (forall so i so', (i < n)%nat -> step_rel so i so' -> P so -> P so') ->
      forall order so so',
        edge_loop N tiny ep ec bj bk lo hi Orc project unph n par chi lik S s order so = Some so' ->
        P so -> P so'.
    Proof.
      intros Hstep order. induction order as [|i r IH]; intros so so' H HP; cbn in H.
      - inversion H; subst; exact HP.
      - destruct (edge_step n par chi lik S s so i) as [so1|] eqn:E; cbn [obind] in H; [|discriminate].
        apply edge_step_rel in E. destruct E as [Hi Hr].
        eapply IH; [exact H|]. eapply Hstep; eassumption.
    Qed.
  End Rel.
End Spec.
