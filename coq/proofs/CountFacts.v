(** * rescaling._count_mutations: the sweep maps every mutation to the edge above its node at
    its position, and (plain variant) tallies mutation counts and spans per edge (C24). *)
From Coq Require Import List ZArith Bool Arith Lia Sorting.Permutation Sorting.Sorted.
From TsdateV Require Import lib.Tables model.Sweep proofs.SweepFacts proofs.TablesFacts.
Import ListNotations.
Open Scope Z_scope.

(** ** insertion sort used for [np.argsort] *)
Lemma insert_by_perm key m l : Permutation (insert_by key m l) (m :: l).
Proof. induction l as [|k r IH]; cbn; [apply Permutation_refl|].
  destruct (key m <? key k); [apply Permutation_refl|].
  eapply Permutation_trans; [apply perm_skip; exact IH|apply perm_swap]. Qed.

Lemma insert_by_sorted key m l : sorted_by key l -> sorted_by key (insert_by key m l).
Proof. unfold sorted_by. induction 1 as [|k r Hs IH Hall]; cbn; [repeat constructor|].
  destruct (Z.ltb_spec (key m) (key k)) as [Hlt|Hge].
  - constructor; [constructor; assumption|]. constructor; [lia|].
    rewrite Forall_forall in *. intros b Hb. specialize (Hall b Hb). lia.
  - constructor; [exact IH|]. rewrite Forall_forall in *. intros b Hb.
    apply (Permutation_in _ (insert_by_perm key m r)) in Hb. destruct Hb as [<-|Hb]; [lia|apply Hall; exact Hb]. Qed.

Lemma argsort_perm key n : Permutation (argsort key n) (seq 0 n).
Proof. unfold argsort. induction (seq 0 n) as [|a r IH]; cbn; [constructor|].
  eapply Permutation_trans; [apply insert_by_perm|apply perm_skip; exact IH]. Qed.

Lemma argsort_sorted key n : sorted_by key (argsort key n).
Proof. unfold argsort. induction (seq 0 n) as [|a r IH]; cbn; [constructor|].
  apply insert_by_sorted; exact IH. Qed.

Lemma find_ext_in {A} (f g : A -> bool) l : (forall a, In a l -> f a = g a) -> find f l = find g l.
Proof. induction l as [|a r IH]; intro H; [reflexivity|]. cbn. rewrite <- (H a (or_introl eq_refl)).
  destruct (f a); [reflexivity|]. apply IH. intros b Hb. apply H. right; exact Hb. Qed.

(** count of [e] in a duplicate-free list of ids *)
Lemma zlen_filter_eq_seq (p : nat -> bool) e n :
  zlen (filter (fun a => p a && Nat.eqb a e) (seq 0 n)) = if (e <? n)%nat then b2z (p e) else 0.
Proof. induction n as [|n IH]; [reflexivity|].
  rewrite seq_S, filter_app. unfold zlen in *. rewrite app_length, Nat2Z.inj_add, IH. cbn [seq filter plus].
  destruct (Nat.eqb_spec n e) as [->|Hne].
  - rewrite andb_true_r. assert (H1 : (e <? e)%nat = false) by (apply Nat.ltb_ge; lia).
    assert (H2 : (e <? S e)%nat = true) by (apply Nat.ltb_lt; lia). rewrite H1, H2.
    destruct (p e); reflexivity.
  - rewrite andb_false_r. cbn [length]. destruct (Nat.ltb_spec e n), (Nat.ltb_spec e (S n)); try lia. Qed.

Section CountFacts.
  Variable es : list edge.
  Variable L : Z.
  Variable sb : bool.
  Variable mpos : nat -> Z.
  Variable mnode : nat -> nat.
  Variable nn : nat.
  Variable M : nat.
  Variable is_sample : nat -> bool.
  Variables insq remq : list nat.
  Hypothesis Hrange : edges_in_range L es.
  Hypothesis Hone : one_parent es.
  Hypothesis Hidx : valid_index es insq remq.
  Hypothesis HL : 0 <= L.
  Hypothesis Hmpos : forall m, (m < M)%nat -> 0 <= mpos m.

  Let kl := fun i => eleft (edge_at es i).
  Let kr := fun i => eright (edge_at es i).
  Let chi := fun i => echild (edge_at es i).
  Let n := length es.
  Let PI : Permutation insq (edge_ids es) := proj1 Hidx.
  Let PR : Permutation remq (edge_ids es) := proj1 (proj2 Hidx).
  Let SI : sorted_by kl insq := proj1 (proj2 (proj2 Hidx)).
  Let SR : sorted_by kr remq := proj2 (proj2 (proj2 Hidx)).
  Let srt := argsort mpos M.

  Lemma ckeysI a : In a insq -> 0 <= kl a <= L.
  Proof. intro Ha. apply (perm_in_ids es insq a PI) in Ha. destruct (Hrange a Ha). unfold kl. lia. Qed.
  Lemma ckeysR a : In a remq -> 0 <= kr a <= L.
  Proof. intro Ha. apply (perm_in_ids es remq a PR) in Ha. destruct (Hrange a Ha). unfold kr. lia. Qed.

  (** *** the edge above a node (reference semantics) *)
  Definition refz (x : Z) (c : nat) : Z :=
    match edge_above es x c with Some e => Z.of_nat e | None => -1 end.
  Definition refm (m : nat) : Z := refz (mpos m) (mnode m).

  Lemma edge_above_some x c e : edge_above es x c = Some e ->
    (e < n)%nat /\ covers (edge_at es e) x = true /\ chi e = c.
  Proof. unfold edge_above. intro H. apply find_some in H. destruct H as [Hi H].
    apply in_edge_ids in Hi. apply andb_true_iff in H. destruct H as [Hc Hp]. apply Nat.eqb_eq in Hp. tauto. Qed.

  Lemma edge_above_none x c e : edge_above es x c = None -> (e < n)%nat ->
    covers (edge_at es e) x = true -> chi e <> c.
  Proof. unfold edge_above. intros H Hi Hc Hp. assert (Hin : In e (edge_ids es)) by (apply in_edge_ids; exact Hi).
    assert (H' := find_none _ _ H e Hin). cbn in H'. rewrite Hc in H'. unfold chi in Hp. rewrite Hp, Nat.eqb_refl in H'.
    discriminate. Qed.

  Lemma edge_above_unique x c e : (e < n)%nat -> covers (edge_at es e) x = true -> chi e = c ->
    edge_above es x c = Some e.
  Proof. intros Hi Hc Hp. destruct (edge_above es x c) as [e2|] eqn:E.
    - destruct (edge_above_some x c e2 E) as [Hi2 [Hc2 Hp2]]. f_equal.
      apply (Hone e2 e x Hi2 Hi); [unfold chi in *; congruence|exact Hc2|exact Hc].
    - exfalso. exact (edge_above_none x c e E Hi Hc Hp). Qed.

  Lemma edge_above_ext x y c :
    (forall e, (e < n)%nat -> chi e = c -> covers (edge_at es e) x = covers (edge_at es e) y) ->
    edge_above es x c = edge_above es y c.
  Proof. intro H. unfold edge_above. apply find_ext_in. intros e He. apply in_edge_ids in He.
    destruct (Nat.eqb_spec (echild (edge_at es e)) c) as [Hp|Hp]; [|rewrite !andb_false_r; reflexivity].
    rewrite (H e He Hp). reflexivity. Qed.

  Lemma refz_outside x c : (x < 0 \/ forall e, (e < n)%nat -> kr e <= x) -> refz x c = -1.
  Proof. intro H. unfold refz. destruct (edge_above es x c) as [e|] eqn:E; [exfalso|reflexivity].
    destruct (edge_above_some x c e E) as [Hi [Hc _]]. apply covers_spec in Hc.
    destruct (Hrange e Hi). destruct H as [H|H]; [lia|]. specialize (H e Hi). unfold kr in H. lia. Qed.

  (** *** field-wise effect of the event handlers *)
  Lemma walk_up_keep : forall fuel sgn rem c e p s,
    cm_edge (walk_up fuel sgn rem c e p s) = cm_edge s /\
    cm_parent (walk_up fuel sgn rem c e p s) = cm_parent s /\
    cm_medge (walk_up fuel sgn rem c e p s) = cm_medge s /\
    cm_emuts (walk_up fuel sgn rem c e p s) = cm_emuts s /\
    cm_mq (walk_up fuel sgn rem c e p s) = cm_mq s.
  Proof. induction fuel as [|f IH]; intros sgn rem c e p s; cbn [walk_up]; [tauto|].
    destruct (p =? -1); [tauto|].
    match goal with |- cm_edge (walk_up f ?a ?b ?c0 ?e0 ?p0 ?s0) = _ /\ _ =>
      destruct (IH a b c0 e0 p0 s0) as [H1 [H2 [H3 [H4 H5]]]] end.
    rewrite H1, H2, H3, H4, H5. cbn. tauto. Qed.

  Notation rmv := (cm_rmv es L sb nn).
  Notation ins := (cm_ins es L sb nn).

  Lemma rmv_fields left e s :
    cm_edge (rmv left e s) = upd (cm_edge s) (chi e) (-1) /\ cm_medge (rmv left e s) = cm_medge s /\
    cm_emuts (rmv left e s) = cm_emuts s /\ cm_mq (rmv left e s) = cm_mq s.
  Proof. unfold cm_rmv. destruct sb.
    - match goal with |- context [walk_up ?f ?a ?b ?c0 ?e0 ?p0 ?s0] => destruct (walk_up_keep f a b c0 e0 p0 s0) as [H1 [H2 [H3 [H4 H5]]]] end.
      rewrite H1, H3, H4, H5. cbn. tauto.
    - cbn. tauto. Qed.

  Lemma ins_fields left e s :
    cm_edge (ins left e s) = upd (cm_edge s) (chi e) (Z.of_nat e) /\ cm_medge (ins left e s) = cm_medge s /\
    cm_emuts (ins left e s) = cm_emuts s /\ cm_mq (ins left e s) = cm_mq s.
  Proof. unfold cm_ins. destruct sb.
    - match goal with |- context [walk_up ?f ?a ?b ?c0 ?e0 ?p0 ?s0] => destruct (walk_up_keep f a b c0 e0 p0 s0) as [H1 [H2 [H3 [H4 H5]]]] end.
      rewrite H1, H3, H4, H5. cbn. tauto.
    - cbn. tauto. Qed.

  Lemma fold_rmv_keep left : forall l s,
    let s' := fold_left (fun s b => rmv left b s) l s in
    cm_medge s' = cm_medge s /\ cm_emuts s' = cm_emuts s /\ cm_mq s' = cm_mq s.
  Proof. induction l as [|a l IH]; intro s; cbn [fold_left]; [tauto|].
    destruct (IH (rmv left a s)) as [H1 [H2 H3]]. destruct (rmv_fields left a s) as [_ [G1 [G2 G3]]].
    cbn zeta. rewrite H1, H2, H3, G1, G2, G3. tauto. Qed.

  Lemma fold_ins_keep left : forall l s,
    let s' := fold_left (fun s b => ins left b s) l s in
    cm_medge s' = cm_medge s /\ cm_emuts s' = cm_emuts s /\ cm_mq s' = cm_mq s.
  Proof. induction l as [|a l IH]; intro s; cbn [fold_left]; [tauto|].
    destruct (IH (ins left a s)) as [H1 [H2 H3]]. destruct (ins_fields left a s) as [_ [G1 [G2 G3]]].
    cbn zeta. rewrite H1, H2, H3, G1, G2, G3. tauto. Qed.

  (** [nodes_edge[c]] after a run of removals / insertions *)
  Lemma fold_rmv_edge_other left c : forall l s, (forall e, In e l -> chi e <> c) ->
    cm_edge (fold_left (fun s b => rmv left b s) l s) c = cm_edge s c.
  Proof. induction l as [|a l IH]; intros s H; cbn [fold_left]; [reflexivity|].
    rewrite IH by (intros e He; apply H; right; exact He).
    destruct (rmv_fields left a s) as [G _]. rewrite G. apply upd_other.
    intro E. apply (H a (or_introl eq_refl)). symmetry; exact E. Qed.

  Lemma fold_rmv_edge_hit left c : forall l s, (cm_edge s c = -1 \/ exists e, In e l /\ chi e = c) ->
    cm_edge (fold_left (fun s b => rmv left b s) l s) c = -1.
  Proof. induction l as [|a l IH]; intros s H; cbn [fold_left].
    - destruct H as [H|[e [[] _]]]. exact H.
    - apply IH. destruct (rmv_fields left a s) as [G _]. rewrite G.
      destruct (Nat.eq_dec (chi a) c) as [<-|Hne]; [left; apply upd_same|].
      destruct H as [H|[e [[<-|He] Hp]]]; [left; rewrite upd_other by congruence; exact H|contradiction|].
      right. exists e. tauto. Qed.

  Lemma fold_ins_edge_other left c : forall l s, (forall e, In e l -> chi e <> c) ->
    cm_edge (fold_left (fun s b => ins left b s) l s) c = cm_edge s c.
  Proof. induction l as [|a l IH]; intros s H; cbn [fold_left]; [reflexivity|].
    rewrite IH by (intros e He; apply H; right; exact He).
    destruct (ins_fields left a s) as [G _]. rewrite G. apply upd_other.
    intro E. apply (H a (or_introl eq_refl)). symmetry; exact E. Qed.

  Lemma fold_ins_edge_hit left c v : forall l s, (forall e, In e l -> chi e = c -> Z.of_nat e = v) ->
    (cm_edge s c = v \/ exists e, In e l /\ chi e = c) ->
    cm_edge (fold_left (fun s b => ins left b s) l s) c = v.
  Proof. induction l as [|a l IH]; intros s Hv H; cbn [fold_left].
    - destruct H as [H|[e [[] _]]]. exact H.
    - apply IH; [intros e He; apply Hv; right; exact He|].
      destruct (ins_fields left a s) as [G _]. rewrite G.
      destruct (Nat.eq_dec (chi a) c) as [Hp|Hne].
      + left. rewrite <- Hp, upd_same. apply Hv; [left; reflexivity|exact Hp].
      + destruct H as [H|[e [[<-|He] Hp]]]; [left; rewrite upd_other by congruence; exact H|contradiction|].
        right. exists e. tauto. Qed.

  (** *** [nodes_edge] tracks the edge above every node *)
  Lemma in_evR left e : In e (evR kr remq left) <-> (e < n)%nat /\ kr e = left.
  Proof. unfold evR. rewrite filter_In, Z.eqb_eq, (perm_in_ids es remq e PR). reflexivity. Qed.
  Lemma in_evI left e : In e (evI kl insq left) <-> (e < n)%nat /\ kl e = left.
  Proof. unfold evI. rewrite filter_In, Z.eqb_eq, (perm_in_ids es insq e PI). reflexivity. Qed.

  Lemma nokey_edge prev left e : nokey kl kr insq remq prev left -> (e < n)%nat ->
    (kl e <= prev \/ left <= kl e) /\ (kr e <= prev \/ left <= kr e).
  Proof. intros [HI HR] He. split; [apply HI; apply (perm_in_ids es insq e PI); exact He|
                                    apply HR; apply (perm_in_ids es remq e PR); exact He]. Qed.

  Lemma edge_step prev left s c : prev < left -> nokey kl kr insq remq prev left ->
    (forall c, cm_edge s c = refz prev c) ->
    cm_edge (fold_left (fun s a => ins left a s) (evI kl insq left)
               (fold_left (fun s b => rmv left b s) (evR kr remq left) s)) c = refz left c.
  Proof. intros Hlt Hnk Hs.
    set (s1 := fold_left (fun s b => rmv left b s) (evR kr remq left) s).
    destruct (existsb (fun e => Nat.eqb (chi e) c) (evI kl insq left)) eqn:EI.
    - (* an edge above c starts here *)
      apply existsb_exists in EI. destruct EI as [e [He Hp]]. apply Nat.eqb_eq in Hp.
      assert (He' := He). apply in_evI in He'. destruct He' as [Hi Hk].
      assert (Hcov : covers (edge_at es e) left = true).
      { apply covers_spec. destruct (Hrange e Hi). unfold kl in Hk. lia. }
      unfold refz. rewrite (edge_above_unique left c e Hi Hcov Hp).
      apply fold_ins_edge_hit; [|right; exists e; tauto].
      intros e2 He2 Hp2. apply in_evI in He2. destruct He2 as [Hi2 Hk2]. f_equal.
      apply (Hone e2 e left Hi2 Hi); [unfold chi in *; congruence| |exact Hcov].
      apply covers_spec. destruct (Hrange e2 Hi2). unfold kl in Hk2. lia.
    - assert (HnoI : forall e, In e (evI kl insq left) -> chi e <> c).
      { intros e He Hp. assert (H : existsb (fun e => Nat.eqb (chi e) c) (evI kl insq left) = true)
          by (apply existsb_exists; exists e; split; [exact He|apply Nat.eqb_eq; exact Hp]). congruence. }
      rewrite fold_ins_edge_other by exact HnoI. unfold s1.
      destruct (existsb (fun e => Nat.eqb (chi e) c) (evR kr remq left)) eqn:ER.
      + (* the edge above c ends here and none starts *)
        apply existsb_exists in ER. destruct ER as [e [He Hp]]. apply Nat.eqb_eq in Hp.
        rewrite fold_rmv_edge_hit by (right; exists e; tauto).
        apply in_evR in He. destruct He as [Hi Hk].
        unfold refz. destruct (edge_above es left c) as [e2|] eqn:E2; [exfalso|reflexivity].
        destruct (edge_above_some left c e2 E2) as [Hi2 [Hc2 Hp2]]. apply covers_spec in Hc2.
        destruct (nokey_edge prev left e2 Hnk Hi2) as [Hl2 Hr2]. destruct (nokey_edge prev left e Hnk Hi) as [Hl1 Hr1].
        destruct (Hrange e Hi) as [Hre _]. unfold kl, kr in *.
        assert (Hl2' : eleft (edge_at es e2) <> left).
        { intro E. apply (HnoI e2); [apply in_evI; split; [exact Hi2|exact E]|exact Hp2]. }
        assert (e2 = e).
        { apply (Hone e2 e prev Hi2 Hi); [unfold chi in *; congruence| |]; apply covers_spec; lia. }
        subst e2. lia.
      + assert (HnoR : forall e, In e (evR kr remq left) -> chi e <> c).
        { intros e He Hp. assert (H : existsb (fun e => Nat.eqb (chi e) c) (evR kr remq left) = true)
            by (apply existsb_exists; exists e; split; [exact He|apply Nat.eqb_eq; exact Hp]). congruence. }
        rewrite fold_rmv_edge_other by exact HnoR. rewrite Hs. unfold refz.
        replace (edge_above es left c) with (edge_above es prev c); [reflexivity|].
        apply edge_above_ext. intros e Hi Hp.
        destruct (nokey_edge prev left e Hnk Hi) as [Hl Hr]. unfold kl, kr in *.
        assert (Hl' : eleft (edge_at es e) <> left) by (intro E; apply (HnoI e); [apply in_evI; tauto|exact Hp]).
        assert (Hr' : eright (edge_at es e) <> left) by (intro E; apply (HnoR e); [apply in_evR; tauto|exact Hp]).
        unfold covers.
        destruct (Z.leb_spec (eleft (edge_at es e)) prev), (Z.ltb_spec prev (eright (edge_at es e))),
                 (Z.leb_spec (eleft (edge_at es e)) left), (Z.ltb_spec left (eright (edge_at es e)));
          cbn; try reflexivity; lia. Qed.

  (** the edge above a node is constant between consecutive event positions *)
  Lemma refz_between left right x c : nokey kl kr insq remq left right -> left <= x < right ->
    refz x c = refz left c.
  Proof. intros Hnk Hx. unfold refz.
    replace (edge_above es left c) with (edge_above es x c); [reflexivity|].
    apply edge_above_ext. intros e Hi _.
    destruct (nokey_edge left right e Hnk Hi) as [Hl Hr]. unfold kl, kr, covers in *.
    destruct (Z.leb_spec (eleft (edge_at es e)) x), (Z.ltb_spec x (eright (edge_at es e))),
             (Z.leb_spec (eleft (edge_at es e)) left), (Z.ltb_spec left (eright (edge_at es e)));
      cbn; try reflexivity; lia. Qed.

  (** *** the mutation loop *)
  Definition mstep (s : cm_state) (m : nat) : cm_state :=
    let c := mnode m in
    let e := cm_edge s c in
    if e =? -1 then s
    else mkCM (cm_samples s) (cm_edge s) (cm_parent s) (upd (cm_medge s) m e)
              (upd (cm_emuts s) (Z.to_nat e) (cm_emuts s (Z.to_nat e) + (if sb then cm_samples s c else 1)))
              (cm_espan s) (cm_mq s).

  Definition set_mq (s : cm_state) (q : list nat) : cm_state :=
    mkCM (cm_samples s) (cm_edge s) (cm_parent s) (cm_medge s) (cm_emuts s) (cm_espan s) q.

  Lemma cm_muts_sorted right : forall q s, sorted_by mpos q ->
    cm_muts sb mpos mnode right q s =
      set_mq (fold_left mstep (filter (fun m => mpos m <? right) q) s) (filter (fun m => right <=? mpos m) q).
  Proof. induction q as [|m r IH]; intros s Hs; [destruct s; reflexivity|].
    cbn [cm_muts filter]. destruct (Z.ltb_spec (mpos m) right) as [Hlt|Hge].
    - assert (E : (right <=? mpos m) = false) by (apply Z.leb_gt; exact Hlt). rewrite E. cbn [fold_left].
      rewrite IH by (apply StronglySorted_inv in Hs; tauto). unfold mstep. reflexivity.
    - assert (E : (right <=? mpos m) = true) by (apply Z.leb_le; exact Hge). rewrite E.
      rewrite (filter_false_nil (fun m0 => mpos m0 <? right) r), (filter_true_id (fun m0 => right <=? mpos m0) r).
      + cbn. unfold set_mq. reflexivity.
      + intros b Hb. apply Z.leb_le. assert (H := sorted_head_min mpos m r b Hs (or_intror Hb)). lia.
      + intros b Hb. apply Z.ltb_ge. assert (H := sorted_head_min mpos m r b Hs (or_intror Hb)). lia. Qed.

  (** a run of [mstep] with a fixed [nodes_edge] *)
  Lemma fold_mstep_fields : forall l s,
    let s' := fold_left mstep l s in
    cm_edge s' = cm_edge s /\ cm_espan s' = cm_espan s /\ cm_mq s' = cm_mq s /\ cm_samples s' = cm_samples s.
  Proof. induction l as [|m l IH]; intro s; cbn [fold_left]; [tauto|].
    destruct (IH (mstep s m)) as [H1 [H2 [H3 H4]]]. cbn zeta. rewrite H1, H2, H3, H4.
    unfold mstep. destruct (cm_edge s (mnode m) =? -1); cbn; tauto. Qed.

  Lemma fold_mstep_medge : forall l s m,
    cm_medge (fold_left mstep l s) m =
      if existsb (Nat.eqb m) l && negb (cm_edge s (mnode m) =? -1) then cm_edge s (mnode m) else cm_medge s m.
  Proof. induction l as [|a l IH]; intros s m; cbn [fold_left existsb]; [reflexivity|].
    rewrite IH. assert (He : cm_edge (mstep s a) = cm_edge s) by (unfold mstep; destruct (cm_edge s (mnode a) =? -1); reflexivity).
    rewrite He. destruct (Nat.eqb_spec m a) as [->|Hne]; cbn [orb].
    - destruct (cm_edge s (mnode a) =? -1) eqn:E; cbn [negb andb].
      + rewrite andb_false_r. unfold mstep. rewrite E. reflexivity.
      + rewrite andb_true_r. unfold mstep. rewrite E. cbn [cm_medge]. rewrite upd_same.
        destruct (existsb (Nat.eqb a) l); reflexivity.
    - destruct (existsb (Nat.eqb m) l && negb (cm_edge s (mnode m) =? -1)); [reflexivity|].
      unfold mstep. destruct (cm_edge s (mnode a) =? -1); [reflexivity|]. cbn [cm_medge]. apply upd_other. exact Hne. Qed.

  (** plain variant: each processed mutation with an edge adds one to that edge *)
  Lemma fold_mstep_emuts (Hsb : sb = false) : forall l s e,
    (forall c, cm_edge s c = -1 \/ 0 <= cm_edge s c) ->
    cm_emuts (fold_left mstep l s) e =
      cm_emuts s e + zlen (filter (fun m => cm_edge s (mnode m) =? Z.of_nat e) l).
  Proof. induction l as [|a l IH]; intros s e Hnn; cbn [fold_left filter]; [unfold zlen; cbn; lia|].
    assert (He : cm_edge (mstep s a) = cm_edge s) by (unfold mstep; destruct (cm_edge s (mnode a) =? -1); reflexivity).
    rewrite IH by (rewrite He; exact Hnn). rewrite He.
    destruct (Z.eqb_spec (cm_edge s (mnode a)) (Z.of_nat e)) as [E|E].
    - unfold mstep. rewrite E.
      assert (H : (Z.of_nat e =? -1) = false) by (apply Z.eqb_neq; lia). rewrite H. cbn [cm_emuts].
      rewrite Nat2Z.id, upd_same, Hsb. unfold zlen. cbn [length]. lia.
    - unfold mstep. destruct (Z.eqb_spec (cm_edge s (mnode a)) (-1)) as [E1|E1]; [lia|].
      cbn [cm_emuts]. rewrite upd_other; [lia|]. intro E2. apply E. rewrite E2. rewrite Z2Nat.id; [reflexivity|].
      destruct (Hnn (mnode a)); lia. Qed.

  (** spans (plain variant): [+ (L - left)] at insertion, [- (L - left)] at removal *)
  Lemma fold_rmv_span (Hsb : sb = false) left e : forall l s,
    cm_espan (fold_left (fun s b => rmv left b s) l s) e =
      cm_espan s e - (L - left) * zlen (filter (fun a => Nat.eqb a e) l).
  Proof. induction l as [|a l IH]; intro s; cbn [fold_left filter]; [unfold zlen; cbn; lia|].
    rewrite IH. unfold cm_rmv. rewrite Hsb. cbn [cm_espan].
    destruct (Nat.eqb_spec a e) as [->|Hne].
    - rewrite upd_same. unfold zlen. cbn [length]. lia.
    - rewrite upd_other by congruence. lia. Qed.

  Lemma fold_ins_span (Hsb : sb = false) left e : forall l s,
    cm_espan (fold_left (fun s b => ins left b s) l s) e =
      cm_espan s e + (L - left) * zlen (filter (fun a => Nat.eqb a e) l).
  Proof. induction l as [|a l IH]; intro s; cbn [fold_left filter]; [unfold zlen; cbn; lia|].
    rewrite IH. unfold cm_ins. rewrite Hsb. cbn [cm_espan].
    destruct (Nat.eqb_spec a e) as [->|Hne].
    - rewrite upd_same. unfold zlen. cbn [length]. lia.
    - rewrite upd_other by congruence. lia. Qed.

  Lemma count_in_evR left e : (e < n)%nat ->
    zlen (filter (fun a => Nat.eqb a e) (evR kr remq left)) = b2z (kr e =? left).
  Proof. intro He. unfold evR. rewrite filter_filter. unfold zlen.
    rewrite (perm_filter_length _ remq (edge_ids es) PR). fold (zlen (filter (fun a => (kr a =? left) && Nat.eqb a e) (edge_ids es))).
    unfold edge_ids. rewrite zlen_filter_eq_seq. fold n. apply Nat.ltb_lt in He. rewrite He. reflexivity. Qed.

  Lemma count_in_evI left e : (e < n)%nat ->
    zlen (filter (fun a => Nat.eqb a e) (evI kl insq left)) = b2z (kl e =? left).
  Proof. intro He. unfold evI. rewrite filter_filter. unfold zlen.
    rewrite (perm_filter_length _ insq (edge_ids es) PI). fold (zlen (filter (fun a => (kl a =? left) && Nat.eqb a e) (edge_ids es))).
    unfold edge_ids. rewrite zlen_filter_eq_seq. fold n. apply Nat.ltb_lt in He. rewrite He. reflexivity. Qed.

  Lemma nxt_ge x : x <= L -> x <= nxt kl kr L insq remq x.
  Proof. intro Hx. destruct (Z.eq_dec x L) as [->|Hne].
    - unfold nxt, next_pos.
      assert (E1 : qI kl insq L = []) by (apply filter_false_nil; intros a Ha; apply Z.ltb_ge; apply ckeysI; exact Ha).
      assert (E2 : qR kr remq L = []) by (apply filter_false_nil; intros a Ha; apply Z.ltb_ge; apply ckeysR; exact Ha).
      rewrite E1, E2. lia.
    - assert (H := nxt_gt kl kr L insq remq x ltac:(lia)). lia. Qed.

  Lemma in_srt m : In m srt <-> (m < M)%nat.
  Proof. unfold srt. split; intro H.
    - apply (Permutation_in _ (argsort_perm mpos M)) in H. apply in_seq in H. lia.
    - apply (Permutation_in _ (Permutation_sym (argsort_perm mpos M))). apply in_seq. lia. Qed.

  (** *** the sweep invariant *)
  Definition GC (prev left : Z) (s : cm_state) : Prop :=
    (forall c, cm_edge s c = refz prev c) /\
    cm_mq s = filter (fun m => left <=? mpos m) srt /\
    (forall m, (m < M)%nat -> cm_medge s m = if mpos m <? left then refm m else -1) /\
    (sb = false -> forall e, (e < n)%nat ->
       cm_emuts s e = zlen (filter (fun m => (mpos m <? left) && (refm m =? Z.of_nat e)) srt)) /\
    (sb = false -> forall e, (e < n)%nat ->
       cm_espan s e = (if kl e <=? prev then L - kl e else 0) - (if kr e <=? prev then L - kr e else 0)).

  Definition cbody := body cm_state kl kr L rmv ins (cm_after sb mpos mnode) insq remq.

  Lemma refz_range x c : refz x c = -1 \/ 0 <= refz x c.
  Proof. unfold refz. destruct (edge_above es x c); [right; lia|left; reflexivity]. Qed.

  Lemma GCstep : forall prev left s,
    GC prev left s -> prev < left -> nokey kl kr insq remq prev left -> more kl kr insq remq prev -> left <= L ->
    (fun _ : cm_state => false) (cbody left s) = false -> GC left (nxt kl kr L insq remq left) (cbody left s).
  Proof. intros prev left s [Hedge [Hmq [Hmedge [Hemuts Hespan]]]] Hlt Hnk _ HlL _.
    set (right := nxt kl kr L insq remq left).
    assert (Hlr : left <= right) by (apply nxt_ge; exact HlL).
    assert (Hnk' : nokey kl kr insq remq left right) by (apply nxt_nokey; [exact SI|exact SR]).
    unfold cbody, body. fold right.
    set (s1 := fold_left (fun s b => rmv left b s) (evR kr remq left) s).
    set (s2 := fold_left (fun s a => ins left a s) (evI kl insq left) s1).
    destruct (fold_rmv_keep left (evR kr remq left) s) as [K1 [K2 K3]]. fold s1 in K1, K2, K3.
    destruct (fold_ins_keep left (evI kl insq left) s1) as [J1 [J2 J3]]. fold s2 in J1, J2, J3.
    assert (Hedge2 : forall c, cm_edge s2 c = refz left c).
    { intro c. unfold s2, s1. apply (edge_step prev left s c Hlt Hnk Hedge). }
    unfold cm_after. rewrite J3, K3, Hmq.
    rewrite cm_muts_sorted by (apply sorted_filter, argsort_sorted).
    rewrite !filter_filter.
    set (P := filter (fun a => (left <=? mpos a) && (mpos a <? right)) srt).
    destruct (fold_mstep_fields P s2) as [F1 [F2 [F3 F4]]].
    assert (HP : forall m, In m P <-> (m < M)%nat /\ left <= mpos m < right).
    { intro m. unfold P. rewrite filter_In, in_srt, andb_true_iff, Z.leb_le, Z.ltb_lt. tauto. }
    assert (HPe : forall m, existsb (Nat.eqb m) P = true <-> In m P).
    { intro m. rewrite existsb_exists. split; [intros [x [Hx E]]; apply Nat.eqb_eq in E; subst; exact Hx|].
      intro H. exists m. split; [exact H|apply Nat.eqb_refl]. }
    assert (HPref : forall m, In m P -> cm_edge s2 (mnode m) = refm m).
    { intros m Hm. apply HP in Hm. rewrite Hedge2. unfold refm. symmetry.
      apply (refz_between left right); [exact Hnk'|tauto]. }
    split; [|split; [|split; [|split]]].
    - intro c. cbn [set_mq cm_edge]. rewrite F1. apply Hedge2.
    - cbn [set_mq cm_mq]. apply filter_ext_in. intros m _.
      destruct (Z.leb_spec left (mpos m)), (Z.leb_spec right (mpos m)); cbn; try reflexivity; lia.
    - intros m Hm. cbn [set_mq cm_medge]. rewrite fold_mstep_medge, J1, K1, (Hmedge m Hm).
      destruct (existsb (Nat.eqb m) P) eqn:EP.
      + apply HPe in EP. assert (EP' := EP). apply HP in EP'. rewrite (HPref m EP).
        assert (E1 : (mpos m <? right) = true) by (apply Z.ltb_lt; lia).
        assert (E2 : (mpos m <? left) = false) by (apply Z.ltb_ge; lia). rewrite E1, E2. cbn [andb].
        destruct (Z.eqb_spec (refm m) (-1)) as [E|E]; cbn [negb]; [symmetry; exact E|reflexivity].
      + cbn [andb]. assert (Hn : ~ In m P) by (intro H; apply HPe in H; congruence).
        rewrite HP in Hn.
        destruct (Z.ltb_spec (mpos m) left), (Z.ltb_spec (mpos m) right); try reflexivity; lia.
    - intros Hsb e He. cbn [set_mq cm_emuts].
      rewrite (fold_mstep_emuts Hsb P s2 e) by (intro c; rewrite Hedge2; apply refz_range).
      rewrite J2, K2, (Hemuts Hsb e He).
      rewrite (zlen_filter_ext (fun m => cm_edge s2 (mnode m) =? Z.of_nat e) (fun m => refm m =? Z.of_nat e) P)
        by (intros m Hm; rewrite (HPref m Hm); reflexivity).
      unfold P. rewrite filter_filter.
      rewrite (zlen_filter_lin (fun m => (mpos m <? right) && (refm m =? Z.of_nat e))
                 (fun m => (mpos m <? left) && (refm m =? Z.of_nat e)) (fun _ => false)
                 (fun a => (left <=? mpos a) && (mpos a <? right) && (refm a =? Z.of_nat e)) srt).
      + rewrite (filter_false_nil (fun _ : nat => false) srt) by reflexivity.
        change (zlen (@nil nat)) with 0. lia.
      + intros m _. destruct (refm m =? Z.of_nat e); rewrite ?andb_false_r, ?andb_true_r; [|reflexivity].
        destruct (Z.ltb_spec (mpos m) right), (Z.ltb_spec (mpos m) left), (Z.leb_spec left (mpos m)); cbn; lia.
    - intros Hsb e He. cbn [set_mq cm_espan]. rewrite F2. unfold s2, s1.
      rewrite (fold_ins_span Hsb), (fold_rmv_span Hsb), (Hespan Hsb e He), count_in_evR, count_in_evI by exact He.
      destruct (nokey_edge prev left e Hnk He) as [Hl Hr]. destruct (Hrange e He) as [Hre _]. unfold kl, kr in *.
      destruct (Z.leb_spec (eleft (edge_at es e)) prev), (Z.leb_spec (eright (edge_at es e)) prev),
               (Z.leb_spec (eleft (edge_at es e)) left), (Z.leb_spec (eright (edge_at es e)) left),
               (Z.eqb_spec (eright (edge_at es e)) left), (Z.eqb_spec (eleft (edge_at es e)) left);
        cbn [b2z]; lia. Qed.

  Theorem count_mutations_correct :
    exists s, count_mutations es L sb mpos mnode nn is_sample M insq remq = Some s /\
      (forall m, (m < M)%nat -> cm_medge s m = refm m) /\
      (sb = false -> forall e, (e < n)%nat ->
         cm_emuts s e = zlen (filter (fun m => refm m =? Z.of_nat e) (seq 0 M)) /\
         cm_espan s e = kr e - kl e).
  Proof.
    assert (HG0 : GC (-1) 0 (cm_init mpos is_sample M)).
    { unfold GC, cm_init. cbn [cm_edge cm_mq cm_medge cm_emuts cm_espan]. split; [|split; [|split; [|split]]].
      - intro c. symmetry. apply refz_outside. left. lia.
      - fold srt. symmetry. apply filter_true_id. intros m Hm. apply in_srt in Hm. apply Z.leb_le. apply Hmpos; exact Hm.
      - intros m Hm. assert (E : (mpos m <? 0) = false) by (apply Z.ltb_ge; apply Hmpos; exact Hm). rewrite E. reflexivity.
      - intros _ e _. rewrite filter_false_nil; [reflexivity|]. intros m Hm. apply in_srt in Hm.
        assert (E : (mpos m <? 0) = false) by (apply Z.ltb_ge; apply Hmpos; exact Hm). rewrite E. reflexivity.
      - intros _ e He. destruct (Hrange e He). unfold kl, kr.
        destruct (Z.leb_spec (eleft (edge_at es e)) (-1)), (Z.leb_spec (eright (edge_at es e)) (-1)); lia. }
    destruct (loop_sound cm_state kl kr L rmv ins (cm_after sb mpos mnode) (fun _ => false) insq remq
                SI SR ckeysI ckeysR GC GCstep (cm_init mpos is_sample M) HG0 HL) as [r [Hr HP]].
    unfold count_mutations. fold kl kr. rewrite Hr. exists r. split; [reflexivity|].
    destruct HP as [[prev [left [[Hedge [Hmq [Hmedge [Hemuts Hespan]]]] [Hnm Hle]]]]|[prev [left [s [_ [_ [_ [_ [_ [_ Hs]]]]]]]]]];
      [|discriminate].
    apply not_more_keys in Hnm. destruct Hnm as [HkI HkR].
    assert (Hkr : forall e, (e < n)%nat -> kr e <= prev).
    { intros e He. apply HkR. apply (perm_in_ids es remq e PR). exact He. }
    assert (Hkl : forall e, (e < n)%nat -> kl e <= prev).
    { intros e He. apply HkI. apply (perm_in_ids es insq e PI). exact He. }
    assert (Hout : forall m, left <= mpos m -> refm m = -1).
    { intros m Hm. apply refz_outside. right. intros e He. specialize (Hkr e He). lia. }
    split.
    - intros m Hm. rewrite (Hmedge m Hm). destruct (Z.ltb_spec (mpos m) left); [reflexivity|].
      symmetry. apply Hout. lia.
    - intros Hsb e He. split.
      + rewrite (Hemuts Hsb e He). unfold zlen. rewrite <- (perm_filter_length _ srt (seq 0 M) (argsort_perm mpos M)).
        f_equal. f_equal. apply filter_ext_in. intros m _.
        destruct (Z.ltb_spec (mpos m) left); [reflexivity|]. cbn [andb].
        rewrite (Hout m) by lia. symmetry. apply Z.eqb_neq. lia.
      + rewrite (Hespan Hsb e He). specialize (Hkr e He). specialize (Hkl e He).
        destruct (Z.leb_spec (kl e) prev), (Z.leb_spec (kr e) prev); lia. Qed.
End CountFacts.
