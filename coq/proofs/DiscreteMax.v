(** * [outside_maximization] (discrete.py:763-838), linear space over the reals:
    the chosen index is the first maximiser of the documented score, children are never
    later than their parents, and indices stay on the grid. *)
From Coq Require Import List Arith Bool Lia Reals Lra.
From TsdateV Require Import lib.Num model.Discrete proofs.DiscreteBase.
Import ListNotations.
Open Scope R_scope.

Section Max.
  Variable G : nat.
  Variable fixed : nat -> bool.
  Variable ins : nat -> option (list R).
  Variable pois : nat -> nat -> nat -> R.
  Hypothesis pois_pos : forall e p t, 0 < pois e p t.
  Hypothesis ins_len : forall u iv, ins u = Some iv -> length iv = G.
  Hypothesis G_pos : (0 < G)%nat.

  Notation max_step := (max_step LinR pois).
  Notation max_group := (max_group LinR fixed ins pois).
  Notation max_groups := (max_groups LinR fixed ins pois).
  Notation max_roots := (max_roots LinR fixed ins).

  (** product of the mutation likelihoods of the edges [es] to their parents, the parents
      sitting at the grid indices [mx], the child at index [t] *)
  Definition prodpois (mx : nat -> nat) (es : list edge) (t : nat) : R :=
    fold_right (fun e acc => pois (e_id e) (mx (e_parent e)) t * acc) 1 es.

  (** the documented score of timepoint [t] for a child with inside values [iv] *)
  Definition score (iv : list R) (mx : nat -> nat) (es : list edge) (t : nat) : R :=
    nth t iv 0 * prodpois mx es t.

  (** index of the youngest parent *)
  Definition minpar (mx : nat -> nat) (e0 : edge) (rest : list edge) : nat :=
    fold_left (fun m e => Nat.min m (mx (e_parent e))) rest (mx (e_parent e0)).

  Lemma prodpois_pos mx es t : 0 < prodpois mx es t.
  Proof. induction es as [|e r IH]; cbn; [lra|]. apply Rmult_lt_0_compat; [apply pois_pos|exact IH]. Qed.

  Lemma prodpois_app mx a b t : prodpois mx (a ++ b) t = prodpois mx a t * prodpois mx b t.
  Proof. induction a as [|e r IH]; cbn [app]; [unfold prodpois at 2; cbn [fold_right]; lra|].
    unfold prodpois in *. cbn [fold_right]. rewrite IH. ring. Qed.

  Lemma minpar_le mx rest : forall m, (fold_left (fun m e => Nat.min m (mx (e_parent e))) rest m <= m)%nat.
  Proof. induction rest as [|e r IH]; intro m; cbn; [lia|]. specialize (IH (Nat.min m (mx (e_parent e)))). lia. Qed.

  Lemma minpar_le_each mx rest : forall m e, In e rest ->
    (fold_left (fun m e => Nat.min m (mx (e_parent e))) rest m <= mx (e_parent e))%nat.
  Proof. induction rest as [|x r IH]; intros m e []; cbn.
    - subst. pose proof (minpar_le mx r (Nat.min m (mx (e_parent e)))). lia.
    - now apply IH. Qed.

  Lemma ll_mut_length e p y : length (ll_mut LinR pois e p y) = (y + 1)%nat.
  Proof. unfold ll_mut. now rewrite map_length, seq_length. Qed.

  Lemma ll_mut_nth e p y t : (t <= y)%nat -> nth t (ll_mut LinR pois e p y) 0 = pois e p t.
  Proof. intro H. unfold ll_mut. now rewrite nth_map_seq by lia. Qed.

  Lemma ll_mut_pos e p y x : In x (ll_mut LinR pois e p y) -> 0 < x.
  Proof. unfold ll_mut. intro H. apply in_map_iff in H. destruct H as (t & <- & _). apply pois_pos. Qed.

  Lemma npmax_ll_pos (l : list R) : l <> [] -> (forall x, In x l -> 0 < x) -> 0 < npmax LinR l.
  Proof. intros Hne Hall. apply Hall. now apply npmax_In. Qed.

  (** the loop over the edges of one child: the running minimum, and [result] holds, on
      the slice that is still read, the product of the likelihoods up to one positive constant *)
  Lemma max_step_inv mx : forall rest done ypi result,
    (ypi + 1 <= length result)%nat ->
    (exists K, 0 < K /\ forall t, (t <= ypi)%nat -> nth t result 0 = prodpois mx done t / K) ->
    let '(ypi', result') := fold_left (max_step mx) rest (ypi, result) in
    ypi' = fold_left (fun m e => Nat.min m (mx (e_parent e))) rest ypi /\
    (ypi' + 1 <= length result')%nat /\
    (exists K, 0 < K /\ forall t, (t <= ypi')%nat -> nth t result' 0 = prodpois mx (done ++ rest) t / K).
  Proof. induction rest as [|e r IH]; intros done ypi result Hlen (K & HK & Hres); cbn [fold_left].
    - split; [reflexivity|]. split; [exact Hlen|]. exists K. split; [exact HK|]. now rewrite app_nil_r.
    - set (cur := mx (e_parent e)).
      assert (Hy : (if Nat.ltb cur ypi then cur else ypi) = Nat.min ypi cur).
      { destruct (Nat.ltb_spec cur ypi); lia. }
      unfold Discrete.max_step at 2. fold cur. rewrite Hy. set (y := Nat.min ypi cur).
      set (sl := firstn (y + 1) (ll_mut LinR pois (e_id e) cur y)).
      assert (Hsl : sl = ll_mut LinR pois (e_id e) cur y).
      { unfold sl. apply firstn_all2. rewrite ll_mut_length. lia. }
      assert (HK' : 0 < npmax LinR sl).
      { rewrite Hsl. apply npmax_ll_pos.
        - intro E. apply (f_equal (@length _)) in E. rewrite ll_mut_length in E. cbn in E. lia.
        - apply ll_mut_pos. }
      set (res' := vcomb LinR (vratio LinR sl (npmax LinR sl)) (firstn (y + 1) result) ++ skipn (y + 1) result).
      assert (Hylen : (y + 1 <= length result)%nat) by (unfold y; lia).
      assert (Hl1 : length (vcomb LinR (vratio LinR sl (npmax LinR sl)) (firstn (y + 1) result)) = (y + 1)%nat).
      { rewrite vcomb_length, vratio_length, firstn_length, Hsl, ll_mut_length. lia. }
      specialize (IH (done ++ [e]) y res').
      replace ((done ++ [e]) ++ r) with (done ++ e :: r) in IH by (now rewrite <- app_assoc).
      apply IH.
      + unfold res'. rewrite app_length, Hl1, skipn_length. lia.
      + exists (npmax LinR sl * K). split; [now apply Rmult_lt_0_compat|].
        intros t Ht. unfold res'. rewrite app_nth1 by lia.
        rewrite vcomb_nth by (rewrite ?vratio_length, ?firstn_length, ?Hsl, ?ll_mut_length; lia).
        rewrite vratio_nth by (rewrite Hsl, ll_mut_length; lia).
        rewrite Hsl at 1. rewrite ll_mut_nth by lia.
        rewrite nth_firstn_lt by lia.
        rewrite Hres by (unfold y in Ht; lia).
        rewrite prodpois_app. cbn [prodpois fold_right]. fold cur.
        toR. field. split; lra. Qed.

  (** one child group *)
  Lemma max_group_rule mx c e0 rest mx' :
    fixed c = false -> (forall u, (mx u < G)%nat) ->
    max_group mx (c, e0 :: rest) = Some mx' ->
    exists iv, ins c = Some iv /\
      mx' = updf mx c (argmax LinR (map (score iv mx (e0 :: rest)) (seq 0 (minpar mx e0 rest + 1)))).
  Proof. intros Hfx HmxG H. unfold Discrete.max_group in H. rewrite Hfx in H.
    set (ypi0 := mx (e_parent e0)) in *.
    set (ll0 := ll_mut LinR pois (e_id e0) ypi0 ypi0) in *.
    assert (HK0 : 0 < npmax LinR ll0).
    { apply npmax_ll_pos; [|apply ll_mut_pos]. intro E. apply (f_equal (@length _)) in E.
      unfold ll0 in E. rewrite ll_mut_length in E. cbn in E. lia. }
    assert (Hp1 : (ypi0 + 1 <= length (vratio LinR ll0 (npmax LinR ll0)))%nat).
    { rewrite vratio_length. unfold ll0. rewrite ll_mut_length. lia. }
    assert (Hp2 : exists K, 0 < K /\ forall t, (t <= ypi0)%nat ->
                   nth t (vratio LinR ll0 (npmax LinR ll0)) 0 = prodpois mx [e0] t / K).
    { exists (npmax LinR ll0). split; [exact HK0|]. intros t Ht.
      rewrite vratio_nth by (unfold ll0; rewrite ll_mut_length; lia).
      unfold ll0. rewrite ll_mut_nth by exact Ht. unfold prodpois. cbn [fold_right].
      fold ypi0. toR. field. unfold ll0 in HK0. lra. }
    pose proof (max_step_inv mx rest [e0] ypi0 (vratio LinR ll0 (npmax LinR ll0)) Hp1 Hp2) as Hinv.
    toR. match type of Hinv with match ?X with _ => _ end => destruct X as [ypi result] end.
    destruct Hinv as (Hypi & Hlen & K & HK & Hres).
    destruct (ins c) as [iv|] eqn:Hiv; [|discriminate]. exists iv. split; [reflexivity|].
    inversion H; subst mx'; clear H. f_equal.
    assert (HypiG : (ypi < G)%nat).
    { rewrite Hypi. pose proof (minpar_le mx rest ypi0). pose proof (HmxG (e_parent e0)). unfold ypi0 in *. lia. }
    pose proof (ins_len _ _ Hiv) as Hlv.
    replace (minpar mx e0 rest) with ypi by (now rewrite Hypi).
    rewrite <- (argmax_scale K (map (score iv mx (e0 :: rest)) (seq 0 (ypi + 1)))) by exact HK. f_equal.
    apply (nth_ext _ _ 0 0).
    - rewrite (vcomb_length LinR), !firstn_length, !map_length, seq_length. lia.
    - intros t Ht. rewrite (vcomb_length LinR), !firstn_length in Ht.
      assert (Ht' : (t <= ypi)%nat) by lia.
      rewrite (vcomb_nth LinR) by (rewrite firstn_length; lia).
      rewrite !nth_firstn_lt by lia.
      rewrite Hres by exact Ht'.
      rewrite (nth_map_lt (fun x => x / K) _ 0) by (rewrite map_length, seq_length; lia).
      rewrite nth_map_seq by lia. cbn [Nat.add].
      unfold score. cbn [app]. toR. field. lra. Qed.

  Lemma max_group_fixed mx c es mx' : fixed c = true -> max_group mx (c, es) = Some mx' -> mx' = mx.
  Proof. intros Hfx H. unfold Discrete.max_group in H. rewrite Hfx in H. congruence. Qed.

  (** score only looks at the parents *)
  Lemma prodpois_ext mx mx' es t : (forall e, In e es -> mx (e_parent e) = mx' (e_parent e)) ->
    prodpois mx es t = prodpois mx' es t.
  Proof. induction es as [|e r IH]; intro H; unfold prodpois in *; cbn [fold_right]; [reflexivity|].
    rewrite (H e) by now left. rewrite IH; [reflexivity|]. intros x Hx. apply H. now right. Qed.

  Lemma minpar_ext mx mx' e0 rest : (forall e, In e (e0 :: rest) -> mx (e_parent e) = mx' (e_parent e)) ->
    minpar mx e0 rest = minpar mx' e0 rest.
  Proof. intro H. unfold minpar. rewrite (H e0) by now left.
    assert (Hr : forall e, In e rest -> mx (e_parent e) = mx' (e_parent e)) by (intros; apply H; now right).
    clear H. generalize (mx' (e_parent e0)). induction rest as [|x r IH]; intro m; cbn; [reflexivity|].
    rewrite (Hr x) by now left. apply IH. intros; apply Hr; now right. Qed.

  (** the documented rule for a child group, relative to the final assignment [mx] *)
  Definition rule_holds (mx : nat -> nat) (g : nat * list edge) : Prop :=
    match snd g with
    | [] => True
    | e0 :: rest =>
        fixed (fst g) = false ->
        exists iv, ins (fst g) = Some iv /\
          mx (fst g) = argmax LinR (map (score iv mx (e0 :: rest)) (seq 0 (minpar mx e0 rest + 1)))
    end.

  Lemma rule_holds_ext mx mx' g :
    (forall e, In e (snd g) -> mx (e_parent e) = mx' (e_parent e)) -> mx (fst g) = mx' (fst g) ->
    rule_holds mx g -> rule_holds mx' g.
  Proof. intros Hp Hc. unfold rule_holds. destruct (snd g) as [|e0 rest]; [trivial|].
    intros H Hfx. destruct (H Hfx) as (iv & Hiv & E). exists iv. split; [exact Hiv|].
    rewrite <- Hc, E. rewrite (minpar_ext mx mx' e0 rest Hp). f_equal.
    apply map_ext_in. intros t _. unfold score. f_equal. now apply prodpois_ext. Qed.

  Lemma outside_order_later allc : forall gs seen, outside_order allc seen gs ->
    forall g, In g gs -> ~ In (fst g) seen.
  Proof. induction gs as [|[c es] r IH]; intros seen H g []; cbn [outside_order] in H.
    - subst g. cbn. apply H.
    - destruct H as (_ & _ & H). intro Hin. apply (IH _ H g H0). now right. Qed.

  Lemma max_groups_spec allc : forall gs seen mx mx',
    outside_order allc seen gs ->
    (forall g, In g gs -> In (fst g) allc) ->
    (forall u, (mx u < G)%nat) ->
    max_groups mx gs = Some mx' ->
    (forall u, ~ In u (map fst gs) -> mx' u = mx u) /\
    (forall u, (mx' u < G)%nat) /\
    (forall g, In g gs -> rule_holds mx' g) /\
    (forall g e, In g gs -> fixed (fst g) = false -> In e (snd g) -> (mx' (fst g) <= mx' (e_parent e))%nat).
  Proof. induction gs as [|[c es] r IH]; intros seen mx mx' Hord Hallc HG H; cbn [Discrete.max_groups] in H.
    - inversion H; subst. split; [tauto|]. split; [exact HG|]. split; [intros ? []|intros ? ? []].
    - destruct (max_group mx (c, es)) as [m1|] eqn:Hg; [|discriminate].
      destruct Hord as (Hnseen & Hpar & Hord).
      assert (Hm1 : (forall u, u <> c -> m1 u = mx u) /\ (forall u, (m1 u < G)%nat) /\
                    rule_holds m1 (c, es) /\
                    (fixed c = false -> forall e, In e es -> (m1 c <= m1 (e_parent e))%nat)).
      { destruct (fixed c) eqn:Hfx.
        - apply max_group_fixed in Hg; [|exact Hfx]. subst m1. repeat split; try tauto; try congruence.
          unfold rule_holds. cbn [fst snd]. destruct es; [exact I|congruence].
        - destruct es as [|e0 rest].
          + unfold Discrete.max_group in Hg. rewrite Hfx in Hg. inversion Hg; subst.
            repeat split; try tauto. intros _ e [].
          + destruct (max_group_rule mx c e0 rest m1 Hfx HG Hg) as (iv & Hiv & ->).
            set (a := argmax LinR (map (score iv mx (e0 :: rest)) (seq 0 (minpar mx e0 rest + 1)))).
            assert (Hsame : forall e, In e (e0 :: rest) -> mx (e_parent e) = updf mx c a (e_parent e)).
            { intros e He. rewrite updf_other; [reflexivity|]. now apply Hpar. }
            assert (Hlt : (a < minpar mx e0 rest + 1)%nat).
            { unfold a. eapply Nat.lt_le_trans; [apply argmax_lt|].
              - intro E. apply (f_equal (@length _)) in E. rewrite map_length, seq_length in E. cbn in E. lia.
              - rewrite map_length, seq_length. lia. }
            split; [|split; [|split]].
            * intros u Hu. now rewrite updf_other.
            * intro u. unfold updf. destruct (Nat.eqb u c); [|apply HG].
              pose proof (minpar_le mx rest (mx (e_parent e0))). pose proof (HG (e_parent e0)).
              unfold minpar in Hlt. lia.
            * unfold rule_holds. cbn [fst snd]. intros _. exists iv. split; [exact Hiv|].
              rewrite updf_same. rewrite <- (minpar_ext mx (updf mx c a) e0 rest Hsame). unfold a at 1. f_equal.
              apply map_ext_in. intros t _. unfold score. f_equal. apply prodpois_ext. exact Hsame.
            * intros _ e He. rewrite updf_same. rewrite <- (Hsame e He).
              assert (minpar mx e0 rest <= mx (e_parent e))%nat.
              { unfold minpar. destruct He as [<-|He]; [apply minpar_le|now apply minpar_le_each]. }
              lia. }
      destruct Hm1 as (Hm1a & Hm1G & Hm1rule & Hm1ord).
      destruct (IH (c :: seen) m1 mx' Hord (fun g Hg' => Hallc g (or_intror Hg')) Hm1G H)
        as (Hkeep & HG' & Hrules & Hords).
      pose proof (outside_order_later allc r (c :: seen) Hord) as Hlater.
      assert (Hc_later : ~ In c (map fst r)).
      { intro Hin. apply in_map_iff in Hin. destruct Hin as (g & E & Hgin).
        apply (Hlater g Hgin). left. now rewrite E. }
      assert (Hpar_later : forall e, In e es -> ~ In (e_parent e) (map fst r)).
      { intros e He Hin. apply in_map_iff in Hin. destruct Hin as (g & E & Hgin).
        destruct (Hpar e He) as (_ & [Hs|Hn]).
        - apply (Hlater g Hgin). right. now rewrite E.
        - apply Hn. rewrite <- E. apply Hallc. now right. }
      split; [|split; [|split]].
      + intros u Hu. rewrite Hkeep by (intro Hin; apply Hu; right; exact Hin).
        apply Hm1a. intro; subst; apply Hu; now left.
      + exact HG'.
      + intros g [<-|Hgin]; [|now apply Hrules].
        apply (rule_holds_ext m1); [| |exact Hm1rule]; cbn [fst snd].
        * intros e He. symmetry. apply Hkeep. now apply Hpar_later.
        * symmetry. now apply Hkeep.
      + intros g e [<-|Hgin] Hfx He; [|now apply Hords]. cbn [fst snd] in *.
        rewrite (Hkeep c Hc_later), (Hkeep (e_parent e) (Hpar_later e He)). now apply Hm1ord.
  Qed.

  (** the roots phase *)
  Lemma max_roots_spec : forall rs mx mx', NoDup rs ->
    max_roots mx rs = Some mx' ->
    (forall u, ~ In u rs -> mx' u = mx u) /\
    (forall u, In u rs -> fixed u = true -> mx' u = mx u) /\
    (forall u, In u rs -> fixed u = false -> exists iv, ins u = Some iv /\ mx' u = argmax LinR iv).
  Proof. induction rs as [|r rest IH]; intros mx mx' Hnd H; cbn [Discrete.max_roots] in H.
    - inversion H; subst. repeat split; try tauto; intros ? [].
    - inversion Hnd as [|? ? Hnin Hnd']; subst.
      destruct (fixed r) eqn:Hfx.
      + destruct (IH mx mx' Hnd' H) as (Ha & Hb & Hc). split; [|split].
        * intros u Hu. apply Ha. intro; apply Hu; now right.
        * intros u [<-|Hu] Hf; [now apply Ha|now apply Hb].
        * intros u [<-|Hu] Hf; [congruence|now apply Hc].
      + destruct (ins r) as [iv|] eqn:Hiv; [|discriminate].
        destruct (IH _ mx' Hnd' H) as (Ha & Hb & Hc). split; [|split].
        * intros u Hu. rewrite Ha by (intro; apply Hu; now right). apply updf_other. intro; subst; apply Hu; now left.
        * intros u [<-|Hu] Hf; [congruence|]. rewrite Hb by assumption. apply updf_other. intro; subst; contradiction.
        * intros u [<-|Hu] Hf; [|now apply Hc]. exists iv. split; [exact Hiv|]. rewrite Ha by exact Hnin. apply updf_same. Qed.

  Lemma mrcas_spec n es u : In u (mrcas n es) <-> (u < n)%nat /\ forall e, In e es -> e_child e <> u.
  Proof. unfold mrcas. rewrite filter_In, in_seq. split.
    - intros (Hu & Hneg). split; [lia|]. intros e He E. apply negb_true_iff in Hneg.
      assert (existsb (fun e0 : edge => Nat.eqb (e_child e0) u) es = true); [|congruence].
      apply existsb_exists. exists e. split; [exact He|]. now apply Nat.eqb_eq.
    - intros (Hu & Hall). split; [lia|]. apply negb_true_iff. apply not_true_iff_false. intro Hex.
      apply existsb_exists in Hex. destruct Hex as (e & He & E). apply Nat.eqb_eq in E. now apply (Hall e He). Qed.

  (** ** the whole pass *)
  Theorem maximization_spec num_nodes es mx :
    outside_order (map fst (groupby e_child es)) [] (groupby e_child es) ->
    outside_maximization LinR fixed ins pois num_nodes es = Some mx ->
    (* nodes that are never a child take the first maximiser of their inside values *)
    (forall r, (r < num_nodes)%nat -> (forall e, In e es -> e_child e <> r) -> fixed r = false ->
       exists iv, ins r = Some iv /\ mx r = argmax LinR iv) /\
    (* every other non-fixed node follows the documented rule *)
    (forall g, In g (groupby e_child es) -> rule_holds mx g) /\
    (* no child later than any of its parents *)
    (forall e, In e es -> fixed (e_child e) = false -> (mx (e_child e) <= mx (e_parent e))%nat) /\
    (* all indices on the grid *)
    (forall u, (mx u < G)%nat).
  Proof. intros Hord H. unfold outside_maximization in H.
    destruct (max_roots (fun _ => 0%nat) (mrcas num_nodes es)) as [mx0|] eqn:Hroots; [|discriminate].
    assert (Hnd : NoDup (mrcas num_nodes es)).
    { unfold mrcas. apply NoDup_filter. apply seq_NoDup. }
    destruct (max_roots_spec _ _ _ Hnd Hroots) as (Ra & Rb & Rc).
    assert (HG0 : forall u, (mx0 u < G)%nat).
    { intro u. destruct (in_dec Nat.eq_dec u (mrcas num_nodes es)) as [Hin|Hnin].
      - destruct (fixed u) eqn:Hfx.
        + rewrite Rb by assumption. exact G_pos.
        + destruct (Rc u Hin Hfx) as (iv & Hiv & ->). rewrite <- (ins_len _ _ Hiv). apply argmax_lt.
          intro E. subst iv. pose proof (ins_len _ _ Hiv). cbn in *. lia.
      - rewrite Ra by assumption. exact G_pos. }
    destruct (max_groups_spec _ _ _ _ _ Hord (fun g Hg => in_map fst _ g Hg) HG0 H) as (Hkeep & HG' & Hrules & Hords).
    split; [|split; [|split]].
    - intros r Hr Hnc Hfx. assert (Hin : In r (mrcas num_nodes es)) by (apply mrcas_spec; tauto).
      destruct (Rc r Hin Hfx) as (iv & Hiv & E). exists iv. split; [exact Hiv|]. rewrite <- E. apply Hkeep.
      intro Hm. apply in_map_iff in Hm. destruct Hm as (g & Eg & Hg).
      destruct (snd g) as [|e0 l] eqn:Hs; [now apply (groupby_nonempty _ _ _ Hg)|].
      assert (He0 : In e0 (snd g)) by (rewrite Hs; now left).
      apply (Hnc e0).
      + rewrite <- (groupby_concat e_child es). apply in_concat. exists (snd g). split; [|exact He0].
        apply in_map. exact Hg.
      + rewrite (groupby_keys _ _ _ _ Hg He0). exact Eg.
    - exact Hrules.
    - intros e He Hfx. destruct (groupby_In e_child es e He) as (g & Hg & Heg & Ek).
      rewrite <- Ek in *. now apply Hords.
    - exact HG'. Qed.
End Max.

(** ** The statements of C13, with every definition spelled out *)
Theorem C13_rule_lemma : forall (G : nat) (fixed : nat -> bool) (ins : nat -> option (list R))
    (pois : nat -> nat -> nat -> R),
  (forall e p t, 0 < pois e p t) -> (forall u iv, ins u = Some iv -> length iv = G) -> (0 < G)%nat ->
  forall num_nodes es mx,
  outside_order (map fst (groupby e_child es)) [] (groupby e_child es) ->
  outside_maximization LinR fixed ins pois num_nodes es = Some mx ->
  (forall r, (r < num_nodes)%nat -> (forall e, In e es -> e_child e <> r) -> fixed r = false ->
     exists iv, ins r = Some iv /\ mx r = argmax LinR iv /\ first_max iv (mx r)) /\
  (forall c e0 rest, In (c, e0 :: rest) (groupby e_child es) -> fixed c = false ->
     exists iv, ins c = Some iv /\
       let youngest := fold_left (fun m e => Nat.min m (mx (e_parent e))) rest (mx (e_parent e0)) in
       let score := fun t => nth t iv 0 *
            fold_right (fun e acc => pois (e_id e) (mx (e_parent e)) t * acc) 1 (e0 :: rest) in
       first_max (map score (seq 0 (youngest + 1))) (mx c)) /\
  (forall e, In e es -> fixed (e_child e) = false -> (mx (e_child e) <= mx (e_parent e))%nat) /\
  (forall u, (mx u < G)%nat).
Proof. intros G fixed ins pois Hpos Hlen HG n es mx Hord H.
  destruct (maximization_spec G fixed ins pois Hpos Hlen HG n es mx Hord H) as (Hr & Hg & Ho & Hb).
  split; [|split; [|split]]; [| |exact Ho|exact Hb].
  - intros r Hrn Hnc Hfx. destruct (Hr r Hrn Hnc Hfx) as (iv & Hiv & E). exists iv.
    split; [exact Hiv|]. split; [exact E|]. rewrite E. apply argmax_first_max.
    intro; subst iv. pose proof (Hlen _ _ Hiv). cbn in *. lia.
  - intros c e0 rest Hin Hfx. specialize (Hg _ Hin). unfold rule_holds in Hg. cbn [fst snd] in Hg.
    destruct (Hg Hfx) as (iv & Hiv & E). exists iv. split; [exact Hiv|]. cbv zeta.
    change (first_max (map (score pois iv mx (e0 :: rest)) (seq 0 (minpar mx e0 rest + 1))) (mx c)).
    rewrite E. apply argmax_first_max. intro E0. apply (f_equal (@length _)) in E0.
    rewrite map_length, seq_length in E0. cbn in E0. lia. Qed.

(** posterior_mean is read off the grid *)
Lemma posterior_mean_nth (P : Space) (tp : list (S P)) n mx u : (u < n)%nat ->
  nth u (posterior_mean P tp n mx) (s_null P) = nth (mx u) tp (s_null P).
Proof. intro H. unfold posterior_mean. now rewrite nth_map_seq. Qed.

(** the pass returns a value whenever every non-fixed node has inside values
    (so the hypothesis "[outside_maximization ... = Some mx]" of the theorems is satisfiable) *)
Section Total.
  Variable P : Space.
  Variable fixed : nat -> bool.
  Variable ins : nat -> option (list (S P)).
  Variable pois : nat -> nat -> nat -> S P.
  Hypothesis ins_total : forall u, fixed u = false -> ins u <> None.

  Lemma max_roots_total : forall rs mx, max_roots P fixed ins mx rs <> None.
  Proof. induction rs as [|r rest IH]; intro mx; cbn [max_roots]; [discriminate|].
    destruct (fixed r) eqn:Hfx; [apply IH|]. destruct (ins r) eqn:Hi; [apply IH|]. now apply ins_total in Hfx. Qed.

  Lemma max_groups_total : forall gs mx, max_groups P fixed ins pois mx gs <> None.
  Proof. induction gs as [|[c es] r IH]; intro mx; cbn [max_groups]; [discriminate|].
    unfold max_group. destruct (fixed c) eqn:Hfx; [apply IH|]. destruct es as [|e0 rest]; [apply IH|].
    destruct (fold_left _ _ _) as [ypi result]. destruct (ins c) eqn:Hi; [apply IH|]. now apply ins_total in Hfx. Qed.

  Lemma maximization_total n es : outside_maximization P fixed ins pois n es <> None.
  Proof. unfold outside_maximization. destruct (max_roots P fixed ins (fun _ => 0%nat) (mrcas n es)) eqn:E.
    - apply max_groups_total.
    - now apply max_roots_total in E. Qed.
End Total.
