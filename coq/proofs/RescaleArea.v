(** * [mutational_area]: the difference-array + cumulative-sum computation equals the
    direct sum over the edges that cover each interval between consecutive node times
    (C25, over the reals). *)
From Coq Require Import List Arith Lia Bool Reals Lra.
From TsdateV Require Import lib.Num model.Rescale proofs.RescalePW.
Import ListNotations.
Open Scope R_scope.

Definition Rsum (l : list R) : R := fold_right Rplus 0 l.

Lemma Rsum_app l1 l2 : Rsum (l1 ++ l2) = Rsum l1 + Rsum l2.
Proof. unfold Rsum. induction l1 as [|a l IH]; cbn [app fold_right]; [lra|]. rewrite IH. lra. Qed.

(** ** cumulative sums *)
Fixpoint presum (f : nat -> R) (k : nat) : R :=      (* f 0 + ... + f k *)
  match k with O => f O | S k' => presum f k' + f k end.

Lemma cumsum_from_length (acc : R) (l : list R) : length (cumsum_from RNum acc l) = length l.
Proof. revert acc; induction l as [|x r IH]; intro acc; cbn; [reflexivity|]. rewrite IH. reflexivity. Qed.

Lemma cumsum_length (l : list R) : length (cumsum RNum l) = length l.
Proof. apply cumsum_from_length. Qed.

Lemma cumsum_from_nth : forall (l : list R) (acc : R) k, (k < length l)%nat ->
  nth k (cumsum_from RNum acc l) 0 = acc + Rsum (firstn (S k) l).
Proof.
  induction l as [|x r IH]; intros acc k Hk; [cbn in Hk; lia|].
  destruct k as [|k].
  - cbn. destruct r; cbn; lra.
  - cbn [cumsum_from nth]. rewrite IH by (cbn in Hk; lia).
    cbn [RNum add]. change (firstn (S (S k)) (x :: r)) with (x :: firstn (S k) r).
    cbn [Rsum fold_right]. fold (Rsum (firstn (S k) r)). lra.
Qed.

Lemma Rsum_map_seq f k : Rsum (map f (seq 0 (S k))) = presum f k.
Proof.
  induction k as [|k IH]; [cbn; lra|].
  rewrite seq_S, map_app, Rsum_app, IH. cbn. lra.
Qed.

Lemma firstn_seq' : forall m a n, (m <= n)%nat -> firstn m (seq a n) = seq a m.
Proof.
  induction m as [|m IH]; intros a n H; [reflexivity|].
  destruct n as [|n]; [lia|]. cbn [seq firstn]. rewrite IH by lia. reflexivity.
Qed.

Lemma cumsum_tabulate_nth f n k : (k < n)%nat ->
  nth k (cumsum RNum (tabulate n f)) 0 = presum f k.
Proof.
  intro Hk. unfold cumsum, tabulate. rewrite cumsum_from_nth by (rewrite map_length, seq_length; exact Hk).
  rewrite firstn_map, firstn_seq' by lia. rewrite Rsum_map_seq. cbn [RNum zero]. lra.
Qed.

(** ** difference arrays *)
Lemma presum_fupd f a v k :
  presum (fupd f a (f a + v)) k = presum f k + (if (a <=? k)%nat then v else 0).
Proof.
  induction k as [|k IH].
  - cbn [presum]. unfold fupd. destruct a as [|a]; cbn; lra.
  - cbn [presum]. rewrite IH. unfold fupd.
    destruct (Nat.eqb_spec (S k) a) as [E|E].
    + subst a. replace (S k <=? k)%nat with false by (symmetry; apply Nat.leb_gt; lia).
      rewrite Nat.leb_refl. lra.
    + destruct (Nat.leb_spec a k), (Nat.leb_spec a (S k)); try lia; lra.
Qed.

Lemma presum_const0 k : presum (fun _ => 0) k = 0.
Proof. induction k as [|k IH]; cbn; lra. Qed.

Section Area.
  Variable t : nat -> R.
  Variable idx : nat -> nat.
  Variable ne : nat.

  Definition ind (b : bool) (v : R) : R := if b then v else 0.

  (** what one edge adds to the prefix sum up to epoch [k]: column 0 (rate) and column 1 (span) *)
  Definition contrib0 (k : nat) (e : (nat * nat) * (R * R)) : R :=
    let '((p, c), (y, sp)) := e in
    if Rltb 0 (t p - t c)
    then ind (idx c <=? k)%nat (y / (t p - t c)) - ind (idx p <=? k)%nat (y / (t p - t c))
    else 0.
  Definition contrib1 (k : nat) (e : (nat * nat) * (R * R)) : R :=
    let '((p, c), (y, sp)) := e in
    if Rltb 0 (t p - t c)
    then ind (idx c <=? k)%nat sp - ind (idx p <=? k)%nat sp
    else 0.

  Lemma area_edge_presum D e k : (k < ne)%nat ->
    presum (fst (area_edge RNum t idx ne D e)) k = presum (fst D) k + contrib0 k e /\
    presum (snd (area_edge RNum t idx ne D e)) k = presum (snd D) k + contrib1 k e.
  Proof.
    intro Hk. destruct e as [[p c] [y sp]]. unfold area_edge, contrib0, contrib1.
    cbn [RNum ltb sub zero add div T].
    destruct (Rltb 0 (t p - t c)); [|split; lra].
    set (v := y / (t p - t c)).
    assert (Ha : (idx c <? ne)%nat = false -> (idx c <=? k)%nat = false).
    { intro H. apply Nat.ltb_ge in H. apply Nat.leb_gt. lia. }
    assert (Hb : (idx p <? ne)%nat = false -> (idx p <=? k)%nat = false).
    { intro H. apply Nat.ltb_ge in H. apply Nat.leb_gt. lia. }
    destruct D as [D0 D1].
    destruct (idx c <? ne)%nat eqn:Ea, (idx p <? ne)%nat eqn:Eb; cbn [fst snd];
      try rewrite (Ha eq_refl); try rewrite (Hb eq_refl); unfold ind;
      repeat match goal with
      | |- context [presum (fupd ?f ?a (?f ?a - ?w)) k] =>
          replace (f a - w) with (f a + - w) by lra; rewrite (presum_fupd f a (- w) k)
      | |- context [presum (fupd ?f ?a (?f ?a + ?w)) k] => rewrite (presum_fupd f a w k)
      end;
      split; repeat match goal with |- context [if ?b then _ else _] => destruct b end; lra.
  Qed.

  Lemma area_fold_presum es : forall D k, (k < ne)%nat ->
    presum (fst (fold_left (area_edge RNum t idx ne) es D)) k
      = presum (fst D) k + Rsum (map (contrib0 k) es) /\
    presum (snd (fold_left (area_edge RNum t idx ne) es D)) k
      = presum (snd D) k + Rsum (map (contrib1 k) es).
  Proof.
    induction es as [|e es IH]; intros D k Hk; [cbn; split; lra|].
    cbn [fold_left map Rsum fold_right].
    destruct (IH (area_edge RNum t idx ne D e) k Hk) as [E0 E1].
    destruct (area_edge_presum D e k Hk) as [F0 F1].
    rewrite E0, E1, F0, F1. fold (Rsum (map (contrib0 k) es)). fold (Rsum (map (contrib1 k) es)).
    split; lra.
  Qed.
End Area.

(** ** sorted distinct values and ranks *)
Lemma uinsert_incr' : forall (r : list R) (z x : R), z < x -> incr (z :: r) -> incr (z :: uinsert RNum x r).
Proof.
  induction r as [|y r IH]; intros z x Hzx Hi; [cbn; tauto|].
  destruct Hi as [Hzy Hr]. cbn [uinsert RNum ltb].
  destruct (Rltb x y) eqn:E1.
  - apply Rltb_true in E1. cbn [incr]. tauto.
  - destruct (Rltb y x) eqn:E2.
    + apply Rltb_true in E2. split; [exact Hzy|]. apply IH; assumption.
    + split; assumption.
Qed.

Lemma uinsert_incr (l : list R) (x : R) : incr l -> incr (uinsert RNum x l).
Proof.
  destruct l as [|y r]; intro Hi; [cbn; tauto|]. cbn [uinsert RNum ltb].
  destruct (Rltb x y) eqn:E1.
  - apply Rltb_true in E1. cbn [incr]. tauto.
  - destruct (Rltb y x) eqn:E2; [|exact Hi].
    apply Rltb_true in E2. apply uinsert_incr'; assumption.
Qed.

Lemma uinsert_In (l : list R) (x y : R) : In y (uinsert RNum x l) <-> y = x \/ In y l.
Proof.
  induction l as [|z r IH]; [cbn; intuition|]. cbn [uinsert RNum ltb].
  destruct (Rltb x z) eqn:E1; [cbn; intuition|].
  destruct (Rltb z x) eqn:E2.
  - cbn [In]. rewrite IH. cbn [In]. intuition.
  - apply Rltb_false in E1, E2. assert (x = z) by lra. subst. cbn [In]. intuition.
Qed.

Lemma usort_incr (l : list R) : incr (usort RNum l).
Proof. induction l as [|x r IH]; [cbn; tauto|]. cbn [usort fold_right]. apply uinsert_incr. exact IH. Qed.

Lemma usort_In (l : list R) (y : R) : In y (usort RNum l) <-> In y l.
Proof.
  induction l as [|x r IH]; [cbn; tauto|]. cbn [usort fold_right]. fold (usort RNum r).
  rewrite uinsert_In, IH. cbn [In]. intuition.
Qed.

Lemma rank_cons (a : R) (s : list R) (x : R) :
  rank RNum (a :: s) x = ((if Rltb a x then 1 else 0) + rank RNum s x)%nat.
Proof. unfold rank. cbn [filter RNum ltb]. destruct (Rltb a x); reflexivity. Qed.

Lemma rank_le_length (s : list R) (x : R) : (rank RNum s x <= length s)%nat.
Proof. induction s as [|a s IH]; [cbn; lia|]. rewrite rank_cons. cbn [length]. destruct (Rltb a x); lia. Qed.

Lemma rank_mono (s : list R) (x y : R) : x <= y -> (rank RNum s x <= rank RNum s y)%nat.
Proof.
  intro Hxy. induction s as [|a s IH]; [cbn; lia|]. rewrite !rank_cons.
  destruct (Rltb a x) eqn:E1, (Rltb a y) eqn:E2; try lia.
  apply Rltb_true in E1. apply Rltb_false in E2. lra.
Qed.

(** the values below [x] form a prefix of a sorted list *)
Lemma rank_prefix : forall (s : list R) (x : R), incr s ->
  (0 < rank RNum s x)%nat -> nth (rank RNum s x - 1) s 0 < x.
Proof.
  induction s as [|a s IH]; intros x Hi Hr; [cbn in Hr; lia|].
  rewrite rank_cons in *. destruct (rank RNum s x) as [|r'] eqn:Er.
  - destruct (Rltb a x) eqn:E; [|lia]. apply Rltb_true in E. cbn. exact E.
  - assert (Hs : nth (S r' - 1) s 0 < x).
    { rewrite <- Er. apply IH; [eapply incr_tl; exact Hi|lia]. }
    replace (S r' - 1)%nat with r' in Hs by lia.
    assert (Hr' : (S r' <= length s)%nat) by (rewrite <- Er; apply rank_le_length).
    assert (Ha : a < nth r' s 0).
    { apply (incr_nth_lt (a :: s) Hi 0%nat (S r')). cbn [length]. lia. }
    destruct (Rltb a x) eqn:E.
    + replace (1 + S r' - 1)%nat with (S r') by lia. cbn [nth]. exact Hs.
    + apply Rltb_false in E. lra.
Qed.

Lemma rank_le_iff (s : list R) (x : R) k : incr s -> (k < length s)%nat ->
  ((rank RNum s x <= k)%nat <-> x <= nth k s 0).
Proof.
  intros Hi Hk. split.
  - (* if x > s_k then s_0..s_k are all below x *)
    intro Hr. destruct (Rle_dec x (nth k s 0)) as [|Hn]; [assumption|]. exfalso.
    apply Rnot_le_lt in Hn.
    revert k Hk Hn Hr. revert Hi. revert s.
    induction s as [|a s IH]; intros Hi k Hk Hn Hr; [cbn in Hk; lia|].
    rewrite rank_cons in Hr. destruct k as [|k].
    + cbn in Hn. apply Rltb_true in Hn. rewrite Hn in Hr. lia.
    + cbn [nth] in Hn.
      assert (Ha : a < nth k s 0).
      { apply (incr_nth_lt (a :: s) Hi 0%nat (S k)). cbn [length] in *. lia. }
      assert (E : Rltb a x = true) by (apply Rltb_true; lra). rewrite E in Hr.
      apply (IH (incr_tl _ _ Hi) k); [cbn [length] in Hk; lia|exact Hn|lia].
  - intro Hx. destruct (le_lt_dec (rank RNum s x) k) as [|Hgt]; [assumption|]. exfalso.
    assert (Hp : nth (rank RNum s x - 1) s 0 < x) by (apply rank_prefix; [exact Hi|lia]).
    assert (Hm : nth k s 0 <= nth (rank RNum s x - 1) s 0).
    { apply incr_nth_le; [exact Hi|]. pose proof (rank_le_length s x). lia. }
    lra.
Qed.

Lemma rank_nth (s : list R) m : incr s -> (m < length s)%nat -> rank RNum s (nth m s 0) = m.
Proof.
  intros Hi Hm. apply Nat.le_antisymm.
  - apply (rank_le_iff s _ m Hi Hm). lra.
  - destruct m as [|m]; [lia|].
    destruct (le_lt_dec (S m) (rank RNum s (nth (S m) s 0))) as [|Hlt]; [assumption|]. exfalso.
    assert (Hle : (rank RNum s (nth (S m) s 0%R) <= m)%nat) by lia.
    apply (rank_le_iff s _ m Hi) in Hle; [|lia].
    assert (nth m s 0 < nth (S m) s 0) by (apply incr_nth_lt; [exact Hi|lia]). lra.
Qed.

(** an edge of positive length covers the interval [s_k, s_(k+1)] between consecutive
    node times iff its child is at or below [s_k] and its parent at or above [s_(k+1)] *)
Definition covers (t : nat -> R) (lo hi : R) (e : (nat * nat) * (R * R)) : bool :=
  Rltb 0 (t (fst (fst e)) - t (snd (fst e))) && Rleb (t (snd (fst e))) lo && Rleb hi (t (fst (fst e))).

Lemma contrib_covers (s : list R) (t : nat -> R) k (e : (nat * nat) * (R * R)) (w : R) :
  incr s -> (S k < length s)%nat -> In (t (fst (fst e))) s ->
  (if Rltb 0 (t (fst (fst e)) - t (snd (fst e)))
   then ind (rank RNum s (t (snd (fst e))) <=? k)%nat w - ind (rank RNum s (t (fst (fst e))) <=? k)%nat w
   else 0)
  = if covers t (nth k s 0) (nth (S k) s 0) e then w else 0.
Proof.
  intros Hi Hk Hin. destruct e as [[p c] ysp]. unfold covers. cbn [fst snd].
  destruct (Rltb 0 (t p - t c)) eqn:El; [|reflexivity]. apply Rltb_true in El.
  cbn [andb]. unfold ind.
  assert (Hk' : (k < length s)%nat) by lia.
  pose proof (rank_le_iff s (t c) k Hi Hk') as Hc.
  pose proof (rank_le_iff s (t p) k Hi Hk') as Hp.
  destruct (In_nth s (t p) 0 Hin) as (m & Hm & Em).
  assert (Hstep : nth k s 0 < nth (S k) s 0) by (apply incr_nth_lt; [exact Hi|lia]).
  destruct (Nat.leb_spec (rank RNum s (t c)) k) as [Lc|Lc];
  destruct (Nat.leb_spec (rank RNum s (t p)) k) as [Lp|Lp].
  - (* both at or below s_k: not covered *)
    apply Hp in Lp. replace (Rleb (nth (S k) s 0) (t p)) with false; [rewrite andb_false_r; lra|].
    symmetry. apply Rleb_false. lra.
  - (* child at or below, parent above: covered *)
    apply Hc in Lc. assert (Hgt : nth k s 0 < t p).
    { destruct (Rle_dec (t p) (nth k s 0)) as [Hle|Hn]; [apply Hp in Hle; lia|apply Rnot_le_lt; exact Hn]. }
    assert (Hkm : (k < m)%nat) by (apply (incr_nth_inv s Hi k m Hk' Hm); rewrite Em; exact Hgt).
    assert (nth (S k) s 0 <= t p).
    { rewrite <- Em. apply incr_nth_le; [exact Hi|lia]. }
    replace (Rleb (t c) (nth k s 0)) with true by (symmetry; apply Rleb_true; lra).
    replace (Rleb (nth (S k) s 0) (t p)) with true by (symmetry; apply Rleb_true; lra).
    cbn. lra.
  - (* child above s_k but parent not: impossible since t c < t p *)
    exfalso. assert ((rank RNum s (t c) <= rank RNum s (t p))%nat) by (apply rank_mono; lra). lia.
  - (* both above *)
    replace (Rleb (t c) (nth k s 0)) with false; [cbn; lra|].
    symmetry. apply Rleb_false.
    destruct (Rle_dec (t c) (nth k s 0)) as [Hle|Hn]; [apply Hc in Hle; lia|apply Rnot_le_lt; exact Hn].
Qed.

Lemma nth_diff : forall (l : list R) k, (S k < length l)%nat ->
  nth k (diff RNum l) 0 = nth (S k) l 0 - nth k l 0.
Proof.
  induction l as [|a [|b r] IH]; intros k Hk; cbn [length] in Hk; try lia.
  destruct k as [|k]; [reflexivity|].
  change (diff RNum (a :: b :: r)) with ((b - a) :: diff RNum (b :: r)).
  cbn [nth]. apply (IH k). cbn [length]. lia.
Qed.

Lemma diff_length (l : list R) : length (diff RNum l) = (length l - 1)%nat.
Proof.
  unfold diff. rewrite map_length, combine_length. destruct l as [|a r]; cbn [length tl T RNum]; lia.
Qed.

Lemma duration_nth (s : list R) k : (S k < length s)%nat ->
  nth k (diff RNum (epoch_breaks_of RNum s)) 0 = nth (S k) s 0 - (if (k =? 0)%nat then 0 else nth k s 0).
Proof.
  intro Hk. destruct s as [|a s']; [cbn in Hk; lia|]. unfold epoch_breaks_of. cbn [tl].
  rewrite nth_diff by (cbn [length T RNum] in *; lia).
  destruct k; cbn [nth Nat.eqb RNum zero]; reflexivity.
Qed.

Lemma duration_length (s : list R) : length (diff RNum (epoch_breaks_of RNum s)) = (length s - 1)%nat.
Proof. rewrite diff_length. unfold epoch_breaks_of. destruct s; cbn [length tl T RNum]; lia. Qed.

Lemma map_ext_in_R {A} (f g : A -> R) l : (forall x, In x l -> f x = g x) -> Rsum (map f l) = Rsum (map g l).
Proof. intro H. f_equal. apply map_ext_in. exact H. Qed.

(** ** the statement *)
Lemma area_is_overlap (times : list R) (liks : list (R * R)) edges (counts offset duration : list R) index :
  (forall p c, In (p, c) edges -> (p < length times)%nat) ->
  mutational_area RNum times liks edges = (counts, offset, duration, index) ->
  let s := usort RNum times in
  let t := nthT RNum times in
  incr s /\ (forall x, In x s <-> In x times) /\
  length counts = (length s - 1)%nat /\ length offset = (length s - 1)%nat /\
  length duration = (length s - 1)%nat /\ length index = length times /\
  (forall k, (S k < length s)%nat ->
     nth k counts 0
       = Rsum (map (fun e => if covers t (nth k s 0) (nth (S k) s 0) e
                             then fst (snd e) / (t (fst (fst e)) - t (snd (fst e))) else 0)
                   (combine edges liks)) /\
     nth k offset 0
       = Rsum (map (fun e => if covers t (nth k s 0) (nth (S k) s 0) e then snd (snd e) else 0)
                   (combine edges liks)) /\
     nth k duration 0 = nth (S k) s 0 - (if (k =? 0)%nat then 0 else nth k s 0)) /\
  (forall i, (i < length times)%nat ->
     (nth i index O < length s)%nat /\ nth (nth i index O) s 0 = t i).
Proof.
  intros Hedges Hma s t. unfold mutational_area in Hma. fold s in Hma.
  injection Hma as Hc Ho Hd Hx.
  pose proof (usort_incr times) as Hi. fold s in Hi.
  assert (HIn : forall x, In x s <-> In x times) by (intro x; apply usort_In).
  split; [exact Hi|]. split; [exact HIn|].
  split; [subst counts; rewrite cumsum_length; unfold tabulate; rewrite map_length, seq_length; reflexivity|].
  split; [subst offset; rewrite cumsum_length; unfold tabulate; rewrite map_length, seq_length; reflexivity|].
  split; [subst duration; apply duration_length|].
  split; [subst index; unfold tabulate; rewrite map_length, seq_length; reflexivity|].
  split.
  - intros k Hk.
    assert (Hkn : (k < length s - 1)%nat) by lia.
    destruct (area_fold_presum t (node_index_of RNum s times) (length s - 1)
                (combine edges liks) (dstate0 RNum) k Hkn) as [E0 E1].
    cbn [dstate0 fst snd RNum zero] in E0, E1. rewrite presum_const0 in E0, E1.
    assert (Hmem : forall e, In e (combine edges liks) -> In (t (fst (fst e))) s).
    { intros [[p c] ysp] Hin. cbn [fst]. apply in_combine_l in Hin. apply HIn.
      unfold t, nthT. apply nth_In. eapply Hedges; exact Hin. }
    split; [|split].
    + subst counts. rewrite cumsum_tabulate_nth by exact Hkn.
      etransitivity; [exact E0|]. rewrite Rplus_0_l. apply map_ext_in_R.
      intros e Hin. rewrite <- (contrib_covers s t k e _ Hi Hk (Hmem e Hin)).
      destruct e as [[p c] [y sp]]. reflexivity.
    + subst offset. rewrite cumsum_tabulate_nth by exact Hkn.
      etransitivity; [exact E1|]. rewrite Rplus_0_l. apply map_ext_in_R.
      intros e Hin. rewrite <- (contrib_covers s t k e _ Hi Hk (Hmem e Hin)).
      destruct e as [[p c] [y sp]]. reflexivity.
    + subst duration. apply duration_nth. exact Hk.
  - intros i Hi'. subst index. unfold tabulate.
    rewrite (nth_indep _ O (node_index_of RNum s times O)) by (rewrite map_length, seq_length; exact Hi').
    rewrite (map_nth (node_index_of RNum s times)), seq_nth by exact Hi'. cbn [plus].
    unfold node_index_of. fold (t i).
    assert (Hin : In (t i) s) by (apply HIn; unfold t, nthT; apply nth_In; exact Hi').
    destruct (In_nth s (t i) 0 Hin) as (m & Hm & Em).
    rewrite <- Em. rewrite rank_nth by assumption. split; [exact Hm|reflexivity].
Qed.
