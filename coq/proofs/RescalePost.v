(** * [piecewise_scale_point_estimate], [piecewise_scale_posterior], [mutational_timescale],
    the rescaling loop and the breakpoint recovery, over the reals (C25, C37). *)
From Coq Require Import List Arith Lia Bool Reals Lra.
From TsdateV Require Import lib.Num model.Rescale proofs.RescalePW proofs.RescaleArea.
Import ListNotations.
Open Scope R_scope.

Ltac tlia := change (T RNum) with R in *; lia.

(** ** list plumbing *)
Lemma nth_map_combine {A B C} (f : A * B -> C) (la : list A) (lb : list B) i da db dc :
  (i < length la)%nat -> length la = length lb ->
  nth i (map f (combine la lb)) dc = f (nth i la da, nth i lb db).
Proof.
  intros Hi Hl.
  rewrite (nth_indep _ dc (f (da, db))) by (rewrite map_length, combine_length; lia).
  rewrite map_nth, combine_nth by exact Hl. reflexivity.
Qed.

Lemma collect_map {A} (l : list (option A)) out : collect l = Some out -> l = map Some out.
Proof.
  revert out. induction l as [|[x|] r IH]; intros out H; cbn in H.
  - injection H as <-. reflexivity.
  - destruct (collect r) as [r'|]; [|discriminate]. injection H as <-. cbn. f_equal. apply IH. reflexivity.
  - discriminate.
Qed.

Lemma fold_left_Rplus (l : list R) acc : fold_left Rplus l acc = acc + Rsum l.
Proof. unfold Rsum. revert acc. induction l as [|x r IH]; intro acc; cbn [fold_left fold_right]; [lra|]. rewrite IH. lra. Qed.

Definition slice (l : list R) (i j : nat) : list R := firstn (j - i) (skipn i l).

Lemma sum_slice_Rsum (l : list R) i j : sum_slice RNum l i j = Rsum (slice l i j).
Proof. unfold sum_slice, slice. cbn [RNum add zero]. rewrite fold_left_Rplus. apply Rplus_0_l. Qed.

Lemma Rsum_firstn_S : forall (l : list R) m, (m < length l)%nat ->
  Rsum (firstn (S m) l) = Rsum (firstn m l) + nth m l 0.
Proof.
  induction l as [|x r IH]; intros m Hm; [cbn in Hm; lia|].
  destruct m as [|m]; [cbn; lra|].
  change (firstn (S (S m)) (x :: r)) with (x :: firstn (S m) r).
  change (firstn (S m) (x :: r)) with (x :: firstn m r).
  cbn [Rsum fold_right nth]. fold (Rsum (firstn (S m) r)). fold (Rsum (firstn m r)).
  rewrite IH by (cbn in Hm; lia). lra.
Qed.

Lemma cumsum_increment (l : list R) k : (S k < length l)%nat ->
  nth (S k) (cumsum RNum l) 0 - nth k (cumsum RNum l) 0 = nth (S k) l 0.
Proof.
  intro Hk. unfold cumsum. rewrite !cumsum_from_nth by lia.
  rewrite (Rsum_firstn_S l (S k)) by lia. lra.
Qed.

(** ** [piecewise_scale_point_estimate] *)
Lemma pspe_spec (xs : list R) fixed (ob rb out : list R) :
  piecewise_scale_point_estimate RNum xs fixed ob rb = Some out ->
  breaks_ok RNum ob rb = true /\ length out = length xs /\ length xs = length fixed /\
  forall i, (i < length xs)%nat ->
    nth i out 0 = if nth i fixed false then nth i xs 0 else pw RNum ob rb (nth i xs 0).
Proof.
  unfold piecewise_scale_point_estimate. intro H. change (T RNum) with R in *.
  destruct (breaks_ok RNum ob rb) eqn:Eb; [|cbn [andb] in H; discriminate]. cbn [andb] in H.
  destruct (length xs =? length fixed)%nat eqn:El; [|discriminate].
  apply Nat.eqb_eq in El. injection H as <-.
  split; [reflexivity|]. split; [rewrite map_length, combine_length; lia|]. split; [exact El|].
  intros i Hi. rewrite (nth_map_combine _ xs fixed i 0 false 0 Hi El). reflexivity.
Qed.

(** ** [mutational_timescale] *)
Lemma nat_uinsert_head0 x r : exists r', nat_uinsert x (O :: r) = O :: r'.
Proof. cbn [nat_uinsert]. destruct x as [|x]; cbn; eauto. Qed.

Lemma nat_usort_head l : In O l -> exists r, nat_usort l = O :: r.
Proof.
  induction l as [|a l IH]; intro H; [contradiction|]. cbn [nat_usort fold_right]. fold (nat_usort l).
  destruct (Nat.eq_dec a O) as [->|Ha].
  - destruct (nat_usort l) as [|y r]; [cbn; eauto|].
    cbn [nat_uinsert]. destruct y as [|y]; cbn; eauto.
  - destruct H as [H|H]; [congruence|]. destruct (IH H) as [r ->]. apply nat_uinsert_head0.
Qed.

Lemma ts_adjust_cons2 (co off du : list R) i j r :
  ts_adjust RNum co off du (i :: j :: r)
  = if Rltb 0 (sum_slice RNum off i j)
    then match ts_adjust RNum co off du (j :: r) with
         | Some l => Some (sum_slice RNum du i j * sum_slice RNum co i j / sum_slice RNum off i j :: l)
         | None => None
         end
    else None.
Proof. reflexivity. Qed.

Lemma ts_adjust_spec (co off du : list R) : forall cp adj,
  ts_adjust RNum co off du cp = Some adj ->
  length adj = (length cp - 1)%nat /\
  forall k, (S k < length cp)%nat ->
    0 < Rsum (slice off (nth k cp O) (nth (S k) cp O)) /\
    nth k adj 0 = Rsum (slice du (nth k cp O) (nth (S k) cp O))
                  * Rsum (slice co (nth k cp O) (nth (S k) cp O))
                  / Rsum (slice off (nth k cp O) (nth (S k) cp O)).
Proof.
  induction cp as [|i cp IH]; intros adj H.
  - cbn in H. injection H as <-. split; [reflexivity|]. intros k Hk. cbn in Hk. lia.
  - destruct cp as [|j cp].
    + cbn in H. injection H as <-. split; [reflexivity|]. intros k Hk. cbn in Hk. lia.
    + rewrite ts_adjust_cons2 in H. rewrite !sum_slice_Rsum in H.
      destruct (Rltb 0 (Rsum (slice off i j))) eqn:En; [|discriminate]. apply Rltb_true in En.
      destruct (ts_adjust RNum co off du (j :: cp)) as [l|] eqn:El; [|discriminate].
      injection H as <-. destruct (IH l eq_refl) as [IL IK].
      split; [cbn [length] in *; lia|].
      intros k Hk. destruct k as [|k].
      * cbn [nth]. split; [exact En|reflexivity].
      * change (nth (S k) (i :: j :: cp) O) with (nth k (j :: cp) O).
        change (nth (S (S k)) (i :: j :: cp) O) with (nth (S k) (j :: cp) O).
        cbn [nth]. apply IK. cbn [length] in *. lia.
Qed.

(** origin and adjust both start at 0 when 0 is a changepoint; consecutive rescaled breaks
    differ by (duration * count / area) of the interval, whose area is positive *)
Lemma timescale_spec (times : list R) (liks : list (R * R)) edges cps (ob rb : list R) :
  mutational_timescale RNum times liks edges cps = Some (ob, rb) ->
  forall co off du ix, mutational_area RNum times liks edges = (co, off, du, ix) ->
  let cp := nat_usort cps in
  length ob = length cp /\ length rb = S (length cp - 1) /\
  nth 0 rb 0 = 0 /\
  (In O cps -> nth 0 ob 0 = 0) /\
  (forall k, (k < length cp)%nat -> nth k ob 0 = nth (nth k cp O) (0 :: cumsum RNum du) 0) /\
  (forall k, (S k < length cp)%nat ->
     0 < Rsum (slice off (nth k cp O) (nth (S k) cp O)) /\
     nth (S k) rb 0 - nth k rb 0
       = Rsum (slice du (nth k cp O) (nth (S k) cp O)) * Rsum (slice co (nth k cp O) (nth (S k) cp O))
         / Rsum (slice off (nth k cp O) (nth (S k) cp O))).
Proof.
  intros H co off du ix Ea cp. unfold mutational_timescale in H. rewrite Ea in H. fold cp in H.
  destruct (ts_adjust RNum co off du cp) as [adj|] eqn:Et; [|discriminate].
  injection H as <- <-. destruct (ts_adjust_spec co off du cp adj Et) as [La Ka].
  split; [apply map_length|].
  split; [rewrite cumsum_length; change (T RNum) with R in *; cbn [length]; rewrite La; reflexivity|].
  split; [cbn; lra|].
  split.
  - intro H0. destruct (nat_usort_head cps H0) as [r Er]. fold cp in Er. rewrite Er. cbn. reflexivity.
  - split.
    + intros k Hk. rewrite (nth_indep _ 0 (nthT RNum (zero RNum :: cumsum RNum du) O)) by (rewrite map_length; exact Hk).
      rewrite (map_nth (nthT RNum (zero RNum :: cumsum RNum du))). reflexivity.
    + intros k Hk. destruct (Ka k Hk) as [Hn Hv]. split; [exact Hn|].
      rewrite cumsum_increment by (change (T RNum) with R in *; cbn [length RNum zero]; lia). cbn [nth RNum zero]. exact Hv.
Qed.

(** ** [piecewise_scale_posterior] *)
Section Posterior.
  Variable ginv : R -> R -> R.
  Variable fit : R -> R -> R -> R -> R -> option (R * R).

  Definition qlo (qw : R) : R := qw / (1 + 1).
  Definition qhi (qw : R) : R := 1 - qw / (1 + 1).

  Lemma psp_spec (posts : list (R * R)) fixed (ob rb : list R) qw ms out :
    piecewise_scale_posterior RNum ginv fit posts fixed ob rb qw ms = Some out ->
    0 < qw < 1 /\ breaks_ok RNum ob rb = true /\
    length out = length posts /\ length fixed = length posts /\
    forall i, (i < length posts)%nat ->
      if nth i fixed false then nth_error out i = Some None
      else let a := fst (nth i posts (0, 0)) in
           let b := snd (nth i posts (0, 0)) in
           -1 < a /\ 0 < b /\
           exists a' b0,
             fit (qlo qw) (qhi qw) (pw RNum ob rb (ginv (a + 1) (qlo qw) / b))
                 (pw RNum ob rb (ginv (a + 1) (qhi qw) / b)) ms = Some (a', b0) /\
             nth_error out i = Some (Some (a', (a' + 1) / pw RNum ob rb ((a + 1) / b))).
  Proof.
    unfold piecewise_scale_posterior. intro H. change (T RNum) with R in *.
    destruct (ltb RNum qw (one RNum) && ltb RNum (zero RNum) qw) eqn:Eq; [|discriminate].
    cbn [negb] in H. apply andb_true_iff in Eq. destruct Eq as [Eq1 Eq2].
    cbn [RNum ltb one zero] in Eq1, Eq2. apply Rltb_true in Eq1, Eq2.
    destruct (length fixed =? length posts)%nat eqn:El; [|discriminate]. cbn [negb] in H.
    apply Nat.eqb_eq in El.
    match type of H with (if negb (forallb ?f ?l) then _ else _) = _ => destruct (forallb f l) eqn:Ev end;
      [|discriminate]. cbn [negb] in H.
    destruct (breaks_ok RNum ob rb) eqn:Eb; [|discriminate]. cbn [negb] in H.
    match type of H with (if existsb ?f ?l then _ else _) = _ => destruct (existsb f l) end;
      [discriminate|].
    apply collect_map in H.
    split; [lra|]. split; [reflexivity|].
    assert (Hlen : length out = length posts).
    { apply (f_equal (@length _)) in H. rewrite !map_length, combine_length, map_length, combine_length in H. tlia. }
    split; [exact Hlen|]. split; [exact El|].
    intros i Hi.
    apply (f_equal (fun l => nth_error l i)) in H. rewrite !nth_error_map in H.
    set (pf := combine posts fixed) in *.
    assert (Lpf : length pf = length posts) by (unfold pf; rewrite combine_length; tlia).
    assert (Epf : nth_error pf i = Some (nth i posts (0, 0), nth i fixed false)).
    { unfold pf. rewrite (nth_error_nth' _ ((0, 0), false)) by (rewrite combine_length; tlia).
      rewrite combine_nth by lia. reflexivity. }
    set (q := map (quantiles RNum ginv (div RNum qw (two RNum))
                     (sub RNum (one RNum) (div RNum qw (two RNum)))) pf) in *.
    assert (Eq' : nth_error (combine q fixed) i
                  = Some (quantiles RNum ginv (div RNum qw (two RNum))
                            (sub RNum (one RNum) (div RNum qw (two RNum)))
                            (nth i posts (0, 0), nth i fixed false), nth i fixed false)).
    { rewrite (nth_error_nth' _ ((0, 0, 0), false)) by (unfold q; rewrite combine_length, map_length; tlia).
      rewrite combine_nth by (unfold q; rewrite map_length; tlia). unfold q.
      rewrite (nth_indep _ (0, 0, 0) (quantiles RNum ginv (div RNum qw (two RNum))
                 (sub RNum (one RNum) (div RNum qw (two RNum))) ((0, 0), false))) by (rewrite map_length; tlia).
      rewrite map_nth. unfold pf. rewrite combine_nth by lia. reflexivity. }
    change (T RNum) with R in *. unfold q in Eq'. rewrite Eq' in H. cbn [option_map] in H.
    (* the positivity assertion on free rows *)
    rewrite forallb_forall in Ev.
    assert (Hin : In (nth i posts (0, 0), nth i fixed false) pf) by (eapply nth_error_In; exact Epf).
    specialize (Ev _ Hin). cbn [fst snd] in Ev.
    destruct (nth i posts (0, 0)) as [a b] eqn:Ep. destruct (nth i fixed false) eqn:Ef.
    - cbn [quantiles] in H. destruct (nth_error out i) as [o|]; cbn in H; [|discriminate].
      injection H as <-. reflexivity.
    - cbn [orb] in Ev. apply andb_true_iff in Ev. destruct Ev as [Ea Ebb].
      cbn [RNum ltb neg one zero] in Ea, Ebb. apply Rltb_true in Ea, Ebb.
      cbn [fst snd] in *. split; [lra|]. split; [exact Ebb|].
      cbn [quantiles] in H. unfold two in H. cbn [RNum add one div sub zero] in H.
      unfold qlo, qhi.
      destruct (fit (qw / (1 + 1)) (1 - qw / (1 + 1))
                  (pw RNum ob rb (ginv (a + 1) (qw / (1 + 1)) / b))
                  (pw RNum ob rb (ginv (a + 1) (1 - qw / (1 + 1)) / b)) ms) as [[a' b0]|] eqn:Ef';
        cbn [option_map fst] in H.
      + exists a', b0. split; [reflexivity|].
        destruct (nth_error out i) as [o|]; cbn in H; [|discriminate].
        injection H as <-. reflexivity.
      + destruct (nth_error out i); cbn in H; discriminate.
  Qed.

  (** contract of [approximate_gamma_iqr]: a returned natural shape parameter [a] satisfies
      [0 < a + 1 <= max_shape] (approx.py:147-185: every return is [(alpha - 1, _)] with
      [0 < alpha <= max_shape], or [(max_shape - 1, _)]) *)
  Hypothesis fit_contract : forall q1 q2 x1 x2 ms a b,
    fit q1 q2 x1 x2 ms = Some (a, b) -> -1 < a /\ a + 1 <= ms.

  Lemma psp_mean_shape (posts : list (R * R)) fixed (ob rb : list R) qw ms out :
    piecewise_scale_posterior RNum ginv fit posts fixed ob rb qw ms = Some out ->
    nth 0 ob 0 = 0 -> nth 0 rb 0 = 0 -> (2 <= length ob)%nat ->
    forall i, (i < length posts)%nat -> nth i fixed false = false ->
      let a := fst (nth i posts (0, 0)) in
      let b := snd (nth i posts (0, 0)) in
      exists a' b', nth_error out i = Some (Some (a', b')) /\
        0 < (a + 1) / b /\
        (a' + 1) / b' = pw RNum ob rb ((a + 1) / b) /\
        -1 < a' /\ a' + 1 <= ms /\ 0 < b'.
  Proof.
    intros H Ho0 Hr0 H2 i Hi Hf a b.
    destruct (psp_spec _ _ _ _ _ _ _ H) as (_ & Hok & _ & _ & Hrow).
    specialize (Hrow i Hi). rewrite Hf in Hrow. fold a b in Hrow.
    destruct Hrow as (Ha & Hb & a' & b0 & Hfit & Hout).
    destruct (fit_contract _ _ _ _ _ _ _ Hfit) as [Ha1 Ha2].
    assert (Hm : 0 < (a + 1) / b) by (apply Rdiv_lt_0_compat; lra).
    pose proof (pw_pos ob rb Hok Ho0 Hr0 _ H2 Hm) as Hp.
    exists a', ((a' + 1) / pw RNum ob rb ((a + 1) / b)).
    split; [exact Hout|]. split; [exact Hm|]. split; [field; lra|].
    split; [exact Ha1|]. split; [exact Ha2|]. apply Rdiv_lt_0_compat; lra.
  Qed.

  Lemma psp_order (posts : list (R * R)) fixed (ob rb : list R) qw ms out :
    piecewise_scale_posterior RNum ginv fit posts fixed ob rb qw ms = Some out ->
    nth 0 ob 0 = 0 -> nth 0 rb 0 = 0 -> (2 <= length ob)%nat ->
    forall i j, (i < length posts)%nat -> (j < length posts)%nat ->
      nth i fixed false = false -> nth j fixed false = false ->
      (fst (nth i posts (0, 0)) + 1) / snd (nth i posts (0, 0))
        <= (fst (nth j posts (0, 0)) + 1) / snd (nth j posts (0, 0)) ->
      exists ai bi aj bj,
        nth_error out i = Some (Some (ai, bi)) /\ nth_error out j = Some (Some (aj, bj)) /\
        (ai + 1) / bi <= (aj + 1) / bj.
  Proof.
    intros H Ho0 Hr0 H2 i j Hi Hj Hfi Hfj Hle.
    destruct (psp_mean_shape _ _ _ _ _ _ _ H Ho0 Hr0 H2 i Hi Hfi) as (ai & bi & Ei & Hmi & Emi & _).
    destruct (psp_mean_shape _ _ _ _ _ _ _ H Ho0 Hr0 H2 j Hj Hfj) as (aj & bj & Ej & Hmj & Emj & _).
    exists ai, bi, aj, bj. split; [exact Ei|]. split; [exact Ej|].
    rewrite Emi, Emj.
    destruct (psp_spec _ _ _ _ _ _ _ H) as (_ & Hok & _).
    apply (pw_mono ob rb Hok Ho0); lra.
  Qed.
End Posterior.

(** ** the rescaling loop *)
Definition zero_breaks (l : option (list R * list R)) : Prop :=
  match l with Some (ob, rb) => nth 0 ob 0 = 0 /\ nth 0 rb 0 = 0 | None => True end.

Lemma timescale_zero (times : list R) (liks : list (R * R)) edges cps (ob rb : list R) :
  mutational_timescale RNum times liks edges cps = Some (ob, rb) -> In O cps ->
  nth 0 ob 0 = 0 /\ nth 0 rb 0 = 0.
Proof.
  intros H H0. destruct (mutational_area RNum times liks edges) as [[[co off] du] ix] eqn:Ea.
  destruct (timescale_spec _ _ _ _ _ _ H co off du ix Ea) as (_ & _ & Hr & Ho & _).
  split; [apply Ho; exact H0|exact Hr].
Qed.

Lemma rescale_loop_spec (liks : list (R * R)) edges fixed : forall cpss (x : list R) last x' last',
  (forall cps, In cps cpss -> In O cps) ->
  (forall i, 0 <= nth i x 0) ->
  zero_breaks last ->
  rescale_loop RNum liks edges fixed cpss x last = Some (x', last') ->
  length x' = length x /\ (forall i, 0 <= nth i x' 0) /\ zero_breaks last' /\
  (cpss <> [] -> last' <> None /\ length x = length fixed) /\
  exists g : R -> R, g 0 = 0 /\ (forall u v, 0 <= u -> u <= v -> g u <= g v) /\
    forall i, (i < length x)%nat ->
      nth i x' 0 = if nth i fixed false then nth i x 0 else g (nth i x 0).
Proof.
  induction cpss as [|cps cpss IH]; intros x last x' last' Hcp Hx Hz H.
  - cbn in H. injection H as <- <-. split; [reflexivity|]. split; [exact Hx|]. split; [exact Hz|].
    split; [congruence|]. exists (fun u => u). split; [reflexivity|]. split; [intros; assumption|].
    intros i _. destruct (nth i fixed false); reflexivity.
  - cbn [rescale_loop] in H.
    destruct (mutational_timescale RNum x liks edges cps) as [[ob rb]|] eqn:Et; [|discriminate].
    destruct (piecewise_scale_point_estimate RNum x fixed ob rb) as [x1|] eqn:Ep; [|discriminate].
    destruct (timescale_zero _ _ _ _ _ _ Et (Hcp cps (or_introl eq_refl))) as [Ho0 Hr0].
    destruct (pspe_spec _ _ _ _ _ Ep) as (Hok & L1 & Lf & Hv).
    change (T RNum) with R in *.
    assert (Hx1 : forall i, 0 <= nth i x1 0).
    { intro i. destruct (lt_dec i (length x)) as [Hi|Hi].
      - rewrite (Hv i Hi). destruct (nth i fixed false); [apply Hx|].
        apply (pw_nonneg ob rb Hok Ho0 Hr0). apply Hx.
      - rewrite nth_overflow by lia. lra. }
    destruct (IH x1 (Some (ob, rb)) x' last' (fun c Hc => Hcp c (or_intror Hc)) Hx1 (conj Ho0 Hr0) H)
      as (L2 & Hx' & Hz' & Hne & g & Hg0 & Hgm & Hgv).
    split; [lia|]. split; [exact Hx'|]. split; [exact Hz'|].
    split.
    { intros _. split; [|exact Lf]. destruct cpss as [|c r].
      - cbn in H. injection H as _ <-. discriminate.
      - apply Hne. discriminate. }
    exists (fun u => g (pw RNum ob rb u)).
    split; [rewrite (pw_zero ob rb Hok Ho0 Hr0); exact Hg0|].
    split.
    + intros u v Hu Huv. apply Hgm; [apply (pw_nonneg ob rb Hok Ho0 Hr0); exact Hu|].
      apply (pw_mono ob rb Hok Ho0); assumption.
    + intros i Hi. rewrite (Hgv i) by lia. rewrite (Hv i Hi).
      destruct (nth i fixed false); reflexivity.
Qed.

(** the breaks handed to [piecewise_scale_posterior] by [ExpectationPropagation.rescale]
    both start at 0 *)
Lemma ep_breaks_zero (means : list R) fixed (liks : list (R * R)) edges cpss (ob' rb x' : list R) :
  ep_rescale_breaks RNum means fixed liks edges cpss = Some (ob', rb, x') ->
  (forall cps, In cps cpss -> In O cps) ->
  (forall i, 0 <= nth i means 0) ->
  nth 0 ob' 0 = 0 /\ nth 0 rb 0 = 0 /\ length ob' = length rb /\
  exists ob, rescale_loop RNum liks edges fixed cpss means None = Some (x', Some (ob, rb)).
Proof.
  unfold ep_rescale_breaks, recover_breaks. intros H Hcp Hm.
  destruct (rescale_loop RNum liks edges fixed cpss means None) as [[x1 [[ob rb1]|]]|] eqn:El;
    try discriminate.
  match type of H with match ?p with _ => _ end = _ => destruct p as [ob1|] eqn:Ep end; [|discriminate].
  injection H as <- <- <-.
  destruct (rescale_loop_spec liks edges fixed cpss means None x1 (Some (ob, rb1)) Hcp Hm I El) as (_ & _ & [_ Hr0] & _).
  destruct (pspe_spec _ _ _ _ _ Ep) as (Hok & L1 & _ & Hv).
  split; [|split; [exact Hr0|split; [exact L1|exists ob; reflexivity]]].
  destruct rb1 as [|r0 rb1]; [destruct ob1; [reflexivity|discriminate L1]|].
  rewrite (Hv 0%nat) by (cbn; lia). cbn [map nth]. cbn [nth] in Hr0. rewrite Hr0.
  apply (pw_zero _ _ Hok); reflexivity.
Qed.

(** ** mutation times of [rescale_tree_sequence] *)
Lemma mutation_time_between (edges : list (nat * nat)) (t : list R) e node :
  let p := fst (nth e edges (O, O)) in
  let c := snd (nth e edges (O, O)) in
  mutation_time RNum edges t (Some e, node) = (nth p t 0 + nth c t 0) / 2 /\
  (nth c t 0 < nth p t 0 ->
     nth c t 0 < mutation_time RNum edges t (Some e, node) < nth p t 0).
Proof.
  intros p c. unfold mutation_time, two, nthT. cbn [fst snd RNum add one div zero]. fold p c. change (T RNum) with R.
  split; [lra|]. intro H. lra.
Qed.

Lemma rescale_ts_spec (times : list R) fixed (liks : list (R * R)) edges cpss muts (t' mt : list R) :
  rescale_ts_times RNum times fixed liks edges cpss muts = Some (t', mt) ->
  (exists last, rescale_loop RNum liks edges fixed cpss times None = Some (t', last)) /\
  length mt = length muts /\
  forall m, (m < length muts)%nat ->
    nth m mt 0 = mutation_time RNum edges t' (nth m muts (None, O)).
Proof.
  unfold rescale_ts_times. intro H.
  destruct (rescale_loop RNum liks edges fixed cpss times None) as [[t1 last]|] eqn:El; [|discriminate].
  injection H as <- <-. split; [exists last; reflexivity|]. split; [apply map_length|].
  intros m Hm. rewrite (nth_indep _ 0 (mutation_time RNum edges t1 (None, O))) by (rewrite map_length; exact Hm).
  apply map_nth.
Qed.
