(** * Facts about [reallocate_unphased] and the phase flow of [infer]/[rescale] (C23), over R. *)
From Coq Require Import Reals Lra List Arith Lia Bool QArith.
From TsdateV Require Import lib.Num model.EP model.Phasing proofs.EPInv.
Import ListNotations.
Open Scope R_scope.

Fixpoint lsum (l : list R) : R := match l with [] => 0 | x :: r => x + lsum r end.

Lemma rsum_indicator n i v : (i < n)%nat -> rsum n (fun e => if Nat.eqb e i then v else 0) = v.
Proof. induction n as [|n IH]; intro H; [lia|]. cbn [rsum].
  destruct (Nat.eq_dec i n) as [->|Hne].
  - rewrite Nat.eqb_refl. rewrite (rsum_ext n _ (fun _ => 0)).
    + assert (Z : forall m, rsum m (fun _ => 0) = 0) by (induction m as [|m IHm]; cbn; [reflexivity|rewrite IHm; lra]).
      rewrite Z. lra.
    + intros j Hj. destruct (Nat.eqb_spec j n); [lia|reflexivity].
  - rewrite IH by lia. destruct (Nat.eqb_spec n i); [congruence|lra]. Qed.

Lemma rsum_plus n f g : rsum n (fun e => f e + g e) = rsum n f + rsum n g.
Proof. induction n as [|n IH]; cbn; [lra|]. rewrite IH. lra. Qed.

Section Realloc.
  Variable atol rtol : R.
  Variable nE : nat.
  Variable bes : list (nat * nat).

  (** what one singleton [(block, phase)] adds to the count of edge [e] *)
  Definition credit (mb : option nat * R) (e : nat) : R :=
    match fst mb with
    | None => 0
    | Some b =>
        match nth_error bes b with
        | None => 0
        | Some (i, j) => (if Nat.eqb e i then snd mb else 0) + (if Nat.eqb e j then 1 - snd mb else 0)
        end
    end.

  Lemma isnan_R (x : R) : isnan RNum x = false.
  Proof. unfold isnan. cbn [eqb RNum]. rewrite (proj2 (Reqb_true x x) eq_refl). reflexivity. Qed.

  Lemma step_spec c mb c' : realloc_step RNum nE bes (Some c) mb = Some c' ->
    forall e, c' e = c e + credit mb e.
  Proof. unfold realloc_step, credit. cbn [obind]. destruct mb as [[b|] p]; cbn [fst snd].
    2:{ intro H; inversion H; subst. intro e. lra. }
    destruct (nth_error bes b) as [[i j]|]; [|discriminate].
    destruct (negb (Nat.ltb i nE && Nat.ltb j nE)); [discriminate|].
    rewrite isnan_R. destruct (negb _); [discriminate|].
    intro H; inversion H; subst; clear H. intro e. unfold updf. cbn [add sub one RNum T].
    destruct (Nat.eqb_spec e j) as [Ej|Hj]; destruct (Nat.eqb_spec e i) as [Ei|Hi].
    - subst e. subst j. rewrite Nat.eqb_refl. lra.
    - subst e. destruct (Nat.eqb_spec j i); [congruence|]. lra.
    - subst e. lra.
    - lra.
  Qed.

  Lemma fold_none muts : fold_left (realloc_step RNum nE bes) muts None = None.
  Proof. induction muts as [|m r IH]; cbn [fold_left]; [reflexivity|exact IH]. Qed.

  Lemma fold_spec muts : forall c c', fold_left (realloc_step RNum nE bes) muts (Some c) = Some c' ->
    forall e, c' e = c e + lsum (map (fun mb => credit mb e) muts).
  Proof. induction muts as [|m r IH]; intros c c' H e; cbn [fold_left map lsum] in *.
    - inversion H; subst. lra.
    - destruct (realloc_step RNum nE bes (Some c) m) as [c1|] eqn:E1.
      + rewrite (IH c1 c' H e), (step_spec c m c1 E1 e). lra.
      + rewrite fold_none in H. discriminate.
  Qed.

  Theorem realloc_spec cnt muts c : reallocate RNum atol rtol nE bes cnt muts = Some c ->
    forall e, c e = (if edge_unphased bes e then 0 else cnt e) + lsum (map (fun mb => credit mb e) muts).
  Proof. unfold reallocate. destruct (fold_left _ muts _) as [c1|] eqn:E; cbn [obind]; [|discriminate].
    destruct (isclose _ _ _ _ _); [|discriminate]. intro H; inversion H; subst. intro e.
    rewrite (fold_spec muts _ _ E e). reflexivity. Qed.

  Lemma credit_outside mb e : edge_unphased bes e = false -> credit mb e = 0.
  Proof. intro H. unfold credit. destruct (fst mb) as [b|]; [|reflexivity].
    destruct (nth_error bes b) as [[i j]|] eqn:Eb; [|reflexivity].
    apply nth_error_In in Eb. unfold edge_unphased in H.
    assert (Q : (Nat.eqb i e || Nat.eqb j e) = false).
    { destruct (Nat.eqb i e || Nat.eqb j e) eqn:Q; [|reflexivity].
      assert (existsb (fun be : nat * nat => Nat.eqb (fst be) e || Nat.eqb (snd be) e) bes = true).
      { apply existsb_exists. exists (i, j). split; [exact Eb|exact Q]. } congruence. }
    apply orb_false_iff in Q. destruct Q as [Q1 Q2].
    rewrite Nat.eqb_sym in Q1. rewrite Nat.eqb_sym in Q2. rewrite Q1, Q2. lra. Qed.

  Theorem realloc_others cnt muts c : reallocate RNum atol rtol nE bes cnt muts = Some c ->
    forall e, edge_unphased bes e = false -> c e = cnt e.
  Proof. intros H e He. rewrite (realloc_spec cnt muts c H e), He.
    assert (Z : lsum (map (fun mb => credit mb e) muts) = 0).
    { induction muts as [|m r IH]; cbn [map lsum]; [reflexivity|]. rewrite credit_outside by exact He. 
      assert (lsum (map (fun mb => credit mb e) r) = 0).
      { clear IH H. induction r as [|m' r' IH']; cbn [map lsum]; [reflexivity|]. rewrite credit_outside by exact He. lra. }
      lra. }
    lra. Qed.

  (** each singleton with a block adds exactly one mutation in total, split p : 1 - p *)
  Theorem credit_total b p i j : nth_error bes b = Some (i, j) -> (i < nE)%nat -> (j < nE)%nat ->
    rsum nE (credit (Some b, p)) = 1 /\
    (i <> j -> credit (Some b, p) i = p /\ credit (Some b, p) j = 1 - p) /\
    (forall e, e <> i -> e <> j -> credit (Some b, p) e = 0).
  Proof. intros Eb Hi Hj. unfold credit. cbn [fst snd]. rewrite Eb. split; [|split].
    - rewrite rsum_plus, !rsum_indicator by assumption. lra.
    - intro Hne. rewrite !Nat.eqb_refl. destruct (Nat.eqb_spec i j); [congruence|]. destruct (Nat.eqb_spec j i); [congruence|]. lra.
    - intros e H1 H2. destruct (Nat.eqb_spec e i); [congruence|]. destruct (Nat.eqb_spec e j); [congruence|]. lra.
  Qed.

  Lemma credit_none p e : credit (None, p) e = 0.
  Proof. reflexivity. Qed.
End Realloc.

(** ** the flow of one singleton's phase through [infer] (switch) and [rescale] (orientation):
    the value handed to [reallocate_unphased] is again the probability of the FIRST edge, so the
    edge the mutation is placed on is credited its own (stored, >= 1/2) probability *)
Theorem flow_spec (first second : nat) (r : R) : first <> second -> 0 <= r <= 1 ->
  let '(placed, stored, q) := singleton_flow RNum (1 / 2) first second r in
  q = r /\ 1 / 2 <= stored <= 1 /\
  ((placed = first /\ stored = q) \/ (placed = second /\ stored = 1 - q)).
Proof. intros Hne Hr. unfold singleton_flow, switch_edge, switch_phase, orient_phase.
  cbn [ltb sub one RNum T]. destruct (Rltb r (1 / 2)) eqn:E.
  - apply Rltb_true in E. destruct (Nat.eqb_spec second first); [congruence|]. cbn [negb].
    split; [lra|]. split; [lra|]. right. split; [reflexivity|lra].
  - apply Rltb_false in E. rewrite Nat.eqb_refl. cbn [negb].
    split; [reflexivity|]. split; [lra|]. left. split; reflexivity.
Qed.

(** combined: the branch the singleton is placed on receives the stored phase (>= 1/2), the
    other branch the rest *)
Theorem placed_share (bes : list (nat * nat)) b (first second : nat) (r : R) :
  nth_error bes b = Some (first, second) -> first <> second -> 0 <= r <= 1 ->
  let '(placed, stored, q) := singleton_flow RNum (1 / 2) first second r in
  credit bes (Some b, q) placed = stored /\ 1 / 2 <= credit bes (Some b, q) placed /\
  credit bes (Some b, q) first + credit bes (Some b, q) second = 1.
Proof. intros Eb Hne Hr. pose proof (flow_spec first second r Hne Hr) as F.
  destruct (singleton_flow RNum (1 / 2) first second r) as [[placed stored] q].
  destruct F as (Hq & Hs & Hp). unfold credit. cbn [fst snd]. rewrite Eb.
  destruct Hp as [[-> E]|[-> E]].
  - rewrite !Nat.eqb_refl. destruct (Nat.eqb_spec first second); [congruence|]. destruct (Nat.eqb_spec second first); [congruence|].
    split; [lra|]. split; lra.
  - rewrite !Nat.eqb_refl. destruct (Nat.eqb_spec first second); [congruence|]. destruct (Nat.eqb_spec second first); [congruence|].
    split; [lra|]. split; lra.
Qed.

(** ** exact rational example *)
Definition exP : option (list Q) :=
  reallocate_list QNum (1 # 100000000) (1 # 100000) [(0, 1)]%nat [2; 0; 5]%Q
    [(Some 0%nat, 3 # 4); (Some 0%nat, 1 # 4); (None, 1)]%Q.
Lemma exP_ok : exP = Some [1; 1; 5]%Q.
Proof. vm_compute. reflexivity. Qed.
