(** * Proofs about the conditional coalescent prior model (property C14).

    Main results:
    - [marginalize_spec]: for ANY log domain over R that satisfies the four laws of
      exp/ln (and so both for the faithful log-space reading [RLogDom] and for the
      linear reading [LinDom RNum]), [_marginalize_over_ancestors] returns
      [out[k] = sum_{a=2}^{n-k+1} W n k a * val[a]] with the closed-form weight
      [W n k a = a(a-1) C(n-a-1, k-2) / (2 C(n, k+1))], and [out[n] = val[1]];
    - [ccv_at_closed_form]: the resulting closed form of
      [conditional_coalescent_variance(n)[k]];
    - [gamma_approx_moments], [lognorm_approx_moments]: exact moment matching;
    - [tau_expect_mrca], [tau_var_mrca_R]: the MRCA row. *)
From Coq Require Import List ZArith Bool Reals Rpower Lra Lia Arith Psatz.
From TsdateV Require Import lib.Num model.Prior.

Import ListNotations.

Fixpoint zbinom (n k : nat) : Z :=
  match k, n with
  | O, _ => 1
  | S k', O => 0
  | S k', S n' => zbinom n' k' + zbinom n' (S k')
  end%Z.

Lemma zbinom_0 n : zbinom n 0 = 1%Z.
Proof. destruct n; reflexivity. Qed.

Lemma zbinom_S n k : zbinom (S n) (S k) = (zbinom n k + zbinom n (S k))%Z.
Proof. reflexivity. Qed.

Lemma zbinom_gt n : forall k, (n < k)%nat -> zbinom n k = 0%Z.
Proof.
  induction n; intros k Hk.
  - destruct k; [lia|reflexivity].
  - destruct k; [lia|]. rewrite zbinom_S, !IHn by lia. reflexivity.
Qed.

Lemma zbinom_step n : forall k,
  (Z.of_nat (S k) * zbinom n (S k) = (Z.of_nat n - Z.of_nat k) * zbinom n k)%Z.
Proof.
  induction n; intros k.
  - simpl zbinom. destruct k; simpl; lia.
  - destruct k.
    + rewrite zbinom_S, !zbinom_0. specialize (IHn 0%nat). rewrite zbinom_0 in IHn. lia.
    + rewrite (zbinom_S n (S k)), (zbinom_S n k).
      pose proof (IHn (S k)) as H1. pose proof (IHn k) as H2. nia.
Qed.

Lemma zbinom_pos n : forall k, (k <= n)%nat -> (0 < zbinom n k)%Z.
Proof.
  induction n; intros k Hk.
  - assert (k = 0)%nat by lia. subst. simpl. lia.
  - destruct k; [rewrite zbinom_0; lia|].
    rewrite zbinom_S. assert (0 < zbinom n k)%Z by (apply IHn; lia).
    destruct (Nat.eq_dec (S k) (S n)) as [E|E].
    + rewrite (zbinom_gt n (S k)) by lia. lia.
    + assert (0 < zbinom n (S k))%Z by (apply IHn; lia). lia.
Qed.

Lemma zbinom_nn n : zbinom n n = 1%Z.
Proof. induction n; [reflexivity|]. rewrite zbinom_S, IHn, zbinom_gt by lia. lia. Qed.

Lemma zbinom_Sn_n n : zbinom (S n) n = Z.of_nat (S n).
Proof.
  induction n; [reflexivity|]. rewrite zbinom_S, IHn, zbinom_nn. lia.
Qed.
Notation Zn := Z.of_nat.
Open Scope R_scope.

Definition Wnum (n k a : nat) : Z := (Zn a * (Zn a - 1) * zbinom (n - a - 1) (k - 2))%Z.
Definition Wden (n k : nat) : Z := (2 * zbinom n (k + 1))%Z.
Definition W (n k a : nat) : R := IZR (Wnum n k a) / IZR (Wden n k).

Lemma Rdiv_cross x y x' y' : y <> 0 -> y' <> 0 -> x * y' = x' * y -> x / y = x' / y'.
Proof.
  intros Hy Hy' E. apply (Rmult_eq_reg_r (y * y')).
  - transitivity (x * y'); [field; auto|]. rewrite E. field; auto.
  - apply Rmult_integral_contrapositive; auto.
Qed.

Lemma IZR_neq0 z : (z <> 0)%Z -> IZR z <> 0.
Proof. intros H E. apply H. apply eq_IZR. exact E. Qed.

Lemma Wden_pos n k : (k + 1 <= n)%nat -> (0 < Wden n k)%Z.
Proof. intros. unfold Wden. pose proof (zbinom_pos n (k+1) H). lia. Qed.

Lemma W_down n k1 a : (2 <= k1)%nat -> (S k1 + 1 <= n)%nat -> (2 <= a)%nat -> (a + S k1 <= n + 1)%nat ->
  W n k1 a = W n (S k1) a * (IZR (Zn n - Zn (S k1)) * IZR (Zn (S k1) - 2) / IZR (Zn (S k1) + 1))
             / IZR (Zn n - Zn a - Zn (S k1) + 2).
Proof.
  intros Hk Hn Ha Hak.
  set (m := (n - a - 1)%nat).
  pose proof (zbinom_step m (k1 - 2)) as E1.
  pose proof (zbinom_step n k1) as E2.
  replace (S (k1 - 2)) with (S k1 - 2)%nat in E1 by lia.
  replace (S k1) with (k1 + 1)%nat in E2 at 2 by lia.
  pose proof (Wden_pos n k1 ltac:(lia)) as P1.
  pose proof (Wden_pos n (S k1) ltac:(lia)) as P2.
  transitivity (IZR (Wnum n (S k1) a * (Zn n - Zn (S k1)) * (Zn (S k1) - 2))
                / IZR (Wden n (S k1) * (Zn (S k1) + 1) * (Zn n - Zn a - Zn (S k1) + 2))).
  - unfold W. apply Rdiv_cross.
    + apply IZR_neq0. lia.
    + apply IZR_neq0. nia.
    + rewrite <- !mult_IZR. f_equal. unfold Wnum, Wden. fold m.
      replace (S k1 + 1)%nat with (S (k1+1)) by lia.
      set (x := zbinom m (k1 - 2)) in *. set (y := zbinom m (S k1 - 2)) in *.
      set (u := zbinom n (k1 + 1)) in *. set (v := zbinom n (S (k1+1))) in *.
      replace (S (k1 + 1)) with (S k1 + 1)%nat in * by lia. 
      assert (E1' : (Zn (S k1 - 2) * y = (Zn n - Zn a - Zn (S k1) + 2) * x)%Z).
      { rewrite E1. f_equal. unfold m. lia. }
      assert (E2' : ((Zn (S k1) + 1) * v = (Zn n - Zn (S k1)) * u)%Z).
      { replace (Zn (S k1) + 1)%Z with (Zn (S (k1+1))) by lia.
        subst v u. rewrite (zbinom_step n (k1+1)). f_equal. lia. }
      replace (Zn (S k1) - 2)%Z with (Zn (S k1 - 2)) by lia.
      transitivity (2 * Zn a * (Zn a - 1) * ((Zn n - Zn a - Zn (S k1) + 2) * x) * ((Zn (S k1) + 1) * v))%Z; [ring|].
      rewrite <- E1', E2'. ring.
  - unfold W. rewrite !mult_IZR. field.
    repeat split; apply IZR_neq0; lia.
Qed.

Lemma W_new n k1 : (2 <= k1)%nat -> (S k1 + 1 <= n)%nat ->
  W n k1 (n - S k1 + 2) =
  W n k1 (n - S k1 + 1) * IZR (Zn n - Zn (S k1) + 2) / IZR (Zn (S k1) + 1)
  / (IZR (Zn n - Zn (S k1)) * IZR (Zn (S k1) - 2) / IZR (Zn (S k1) + 1)).
Proof.
  intros Hk Hn.
  pose proof (Wden_pos n k1 ltac:(lia)) as P1.
  unfold W, Wnum.
  replace (n - (n - S k1 + 2) - 1)%nat with (k1 - 2)%nat by lia.
  replace (n - (n - S k1 + 1) - 1)%nat with (S (k1 - 2))%nat by lia.
  rewrite zbinom_nn, zbinom_Sn_n.
  replace (Zn (n - S k1 + 2)) with (Zn n - Zn (S k1) + 2)%Z by lia.
  replace (Zn (n - S k1 + 1)) with (Zn n - Zn (S k1) + 1)%Z by lia.
  replace (Zn (S (k1 - 2))) with (Zn (S k1) - 2)%Z by lia.
  rewrite !mult_IZR, !minus_IZR, !plus_IZR, !minus_IZR. 
  assert (IZR (Wden n k1) <> 0) by (apply IZR_neq0; lia).
  assert (IZR (Zn (S k1)) + 1 <> 0). { rewrite <- plus_IZR. apply IZR_neq0. lia. }
  assert (IZR (Zn n) - IZR (Zn (S k1)) <> 0). { rewrite <- minus_IZR. apply IZR_neq0. lia. }
  assert (IZR (Zn (S k1)) - 2 <> 0). { rewrite <- minus_IZR. apply IZR_neq0. lia. }
  field. repeat split; assumption.
Qed.

Lemma W_init n : (3 <= n)%nat -> W n (n - 1) 2 = 1.
Proof.
  intros Hn. unfold W, Wnum, Wden.
  replace (n - 2 - 1)%nat with (n - 1 - 2)%nat by lia.
  replace (n - 1 + 1)%nat with n by lia.
  rewrite !zbinom_nn. simpl. field.
Qed.

(** sum_{i = a}^{a + cnt - 1} f i *)
Fixpoint rsum (f : nat -> R) (a cnt : nat) : R :=
  match cnt with O => 0 | S c => f a + rsum f (S a) c end.

Section MargProof.
  Variable D : LogDom RNum.
  Hypothesis lex_zero : lex D (lzero D) = 1.
  Hypothesis lex_ln : forall z, (0 < z)%Z -> lex D (lnZ D z) = IZR z.
  Hypothesis lex_add : forall x y, lex D (ladd D x y) = lex D x * lex D y.
  Hypothesis lex_sub : forall x y, lex D (lsub D x y) = lex D x / lex D y.

  Variable n : nat.
  Variable val : list R.       (* the whole column *)

  Definition constR (k : nat) : R := IZR (Zn n - Zn k) * IZR (Zn k - 2) / IZR (Zn k + 1).

  Lemma skipn_cons_nth {A} (l : list A) : forall a x r d, skipn a l = x :: r -> nth a l d = x /\ skipn (S a) l = r.
  Proof.
    induction l; intros a0 x r d H.
    - destruct a0; discriminate.
    - destruct a0; simpl in *.
      + inversion H; auto.
      + apply IHl; auto.
  Qed.

  (** the inner loop *)
  Lemma marg_inner_spec k const : (2 <= k)%nat -> (k + 1 <= n)%nat ->
    ((2 < k)%nat -> lex D const = constR k) ->
    forall cnt a pr acc,
      (2 <= a)%nat -> (a + cnt = n - k + 2)%nat -> (n <= length val)%nat ->
      Forall2 (fun a' p => lex D p = W n k a') (seq a cnt) pr ->
      exists pr',
        marg_inner RNum D n k const cnt a pr (skipn a val) acc
          = Some (acc + rsum (fun a' => W n k a' * nth a' val 0) a cnt, pr') /\
        ((2 < k)%nat -> Forall2 (fun a' p => lex D p = W n (k - 1) a') (seq a cnt) pr') /\
        (k = 2%nat -> pr' = pr).
  Proof.
    intros Hk Hkn Hconst. induction cnt; intros a pr acc Ha Hcnt Hlen HF.
    - inversion HF; subst. exists []. simpl. split; [f_equal; f_equal; lra|]. split; auto. 
    - simpl seq in HF. inversion HF as [|a0 p sq pr0 Hp HF']; subst.
      destruct (skipn a val) as [|v vr] eqn:Esk.
      { exfalso. assert (length (skipn a val) = 0%nat) by (rewrite Esk; reflexivity).
        rewrite skipn_length in H. lia. }
      destruct (skipn_cons_nth val a v vr 0 Esk) as [Hv Hvr].
      destruct (IHcnt (S a) pr0 (acc + lex D p * v) ltac:(lia) ltac:(lia) Hlen HF') as [pr' [E [I1 I2]]].
      simpl marg_inner. rewrite <- Hvr in *. 
      change (add RNum acc (mul RNum (lex D p) v)) with (acc + lex D p * v).
      rewrite E.
      eexists. split; [|split].
      + f_equal. f_equal. simpl rsum. rewrite Hp, Hv. ring.
      + intros H2. assert (Hb : (2 <? k)%nat = true) by (apply Nat.ltb_lt; lia). rewrite Hb.
        simpl seq. constructor; [|apply I1; assumption].
        rewrite lex_add, lex_sub, Hconst, lex_ln, Hp by lia.
        destruct k as [|k1]; [lia|]. replace (S k1 - 1)%nat with k1 by lia.
        rewrite (W_down n k1 a) by lia. unfold constR. 
        assert (IZR (Zn n - Zn a - Zn (S k1) + 2) <> 0) by (apply IZR_neq0; lia).
        assert (IZR (Zn (S k1) + 1) <> 0) by (apply IZR_neq0; lia).
        change (T RNum) with R. field. split; assumption.
      + intros H2. subst k. simpl. f_equal. apply I2. reflexivity.
  Qed.

  Definition outk (k : nat) : R := rsum (fun a' => W n k a' * nth a' val 0) 2 (n - k).

  Lemma Forall2_seq_last {B} (P : nat -> B -> Prop) : forall c a l,
    Forall2 P (seq a (S c)) l ->
    exists l0 x, l = l0 ++ [x] /\ Forall2 P (seq a c) l0 /\ P (a + c)%nat x.
  Proof.
    induction c; intros a l H.
    - simpl in H. inversion H as [|? x ? l' Hx Hl]; subst. inversion Hl; subst.
      exists [], x. rewrite Nat.add_0_r. repeat split; auto.
    - change (seq a (S (S c))) with (a :: seq (S a) (S c)) in H.
      inversion H as [|? x ? l' Hx Hl]; subst.
      destruct (IHc (S a) l' Hl) as [l0 [y [E [F Py]]]]. subst l'.
      exists (x :: l0), y. repeat split.
      + simpl. constructor; auto.
      + replace (a + S c)%nat with (S a + c)%nat by lia. exact Py.
  Qed.

  Lemma last_opt_app {A} (l : list A) x : last_opt (l ++ [x]) = Some x.
  Proof. unfold last_opt. rewrite rev_app_distr. reflexivity. Qed.

  Lemma marg_outer_cons val2 k ks pr outs :
    marg_outer RNum D n val2 (k :: ks) pr outs =
    match marg_inner RNum D n k (lsub D (ladd D (lnZ D (Zn n - Zn k)) (lnZ D (Zn k - 2))) (lnZ D (Zn k + 1)))
            (n - k) 2 pr val2 (zero RNum) with
    | None => None
    | Some (r, pr') =>
        if (2 <? k)%nat then
          match last_opt pr' with
          | None => None
          | Some pl =>
              marg_outer RNum D n val2 ks
                (pr' ++ [lsub D (lsub D (ladd D pl (lnZ D (Zn n - Zn k + 2))) (lnZ D (Zn k + 1)))
                          (lsub D (ladd D (lnZ D (Zn n - Zn k)) (lnZ D (Zn k - 2))) (lnZ D (Zn k + 1)))])
                (r :: outs)
          end
        else marg_outer RNum D n val2 ks pr' (r :: outs)
    end.
  Proof. reflexivity. Qed.

  Lemma marg_outer_spec : forall j pr outs,
    (j + 2 <= n)%nat -> (n <= length val)%nat ->
    ((1 <= j)%nat -> Forall2 (fun a' p => lex D p = W n (j + 1) a') (seq 2 (n - (j + 1))) pr) ->
    marg_outer RNum D n (skipn 2 val) (rev (seq 2 j)) pr outs = Some (map outk (seq 2 j) ++ outs).
  Proof.
    induction j; intros pr outs Hj Hlen Inv.
    - reflexivity.
    - rewrite seq_S, rev_app_distr.
      change (rev [(2 + j)%nat] ++ rev (seq 2 j)) with ((2 + j)%nat :: rev (seq 2 j)).
      set (k := (2 + j)%nat).
      rewrite marg_outer_cons.
      set (const := lsub D (ladd D (lnZ D (Zn n - Zn k)) (lnZ D (Zn k - 2))) (lnZ D (Zn k + 1))).
      assert (Hconst : (2 < k)%nat -> lex D const = constR k).
      { intros. unfold const, constR. rewrite lex_sub, lex_add, !lex_ln by lia. reflexivity. }
      destruct (marg_inner_spec k const ltac:(lia) ltac:(lia) Hconst (n - k) 2 pr (zero RNum)
                  ltac:(lia) ltac:(lia) Hlen) as [pr' [E [I1 I2]]].
      { replace (S j + 1)%nat with k in Inv by lia. apply Inv. lia. }
      rewrite E.
      assert (Er : zero RNum + rsum (fun a' : nat => W n k a' * nth a' val 0) 2 (n - k) = outk k).
      { unfold outk. change (zero RNum) with 0. ring. }
      rewrite Er.
      destruct (Nat.ltb_spec 2 k) as [H2|H2].
      + specialize (I1 H2).
        replace (n - k)%nat with (S (n - k - 1)) in I1 by lia.
        destruct (Forall2_seq_last _ _ _ _ I1) as [l0 [pl [Epr [F0 Ppl]]]].
        rewrite Epr, last_opt_app.
        rewrite IHj.
        * rewrite map_app. simpl map. rewrite <- app_assoc. reflexivity.
        * lia.
        * exact Hlen.
        * intros _. replace (j + 1)%nat with (k - 1)%nat by lia.
          replace (n - (k - 1))%nat with (S (n - k))%nat by lia.
          rewrite seq_S. apply Forall2_app.
          { rewrite <- Epr. replace (n - k)%nat with (S (n - k - 1)) by lia. exact I1. }
          constructor; [|constructor].
          rewrite !lex_sub, lex_add, !lex_ln, Hconst by lia.
          replace (2 + (n - k - 1))%nat with (n - k + 1)%nat in Ppl by lia.
          rewrite Ppl. unfold constR.
          subst k. change (2 + j)%nat with (S (S j)) in *.
          replace (S (S j) - 1)%nat with (S j) by lia.
          replace (2 + (n - S (S j)))%nat with (n - S (S j) + 2)%nat by lia.
          rewrite (W_new n (S j)) by lia. reflexivity.
      + assert (j = 0)%nat by lia. subst j. simpl. reflexivity.
  Qed.

  Lemma marginalize_spec : (2 <= n)%nat -> length val = n ->
    marginalize RNum D val = Some (0 :: 0 :: map outk (seq 2 (n - 2)) ++ [nth 1 val 0]).
  Proof.
    intros Hn Hlen.
    assert (Ev : exists v0 v1 val2, val = v0 :: v1 :: val2).
    { destruct val as [|v0 [|v1 val2]]; simpl in Hlen; try lia. eauto. }
    destruct Ev as [v0 [v1 [val2 Ev]]].
    assert (Es : val2 = skipn 2 val) by (rewrite Ev; reflexivity).
    assert (E1 : nth 1 val 0 = v1) by (rewrite Ev; reflexivity).
    unfold marginalize. change (T RNum) with R. rewrite Hlen.
    transitivity (match marg_outer RNum D n val2 (rev (seq 2 (n - 2))) [lzero D] [] with
                  | Some outs => Some (zero RNum :: zero RNum :: outs ++ [v1])
                  | None => None end).
    { rewrite Ev. reflexivity. }
    rewrite Es, marg_outer_spec.
    - rewrite app_nil_r, E1. reflexivity.
    - lia.
    - lia.
    - intros H1. replace (n - (n - 2 + 1))%nat with 1%nat by lia. simpl seq.
      constructor; [|constructor]. replace (n - 2 + 1)%nat with (n - 1)%nat by lia.
      rewrite W_init by lia. exact lex_zero.
  Qed.
End MargProof.

(** the two instances satisfy the laws *)
Lemma RLog_zero : lex RLogDom (lzero RLogDom) = 1.
Proof. simpl. apply exp_0. Qed.
Lemma RLog_ln z : (0 < z)%Z -> lex RLogDom (lnZ RLogDom z) = IZR z.
Proof. intros. simpl. apply exp_ln. apply IZR_lt. assumption. Qed.
Lemma RLog_add x y : lex RLogDom (ladd RLogDom x y) = lex RLogDom x * lex RLogDom y.
Proof. simpl. apply exp_plus. Qed.
Lemma RLog_sub x y : lex RLogDom (lsub RLogDom x y) = lex RLogDom x / lex RLogDom y.
Proof. simpl. unfold Rminus, Rdiv. rewrite exp_plus, exp_Ropp. reflexivity. Qed.

Lemma marginalize_log_closed_form (val : list R) : (2 <= length val)%nat ->
  marginalize RNum RLogDom val
  = Some (0 :: 0 :: map (outk (length val) val) (seq 2 (length val - 2)) ++ [nth 1 val 0]).
Proof.
  intros. apply marginalize_spec; auto using RLog_zero, RLog_ln, RLog_add, RLog_sub.
Qed.

Lemma marginalize_lin_closed_form (val : list R) : (2 <= length val)%nat ->
  marginalize RNum (LinDom RNum) val
  = Some (0 :: 0 :: map (outk (length val) val) (seq 2 (length val - 2)) ++ [nth 1 val 0]).
Proof.
  intros. apply marginalize_spec; auto.
Qed.

(** ** [conditional_coalescent_variance] over R *)
Lemma suffix_sums_length (l : list R) : length (suffix_sums RNum l) = length l.
Proof.
  induction l; simpl; auto. destruct (suffix_sums RNum l) eqn:E; simpl in *; lia.
Qed.
Lemma keep_head_suffix_length (l : list R) : length (keep_head_suffix RNum l) = length l.
Proof. destruct l; simpl; auto. rewrite suffix_sums_length. reflexivity. Qed.
Lemma hypo_mean_length n : length (hypo_mean RNum n) = n.
Proof. unfold hypo_mean, coal_rates. rewrite keep_head_suffix_length, map_length, seq_length. reflexivity. Qed.
Lemma hypo_var_length n : length (hypo_var RNum n) = n.
Proof. unfold hypo_var, coal_rates. rewrite keep_head_suffix_length, !map_length, seq_length. reflexivity. Qed.
Lemma map2_length {A B C} (f : A -> B -> C) : forall l1 l2, length l1 = length l2 -> length (map2 f l1 l2) = length l1.
Proof. induction l1; destruct l2; simpl; intros; try lia. f_equal. apply IHl1. lia. Qed.
Lemma hypo_m2_length n : length (hypo_m2 RNum n) = n.
Proof. unfold hypo_m2. rewrite map2_length; rewrite hypo_var_length; auto. rewrite hypo_mean_length; auto. Qed.

Lemma map2_map_map {A B C E} (f : B -> C -> E) (g : A -> B) (h : A -> C) : forall l,
  map2 f (map g l) (map h l) = map (fun x => f (g x) (h x)) l.
Proof. induction l; simpl; auto. f_equal; auto. Qed.
Lemma map2_app {A B C} (f : A -> B -> C) : forall l1 l2 r1 r2, length l1 = length l2 ->
  map2 f (l1 ++ r1) (l2 ++ r2) = map2 f l1 l2 ++ map2 f r1 r2.
Proof. induction l1; destruct l2; simpl; intros; try lia; auto. f_equal. apply IHl1. lia. Qed.

(** E[f(age level)] under the closed-form level weights *)
Definition Wsum (n k : nat) (val : list R) : R := outk n val k.

Lemma ccv_closed_form (D : LogDom RNum) :
  lex D (lzero D) = 1 -> (forall z, (0 < z)%Z -> lex D (lnZ D z) = IZR z) ->
  (forall x y, lex D (ladd D x y) = lex D x * lex D y) ->
  (forall x y, lex D (lsub D x y) = lex D x / lex D y) ->
  forall n, (2 <= n)%nat ->
  ccv RNum D n = Some (0 :: 0 ::
     map (fun k => Wsum n k (hypo_m2 RNum n) - Wsum n k (hypo_mean RNum n) * Wsum n k (hypo_mean RNum n))
         (seq 2 (n - 2))
     ++ [nth 1 (hypo_m2 RNum n) 0 - nth 1 (hypo_mean RNum n) 0 * nth 1 (hypo_mean RNum n) 0]).
Proof.
  intros H0 H1 H2 H3 n Hn. unfold ccv.
  rewrite (marginalize_spec D H0 H1 H2 H3 n (hypo_mean RNum n) Hn (hypo_mean_length n)).
  rewrite (marginalize_spec D H0 H1 H2 H3 n (hypo_m2 RNum n) Hn (hypo_m2_length n)).
  f_equal. cbn [map2]. change (sub RNum 0 (mul RNum 0 0)) with (0 - 0 * 0).
  replace (0 - 0 * 0) with 0 by ring. f_equal. f_equal.
  rewrite map2_app by (rewrite !map_length; reflexivity).
  rewrite map2_map_map. reflexivity.
Qed.

Lemma rsum_ext f g : forall cnt a, (forall i, (a <= i < a + cnt)%nat -> f i = g i) -> rsum f a cnt = rsum g a cnt.
Proof.
  induction cnt; intros a H; simpl; auto. rewrite H by lia. f_equal. apply IHcnt. intros; apply H; lia.
Qed.
Lemma rsum_shift f c : forall cnt a, rsum (fun j => f (c + j)%nat) a cnt = rsum f (c + a) cnt.
Proof.
  induction cnt; intros a; simpl; auto. f_equal. rewrite IHcnt. f_equal. lia.
Qed.

Lemma suffix_sums_cons (x : R) r :
  suffix_sums RNum (x :: r) = (x + nth 0 (suffix_sums RNum r) 0) :: suffix_sums RNum r.
Proof.
  simpl. destruct (suffix_sums RNum r) eqn:E; simpl.
  - f_equal. ring.
  - reflexivity.
Qed.

Lemma suffix_sums_nth (l : list R) : forall i, (i < length l)%nat ->
  nth i (suffix_sums RNum l) 0 = rsum (fun j => nth j l 0) i (length l - i).
Proof.
  induction l as [|x r IH]; intros i Hi; [simpl in Hi; lia|].
  rewrite suffix_sums_cons. destruct i.
  - simpl length. replace (S (length r) - 0)%nat with (S (length r)) by lia.
    cbn [nth rsum]. f_equal.
    destruct r as [|y r'].
    + reflexivity.
    + rewrite IH by (simpl; lia). rewrite Nat.sub_0_r.
      rewrite <- (rsum_shift (fun j => nth j (x :: y :: r') 0) 1). apply rsum_ext. intros; reflexivity.
  - cbn [nth]. simpl in Hi. rewrite IH by lia. simpl length.
    replace (S (length r) - S i)%nat with (length r - i)%nat by lia.
    rewrite <- (rsum_shift (fun j => nth j (x :: r) 0) 1). apply rsum_ext. intros; reflexivity.
Qed.

(** hypoexponential mean / variance of the time from n lineages down to a lineages *)
Definition Hmean (n a : nat) : R := rsum (fun i => coal_rate RNum i) (S a) (n - a).
Definition Hvar (n a : nat) : R := rsum (fun i => coal_rate RNum i * coal_rate RNum i) (S a) (n - a).

Lemma nth_map_seq {A} (g : nat -> A) d : forall cnt a i, (i < cnt)%nat -> nth i (map g (seq a cnt)) d = g (a + i)%nat.
Proof.
  induction cnt; intros a i Hi; [lia|]. destruct i; simpl.
  - f_equal. lia.
  - rewrite IHcnt by lia. f_equal. lia.
Qed.

Lemma keep_head_suffix_nth (f : nat -> R) n a : (1 <= a < n)%nat ->
  nth a (keep_head_suffix RNum (map f (seq 1 n))) 0 = rsum f (S a) (n - a).
Proof.
  intros Ha. destruct n; [lia|]. cbn [seq map keep_head_suffix].
  destruct a; [lia|]. cbn [nth].
  rewrite suffix_sums_nth by (rewrite map_length, seq_length; lia).
  rewrite map_length, seq_length. replace (S n - S a)%nat with (n - a)%nat by lia.
  change (S (S a)) with (2 + a)%nat. rewrite <- (rsum_shift f 2). apply rsum_ext. intros i Hi.
  rewrite nth_map_seq by lia. reflexivity.
Qed.

Lemma hypo_mean_nth n a : (1 <= a < n)%nat -> nth a (hypo_mean RNum n) 0 = Hmean n a.
Proof. intros. unfold hypo_mean, coal_rates, Hmean. apply keep_head_suffix_nth; auto. Qed.

Lemma hypo_var_nth n a : (1 <= a < n)%nat -> nth a (hypo_var RNum n) 0 = Hvar n a.
Proof.
  intros. unfold hypo_var, coal_rates, Hvar. rewrite map_map.
  apply (keep_head_suffix_nth (fun i => coal_rate RNum i * coal_rate RNum i)); auto.
Qed.

Lemma map2_nth {A B C} (f : A -> B -> C) da db dc : forall l1 l2 i, (i < length l1)%nat -> (i < length l2)%nat ->
  nth i (map2 f l1 l2) dc = f (nth i l1 da) (nth i l2 db).
Proof.
  induction l1; destruct l2; simpl; intros i H1 H2; try lia.
  destruct i; auto. apply IHl1; lia.
Qed.

Lemma hypo_m2_nth n a : (1 <= a < n)%nat ->
  nth a (hypo_m2 RNum n) 0 = Hvar n a + Hmean n a * Hmean n a.
Proof.
  intros. unfold hypo_m2.
  rewrite (map2_nth _ 0 0 0) by (rewrite ?hypo_var_length, ?hypo_mean_length; lia).
  rewrite hypo_var_nth, hypo_mean_nth by lia. reflexivity.
Qed.

(** the final closed form of the model's variance *)
Definition EW (n k : nat) (f : nat -> R) : R := rsum (fun a => W n k a * f a) 2 (n - k).

Lemma Wsum_EW n k (val : list R) (f : nat -> R) : (2 <= k)%nat -> (k < n)%nat ->
  (forall a, (1 <= a < n)%nat -> nth a val 0 = f a) -> Wsum n k val = EW n k f.
Proof.
  intros Hk Hkn H. unfold Wsum, outk, EW. apply rsum_ext. intros i Hi. rewrite H by lia. reflexivity.
Qed.

Lemma ccv_at_closed_form (D : LogDom RNum) :
  lex D (lzero D) = 1 -> (forall z, (0 < z)%Z -> lex D (lnZ D z) = IZR z) ->
  (forall x y, lex D (ladd D x y) = lex D x * lex D y) ->
  (forall x y, lex D (lsub D x y) = lex D x / lex D y) ->
  forall n k, (2 <= k <= n)%nat ->
  ccv_at RNum D n k = Some (
    if Nat.eqb k n then Hvar n 1
    else EW n k (fun a => Hvar n a + Hmean n a * Hmean n a) - EW n k (Hmean n) * EW n k (Hmean n)).
Proof.
  intros H0 H1 H2 H3 n k Hk. unfold ccv_at. rewrite (ccv_closed_form D H0 H1 H2 H3) by lia.
  destruct k as [|[|k]]; try lia. cbn [nth_error].
  destruct (Nat.eqb_spec (S (S k)) n) as [E|E].
  - rewrite nth_error_app2 by (rewrite map_length, seq_length; lia).
    rewrite map_length, seq_length. replace (k - (n - 2))%nat with 0%nat by lia. cbn [nth_error].
    f_equal. rewrite hypo_m2_nth, hypo_mean_nth by lia. ring.
  - rewrite nth_error_app1 by (rewrite map_length, seq_length; lia).
    rewrite (nth_error_nth' _ 0) by (rewrite map_length, seq_length; lia).
    f_equal. rewrite nth_map_seq by lia. replace (2 + k)%nat with (S (S k)) by lia.
    rewrite (Wsum_EW n (S (S k)) (hypo_m2 RNum n) (fun a => Hvar n a + Hmean n a * Hmean n a)) by (try lia; apply hypo_m2_nth).
    rewrite (Wsum_EW n (S (S k)) (hypo_mean RNum n) (Hmean n)) by (try lia; apply hypo_mean_nth).
    reflexivity.
Qed.

(** ** moment-matched transforms *)
Lemma gamma_approx_moments (mean var : R) : 0 < mean -> 0 < var ->
  let '(alpha, beta) := gamma_approx RNum mean var in
  0 < alpha /\ 0 < beta /\ alpha / beta = mean /\ alpha / (beta * beta) = var.
Proof.
  intros Hm Hv. unfold gamma_approx. cbn [div mul RNum]. change (T RNum) with R in *.
  assert (mean <> 0) by lra. assert (var <> 0) by lra.
  repeat split.
  - apply Rdiv_lt_0_compat; [nra|lra].
  - apply Rdiv_lt_0_compat; lra.
  - field; auto.
  - field; auto.
Qed.

Lemma lognorm_approx_moments (mean var : R) : 0 < mean -> 0 <= var ->
  let '(alpha, beta) := lognorm_approx RNum ln mean var in
  0 <= beta /\ exp (alpha + beta / 2) = mean /\
  (exp beta - 1) * exp (2 * alpha + beta) = var.
Proof.
  intros Hm Hv. unfold lognorm_approx. cbn [div mul add sub one ofZ RNum]. change (T RNum) with R in *.
  set (b := ln (var / (mean * mean) + 1)).
  assert (Hq : 0 <= var / (mean * mean)).
  { apply Rmult_le_pos; [lra|]. apply Rlt_le, Rinv_0_lt_compat. nra. }
  assert (Eb : exp b = var / (mean * mean) + 1) by (unfold b; apply exp_ln; lra).
  repeat split.
  - unfold b. rewrite <- ln_1. destruct (Req_dec (var / (mean * mean)) 0) as [E|E].
    + rewrite E, Rplus_0_l. lra.
    + apply Rlt_le, ln_increasing; lra.
  - replace (ln mean - 1 / 2 * b + b / 2) with (ln mean) by field. apply exp_ln; lra.
  - replace (2 * (ln mean - 1 / 2 * b) + b) with (ln mean + ln mean) by field.
    rewrite exp_plus, exp_ln, Eb by lra. field. lra.
Qed.

(** ** the MRCA row: [tau_expect(n, n)] and [tau_var_mrca(n)] are the hypoexponential
    mean and variance of the full height *)
Lemma rsum_snoc f : forall cnt a, rsum f a (S cnt) = rsum f a cnt + f (a + cnt)%nat.
Proof.
  induction cnt; intros a.
  - simpl. rewrite Nat.add_0_r. ring.
  - change (rsum f a (S (S cnt))) with (f a + rsum f (S a) (S cnt)).
    rewrite IHcnt. simpl rsum. replace (S a + cnt)%nat with (a + S cnt)%nat by lia. ring.
Qed.

Lemma coal_rate_R i : (2 <= i)%nat -> coal_rate RNum i = 2 / (INR i * (INR i - 1)).
Proof.
  intros Hi. unfold coal_rate. assert (E : (1 <? i)%nat = true) by (apply Nat.ltb_lt; lia).
  rewrite E. cbn [div ofZ RNum]. rewrite mult_IZR, minus_IZR, <- INR_IZR_INZ. reflexivity.
Qed.

Lemma tau_expect_mrca n : (2 <= n)%nat -> tau_expect RNum n n = Hmean n 1.
Proof.
  intros Hn. unfold tau_expect. rewrite Nat.eqb_refl. cbn [mul sub div one ofZ RNum]. change (T RNum) with R in *.
  rewrite <- INR_IZR_INZ. unfold Hmean.
  induction n as [|n IH]; [lia|].
  destruct (Nat.eq_dec n 1) as [E|E].
  - subst n. simpl rsum. rewrite coal_rate_R by lia. simpl INR. field.
  - replace (S n - 1)%nat with (S (n - 1)) by lia. rewrite rsum_snoc.
    rewrite <- IH by lia. replace (2 + (n - 1))%nat with (S n) by lia.
    rewrite coal_rate_R by lia. rewrite S_INR.
    assert (INR n <> 0) by (apply not_0_INR; lia).
    assert (INR n + 1 <> 0). { rewrite <- S_INR. apply not_0_INR. lia. }
    field. split; auto. replace (INR n + 1 - 1) with (INR n) by ring. auto.
Qed.

Lemma fold_left_rsum (g : nat -> R) : forall cnt a s,
  fold_left (fun s v => s + g v) (seq a cnt) s = s + rsum g a cnt.
Proof.
  induction cnt; intros a s; simpl.
  - ring.
  - rewrite IHcnt. ring.
Qed.

Lemma rsum_scal c f : forall cnt a, c * rsum f a cnt = rsum (fun i => c * f i) a cnt.
Proof. induction cnt; intros a; simpl; [ring|]. rewrite <- IHcnt. ring. Qed.

Lemma rsum_nonneg f : forall cnt a, (forall i, 0 <= f i) -> 0 <= rsum f a cnt.
Proof. induction cnt; intros a H; simpl; [lra|]. specialize (IHcnt (S a) H). specialize (H a). lra. Qed.

Lemma tau_var_mrca_R n : (2 <= n)%nat -> tau_var_mrca RNum n = Hvar n 1.
Proof.
  intros Hn. unfold tau_var_mrca, Hvar.
  cbn [add div one zero mul ofZ RNum]. change (T RNum) with R in *.
  rewrite (fold_left_rsum (fun v => 1 / IZR (Zn v * Zn v * ((Zn v - 1) * (Zn v - 1))))).
  rewrite Rplus_0_l, rsum_scal.
  assert (Eq : rsum (fun i => 4 * (1 / IZR (Zn i * Zn i * ((Zn i - 1) * (Zn i - 1))))) 2 (n - 1)
             = rsum (fun i => coal_rate RNum i * coal_rate RNum i) 2 (n - 1)).
  { apply rsum_ext. intros i Hi. rewrite coal_rate_R by lia.
    rewrite !mult_IZR, !minus_IZR, <- INR_IZR_INZ.
    assert (INR i <> 0) by (apply not_0_INR; lia).
    assert (INR i - 1 <> 0). { replace 1 with (INR 1) by reflexivity. rewrite <- minus_INR by lia. apply not_0_INR; lia. }
    field. split; auto. }
  rewrite Eq. unfold absT. cbn [ltb neg zero RNum].
  destruct (Rltb (rsum (fun i => coal_rate RNum i * coal_rate RNum i) 2 (n - 1)) 0) eqn:E; auto.
  apply Rltb_true in E.
  pose proof (rsum_nonneg (fun i => coal_rate RNum i * coal_rate RNum i) (n - 1) 2) as P.
  assert (0 <= rsum (fun i => coal_rate RNum i * coal_rate RNum i) 2 (n - 1)).
  { apply P. intros i. nra. }
  lra.
Qed.

(** ** packaged statements used by props/C14.v *)
Lemma marginalize_lin_eq_log (val : list R) : (2 <= length val)%nat ->
  marginalize RNum (LinDom RNum) val = marginalize RNum RLogDom val.
Proof.
  intros H. rewrite marginalize_lin_closed_form, marginalize_log_closed_form by assumption. reflexivity.
Qed.

Lemma ccv_at_log_closed_form n k : (2 <= k <= n)%nat ->
  ccv_at RNum RLogDom n k = Some (
    if Nat.eqb k n then Hvar n 1
    else EW n k (fun a => Hvar n a + Hmean n a * Hmean n a) - EW n k (Hmean n) * EW n k (Hmean n)).
Proof.
  apply ccv_at_closed_form; auto using RLog_zero, RLog_ln, RLog_add, RLog_sub.
Qed.

Lemma mrca_row n : (2 <= n)%nat ->
  tau_expect RNum n n = Hmean n 1 /\ tau_var_mrca RNum n = Hvar n 1.
Proof. intros; split; [apply tau_expect_mrca | apply tau_var_mrca_R]; assumption. Qed.

Lemma moment_transforms (mean var : R) : 0 < mean -> 0 < var ->
  (let '(alpha, beta) := gamma_approx RNum mean var in
   0 < alpha /\ 0 < beta /\ alpha / beta = mean /\ alpha / (beta * beta) = var) /\
  (let '(alpha, beta) := lognorm_approx RNum ln mean var in
   0 <= beta /\ exp (alpha + beta / 2) = mean /\
   (exp beta - 1) * exp (2 * alpha + beta) = var).
Proof.
  intros Hm Hv. split.
  - apply gamma_approx_moments; assumption.
  - apply lognorm_approx_moments; lra.
Qed.
