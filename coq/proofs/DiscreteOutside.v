(** * [outside_pass] at the level of messages, for every probability space and every valid
    edge order (parents before children): the final outside values satisfy
      outside c = normalise (combine_{e in group c} msg e (outside (parent e)))
    and this system has one solution (order independence, C11). *)
From Coq Require Import List Arith Bool Lia.
From TsdateV Require Import lib.Num model.Discrete proofs.DiscreteBase.
Import ListNotations.

Section Outside.
  Variable P : Space.
  Notation S := (S P).
  Notation V := (list S).
  Variable G : nat.
  Variable lik : nat -> nat -> nat -> S.
  Variable sfrac : nat -> S.
  Variable fixed : nat -> bool.
  Variable st : istate P.
  Variable cache std ign : bool.
  Variable num_nodes : nat.

  Notation out_edge := (out_edge P G lik sfrac st cache std).
  Notation out_edges := (out_edges P G lik sfrac fixed st cache std ign num_nodes).
  Notation out_group := (out_group P G lik sfrac fixed st cache std ign num_nodes).
  Notation out_groups := (out_groups P G lik sfrac fixed st cache std ign num_nodes).

  Lemma out_edge_ext out out' e : out (e_parent e) = out' (e_parent e) -> out_edge out e = out_edge out' e.
  Proof. intro H. unfold Discrete.out_edge. now rewrite H. Qed.

  Lemma out_edges_ext out out' : forall es val,
    (forall e, In e es -> fixed (e_parent e) = false -> out (e_parent e) = out' (e_parent e)) ->
    out_edges out val es = out_edges out' val es.
  Proof. induction es as [|e r IH]; intros val H; cbn [Discrete.out_edges]; [reflexivity|].
    destruct (ign && Nat.eqb (e_parent e) (num_nodes - 1)); [apply IH; intros; apply H; [now right|assumption]|].
    destruct (fixed (e_parent e)) eqn:Hf; [reflexivity|].
    rewrite (out_edge_ext out out' e) by (apply H; [now left|exact Hf]).
    destruct (out_edge out' e); [|reflexivity].
    apply IH. intros; apply H; [now right|assumption]. Qed.

  (** what the pass establishes for the group of one child, relative to the outside map [out] *)
  Definition group_out_eq (out : nat -> option V) (g : nat * list edge) : Prop :=
    fixed (fst g) = false ->
    exists val d, out_edges out (repeat (s_id P) G) (snd g) = Some val /\ i_den P st (fst g) = Some d /\
      (s_leb P d (s_null P) || s_isnan P d) = false /\
      out (fst g) = Some (if std then vratio P val (npmax P val) else vratio P val d).

  Lemma out_group_spec out c es out' : out_group out (c, es) = Some out' -> fixed c = false ->
    exists val d, out_edges out (repeat (s_id P) G) es = Some val /\ i_den P st c = Some d /\
      (s_leb P d (s_null P) || s_isnan P d) = false /\
      out' = updf out c (Some (if std then vratio P val (npmax P val) else vratio P val d)).
  Proof. intros H Hfx. unfold Discrete.out_group in H. rewrite Hfx in H.
    destruct (out_edges out (repeat (s_id P) G) es) as [val|]; [|discriminate].
    destruct (i_den P st c) as [d|]; [|discriminate].
    destruct (s_leb P d (s_null P) || s_isnan P d) eqn:E; [discriminate|].
    exists val, d. inversion H. auto. Qed.

  Lemma out_group_fixed out c es out' : out_group out (c, es) = Some out' -> fixed c = true -> out' = out.
  Proof. intros H Hfx. unfold Discrete.out_group in H. rewrite Hfx in H. congruence. Qed.

  Theorem out_groups_spec allc : forall gs seen out out',
    outside_order allc seen gs ->
    (forall g, In g gs -> In (fst g) allc) ->
    out_groups out gs = Some out' ->
    (forall u, ~ In u (map fst gs) -> out' u = out u) /\
    (forall g, In g gs -> group_out_eq out' g).
  Proof. induction gs as [|[c es] r IH]; intros seen out out' Hord Hallc H; cbn [Discrete.out_groups] in H.
    - inversion H; subst. split; [tauto|intros ? []].
    - destruct (out_group out (c, es)) as [o1|] eqn:Hg; [|discriminate].
      destruct Hord as (Hnseen & Hpar & Hord).
      destruct (IH (c :: seen) o1 out' Hord (fun g Hg' => Hallc g (or_intror Hg')) H) as (Hkeep & Heqs).
      assert (Hlater : forall g, In g r -> ~ In (fst g) (c :: seen)).
      { clear - Hord. revert Hord. generalize (c :: seen). induction r as [|[c' es'] r IHr]; intros s Ho g []; cbn [outside_order] in Ho.
        - subst g. apply Ho.
        - destruct Ho as (_ & _ & Ho). intro Hin. apply (IHr _ Ho g H). now right. }
      assert (Hc_later : ~ In c (map fst r)).
      { intro Hin. apply in_map_iff in Hin. destruct Hin as (g & E & Hgin). apply (Hlater g Hgin). left. now rewrite E. }
      assert (Hpar_later : forall e, In e es -> ~ In (e_parent e) (map fst r)).
      { intros e He Hin. apply in_map_iff in Hin. destruct Hin as (g & E & Hgin).
        destruct (Hpar e He) as (_ & [Hs|Hn]).
        - apply (Hlater g Hgin). right. now rewrite E.
        - apply Hn. rewrite <- E. apply Hallc. now right. }
      destruct (fixed c) eqn:Hfx.
      + apply out_group_fixed in Hg; [|exact Hfx]. subst o1. split.
        * intros u Hu. apply Hkeep. intro; apply Hu; now right.
        * intros g [<-|Hgin]; [unfold group_out_eq; cbn [fst]; congruence|now apply Heqs].
      + destruct (out_group_spec out c es o1 Hg Hfx) as (val & d & Hval & Hd & Hok & ->).
        split.
        * intros u Hu. rewrite Hkeep by (intro; apply Hu; now right). apply updf_other. intro; subst; apply Hu; now left.
        * intros g [<-|Hgin]; [|now apply Heqs]. unfold group_out_eq. cbn [fst snd]. intros _.
          exists val, d. split; [|split; [exact Hd|split; [exact Hok|]]].
          -- rewrite <- Hval. apply out_edges_ext. intros e He _. rewrite Hkeep by now apply Hpar_later.
             apply updf_other. now apply Hpar.
          -- rewrite Hkeep by exact Hc_later. apply updf_same. Qed.

  (** one solution: induction along any valid order *)
  Lemma outside_unique_from allc : forall gs seen out1 out2,
    outside_order allc seen gs ->
    (forall u, fixed u = false -> In u seen \/ ~ In u allc -> out1 u = out2 u) ->
    (forall g, In g gs -> group_out_eq out1 g) ->
    (forall g, In g gs -> group_out_eq out2 g) ->
    forall g, In g gs -> fixed (fst g) = false -> out1 (fst g) = out2 (fst g).
  Proof. induction gs as [|[c es] r IH]; intros seen out1 out2 Hord Hseen H1 H2 g Hg Hfx; [destruct Hg|].
    destruct Hord as (Hn & Hpar & Hord).
    assert (Hc : fixed c = false -> out1 c = out2 c).
    { intro Hfc. destruct (H1 (c, es) (or_introl eq_refl) Hfc) as (v1 & d1 & Hv1 & Hd1 & _ & Ho1).
      destruct (H2 (c, es) (or_introl eq_refl) Hfc) as (v2 & d2 & Hv2 & Hd2 & _ & Ho2). cbn [fst snd] in *.
      assert (E : v1 = v2).
      { rewrite (out_edges_ext out1 out2) in Hv1; [congruence|]. intros e He Hfp. apply Hseen; [exact Hfp|now apply Hpar]. }
      subst v2. assert (d1 = d2) by congruence. subst d2. now rewrite Ho1, Ho2. }
    destruct Hg as [<-|Hg]; [exact (Hc Hfx)|].
    apply (IH (c :: seen) out1 out2 Hord); try assumption; try (intros; apply H1; now right); try (intros; apply H2; now right).
    intros u Hfu [[<-|Hu]|Hu]; [now apply Hc|apply Hseen; [exact Hfu|now left]|apply Hseen; [exact Hfu|now right]]. Qed.

  (** any two valid orders of the same child groups, started from outside maps that agree on
      the nodes that are never a child (the roots), give the same outside values *)
  Theorem outside_order_independent gs1 gs2 o1 o2 out1 out2 :
    outside_order (map fst gs1) [] gs1 -> outside_order (map fst gs2) [] gs2 ->
    (forall g, In g gs1 <-> In g gs2) ->
    (forall u, o1 u = o2 u) ->
    out_groups o1 gs1 = Some out1 -> out_groups o2 gs2 = Some out2 ->
    forall g, In g gs1 -> fixed (fst g) = false -> out1 (fst g) = out2 (fst g).
  Proof. intros Ho1 Ho2 Hsame Hinit H1 H2.
    destruct (out_groups_spec (map fst gs1) gs1 [] o1 out1 Ho1 (fun g Hg => in_map fst _ g Hg) H1) as (K1 & E1).
    destruct (out_groups_spec (map fst gs2) gs2 [] o2 out2 Ho2 (fun g Hg => in_map fst _ g Hg) H2) as (K2 & E2).
    assert (Hfst : forall u, In u (map fst gs1) <-> In u (map fst gs2)).
    { intro u. rewrite !in_map_iff. split; intros (g & E & Hg); exists g; (split; [exact E|now apply Hsame]). }
    apply (outside_unique_from (map fst gs1) gs1 [] out1 out2 Ho1).
    - intros u _ [[]|Hn]. rewrite K1 by exact Hn. rewrite K2 by (intro; apply Hn; now apply Hfst). apply Hinit.
    - exact E1.
    - intros g Hg. apply E2. now apply Hsame. Qed.
End Outside.

(** ** ignore_oldest_root (C38): what the code does -- it drops the edges whose parent has
    the highest node id, whatever that node is *)
Section Ignore.
  Variable P : Space.
  Variable G : nat.
  Variable lik : nat -> nat -> nat -> S P.
  Variable sfrac : nat -> S P.
  Variable fixed : nat -> bool.
  Variable st : istate P.
  Variable cache std : bool.
  Variable num_nodes : nat.

  Definition not_last_id (e : edge) : bool := negb (Nat.eqb (e_parent e) (num_nodes - 1)).

  Lemma out_edges_ignore out : forall es val,
    out_edges P G lik sfrac fixed st cache std true num_nodes out val es
    = out_edges P G lik sfrac fixed st cache std false num_nodes out val (filter not_last_id es).
  Proof. induction es as [|e r IH]; intro val; cbn [out_edges filter]; [reflexivity|].
    unfold not_last_id at 1. cbn [andb]. destruct (Nat.eqb (e_parent e) (num_nodes - 1)); cbn [negb].
    - apply IH.
    - cbn [out_edges andb]. destruct (fixed (e_parent e)); [reflexivity|].
      destruct (out_edge P G lik sfrac st cache std out e); [apply IH|reflexivity]. Qed.

  Lemma out_groups_ignore : forall gs out,
    out_groups P G lik sfrac fixed st cache std true num_nodes out gs
    = out_groups P G lik sfrac fixed st cache std false num_nodes out
        (map (fun g => (fst g, filter not_last_id (snd g))) gs).
  Proof. induction gs as [|[c es] r IH]; intro out; cbn [out_groups map fst snd]; [reflexivity|].
    unfold out_group. rewrite out_edges_ignore.
    destruct (fixed c); [apply IH|].
    destruct (out_edges P G lik sfrac fixed st cache std false num_nodes out (repeat (s_id P) G) (filter not_last_id es));
      [|reflexivity].
    destruct (i_den P st c) as [d|]; [|reflexivity].
    destruct (s_leb P d (s_null P) || s_isnan P d); [reflexivity|apply IH]. Qed.
End Ignore.
