(** Concrete evaluations of the EP model over exact rationals (non-vacuity examples). *)
From Coq Require Import List QArith Bool.
From TsdateV Require Import lib.Num model.EP.
Import ListNotations.

(** two samples (0, 1) under one free parent (2); edges 2->0, 2->1; root regularised;
    the projection "results" on the tape are deliberately arbitrary positive pairs *)
Definition exQ_edges : list (nat * nat) := [(2, 0); (2, 1)]%nat.
Definition exQ_constraints : list (Q * Q) := [(0, 0); (0, 0); (0, 1)]%Q.
Definition exQ_elik : list (V2 QNum) := [(1, 1 # 2); (0, 1 # 2)]%Q.
Definition exQ_free : list bool := [false; false; true].
Definition exQ_tape : list (V2 QNum * V2 QNum) :=
  [((2, 3), (0, 0)); ((1 # 2, 1), (0, 0)); ((30, 2), (0, 0))]%Q.

Definition exQ_run (maxshape : Q) :=
  run_tape QNum (1 # 1000000) (1000000 # 1) exQ_edges [] exQ_constraints exQ_elik [] exQ_free
    maxshape (1 # 10) (1 # 100000000) 10 true 1 exQ_tape.

Definition veqb (a b : V2 QNum) : bool := Qeq_bool (fst a) (fst b) && Qeq_bool (snd a) (snd b).

(** after one [iterate]: no assertion, whole tape used, scale = 1, every posterior equals
    the sum of its messages, the parent's posterior is non-zero, samples stay at zero;
    with [max_shape = 20] the last projection (shape 31) is capped, so the scale bookkeeping is
    exercised; with 1000 it is not *)
Definition exQ_check (maxshape : Q) : bool :=
  match exQ_run maxshape with
  | ([s], true, calls, O) =>
      let st := st_of_lists QNum s in
      let asm := assemble QNum 2 (nthf 0%nat [2; 2]%nat) (nthf 0%nat [0; 1]%nat) 0 (fun _ => 0%nat) (fun _ => 0%nat) st in
      forallb (fun u => veqb (post st u) (asm u)) [0; 1; 2]%nat
      && forallb (fun u => Qeq_bool (scl st u) 1) [0; 1; 2]%nat
      && negb (viszero (post st 2%nat)) && viszero (post st 0%nat) && viszero (post st 1%nat)
      && Nat.eqb (length calls) 3
  | _ => false
  end.

Lemma exQ_ok : exQ_check 1000 = true /\ exQ_check 20 = true.
Proof. split; vm_compute; reflexivity. Qed.

(** C05 non-vacuity: with [max_shape = 20] the third projection result (shape 31) is capped:
    the parent's posterior has shape exactly 20 and a positive rate, samples stay (0,0) *)
Definition exQ_capped : bool :=
  match exQ_run 20 with
  | ([s], true, _, O) =>
      let st := st_of_lists QNum s in
      Qeq_bool (fst (post st 2%nat) + 1) 20 && negb (Qle_bool (snd (post st 2%nat)) 0)
      && viszero (post st 0%nat)
  | _ => false
  end.
Lemma exQ_capped_ok : exQ_capped = true.
Proof. vm_compute; reflexivity. Qed.
