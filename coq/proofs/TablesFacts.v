(** * Facts about the table model and its reference semantics. *)
From Coq Require Import List ZArith Bool Arith Lia Sorting.Permutation Sorting.Sorted.
From TsdateV Require Import lib.Tables.
Import ListNotations.
Open Scope Z_scope.

Lemma upd_same {A} (t : nat -> A) u v : upd t u v u = v.
Proof. unfold upd. rewrite Nat.eqb_refl. reflexivity. Qed.
Lemma upd_other {A} (t : nat -> A) u v w : w <> u -> upd t u v w = t w.
Proof. intro H. unfold upd. destruct (Nat.eqb_spec w u); [contradiction|reflexivity]. Qed.

Lemma in_edge_ids es i : In i (edge_ids es) <-> (i < length es)%nat.
Proof. unfold edge_ids. rewrite in_seq. lia. Qed.

Lemma perm_in_ids es q i : Permutation q (edge_ids es) -> (In i q <-> (i < length es)%nat).
Proof. intro P. rewrite <- in_edge_ids. split; intro H.
  - eapply Permutation_in; eassumption.
  - eapply Permutation_in; [apply Permutation_sym|]; eassumption. Qed.

Lemma perm_filter_length {A} (f : A -> bool) l l' :
  Permutation l l' -> length (filter f l) = length (filter f l').
Proof. induction 1 as [|a l l' _ IH|a b l|l1 l2 l3 _ IH1 _ IH2]; cbn.
  - reflexivity.
  - destruct (f a); cbn; rewrite IH; reflexivity.
  - destruct (f a), (f b); reflexivity.
  - rewrite IH1. exact IH2. Qed.

Definition b2z (b : bool) : Z := if b then 1 else 0.
Definition zlen {A} (l : list A) : Z := Z.of_nat (length l).

Lemma zlen_filter_cons {A} (f : A -> bool) a l : zlen (filter f (a :: l)) = b2z (f a) + zlen (filter f l).
Proof. unfold zlen. cbn. destruct (f a); cbn [b2z length]; lia. Qed.

(** pointwise linear relation between four indicator functions lifts to the counts *)
Lemma zlen_filter_lin {A} (fa fb fc fd : A -> bool) l :
  (forall i, In i l -> b2z (fa i) = b2z (fb i) - b2z (fc i) + b2z (fd i)) ->
  zlen (filter fa l) = zlen (filter fb l) - zlen (filter fc l) + zlen (filter fd l).
Proof. induction l as [|a r IH]; intro H; [reflexivity|].
  rewrite !zlen_filter_cons. rewrite IH by (intros i Hi; apply H; right; exact Hi).
  rewrite (H a (or_introl eq_refl)). lia. Qed.

Lemma zlen_filter_ext {A} (f g : A -> bool) l :
  (forall i, In i l -> f i = g i) -> zlen (filter f l) = zlen (filter g l).
Proof. intro H. rewrite (filter_ext_in f g l H). reflexivity. Qed.

Lemma covers_spec e x : covers e x = true <-> eleft e <= x < eright e.
Proof. unfold covers. rewrite andb_true_iff, Z.leb_le, Z.ltb_lt. tauto. Qed.

Lemma filter_nth_seq {A} (f : A -> bool) (d : A) (l : list A) :
  length (filter (fun i => f (nth i l d)) (seq 0 (length l))) = length (filter f l).
Proof.
  assert (G : forall r pre, length (filter (fun i => f (nth i (pre ++ r) d)) (seq (length pre) (length r)))
                            = length (filter f r)).
  { induction r as [|a r IH]; intro pre; [reflexivity|].
    cbn [length seq filter]. rewrite nth_middle.
    specialize (IH (pre ++ [a])). rewrite <- app_assoc in IH. cbn [app] in IH.
    rewrite app_length in IH. cbn [length] in IH. rewrite Nat.add_1_r in IH.
    destruct (f a); cbn [length]; rewrite IH; reflexivity. }
  exact (G l []). Qed.

Lemma num_children_l_eq es x u : num_children_l es x u = num_children es x u.
Proof. unfold num_children_l, num_children, children_at, edge_ids, edge_at. f_equal. symmetry.
  apply (filter_nth_seq (fun e => covers e x && Nat.eqb (eparent e) u) dummy_edge es). Qed.

Section Ref.
  Variable es : list edge.
  Variable L : Z.
  Hypothesis Hrange : edges_in_range L es.

  Lemma num_children_nonneg x u : 0 <= num_children es x u.
  Proof. unfold num_children. lia. Qed.

  Lemma num_children_pos_covered x u : 0 < num_children es x u ->
    exists i, (i < length es)%nat /\ eparent (edge_at es i) = u /\ covers (edge_at es i) x = true.
  Proof. unfold num_children, children_at. intro H.
    destruct (filter _ (edge_ids es)) as [|i r] eqn:E; [cbn in H; lia|].
    assert (Hin : In i (filter (fun i => covers (edge_at es i) x && Nat.eqb (eparent (edge_at es i)) u) (edge_ids es)))
      by (rewrite E; left; reflexivity).
    apply filter_In in Hin. destruct Hin as [Hi Hp]. apply andb_true_iff in Hp. destruct Hp as [Hc Hp].
    apply Nat.eqb_eq in Hp. exists i. rewrite in_edge_ids in Hi. tauto. Qed.

  Lemma num_children_neg x u : x < 0 -> num_children es x u = 0.
  Proof. intro Hx. destruct (Z.eq_dec (num_children es x u) 0) as [|Hn]; [assumption|exfalso].
    assert (Hp : 0 < num_children es x u) by (assert (H := num_children_nonneg x u); lia).
    destruct (num_children_pos_covered x u Hp) as [i [Hi [_ Hc]]].
    apply covers_spec in Hc. destruct (Hrange i Hi). lia. Qed.

  Lemma num_children_beyond x u : (forall i, (i < length es)%nat -> eright (edge_at es i) <= x) ->
    num_children es x u = 0.
  Proof. intro Hx. destruct (Z.eq_dec (num_children es x u) 0) as [|Hn]; [assumption|exfalso].
    assert (Hp : 0 < num_children es x u) by (assert (H := num_children_nonneg x u); lia).
    destruct (num_children_pos_covered x u Hp) as [i [Hi [_ Hc]]].
    apply covers_spec in Hc. specialize (Hx i Hi). lia. Qed.

  (** decidable form of [changed_at] *)
  Definition changedb (x : Z) (u : nat) : bool :=
    existsb (fun i => Nat.eqb (eparent (edge_at es i)) u &&
                      ((eleft (edge_at es i) =? x) || (eright (edge_at es i) =? x))) (edge_ids es).

  Lemma changedb_spec x u : changedb x u = true <-> changed_at es x u.
  Proof. unfold changedb, changed_at. rewrite existsb_exists. split.
    - intros [i [Hi H]]. apply andb_true_iff in H. destruct H as [Hp H]. apply Nat.eqb_eq in Hp.
      apply orb_true_iff in H. rewrite !Z.eqb_eq in H. exists i. rewrite in_edge_ids in Hi. tauto.
    - intros [i [Hi [Hp H]]]. exists i. rewrite in_edge_ids. split; [exact Hi|].
      apply andb_true_iff. split; [apply Nat.eqb_eq; exact Hp|]. apply orb_true_iff.
      rewrite !Z.eqb_eq. exact H. Qed.

  (** if no edge of [u] starts or ends at [x], the children of [u] at [x-1] and at [x] coincide *)
  Lemma num_children_unchanged x u : ~ changed_at es x u ->
    num_children es (x - 1) u = num_children es x u.
  Proof. intro Hn. unfold num_children, children_at. f_equal. f_equal.
    apply filter_ext_in. intros i Hi. rewrite in_edge_ids in Hi.
    destruct (Nat.eqb_spec (eparent (edge_at es i)) u) as [Hp|Hp]; [|rewrite !andb_false_r; reflexivity].
    rewrite !andb_true_r. unfold covers.
    assert (Hl : eleft (edge_at es i) <> x) by (intro E; apply Hn; exists i; tauto).
    assert (Hr : eright (edge_at es i) <> x) by (intro E; apply Hn; exists i; tauto).
    destruct (Z.leb_spec (eleft (edge_at es i)) (x - 1)), (Z.leb_spec (eleft (edge_at es i)) x),
             (Z.ltb_spec (x - 1) (eright (edge_at es i))), (Z.ltb_spec x (eright (edge_at es i)));
      cbn; try reflexivity; lia. Qed.

  (** a child count of one somewhere is witnessed at a position where the node's edges change *)
  Lemma unary_descent u : forall n x, x < Z.of_nat n -> num_children es x u = 1 ->
    exists x0, 0 <= x0 <= x /\ num_children es x0 u = 1 /\ changed_at es x0 u.
  Proof. induction n as [|n IH]; intros x Hx H1.
    - rewrite num_children_neg in H1 by lia. discriminate.
    - assert (H0 : 0 <= x).
      { destruct (Z.lt_ge_cases x 0) as [Hneg|]; [|assumption]. rewrite num_children_neg in H1 by exact Hneg. discriminate. }
      destruct (changedb x u) eqn:E.
      + apply changedb_spec in E. exists x. split; [lia|]. tauto.
      + assert (Hn : ~ changed_at es x u) by (intro Hc; apply changedb_spec in Hc; congruence).
        rewrite <- (num_children_unchanged x u Hn) in H1.
        destruct (IH (x - 1) ltac:(lia) H1) as [x0 [Hx0 H]]. exists x0. split; [lia|exact H]. Qed.
End Ref.

(** ** The executable validity checks imply the validity predicates *)
Lemma edges_in_rangeb_spec L es : edges_in_rangeb L es = true -> edges_in_range L es.
Proof. unfold edges_in_rangeb, edges_in_range. rewrite forallb_forall. intros H i Hi.
  assert (Hin : In (edge_at es i) es) by (apply nth_In; exact Hi).
  specialize (H _ Hin). apply andb_true_iff in H. destruct H as [H H3]. apply andb_true_iff in H.
  destruct H as [H1 H2]. apply Z.leb_le in H1, H3. apply Z.ltb_lt in H2. lia. Qed.

Lemma insert_nat_perm a l : Permutation (insert_nat a l) (a :: l).
Proof. induction l as [|b r IH]; cbn; [apply Permutation_refl|].
  destruct (a <=? b)%nat; [apply Permutation_refl|].
  eapply Permutation_trans; [apply perm_skip; exact IH|apply perm_swap]. Qed.

Lemma sort_nat_perm l : Permutation (sort_nat l) l.
Proof. induction l as [|a r IH]; cbn; [constructor|].
  eapply Permutation_trans; [apply insert_nat_perm|apply perm_skip; exact IH]. Qed.

Lemma list_eqb_eq a : forall b, list_eqb a b = true -> a = b.
Proof. induction a as [|x a IH]; intros [|y b] H; cbn in H; try discriminate; [reflexivity|].
  apply andb_true_iff in H. destruct H as [H1 H2]. apply Nat.eqb_eq in H1. subst. f_equal. apply IH; exact H2. Qed.

Lemma is_perm_of_ids_spec n q : is_perm_of_ids n q = true -> Permutation q (seq 0 n).
Proof. unfold is_perm_of_ids. intro H. apply list_eqb_eq in H. rewrite <- H.
  apply Permutation_sym, sort_nat_perm. Qed.

Lemma sortedb_spec key q : sortedb key q = true -> sorted_by key q.
Proof. unfold sorted_by. induction q as [|a r IH]; intro H; [constructor|].
  destruct r as [|b r']; [constructor; constructor|].
  cbn [sortedb] in H. apply andb_true_iff in H. destruct H as [Hab Hr]. apply Z.leb_le in Hab.
  specialize (IH Hr). constructor; [exact IH|].
  apply StronglySorted_inv in IH. destruct IH as [_ Hall]. constructor; [exact Hab|].
  rewrite Forall_forall in *. intros c Hc. specialize (Hall c Hc). lia. Qed.

Lemma valid_indexb_spec es insq remq : valid_indexb es insq remq = true -> valid_index es insq remq.
Proof. unfold valid_indexb, valid_index. intro H.
  apply andb_true_iff in H. destruct H as [H H4]. apply andb_true_iff in H. destruct H as [H H3].
  apply andb_true_iff in H. destruct H as [H1 H2].
  repeat split; [apply is_perm_of_ids_spec; exact H1|apply is_perm_of_ids_spec; exact H2|
                 apply sortedb_spec; exact H3|apply sortedb_spec; exact H4]. Qed.

Lemma overlap_of_covers e f x : covers e x = true -> covers f x = true -> overlap e f = true.
Proof. rewrite !covers_spec. unfold overlap. intros. apply andb_true_iff. rewrite !Z.ltb_lt. lia. Qed.

Lemma overlap_sym e f : overlap e f = overlap f e.
Proof. unfold overlap. apply andb_comm. Qed.

Lemma one_parentb_spec es : one_parentb es = true -> one_parent es.
Proof. unfold one_parent. induction es as [|e r IH]; intros H i j x Hi Hj Hc Hci Hcj; [cbn in Hi; lia|].
  cbn [one_parentb] in H. apply andb_true_iff in H. destruct H as [Hall Hr].
  rewrite forallb_forall in Hall. unfold edge_at in *.
  destruct i as [|i], j as [|j]; cbn [nth length] in *.
  - reflexivity.
  - exfalso. assert (Hin : In (nth j r dummy_edge) r) by (apply nth_In; lia).
    specialize (Hall _ Hin). apply negb_true_iff in Hall. apply andb_false_iff in Hall.
    destruct Hall as [Hne|Hov].
    + apply Nat.eqb_neq in Hne. congruence.
    + rewrite (overlap_of_covers _ _ x Hci Hcj) in Hov. discriminate.
  - exfalso. assert (Hin : In (nth i r dummy_edge) r) by (apply nth_In; lia).
    specialize (Hall _ Hin). apply negb_true_iff in Hall. apply andb_false_iff in Hall.
    destruct Hall as [Hne|Hov].
    + apply Nat.eqb_neq in Hne. congruence.
    + rewrite (overlap_of_covers _ _ x Hcj Hci) in Hov. discriminate.
  - f_equal. apply (IH Hr i j x); try lia; assumption. Qed.

Lemma valid_tablesb_spec L es insq remq : valid_tablesb L es insq remq = true ->
  edges_in_range L es /\ one_parent es /\ valid_index es insq remq.
Proof. unfold valid_tablesb. intro H. apply andb_true_iff in H. destruct H as [H H3].
  apply andb_true_iff in H. destruct H as [H1 H2].
  split; [apply edges_in_rangeb_spec; exact H1|]. split; [apply one_parentb_spec; exact H2|].
  apply valid_indexb_spec; exact H3. Qed.
