(** * C06 (approx.py part): changing the time unit rescales every EP moment update exactly.
    For every regenerated moment function and projection wrapper: dividing all RATES (cavity rates,
    mutational spans) by c > 0 and multiplying all fixed AGES by c gives the same skip / failure
    decision, means x c, variances x c^2, phase probabilities unchanged, and natural parameters
    (shape - 1, rate / c).  The hypergeometric Laplace approximants are an ARBITRARY record [H]: they
    are only ever applied to dimensionless arguments, which is what the proofs show. *)
From Coq Require Import Reals Lra Bool ZArith Psatz.
From TsdateV Require Import lib.Num model.ApproxBase gen.HypergeoGen gen.ApproxGen proofs.ApproxTac proofs.ApproxC18.
Open Scope R_scope.

(** expose the real operations, but keep the validity predicates and the moment functions folded *)
Ltac rops := cbn beta iota zeta delta
  [Num.T Num.zero Num.one Num.add Num.sub Num.mul Num.div Num.neg Num.ltb Num.leb Num.eqb Num.ofZ RNum
   gtb geb neqb pw absN minN
   f_exp f_log f_sqrt f_lgamma f_tan f_sin f_log1p f_expm1 f_pi f_euler_gamma f_isfinite f_isinf f_lit RF].

(** ** relations between the result at the original scale and the result at the new scale *)
Definition rel_en {A : Type} (P : A -> A -> Prop) (r r' : exc (nanv A)) : Prop :=
  match r, r' with
  | Ok (Val x), Ok (Val y) => P x y
  | Ok Nan, Ok Nan => True
  | Err e, Err e' => e = e'
  | _, _ => False
  end.
Definition rel_e {A : Type} (P : A -> A -> Prop) (r r' : exc A) : Prop :=
  match r, r' with
  | Ok x, Ok y => P x y
  | Err e, Err e' => e = e'
  | _, _ => False
  end.

(** (log normaliser, mean, variance [, mean, variance]): the log normaliser is not constrained (it
    shifts by a multiple of log c and is not an output of dating) *)
Definition sc3 (c : R) (x y : R * R * R) : Prop :=
  let '(_, m, v) := x in let '(_, m', v') := y in m' = c * m /\ v' = c * c * v.
Definition sc5 (c : R) (x y : R * R * R * R * R) : Prop :=
  let '(_, mi, vi, mj, vj) := x in let '(_, mi', vi', mj', vj') := y in
  mi' = c * mi /\ vi' = c * c * vi /\ mj' = c * mj /\ vj' = c * c * vj.
(** mutation moments: (mean, variance) and (phase probability, mean, variance) *)
Definition sc2 (c : R) (x y : R * R) : Prop :=
  let '(m, v) := x in let '(m', v') := y in m' = c * m /\ v' = c * c * v.
Definition scp3 (c : R) (x y : R * R * R) : Prop :=
  let '(p, m, v) := x in let '(p', m', v') := y in p' = p /\ m' = c * m /\ v' = c * c * v.
(** projections: natural parameters (shape - 1, rate) *)
Definition scn (c : R) (p q : R * R) : Prop := fst q = fst p /\ snd q = snd p / c.
Definition scw1 (c : R) (x y : R * (R * R)) : Prop := scn c (snd x) (snd y).
Definition scw2 (c : R) (x y : R * (R * R) * (R * R)) : Prop :=
  scn c (snd (fst x)) (snd (fst y)) /\ scn c (snd x) (snd y).
Definition scwp (c : R) (x y : R * (R * R)) : Prop := fst y = fst x /\ scn c (snd x) (snd y).

(** ** comparisons under a change of unit *)
Lemma pos_div c x : 0 < c -> 0 < x -> 0 < x / c.
Proof. intros. apply Rdiv_lt_0_compat; assumption. Qed.
Lemma pos_div_inv c x : 0 < c -> 0 < x / c -> 0 < x.
Proof.
  intros Hc Hp. assert (Hq : 0 < x / c * c) by (apply Rmult_lt_0_compat; assumption).
  replace (x / c * c) with x in Hq by (field; lra). exact Hq.
Qed.
Lemma pos_mul_inv c x : 0 < c -> 0 < c * x -> 0 < x.
Proof.
  intros Hc Hp. assert (Hq : 0 < c * x * / c) by (apply Rmult_lt_0_compat; [assumption|apply Rinv_0_lt_compat; assumption]).
  replace (c * x * / c) with x in Hq by (field; lra). exact Hq.
Qed.

Lemma Rltb_0_div c x : 0 < c -> Rltb 0 (x / c) = Rltb 0 x.
Proof.
  intros Hc. destruct (Rlt_dec 0 x) as [Hx|Hx].
  - rewrite (Rltb_t 0 x Hx). apply Rltb_t. apply pos_div; assumption.
  - rewrite (Rltb_f 0 x) by lra. apply Rltb_f. apply Rnot_lt_le. intros Hp. apply Hx. exact (pos_div_inv c x Hc Hp).
Qed.
Lemma Rltb_0_mul c x : 0 < c -> Rltb 0 (c * x) = Rltb 0 x.
Proof.
  intros Hc. destruct (Rlt_dec 0 x) as [Hx|Hx].
  - rewrite (Rltb_t 0 x Hx). apply Rltb_t. apply Rmult_lt_0_compat; assumption.
  - rewrite (Rltb_f 0 x) by lra. apply Rltb_f. apply Rnot_lt_le. intros Hp. apply Hx. exact (pos_mul_inv c x Hc Hp).
Qed.
Lemma Rleb_0_mul c x : 0 < c -> Rleb 0 (c * x) = Rleb 0 x.
Proof.
  intros Hc. destruct (Rle_dec 0 x) as [Hx|Hx].
  - rewrite (Rleb_t 0 x Hx). apply Rleb_t. apply Rmult_le_pos; lra.
  - rewrite (Rleb_f 0 x) by lra. apply Rleb_f.
    assert (Hn : 0 < c * - x) by (apply Rmult_lt_0_compat; lra). lra.
Qed.
Lemma Rleb_div_0 c x : 0 < c -> Rleb (x / c) 0 = Rleb x 0.
Proof.
  intros Hc. destruct (Rle_dec x 0) as [Hx|Hx].
  - rewrite (Rleb_t x 0 Hx). apply Rleb_t. apply Rnot_lt_le. intros Hp. apply pos_div_inv in Hp; lra.
  - rewrite (Rleb_f x 0) by lra. apply Rleb_f. apply pos_div; lra.
Qed.
Lemma Rleb_mul_0 c x : 0 < c -> Rleb (c * x) 0 = Rleb x 0.
Proof.
  intros Hc. destruct (Rle_dec x 0) as [Hx|Hx].
  - rewrite (Rleb_t x 0 Hx). apply Rleb_t. apply Rnot_lt_le. intros Hp. apply pos_mul_inv in Hp; lra.
  - rewrite (Rleb_f x 0) by lra. apply Rleb_f. apply Rmult_lt_0_compat; lra.
Qed.
Lemma Reqb_mul_0 c x : 0 < c -> Reqb (c * x) 0 = Reqb x 0.
Proof.
  intros Hc. destruct (Req_EM_T x 0) as [->|Hx].
  - rewrite Rmult_0_r. reflexivity.
  - rewrite (Reqb_f x 0 Hx). apply Reqb_f. intros E. apply Hx.
    apply Rmult_integral in E. destruct E; [lra|assumption].
Qed.

Section Equiv.
  Variable lgam : R -> R.
  Variable eg : R.
  Variable H : HypFns RNum.
  Notation F := (RF lgam eg).
  Variable c : R.
  Hypothesis Hc : 0 < c.

  (** *** validity predicates *)
  Lemma valid_moments_scale mn va :
    valid_moments RNum F H (c * mn) (c * c * va) = valid_moments RNum F H mn va.
  Proof.
    destruct (valid_moments RNum F H mn va) eqn:E.
    - apply valid_moments_R in E. apply valid_moments_R. destruct E. split.
      + apply Rmult_lt_0_compat; assumption.
      + apply Rmult_lt_0_compat; [apply Rmult_lt_0_compat|]; assumption.
    - destruct (valid_moments RNum F H (c * mn) (c * c * va)) eqn:E'; [|reflexivity].
      apply valid_moments_R in E'. destruct E' as [E1 E2].
      assert (valid_moments RNum F H mn va = true); [|congruence].
      apply valid_moments_R. split.
      + exact (pos_mul_inv c mn Hc E1).
      + apply (pos_mul_inv c va Hc). apply (pos_mul_inv c (c * va) Hc). rewrite <- Rmult_assoc. exact E2.
  Qed.

  Lemma valid_gamma_scale s r : valid_gamma RNum F H s (r / c) = valid_gamma RNum F H s r.
  Proof.
    destruct (valid_gamma RNum F H s r) eqn:E.
    - apply valid_gamma_R in E. apply valid_gamma_R. destruct E. split; [assumption|apply pos_div; assumption].
    - destruct (valid_gamma RNum F H s (r / c)) eqn:E'; [|reflexivity].
      apply valid_gamma_R in E'. destruct E' as [E1 E2].
      assert (valid_gamma RNum F H s r = true); [|congruence].
      apply valid_gamma_R. split; [assumption|exact (pos_div_inv c r Hc E2)].
  Qed.

  (** *** the method-of-moments projection *)
  Lemma mom_scale mn va : 0 < mn -> 0 < va ->
    approximate_gamma_mom RNum F H (c * mn) (c * c * va) = Ok (mn * mn / va - 1, mn / va / c).
  Proof.
    intros Hm Hv. rewrite mom_ok.
    - f_equal. f_equal; field; lra.
    - apply Rmult_lt_0_compat; assumption.
    - apply Rmult_lt_0_compat; [apply Rmult_lt_0_compat|]; assumption.
  Qed.

  (** *** moment functions *)
  Ltac calls :=
    repeat match goal with
    | |- rel_en _ (match ?L with Ok _ => _ | Err _ => _ end) _ => destruct L as [?|?]; [|reflexivity]
    | |- rel_en _ (let '(_, _) := ?p in _) _ => destruct p
    end.

  Lemma moments_equiv a_i b_i a_j b_j y mu :
    rel_en (sc5 c) (moments RNum F H a_i b_i a_j b_j y mu)
                   (moments RNum F H a_i (b_i / c) a_j (b_j / c) y (mu / c)).
  Proof.
    unfold moments. rops.
    replace (mu / c + b_i / c) with ((mu + b_i) / c) by (field; lra).
    set (t := mu + b_i). rewrite Rltb_0_div by assumption.
    destruct (Rltb 0 t) eqn:Et; [|exact I]. apply Rltb_true in Et.
    replace ((mu / c - b_j / c) / (t / c)) with ((mu - b_j) / t) by (field; lra).
    set (z := (mu - b_j) / t).
    destruct (valid_hyp2f1 RNum F H a_j (a_i + a_j + y) (a_j + y + 1) z) eqn:Ev; cbn [negb]; [|exact I].
    apply valid_hyp2f1_R in Ev. destruct Ev as (Hz & Ha & Hb & Hcc).
    calls. cbn [rel_en sc5]. repeat split; field; lra.
  Qed.

  Lemma rootward_moments_equiv t_j a_i b_i y mu :
    rel_en (sc3 c) (rootward_moments RNum F H t_j a_i b_i y mu)
                   (rootward_moments RNum F H (c * t_j) a_i (b_i / c) y (mu / c)).
  Proof.
    unfold rootward_moments. rops.
    replace (0 / 1) with 0 by field.
    rewrite Rleb_0_mul by assumption.
    destruct (Rleb 0 t_j) eqn:Et; [|reflexivity].
    replace (mu / c + b_i / c) with ((mu + b_i) / c) by (field; lra).
    set (r := mu + b_i). rewrite valid_gamma_scale.
    destruct (valid_gamma RNum F H (a_i + y) r) eqn:Ev; cbn [negb]; [|exact I].
    apply valid_gamma_R in Ev. destruct Ev as [Hs Hr].
    rewrite Reqb_mul_0 by assumption.
    destruct (Reqb t_j 0) eqn:E0.
    - cbn [rel_en sc3]. split; field; lra.
    - replace (c * t_j * (r / c)) with (t_j * r) by (field; lra).
      destruct (valid_hyperu RNum F H (y + 1) (a_i + y + 1) (t_j * r)); cbn [negb]; [|exact I].
      calls. cbn [rel_en sc3]. split; ring.
  Qed.

  Lemma leafward_moments_equiv t_i a_j b_j y mu :
    rel_en (sc3 c) (leafward_moments RNum F H t_i a_j b_j y mu)
                   (leafward_moments RNum F H (c * t_i) a_j (b_j / c) y (mu / c)).
  Proof.
    unfold leafward_moments. rops.
    replace (0 / 1) with 0 by field.
    rewrite Rltb_0_mul by assumption.
    destruct (Rltb 0 t_i) eqn:Et; [|reflexivity].
    replace (c * t_i * (mu / c - b_j / c)) with (t_i * (mu - b_j)) by (field; lra).
    destruct (valid_hyp1f1 RNum F H a_j (a_j + y + 1) (t_i * (mu - b_j))) eqn:Ev; cbn [negb]; [|exact I].
    apply valid_hyp1f1_R in Ev. destruct Ev as [Ha Hb].
    calls. cbn [rel_en sc3]. split; ring.
  Qed.

  Lemma unphased_moments_equiv a_i b_i a_j b_j y mu :
    rel_en (sc5 c) (unphased_moments RNum F H a_i b_i a_j b_j y mu)
                   (unphased_moments RNum F H a_i (b_i / c) a_j (b_j / c) y (mu / c)).
  Proof.
    unfold unphased_moments. rops.
    replace (mu / c + b_i / c) with ((mu + b_i) / c) by (field; lra).
    set (t := mu + b_i). rewrite Rltb_0_div by assumption.
    destruct (Rltb 0 t) eqn:Et; [|exact I]. apply Rltb_true in Et.
    replace ((mu / c + b_j / c) / (t / c)) with ((mu + b_j) / t) by (field; lra).
    set (z := (mu + b_j) / t).
    destruct (valid_hyp2f1 RNum F H a_j (a_i + a_j + y) (a_j + a_i) (1 - z)) eqn:Ev; cbn [negb]; [|exact I].
    apply valid_hyp2f1_R in Ev. destruct Ev as (Hz & Ha & Hb & Hcc).
    calls. cbn [rel_en sc5]. repeat split; field; lra.
  Qed.

  Lemma twin_moments_equiv a_i b_i y mu : b_i + 2 * mu <> 0 ->
    sc3 c (twin_moments RNum F H a_i b_i y mu) (twin_moments RNum F H a_i (b_i / c) y (mu / c)).
  Proof.
    intros Hr. rewrite !twin_moments_closed. cbn [sc3].
    assert (Hc' : c <> 0) by lra. split; field; split; assumption.
  Qed.

  Lemma sideways_moments_equiv t_i a_j b_j y mu :
    rel_en (sc3 c) (sideways_moments RNum F H t_i a_j b_j y mu)
                   (sideways_moments RNum F H (c * t_i) a_j (b_j / c) y (mu / c)).
  Proof.
    unfold sideways_moments. rops.
    replace (0 / 1) with 0 by field.
    rewrite Rltb_0_mul by assumption.
    destruct (Rltb 0 t_i) eqn:Et; [|reflexivity].
    replace (c * t_i * (mu / c + b_j / c)) with (t_i * (mu + b_j)) by (field; lra).
    destruct (valid_hyperu RNum F H a_j (a_j + y + 1) (t_i * (mu + b_j))); cbn [negb]; [|exact I].
    calls. cbn [rel_en sc3]. split; ring.
  Qed.

  Lemma mutation_moments_equiv a_i b_i a_j b_j y mu :
    rel_en (sc2 c) (mutation_moments RNum F H a_i b_i a_j b_j y mu)
                   (mutation_moments RNum F H a_i (b_i / c) a_j (b_j / c) y (mu / c)).
  Proof.
    unfold mutation_moments. rops.
    replace (mu / c + b_i / c) with ((mu + b_i) / c) by (field; lra).
    set (t := mu + b_i). rewrite Rltb_0_div by assumption.
    destruct (Rltb 0 t) eqn:Et; [|exact I]. apply Rltb_true in Et.
    replace ((mu / c - b_j / c) / (t / c)) with ((mu - b_j) / t) by (field; lra).
    set (z := (mu - b_j) / t).
    destruct (valid_hyp2f1 RNum F H a_j (a_i + a_j + y) (a_j + y + 1) z) eqn:Ev; cbn [negb]; [|exact I].
    apply valid_hyp2f1_R in Ev. destruct Ev as (Hz & Ha & Hb & Hcc).
    calls. cbn [rel_en sc2]. repeat split; field; lra.
  Qed.

  Lemma mutation_rootward_moments_equiv t_j a_i b_i y mu :
    rel_en (sc2 c) (mutation_rootward_moments RNum F H t_j a_i b_i y mu)
                   (mutation_rootward_moments RNum F H (c * t_j) a_i (b_i / c) y (mu / c)).
  Proof.
    unfold mutation_rootward_moments.
    pose proof (rootward_moments_equiv t_j a_i b_i y mu) as E.
    destruct (rootward_moments RNum F H t_j a_i b_i y mu) as [[[[l m] v]|]|e],
             (rootward_moments RNum F H (c * t_j) a_i (b_i / c) y (mu / c)) as [[[[l' m'] v']|]|e'];
      cbn [rel_en] in E |- *; try contradiction; try exact E.
    destruct E as [-> ->]. rops. cbn [sc2]. split; field.
  Qed.

  Lemma mutation_leafward_moments_equiv t_i a_j b_j y mu :
    rel_en (sc2 c) (mutation_leafward_moments RNum F H t_i a_j b_j y mu)
                   (mutation_leafward_moments RNum F H (c * t_i) a_j (b_j / c) y (mu / c)).
  Proof.
    unfold mutation_leafward_moments.
    pose proof (leafward_moments_equiv t_i a_j b_j y mu) as E.
    destruct (leafward_moments RNum F H t_i a_j b_j y mu) as [[[[l m] v]|]|e],
             (leafward_moments RNum F H (c * t_i) a_j (b_j / c) y (mu / c)) as [[[[l' m'] v']|]|e'];
      cbn [rel_en] in E |- *; try contradiction; try exact E.
    destruct E as [-> ->]. rops. cbn [sc2]. split; field.
  Qed.

  Lemma mutation_unphased_moments_equiv a_i b_i a_j b_j y mu :
    rel_en (scp3 c) (mutation_unphased_moments RNum F H a_i b_i a_j b_j y mu)
                    (mutation_unphased_moments RNum F H a_i (b_i / c) a_j (b_j / c) y (mu / c)).
  Proof.
    unfold mutation_unphased_moments. rops.
    replace (mu / c + b_i / c) with ((mu + b_i) / c) by (field; lra).
    set (t := mu + b_i). rewrite Rltb_0_div by assumption.
    destruct (Rltb 0 t) eqn:Et; [|exact I]. apply Rltb_true in Et.
    replace ((mu / c + b_j / c) / (t / c)) with ((mu + b_j) / t) by (field; lra).
    set (z := (mu + b_j) / t).
    destruct (valid_hyp2f1 RNum F H a_j (a_j + a_i + y) (a_j + a_i) (1 - z)) eqn:Ev; cbn [negb]; [|exact I].
    apply valid_hyp2f1_R in Ev. destruct Ev as (Hz & Ha & Hb & Hcc).
    calls. cbn [rel_en scp3]. repeat split; try reflexivity; field; lra.
  Qed.

  Lemma mutation_twin_moments_equiv a_i b_i y mu : b_i + 2 * mu <> 0 ->
    scp3 c (mutation_twin_moments RNum F H a_i b_i y mu) (mutation_twin_moments RNum F H a_i (b_i / c) y (mu / c)).
  Proof.
    intros Hr. rewrite !mutation_twin_closed. cbn [scp3].
    assert (Hc' : c <> 0) by lra. repeat split; try reflexivity; field; split; assumption.
  Qed.

  Lemma mutation_sideways_moments_equiv t_i a_j b_j y mu :
    rel_en (scp3 c) (mutation_sideways_moments RNum F H t_i a_j b_j y mu)
                    (mutation_sideways_moments RNum F H (c * t_i) a_j (b_j / c) y (mu / c)).
  Proof.
    unfold mutation_sideways_moments. rops.
    rewrite Rltb_0_mul by assumption.
    destruct (Rltb 0 t_i) eqn:Et; [|reflexivity].
    replace (c * t_i * (mu / c + b_j / c)) with (t_i * (mu + b_j)) by (field; lra).
    destruct (valid_hyperu RNum F H a_j (a_j + y + 1) (t_i * (mu + b_j))); cbn [negb]; [|exact I].
    calls. cbn [rel_en scp3]. repeat split; try reflexivity; field.
  Qed.

  Lemma mutation_edge_moments_equiv t_i t_j :
    sc2 c (mutation_edge_moments RNum F H t_i t_j) (mutation_edge_moments RNum F H (c * t_i) (c * t_j)).
  Proof. rewrite !edge_moments_uniform. cbn [sc2]. split; field. Qed.

  Lemma mutation_block_moments_equiv t_i t_j :
    rel_e (scp3 c) (mutation_block_moments RNum F H t_i t_j) (mutation_block_moments RNum F H (c * t_i) (c * t_j)).
  Proof.
    unfold mutation_block_moments. rops. rewrite !Rltb_0_mul by assumption.
    destruct (Rltb 0 t_i) eqn:Ei; [|reflexivity]. destruct (Rltb 0 t_j) eqn:Ej; [|reflexivity].
    apply Rltb_true in Ei. apply Rltb_true in Ej.
    assert (Hs : c * t_i + c * t_j = c * (t_i + t_j)) by ring. rewrite !Hs.
    assert (Hp : 0 < c * (t_i + t_j)) by (apply Rmult_lt_0_compat; lra).
    cbn [rel_e scp3]. repeat split; field; split; lra.
  Qed.

  (** *** projection wrappers.  Every wrapper is  tail (moment function ...)  for one of four
      tails (checked by [reflexivity] below, which also pins the wrappers' structure). *)
  Definition tail1 (r : exc (nanv (R * R * R))) : exc (nanv (R * (R * R))) :=
    match r with
    | Err e => Err e
    | Ok (Val (logl, mn, va)) =>
        if negb (valid_moments RNum F H mn va) then Ok Nan
        else match approximate_gamma_mom RNum F H mn va with
             | Err e => Err e
             | Ok p => Ok (Val (logl, p))
             end
    | Ok Nan => Ok Nan
    end.
  Definition tailp1 (r : exc (nanv (R * R))) : exc (nanv (R * (R * R))) :=
    match r with
    | Err e => Err e
    | Ok (Val (mn, va)) =>
        if negb (valid_moments RNum F H mn va) then Ok Nan
        else match approximate_gamma_mom RNum F H mn va with
             | Err e => Err e
             | Ok p => Ok (Val (1 / 1, p))
             end
    | Ok Nan => Ok Nan
    end.
  Definition tailp (r : exc (nanv (R * R * R))) : exc (nanv (R * (R * R))) :=
    match r with
    | Err e => Err e
    | Ok (Val (pr, mn, va)) =>
        if orb (negb (valid_moments RNum F H mn va)) (negb (andb (Rleb 0 pr) (Rleb pr 1))) then Ok Nan
        else match approximate_gamma_mom RNum F H mn va with
             | Err e => Err e
             | Ok p => Ok (Val (pr, p))
             end
    | Ok Nan => Ok Nan
    end.

  Lemma mom_pair mn va mn' va' : mn' = c * mn -> va' = c * c * va ->
    valid_moments RNum F H mn' va' = valid_moments RNum F H mn va /\
    (valid_moments RNum F H mn va = true ->
       exists p q, approximate_gamma_mom RNum F H mn va = Ok p /\
                   approximate_gamma_mom RNum F H mn' va' = Ok q /\ scn c p q).
  Proof.
    intros -> ->. split; [apply valid_moments_scale|].
    intros E. apply valid_moments_R in E. destruct E as [Hm Hv].
    exists (mn * mn / va - 1, mn / va), (mn * mn / va - 1, mn / va / c).
    split; [apply mom_ok; assumption|]. split; [apply mom_scale; assumption|].
    split; reflexivity.
  Qed.

  Lemma tail1_equiv r r' : rel_en (sc3 c) r r' -> rel_en (scw1 c) (tail1 r) (tail1 r').
  Proof.
    destruct r as [[[[l m] v]|]|e], r' as [[[[l' m'] v']|]|e']; cbn [rel_en tail1]; try contradiction; try (intros; assumption).
    intros [Em Ev]. destruct (mom_pair m v m' v' Em Ev) as [Eq Hex]. rewrite Eq.
    destruct (valid_moments RNum F H m v) eqn:E; cbn [negb]; [|exact I].
    destruct (Hex eq_refl) as (p & q & -> & -> & Hs). exact Hs.
  Qed.

  Lemma tailp1_equiv r r' : rel_en (sc2 c) r r' -> rel_en (scwp c) (tailp1 r) (tailp1 r').
  Proof.
    destruct r as [[[m v]|]|e], r' as [[[m' v']|]|e']; cbn [rel_en tailp1]; try contradiction; try (intros; assumption).
    intros [Em Ev]. destruct (mom_pair m v m' v' Em Ev) as [Eq Hex]. rewrite Eq.
    destruct (valid_moments RNum F H m v) eqn:E; cbn [negb]; [|exact I].
    destruct (Hex eq_refl) as (p & q & -> & -> & Hs). split; [reflexivity|exact Hs].
  Qed.

  Lemma tailp_equiv r r' : rel_en (scp3 c) r r' -> rel_en (scwp c) (tailp r) (tailp r').
  Proof.
    destruct r as [[[[pr m] v]|]|e], r' as [[[[pr' m'] v']|]|e']; cbn [rel_en tailp]; try contradiction; try (intros; assumption).
    intros (-> & Em & Ev). destruct (mom_pair m v m' v' Em Ev) as [Eq Hex]. rewrite Eq.
    destruct (valid_moments RNum F H m v) eqn:E; cbn [negb orb]; [|exact I].
    destruct (negb (Rleb 0 pr && Rleb pr 1)); [exact I|].
    destruct (Hex eq_refl) as (p & q & -> & -> & Hs). split; [reflexivity|exact Hs].
  Qed.

  (** the wrappers ARE these tails of their moment functions *)
  Lemma leafward_projection_tail t a b y mu :
    leafward_projection RNum F H t (a, b) (y, mu) = tail1 (leafward_moments RNum F H t (a + 1) b y mu).
  Proof. reflexivity. Qed.
  Lemma rootward_projection_tail t a b y mu :
    rootward_projection RNum F H t (a, b) (y, mu) = tail1 (rootward_moments RNum F H t (a + 1) b y mu).
  Proof. reflexivity. Qed.
  Lemma sideways_projection_tail t a b y mu :
    sideways_projection RNum F H t (a, b) (y, mu) = tail1 (sideways_moments RNum F H t (a + 1) b y mu).
  Proof. reflexivity. Qed.
  Lemma twin_projection_tail a b y mu :
    twin_projection RNum F H (a, b) (y, mu) = tail1 (Ok (Val (twin_moments RNum F H (a + 1) b y mu))).
  Proof. reflexivity. Qed.
  Lemma mutation_gamma_projection_tail a_i b_i a_j b_j y mu :
    mutation_gamma_projection RNum F H (a_i, b_i) (a_j, b_j) (y, mu)
    = tailp1 (mutation_moments RNum F H (a_i + 1) b_i (a_j + 1) b_j y mu).
  Proof. reflexivity. Qed.
  Lemma mutation_leafward_projection_tail t a b y mu :
    mutation_leafward_projection RNum F H t (a, b) (y, mu) = tailp1 (mutation_leafward_moments RNum F H t (a + 1) b y mu).
  Proof. reflexivity. Qed.
  Lemma mutation_rootward_projection_tail t a b y mu :
    mutation_rootward_projection RNum F H t (a, b) (y, mu) = tailp1 (mutation_rootward_moments RNum F H t (a + 1) b y mu).
  Proof. reflexivity. Qed.
  Lemma mutation_edge_projection_tail t_i t_j :
    mutation_edge_projection RNum F H t_i t_j = tailp1 (Ok (Val (mutation_edge_moments RNum F H t_i t_j))).
  Proof. reflexivity. Qed.
  Lemma mutation_unphased_projection_tail a_i b_i a_j b_j y mu :
    mutation_unphased_projection RNum F H (a_i, b_i) (a_j, b_j) (y, mu)
    = tailp (mutation_unphased_moments RNum F H (a_i + 1) b_i (a_j + 1) b_j y mu).
  Proof. reflexivity. Qed.
  Lemma mutation_twin_projection_tail a b y mu :
    mutation_twin_projection RNum F H (a, b) (y, mu) = tailp (Ok (Val (mutation_twin_moments RNum F H (a + 1) b y mu))).
  Proof. reflexivity. Qed.
  Lemma mutation_sideways_projection_tail t a b y mu :
    mutation_sideways_projection RNum F H t (a, b) (y, mu) = tailp (mutation_sideways_moments RNum F H t (a + 1) b y mu).
  Proof. reflexivity. Qed.
  Lemma mutation_block_projection_tail t_i t_j :
    mutation_block_projection RNum F H t_i t_j
    = tailp (match mutation_block_moments RNum F H t_i t_j with Ok x => Ok (Val x) | Err e => Err e end).
  Proof. unfold mutation_block_projection. destruct (mutation_block_moments RNum F H t_i t_j) as [[[? ?] ?]|?]; reflexivity. Qed.


  (** *** equivariance of the fourteen wrappers *)
  Theorem leafward_projection_equiv t a b y mu :
    rel_en (scw1 c) (leafward_projection RNum F H t (a, b) (y, mu))
                    (leafward_projection RNum F H (c * t) (a, b / c) (y, mu / c)).
  Proof. rewrite !leafward_projection_tail. apply tail1_equiv, leafward_moments_equiv. Qed.

  Theorem rootward_projection_equiv t a b y mu :
    rel_en (scw1 c) (rootward_projection RNum F H t (a, b) (y, mu))
                    (rootward_projection RNum F H (c * t) (a, b / c) (y, mu / c)).
  Proof. rewrite !rootward_projection_tail. apply tail1_equiv, rootward_moments_equiv. Qed.

  Theorem sideways_projection_equiv t a b y mu :
    rel_en (scw1 c) (sideways_projection RNum F H t (a, b) (y, mu))
                    (sideways_projection RNum F H (c * t) (a, b / c) (y, mu / c)).
  Proof. rewrite !sideways_projection_tail. apply tail1_equiv, sideways_moments_equiv. Qed.

  Theorem twin_projection_equiv a b y mu : b + 2 * mu <> 0 ->
    rel_en (scw1 c) (twin_projection RNum F H (a, b) (y, mu))
                    (twin_projection RNum F H (a, b / c) (y, mu / c)).
  Proof. intros Hr. rewrite !twin_projection_tail. apply tail1_equiv. cbn [rel_en]. apply twin_moments_equiv, Hr. Qed.

  Theorem mutation_gamma_projection_equiv a_i b_i a_j b_j y mu :
    rel_en (scwp c) (mutation_gamma_projection RNum F H (a_i, b_i) (a_j, b_j) (y, mu))
                    (mutation_gamma_projection RNum F H (a_i, b_i / c) (a_j, b_j / c) (y, mu / c)).
  Proof. rewrite !mutation_gamma_projection_tail. apply tailp1_equiv, mutation_moments_equiv. Qed.

  Theorem mutation_leafward_projection_equiv t a b y mu :
    rel_en (scwp c) (mutation_leafward_projection RNum F H t (a, b) (y, mu))
                    (mutation_leafward_projection RNum F H (c * t) (a, b / c) (y, mu / c)).
  Proof. rewrite !mutation_leafward_projection_tail. apply tailp1_equiv, mutation_leafward_moments_equiv. Qed.

  Theorem mutation_rootward_projection_equiv t a b y mu :
    rel_en (scwp c) (mutation_rootward_projection RNum F H t (a, b) (y, mu))
                    (mutation_rootward_projection RNum F H (c * t) (a, b / c) (y, mu / c)).
  Proof. rewrite !mutation_rootward_projection_tail. apply tailp1_equiv, mutation_rootward_moments_equiv. Qed.

  Theorem mutation_edge_projection_equiv t_i t_j :
    rel_en (scwp c) (mutation_edge_projection RNum F H t_i t_j)
                    (mutation_edge_projection RNum F H (c * t_i) (c * t_j)).
  Proof. rewrite !mutation_edge_projection_tail. apply tailp1_equiv. cbn [rel_en]. apply mutation_edge_moments_equiv. Qed.

  Theorem mutation_unphased_projection_equiv a_i b_i a_j b_j y mu :
    rel_en (scwp c) (mutation_unphased_projection RNum F H (a_i, b_i) (a_j, b_j) (y, mu))
                    (mutation_unphased_projection RNum F H (a_i, b_i / c) (a_j, b_j / c) (y, mu / c)).
  Proof. rewrite !mutation_unphased_projection_tail. apply tailp_equiv, mutation_unphased_moments_equiv. Qed.

  Theorem mutation_twin_projection_equiv a b y mu : b + 2 * mu <> 0 ->
    rel_en (scwp c) (mutation_twin_projection RNum F H (a, b) (y, mu))
                    (mutation_twin_projection RNum F H (a, b / c) (y, mu / c)).
  Proof. intros Hr. rewrite !mutation_twin_projection_tail. apply tailp_equiv. cbn [rel_en]. apply mutation_twin_moments_equiv, Hr. Qed.

  Theorem mutation_sideways_projection_equiv t a b y mu :
    rel_en (scwp c) (mutation_sideways_projection RNum F H t (a, b) (y, mu))
                    (mutation_sideways_projection RNum F H (c * t) (a, b / c) (y, mu / c)).
  Proof. rewrite !mutation_sideways_projection_tail. apply tailp_equiv, mutation_sideways_moments_equiv. Qed.

  Theorem mutation_block_projection_equiv t_i t_j :
    rel_en (scwp c) (mutation_block_projection RNum F H t_i t_j)
                    (mutation_block_projection RNum F H (c * t_i) (c * t_j)).
  Proof.
    rewrite !mutation_block_projection_tail. apply tailp_equiv.
    pose proof (mutation_block_moments_equiv t_i t_j) as E.
    destruct (mutation_block_moments RNum F H t_i t_j) as [x|e],
             (mutation_block_moments RNum F H (c * t_i) (c * t_j)) as [x'|e']; cbn [rel_e rel_en] in *; assumption.
  Qed.

  (** the two-output wrappers *)
  Theorem gamma_projection_equiv a_i b_i a_j b_j y mu :
    rel_en (scw2 c) (gamma_projection RNum F H (a_i, b_i) (a_j, b_j) (y, mu))
                    (gamma_projection RNum F H (a_i, b_i / c) (a_j, b_j / c) (y, mu / c)).
  Proof.
    unfold gamma_projection.
    change (Num.add RNum a_i (Num.ofZ RNum 1)) with (a_i + 1). change (Num.add RNum a_j (Num.ofZ RNum 1)) with (a_j + 1).
    pose proof (moments_equiv (a_i + 1) b_i (a_j + 1) b_j y mu) as E.
    destruct (moments RNum F H (a_i + 1) b_i (a_j + 1) b_j y mu) as [[[[[[l mi] vi] mj] vj]|]|e],
             (moments RNum F H (a_i + 1) (b_i / c) (a_j + 1) (b_j / c) y (mu / c)) as [[[[[[l' mi'] vi'] mj'] vj']|]|e'];
      cbn [rel_en] in E |- *; try contradiction; try exact E.
    destruct E as (Emi & Evi & Emj & Evj).
    destruct (mom_pair mi vi mi' vi' Emi Evi) as [Eqi Hi]. destruct (mom_pair mj vj mj' vj' Emj Evj) as [Eqj Hj].
    rewrite Eqi, Eqj.
    destruct (valid_moments RNum F H mi vi) eqn:E1; cbn [negb andb]; [|exact I].
    destruct (valid_moments RNum F H mj vj) eqn:E2; cbn [negb andb]; [|exact I].
    destruct (Hi eq_refl) as (p & q & -> & -> & Hs). destruct (Hj eq_refl) as (p2 & q2 & -> & -> & Hs2).
    split; assumption.
  Qed.

  Theorem unphased_projection_equiv a_i b_i a_j b_j y mu :
    rel_en (scw2 c) (unphased_projection RNum F H (a_i, b_i) (a_j, b_j) (y, mu))
                    (unphased_projection RNum F H (a_i, b_i / c) (a_j, b_j / c) (y, mu / c)).
  Proof.
    unfold unphased_projection.
    change (Num.add RNum a_i (Num.ofZ RNum 1)) with (a_i + 1). change (Num.add RNum a_j (Num.ofZ RNum 1)) with (a_j + 1).
    pose proof (unphased_moments_equiv (a_i + 1) b_i (a_j + 1) b_j y mu) as E.
    destruct (unphased_moments RNum F H (a_i + 1) b_i (a_j + 1) b_j y mu) as [[[[[[l mi] vi] mj] vj]|]|e],
             (unphased_moments RNum F H (a_i + 1) (b_i / c) (a_j + 1) (b_j / c) y (mu / c)) as [[[[[[l' mi'] vi'] mj'] vj']|]|e'];
      cbn [rel_en] in E |- *; try contradiction; try exact E.
    destruct E as (Emi & Evi & Emj & Evj).
    destruct (mom_pair mi vi mi' vi' Emi Evi) as [Eqi Hi]. destruct (mom_pair mj vj mj' vj' Emj Evj) as [Eqj Hj].
    rewrite Eqi, Eqj.
    destruct (valid_moments RNum F H mi vi) eqn:E1; cbn [negb orb]; [|exact I].
    destruct (valid_moments RNum F H mj vj) eqn:E2; cbn [negb orb]; [|exact I].
    destruct (Hi eq_refl) as (p & q & -> & -> & Hs). destruct (Hj eq_refl) as (p2 & q2 & -> & -> & Hs2).
    split; assumption.
  Qed.
End Equiv.

(** ** assembly for props/C06.v *)
Definition moments_equivariant (F : Fns RNum) (H : HypFns RNum) (c : R) : Prop :=
  (forall a_i b_i a_j b_j y mu,
     rel_en (sc5 c) (moments RNum F H a_i b_i a_j b_j y mu) (moments RNum F H a_i (b_i / c) a_j (b_j / c) y (mu / c))) /\
  (forall t_j a_i b_i y mu,
     rel_en (sc3 c) (rootward_moments RNum F H t_j a_i b_i y mu) (rootward_moments RNum F H (c * t_j) a_i (b_i / c) y (mu / c))) /\
  (forall t_i a_j b_j y mu,
     rel_en (sc3 c) (leafward_moments RNum F H t_i a_j b_j y mu) (leafward_moments RNum F H (c * t_i) a_j (b_j / c) y (mu / c))) /\
  (forall a_i b_i a_j b_j y mu,
     rel_en (sc5 c) (unphased_moments RNum F H a_i b_i a_j b_j y mu) (unphased_moments RNum F H a_i (b_i / c) a_j (b_j / c) y (mu / c))) /\
  (forall a_i b_i y mu, b_i + 2 * mu <> 0 ->
     sc3 c (twin_moments RNum F H a_i b_i y mu) (twin_moments RNum F H a_i (b_i / c) y (mu / c))) /\
  (forall t_i a_j b_j y mu,
     rel_en (sc3 c) (sideways_moments RNum F H t_i a_j b_j y mu) (sideways_moments RNum F H (c * t_i) a_j (b_j / c) y (mu / c))) /\
  (forall a_i b_i a_j b_j y mu,
     rel_en (sc2 c) (mutation_moments RNum F H a_i b_i a_j b_j y mu) (mutation_moments RNum F H a_i (b_i / c) a_j (b_j / c) y (mu / c))) /\
  (forall t_j a_i b_i y mu,
     rel_en (sc2 c) (mutation_rootward_moments RNum F H t_j a_i b_i y mu)
                    (mutation_rootward_moments RNum F H (c * t_j) a_i (b_i / c) y (mu / c))) /\
  (forall t_i a_j b_j y mu,
     rel_en (sc2 c) (mutation_leafward_moments RNum F H t_i a_j b_j y mu)
                    (mutation_leafward_moments RNum F H (c * t_i) a_j (b_j / c) y (mu / c))) /\
  (forall a_i b_i a_j b_j y mu,
     rel_en (scp3 c) (mutation_unphased_moments RNum F H a_i b_i a_j b_j y mu)
                     (mutation_unphased_moments RNum F H a_i (b_i / c) a_j (b_j / c) y (mu / c))) /\
  (forall a_i b_i y mu, b_i + 2 * mu <> 0 ->
     scp3 c (mutation_twin_moments RNum F H a_i b_i y mu) (mutation_twin_moments RNum F H a_i (b_i / c) y (mu / c))) /\
  (forall t_i a_j b_j y mu,
     rel_en (scp3 c) (mutation_sideways_moments RNum F H t_i a_j b_j y mu)
                     (mutation_sideways_moments RNum F H (c * t_i) a_j (b_j / c) y (mu / c))) /\
  (forall t_i t_j,
     sc2 c (mutation_edge_moments RNum F H t_i t_j) (mutation_edge_moments RNum F H (c * t_i) (c * t_j))) /\
  (forall t_i t_j,
     rel_e (scp3 c) (mutation_block_moments RNum F H t_i t_j) (mutation_block_moments RNum F H (c * t_i) (c * t_j))).

Definition projections_equivariant (F : Fns RNum) (H : HypFns RNum) (c : R) : Prop :=
  (forall a_i b_i a_j b_j y mu,
     rel_en (scw2 c) (gamma_projection RNum F H (a_i, b_i) (a_j, b_j) (y, mu))
                     (gamma_projection RNum F H (a_i, b_i / c) (a_j, b_j / c) (y, mu / c))) /\
  (forall a_i b_i a_j b_j y mu,
     rel_en (scw2 c) (unphased_projection RNum F H (a_i, b_i) (a_j, b_j) (y, mu))
                     (unphased_projection RNum F H (a_i, b_i / c) (a_j, b_j / c) (y, mu / c))) /\
  (forall t a b y mu,
     rel_en (scw1 c) (leafward_projection RNum F H t (a, b) (y, mu)) (leafward_projection RNum F H (c * t) (a, b / c) (y, mu / c))) /\
  (forall t a b y mu,
     rel_en (scw1 c) (rootward_projection RNum F H t (a, b) (y, mu)) (rootward_projection RNum F H (c * t) (a, b / c) (y, mu / c))) /\
  (forall t a b y mu,
     rel_en (scw1 c) (sideways_projection RNum F H t (a, b) (y, mu)) (sideways_projection RNum F H (c * t) (a, b / c) (y, mu / c))) /\
  (forall a b y mu, b + 2 * mu <> 0 ->
     rel_en (scw1 c) (twin_projection RNum F H (a, b) (y, mu)) (twin_projection RNum F H (a, b / c) (y, mu / c))) /\
  (forall a_i b_i a_j b_j y mu,
     rel_en (scwp c) (mutation_gamma_projection RNum F H (a_i, b_i) (a_j, b_j) (y, mu))
                     (mutation_gamma_projection RNum F H (a_i, b_i / c) (a_j, b_j / c) (y, mu / c))) /\
  (forall t a b y mu,
     rel_en (scwp c) (mutation_leafward_projection RNum F H t (a, b) (y, mu))
                     (mutation_leafward_projection RNum F H (c * t) (a, b / c) (y, mu / c))) /\
  (forall t a b y mu,
     rel_en (scwp c) (mutation_rootward_projection RNum F H t (a, b) (y, mu))
                     (mutation_rootward_projection RNum F H (c * t) (a, b / c) (y, mu / c))) /\
  (forall t_i t_j,
     rel_en (scwp c) (mutation_edge_projection RNum F H t_i t_j) (mutation_edge_projection RNum F H (c * t_i) (c * t_j))) /\
  (forall a_i b_i a_j b_j y mu,
     rel_en (scwp c) (mutation_unphased_projection RNum F H (a_i, b_i) (a_j, b_j) (y, mu))
                     (mutation_unphased_projection RNum F H (a_i, b_i / c) (a_j, b_j / c) (y, mu / c))) /\
  (forall a b y mu, b + 2 * mu <> 0 ->
     rel_en (scwp c) (mutation_twin_projection RNum F H (a, b) (y, mu)) (mutation_twin_projection RNum F H (a, b / c) (y, mu / c))) /\
  (forall t a b y mu,
     rel_en (scwp c) (mutation_sideways_projection RNum F H t (a, b) (y, mu))
                     (mutation_sideways_projection RNum F H (c * t) (a, b / c) (y, mu / c))) /\
  (forall t_i t_j,
     rel_en (scwp c) (mutation_block_projection RNum F H t_i t_j) (mutation_block_projection RNum F H (c * t_i) (c * t_j))).

Lemma C06_moments_all lgam eg (H : HypFns RNum) c : 0 < c -> moments_equivariant (RF lgam eg) H c.
Proof.
  intros Hc.
  exact (conj (moments_equiv lgam eg H c Hc) (conj (rootward_moments_equiv lgam eg H c Hc)
        (conj (leafward_moments_equiv lgam eg H c Hc) (conj (unphased_moments_equiv lgam eg H c Hc)
        (conj (twin_moments_equiv lgam eg H c Hc) (conj (sideways_moments_equiv lgam eg H c Hc)
        (conj (mutation_moments_equiv lgam eg H c Hc) (conj (mutation_rootward_moments_equiv lgam eg H c Hc)
        (conj (mutation_leafward_moments_equiv lgam eg H c Hc) (conj (mutation_unphased_moments_equiv lgam eg H c Hc)
        (conj (mutation_twin_moments_equiv lgam eg H c Hc) (conj (mutation_sideways_moments_equiv lgam eg H c Hc)
        (conj (mutation_edge_moments_equiv lgam eg H c) (mutation_block_moments_equiv lgam eg H c Hc)))))))))))))).
Qed.

Lemma C06_projections_all lgam eg (H : HypFns RNum) c : 0 < c -> projections_equivariant (RF lgam eg) H c.
Proof.
  intros Hc.
  exact (conj (gamma_projection_equiv lgam eg H c Hc) (conj (unphased_projection_equiv lgam eg H c Hc)
        (conj (leafward_projection_equiv lgam eg H c Hc) (conj (rootward_projection_equiv lgam eg H c Hc)
        (conj (sideways_projection_equiv lgam eg H c Hc) (conj (twin_projection_equiv lgam eg H c Hc)
        (conj (mutation_gamma_projection_equiv lgam eg H c Hc) (conj (mutation_leafward_projection_equiv lgam eg H c Hc)
        (conj (mutation_rootward_projection_equiv lgam eg H c Hc) (conj (mutation_edge_projection_equiv lgam eg H c Hc)
        (conj (mutation_unphased_projection_equiv lgam eg H c Hc) (conj (mutation_twin_projection_equiv lgam eg H c Hc)
        (conj (mutation_sideways_projection_equiv lgam eg H c Hc) (mutation_block_projection_equiv lgam eg H c Hc)))))))))))))).
Qed.

(** non-vacuity: a conjugate update at two scales -- Gamma(5, 3) in years is Gamma(5, 3/c) in units of 1/c years *)
Lemma C06_example lgam eg (H : HypFns RNum) c : 0 < c ->
  (exists l, rootward_projection RNum (RF lgam eg) H 0 (1, 2) (3, 1) = Ok (Val (l, (1 + 3, 2 + 1)))) /\
  (exists l, rootward_projection RNum (RF lgam eg) H (c * 0) (1, 2 / c) (3, 1 / c) = Ok (Val (l, (1 + 3, 2 / c + 1 / c)))).
Proof.
  intros Hc. split.
  - apply rootward_projection_conjugate; lra.
  - rewrite Rmult_0_r. apply rootward_projection_conjugate; [lra|].
    replace (2 / c + 1 / c) with (3 / c) by (field; lra). apply Rdiv_lt_0_compat; lra.
Qed.

(** ** the same facts in elementary form, for the two-node update and its wrapper *)
Lemma rel_en_elim {A : Type} (P : A -> A -> Prop) r r' : rel_en P r r' ->
  (forall x, r = Ok (Val x) -> exists y, r' = Ok (Val y) /\ P x y) /\
  (r = Ok Nan <-> r' = Ok Nan) /\
  (forall e, r = Err e <-> r' = Err e).
Proof.
  destruct r as [[x|]|e], r' as [[y|]|e']; cbn [rel_en]; intros Hr; try contradiction.
  - split; [intros x0 E; injection E as <-; exists y; split; [reflexivity|exact Hr]|].
    split; [split; discriminate|intros e; split; discriminate].
  - split; [intros x0 E; discriminate|]. split; [split; reflexivity|intros e; split; discriminate].
  - subst e'. split; [intros x0 E; discriminate|]. split; [split; discriminate|intros e0; split; intros E; exact E].
Qed.

Lemma moments_equiv_elementary lgam eg (H : HypFns RNum) c : 0 < c -> forall a_i b_i a_j b_j y mu,
  let r := moments RNum (RF lgam eg) H a_i b_i a_j b_j y mu in
  let r' := moments RNum (RF lgam eg) H a_i (b_i / c) a_j (b_j / c) y (mu / c) in
  (forall l mi vi mj vj, r = Ok (Val (l, mi, vi, mj, vj)) ->
     exists l', r' = Ok (Val (l', c * mi, c * c * vi, c * mj, c * c * vj))) /\
  (r = Ok Nan <-> r' = Ok Nan) /\
  (forall e, r = Err e <-> r' = Err e).
Proof.
  intros Hc a_i b_i a_j b_j y mu r r'.
  destruct (rel_en_elim _ _ _ (moments_equiv lgam eg H c Hc a_i b_i a_j b_j y mu)) as (Hv & Hn & He).
  split; [|split; assumption].
  intros l mi vi mj vj E. destruct (Hv _ E) as ([[[[l' mi'] vi'] mj'] vj'] & E' & Hs).
  cbn [sc5] in Hs. destruct Hs as (-> & -> & -> & ->). exists l'. exact E'.
Qed.

Lemma gamma_projection_equiv_elementary lgam eg (H : HypFns RNum) c : 0 < c -> forall a_i b_i a_j b_j y mu,
  let r := gamma_projection RNum (RF lgam eg) H (a_i, b_i) (a_j, b_j) (y, mu) in
  let r' := gamma_projection RNum (RF lgam eg) H (a_i, b_i / c) (a_j, b_j / c) (y, mu / c) in
  (forall l si ri sj rj, r = Ok (Val (l, (si, ri), (sj, rj))) ->
     exists l', r' = Ok (Val (l', (si, ri / c), (sj, rj / c)))) /\
  (r = Ok Nan <-> r' = Ok Nan) /\
  (forall e, r = Err e <-> r' = Err e).
Proof.
  intros Hc a_i b_i a_j b_j y mu r r'.
  destruct (rel_en_elim _ _ _ (gamma_projection_equiv lgam eg H c Hc a_i b_i a_j b_j y mu)) as (Hv & Hn & He).
  split; [|split; assumption].
  intros l si ri sj rj E. destruct (Hv _ E) as ([[l' [si' ri']] [sj' rj']] & E' & Hs).
  unfold scw2, scn in Hs. simpl in Hs. destruct Hs as ((-> & ->) & (-> & ->)). exists l'. exact E'.
Qed.
