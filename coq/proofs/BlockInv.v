(** * phasing._block_singletons: every block row joins two edges above nodes of ONE unphased
    individual, and a mutation mapped to block [b] sits on a node of that individual (C22, C24).
    Holds for any tables and any insertion / removal orders (a state invariant of the sweep). *)
From Coq Require Import List ZArith Bool Arith Lia Sorting.Permutation Sorting.Sorted.
From TsdateV Require Import lib.Tables model.Sweep model.BlockSingletons proofs.TablesFacts proofs.SweepInv.
Import ListNotations.
Open Scope Z_scope.

(** ** sorted permutations of [0 .. n-1] *)
Lemma sorted_perm_eq : forall l l' : list Z,
  StronglySorted Z.le l -> StronglySorted Z.le l' -> Permutation l l' -> l = l'.
Proof. induction l as [|a l IH]; intros l' Hs Hs' P.
  - apply Permutation_nil in P. symmetry; exact P.
  - destruct l' as [|a' l']; [apply Permutation_sym, Permutation_nil in P; discriminate|].
    apply StronglySorted_inv in Hs. destruct Hs as [Hs Ha]. apply StronglySorted_inv in Hs'. destruct Hs' as [Hs' Ha'].
    rewrite Forall_forall in Ha, Ha'.
    assert (E : a = a').
    { assert (H1 : In a (a' :: l')) by (eapply Permutation_in; [exact P|left; reflexivity]).
      assert (H2 : In a' (a :: l)) by (eapply Permutation_in; [apply Permutation_sym; exact P|left; reflexivity]).
      destruct H1 as [H1|H1]; [symmetry; exact H1|]. destruct H2 as [H2|H2]; [exact H2|].
      specialize (Ha a' H2). specialize (Ha' a H1). lia. }
    subst a'. f_equal. apply IH; [exact Hs|exact Hs'|]. eapply Permutation_cons_inv; exact P. Qed.

Lemma insert_block_perm b l : Permutation (insert_block b l) (b :: l).
Proof. induction l as [|k r IH]; cbn; [apply Permutation_refl|].
  destruct (b_order b <? b_order k); [apply Permutation_refl|].
  eapply Permutation_trans; [apply perm_skip; exact IH|apply perm_swap]. Qed.

Lemma sort_blocks_perm l : Permutation (sort_blocks l) l.
Proof. induction l as [|a r IH]; cbn; [constructor|].
  eapply Permutation_trans; [apply insert_block_perm|apply perm_skip; exact IH]. Qed.

Lemma insert_block_sorted b l : StronglySorted Z.le (map b_order l) -> StronglySorted Z.le (map b_order (insert_block b l)).
Proof. induction l as [|k r IH]; intro Hs; cbn; [repeat constructor|].
  cbn in Hs. apply StronglySorted_inv in Hs. destruct Hs as [Hs Hall].
  destruct (Z.ltb_spec (b_order b) (b_order k)) as [Hlt|Hge]; cbn.
  - constructor; [constructor; assumption|]. constructor; [lia|].
    rewrite Forall_forall in *. intros x Hx. specialize (Hall x Hx). lia.
  - constructor; [apply IH; exact Hs|]. rewrite Forall_forall in *. intros x Hx.
    apply in_map_iff in Hx. destruct Hx as [y [<- Hy]].
    apply (Permutation_in _ (insert_block_perm b r)) in Hy. destruct Hy as [<-|Hy]; [lia|].
    apply Hall. apply in_map. exact Hy. Qed.

Lemma sort_blocks_sorted l : StronglySorted Z.le (map b_order (sort_blocks l)).
Proof. induction l as [|a r IH]; cbn; [constructor|]. apply insert_block_sorted; exact IH. Qed.

Lemma seqZ_sorted : forall n k, StronglySorted Z.le (map Z.of_nat (seq k n)).
Proof. induction n as [|n IH]; intro k; cbn; [constructor|]. constructor; [apply IH|].
  rewrite Forall_forall. intros x Hx. apply in_map_iff in Hx. destruct Hx as [y [<- Hy]]. apply in_seq in Hy. lia. Qed.

(** distinct ids in [0, n), n of them: sorting by id puts id [b] in row [b] *)
Lemma sorted_ids_rows (l : list block) (n : nat) :
  NoDup (map b_order l) -> (forall r, In r l -> 0 <= b_order r < Z.of_nat n) -> length l = n ->
  map b_order (sort_blocks l) = map Z.of_nat (seq 0 n).
Proof. intros Hnd Hr Hlen. apply sorted_perm_eq; [apply sort_blocks_sorted|apply seqZ_sorted|].
  eapply Permutation_trans; [apply Permutation_map, sort_blocks_perm|].
  apply NoDup_Permutation; [exact Hnd| |].
  - apply FinFun.Injective_map_NoDup; [intros x y H; lia|apply seq_NoDup].
  - intro z. split; intro Hz.
    + apply in_map_iff in Hz. destruct Hz as [r [<- Hin]]. destruct (Hr r Hin).
      apply in_map_iff. exists (Z.to_nat (b_order r)). split; [lia|]. apply in_seq. lia.
    + (* pigeonhole *)
      assert (Hincl : incl (map Z.of_nat (seq 0 n)) (map b_order l)).
      { apply NoDup_length_incl; [exact Hnd|rewrite !map_length, seq_length; lia|].
        intros w Hw. apply in_map_iff in Hw. destruct Hw as [r [<- Hin]]. destruct (Hr r Hin).
        apply in_map_iff. exists (Z.to_nat (b_order r)). split; [lia|]. apply in_seq. lia. }
      apply Hincl. exact Hz. Qed.

Lemma nodup_map_inj {A B} (f : A -> B) (l : list A) x y :
  NoDup (map f l) -> In x l -> In y l -> f x = f y -> x = y.
Proof. induction l as [|a l IH]; intros Hnd H1 H2 E; [destruct H1|].
  cbn [map] in Hnd. inversion Hnd as [|? ? Hnotin Hnd']; subst.
  destruct H1 as [->|H1], H2 as [->|H2]; try reflexivity.
  - exfalso. apply Hnotin. apply in_map_iff. exists y. split; [symmetry; exact E|exact H2].
  - exfalso. apply Hnotin. apply in_map_iff. exists x. split; [exact E|exact H1].
  - apply IH; assumption. Qed.

Section BlockInv.
  Variable es : list edge.
  Variable unphased : nat -> bool.
  Variable nind : nat -> Z.
  Variable mpos : nat -> Z.
  Variable mnode : nat -> nat.
  Hypothesis Hnind : forall c, -1 <= nind c.

  Notation trk := (tracked unphased nind).
  Let chi := fun e => echild (edge_at es e).

  Lemma tracked_some c i : trk c = Some i ->
    nind c = Z.of_nat i /\ nind c <> -1 /\ unphased (Z.to_nat (nind c)) = true.
  Proof. unfold tracked. destruct (Z.eqb_spec (nind c) (-1)) as [|Hne]; [discriminate|].
    destruct (unphased (Z.to_nat (nind c))) eqn:E; [|discriminate]. intro H. injection H as <-.
    specialize (Hnind c). split; [lia|]. split; [exact Hne|reflexivity]. Qed.

  Definition ok_edge (i : nat) (w : Z) : Prop := 0 <= w /\ trk (chi (Z.to_nat w)) = Some i.
  Definition good (i : nat) (w : Z) : Prop := w = -1 \/ ok_edge i w.
  Definition rec_of (i : nat) (r : block) : Prop := ok_edge i (b_e0 r) /\ ok_edge i (b_e1 r).

  Record Inv (s : bs_state) : Prop := mkInv {
    iA : forall i, good i (fst (bs_edges s i)) /\ good i (snd (bs_edges s i));
    iE : forall i, fst (bs_edges s i) <> -1 -> snd (bs_edges s i) <> -1 -> bs_block s i <> -1;
    iC : forall i, bs_block s i = -1 \/ 0 <= bs_block s i < bs_num s;
    iN : 0 <= bs_num s;
    iB : forall r, In r (bs_blocks s) -> 0 <= b_order r < bs_num s /\ exists i, rec_of i r;
    iD1 : forall i j, bs_block s i = bs_block s j -> bs_block s i <> -1 -> i = j;
    iD2 : forall r i, In r (bs_blocks s) -> bs_block s i <> b_order r;
    iD3 : NoDup (map b_order (bs_blocks s));
    iF : forall m, bs_mblock s m = -1 \/
           exists i, trk (mnode m) = Some i /\
             (bs_block s i = bs_mblock s m \/
              exists r, In r (bs_blocks s) /\ b_order r = bs_mblock s m /\ rec_of i r)
  }.

  Lemma inv_fail code s : Inv s -> Inv (fail_with code s).
  Proof. intros [A E C N B D1 D2 D3 F]. constructor; assumption. Qed.

  Lemma inv_init M : Inv (bs_init mpos M).
  Proof. constructor; unfold bs_init; cbn; intros; try (left; reflexivity); try contradiction; try lia; try constructor.
    - left; reflexivity.
    - left; reflexivity. Qed.

  Lemma inv_rmv x e s : Inv s -> Inv (bs_rmv es unphased nind x e s).
  Proof. intros H. unfold bs_rmv. destruct (trk (echild (edge_at es e))) as [i|] eqn:Et; [|exact H].
    destruct (bs_edges s i) as [u v] eqn:Euv.
    destruct (negb ((u =? Z.of_nat e) || (v =? Z.of_nat e))) eqn:Eas; [apply inv_fail; exact H|].
    apply negb_false_iff in Eas. apply orb_true_iff in Eas. rewrite !Z.eqb_eq in Eas.
    destruct H as [A E C N B D1 D2 D3 F].
    assert (Ai := A i). rewrite Euv in Ai. cbn [fst snd] in Ai. destruct Ai as [Au Av].
    set (sib := if v =? Z.of_nat e then u else v).
    assert (Gsib : good i sib) by (unfold sib; destruct (v =? Z.of_nat e); assumption).
    destruct (Z.eqb_spec sib (-1)) as [Es|Es].
    - (* no flush *)
      constructor; cbn [bs_edges bs_block bs_num bs_blocks bs_mblock]; try assumption.
      + intro j. unfold upd. destruct (Nat.eqb_spec j i) as [->|Hne]; [cbn [fst snd]; split; [exact Gsib|left; reflexivity]|apply A].
      + intro j. unfold upd. destruct (Nat.eqb_spec j i) as [->|Hne]; [cbn [fst snd]; intros _ Hc; exfalso; apply Hc; reflexivity|apply E].
    - (* flush *)
      assert (Hboth : u <> -1 /\ v <> -1).
      { unfold sib in Es. destruct (Z.eqb_spec v (Z.of_nat e)) as [Ev|Ev]; [split; [exact Es|lia]|].
        destruct Eas as [Eu|Ev']; [split; [lia|exact Es]|contradiction]. }
      assert (Hopen : bs_block s i <> -1).
      { apply E; rewrite Euv; cbn [fst snd]; tauto. }
      assert (Hrange : 0 <= bs_block s i < bs_num s) by (destruct (C i); [contradiction|assumption]).
      assert (Hez : ok_edge i (Z.of_nat e)) by (split; [lia|rewrite Nat2Z.id; exact Et]).
      assert (Hsib : ok_edge i sib) by (destruct Gsib; [contradiction|assumption]).
      set (blk := mkBlock (bs_block s i) (Z.of_nat e) sib (bs_count s i)
                          match bs_pos s i with Some p => Some (x - p) | None => None end).
      assert (Hrec : rec_of i blk) by (split; assumption).
      constructor; cbn [bs_edges bs_block bs_num bs_blocks bs_mblock].
      + intro j. unfold upd. destruct (Nat.eqb_spec j i) as [->|Hne]; [cbn [fst snd]; split; [exact Gsib|left; reflexivity]|apply A].
      + intro j. unfold upd at 1 2. destruct (Nat.eqb_spec j i) as [->|Hne]; [cbn [fst snd]; intros _ Hc; exfalso; apply Hc; reflexivity|].
        intros H1 H2. rewrite upd_other by exact Hne. apply E; assumption.
      + intro j. unfold upd. destruct (Nat.eqb_spec j i); [left; reflexivity|apply C].
      + exact N.
      + intros r Hr. apply in_app_or in Hr. destruct Hr as [Hr|[<-|[]]]; [apply B; exact Hr|].
        split; [exact Hrange|exists i; exact Hrec].
      + intros j k. unfold upd. destruct (Nat.eqb_spec j i) as [->|Hj], (Nat.eqb_spec k i) as [->|Hk]; intros He Hne.
        * reflexivity.
        * exfalso. apply Hne. reflexivity.
        * exfalso. apply Hne. exact He.
        * apply D1; assumption.
      + intros r j Hr. unfold upd. apply in_app_or in Hr. destruct (Nat.eqb_spec j i) as [->|Hne].
        * destruct Hr as [Hr|[<-|[]]]; [destruct (B r Hr) as [Ho _]; lia|unfold blk; cbn [b_order]; lia].
        * destruct Hr as [Hr|[<-|[]]]; [apply D2; exact Hr|]. unfold blk. cbn [b_order]. intro Hc. apply Hne. apply D1; [exact Hc|].
          rewrite Hc. exact Hopen.
      + rewrite map_app. cbn [map]. apply (Permutation_NoDup (Permutation_cons_append _ _)).
        constructor; [|exact D3]. unfold blk. cbn [b_order]. intro Hin. apply in_map_iff in Hin. destruct Hin as [r [Hor Hr]].
        apply (D2 r i Hr). symmetry; exact Hor.
      + intro m. destruct (F m) as [Hm|[i0 [Ht [Hb|[r [Hr [Hor Hri]]]]]]]; [left; exact Hm| |].
        * destruct (Z.eq_dec (bs_mblock s m) (-1)) as [Hm|Hm]; [left; exact Hm|right]. exists i0. split; [exact Ht|].
          destruct (Nat.eq_dec i0 i) as [->|Hne].
          -- right. exists blk. split; [apply in_or_app; right; left; reflexivity|]. split; [exact Hb|exact Hrec].
          -- left. rewrite upd_other by exact Hne. exact Hb.
        * right. exists i0. split; [exact Ht|]. right. exists r. split; [apply in_or_app; left; exact Hr|]. tauto. Qed.

  Lemma inv_ins x e s : Inv s -> Inv (bs_ins es unphased nind x e s).
  Proof. intros H. unfold bs_ins. destruct (trk (echild (edge_at es e))) as [i|] eqn:Et; [|exact H].
    destruct (bs_edges s i) as [u v] eqn:Euv.
    destruct (negb ((u =? -1) || (v =? -1))); [apply inv_fail; exact H|].
    destruct H as [A E C N B D1 D2 D3 F].
    assert (Ai := A i). rewrite Euv in Ai. cbn [fst snd] in Ai. destruct Ai as [Au Av].
    assert (Hez : good i (Z.of_nat e)) by (right; split; [lia|rewrite Nat2Z.id; exact Et]).
    assert (Hmax : good i (Z.max u v)) by (destruct (Z.max_spec u v) as [[_ ->]|[_ ->]]; assumption).
    destruct (Z.eqb_spec (bs_block s i) (-1)) as [Eb|Eb].
    - (* a new block is opened *)
      constructor; cbn [bs_edges bs_block bs_num bs_blocks bs_mblock].
      + intro j. unfold upd. destruct (Nat.eqb_spec j i) as [->|Hne]; [cbn [fst snd]; split; assumption|apply A].
      + intro j. unfold upd at 1 2 3. destruct (Nat.eqb_spec j i) as [->|Hne]; [intros _ _; lia|apply E].
      + intro j. unfold upd. destruct (Nat.eqb_spec j i); [right; lia|]. destruct (C j); [left; assumption|right; lia].
      + lia.
      + intros r Hr. destruct (B r Hr) as [Ho Hi]. split; [lia|exact Hi].
      + intros j k. unfold upd. destruct (Nat.eqb_spec j i) as [->|Hj], (Nat.eqb_spec k i) as [->|Hk]; try (intros; reflexivity).
        * intros He _. exfalso. destruct (C k); lia.
        * intros He _. exfalso. destruct (C j); lia.
        * apply D1.
      + intros r j Hr. unfold upd. destruct (Nat.eqb_spec j i); [destruct (B r Hr); lia|apply D2; exact Hr].
      + exact D3.
      + intro m. destruct (F m) as [Hm|[i0 [Ht [Hb|Hrr]]]]; [left; exact Hm| |].
        * destruct (Nat.eq_dec i0 i) as [->|Hne]; [left; rewrite <- Hb; exact Eb|].
          right. exists i0. split; [exact Ht|]. left. rewrite upd_other by exact Hne. exact Hb.
        * right. exists i0. split; [exact Ht|]. right. exact Hrr.
    - constructor; cbn [bs_edges bs_block bs_num bs_blocks bs_mblock]; try assumption.
      + intro j. unfold upd. destruct (Nat.eqb_spec j i) as [->|Hne]; [cbn [fst snd]; split; assumption|apply A].
      + intro j. unfold upd. destruct (Nat.eqb_spec j i) as [->|Hne]; [intros _ _; exact Eb|apply E]. Qed.

  Lemma inv_muts right : forall q s, Inv s -> Inv (bs_muts unphased nind mpos mnode right q s).
  Proof. induction q as [|m q IH]; intros s H; cbn [bs_muts].
    - destruct H as [A E C N B D1 D2 D3 F]. constructor; assumption.
    - destruct (mpos m <? right).
      + apply IH. destruct (trk (mnode m)) as [i|] eqn:Et; [|exact H].
        destruct H as [A E C N B D1 D2 D3 F].
        constructor; cbn [bs_edges bs_block bs_num bs_blocks bs_mblock]; try assumption.
        intro m'. unfold upd. destruct (Nat.eqb_spec m' m) as [->|Hne]; [|apply F].
        destruct (Z.eq_dec (bs_block s i) (-1)) as [Eb|Eb]; [left; exact Eb|right].
        exists i. split; [exact Et|left; reflexivity].
      + destruct H as [A E C N B D1 D2 D3 F]. constructor; assumption. Qed.

  (** the invariant holds of whatever the sweep returns *)
  Lemma sweep_inv L M insq remq s :
    bs_sweep es unphased nind mpos mnode L M insq remq = Some s -> Inv s.
  Proof. unfold bs_sweep. intro H.
    apply (loop_preserves bs_state _ _ L (bs_rmv es unphased nind) (bs_ins es unphased nind)
             (bs_after unphased nind mpos mnode) (fun s => negb (bs_err s =? 0)) (@cond_std) Inv) with (5 := H).
    - intros x e s0. apply inv_rmv.
    - intros x e s0. apply inv_ins.
    - intros l r s0 H0. unfold bs_after. apply inv_muts. exact H0.
    - apply inv_init. Qed.

  Theorem block_edges_individual L M insq remq stats bedges mblock :
    block_singletons es unphased nind mpos mnode L M insq remq = inr (stats, bedges, mblock) ->
    forall m b, (m < M)%nat -> nth m mblock (-1) = b -> b <> -1 ->
      exists e0 e1, nth (Z.to_nat b) bedges (-1, -1) = (e0, e1) /\ 0 <= e0 /\ 0 <= e1 /\
        nind (echild (edge_at es (Z.to_nat e0))) = nind (mnode m) /\
        nind (echild (edge_at es (Z.to_nat e1))) = nind (mnode m) /\
        nind (mnode m) <> -1 /\ unphased (Z.to_nat (nind (mnode m))) = true.
  Proof. unfold block_singletons. destruct (bs_sweep es unphased nind mpos mnode L M insq remq) as [s|] eqn:Es; [|discriminate].
    destruct (negb (bs_err s =? 0)); [discriminate|].
    destruct (negb (bs_num s =? Z.of_nat (length (bs_blocks s)))) eqn:En; [discriminate|].
    apply negb_false_iff, Z.eqb_eq in En. intro H. injection H as <- <- <-.
    intros m b Hm Hb Hne.
    destruct (sweep_inv L M insq remq s Es) as [A E C N B D1 D2 D3 F].
    assert (Hbm : bs_mblock s m = b).
    { rewrite <- Hb. unfold to_list. rewrite (nth_indep _ (-1) (bs_mblock s O)) by (rewrite map_length, seq_length; exact Hm).
      rewrite map_nth, seq_nth by exact Hm. reflexivity. }
    set (n := length (bs_blocks s)) in *.
    assert (Hrows : map b_order (sort_blocks (bs_blocks s)) = map Z.of_nat (seq 0 n)).
    { apply sorted_ids_rows; [exact D3| |reflexivity]. intros r Hr. destruct (B r Hr) as [Ho _]. lia. }
    assert (Hperm := sort_blocks_perm (bs_blocks s)).
    destruct (F m) as [Hm1|[i [Ht Hcase]]]; [congruence|].
    (* the block id of [m] is in range, hence (all ids below [num_blocks] being flushed) flushed *)
    assert (Hflushed : exists r, In r (bs_blocks s) /\ b_order r = b /\ rec_of i r).
    { destruct Hcase as [Hopen|[r [Hr [Hor Hri]]]]; [|exists r; rewrite <- Hbm; tauto].
      exfalso. rewrite Hbm in Hopen. destruct (C i) as [Hc|Hc]; [congruence|].
      assert (Hin : In b (map b_order (sort_blocks (bs_blocks s)))).
      { rewrite Hrows. apply in_map_iff. exists (Z.to_nat b). split; [lia|]. apply in_seq. lia. }
      apply in_map_iff in Hin. destruct Hin as [r [Hor Hr]].
      apply (Permutation_in _ Hperm) in Hr. apply (D2 r i Hr). congruence. }
    destruct Hflushed as [r [Hr [Hor [[H0a H0b] [H1a H1b]]]]].
    destruct (B r Hr) as [Horange _].
    (* row [b] of the sorted list is that record *)
    assert (Hlen : length (sort_blocks (bs_blocks s)) = n) by (apply Permutation_length; exact Hperm).
    assert (Hbn : (Z.to_nat b < n)%nat) by lia.
    set (r' := nth (Z.to_nat b) (sort_blocks (bs_blocks s)) r).
    assert (Hr'in : In r' (bs_blocks s)).
    { apply (Permutation_in _ Hperm). apply nth_In. rewrite Hlen. exact Hbn. }
    assert (Hr'o : b_order r' = b).
    { assert (E1 : nth (Z.to_nat b) (map b_order (sort_blocks (bs_blocks s))) (b_order r) = b_order r')
        by (unfold r'; apply map_nth).
      rewrite Hrows in E1. rewrite (nth_indep _ (b_order r) (Z.of_nat O)) in E1 by (rewrite map_length, seq_length; exact Hbn).
      rewrite map_nth, seq_nth in E1 by exact Hbn. cbn [plus] in E1. lia. }
    assert (Hsame : r' = r) by (apply (nodup_map_inj b_order (bs_blocks s)); [exact D3|exact Hr'in|exact Hr|congruence]).
    exists (b_e0 r), (b_e1 r). split.
    - assert (E2 : nth (Z.to_nat b) (map (fun b0 => (b_e0 b0, b_e1 b0)) (sort_blocks (bs_blocks s))) (b_e0 r, b_e1 r)
                   = (b_e0 r', b_e1 r'))
        by (unfold r'; exact (map_nth (fun b0 => (b_e0 b0, b_e1 b0)) (sort_blocks (bs_blocks s)) r (Z.to_nat b))).
      rewrite (nth_indep _ (-1, -1) (b_e0 r, b_e1 r)) by (rewrite map_length, Hlen; exact Hbn).
      rewrite E2, Hsame. reflexivity.
    - destruct (tracked_some _ _ Ht) as [Hn1 [Hn2 Hn3]].
      destruct (tracked_some _ _ H0b) as [Hc0 _]. destruct (tracked_some _ _ H1b) as [Hc1 _].
      unfold chi in *. repeat split; try assumption; congruence. Qed.
End BlockInv.

Lemma block_edges_individual_stmt : forall es unphased nind mpos mnode L M insq remq stats bedges mblock,
  (forall c, -1 <= nind c) ->
  block_singletons es unphased nind mpos mnode L M insq remq = inr (stats, bedges, mblock) ->
  forall m b, (m < M)%nat -> nth m mblock (-1) = b -> b <> -1 ->
    exists e0 e1, nth (Z.to_nat b) bedges (-1, -1) = (e0, e1) /\ 0 <= e0 /\ 0 <= e1 /\
      nind (echild (edge_at es (Z.to_nat e0))) = nind (mnode m) /\
      nind (echild (edge_at es (Z.to_nat e1))) = nind (mnode m) /\
      nind (mnode m) <> -1 /\ unphased (Z.to_nat (nind (mnode m))) = true.
Proof. intros es unphased nind mpos mnode L M insq remq stats bedges mblock H.
  exact (block_edges_individual es unphased nind mpos mnode H L M insq remq stats bedges mblock). Qed.

(** non-vacuity for C22: two diploid individuals (nodes 0,1 and 2,3); the second's leaf branches
    change at position 6 *)
Definition ex22_edges : list edge :=
  [mkEdge 0 10 4 0; mkEdge 0 10 4 1; mkEdge 0 6 4 2; mkEdge 0 6 4 3; mkEdge 6 10 5 2; mkEdge 6 10 5 3].
Definition ex22_ins : list nat := [0; 1; 2; 3; 4; 5]%nat.
Definition ex22_rem : list nat := [2; 3; 0; 1; 4; 5]%nat.
Definition ex22_nind : list Z := [0; 0; 1; 1; -1; -1].
Definition ex22_muts : list (Z * nat) := [(2, 3%nat); (7, 2%nat); (8, 4%nat)].

Lemma C22_example :
  valid_tablesb 10 ex22_edges ex22_ins ex22_rem = true /\
  block_singletons_list ex22_edges [true; true] ex22_nind ex22_muts 10 ex22_ins ex22_rem
    = inr ([(0, Some 10); (1, Some 6); (1, Some 4)], [(0, 1); (2, 3); (4, 5)], [1; 2; -1]) /\
  map (switch_node ex22_edges [(0, 1); (2, 3); (4, 5)] (of_list (-1) [1; 2; -1]) (of_list false [false; true; false])
                   (fun m => snd (nth m ex22_muts (0, O)))) [0; 1; 2]%nat = [2; 3; 4]%nat.
Proof. vm_compute. repeat split. Qed.
