(** * The frame of [get_modified] (model/Glue.v, Section Modified): what dating leaves alone. *)
From Coq Require Import String List Bool Arith ZArith Lia Permutation Sorted.
From TsdateV Require Import lib.Num model.Glue proofs.GlueMeta.
Import ListNotations.

(** ** the stable insertion sort *)
Section SortFacts.
  Variable A : Type.
  Variable le : A -> A -> bool.

  Lemma insert_perm x l : Permutation (insert A le x l) (x :: l).
  Proof.
    induction l as [|y l IH]; simpl; [reflexivity|].
    destruct (le x y); [reflexivity|].
    etransitivity; [apply perm_skip, IH | apply perm_swap].
  Qed.

  Lemma isort_perm l : Permutation (isort A le l) l.
  Proof.
    induction l as [|x l IH]; simpl; [reflexivity|].
    etransitivity; [apply insert_perm | apply perm_skip, IH].
  Qed.

  (** rows that are already in key order keep their positions *)
  Lemma isort_sorted_id l : Sorted (fun a b => le a b = true) l -> isort A le l = l.
  Proof.
    induction 1 as [|x l HS IH HR]; simpl; [reflexivity|].
    rewrite IH. destruct HR as [|y l' Hxy]; simpl; [reflexivity|]. now rewrite Hxy.
  Qed.
End SortFacts.

Section Map3.
  Context {A B C D : Type}.
  Lemma map3_length (f : A -> B -> C -> D) : forall a b c,
    length b = length a -> length c = length a -> length (map3 f a b c) = length a.
  Proof.
    induction a as [|x a IH]; intros [|y b] [|z c] L1 L2; simpl in *; try lia.
    f_equal. apply IH; lia.
  Qed.
  Lemma map3_proj {E} (p : D -> E) (q : A -> E) (f : A -> B -> C -> D) :
    (forall x y z, p (f x y z) = q x) ->
    forall a b c, length b = length a -> length c = length a -> map p (map3 f a b c) = map q a.
  Proof.
    intros H. induction a as [|x a IH]; intros [|y b] [|z c] L1 L2; simpl in *; try lia; try reflexivity.
    rewrite H. f_equal. apply IH; lia.
  Qed.
  Lemma map3_proj2 {E} (p : D -> E) (q : A -> B -> E) (f : A -> B -> C -> D) :
    (forall x y z, p (f x y z) = q x y) ->
    forall a b c, length b = length a -> length c = length a ->
      map p (map3 f a b c) = map (fun xy => q (fst xy) (snd xy)) (combine a b).
  Proof.
    intros H. induction a as [|x a IH]; intros [|y b] [|z c] L1 L2; simpl in *; try lia; try reflexivity.
    rewrite H. f_equal. apply IH; lia.
  Qed.
End Map3.

(** [set_time_metadata] never changes the number of rows *)
Section MetaLength.
  Variable T other schema byte : Type.
  Variable decode : schema -> bytes byte -> dec T other.
  Variable encode : schema -> row T other -> @enc byte.

  Lemma set_meta_rows_length sm (t : @mtable schema byte) mean var d t' log :
    set_time_metadata T other schema byte decode encode sm t mean var d = Done t' log ->
    length (mrows t') = length (mrows t).
  Proof.
    unfold set_time_metadata.
    destruct var as [var|]; [|destruct sm as [[|]|]; intros H; inversion H; reflexivity].
    assert (X : (if negb (Nat.eqb (length mean) (length var) && Nat.eqb (length var) (length (mrows t)))
        then Raised ExAssert else
          match time_md_array T other schema byte decode encode t mean var with
          | MdOk bs => Done (mkMT (mschema t) bs) []
          | MdCrash e => Raised e
          | MdErr =>
              let guarded := has_bytes schema byte t || match mschema t with Some _ => true | None => false end in
              if guarded && negb (is_true sm) then Done t [Warn]
              else
                let t1 := if guarded then drop_metadata schema byte t else t in
                let log1 := if guarded then [InfoClear] else [] in
                let t2 := mkMT (Some d) (mrows t1) in
                match time_md_array T other schema byte decode encode t2 mean var with
                | MdOk bs => Done (mkMT (Some d) bs) (log1 ++ [InfoSetSchema])
                | MdErr => Raised ExEncodeDefault
                | MdCrash ExEncode => Raised ExEncodeDefault
                | MdCrash e => Raised e
                end
          end) = Done t' log -> length (mrows t') = length (mrows t)).
    { destruct (negb _) eqn:LL; [discriminate|].
      apply negb_false_iff, andb_true_iff in LL. destruct LL as [L1 L2].
      apply Nat.eqb_eq in L1, L2.
      destruct (time_md_array T other schema byte decode encode t mean var) as [bs| |e] eqn:R; [| |discriminate].
      - intros H; inversion H; subst; simpl.
        unfold time_md_array in R. destruct (mschema t) as [s|]; [|discriminate].
        exact (proj1 (loop_ok_enc T other schema byte decode encode _ _ _ _ _ _ R L1 L2)).
      - cbv zeta.
        set (g := has_bytes schema byte t || match mschema t with Some _ => true | None => false end).
        destruct (g && negb (is_true sm)); [intros H; inversion H; reflexivity|].
        set (t1 := if g then drop_metadata schema byte t else t).
        assert (LR : length var = length (mrows t1)).
        { unfold t1. destruct g; [unfold drop_metadata; simpl; now rewrite map_length | exact L2]. }
        destruct (time_md_array T other schema byte decode encode (mkMT (Some d) (mrows t1)) mean var)
          as [bs| |e] eqn:R2; [| discriminate | destruct e; discriminate].
        intros H; inversion H; subst; simpl.
        unfold time_md_array in R2; simpl in R2.
        rewrite (proj1 (loop_ok_enc T other schema byte decode encode _ _ _ _ _ _ R2 L1 LR)). congruence. }
    destruct sm as [[|]|]; [exact X | intros H; inversion H; reflexivity | exact X].
  Qed.
End MetaLength.

Section Frame.
  Variable N : Num.
  Notation T := (Num.T N).
  Variable other schema byte : Type.
  Variable decode : schema -> bytes byte -> dec T other.
  Variable encode : schema -> row T other -> @enc byte.
  Variable dns dms : schema.
  Variable state site indiv pop rest tunits pv : Type.
  Variable pv_string : string -> pv.
  Variable record : Type.
  Variable dump : list (string * pv) -> option record.
  Variable constrain_ages : list (nat * nat) -> list bool -> list T -> option (list T).
  Variable finish_mutations : list T -> list (edge_row N byte) -> list (mut_row N byte state) -> list (mut_row N byte state).
  Variable valid : @tables N schema byte state site indiv pop rest tunits record -> bool.

  Notation tables := (@tables N schema byte state site indiv pop rest tunits record).
  Notation get_mod := (get_modified N other schema byte decode encode dns dms state site indiv pop rest tunits
                         pv pv_string record dump constrain_ages finish_mutations valid).

  (** what dating must not touch in a node row: flags, population, individual *)
  Definition node_static (r : node_row N byte) : Z * Z * Z := (n_flags r, n_pop r, n_ind r).
  (** identity of a mutation: site, node, derived state *)
  Definition mut_ident (m : mut_row N byte state) : nat * nat * state := (m_site m, m_node m, m_state m).
  (** what tskit's [compute_mutation_parents / compute_mutation_times] must not touch *)
  Definition mut_core (m : mut_row N byte state) : nat * nat * state * bytes byte :=
    (m_site m, m_node m, m_state m, m_md m).

  (** contract of the external pieces *)
  Definition constrain_keeps_length : Prop :=
    forall es fx t t', constrain_ages es fx t = Some t' -> length t' = length t.
  Definition finish_only_times_and_parents : Prop :=
    forall t es ms, Permutation (map mut_core (finish_mutations t es ms)) (map mut_core ms).

  Lemma core_ident_perm (a b : list (mut_row N byte state)) :
    Permutation (map mut_core a) (map mut_core b) -> Permutation (map mut_ident a) (map mut_ident b).
  Proof.
    intros H.
    assert (E : forall l, map mut_ident l = map (fun x : nat * nat * state * bytes byte => fst x) (map mut_core l)).
    { intros l. rewrite map_map. apply map_ext. intros m. reflexivity. }
    rewrite !E. now apply Permutation_map.
  Qed.

  Theorem frame (c : config tunits pv) (tb : tables) (res : result N) out log :
    constrain_keeps_length -> finish_only_times_and_parents ->
    length (r_mean res) = length (nodes tb) -> length (r_mut_node res) = length (muts tb) ->
    get_mod c tb res = Modified out log ->
    seq_len out = seq_len tb /\ sites out = sites tb /\ individuals out = individuals tb /\
    populations out = populations tb /\ others out = others tb /\
    time_units out = c_time_units c /\
    map node_static (nodes out) = map node_static (nodes tb) /\
    Permutation (edges out) (edges tb) /\
    migs out = migs tb /\
    Permutation (map mut_ident (muts out))
                (map (fun ru => (m_site (fst ru), snd ru, m_state (fst ru))) (combine (muts tb) (r_mut_node res))) /\
    (provs out = provs tb \/ exists r, provs out = (provs tb ++ [r])%list).
  Proof.
    intros HC HF Ln Lm H. unfold get_modified in H.
    destruct (set_time_metadata T other schema byte decode encode (c_set_metadata c)
                (mkMT (node_schema tb) (map n_md (nodes tb))) (r_mean res) (r_var res) dns) as [nmt log1|] eqn:E1;
      [|discriminate].
    destruct (set_time_metadata T other schema byte decode encode (c_set_metadata c)
                (mkMT (mut_schema tb) (map m_md (muts tb))) (opt_list (r_mut_mean res)) (r_mut_var res) dms)
      as [mmt log2|] eqn:E2; [|discriminate].
    destruct (constrain_ages _ _ (r_mean res)) as [t'|] eqn:E3; [|discriminate].
    match type of H with context [match ?p with Some _ => _ | None => Failed FailProvenance end] =>
      destruct p as [provs'|] eqn:E4; [|discriminate] end.
    match type of H with (if valid ?o then _ else _) = _ => destruct (valid o); [|discriminate] end.
    inversion H; subst out log; clear H. simpl.
    pose proof (set_meta_rows_length _ _ _ _ _ _ _ _ _ _ _ _ _ E1) as LN. simpl in LN. rewrite map_length in LN.
    pose proof (set_meta_rows_length _ _ _ _ _ _ _ _ _ _ _ _ _ E2) as LM. simpl in LM. rewrite map_length in LM.
    pose proof (HC _ _ _ _ E3) as LT.
    repeat split; try reflexivity.
    - apply (map3_proj node_static node_static); [reflexivity | lia | lia].
    - apply isort_perm.
    - etransitivity; [apply core_ident_perm, HF|].
      etransitivity; [apply Permutation_map, isort_perm|].
      rewrite (map3_proj2 mut_ident (fun r u => (m_site r, u, m_state r))); [reflexivity | reflexivity | lia | lia].
    - destruct (c_prov_params c) as [p|].
      + unfold record_provenance in E4. destruct (dump _) as [r|]; [|discriminate].
        inversion E4. right. eauto.
      + inversion E4. now left.
  Qed.

  (** when the result keeps every mutation on its node (singletons phased; the discrete
      methods), the mutations of the output are exactly the input's mutations, up to row order *)
  Corollary frame_nodes_kept (c : config tunits pv) (tb : tables) (res : result N) out log :
    constrain_keeps_length -> finish_only_times_and_parents ->
    length (r_mean res) = length (nodes tb) ->
    r_mut_node res = map m_node (muts tb) ->
    get_mod c tb res = Modified out log ->
    Permutation (map mut_ident (muts out)) (map mut_ident (muts tb)).
  Proof.
    intros HC HF Ln Hn H.
    assert (Lm : length (r_mut_node res) = length (muts tb)) by (rewrite Hn; apply map_length).
    destruct (frame c tb res out log HC HF Ln Lm H) as (_ & _ & _ & _ & _ & _ & _ & _ & _ & P & _).
    etransitivity; [exact P|]. rewrite Hn.
    assert (E : forall l : list (mut_row N byte state),
               map (fun ru => (m_site (fst ru), snd ru, m_state (fst ru))) (combine l (map m_node l)) = map mut_ident l).
    { induction l as [|m l IH]; simpl; [reflexivity|]. now rewrite IH. }
    rewrite E. reflexivity.
  Qed.
End Frame.

(** ** Witnesses on the harness instance (doubles; tskit's part = identity, so these show what
    [tables.sort()] alone does at core.py:241) *)
From Coq Require Import PrimFloat.
From TsdateV Require Import model.Constrain.

(** two nodes: sample 0 (time 0), sample 1 (time 0), root 2; one site with two mutations, on
    node 0 (row 0, state 7) and node 2 (row 1, state 8): the root's mutation is sorted first *)
Definition k9_tables : ztables :=
  zTables 10%float 1%Z
    [zNode 1%Z 0%float (-1)%Z (-1)%Z []; zNode 1%Z 0%float (-1)%Z (-1)%Z []; zNode 0%Z 1%float (-1)%Z (-1)%Z []]
    None
    [zEdge 0%float 10%float 2 0 [0%Z]; zEdge 0%float 10%float 2 1 [1%Z]]
    [0%Z]
    [zMut 0 0 (Some 0.5%float) 7%Z None []; zMut 0 2 (Some 1%float) 8%Z None []]
    None
    [zMig 0%float 10%float 0 0%Z 1%Z 0.5%float [0%Z]; zMig 0%float 10%float 1 0%Z 0%Z 0.5%float [1%Z]]
    tt tt [] tt.
Definition k9_result : @result FNum := zResult [0%float; 0%float; 2%float] None None None [0; 2].
Definition k9_config : @config Z Z := zConfig 1%Z (Some false) "maximization" None.

Definition k9_out :=
  get_modified FNum Z Z Z (tab_decode []) (tab_encode []) 0%Z 10%Z Z Z unit unit unit Z Z zstr
    (list (string * Z)) zdump (fun es fx t => constrain_list FNum 1e-8%float fx 0 es t)
    (fun _ _ m => m) (fun _ => true) k9_config k9_tables k9_result.

(** input rows: mutation (node 0, state 7) then (node 2, state 8); output rows: the other order.
    The two equal-time migrations (tagged 0, 1; tskit's own order would be 1, 0) come back as given. *)
Lemma k9_witness :
  map (fun m : mut_row FNum Z Z => (m_node m, m_state m)) (muts k9_tables) = [(0, 7%Z); (2, 8%Z)] /\
  match k9_out with
  | Modified out _ =>
      map (fun m : mut_row FNum Z Z => (m_node m, m_state m)) (muts out) = [(2, 8%Z); (0, 7%Z)] /\
      map g_md (migs out) = [[0%Z]; [1%Z]]
  | Failed _ => False
  end.
Proof. vm_compute. repeat split. Qed.

Lemma k9_returns : exists out log, k9_out = Modified out log.
Proof.
  pose proof k9_witness as (_ & W).
  destruct k9_out as [out log|f]; [eauto | contradiction].
Qed.
