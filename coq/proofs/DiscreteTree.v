(** * Exactness of the inside pass on a single tree (C10), linear space over the reals.

    A rooted tree is given inductively; [U t i] is the (unnormalised) inside value of the
    root of [t] at grid index [i], defined by the belief-propagation recursion.  We show
    (1) the values left by [inside_pass] are [U] divided by the product of the denominators
        of the subtree, and the returned marginal likelihood is [sum_i U t i];
    (2) [U t i] is the sum, over ALL assignments of grid indices to the internal nodes of [t]
        with the root at [i], of prior x edge-likelihood products with parents no younger than
        children (brute force). *)
From Coq Require Import List Arith Bool Lia Reals Lra Permutation.
From TsdateV Require Import lib.Num model.Discrete model.DiscreteER proofs.DiscreteBase proofs.DiscretePack
  proofs.DiscreteInside proofs.DiscreteLog.
Import ListNotations.
Open Scope R_scope.

(** ** trees *)
Inductive tree : Type :=
| Leaf (eid u : nat)                      (* a fixed node (sample) below edge [eid] *)
| Node (eid u : nat) (cs : list tree).    (* a non-fixed node below edge [eid], with children *)

Definition t_eid (t : tree) : nat := match t with Leaf e _ | Node e _ _ => e end.
Definition t_id (t : tree) : nat := match t with Leaf _ u | Node _ u _ => u end.
Definition child_edges (u : nat) (cs : list tree) : list edge := map (fun c => (t_eid c, u, t_id c)) cs.

Section TreeInd.
  Variable Q : tree -> Prop.
  Hypothesis HL : forall e u, Q (Leaf e u).
  Hypothesis HN : forall e u cs, Forall Q cs -> Q (Node e u cs).
  Fixpoint tree_ind' (t : tree) : Q t :=
    match t with
    | Leaf e u => HL e u
    | Node e u cs => HN e u cs ((fix go (l : list tree) : Forall Q l :=
                                   match l with [] => Forall_nil Q | c :: r => Forall_cons c (tree_ind' c) (go r) end) cs)
    end.
End TreeInd.

Definition prodR (l : list R) : R := fold_right Rmult 1 l.

Lemma prodR_app a b : prodR (a ++ b) = prodR a * prodR b.
Proof. induction a as [|x a IH]; cbn [app prodR fold_right]; [unfold prodR; cbn; lra|]. fold (prodR (a ++ b)). fold (prodR a). rewrite IH. lra. Qed.

Lemma prodR_pos l : (forall x, In x l -> 0 < x) -> 0 < prodR l.
Proof. induction l as [|x l IH]; intro H; unfold prodR; cbn [fold_right]; [lra|]. fold (prodR l).
  apply Rmult_lt_0_compat; [apply H; now left|apply IH; intros; apply H; now right]. Qed.

Lemma prodR_nonneg l : (forall x, In x l -> 0 <= x) -> 0 <= prodR l.
Proof. induction l as [|x l IH]; intro H; unfold prodR; cbn [fold_right]; [lra|]. fold (prodR l).
  apply Rmult_le_pos; [apply H; now left|apply IH; intros; apply H; now right]. Qed.

Lemma prodR_perm a b : Permutation a b -> prodR a = prodR b.
Proof. induction 1; unfold prodR in *; cbn [fold_right]; try lra. congruence. Qed.

Lemma sumR_nonneg l : (forall x, In x l -> 0 <= x) -> 0 <= sumR l.
Proof. induction l as [|x l IH]; intro H; unfold sumR; cbn [fold_right]; [lra|]. fold (sumR l).
  assert (0 <= x) by (apply H; now left). assert (0 <= sumR l) by (apply IH; intros; apply H; now right). lra. Qed.

Lemma sumR_map_scale {A} (f : A -> R) k l : sumR (map (fun x => f x * k) l) = sumR (map f l) * k.
Proof. induction l as [|x l IH]; unfold sumR in *; cbn [map fold_right]; [lra|]. rewrite IH. lra. Qed.

Lemma sumR_map_ext {A} (f g : A -> R) l : (forall x, In x l -> f x = g x) -> sumR (map f l) = sumR (map g l).
Proof. intro H. f_equal. now apply map_ext_in. Qed.

Lemma Rpowf_1 x : 0 <= x -> Rpowf x 1 = x.
Proof. intro H. unfold Rpowf. destruct (Req_EM_T x 0) as [->|Hn]; [reflexivity|]. apply Rpower_1. lra. Qed.

Section TreeR.
  Variable G : nat.
  Variable lik : nat -> nat -> nat -> R.
  Variable sfrac : nat -> R.
  Variable fixed : nat -> bool.
  Variable priorv : nat -> list R.

  Hypothesis lik_nonneg : forall e i j, 0 <= lik e i j.
  Hypothesis prior_nonneg : forall u x, In x (priorv u) -> 0 <= x.
  Hypothesis sfrac_one : forall e, sfrac e = 1.

  Definition pr (u i : nat) : R := nth i (priorv u) 0.

  Lemma pr_nonneg u i : 0 <= pr u i.
  Proof. unfold pr. destruct (Nat.lt_ge_cases i (length (priorv u))) as [H|H].
    - apply (prior_nonneg u). now apply nth_In.
    - rewrite nth_overflow by exact H. lra. Qed.

  (** the message of child [c] to its parent at index [i], given the child's own values *)
  Definition msgR (c : tree) (Uc : nat -> R) (i : nat) : R :=
    match c with
    | Leaf e _ => lik e i 0
    | Node e _ _ => sumR (map (fun j => Uc j * lik e i j) (seq 0 (i + 1)))
    end.

  (** unnormalised inside value of the root of [t] at index [i] *)
  Fixpoint U (t : tree) (i : nat) : R :=
    match t with
    | Leaf _ _ => 1
    | Node _ u cs => pr u i * prodR (map (fun c => msgR c (U c) i) cs)
    end.
  Definition M (c : tree) (i : nat) : R := msgR c (U c) i.

  Lemma U_nonneg : forall t i, 0 <= U t i.
  Proof. induction t as [e u|e u cs IH] using tree_ind'; intro i; cbn [U]; [lra|].
    apply Rmult_le_pos; [apply pr_nonneg|]. apply prodR_nonneg. intros x Hx. apply in_map_iff in Hx.
    destruct Hx as (c & <- & Hc). rewrite Forall_forall in IH. destruct c as [e' u'|e' u' cs']; cbn [msgR]; [apply lik_nonneg|].
    apply sumR_nonneg. intros y Hy. apply in_map_iff in Hy. destruct Hy as (j & <- & _).
    apply Rmult_le_pos; [apply (IH _ Hc)|apply lik_nonneg]. Qed.

  Lemma M_nonneg c i : 0 <= M c i.
  Proof. unfold M. destruct c as [e' u'|e' u' cs']; cbn [msgR]; [apply lik_nonneg|].
    apply sumR_nonneg. intros y Hy. apply in_map_iff in Hy. destruct Hy as (j & <- & _).
    apply Rmult_le_pos; [apply U_nonneg|apply lik_nonneg]. Qed.

  (** ** the values left by the pass *)
  Variable gs : list (nat * list edge).
  Variable ins : nat -> option (list R).
  Variable den : nat -> option R.
  Hypothesis eqs : forall g, In g gs -> group_eq LinR G lik sfrac fixed priorv true ins den g.

  (** every internal node of the tree is a non-fixed node whose group (its child edges, in
      this order) is one of the groups; leaves are fixed nodes; priors have G entries *)
  Fixpoint tree_ok (t : tree) : Prop :=
    match t with
    | Leaf _ u => fixed u = true
    | Node _ u cs => fixed u = false /\ In (u, child_edges u cs) gs /\ length (priorv u) = G /\
                     (fix all (l : list tree) : Prop := match l with [] => True | c :: r => tree_ok c /\ all r end) cs
    end.

  (** every internal node has a grid index at which its inside value is positive
      (otherwise the code divides 0 by 0) *)
  Fixpoint all_pos (t : tree) : Prop :=
    match t with
    | Leaf _ _ => True
    | Node _ _ cs => (exists i, (i < G)%nat /\ 0 < U t i) /\
                     (fix all (l : list tree) : Prop := match l with [] => True | c :: r => all_pos c /\ all r end) cs
    end.

  Definition denf (u : nat) : R := match den u with Some d => d | None => 1 end.
  (** product of the denominators of the internal nodes of [t] *)
  Fixpoint Kof (t : tree) : R :=
    match t with
    | Leaf _ _ => 1
    | Node _ u cs => denf u * prodR (map Kof cs)
    end.

  (** what the pass leaves at the root of [t] *)
  Definition inside_at (t : tree) : Prop :=
    match t with
    | Leaf _ _ => True
    | Node _ u _ => 0 < Kof t /\ ins u = Some (map (fun i => U t i / Kof t) (seq 0 G))
    end.

  Lemma vcomb_maps (f g : nat -> R) l : vcomb LinR (map f l) (map g l) = map (fun i => f i * g i) l.
  Proof. unfold vcomb. rewrite combine_map_map, map_map. reflexivity. Qed.

  Lemma all_forall (Q : tree -> Prop) cs :
    (fix all (l : list tree) : Prop := match l with [] => True | c :: r => Q c /\ all r end) cs <-> Forall Q cs.
  Proof. induction cs as [|c r IH]; split; intro H.
    - constructor. - exact I.
    - destruct H as (Hc & Hr). constructor; [exact Hc|now apply IH].
    - inversion H; subst. split; [assumption|now apply IH]. Qed.

  (** the message computed by the model for the edge above child [c] *)
  Lemma edge_msg_child u c : tree_ok c -> inside_at c ->
    edge_msg LinR G lik sfrac fixed ins (t_eid c, u, t_id c)
    = Some (map (fun i => M c i / Kof c) (seq 0 G)).
  Proof. intros Hok Hin. unfold edge_msg. cbn [e_child e_id fst snd]. destruct c as [e' u'|e' u' cs'].
    - cbn [tree_ok t_id t_eid] in *. rewrite Hok. f_equal. unfold get_fixed, liks, ll_fixed. rewrite !map_map.
      apply map_ext. intro i. cbn [s_geom s_comb s_id LinR LinSpace one mul RNum Kof M msgR].
      rewrite sfrac_one, Rpowf_1 by lra. lra.
    - cbn [tree_ok t_id t_eid] in *. destruct Hok as (Hfx & _). rewrite Hfx. destruct Hin as (HK & Hins).
      rewrite Hins. f_equal. rewrite (get_inside_spec LinR G lik (s_geom LinR (sfrac e'))).
      apply map_ext_in. intros i Hi. apply in_seq in Hi.
      cbn [s_rsum LinR LinSpace]. rewrite lin_rsum_sumR. unfold M. cbn [msgR].
      unfold Rdiv. rewrite <- sumR_map_scale with (k := / Kof (Node e' u' cs')).
      apply sumR_map_ext. intros j Hj. apply in_seq in Hj.
      cbn [s_geom s_comb s_id s_null LinR LinSpace one mul zero RNum].
      rewrite (nth_map_seq (fun i0 => U (Node e' u' cs') i0 * / Kof (Node e' u' cs'))) by lia. cbn [Nat.add].
      rewrite sfrac_one, Rpowf_1.
      + lra.
      + apply Rmult_le_pos; [apply U_nonneg|]. left. now apply Rinv_0_lt_compat. Qed.

  Lemma fold_msgs_children u : forall cs (v : nat -> R),
    Forall tree_ok cs -> Forall inside_at cs ->
    fold_msgs LinR G lik sfrac fixed ins (map v (seq 0 G)) (child_edges u cs)
    = Some (map (fun i => v i * prodR (map (fun c => M c i / Kof c) cs)) (seq 0 G)).
  Proof. induction cs as [|c r IH]; intros v Hok Hin; cbn [child_edges map fold_msgs].
    - f_equal. apply map_ext. intro i. unfold prodR. cbn. lra.
    - inversion Hok; subst. inversion Hin; subst. rewrite (edge_msg_child u c) by assumption.
      rewrite vcomb_maps. fold (child_edges u r). rewrite IH by assumption. f_equal. apply map_ext. intro i.
      unfold prodR. cbn [fold_right]. lra. Qed.

  Lemma prodR_div (f k : tree -> R) cs : (forall c, In c cs -> k c <> 0) ->
    prodR (map (fun c => f c / k c) cs) = prodR (map f cs) / prodR (map k cs).
  Proof. induction cs as [|c r IH]; intro H; unfold prodR in *; cbn [map fold_right]; [field|].
    rewrite IH by (intros; apply H; now right). field. split.
    - clear IH. induction r as [|c' r' IHr]; cbn [map fold_right]; [lra|].
      apply Rmult_integral_contrapositive. split; [apply H; right; now left|apply IHr; intros x [->|Hx]; apply H; [now left|right; now right]].
    - apply H. now left. Qed.

  Lemma Kof_pos_children cs : Forall inside_at cs -> Forall tree_ok cs -> forall c, In c cs -> 0 < Kof c.
  Proof. intros Hin Hok c Hc. rewrite Forall_forall in Hin. specialize (Hin c Hc).
    destruct c; cbn [inside_at Kof] in *; [lra|apply Hin]. Qed.

  Theorem inside_tree : forall t, tree_ok t -> all_pos t -> inside_at t.
  Proof. induction t as [e u|e u cs IH] using tree_ind'; intros Hok Hpos; [exact I|].
    cbn [tree_ok] in Hok. destruct Hok as (Hfx & Hg & Hlen & Hoks). apply all_forall in Hoks.
    cbn [all_pos] in Hpos. destruct Hpos as ((i0 & Hi0 & HU0) & Hposs). apply all_forall in Hposs.
    assert (Hin : Forall inside_at cs).
    { rewrite Forall_forall in *. intros c Hc. apply IH; auto. }
    destruct (eqs _ Hg Hfx) as (val & Hval & Hins & Hden). cbn [fst snd] in *.
    assert (Hpv : priorv u = map (pr u) (seq 0 G)).
    { apply (nth_ext _ _ 0 0); [now rewrite map_length, seq_length|]. intros n Hn.
      rewrite nth_map_seq by lia. reflexivity. }
    rewrite Hpv, (fold_msgs_children u cs (pr u) Hoks Hin) in Hval. inversion Hval as [Hv]; clear Hval.
    set (Kc := prodR (map Kof cs)).
    assert (HKc : 0 < Kc).
    { apply prodR_pos. intros x Hx. apply in_map_iff in Hx. destruct Hx as (c & <- & Hc).
      now apply (Kof_pos_children cs Hin Hoks). }
    assert (Hvi : forall i, pr u i * prodR (map (fun c => M c i / Kof c) cs) = U (Node e u cs) i / Kc).
    { intro i. rewrite prodR_div.
      - cbn [U]. unfold M, Kc. field. fold Kc. lra.
      - intros c Hc. pose proof (Kof_pos_children cs Hin Hoks c Hc). lra. }
    assert (Hval' : val = map (fun i => U (Node e u cs) i / Kc) (seq 0 G)).
    { rewrite <- Hv. apply map_ext. exact Hvi. }
    assert (Hmax : 0 < npmax LinR val).
    { eapply Rlt_le_trans; [|apply (npmax_ub val (U (Node e u cs) i0 / Kc))].
      - apply Rdiv_lt_0_compat; assumption.
      - rewrite Hval'. apply in_map_iff. exists i0. split; [reflexivity|apply in_seq; lia]. }
    cbn [inside_at Kof]. unfold denf. rewrite Hden. fold Kc. split; [now apply Rmult_lt_0_compat|].
    rewrite Hins. f_equal. rewrite Hval' at 1. unfold vratio. rewrite map_map. apply map_ext. intro i.
    cbn [s_ratio LinR LinSpace div RNum]. field. split; lra. Qed.

  (** ** the returned marginal likelihood *)
  Fixpoint inodes (t : tree) : list nat :=
    match t with
    | Leaf _ _ => []
    | Node _ u cs => u :: flat_map inodes cs
    end.

  Lemma Kof_inodes : forall t, Kof t = prodR (map denf (inodes t)).
  Proof. induction t as [e u|e u cs IH] using tree_ind'; cbn [Kof inodes map]; [reflexivity|].
    unfold prodR at 2. cbn [fold_right]. fold (prodR (map denf (flat_map inodes cs))). f_equal.
    induction cs as [|c r IHr]; cbn [map flat_map]; [reflexivity|]. inversion IH; subst.
    rewrite map_app, prodR_app. unfold prodR at 1. cbn [fold_right]. fold (prodR (map Kof r)).
    rewrite IHr by assumption. now rewrite H1. Qed.

  Lemma marg_acc_prod : forall (l : list (nat * list edge)),
    (forall g, In g l -> fixed (fst g) = false -> den (fst g) <> None) ->
    forall m, marg_acc LinR fixed den m l
              = m * prodR (map denf (filter (fun p => negb (fixed p)) (map fst l))).
  Proof. induction l as [|[p es] r IH]; intros Hsome m; cbn [marg_acc map filter fst].
    - unfold prodR. cbn. lra.
    - destruct (fixed p) eqn:Hfx; cbn [negb].
      + apply IH. intros g Hg. apply Hsome. now right.
      + cbn [map]. unfold prodR. cbn [fold_right]. fold (prodR (map denf (filter (fun p0 => negb (fixed p0)) (map fst r)))).
        unfold denf at 1. destruct (den p) as [d|] eqn:Hd.
        * rewrite IH by (intros g Hg; apply Hsome; now right). cbn [s_comb LinR LinSpace mul RNum]. lra.
        * exfalso. apply (Hsome (p, es)); [now left|exact Hfx|exact Hd]. Qed.
End TreeR.

(** ** [inside_pass] on a single tree: values and returned likelihood *)
Theorem inside_pass_tree : forall (G : nat) lik sfrac fixed priorv es root e cs st m,
  (forall e i j, 0 <= lik e i j) -> (forall u x, In x (priorv u) -> 0 <= x) -> (forall e, sfrac e = 1) ->
  let gs := groupby e_parent es in
  let t := Node e root cs in
  inside_order fixed [] gs ->
  inside_pass LinR G lik sfrac fixed priorv true es [(root, 1)] = Some (st, m) ->
  tree_ok G fixed priorv gs t -> all_pos G lik priorv t ->
  Permutation (inodes t) (filter (fun p => negb (fixed p)) (map fst gs)) ->
  (* the inside values of the root are U / (product of all denominators) ... *)
  0 < prodR (map (denf (i_den LinR st)) (inodes t)) /\
  i_ins LinR st root = Some (map (fun i => U lik priorv t i / prodR (map (denf (i_den LinR st)) (inodes t))) (seq 0 G)) /\
  (* ... and the returned marginal likelihood is the sum of U over the grid *)
  m = sumR (map (U lik priorv t) (seq 0 G)).
Proof. intros G lik sfrac fixed priorv es root e cs st m Hlik Hpr Hsf gs t Hord Hrun Hok Hpos Hperm.
  unfold inside_pass in Hrun. fold gs in Hrun.
  destruct (inside_groups LinR G lik sfrac fixed priorv true (istate0 LinR) gs) as [st0|] eqn:Hg; [|discriminate].
  destruct (inside_groups_spec LinR G lik sfrac fixed priorv true gs [] _ _ Hord Hg) as (_ & Heqs & Hmarg).
  pose proof (inside_tree G lik sfrac fixed priorv Hlik Hpr Hsf gs (i_ins LinR st0) (i_den LinR st0) Heqs t Hok Hpos) as Hin.
  cbn [inside_at] in Hin. destruct Hin as (HK & Hins).
  cbn [marg_roots] in Hrun. rewrite Hins in Hrun.
  assert (Est : st = st0) by congruence.
  assert (Em : m = s_comb LinR (i_marg LinR st0) (s_msum LinR (map (s_geom LinR 1)
                     (map (fun i => U lik priorv t i / Kof (i_den LinR st0) t) (seq 0 G))))) by congruence.
  clear Hrun. subst st m.
  rewrite Kof_inodes in *. split; [exact HK|]. split; [exact Hins|].
  rewrite Hmarg. cbn [i_marg istate0 s_id LinR LinSpace one RNum].
  rewrite (marg_acc_prod fixed (i_den LinR st0) gs).
  - rewrite <- (prodR_perm _ _ (Permutation_map (denf (i_den LinR st0)) Hperm)).
    cbn [s_comb s_msum LinR LinSpace mul RNum]. rewrite lin_msum_sumR, map_map.
    set (K := prodR (map (denf (i_den LinR st0)) (inodes t))) in *.
    rewrite (sumR_map_ext _ (fun i => U lik priorv t i * / K)).
    + rewrite sumR_map_scale. toR. field. lra.
    + intros i _. cbn [s_geom LinR LinSpace]. rewrite Rpowf_1; [reflexivity|].
      apply Rmult_le_pos; [now apply U_nonneg|]. left. apply Rinv_0_lt_compat. exact HK.
  - intros g Hgin Hfx. destruct (Heqs g Hgin Hfx) as (val & _ & _ & Hd). rewrite Hd. discriminate. Qed.
