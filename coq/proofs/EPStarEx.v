(** Concrete evaluations for C20: the capped star of finding K1 on exact rationals, and a
    concrete real instance of the hypotheses of the exactness theorem. *)
From Coq Require Import List QArith Bool Reals Lra Lia.
From TsdateV Require Import lib.Num model.EP model.EPConj proofs.EPInv proofs.EPStar.
Import ListNotations.

(** ** K1: star of 4 samples (nodes 0-3) under parent 4, mutation counts 30, 2, 0, 5,
    equal spans (span * rate = 1/10 each), max_shape = 20, min_step = 1/10, the edge order
    built by [__init__].  A uniform scaling of (37, 2/5) to shape 20 would be
    (19, (19/37) * (2/5)) = (19, 38/185). *)
Definition k1_ep : nat -> nat := fun _ => 4%nat.
Definition k1_ec : nat -> nat := fun e => e.
Definition k1_lo : nat -> Q := fun _ => 0%Q.
Definition k1_hi : nat -> Q := fun u => if Nat.eqb u 4 then 1%Q else 0%Q.
Definition k1_lik : nat -> V2 QNum := nthf (@vzero QNum) [(30, 1 # 10); (2, 1 # 10); (0, 1 # 10); (5, 1 # 10)]%Q.

Definition k1_run (maxshape : Q) (k : nat) :=
  iterate_n QNum (1 # 1000000) (1000000 # 1) 4 k1_ep k1_ec 0 (fun _ => 0%nat) (fun _ => 0%nat) 5 k1_lo k1_hi
    unit (conj_project QNum) [] (mk_edge_order 4 []) (fun _ => vzero) k1_lik (fun _ => false)
    maxshape (1 # 10) 10 (1 # 100000000) false k (init, tt).

Definition k1_post (maxshape : Q) (k : nat) : option (V2 QNum) :=
  match k1_run maxshape k with Some (st, _) => Some (post st 4%nat) | None => None end.

(** uncapped (max_shape = 1000): exactly (37, 2/5), after 1 and after 5 iterations *)
Lemma k1_uncapped : k1_post 1000 1 = Some (37, 2 # 5)%Q /\ k1_post 1000 5 = Some (37, 2 # 5)%Q.
Proof. split; vm_compute; reflexivity. Qed.

(** capped (max_shape = 20): the shape is exactly 19 + 1, the rate is NOT 38/185 *)
Definition k1_capped_wrong (k : nat) : bool :=
  match k1_post 20 k with
  | Some (a, b) => Qeq_bool a 19 && negb (Qeq_bool b (38 # 185))
  | None => false
  end.
Lemma k1_capped : k1_capped_wrong 1 = true /\ k1_capped_wrong 5 = true.
Proof. split; vm_compute; reflexivity. Qed.

Lemma k1_refuted : exists k a b, k1_post 20 k = Some (a, b) /\ (a == 19)%Q /\ ~ (b == (19 # 37) * (2 # 5))%Q.
Proof. exists 1%nat. destruct (k1_post 20 1) as [[a b]|] eqn:E.
  - exists a, b. split; [reflexivity|].
    assert (H : k1_capped_wrong 1 = true) by (vm_compute; reflexivity).
    unfold k1_capped_wrong in H. rewrite E in H. apply andb_true_iff in H. destruct H as [H1 H2].
    split; [apply Qeq_bool_iff; exact H1|].
    intro Q. apply negb_true_iff in H2. assert (Qeq_bool b (38 # 185) = true).
    { apply Qeq_bool_iff. rewrite Q. reflexivity. } congruence.
  - exfalso. assert (H : k1_capped_wrong 1 = true) by (vm_compute; reflexivity).
    unfold k1_capped_wrong in H. rewrite E in H. discriminate.
Qed.

(** ** a concrete real instance of the hypotheses of the exactness theorem:
    two samples (0, 1) under parent 2, counts 3 and 0, span * rate = 1/2, max_shape = 5 *)
Open Scope R_scope.
Definition r_ep : nat -> nat := fun _ => 2%nat.
Definition r_ec : nat -> nat := fun e => e.
Definition r_lo : nat -> R := fun _ => 0.
Definition r_hi : nat -> R := fun u => if Nat.eqb u 2 then 1 else 0.
Definition r_lik : nat -> V2 RNum := fun e => if Nat.eqb e 0 then (3, 1 / 2) else (0, 1 / 2).

Lemma r_star : star 2 r_ep r_ec r_lo r_hi r_lik /\ uncapped 2 r_ep r_lik 5.
Proof. split.
  - intros e He. unfold r_ep, r_ec, r_lo, r_hi, r_lik, fixedb. cbn [eqb RNum].
    assert (F : Reqb 0 1 = false).
    { unfold Reqb. destruct (Req_EM_T 0 1); [lra|reflexivity]. }
    assert (Tr : Reqb 0 0 = true) by (apply Reqb_true; reflexivity).
    destruct e as [|[|e]]; [| |lia]; cbn [Nat.eqb fst snd]; rewrite F, Tr; repeat split; lra.
  - intro u. unfold r_ep, r_lik. cbn [rsum]. change (Nat.eqb 0 0) with true. change (Nat.eqb 1 0) with false.
    cbn [fst]. change (T RNum) with R. destruct (Nat.eqb 2 u); lra.
Qed.
