(** * Assembled statements for C25 / C37 (proved here, restated in props/). *)
From Coq Require Import List Arith Lia Bool Reals Lra QArith.
From TsdateV Require Import lib.Num model.Rescale proofs.RescalePW proofs.RescaleArea
  proofs.RescalePost proofs.RescaleEx.
Import ListNotations.
Open Scope R_scope.

(** what the code's two assertions on the breaks mean *)
Lemma breaks_ok_meaning (ob rb : list R) :
  breaks_ok RNum ob rb = true <->
  (forall i, (S i < length ob)%nat -> nth i ob 0 < nth (S i) ob 0) /\
  (forall i, (S i < length rb)%nat -> nth i rb 0 < nth (S i) rb 0) /\
  length ob = length rb /\ (0 < length ob)%nat.
Proof.
  unfold breaks_ok. rewrite !andb_true_iff, !strict_inc_incr, Nat.eqb_eq, negb_true_iff, Nat.eqb_neq.
  split.
  - intros [[[Hr Ho] Hl] Hn]. change (T RNum) with R in *. split; [|split; [|split; [exact Hl|lia]]].
    + intros i Hi. apply incr_nth_lt; [exact Ho|lia].
    + intros i Hi. apply incr_nth_lt; [exact Hr|lia].
  - intros (Ho & Hr & Hl & Hn). change (T RNum) with R in *.
    split; [split; [split; apply incr_succ; assumption|exact Hl]|lia].
Qed.

Lemma piecewise_monotone (ob rb : list R) :
  breaks_ok RNum ob rb = true -> nth 0 ob 0 = 0 -> nth 0 rb 0 = 0 ->
  let f := pw RNum ob rb in
  f 0 = 0 /\
  (forall x y, 0 <= x -> x <= y -> f x <= f y) /\
  (forall x y, 0 <= x -> x < y -> y <= last_of ob -> f x < f y) /\
  (forall x, last_of ob <= x -> f x = last_of rb) /\
  (forall i, (i < length ob)%nat -> f (nth i ob 0) = nth i rb 0) /\
  (forall i x, (S i < length ob)%nat -> nth i ob 0 <= x -> x < nth (S i) ob 0 ->
     f x = nth i rb 0
           + (nth (S i) rb 0 - nth i rb 0) / (nth (S i) ob 0 - nth i ob 0) * (x - nth i ob 0)) /\
  (forall x, 0 <= x -> forall eps, 0 < eps -> exists delta, 0 < delta /\
     forall y, 0 <= y -> Rabs (y - x) < delta -> Rabs (f y - f x) < eps).
Proof.
  intros Hok Ho0 Hr0 f. unfold f.
  split; [apply pw_zero; assumption|].
  split; [intros x y; apply pw_mono; assumption|].
  split; [intros x y; apply pw_strict; assumption|].
  split; [intros x; apply pw_after_last; assumption|].
  split; [intros i; apply pw_at_break; assumption|].
  split; [intros i x; apply pw_interp; assumption|].
  intros x; apply pw_continuous; assumption.
Qed.

(** fixed entries are returned unchanged; free entries go through the map *)
Lemma fixed_untouched (xs : list R) fixed (ob rb out : list R) :
  piecewise_scale_point_estimate RNum xs fixed ob rb = Some out ->
  length out = length xs /\
  forall i, (i < length xs)%nat ->
    (nth i fixed false = true -> nth i out 0 = nth i xs 0) /\
    (nth i fixed false = false -> nth i out 0 = pw RNum ob rb (nth i xs 0)).
Proof.
  intro H. destruct (pspe_spec _ _ _ _ _ H) as (_ & L & _ & Hv). split; [exact L|].
  intros i Hi. rewrite (Hv i Hi). split; intros ->; reflexivity.
Qed.

(** the iteration of [ExpectationPropagation.rescale] / [rescale_tree_sequence]:
    fixed nodes keep their time, all free nodes go through ONE non-decreasing map fixing 0 *)
Lemma loop_monotone (liks : list (R * R)) edges fixed cpss (x x' : list R) last' :
  (forall cps, In cps cpss -> In O cps) ->
  (forall i, 0 <= nth i x 0) ->
  rescale_loop RNum liks edges fixed cpss x None = Some (x', last') ->
  length x' = length x /\
  (forall i, (i < length x)%nat -> nth i fixed false = true -> nth i x' 0 = nth i x 0) /\
  (exists g : R -> R, g 0 = 0 /\ (forall u v, 0 <= u -> u <= v -> g u <= g v) /\
     forall i, (i < length x)%nat -> nth i fixed false = false -> nth i x' 0 = g (nth i x 0)) /\
  (forall i j, (i < length x)%nat -> (j < length x)%nat ->
     nth i fixed false = false -> nth j fixed false = false ->
     nth i x 0 <= nth j x 0 -> nth i x' 0 <= nth j x' 0).
Proof.
  intros Hcp Hx H.
  destruct (rescale_loop_spec liks edges fixed cpss x None x' last' Hcp Hx I H)
    as (L & _ & _ & _ & g & Hg0 & Hgm & Hgv).
  change (T RNum) with R in *.
  split; [exact L|]. split.
  { intros i Hi Hf. rewrite (Hgv i Hi), Hf. reflexivity. }
  split.
  { exists g. split; [exact Hg0|]. split; [exact Hgm|].
    intros i Hi Hf. rewrite (Hgv i Hi), Hf. reflexivity. }
  intros i j Hi Hj Hfi Hfj Hle. rewrite (Hgv i Hi), (Hgv j Hj), Hfi, Hfj.
  apply Hgm; [apply Hx|exact Hle].
Qed.

(** end to end for [ExpectationPropagation.rescale]: the breaks recovered at
    variational.py:802-808 start at 0, so the posterior theorems apply to them *)
Section Composed.
  Variable ginv : R -> R -> R.
  Variable fit : R -> R -> R -> R -> R -> option (R * R).
  Hypothesis fit_contract : forall q1 q2 x1 x2 ms a b,
    fit q1 q2 x1 x2 ms = Some (a, b) -> -1 < a /\ a + 1 <= ms.

  Lemma rescale_composed (means : list R) fixed (liks : list (R * R)) edges cpss
      (ob rb x' : list R) (posts : list (R * R)) qw ms out :
    ep_rescale_breaks RNum means fixed liks edges cpss = Some (ob, rb, x') ->
    (forall cps, In cps cpss -> In O cps) ->
    (forall i, 0 <= nth i means 0) ->
    (2 <= length rb)%nat ->
    piecewise_scale_posterior RNum ginv fit posts fixed ob rb qw ms = Some out ->
    (forall i, (i < length posts)%nat -> nth i fixed false = true -> nth_error out i = Some None) /\
    (forall i, (i < length posts)%nat -> nth i fixed false = false ->
       exists a' b', nth_error out i = Some (Some (a', b')) /\
         (a' + 1) / b' = pw RNum ob rb ((fst (nth i posts (0, 0)) + 1) / snd (nth i posts (0, 0))) /\
         -1 < a' /\ a' + 1 <= ms /\ 0 < b') /\
    (forall i j, (i < length posts)%nat -> (j < length posts)%nat ->
       nth i fixed false = false -> nth j fixed false = false ->
       (fst (nth i posts (0, 0)) + 1) / snd (nth i posts (0, 0))
         <= (fst (nth j posts (0, 0)) + 1) / snd (nth j posts (0, 0)) ->
       exists ai bi aj bj,
         nth_error out i = Some (Some (ai, bi)) /\ nth_error out j = Some (Some (aj, bj)) /\
         (ai + 1) / bi <= (aj + 1) / bj).
  Proof.
    intros He Hcp Hm H2 Hp.
    destruct (ep_breaks_zero _ _ _ _ _ _ _ _ He Hcp Hm) as (Ho0 & Hr0 & Hl & _).
    assert (H2' : (2 <= length ob)%nat) by lia.
    split.
    { intros i Hi Hf. destruct (psp_spec _ _ _ _ _ _ _ _ _ Hp) as (_ & _ & _ & _ & Hrow).
      specialize (Hrow i Hi). rewrite Hf in Hrow. exact Hrow. }
    split.
    { intros i Hi Hf.
      destruct (psp_mean_shape ginv fit fit_contract _ _ _ _ _ _ _ Hp Ho0 Hr0 H2' i Hi Hf)
        as (a' & b' & E & _ & Em & Ha & Hs & Hb).
      exists a', b'. repeat split; assumption. }
    intros i j Hi Hj Hfi Hfj Hle.
    exact (psp_order ginv fit fit_contract _ _ _ _ _ _ _ Hp Ho0 Hr0 H2' i j Hi Hj Hfi Hfj Hle).
  Qed.
End Composed.

(** ** non-vacuity *)
Lemma ex_R_breaks :
  breaks_ok RNum [0; 1; 2] [0; 9 / 2; 6] = true /\
  pw RNum [0; 1; 2] [0; 9 / 2; 6] (3 / 2) = 21 / 4.
Proof.
  assert (Hok : breaks_ok RNum [0; 1; 2] [0; 9 / 2; 6] = true).
  { apply breaks_ok_meaning. cbn [length]. repeat split; try lia.
    - intros [|[|i]] Hi; cbn; try lra; lia.
    - intros [|[|i]] Hi; cbn; try lra; lia. }
  split; [exact Hok|].
  rewrite (pw_interp _ _ Hok eq_refl 1%nat) by (cbn; try lia; lra). cbn. lra.
Qed.

Lemma C25_example :
  (breaks_ok RNum [0; 1; 2] [0; 9 / 2; 6] = true /\
   pw RNum [0; 1; 2] [0; 9 / 2; 6] (3 / 2) = 21 / 4) /\
  mutational_area QNum ex_times ex_liks ex_edges
    = ([9 # 2; 5 # 2], [3; 2], [1; 1], [0; 0; 0; 1; 2]%nat)%Q /\
  mutational_timescale QNum ex_times ex_liks ex_edges [0; 1; 2]%nat
    = Some ([0; 1; 2], [0; 3 # 2; 11 # 4])%Q /\
  ep_rescale_breaks QNum ex_times ex_fixed ex_liks ex_edges [[0; 1; 2]; [0; 2]]%nat
    = Some ([0; 2], [0; 137 # 50], [0; 0; 0; 411 # 275; 137 # 50])%Q /\
  piecewise_scale_posterior QNum (fun a q => a * q)%Q (fun _ _ _ _ _ => Some (3, 1)%Q)
    [(0, 1); (0, 1); (0, 1); (1, 2); (3, 2)]%Q ex_fixed [0; 1; 2]%Q [0; 9 # 2; 6]%Q (1 # 2)%Q 10%Q
    = Some [None; None; None; Some (3, 8 # 9)%Q; Some (3, 2 # 3)%Q].
Proof.
  split; [exact ex_R_breaks|]. split; [exact ex_area|]. split; [exact ex_timescale|].
  split; [exact ex_ep_breaks|exact ex_posterior].
Qed.

(** ** C37: the time columns written by [rescale_tree_sequence] *)
Lemma rescale_ts_main (times : list R) fixed (liks : list (R * R)) edges cpss muts (t' mt : list R) :
  rescale_ts_times RNum times fixed liks edges cpss muts = Some (t', mt) ->
  (forall cps, In cps cpss -> In O cps) ->
  (forall i, 0 <= nth i times 0) ->
  length t' = length times /\
  (forall i, (i < length times)%nat -> nth i fixed false = true -> nth i t' 0 = nth i times 0) /\
  (exists g : R -> R, g 0 = 0 /\ (forall u v, 0 <= u -> u <= v -> g u <= g v) /\
     forall i, (i < length times)%nat -> nth i fixed false = false -> nth i t' 0 = g (nth i times 0)) /\
  (forall i j, (i < length times)%nat -> (j < length times)%nat ->
     nth i fixed false = false -> nth j fixed false = false ->
     nth i times 0 <= nth j times 0 -> nth i t' 0 <= nth j t' 0) /\
  length mt = length muts /\
  forall m, (m < length muts)%nat ->
    match nth m muts (None, O) with
    | (Some e, _) =>
        let p := fst (nth e edges (O, O)) in
        let c := snd (nth e edges (O, O)) in
        nth m mt 0 = (nth p t' 0 + nth c t' 0) / 2 /\
        (nth c t' 0 < nth p t' 0 -> nth c t' 0 < nth m mt 0 < nth p t' 0)
    | (None, node) => nth m mt 0 = nth node t' 0
    end.
Proof.
  intros H Hcp Hx.
  destruct (rescale_ts_spec _ _ _ _ _ _ _ _ H) as ([last Hl] & Lm & Hm).
  destruct (loop_monotone _ _ _ _ _ _ _ Hcp Hx Hl) as (L & Hf & Hg & Ho).
  split; [exact L|]. split; [exact Hf|]. split; [exact Hg|]. split; [exact Ho|]. split; [exact Lm|].
  intros m Hlt. rewrite (Hm m Hlt). destruct (nth m muts (None, O)) as [[e|] node].
  - exact (mutation_time_between edges t' e node).
  - reflexivity.
Qed.

Lemma ts_samples_fixed :
  forall (times : list R) fixed (liks : list (R * R)) edges cpss muts (t' mt : list R),
  rescale_ts_times RNum times fixed liks edges cpss muts = Some (t', mt) ->
  (forall cps, In cps cpss -> In O cps) ->
  (forall i, 0 <= nth i times 0) ->
  length t' = length times /\
  forall i, (i < length times)%nat -> nth i fixed false = true -> nth i t' 0 = nth i times 0.
Proof.
  intros times fixed liks edges cpss muts t' mt H Hc Hx.
  exact (conj (proj1 (rescale_ts_main _ _ _ _ _ _ _ _ H Hc Hx))
              (proj1 (proj2 (rescale_ts_main _ _ _ _ _ _ _ _ H Hc Hx)))).
Qed.

Lemma ts_monotone_map :
  forall (times : list R) fixed (liks : list (R * R)) edges cpss muts (t' mt : list R),
  rescale_ts_times RNum times fixed liks edges cpss muts = Some (t', mt) ->
  (forall cps, In cps cpss -> In O cps) ->
  (forall i, 0 <= nth i times 0) ->
  (exists g : R -> R, g 0 = 0 /\ (forall u v, 0 <= u -> u <= v -> g u <= g v) /\
     forall i, (i < length times)%nat -> nth i fixed false = false -> nth i t' 0 = g (nth i times 0)) /\
  (forall i j, (i < length times)%nat -> (j < length times)%nat ->
     nth i fixed false = false -> nth j fixed false = false ->
     nth i times 0 <= nth j times 0 -> nth i t' 0 <= nth j t' 0).
Proof.
  intros times fixed liks edges cpss muts t' mt H Hc Hx.
  exact (conj (proj1 (proj2 (proj2 (rescale_ts_main _ _ _ _ _ _ _ _ H Hc Hx))))
              (proj1 (proj2 (proj2 (proj2 (rescale_ts_main _ _ _ _ _ _ _ _ H Hc Hx)))))).
Qed.

Lemma ts_mutation_midpoint :
  forall (times : list R) fixed (liks : list (R * R)) edges cpss muts (t' mt : list R),
  rescale_ts_times RNum times fixed liks edges cpss muts = Some (t', mt) ->
  length mt = length muts /\
  forall m, (m < length muts)%nat ->
    match nth m muts (None, O) with
    | (Some e, _) =>
        let p := fst (nth e edges (O, O)) in
        let c := snd (nth e edges (O, O)) in
        nth m mt 0 = (nth p t' 0 + nth c t' 0) / 2 /\
        (nth c t' 0 < nth p t' 0 -> nth c t' 0 < nth m mt 0 < nth p t' 0)
    | (None, node) => nth m mt 0 = nth node t' 0
    end.
Proof.
  intros times fixed liks edges cpss muts t' mt H.
  destruct (rescale_ts_spec _ _ _ _ _ _ _ _ H) as (_ & Lm & Hm).
  split; [exact Lm|]. intros m Hlt. rewrite (Hm m Hlt).
  destruct (nth m muts (None, O)) as [[e|] node];
    [exact (mutation_time_between edges t' e node)|reflexivity].
Qed.

Lemma C37_example :
  rescale_ts_times QNum ex_times ex_fixed ex_liks ex_edges [[0; 1; 2]]%nat
    [(Some 0, 0); (Some 3, 3); (None, 4)]%nat
  = Some ([0; 0; 0; 3 # 2; 11 # 4], [3 # 4; 17 # 8; 11 # 4])%Q.
Proof. exact ex_rescale_ts. Qed.
