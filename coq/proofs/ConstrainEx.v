(** Concrete evaluations of the [_constrain_ages] model (non-vacuity examples, witnesses). *)
From Coq Require Import List QArith.
From TsdateV Require Import lib.Num model.Constrain proofs.ConstrainForced.
Import ListNotations.

Lemma C27_example :
  children_first [(4, 0); (4, 1); (5, 2); (5, 4)]%nat /\
  constrain_list QNum (1 # 10)%Q [true; true; true; false; false; false] 0
      [(4, 0); (4, 1); (5, 2); (5, 4)]%nat [0; 0; 0; 0; 5 # 1; 1 # 1]%Q
    = Some [0; 0; 0; 0; 5 # 1; 51 # 10]%Q.
Proof. split; [apply children_firstb_spec; reflexivity | vm_compute; reflexivity]. Qed.
