(** Concrete evaluations of the [_constrain_ages] model (non-vacuity examples, witnesses). *)
From Coq Require Import List QArith.
From TsdateV Require Import lib.Num model.Constrain proofs.ConstrainForced.
Import ListNotations.

Lemma C27_example :
  children_first [(4, 0); (4, 1); (5, 2); (5, 4)]%nat /\
  constrain_list QNum (1 # 10)%Q [true; true; true; false; false; false] 0
      [(4, 0); (4, 1); (5, 2); (5, 4)]%nat [0; 0; 0; 0; 5 # 1; 1 # 1]%Q
    = Some [0; 0; 0; 0; 5 # 1; 51 # 10]%Q.
Proof. split; [apply children_firstb_spec; reflexivity | vm_compute; reflexivity]. Qed.

Lemma C03_example :
  constrain_list QNum (1 # 10)%Q [true; true; true; true; false] 2
      [(4, 0); (4, 1); (3, 2); (3, 4)]%nat [0; 0; 0; 1 # 1; 5 # 1]%Q
    = Some [0; 0; 0; 11 # 10; 1 # 1]%Q.
Proof. vm_compute. reflexivity. Qed.

(** binary64: adding the default min_branch_length 1e-8 to 3e8 is absorbed, so in doubles
    the forced pass guarantees [parent >= fl(child + eps)] but NOT [parent > child] *)
From Coq Require Import PrimFloat.
Lemma double_absorbs_eps : (PrimFloat.eqb (PrimFloat.add 0x1.1e1a3p+28 0x1.5798ee2308c3ap-27) 0x1.1e1a3p+28 = true)%float.
Proof. vm_compute. reflexivity. Qed.

Lemma forced_double_equal_times :
  constrain_list FNum 0x1.5798ee2308c3ap-27%float [true; true; false] 0 [(2, 0); (2, 1)]%nat
     [0x1.1e1a3p+28; 0x1.1e1a3p+28; 0]%float
  = Some [0x1.1e1a3p+28; 0x1.1e1a3p+28; 0x1.1e1a3p+28]%float.
Proof. vm_compute. reflexivity. Qed.

Lemma C01_double_witness :
  exists es fixed (t : list float) eps,
    (0 <? eps)%float = true /\
    exists t', constrain_list FNum eps fixed 0 es t = Some t' /\
      exists p c, In (p, c) es /\ (nth p t' 0 =? nth c t' 0)%float = true.
Proof.
  exists [(2, 0); (2, 1)]%nat, [true; true; false], [0x1.1e1a3p+28; 0x1.1e1a3p+28; 0]%float,
         0x1.5798ee2308c3ap-27%float.
  split; [vm_compute; reflexivity|].
  eexists. split; [exact forced_double_equal_times|].
  exists 2%nat, 0%nat. split; [left; reflexivity | vm_compute; reflexivity]. Qed.
