(** * C19: special-function and gamma-fitting helpers -- the algebra and the control flow.
    About the REGENERATED text of tsdate/hypergeo.py and tsdate/approx.py over the reals. *)
From Coq Require Import Reals Lra Bool ZArith Psatz.
From TsdateV Require Import lib.Num model.ApproxBase gen.HypergeoGen gen.ApproxGen proofs.ApproxTac proofs.ApproxC18.
Open Scope R_scope.

Section Digamma.
  Variable lgam : R -> R.
  Variable eg : R.
  Notation F := (RF lgam eg).

  (** the asymptotic branch of hypergeo._digamma, exactly as the code writes it *)
  Definition digamma_tail (x : R) : R :=
    let xpm2 := 1 / (x * x) in
    ln x - 5 / 10 / x
    - 83333333333333333 / 1000000000000000000 * xpm2
    + 8333333333333333 / 1000000000000000000 * (xpm2 * xpm2)
    - 3968253968253968 / 1000000000000000000 * (xpm2 * (xpm2 * xpm2))
    + 4166666666666667 / 1000000000000000000 * (xpm2 * (xpm2 * (xpm2 * xpm2)))
    - 7575757575757576 / 1000000000000000000 * (xpm2 * (xpm2 * (xpm2 * (xpm2 * xpm2))))
    + 21092796092796094 / 1000000000000000000 * (xpm2 * (xpm2 * (xpm2 * (xpm2 * (xpm2 * xpm2))))).

  (** one level of the recursion: reflection for x <= 0, the pole term for x <= 1e-5, the
      recurrence psi(x) = psi(x + 1) - 1/x below 8.5, the series above *)
  Lemma digamma_unfold n x :
    digamma_rec RNum F (S n) x =
      if Rleb x 0 then
        match digamma_rec RNum F n (1 - x) with
        | Ok v => Ok (v - PI / tan (PI * x)) | Err e => Err e end
      else if Rleb x (1 / 100000) then Ok (- eg - 1 / x)
      else if Rltb x (85 / 10) then
        match digamma_rec RNum F n (1 + x) with
        | Ok v => Ok (v - 1 / x) | Err e => Err e end
      else Ok (digamma_tail x).
  Proof. cbn [digamma_rec]. runfold. replace (0 / 1) with 0 by field. reflexivity. Qed.

  (** IF the two base branches are exact for a function [psi] that satisfies the recurrence,
      THEN every branch on the positive axis is: the reductions use the recurrence with the
      right sign and argument, and the fuel never runs out *)
  Variable psi : R -> R.
  Hypothesis psi_rec : forall x, 0 < x -> psi (1 + x) = psi x + 1 / x.
  Hypothesis psi_small : forall x, 0 < x -> x <= 1 / 100000 -> psi x = - eg - 1 / x.
  Hypothesis psi_tail : forall x, 85 / 10 <= x -> psi x = digamma_tail x.

  Lemma digamma_pos_fuel : forall n x, 0 < x -> 85 / 10 - x < INR n ->
    digamma_rec RNum F (S n) x = Ok (psi x).
  Proof.
    induction n as [|n IH]; intros x Hx Hn; rewrite digamma_unfold.
    - cbn [INR] in Hn. rewrite (Rleb_f x 0) by lra. rewrite (Rleb_f x (1/100000)) by lra.
      rewrite (Rltb_f x (85/10)) by lra. rewrite psi_tail by lra. reflexivity.
    - rewrite (Rleb_f x 0) by lra.
      destruct (Rle_dec x (1/100000)) as [Hs|Hs].
      + rewrite (Rleb_t x (1/100000)) by lra. rewrite psi_small by lra. reflexivity.
      + rewrite (Rleb_f x (1/100000)) by lra.
        destruct (Rlt_dec x (85/10)) as [Hl|Hl].
        * rewrite (Rltb_t x (85/10)) by lra.
          rewrite IH; [| lra |].
          -- rewrite psi_rec by lra. f_equal. lra.
          -- rewrite S_INR in Hn. lra.
        * rewrite (Rltb_f x (85/10)) by lra. rewrite psi_tail by lra. reflexivity.
  Qed.

  Theorem digamma_positive x : 0 < x -> digamma RNum F x = Ok (psi x).
  Proof.
    intros Hx. unfold digamma, fuel_rec. apply (digamma_pos_fuel 23 x Hx).
    replace (INR 23) with 23 by (simpl; lra). lra.
  Qed.

  (** x <= 0: the reflection formula psi(x) = psi(1 - x) - pi / tan(pi x) *)
  Hypothesis psi_refl : forall x, x <= 0 -> psi x = psi (1 - x) - PI / tan (PI * x).
  Theorem digamma_nonpositive x : x <= 0 -> digamma RNum F x = Ok (psi x).
  Proof.
    intros Hx. unfold digamma, fuel_rec. rewrite digamma_unfold. rewrite (Rleb_t x 0) by lra.
    rewrite (digamma_pos_fuel 22 (1 - x)); [| lra | replace (INR 22) with 22 by (simpl; lra); lra].
    rewrite (psi_refl x) by lra. reflexivity.
  Qed.
End Digamma.

Section Trigamma.
  Variable lgam : R -> R.
  Variable eg : R.
  Notation F := (RF lgam eg).

  Definition trigamma_tail (x : R) : R :=
    let xpm1 := 1 / x in
    let xpm2 := 1 / (x * x) in
    xpm1 * (1 / 1 + 5 / 10 * xpm1
      + 166666666666666667 / 1000000000000000000 * xpm2
      - 33333333333333333 / 1000000000000000000 * (xpm2 * xpm2)
      + 23809523809523808 / 1000000000000000000 * (xpm2 * (xpm2 * xpm2))
      - 33333333333333333 / 1000000000000000000 * (xpm2 * (xpm2 * (xpm2 * xpm2)))
      + 75757575757575756 / 1000000000000000000 * (xpm2 * (xpm2 * (xpm2 * (xpm2 * xpm2))))
      - 253113553113553102 / 1000000000000000000 * (xpm2 * (xpm2 * (xpm2 * (xpm2 * (xpm2 * xpm2)))))
      + 1166666666666666741 / 1000000000000000000 * (xpm2 * (xpm2 * (xpm2 * (xpm2 * (xpm2 * (xpm2 * xpm2))))))).

  Lemma trigamma_unfold n x :
    trigamma_rec RNum F (S n) x =
      if Rleb x 0 then
        match trigamma_rec RNum F n (1 - x) with
        | Ok v => Ok (- v + PI * PI / (sin (PI * x) * sin (PI * x))) | Err e => Err e end
      else if Rleb x (1 / 10000) then Ok (1 / (x * x))
      else if Rltb x 5 then
        match trigamma_rec RNum F n (1 + x) with
        | Ok v => Ok (v + 1 / (x * x)) | Err e => Err e end
      else Ok (trigamma_tail x).
  Proof. cbn [trigamma_rec]. runfold. replace (0 / 1) with 0 by field. reflexivity. Qed.

  Variable psi1 : R -> R.
  Hypothesis psi1_rec : forall x, 0 < x -> psi1 (1 + x) = psi1 x - 1 / (x * x).
  Hypothesis psi1_small : forall x, 0 < x -> x <= 1 / 10000 -> psi1 x = 1 / (x * x).
  Hypothesis psi1_tail : forall x, 5 <= x -> psi1 x = trigamma_tail x.

  Lemma trigamma_pos_fuel : forall n x, 0 < x -> 5 - x < INR n ->
    trigamma_rec RNum F (S n) x = Ok (psi1 x).
  Proof.
    induction n as [|n IH]; intros x Hx Hn; rewrite trigamma_unfold.
    - cbn [INR] in Hn. rewrite (Rleb_f x 0) by lra. rewrite (Rleb_f x (1/10000)) by lra.
      rewrite (Rltb_f x 5) by lra. rewrite psi1_tail by lra. reflexivity.
    - rewrite (Rleb_f x 0) by lra.
      destruct (Rle_dec x (1/10000)) as [Hs|Hs].
      + rewrite (Rleb_t x (1/10000)) by lra. rewrite psi1_small by lra. reflexivity.
      + rewrite (Rleb_f x (1/10000)) by lra.
        destruct (Rlt_dec x 5) as [Hl|Hl].
        * rewrite (Rltb_t x 5) by lra.
          rewrite IH; [| lra |].
          -- rewrite psi1_rec by lra. f_equal. lra.
          -- rewrite S_INR in Hn. lra.
        * rewrite (Rltb_f x 5) by lra. rewrite psi1_tail by lra. reflexivity.
  Qed.

  Theorem trigamma_positive x : 0 < x -> trigamma RNum F x = Ok (psi1 x).
  Proof.
    intros Hx. unfold trigamma, fuel_rec. apply (trigamma_pos_fuel 23 x Hx).
    replace (INR 23) with 23 by (simpl; lra). lra.
  Qed.

  Hypothesis psi1_refl : forall x, x <= 0 ->
    psi1 x = - psi1 (1 - x) + PI * PI / (sin (PI * x) * sin (PI * x)).
  Theorem trigamma_nonpositive x : x <= 0 -> trigamma RNum F x = Ok (psi1 x).
  Proof.
    intros Hx. unfold trigamma, fuel_rec. rewrite trigamma_unfold. rewrite (Rleb_t x 0) by lra.
    rewrite (trigamma_pos_fuel 22 (1 - x)); [| lra | replace (INR 22) with 22 by (simpl; lra); lra].
    rewrite (psi1_refl x) by lra. reflexivity.
  Qed.
End Trigamma.

Section Betaln.
  Variable lgam : R -> R.
  Variable eg : R.
  Notation F := (RF lgam eg).

  Lemma betaln_def p q : betaln RNum F p q = lgam p + lgam q - lgam (p + q).
  Proof. reflexivity. Qed.

  (** with lgamma = log o Gamma this is the log of the beta function Gamma(p)Gamma(q)/Gamma(p+q) *)
  Lemma betaln_beta (Gam : R -> R) p q :
    (forall x, 0 < x -> 0 < Gam x) -> (forall x, 0 < x -> lgam x = ln (Gam x)) ->
    0 < p -> 0 < q -> exp (betaln RNum F p q) = Gam p * Gam q / Gam (p + q).
  Proof.
    intros Hpos Hlg Hp Hq. rewrite betaln_def, !Hlg by lra.
    unfold Rminus. rewrite exp_plus, exp_plus, exp_Ropp, !exp_ln by (apply Hpos; lra). reflexivity.
  Qed.
End Betaln.

(** ** approx.approximate_gamma_kl: what can be said without a formal digamma.
    [H] (digamma, trigamma) is arbitrary: whatever the Newton iteration does, a successful
    return has the requested MEAN exactly and a positive shape, and the documented failure
    conditions (non-positive mean, Jensen's inequality violated) are reported as the exception. *)
Section KL.
  Variable lgam : R -> R.
  Variable eg : R.
  Variable H : HypFns RNum.
  Notation F := (RF lgam eg).

  Lemma kl_ret alpha x a b : 0 < alpha -> 0 < x ->
    @Ok (R * R) (alpha - 1 / 1, alpha / x) = Ok (a, b) -> 0 < a + 1 /\ (a + 1) / b = x.
  Proof. intros Ha Hx E. injection E as <- <-. split; [lra|]. field. lra. Qed.

  Lemma kl_ok x logx a b : approximate_gamma_kl RNum F H x logx = Ok (a, b) ->
    0 < x /\ logx < ln x /\ 0 < a + 1 /\ (a + 1) / b = x.
  Proof.
    unfold approximate_gamma_kl. runfold. cbn [orb negb andb].
    replace (0 / 1) with 0 by field.
    destruct (Rleb x 0) eqn:E0; [discriminate|]. apply Rleb_false in E0.
    destruct (Rltb logx (ln x)) eqn:E1; cbn [negb]; [|discriminate]. apply Rltb_true in E1.
    assert (Hal : 0 < 5 / 10 / (ln x - logx)) by (apply Rdiv_lt_0_compat; lra).
    set (alpha0 := 5 / 10 / (ln x - logx)) in *.
    destruct (Rltb (1 / 1 / alpha0) (1 / 10000)).
    { intros E. split; [lra|]. split; [lra|]. exact (kl_ret alpha0 x a b Hal E0 E). }
    cbn [orb]. rewrite (Rltb_f 100 0) by lra.
    match goal with |- (match ?L with Ok _ => _ | Err _ => _ end) = _ -> _ => destruct L as [c1|?]; [|discriminate] end.
    match goal with |- (match ?L with Ok _ => _ | Err _ => _ end) = _ -> _ => destruct L as [c2|?]; [|discriminate] end.
    match goal with |- (match ?L with Ok _ => _ | Err _ => _ end) = _ -> _ => destruct L as [[[d al] it]|?]; [|discriminate] end.
    destruct (Rleb al 0) eqn:E2; [discriminate|]. apply Rleb_false in E2.
    intros E. split; [lra|]. split; [lra|]. exact (kl_ret al x a b E2 E0 E).
  Qed.

  Lemma kl_fail x logx : x <= 0 \/ ~ (logx < ln x) -> approximate_gamma_kl RNum F H x logx = Err EKLFail.
  Proof.
    intros Hc. unfold approximate_gamma_kl. runfold. cbn [orb negb andb]. replace (0 / 1) with 0 by field.
    destruct (Rleb x 0) eqn:E0; [reflexivity|]. apply Rleb_false in E0.
    destruct (Rltb logx (ln x)) eqn:E1; cbn [negb]; [|reflexivity]. apply Rltb_true in E1.
    exfalso. destruct Hc; [lra|contradiction].
  Qed.

  (** in the asymptotic regime (1/alpha0 < 1e-4) the lower bound is returned without iterating *)
  Lemma kl_asymptotic x logx : 0 < x -> logx < ln x -> 1 / (5 / 10 / (ln x - logx)) < 1 / 10000 ->
    approximate_gamma_kl RNum F H x logx = Ok (5 / 10 / (ln x - logx) - 1, 5 / 10 / (ln x - logx) / x).
  Proof.
    intros Hx Hl Ha. unfold approximate_gamma_kl. runfold. cbn [orb negb andb]. replace (0 / 1) with 0 by field.
    rewrite (Rleb_f x 0) by lra. rewrite (Rltb_t logx (ln x)) by lra. cbn [negb].
    replace (1 / 1) with 1 by field.
    rewrite (Rltb_t _ (1 / 10000) Ha). reflexivity.
  Qed.
End KL.

(** ** assembly for props/C19.v *)
Lemma C19_example lgam eg (H : HypFns RNum) :
  approximate_gamma_mom RNum (RF lgam eg) H 2 4 = Ok (2 * 2 / 4 - 1, 2 / 4).
Proof. apply mom_ok; lra. Qed.

(** ** approx.approximate_gamma_iqr: the control flow of the quantile fit.
    [E] (scipy's gammaincinv and the AS 239 derivative) and [H] are arbitrary: whatever the Newton
    iteration does, a successful return is either the CAPPED shape with the rate that matches the
    lower quantile, or a positive shape <= cap with the rate that matches the lower quantile. *)
Section IQR.
  Variable lgam : R -> R.
  Variable eg : R.
  Variable H : HypFns RNum.
  Variable E : ExtFns RNum.
  Notation F := (RF lgam eg).
  Notation ginv := (e_gammainc_inv RNum E).

  Definition iqr_post (q1 x1 cap : R) (r : R * R) : Prop :=
    let '(a, b) := r in
    (a = cap - 1 /\ b = ginv cap q1 / x1) \/ (0 < a + 1 /\ a + 1 <= cap /\ b = ginv (a + 1) q1 / x1).

  Lemma iqr_tail q1 x1 cap al a b :
    (if negb (Rltb 0 al) then Err EKLFail
     else if Rltb cap al then Ok (cap - 1, ginv cap q1 / x1)
     else Ok (al - 1, ginv al q1 / x1)) = Ok (a, b) -> iqr_post q1 x1 cap (a, b).
  Proof.
    destruct (Rltb 0 al) eqn:E0; cbn [negb]; [|discriminate]. apply Rltb_true in E0.
    destruct (Rltb cap al) eqn:E1.
    - intros Eq. injection Eq as <- <-. left. split; reflexivity.
    - apply Rltb_false in E1. intros Eq. injection Eq as <- <-. right.
      replace (al - 1 + 1) with al by ring. repeat split; try assumption; reflexivity.
  Qed.

  Lemma iqr_ok q1 q2 x1 x2 cap a b :
    approximate_gamma_iqr RNum F H E q1 q2 x1 x2 cap = Ok (a, b) -> iqr_post q1 x1 cap (a, b).
  Proof.
    unfold approximate_gamma_iqr. runfold. cbn [orb negb andb].
    destruct (Reqb x2 x1).
    { intros Eq. injection Eq as <- <-. left. split; reflexivity. }
    destruct (Rltb q1 q2 && Rltb x1 x2); cbn [negb]; [|discriminate].
    set (alpha0 := ln (q2 / q1) / ln (x2 / x1)).
    destruct (Rltb cap alpha0).
    { intros Eq. injection Eq as <- <-. left. split; reflexivity. }
    rewrite (Rltb_f 100 0) by lra.
    match goal with |- (match ?L with Ok _ => _ | Err _ => _ end) = _ -> _ => destruct L as [c1|?]; [|discriminate] end.
    match goal with |- (match ?L with Ok _ => _ | Err _ => _ end) = _ -> _ => destruct L as [c2|?]; [|discriminate] end.
    match goal with |- (match ?L with Ok _ => _ | Err _ => _ end) = _ -> _ => destruct L as [[[d al] it]|?]; [|discriminate] end.
    apply iqr_tail.
  Qed.

  Lemma div_mul_cancel (g x : R) : x <> 0 -> g / x * x = g.
  Proof. intros Hx. field. exact Hx. Qed.

  (** in both cases the LOWER quantile of the returned gamma is the requested one, given that the two
      incomplete-gamma functions are mutually inverse *)
  Lemma iqr_lower_quantile (ginc : R -> R -> R) q1 q2 x1 x2 cap a b :
    (forall s q, ginc s (ginv s q) = q) -> x1 <> 0 ->
    approximate_gamma_iqr RNum F H E q1 q2 x1 x2 cap = Ok (a, b) ->
    (a + 1 <= cap) /\ ginc (a + 1) (b * x1) = q1.
  Proof.
    intros Hinv Hx Eq. apply iqr_ok in Eq. cbn [iqr_post] in Eq.
    destruct Eq as [[Ea Eb]|(Hpos & Hle & Eb)].
    - assert (Es : a + 1 = cap) by lra. rewrite Es. split; [lra|]. rewrite Eb.
      rewrite (div_mul_cancel _ x1 Hx). apply Hinv.
    - split; [exact Hle|]. rewrite Eb.
      rewrite (div_mul_cancel _ x1 Hx). apply Hinv.
  Qed.

  (** equal quantiles: the capped shape; unsorted quantiles: the exception; a lower bound above the
      cap: the capped shape without iterating *)
  Lemma iqr_equal q1 q2 x cap :
    approximate_gamma_iqr RNum F H E q1 q2 x x cap = Ok (cap - 1, ginv cap q1 / x).
  Proof. unfold approximate_gamma_iqr. runfold. rewrite Reqb_t. reflexivity. Qed.

  Lemma iqr_unsorted q1 q2 x1 x2 cap : x2 <> x1 -> ~ (q1 < q2 /\ x1 < x2) ->
    approximate_gamma_iqr RNum F H E q1 q2 x1 x2 cap = Err EKLFail.
  Proof.
    intros Hne Hns. unfold approximate_gamma_iqr. runfold. rewrite (Reqb_f x2 x1 Hne).
    destruct (Rltb q1 q2) eqn:E1; destruct (Rltb x1 x2) eqn:E2; cbn [andb negb]; try reflexivity.
    exfalso. apply Hns. split; apply Rltb_true; assumption.
  Qed.

  Lemma iqr_capped_at_once q1 q2 x1 x2 cap : q1 < q2 -> x1 < x2 -> cap < ln (q2 / q1) / ln (x2 / x1) ->
    approximate_gamma_iqr RNum F H E q1 q2 x1 x2 cap = Ok (cap - 1, ginv cap q1 / x1).
  Proof.
    intros Hq Hx Hc. unfold approximate_gamma_iqr. runfold. rewrite (Reqb_f x2 x1) by lra.
    rewrite (Rltb_t q1 q2 Hq), (Rltb_t x1 x2 Hx). cbn [andb negb]. rewrite (Rltb_t _ _ Hc). reflexivity.
  Qed.
End IQR.
