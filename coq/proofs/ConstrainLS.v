(** * The least-squares phase of [_constrain_ages] over the reals, and the
    assembled statements about [constrain] (C27, C01, C03). *)
From Coq Require Import List Arith Lia Bool Reals Lra FunctionalExtensionality.
From TsdateV Require Import lib.Num model.Constrain proofs.ConstrainForced.
Import ListNotations.
Open Scope R_scope.

Lemma upd_same {A} (t : nat -> A) u : upd t u (t u) = t.
Proof. apply functional_extensionality; intro w. unfold upd.
  destruct (Nat.eqb_spec w u) as [->|]; reflexivity. Qed.

Lemma upd_const {A} (v : A) u : upd (fun _ : nat => v) u v = (fun _ => v).
Proof. apply functional_extensionality; intro w. unfold upd. destruct (Nat.eqb w u); reflexivity. Qed.

Section LS.
Variable eps : R.
Variable fixed : nat -> bool.
Hypothesis eps_nonneg : 0 <= eps.

Notation cav0 := (fun _ : nat => (zero RNum, zero RNum)).
Notation st0R := (st0 RNum).
Notation constrainR := (constrain RNum eps fixed).
Notation forcedR := (forced R Rleb (bumpN RNum eps)).

Definition ordered (es : list (nat * nat)) (t : nat -> R) :=
  forall p c, In (p, c) es -> t c <= t p.

Lemma ls_edge_id t e p c : t c <= t p ->
  ls_edge RNum fixed (st0R t) (e, (p, c)) = Some (st0R t).
Proof. intro H. unfold ls_edge, st0. cbn [fst snd RNum sub add zero ltb T].
  replace (t c - 0) with (t c) by lra. rewrite upd_same.
  replace (t p - 0) with (t p) by lra. rewrite upd_same.
  assert (E : Rltb 0 (t c - t p) = false) by (apply Rltb_false; lra). rewrite E.
  replace (t c + 0) with (t c) by lra. rewrite upd_same.
  replace (t p + 0) with (t p) by lra. rewrite upd_same.
  unfold st0. cbn [zero RNum]. rewrite (upd_const (0, 0) e). reflexivity. Qed.

Lemma ls_sweep_id t : forall ies, (forall e p c, In (e, (p, c)) ies -> t c <= t p) ->
  ls_sweep RNum fixed (st0R t) ies = Some (st0R t).
Proof. induction ies as [|[e [p c]] r IH]; intro H; [reflexivity|]. cbn [ls_sweep].
  rewrite ls_edge_id by (apply (H e); left; reflexivity).
  apply IH. intros e' p' c' Hin. apply (H e'). right; exact Hin. Qed.

Lemma in_index {A} (l : list A) e x : In (e, x) (index l) -> In x l.
Proof. unfold index. intro H. apply in_combine_r in H. exact H. Qed.

Lemma ls_loop_id es t : ordered es t -> forall k,
  ls_loop RNum eps fixed k es (st0R t) = Some (inl t) \/
  ls_loop RNum eps fixed k es (st0R t) = Some (inr (st0R t)).
Proof. intros Ho k. induction k as [|k IH]; [right; reflexivity|]. cbn [ls_loop].
  change (fst (st0R t)) with t. destruct (all_strict RNum eps es t); [left; reflexivity|].
  rewrite ls_sweep_id; [exact IH|]. intros e p c Hin. apply Ho. eapply in_index; exact Hin. Qed.

Lemma ls_loop_early k es : forall st t',
  ls_loop RNum eps fixed k es st = Some (inl t') -> all_strict RNum eps es t' = true.
Proof. induction k as [|k IH]; intros st t' H; [discriminate|]. cbn [ls_loop] in H.
  destruct (all_strict RNum eps es (fst st)) eqn:E.
  - inversion H; subst. exact E.
  - destruct (ls_sweep RNum fixed st (index es)) as [st'|]; [|discriminate]. eapply IH; exact H. Qed.

Lemma all_strict_spec es t : all_strict RNum eps es t = true <->
  (forall p c, In (p, c) es -> eps < t p - t c).
Proof. unfold all_strict. rewrite forallb_forall. split.
  - intros H p c Hin. specialize (H (p, c) Hin). cbn in H. apply Rltb_true in H. exact H.
  - intros H [p c] Hin. cbn. apply Rltb_true. apply H; exact Hin. Qed.

(** *** Instances of the abstract forced-pass theorems at R *)
Lemma Rleb_spec x y : Rleb x y = true <-> x <= y. Proof. apply Rleb_true. Qed.
Lemma bumpR_mono x y : x <= y -> bumpN RNum eps x <= bumpN RNum eps y.
Proof. unfold bumpN; cbn. lra. Qed.

Definition satR (es : list (nat*nat)) (t : nat -> R) :=
  forall p c, In (p, c) es -> t c + eps <= t p.

Lemma Rle_total x y : x <= y \/ y <= x.
Proof. destruct (Rle_or_lt x y); [left; assumption | right; lra]. Qed.
Lemma Rle_antisym' x y : x <= y -> y <= x -> x = y. Proof. intros; lra. Qed.

Lemma forcedR_sat es t : children_first es -> satR es (forcedR es t).
Proof. intros H p c Hin.
  exact (forced_sat R Rle Rleb Rleb_spec Rle_refl Rle_trans Rle_total (bumpN RNum eps) es t H p c Hin). Qed.

Lemma forcedR_ge es t u : t u <= forcedR es t u.
Proof. exact (forced_ge R Rle Rleb Rleb_spec Rle_refl Rle_trans (bumpN RNum eps) es t u). Qed.

Lemma forcedR_least es t s : (forall u, t u <= s u) -> satR es s -> forall u, forcedR es t u <= s u.
Proof. intros H1 H2.
  exact (forced_least R Rle Rleb Rle_trans (bumpN RNum eps) bumpR_mono es t s H1 H2). Qed.

Lemma forcedR_tight es t u : children_first es ->
  forcedR es t u = t u \/ exists c, In (u, c) es /\ forcedR es t u = forcedR es t c + eps.
Proof. intro H. exact (forced_tight R Rleb (bumpN RNum eps) es t u H). Qed.

Lemma forcedR_sat_id es t : satR es t -> forall u, forcedR es t u = t u.
Proof. intro H. exact (forced_sat_id R Rle Rleb Rleb_spec (bumpN RNum eps) Rle_antisym' es t H). Qed.

(** *** [constrain] with [max_iterations = 0] is the forced pass *)
Lemma constrain0 es t : constrainR 0 es t = Some (forcedR es t).
Proof. reflexivity. Qed.

(** *** times that satisfy every constraint strictly are returned unchanged, for every k *)
Theorem constrain_strict_unchanged k es t :
  (forall p c, In (p, c) es -> t c + eps < t p) ->
  exists t', constrainR k es t = Some t' /\ forall u, t' u = t u.
Proof. intro H. unfold constrain.
  assert (Ho : ordered es t) by (intros p c Hin; specialize (H p c Hin); lra).
  destruct (ls_loop_id es t Ho k) as [E|E]; rewrite E.
  - exists t. split; [reflexivity | reflexivity].
  - eexists. split; [reflexivity|]. cbn [fst]. intro u.
    apply (forced_strict_id R Rle Rleb Rleb_spec (bumpN RNum eps)).
    intros p c Hin Hle. specialize (H p c Hin). unfold bumpN in Hle; cbn in Hle. lra. Qed.

(** *** what [constrain] returns is either an early exit with all branches longer than
    eps, or the forced pass applied to something *)
Lemma constrain_result k es t t1 : constrainR k es t = Some t1 ->
  all_strict RNum eps es t1 = true \/ exists s, t1 = forcedR es s.
Proof. unfold constrain. destruct (ls_loop RNum eps fixed k es (st0R t)) as [[t'|st]|] eqn:E; intro H; inversion H; subst.
  - left. eapply ls_loop_early; exact E.
  - right. eexists; reflexivity. Qed.

(** *** constraining already-constrained times changes nothing, for every k *)
Theorem constrain_idempotent k es t t1 : children_first es ->
  constrainR k es t = Some t1 ->
  exists t2, constrainR k es t1 = Some t2 /\ forall u, t2 u = t1 u.
Proof. intros Hcf H1.
  assert (Hsat : satR es t1).
  { destruct (constrain_result k es t t1 H1) as [Hs|[s ->]].
    - rewrite all_strict_spec in Hs. intros p c Hin. specialize (Hs p c Hin). lra.
    - apply forcedR_sat; exact Hcf. }
  assert (Ho : ordered es t1) by (intros p c Hin; specialize (Hsat p c Hin); lra).
  unfold constrain. destruct (ls_loop_id es t1 Ho k) as [E|E]; rewrite E.
  - exists t1. split; reflexivity.
  - eexists. split; [reflexivity|]. cbn [fst]. apply forcedR_sat_id; exact Hsat. Qed.

(** *** every returned vector satisfies every branch-length constraint (C01 clause a),
    and strictly positive branch lengths when eps > 0 (clause b) *)
Theorem constrain_sat k es t t1 : children_first es ->
  constrainR k es t = Some t1 -> satR es t1.
Proof. intros Hcf H1. destruct (constrain_result k es t t1 H1) as [Hs|[s ->]].
  - rewrite all_strict_spec in Hs. intros p c Hin. specialize (Hs p c Hin). lra.
  - apply forcedR_sat; exact Hcf. Qed.

(** *** a fixed node is never moved by the least-squares phase *)
End LS.

(** ** Statements in the exact form used by props/C27.v *)
Lemma C27_lfp (eps : R) fixed es (t : nat -> R) :
  children_first es ->
  exists t', constrain RNum eps fixed 0 es t = Some t' /\
    (forall u, t u <= t' u) /\
    satR eps es t' /\
    (forall u, t' u = t u \/ exists c, In (u, c) es /\ t' u = t' c + eps) /\
    (forall s, (forall u, t u <= s u) -> satR eps es s -> forall u, t' u <= s u).
Proof. intro Hcf. eexists. split; [reflexivity|]. cbn [fst st0]. repeat split.
  - intro u. apply forcedR_ge.
  - apply forcedR_sat; exact Hcf.
  - intro u. apply forcedR_tight; exact Hcf.
  - intros s H1 H2. apply forcedR_least; assumption. Qed.

Lemma C27_forced_abstract (T : Type) (le : T -> T -> Prop) (leb : T -> T -> bool) :
  (forall x y, leb x y = true <-> le x y) -> (forall x, le x x) ->
  (forall x y z, le x y -> le y z -> le x z) -> (forall x y, le x y \/ le y x) ->
  forall bump : T -> T, (forall x y, le x y -> le (bump x) (bump y)) ->
  forall es t, children_first es ->
    (forall u, le (t u) (forced T leb bump es t u)) /\
    (forall p c, In (p, c) es -> le (bump (forced T leb bump es t c)) (forced T leb bump es t p)) /\
    (forall u, forced T leb bump es t u = t u \/
               exists c, In (u, c) es /\ forced T leb bump es t u = bump (forced T leb bump es t c)) /\
    (forall s, (forall u, le (t u) (s u)) -> (forall p c, In (p, c) es -> le (bump (s c)) (s p)) ->
               forall u, le (forced T leb bump es t u) (s u)).
Proof. intros Hs Hr Ht Htot bump Hm es t Hcf. repeat split.
  - intro u. apply (forced_ge T le leb Hs Hr Ht bump).
  - intros p c Hin. exact (forced_sat T le leb Hs Hr Ht Htot bump es t Hcf p c Hin).
  - intro u. apply forced_tight; exact Hcf.
  - intros s H1 H2. exact (forced_least T le leb Ht bump Hm es t s H1 H2). Qed.

Lemma C27_strict (eps : R) fixed k es (t : nat -> R) :
  0 <= eps ->
  (forall p c, In (p, c) es -> t c + eps < t p) ->
  exists t', constrain RNum eps fixed k es t = Some t' /\ forall u, t' u = t u.
Proof. intros He H. apply constrain_strict_unchanged; assumption. Qed.

Lemma C27_idem (eps : R) fixed k es (t t1 : nat -> R) :
  0 <= eps -> children_first es ->
  constrain RNum eps fixed k es t = Some t1 ->
  exists t2, constrain RNum eps fixed k es t1 = Some t2 /\ forall u, t2 u = t1 u.
Proof. intros He Hcf H. eapply constrain_idempotent; eassumption. Qed.


(** ** Statements in the exact form used by props/C01.v *)
Lemma C01_sat (eps : R) fixed k es (t t1 : nat -> R) :
  children_first es -> constrain RNum eps fixed k es t = Some t1 ->
  forall p c, In (p, c) es -> t1 c + eps <= t1 p.
Proof. intros Hcf H p c Hin. exact (constrain_sat eps fixed k es t t1 Hcf H p c Hin). Qed.

Lemma C01_strict (eps : R) fixed k es (t t1 : nat -> R) :
  0 < eps -> children_first es -> constrain RNum eps fixed k es t = Some t1 ->
  forall p c, In (p, c) es -> t1 c < t1 p.
Proof. intros He Hcf H p c Hin. pose proof (C01_sat eps fixed k es t t1 Hcf H p c Hin). lra. Qed.

Lemma C01_forced_sat (T : Type) (le : T -> T -> Prop) (leb : T -> T -> bool) :
  (forall x y, leb x y = true <-> le x y) -> (forall x, le x x) ->
  (forall x y z, le x y -> le y z -> le x z) -> (forall x y, le x y \/ le y x) ->
  forall (bump : T -> T) es t, children_first es ->
  forall p c, In (p, c) es -> le (bump (forced T leb bump es t c)) (forced T leb bump es t p).
Proof. intros Hs Hr Ht Htot bump es t Hcf p c Hin.
  exact (forced_sat T le leb Hs Hr Ht Htot bump es t Hcf p c Hin). Qed.
