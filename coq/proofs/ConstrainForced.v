(** * Proofs about the forced pass of [_constrain_ages], over any totally
    pre-ordered type with a monotone "plus epsilon" (covers R, Q, Z and finite
    doubles at once).  Closed under the global context. *)
From Coq Require Import List Arith Lia Bool.
From TsdateV Require Import lib.Num model.Constrain.
Import ListNotations.

Section Forced.
Variable T : Type.
Variable le : T -> T -> Prop.
Variable leb : T -> T -> bool.
Hypothesis leb_spec : forall x y, leb x y = true <-> le x y.
Hypothesis le_refl : forall x, le x x.
Hypothesis le_trans : forall x y z, le x y -> le y z -> le x z.
Hypothesis le_total : forall x y, le x y \/ le y x.
Variable bump : T -> T.
Hypothesis bump_mono : forall x y, le x y -> le (bump x) (bump y).

Notation fstep := (fstep T leb bump).
Notation forced := (forced T leb bump).

(** edge-table order: once a node has been a child it is never again a parent
    (tskit sorts edges by parent time, and a parent is strictly older than its child) *)
Fixpoint children_first (es : list (nat * nat)) : Prop :=
  match es with
  | [] => True
  | (p, c) :: r => p <> c /\ (forall q d, In (q, d) r -> q <> c) /\ children_first r
  end.

(** executable version, run by the correspondence harness on every generated input *)
Fixpoint children_firstb (es : list (nat * nat)) : bool :=
  match es with
  | [] => true
  | (p, c) :: r => negb (Nat.eqb p c) && forallb (fun e : nat * nat => negb (Nat.eqb (fst e) c)) r
                   && children_firstb r
  end.

Lemma children_firstb_spec es : children_firstb es = true -> children_first es.
Proof. induction es as [|[p c] r IH]; intro H; [exact I|]. cbn [children_firstb children_first] in *.
  apply andb_prop in H. destruct H as [H H3]. apply andb_prop in H. destruct H as [H1 H2].
  split; [|split].
  - intro E. subst. rewrite Nat.eqb_refl in H1. discriminate.
  - intros q d Hin E. subst. rewrite forallb_forall in H2. specialize (H2 (c, d) Hin).
    cbn in H2. rewrite Nat.eqb_refl in H2. discriminate.
  - apply IH; exact H3. Qed.

Definition sat (es : list (nat*nat)) (t : nat -> T) :=
  forall p c, In (p, c) es -> le (bump (t c)) (t p).
Definition pointwise_le (s t : nat -> T) := forall u, le (s u) (t u).

Lemma forced_cons e r t : forced (e :: r) t = forced r (fstep t e).
Proof. reflexivity. Qed.

Lemma step_ge t e : pointwise_le t (fstep t e).
Proof. destruct e as [p c]; unfold fstep, pointwise_le, upd; intro u.
  destruct (leb (t p) (bump (t c))) eqn:E; [|apply le_refl].
  destruct (Nat.eqb_spec u p) as [->|]; [apply leb_spec; exact E | apply le_refl]. Qed.

Lemma step_only_parent t p c u : u <> p -> fstep t (p, c) u = t u.
Proof. intro H. unfold fstep, upd. destruct (leb _ _); [|reflexivity].
  destruct (Nat.eqb_spec u p); congruence. Qed.

Lemma forced_unchanged es : forall t u,
  (forall q d, In (q, d) es -> q <> u) -> forced es t u = t u.
Proof. induction es as [|[p c] r IH]; intros t u H; [reflexivity|]. rewrite forced_cons.
  rewrite IH by (intros q d Hin; apply (H q d); right; exact Hin).
  apply step_only_parent. intro; subst. apply (H p c); [left; reflexivity | reflexivity]. Qed.

Lemma forced_ge es : forall t, pointwise_le t (forced es t).
Proof. induction es as [|e r IH]; intros t u; [apply le_refl|]. rewrite forced_cons.
  eapply le_trans; [apply step_ge | apply IH]. Qed.

(** every constraint holds afterwards *)
Theorem forced_sat es : forall t, children_first es -> sat es (forced es t).
Proof. induction es as [|[p c] r IH]; intros t Hcf q d Hin; [destruct Hin|].
  destruct Hcf as (Hpc & Hlater & Hcf). rewrite forced_cons.
  destruct Hin as [Heq|Hin]; [|apply IH; assumption]. inversion Heq; subst q d; clear Heq.
  rewrite (forced_unchanged r _ c) by (intros q d Hq; apply (Hlater q d Hq)).
  eapply le_trans; [|apply forced_ge].
  rewrite step_only_parent by congruence.
  unfold Constrain.fstep, upd. destruct (leb (t p) (bump (t c))) eqn:E.
  - rewrite Nat.eqb_refl. apply le_refl.
  - destruct (le_total (t p) (bump (t c))) as [H|H]; [apply leb_spec in H; congruence | exact H]. Qed.

(** ... and the result is below every vector that is above the input and satisfies
    the constraints: times are raised only as much as needed *)
Theorem forced_least es : forall t s,
  pointwise_le t s -> sat es s -> pointwise_le (forced es t) s.
Proof. induction es as [|[p c] r IH]; intros t s Hts Hs; [exact Hts|]. rewrite forced_cons. apply IH.
  - intro u. unfold Constrain.fstep, upd. destruct (leb _ _); [|apply Hts].
    destruct (Nat.eqb_spec u p) as [->|]; [|apply Hts].
    eapply le_trans; [apply bump_mono, Hts | apply Hs; left; reflexivity].
  - intros q d H. apply Hs. right; exact H. Qed.

(** tightness: each output time is the input time or exactly some child's output
    time plus epsilon -- together with [forced_ge] and [forced_sat] this says
    [t' u = max (t u) (max_{c child of u} bump (t' c))] *)
Theorem forced_tight es : forall t u, children_first es ->
  forced es t u = t u \/ exists c, In (u, c) es /\ forced es t u = bump (forced es t c).
Proof. induction es as [|[p c] r IH]; intros t u Hcf; [left; reflexivity|].
  destruct Hcf as (Hpc & Hlater & Hcf). rewrite forced_cons.
  destruct (IH (fstep t (p, c)) u Hcf) as [Heq|(d & Hin & Heq)].
  - destruct (leb (t p) (bump (t c))) eqn:E.
    + destruct (Nat.eq_dec u p) as [->|Hne].
      * right. exists c. split; [left; reflexivity|].
        rewrite Heq. rewrite (forced_unchanged r _ c) by (intros q d Hq; apply (Hlater q d Hq)).
        rewrite (step_only_parent t p c c) by congruence.
        unfold Constrain.fstep. rewrite E. unfold upd. rewrite Nat.eqb_refl. reflexivity.
      * left. rewrite Heq. apply step_only_parent; exact Hne.
    + left. rewrite Heq. unfold Constrain.fstep. rewrite E. reflexivity.
  - right. exists d. split; [right; exact Hin | exact Heq]. Qed.

(** nothing happens when every constraint already holds strictly *)
Definition lt x y := ~ le y x.
Theorem forced_strict_id es : forall t,
  (forall p c, In (p, c) es -> lt (bump (t c)) (t p)) -> forall u, forced es t u = t u.
Proof. induction es as [|[p c] r IH]; intros t H u; [reflexivity|]. rewrite forced_cons.
  assert (E : fstep t (p, c) = t).
  { unfold Constrain.fstep. destruct (leb (t p) (bump (t c))) eqn:E; [|reflexivity].
    exfalso. apply (H p c); [left; reflexivity | apply leb_spec; exact E]. }
  rewrite E. apply IH. intros q d Hin. apply H. right; exact Hin. Qed.

(** the forced pass is idempotent (pointwise), for antisymmetric orders *)
Hypothesis le_antisym : forall x y, le x y -> le y x -> x = y.
Theorem forced_sat_id es : forall t, sat es t -> forall u, forced es t u = t u.
Proof. induction es as [|[p c] r IH]; intros t H u; [reflexivity|]. rewrite forced_cons.
  assert (E : forall w, fstep t (p, c) w = t w).
  { intro w. unfold Constrain.fstep. destruct (leb (t p) (bump (t c))) eqn:E; [|reflexivity].
    unfold upd. destruct (Nat.eqb_spec w p) as [->|]; [|reflexivity].
    apply le_antisym; [apply H; left; reflexivity | apply leb_spec; exact E]. }
  (* forced respects pointwise equality *)
  assert (Hext : forall es' s s', (forall w, s w = s' w) -> forall w, forced es' s w = forced es' s' w).
  { clear. induction es' as [|[q d] r' IH']; intros s s' Hs w; [apply Hs|]. rewrite !forced_cons.
    apply IH'. intro x. unfold Constrain.fstep. rewrite !Hs. destruct (leb _ _); [|apply Hs].
    unfold upd. destruct (Nat.eqb x q); [reflexivity|apply Hs]. }
  rewrite (Hext r _ t E). apply IH. intros q d Hin. apply H. right; exact Hin. Qed.

Corollary forced_idempotent es t : children_first es ->
  forall u, forced es (forced es t) u = forced es t u.
Proof. intros Hcf u. apply forced_sat_id. apply forced_sat; exact Hcf. Qed.

End Forced.
