(** * The bookkeeping invariant of expectation propagation (C21), over the reals:
    [post u = scale u * (sum of all messages addressed to u)], preserved by every operation
    of [iterate] for ARBITRARY projection results, damping and capping factors. *)
From Coq Require Import Reals Lra Field List Arith Lia Bool.
From TsdateV Require Import lib.Num model.EP proofs.EPSpec.
Import ListNotations.
Open Scope R_scope.

Notation RV := (V2 RNum).
Notation Rstate := (state RNum).

Definition sel (k : bool) (v : R * R) : R := if k then snd v else fst v.

Fixpoint rsum (n : nat) (f : nat -> R) : R :=
  match n with O => 0 | S m => rsum m f + f m end.

Lemma rsum_ext n f g : (forall j, (j < n)%nat -> f j = g j) -> rsum n f = rsum n g.
Proof. induction n as [|n IH]; intro H; cbn; [reflexivity|]. rewrite IH, H; auto. Qed.

Lemma rsum_upd n f g k : (k < n)%nat -> (forall j, j <> k -> f j = g j) ->
  rsum n g = rsum n f - f k + g k.
Proof. induction n as [|n IH]; intros Hk H; [lia|]. cbn.
  destruct (Nat.eq_dec k n) as [->|Hne].
  - rewrite (rsum_ext n g f) by (intros j Hj; symmetry; apply H; lia). lra.
  - rewrite IH by (auto; lia). rewrite (H n) by congruence. lra. Qed.

Lemma rsum_scal n f c : rsum n (fun i => c * f i) = c * rsum n f.
Proof. induction n as [|n IH]; cbn; [lra|]. rewrite IH. lra. Qed.

Lemma sel_vadd k (a b : RV) : sel k (vadd a b) = sel k a + sel k b.
Proof. destruct k; reflexivity. Qed.
Lemma sel_vsub k (a b : RV) : sel k (vsub a b) = sel k a - sel k b.
Proof. destruct k; reflexivity. Qed.
Lemma sel_vscal k (a : RV) c : sel k (vscal a c) = sel k a * c.
Proof. destruct k; reflexivity. Qed.
Lemma sel_vdiv k (a : RV) c : sel k (vdiv a c) = sel k a / c.
Proof. destruct k; reflexivity. Qed.
Lemma sel_vzero k : sel k (@vzero RNum) = 0.
Proof. destruct k; reflexivity. Qed.
Lemma sel_ext (a b : R * R) : (forall k, sel k a = sel k b) -> a = b.
Proof. intro H. destruct a as [a1 a2], b as [b1 b2]. pose proof (H false) as E1. pose proof (H true) as E2.
  cbn in E1, E2. subst. reflexivity. Qed.

(** ** [_rescale] returns a positive factor when [max_shape > 1] *)
Lemma rescale1_pos (x : RV) S eta : 1 < S -> rescale1 x S = Some eta -> 0 < eta.
Proof.
  intros HS. destruct x as [x0 x1]. unfold rescale1. cbn [ltb leb eqb add sub mul div zero one RNum T fst snd].
  destruct (viszero _); [intro H; inversion H; lra|].
  destruct (Rltb 0 (x0 + 1)) eqn:E1; cbn [negb]; [|discriminate].
  destruct (Rltb 0 x1) eqn:E2; cbn [negb]; [|discriminate].
  apply Rltb_true in E1. apply Rltb_true in E2.
  destruct (Rltb S (1 + x0)) eqn:E3.
  - apply Rltb_true in E3. intro H; inversion H; subst.
    apply Rdiv_lt_0_compat; lra.
  - destruct (Rltb (1 + x0) (1 / S)) eqn:E4; intro H; inversion H; subst; [|lra].
    apply Rltb_true in E4.
    assert (H1 : 1 / S < 1).
    { apply Rmult_lt_reg_r with S; [lra|]. unfold Rdiv. rewrite Rmult_assoc, Rinv_l by lra. lra. }
    replace ((1 / S - 1) / x0) with ((1 - 1 / S) / (- x0)) by (field; lra).
    apply Rdiv_lt_0_compat; lra.
Qed.

Section Inv.
  Variable tiny infty : R.
  Variable nE : nat.
  Variable ep ec : nat -> nat.
  Variable nB : nat.
  Variable bj bk : nat -> nat.
  Variable nN : nat.
  Variable lo hi : nat -> R.
  Variable Orc : Type.
  Variable project : Orc -> call RNum -> option (RV * RV * Orc).

  Notation rescale_factors := (rescale_factors RNum ep ec bj bk).
  Notation assemble := (assemble RNum nE ep ec nB bj bk).

  (** contribution of row [i] of a factor array to node [u], component [k] *)
  Definition ctr (k : bool) (par chi : nat -> nat) (fa : nat -> RV * RV) (u i : nat) : R :=
    (if Nat.eqb (par i) u then sel k (fst (fa i)) else 0) +
    (if Nat.eqb (chi i) u then sel k (snd (fa i)) else 0).
  Definition totc (k : bool) (st : Rstate) (u : nat) : R :=
    rsum nE (ctr k ep ec (fedge st) u) + rsum nB (ctr k bj bk (fblock st) u)
    + sel k (fst (fnode st u)) + sel k (snd (fnode st u)).

  Lemma sel_vsum k n f : sel k (vsum RNum n f) = rsum n (fun i => sel k (f i)).
  Proof. induction n as [|n IH]; cbn [vsum rsum]; [apply sel_vzero|]. rewrite sel_vadd, IH. reflexivity. Qed.

  Lemma sel_contrib k par chi fa u i : sel k (contrib RNum par chi fa u i) = ctr k par chi fa u i.
  Proof. unfold contrib, ctr. rewrite sel_vadd.
    destruct (Nat.eqb (par i) u), (Nat.eqb (chi i) u); rewrite ?sel_vzero; reflexivity. Qed.

  Lemma sel_assemble k st u : sel k (assemble st u) = totc k st u.
  Proof. unfold assemble, totc. rewrite !sel_vadd, !sel_vsum.
    f_equal. f_equal. f_equal; apply rsum_ext; intros; apply sel_contrib. Qed.

  (** the invariant: posterior = scale * (sum of messages), both natural parameters *)
  Definition Inv (st : Rstate) : Prop := forall k u, sel k (post st u) = scl st u * totc k st u.
  Definition Pos (st : Rstate) : Prop := forall u, 0 < scl st u.
  Definition Good (st : Rstate) : Prop := Inv st /\ Pos st.

  Lemma init_good : Good (@init RNum).
  Proof. split.
    - intros k u. unfold totc, init; cbn [post scl fedge fblock fnode].
      assert (Z : forall n par chi, rsum n (ctr k par chi (fun _ => (@vzero RNum, @vzero RNum)) u) = 0).
      { intros n par chi. induction n as [|n IH]; cbn [rsum]; [reflexivity|]. rewrite IH. unfold ctr. cbn [fst snd].
        destruct (Nat.eqb _ _), (Nat.eqb _ _); rewrite ?sel_vzero; lra. }
      rewrite !Z. cbn [fst snd]. rewrite !sel_vzero. cbn. lra.
    - intro u. cbn. lra.
  Qed.

  (** ** [_rescale_factors] absorbs the scale: no posterior changes, scale becomes 1 *)
  Lemma ctr_rescale k par chi (fa : nat -> RV * RV) (sc : nat -> R) (u n : nat) :
    rsum n (ctr k par chi (fun i => (vscal (N:=RNum) (fst (fa i)) (sc (par i)), vscal (N:=RNum) (snd (fa i)) (sc (chi i)))) u)
    = sc u * rsum n (ctr k par chi fa u).
  Proof. rewrite <- rsum_scal. apply rsum_ext. intros j _. unfold ctr. cbn [fst snd].
    destruct (Nat.eqb_spec (par j) u) as [->|]; destruct (Nat.eqb_spec (chi j) u) as [->|];
      rewrite ?sel_vscal; lra. Qed.

  Lemma totc_rescale k st u : totc k (rescale_factors st) u = scl st u * totc k st u.
  Proof. unfold totc, EP.rescale_factors; cbn [fedge fblock fnode fst snd].
    rewrite !ctr_rescale, !sel_vscal. lra. Qed.

  Lemma rescale_factors_good st : Good st ->
    Good (rescale_factors st) /\ (forall u, post (rescale_factors st) u = post st u) /\
    (forall u, scl (rescale_factors st) u = 1).
  Proof. intros [HI HP]. split; [split|split].
    - intros k u. rewrite totc_rescale. cbn [EP.rescale_factors post scl]. rewrite (HI k u).
      change (one RNum) with 1. lra.
    - intro u. cbn. lra.
    - reflexivity.
    - reflexivity.
  Qed.

  Lemma mr_good st p c : Good st -> Good (mr RNum tiny ep ec bj bk st p c).
  Proof. intro H. unfold mr. destruct (_ || _); [apply rescale_factors_good|]; exact H. Qed.
  Lemma mr_post st p c u : post (mr RNum tiny ep ec bj bk st p c) u = post st u.
  Proof. unfold mr. destruct (_ || _); reflexivity. Qed.

  (** ** one message update *)
  Definition nrows (unph : bool) : nat := if unph then nB else nE.
  Definition parof (unph : bool) : nat -> nat := if unph then bj else ep.
  Definition chiof (unph : bool) : nat -> nat := if unph then bk else ec.
  Definition sidenode (unph side : bool) (i : nat) : nat :=
    if side then chiof unph i else parof unph i.

  Lemma ctr_side_set k par chi fa i (side : bool) m u n : (i < n)%nat ->
    rsum n (ctr k par chi (updf fa i (side_set RNum side (fa i) m)) u)
    = rsum n (ctr k par chi fa u)
      + (if Nat.eqb ((if side then chi else par) i) u
         then sel k m - sel k (side_get RNum side (fa i)) else 0).
  Proof. intro Hi.
    rewrite (rsum_upd n (ctr k par chi fa u) _ i Hi).
    2:{ intros j Hj. unfold ctr, updf. destruct (Nat.eqb_spec j i); [contradiction|reflexivity]. }
    unfold ctr, updf. rewrite Nat.eqb_refl.
    destruct side; cbn [side_set side_get fst snd];
      destruct (Nat.eqb (par i) u), (Nat.eqb (chi i) u); lra. Qed.

  Lemma totc_fset k unph side st i m u : (i < nrows unph)%nat ->
    totc k (fset RNum unph st i (side_set RNum side (fget RNum unph st i) m)) u
    = totc k st u + (if Nat.eqb (sidenode unph side i) u
                     then sel k m - sel k (side_get RNum side (fget RNum unph st i)) else 0).
  Proof. intro Hi. unfold totc, fset, fget, sidenode, parof, chiof, nrows in *.
    destruct unph; cbn [fedge fblock fnode]; rewrite ctr_side_set by exact Hi; destruct side; lra. Qed.

  Lemma apply_one_good unph side st i u d cav new eta :
    Good st -> (i < nrows unph)%nat -> sidenode unph side i = u -> 0 < eta ->
    cav = cavof RNum unph side st i u d ->
    Good (apply_one RNum unph side st i u d cav new eta).
  Proof.
    intros [HI HP] Hi Hu Heta Hcav. pose proof (HP u) as Hpu. split.
    - intros k w. unfold apply_one.
      set (m := vadd _ _).
      assert (Hs : forall x, scl (fset RNum unph st i x) = scl st) by (intro; unfold fset; destruct unph; reflexivity).
      assert (Hp : forall x, post (fset RNum unph st i x) = post st) by (intro; unfold fset; destruct unph; reflexivity).
      change (totc k (mkSt _ _ (fedge ?s) (fblock ?s) (fnode ?s)) w) with (totc k s w).
      cbn [post scl]. rewrite Hs, Hp, totc_fset by exact Hi. rewrite Hu. unfold updf.
      destruct (Nat.eqb_spec w u) as [->|Hne].
      + rewrite Nat.eqb_refl. rewrite sel_vscal.
        subst m. rewrite sel_vadd, sel_vscal, sel_vdiv, sel_vsub. subst cav.
        unfold cavof, msgof. rewrite sel_vsub, !sel_vscal. pose proof (HI k u) as E.
        cbn [sub mul one RNum T]. rewrite E. field. lra.
      + destruct (Nat.eqb_spec u w); [congruence|]. rewrite (HI k w). lra.
    - intro w. unfold apply_one. cbn [scl]. unfold updf.
      assert (Hs : forall x, scl (fset RNum unph st i x) = scl st) by (intro; unfold fset; destruct unph; reflexivity).
      rewrite Hs. destruct (Nat.eqb w u); [|apply HP].
      cbn [mul RNum]. apply Rmult_lt_0_compat; [apply HP|exact Heta].
  Qed.

  (** ** every step of [propagate_likelihood] preserves the invariant *)
  Section Step.
    Variable unph : bool.
    Variable lik : nat -> RV.
    Variable S s : R.
    Hypothesis HS : 1 < S.

    Notation step_rel := (step_rel RNum tiny ep ec bj bk lo hi Orc project unph (parof unph) (chiof unph) lik S s).

    Lemma step_good so i so' : (i < nrows unph)%nat -> step_rel so i so' -> Good (fst so) -> Good (fst so').
    Proof.
      intros Hi Hr. destruct Hr; cbn [fst]; intro HG.
      - apply mr_good; exact HG.
      - apply apply_one_good; auto using mr_good. eapply rescale1_pos; eassumption.
      - apply apply_one_good; auto using mr_good. eapply rescale1_pos; eassumption.
      - set (st := mr RNum tiny ep ec bj bk st0 (parof unph i) (chiof unph i)) in *.
        set (d := if ltb RNum dc dp then dc else dp) in *.
        assert (G1 : Good (apply_one RNum unph false st i (parof unph i) d
                             (cavof RNum unph false st i (parof unph i) d) newp etap)).
        { apply apply_one_good; auto. subst st; apply mr_good; exact HG. eapply rescale1_pos; eassumption. }
        apply apply_one_good; auto. eapply rescale1_pos; eassumption.
        unfold cavof, msgof.
        rewrite apply_one_post_other by congruence.
        rewrite apply_one_scl_other by congruence.
        rewrite (apply_one_other_side RNum unph false). reflexivity.
    Qed.

    Lemma edge_loop_good order so so' :
      edge_loop RNum tiny ep ec bj bk lo hi Orc project unph (nrows unph) (parof unph) (chiof unph) lik S s order so = Some so' ->
      Good (fst so) -> Good (fst so').
    Proof. apply (edge_loop_ind RNum tiny ep ec bj bk lo hi Orc project unph (parof unph) (chiof unph) lik S s
                    (fun so => Good (fst so)) (nrows unph)).
      intros; eapply step_good; eassumption. Qed.

    Lemma propagate_likelihood_good order so so' :
      propagate_likelihood RNum tiny ep ec bj bk lo hi Orc project unph (nrows unph) (parof unph) (chiof unph) lik S s order so = Some so' ->
      Good (fst so) -> Good (fst so').
    Proof. unfold propagate_likelihood. destruct (_ && _); [apply edge_loop_good|discriminate]. Qed.
  End Step.

  (** ** [propagate_prior] preserves the invariant, for every penalty *)
  Section Prior.
    Variable free : nat -> bool.
    Variable S : R.
    Hypothesis HS : 1 < S.

    Lemma prior_set_good cav pen st u : Good st -> cav u = prior_cavity RNum st u ->
      Good (prior_set RNum cav pen st u).
    Proof. intros [HI HP] Hc. pose proof (HP u) as Hpu. split; [|exact HP].
      intros k w. unfold prior_set, totc. cbn [post scl fedge fblock fnode]. unfold updf.
      destruct (Nat.eqb_spec w u) as [->|Hne].
      - cbn [fst snd]. rewrite sel_vdiv, sel_vsub, Hc. unfold prior_cavity. rewrite sel_vsub, sel_vscal.
        pose proof (HI k u) as E. unfold totc in E.
        destruct k; cbn [sel fst snd add RNum] in *.
        + unfold vsub, vscal in *. cbn [fst snd sub mul add RNum T] in *.
          set (a := rsum nE _) in *. set (b := rsum nB _) in *.
          destruct (post st u) as [p0 p1]. destruct (fnode st u) as [[m0 m1] [c0 c1]]. cbn [fst snd] in *.
          generalize dependent (scl st u). intros sc. intros. rewrite E. field. lra.
        + unfold vsub, vscal in *. cbn [fst snd sub mul add RNum T] in *.
          set (a := rsum nE _) in *. set (b := rsum nB _) in *.
          destruct (post st u) as [p0 p1]. destruct (fnode st u) as [[m0 m1] [c0 c1]]. cbn [fst snd] in *.
          generalize dependent (scl st u). intros sc. intros. rewrite E. field. lra.
      - apply HI.
    Qed.

    Lemma prior_set_cavity_other cav pen (st : Rstate) u w : w <> u ->
      prior_cavity RNum (prior_set RNum cav pen st u) w = prior_cavity RNum st w.
    Proof. intro H. unfold prior_cavity, prior_set, updf. cbn [post scl fnode].
      destruct (Nat.eqb_spec w u); [contradiction|reflexivity]. Qed.

    Lemma prior_sets_good cav pen l : NoDup l -> forall st, Good st ->
      (forall u, In u l -> cav u = prior_cavity RNum st u) ->
      Good (fold_left (prior_set RNum cav pen) l st).
    Proof. induction 1 as [|a l Ha Hnd IH]; intros st HG Hc; cbn [fold_left]; [exact HG|].
      apply IH.
      - apply prior_set_good; [exact HG|apply Hc; left; reflexivity].
      - intros u Hu. rewrite prior_set_cavity_other by (intro; subst; contradiction).
        apply Hc; right; exact Hu. Qed.

    Lemma prior_cap_good ost u st' : (forall st, ost = Some st -> Good st) ->
      prior_cap RNum S ost u = Some st' -> Good st'.
    Proof. intros H. unfold prior_cap. destruct ost as [st|]; cbn [obind]; [|discriminate].
      destruct (rescale1 (post st u) S) as [eta|] eqn:E; cbn [obind]; [|discriminate].
      intro Q; inversion Q; subst; clear Q. destruct (H st eq_refl) as [HI HP].
      pose proof (rescale1_pos _ _ _ HS E) as He. split.
      - intros k w. unfold totc. cbn [post scl fedge fblock fnode]. unfold updf.
        destruct (Nat.eqb_spec w u) as [->|]; [|apply HI].
        rewrite sel_vscal. pose proof (HI k u) as Q. unfold totc in Q. rewrite Q. cbn [mul RNum]. lra.
      - intro w. cbn [scl]. unfold updf. destruct (Nat.eqb w u); [|apply HP].
        cbn [mul RNum]. apply Rmult_lt_0_compat; [apply HP|exact He].
    Qed.

    Lemma prior_caps_good l : forall ost st', (forall st, ost = Some st -> Good st) ->
      fold_left (prior_cap RNum S) l ost = Some st' -> Good st'.
    Proof. induction l as [|a l IH]; intros ost st' H; cbn [fold_left].
      - intro E. apply H; exact E.
      - apply IH. intros st E. eapply prior_cap_good; eassumption. Qed.

    Lemma free_nodes_nodup : NoDup (free_nodes nN free).
    Proof. unfold free_nodes. apply NoDup_filter, seq_NoDup. Qed.

    Lemma prior_update_good pen st st' : Good st ->
      prior_update RNum nN free S pen st = Some st' -> Good st'.
    Proof. intros HG. unfold prior_update. apply prior_caps_good.
      intros st1 E; inversion E; subst. apply prior_sets_good; auto using free_nodes_nodup. Qed.

    Lemma propagate_prior_good mx rt st st' : Good st ->
      propagate_prior RNum infty nN free S mx rt st = Some st' -> Good st'.
    Proof. intro HG. unfold propagate_prior. destruct (negb _); [discriminate|].
      destruct (free_nodes nN free) eqn:E; [intro Q; inversion Q; subst; exact HG|].
      rewrite <- E. destruct (ltb RNum _ _); [|discriminate]. apply prior_update_good; exact HG. Qed.
  End Prior.

  (** ** a whole [iterate], and any number of them *)
  Section Iterate.
    Variable block_order edge_order : list nat.
    Variable blik elik : nat -> RV.
    Variable free : nat -> bool.
    Variable S s : R.
    Variable mx : nat.
    Variable rt : R.
    Variable regularise : bool.
    Hypothesis HS : 1 < S.

    Notation iterate := (iterate RNum tiny infty nE ep ec nB bj bk nN lo hi Orc project
                           block_order edge_order blik elik free S s mx rt regularise).

    Lemma iterate_good so so' : iterate so = Some so' -> Good (fst so) ->
      Good (fst so') /\ (forall u, scl (fst so') u = 1) /\ (forall u, post (fst so') u = assemble (fst so') u).
    Proof.
      unfold EP.iterate. intros H HG.
      match type of H with obind ?a _ = _ => destruct a as [so1|] eqn:E1 end; cbn [obind] in H; [|discriminate].
      match type of H with obind ?a _ = _ => destruct a as [so2|] eqn:E2 end; cbn [obind] in H; [|discriminate].
      pose proof (propagate_likelihood_good true blik S s HS _ _ _ E1 HG) as G1.
      pose proof (propagate_likelihood_good false elik S s HS _ _ _ E2 G1) as G2.
      assert (G3 : forall st3, (if regularise then propagate_prior RNum infty nN free S mx rt (fst so2) else Some (fst so2)) = Some st3 -> Good st3).
      { intros st3. destruct regularise; [apply propagate_prior_good; assumption|]. intro Q; inversion Q; subst; exact G2. }
      destruct (if regularise then _ else _) as [st3|]; cbn [obind] in H; [|discriminate].
      inversion H; subst; clear H. cbn [fst].
      destruct (rescale_factors_good st3 (G3 st3 eq_refl)) as (G4 & _ & Hone).
      split; [exact G4|]. split; [exact Hone|].
      intro u. apply sel_ext. intro k. rewrite sel_assemble. destruct G4 as [HI _].
      rewrite (HI k u), Hone. lra.
    Qed.

    Lemma iterate_n_good k : forall so so', iterate_n RNum tiny infty nE ep ec nB bj bk nN lo hi Orc project
         block_order edge_order blik elik free S s mx rt regularise k so = Some so' ->
      Good (fst so) -> Good (fst so').
    Proof. induction k as [|k IH]; intros so so' H HG; cbn in H.
      - inversion H; subst; exact HG.
      - destruct (iterate so) as [so1|] eqn:E; cbn [obind] in H; [|discriminate].
        eapply IH; [exact H|]. eapply iterate_good; eassumption. Qed.
  End Iterate.

  (** ** every sequence of operations *)
  Notation op := (op RNum).
  Notation run_op := (run_op RNum tiny infty nE ep ec nB bj bk nN lo hi Orc project).
  Notation run_ops := (run_ops RNum tiny infty nE ep ec nB bj bk nN lo hi Orc project).

  Definition shape_ok (o : op) : Prop :=
    match op_shape RNum o with Some sh => 1 < sh | None => True end.

  Lemma run_op_good o so so' : shape_ok o -> run_op o so = Some so' -> Good (fst so) -> Good (fst so').
  Proof. destruct o as [unph order lik S s|free S mx rt|free S pen|]; unfold shape_ok; cbn [op_shape EPSpec.run_op]; intros HS H HG.
    - exact (propagate_likelihood_good unph lik S s HS order so so' H HG).
    - destruct (propagate_prior _ _ _ _ _ _ _ _) as [st|] eqn:E; cbn [obind] in H; [|discriminate].
      inversion H; subst; cbn [fst]. eapply propagate_prior_good; eassumption.
    - destruct (prior_update _ _ _ _ _ _) as [st|] eqn:E; cbn [obind] in H; [|discriminate].
      inversion H; subst; cbn [fst]. eapply prior_update_good; eassumption.
    - inversion H; subst; cbn [fst]. apply rescale_factors_good; exact HG.
  Qed.

  Lemma run_ops_good ops so so' : Forall shape_ok ops -> run_ops ops so = Some so' ->
    Good (fst so) -> Good (fst so').
  Proof. intros HQ H HG.
    exact (run_ops_ind RNum tiny infty nE ep ec nB bj bk nN lo hi Orc project (fun so1 => Good (fst so1)) shape_ok
             run_op_good ops so so' HQ H HG). Qed.

  (** ** the invariant in model terms: [post u = assemble u * scale u] *)
  Definition consistent (st : Rstate) : Prop :=
    forall u, post st u = vscal (assemble st u) (scl st u).

  Lemma consistent_inv st : consistent st <-> Inv st.
  Proof. split.
    - intros H k u. rewrite (H u), sel_vscal, sel_assemble. lra.
    - intros H u. apply sel_ext. intro k. rewrite (H k u), sel_vscal, sel_assemble. lra. Qed.
End Inv.

(** ** Statements in the form used by props/C21.v *)
Section Final.
  Variable tiny infty : R.
  Variable nE : nat.
  Variable ep ec : nat -> nat.
  Variable nB : nat.
  Variable bj bk : nat -> nat.
  Variable nN : nat.
  Variable lo hi : nat -> R.
  Variable Orc : Type.
  Variable project : Orc -> call RNum -> option (RV * RV * Orc).

  Notation consistent := (consistent nE ep ec nB bj bk).
  Notation assemble := (assemble RNum nE ep ec nB bj bk).

  Lemma C21_inv ops so so' :
    Forall shape_ok ops ->
    run_ops RNum tiny infty nE ep ec nB bj bk nN lo hi Orc project ops so = Some so' ->
    consistent (fst so) -> (forall u, 0 < scl (fst so) u) ->
    consistent (fst so') /\ (forall u, 0 < scl (fst so') u).
  Proof. intros HQ H HC HP.
    destruct (run_ops_good tiny infty nE ep ec nB bj bk nN lo hi Orc project ops so so' HQ H) as [HI HP'].
    - split; [apply consistent_inv; exact HC|exact HP].
    - split; [apply consistent_inv; exact HI|exact HP']. Qed.

  Lemma C21_iter block_order edge_order blik elik free S s mx rt regularise so so' :
    1 < S ->
    iterate RNum tiny infty nE ep ec nB bj bk nN lo hi Orc project block_order edge_order blik elik
      free S s mx rt regularise so = Some so' ->
    consistent (fst so) -> (forall u, 0 < scl (fst so) u) ->
    (forall u, scl (fst so') u = 1) /\ (forall u, post (fst so') u = assemble (fst so') u) /\
    consistent (fst so').
  Proof. intros HS H HC HP.
    destruct (iterate_good tiny infty nE ep ec nB bj bk nN lo hi Orc project block_order edge_order blik elik
                free S s mx rt regularise HS so so' H) as ([HI _] & H1 & H2).
    - split; [apply consistent_inv; exact HC|exact HP].
    - split; [exact H1|]. split; [exact H2|]. apply consistent_inv; exact HI. Qed.

  Lemma C21_iter_n block_order edge_order blik elik free S s mx rt regularise k o so' :
    1 < S ->
    iterate_n RNum tiny infty nE ep ec nB bj bk nN lo hi Orc project block_order edge_order blik elik
      free S s mx rt regularise (Datatypes.S k) (init, o) = Some so' ->
    (forall u, scl (fst so') u = 1) /\ (forall u, post (fst so') u = assemble (fst so') u).
  Proof. intros HS H.
    assert (G : forall k so, Good nE ep ec nB bj bk (fst so) ->
      iterate_n RNum tiny infty nE ep ec nB bj bk nN lo hi Orc project block_order edge_order blik elik
        free S s mx rt regularise (Datatypes.S k) so = Some so' ->
      (forall u, scl (fst so') u = 1) /\ (forall u, post (fst so') u = assemble (fst so') u)).
    { clear H o k. intro k. induction k as [|k IH]; intros so HG H; cbn [iterate_n] in H.
      - match type of H with obind ?a _ = _ => destruct a as [so1|] eqn:E end; cbn [obind] in H; [|discriminate].
        inversion H; subst.
        destruct (iterate_good tiny infty nE ep ec nB bj bk nN lo hi Orc project block_order edge_order blik elik
                    free S s mx rt regularise HS _ _ E HG) as (_ & H1 & H2). split; assumption.
      - match type of H with obind ?a _ = _ => destruct a as [so1|] eqn:E end; cbn [obind] in H; [|discriminate].
        apply (IH so1); [|exact H].
        apply (iterate_good tiny infty nE ep ec nB bj bk nN lo hi Orc project block_order edge_order blik elik
                    free S s mx rt regularise HS _ _ E HG). }
    apply (G k (init, o)); [apply init_good|exact H].
  Qed.

  Lemma C21_rf (st : Rstate) :
    consistent st -> (forall u, 0 < scl st u) ->
    (forall u, post (rescale_factors RNum ep ec bj bk st) u = post st u) /\
    (forall u, scl (rescale_factors RNum ep ec bj bk st) u = 1) /\
    (forall u, post st u = assemble (rescale_factors RNum ep ec bj bk st) u).
  Proof. intros HC HP.
    destruct (rescale_factors_good nE ep ec nB bj bk st) as (G & H1 & H2).
    - split; [apply consistent_inv; exact HC|exact HP].
    - split; [exact H1|]. split; [exact H2|]. intro u. rewrite <- H1. apply sel_ext. intro k.
      destruct G as [HI _]. rewrite (HI k u), H2, sel_assemble. lra. Qed.
End Final.
