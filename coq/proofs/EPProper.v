(** * Proper, shape-capped posteriors (C05): every posterior written by an EP operation is
    either the initial (0,0) or has [1/S <= shape <= S] and a positive rate, for ARBITRARY
    projection results (improper ones trip the assertions of [_rescale]); plus the facts about
    [_damp] and the phase switch. *)
From Coq Require Import Reals Lra Field List Arith Lia Bool Psatz.
From TsdateV Require Import lib.Num model.EP proofs.EPSpec.
Import ListNotations.
Open Scope R_scope.

Notation RV := (V2 RNum).
Notation Rstate := (state RNum).

(** natural parameters (alpha, beta): shape = alpha + 1, rate = beta *)
Definition proper (S : R) (x : R * R) : Prop :=
  x = (0, 0) \/ (1 / S <= fst x + 1 <= S /\ 0 < snd x).

Lemma viszero_true (x0 x1 : R) : viszero (N:=RNum) (x0, x1) = true <-> (x0 = 0 /\ x1 = 0).
Proof. unfold viszero. cbn [fst snd eqb zero RNum]. rewrite andb_true_iff, !Reqb_true. tauto. Qed.

Lemma inv_le_1 S : 1 <= S -> 0 < 1 / S <= 1.
Proof. intro H. split.
  - apply Rdiv_lt_0_compat; lra.
  - apply Rmult_le_reg_r with S; [lra|]. unfold Rdiv. rewrite Rmult_assoc, Rinv_l by lra. lra. Qed.

Lemma rescale1_proper S (x : RV) eta : 1 <= S -> rescale1 x S = Some eta -> proper S (vscal x eta).
Proof.
  intros HS. destruct x as [x0 x1]. unfold rescale1, proper, vscal.
  cbn [ltb leb eqb add sub mul div zero one RNum T fst snd].
  destruct (viszero _) eqn:Z.
  - apply viszero_true in Z. destruct Z; subst. intro H; inversion H; subst. left. f_equal; lra.
  - destruct (Rltb 0 (x0 + 1)) eqn:E1; cbn [negb]; [|discriminate].
    destruct (Rltb 0 x1) eqn:E2; cbn [negb]; [|discriminate].
    apply Rltb_true in E1. apply Rltb_true in E2.
    pose proof (inv_le_1 S HS) as [Hi0 Hi1].
    destruct (Rltb S (1 + x0)) eqn:E3.
    + apply Rltb_true in E3. intro H; inversion H; subst; clear H.
      destruct (Req_dec S 1) as [->|Hne].
      * left. f_equal; unfold Rdiv; lra.
      * right. replace (x0 * ((S - 1) / x0)) with (S - 1) by (field; lra). split; [lra|].
        apply Rmult_lt_0_compat; [lra|]. apply Rdiv_lt_0_compat; lra.
    + apply Rltb_false in E3.
      destruct (Rltb (1 + x0) (1 / S)) eqn:E4; intro H; inversion H; subst; clear H.
      * apply Rltb_true in E4.
        destruct (Req_dec S 1) as [->|Hne].
        -- left. f_equal; unfold Rdiv; rewrite ?Rinv_1; lra.
        -- right. replace (x0 * ((1 / S - 1) / x0)) with (1 / S - 1) by (field; lra).
           split; [lra|]. apply Rmult_lt_0_compat; [lra|].
           assert (1 / S < 1).
           { apply Rmult_lt_reg_r with S; [lra|]. unfold Rdiv. rewrite Rmult_assoc, Rinv_l by lra. lra. }
           replace ((1 / S - 1) / x0) with ((1 - 1 / S) / (- x0)) by (field; lra).
           apply Rdiv_lt_0_compat; lra.
      * apply Rltb_false in E4. right. split; lra.
Qed.

(** ** [_damp]: the damped cavity keeps a fraction [s] of shape and rate *)
Lemma damp_spec (x y : RV) s d : damp x y s = Some d ->
  d = 1 /\ x = (0, 0) /\ y = (0, 0) \/
  (0 < s < 1 /\ 0 < fst x + 1 /\ 0 < snd x /\ 0 < d <= 1 /\
   s * (fst x + 1) <= fst x + 1 - d * fst y /\ s * snd x <= snd x - d * snd y).
Proof.
  destruct x as [x0 x1], y as [y0 y1]. unfold damp.
  cbn [ltb leb eqb add sub mul div zero one RNum T fst snd].
  match goal with |- (if ?c then _ else _) = _ -> _ => destruct c eqn:Z end.
  - apply andb_true_iff in Z. destruct Z as [Zy Zx]. apply viszero_true in Zy, Zx.
    destruct Zy, Zx; subst. intro H; inversion H; subst. left. repeat split; reflexivity.
  - destruct (Rltb 0 s && Rltb s 1) eqn:Es; cbn [negb]; [|discriminate].
    apply andb_true_iff in Es. destruct Es as [Es0 Es1]. apply Rltb_true in Es0, Es1.
    destruct (Rltb 0 (x0 + 1)) eqn:E1; cbn [negb]; [|discriminate].
    destruct (Rltb 0 x1) eqn:E2; cbn [negb]; [|discriminate].
    apply Rltb_true in E1, E2.
    set (a := if Rltb ((1 + x0) * s) (1 + x0 - y0) then 1 else (1 - s) * (1 + x0) / y0).
    set (b := if Rltb (x1 * s) (x1 - y1) then 1 else (1 - s) * x1 / y1).
    set (d0 := if Rltb b a then b else a).
    destruct (Rltb 0 d0 && Rleb d0 1) eqn:Ed; [|discriminate].
    apply andb_true_iff in Ed. destruct Ed as [Ed0 Ed1]. apply Rltb_true in Ed0. apply Rleb_true in Ed1.
    intro H; inversion H; subst d; clear H. right.
    assert (Hda : d0 <= a) by (unfold d0; destruct (Rltb b a) eqn:Q; [apply Rltb_true in Q; lra|lra]).
    assert (Hdb : d0 <= b) by (unfold d0; destruct (Rltb b a) eqn:Q; [lra|apply Rltb_false in Q; lra]).
    repeat split; try lra.
    + (* shape *)
      destruct (Rle_or_lt y0 0) as [Hy|Hy].
      * assert (d0 * y0 <= 0) by nra. nra.
      * unfold a in Hda. destruct (Rltb ((1 + x0) * s) (1 + x0 - y0)) eqn:Q.
        -- apply Rltb_true in Q. assert (d0 * y0 <= y0) by nra. nra.
        -- assert (d0 * y0 <= (1 - s) * (1 + x0)).
           { apply Rmult_le_compat_r with (r := y0) in Hda; [|lra].
             replace ((1 - s) * (1 + x0) / y0 * y0) with ((1 - s) * (1 + x0)) in Hda by (field; lra). exact Hda. }
           nra.
    + (* rate *)
      destruct (Rle_or_lt y1 0) as [Hy|Hy].
      * assert (d0 * y1 <= 0) by nra. nra.
      * unfold b in Hdb. destruct (Rltb (x1 * s) (x1 - y1)) eqn:Q.
        -- apply Rltb_true in Q. assert (d0 * y1 <= y1) by nra. nra.
        -- assert (d0 * y1 <= (1 - s) * x1).
           { apply Rmult_le_compat_r with (r := y1) in Hdb; [|lra].
             replace ((1 - s) * x1 / y1 * y1) with ((1 - s) * x1) in Hdb by (field; lra). exact Hdb. }
           nra.
Qed.

Section Proper.
  Variable tiny infty : R.
  Variable nE : nat.
  Variable ep ec : nat -> nat.
  Variable nB : nat.
  Variable bj bk : nat -> nat.
  Variable nN : nat.
  Variable lo hi : nat -> R.
  Variable Orc : Type.
  Variable project : Orc -> call RNum -> option (RV * RV * Orc).
  Variable S : R.
  Hypothesis HS : 1 <= S.

  Definition Proper (st : Rstate) : Prop := forall u, proper S (post st u).

  Lemma init_proper : Proper (@init RNum).
  Proof. intro u. left. reflexivity. Qed.

  Lemma apply_one_proper unph side (st : Rstate) i u d cav (new : RV) eta :
    Proper st -> rescale1 new S = Some eta -> Proper (apply_one RNum unph side st i u d cav new eta).
  Proof. intros HP Hr w. unfold apply_one. cbn [post]. rewrite fset_post. unfold updf.
    destruct (Nat.eqb w u); [apply rescale1_proper; assumption|apply HP]. Qed.

  Lemma step_proper unph par chi lik s so i so' :
    step_rel RNum tiny ep ec bj bk lo hi Orc project unph par chi lik S s so i so' ->
    Proper (fst so) -> Proper (fst so').
  Proof. intros Hr. destruct Hr; cbn [fst]; intro HP.
    - intro u. rewrite mr_post. apply HP.
    - apply apply_one_proper; [|assumption]. intro u. rewrite mr_post. apply HP.
    - apply apply_one_proper; [|assumption]. intro u. rewrite mr_post. apply HP.
    - apply apply_one_proper; [|assumption]. apply apply_one_proper; [|assumption].
      intro u. rewrite mr_post. apply HP.
  Qed.

  Lemma prior_caps_proper l : forall ost (st' : Rstate),
    fold_left (prior_cap RNum S) l ost = Some st' ->
    exists st, ost = Some st /\
      forall u, (In u l -> proper S (post st' u)) /\ (~ In u l -> post st' u = post st u).
  Proof. induction l as [|a l IH]; intros ost st' H; cbn [fold_left] in H.
    - exists st'. split; [exact H|]. intro u. split; [intros []|reflexivity].
    - destruct (IH _ _ H) as (st1 & E1 & P1).
      unfold prior_cap in E1. destruct ost as [st|]; cbn [obind] in E1; [|discriminate].
      destruct (rescale1 (post st a) S) as [eta|] eqn:Er; cbn [obind] in E1; [|discriminate].
      inversion E1; subst; clear E1. exists st. split; [reflexivity|]. intro u. split.
      + intro Hin. destruct (in_dec Nat.eq_dec u l) as [Hl|Hl]; [apply P1; exact Hl|].
        destruct Hin as [->|Hin]; [|contradiction].
        destruct (P1 u) as [_ Q]. rewrite (Q Hl). cbn [post]. unfold updf. rewrite Nat.eqb_refl.
        apply rescale1_proper; assumption.
      + intro Hn. destruct (P1 u) as [_ Q]. rewrite Q by (intro; apply Hn; right; assumption).
        cbn [post]. unfold updf. destruct (Nat.eqb_spec u a); [|reflexivity].
        exfalso; apply Hn; left; congruence.
  Qed.

  Lemma prior_update_proper free pen (st st' : Rstate) : Proper st ->
    prior_update RNum nN free S pen st = Some st' -> Proper st'.
  Proof. intros HP H. unfold prior_update in H.
    destruct (prior_caps_proper _ _ _ H) as (st1 & E & P). inversion E; subst; clear E.
    intro u. destruct (in_dec Nat.eq_dec u (free_nodes nN free)) as [Hin|Hn].
    - apply P; exact Hin.
    - destruct (P u) as [_ Q]. rewrite (Q Hn). rewrite prior_sets_post_other by exact Hn. apply HP.
  Qed.

  Notation op := (op RNum).
  Definition shape_is (o : op) : Prop :=
    match op_shape RNum o with Some sh => sh = S | None => True end.

  Lemma run_op_proper o so so' : shape_is o ->
    run_op RNum tiny infty nE ep ec nB bj bk nN lo hi Orc project o so = Some so' ->
    Proper (fst so) -> Proper (fst so').
  Proof. destruct o as [unph order lik S' s|free S' mx rt|free S' pen|]; unfold shape_is; cbn [op_shape run_op]; intros HQ H HP; subst.
    - unfold propagate_likelihood in H. destruct (_ && _); [|discriminate].
      eapply (edge_loop_ind RNum tiny ep ec bj bk lo hi Orc project unph _ _ lik S s (fun so1 => Proper (fst so1)));
        [|exact H|exact HP].
      intros so1 i so2 _ Hr. eapply step_proper; exact Hr.
    - destruct (propagate_prior _ _ _ _ _ _ _ _) as [st|] eqn:E; cbn [obind] in H; [|discriminate].
      inversion H; subst; cbn [fst]. unfold propagate_prior in E.
      destruct (negb _); [discriminate|]. destruct (free_nodes nN free) eqn:Q; [inversion E; subst; exact HP|].
      rewrite <- Q in E. destruct (ltb RNum _ _); [|discriminate].
      eapply prior_update_proper; eassumption.
    - destruct (prior_update _ _ _ _ _ _) as [st|] eqn:E; cbn [obind] in H; [|discriminate].
      inversion H; subst; cbn [fst]. eapply prior_update_proper; eassumption.
    - inversion H; subst; cbn [fst]. exact HP.
  Qed.

  Lemma run_ops_proper ops so so' : Forall shape_is ops ->
    run_ops RNum tiny infty nE ep ec nB bj bk nN lo hi Orc project ops so = Some so' ->
    Proper (fst so) -> Proper (fst so').
  Proof. intros HQ H HP.
    exact (run_ops_ind RNum tiny infty nE ep ec nB bj bk nN lo hi Orc project (fun so1 => Proper (fst so1)) shape_is
             run_op_proper ops so so' HQ H HP). Qed.

  Lemma iterate_proper block_order edge_order blik elik free s mx rt regularise so so' :
    iterate RNum tiny infty nE ep ec nB bj bk nN lo hi Orc project block_order edge_order blik elik
      free S s mx rt regularise so = Some so' -> Proper (fst so) -> Proper (fst so').
  Proof. rewrite iterate_as_ops. apply run_ops_proper.
    repeat constructor; destruct regularise; repeat constructor. Qed.

  Lemma iterate_n_proper block_order edge_order blik elik free s mx rt regularise k : forall so so',
    iterate_n RNum tiny infty nE ep ec nB bj bk nN lo hi Orc project block_order edge_order blik elik
      free S s mx rt regularise k so = Some so' -> Proper (fst so) -> Proper (fst so').
  Proof. induction k as [|k IH]; intros so so' H HP; cbn [iterate_n] in H.
    - inversion H; subst; exact HP.
    - match type of H with obind ?a _ = _ => destruct a as [so1|] eqn:E end; cbn [obind] in H; [|discriminate].
      eapply IH; [exact H|]. eapply iterate_proper; eassumption. Qed.

  (** mean, variance and shape of a proper, updated posterior *)
  Lemma proper_moments (st : Rstate) u : proper S (post st u) -> post st u <> (0, 0) ->
    eqb RNum (lo u) (hi u) = false ->
    let mv := node_moments RNum lo hi st u in
    0 < fst mv /\ 0 < snd mv /\ fst mv * fst mv / snd mv = fst (post st u) + 1 /\
    fst mv * fst mv / snd mv <= S.
  Proof. intros [E|[[H1 H2] H3]] Hne Hf; [contradiction|]. unfold node_moments. rewrite Hf. cbn [negb fst snd].
    destruct (post st u) as [a b]. cbn [fst snd add div one RNum T] in *.
    pose proof (inv_le_1 S HS) as [Hi0 Hi1].
    assert (Ha : 0 < a + 1) by lra.
    assert (Hm : 0 < (a + 1) / b) by (apply Rdiv_lt_0_compat; lra).
    split; [exact Hm|]. split; [apply Rdiv_lt_0_compat; lra|].
    assert (Q : (a + 1) / b * ((a + 1) / b) / ((a + 1) / b / b) = a + 1) by (field; lra).
    rewrite Q. split; lra. Qed.
End Proper.

(** ** the phase switch of [infer] *)
Lemma switch_phase_range (p : R) : 0 <= p <= 1 ->
  1 / 2 <= switch_phase RNum (1 / 2) p <= 1.
Proof. intro H. unfold switch_phase. cbn [ltb sub one RNum T].
  destruct (Rltb p (1 / 2)) eqn:E; [apply Rltb_true in E|apply Rltb_false in E]; lra. Qed.

(** the mutation is placed on the edge whose (switched) phase is reported *)
Lemma switch_consistent (first second : nat) (p : R) : 0 <= p <= 1 ->
  (switch_edge RNum (1 / 2) first second p = first /\ switch_phase RNum (1 / 2) p = p) \/
  (switch_edge RNum (1 / 2) first second p = second /\ switch_phase RNum (1 / 2) p = 1 - p).
Proof. intro H. unfold switch_edge, switch_phase. cbn [ltb sub one RNum T].
  destruct (Rltb p (1 / 2)); [right|left]; split; reflexivity. Qed.

(** ** Statements in the form used by props/C05.v *)
Lemma C05_inv (tiny infty : R) nE ep ec nB bj bk nN (lo hi : nat -> R) (Orc : Type)
    (project : Orc -> call RNum -> option (RV * RV * Orc)) (S : R) ops so so' :
  1 <= S -> Forall (shape_is S) ops ->
  run_ops RNum tiny infty nE ep ec nB bj bk nN lo hi Orc project ops so = Some so' ->
  (forall u, proper S (post (fst so) u)) -> forall u, proper S (post (fst so') u).
Proof. intros HS HQ H HP. exact (run_ops_proper tiny infty nE ep ec nB bj bk nN lo hi Orc project S HS ops so so' HQ H HP). Qed.

Lemma C05_iters (tiny infty : R) nE ep ec nB bj bk nN (lo hi : nat -> R) (Orc : Type)
    (project : Orc -> call RNum -> option (RV * RV * Orc)) (S : R)
    block_order edge_order blik elik free s mx rt regularise k o so' :
  1 <= S ->
  iterate_n RNum tiny infty nE ep ec nB bj bk nN lo hi Orc project block_order edge_order blik elik
    free S s mx rt regularise k (init, o) = Some so' ->
  forall u, proper S (post (fst so') u).
Proof. intros HS H.
  exact (iterate_n_proper tiny infty nE ep ec nB bj bk nN lo hi Orc project S HS block_order edge_order blik elik free s mx rt regularise k
           (init, o) so' H (init_proper S)). Qed.

Lemma C05_mom (lo hi : nat -> R) (S : R) (st : Rstate) u :
  1 <= S -> proper S (post st u) -> post st u <> (0, 0) -> eqb RNum (lo u) (hi u) = false ->
  0 < fst (node_moments RNum lo hi st u) /\ 0 < snd (node_moments RNum lo hi st u) /\
  fst (node_moments RNum lo hi st u) * fst (node_moments RNum lo hi st u) / snd (node_moments RNum lo hi st u)
    = fst (post st u) + 1 /\
  fst (node_moments RNum lo hi st u) * fst (node_moments RNum lo hi st u) / snd (node_moments RNum lo hi st u) <= S.
Proof. intros HS HP Hne Hf. exact (proper_moments lo hi S HS st u HP Hne Hf). Qed.
