(** * Facts about the interval computation of preprocess_ts (C28), over the reals *)
From Coq Require Import List Bool Reals Lra Sorting.Sorted Sorting.Permutation QArith.
From TsdateV Require Import lib.Num model.Preprocess.
Import ListNotations.
Open Scope R_scope.

Notation itv := (R * R)%type.

(** ** Generic: insertion sort by left end *)
Definition fst_le (a b : itv) : Prop := fst a <= fst b.
Definition chain (a b : itv) : Prop := snd a <= fst b.       (* a ends before b starts *)
Definition disj (a b : itv) : Prop := snd a <= fst b \/ snd b <= fst a.

Lemma insert_perm x l : Permutation (insert RNum x l) (x :: l).
Proof.
  induction l as [|y r IH]; simpl; auto.
  match goal with |- context[if ?c then _ else _] => destruct c end; auto.
  eapply perm_trans; [apply perm_skip; exact IH | apply perm_swap].
Qed.

Lemma sort_perm l : Permutation (sort_by_left RNum l) l.
Proof.
  induction l as [|x r IH]; simpl; auto.
  eapply perm_trans; [apply insert_perm | apply perm_skip; exact IH].
Qed.

Lemma insert_sorted x l :
  StronglySorted fst_le l -> StronglySorted fst_le (insert RNum x l).
Proof.
  induction l as [|y r IH]; intros H; simpl.
  - constructor; constructor.
  - inversion H as [|? ? Hr Hy]; subst.
    match goal with |- context[if ?c then _ else _] => destruct c eqn:E end.
    + apply Rleb_true in E. constructor; [exact H|].
      constructor; [exact E|]. rewrite Forall_forall in *. intros z Hz. specialize (Hy z Hz).
      unfold fst_le in *. lra.
    + apply Rleb_false in E. constructor; [apply IH; exact Hr|].
      rewrite Forall_forall. intros z Hz.
      apply (Permutation_in _ (insert_perm x r)) in Hz. destruct Hz as [Hz | Hz].
      * subst z. unfold fst_le. lra.
      * rewrite Forall_forall in Hy. apply Hy; exact Hz.
Qed.

Lemma sort_sorted l : StronglySorted fst_le (sort_by_left RNum l).
Proof. induction l; simpl; [constructor | apply insert_sorted; assumption]. Qed.

(** pairwise disjointness does not depend on the order *)
Lemma disj_sym a b : disj a b -> disj b a.
Proof. unfold disj; tauto. Qed.

Lemma FOP_perm (l l' : list itv) :
  Permutation l l' -> ForallOrdPairs disj l -> ForallOrdPairs disj l'.
Proof.
  induction 1 as [| x l l' Hp IH | x y l | l l' l'' H1 IH1 H2 IH2]; intros H.
  - exact H.
  - inversion H; subst. constructor; [| apply IH; assumption].
    eapply Permutation_Forall; eassumption.
  - inversion H as [|? ? Hy Hr]; subst. inversion Hr as [|? ? Hx Hl]; subst.
    inversion Hy as [|? ? Hyx Hyl]; subst.
    constructor; [constructor; [apply disj_sym; exact Hyx | exact Hx] |].
    constructor; [exact Hyl | exact Hl].
  - apply IH2, IH1, H.
Qed.

Lemma chain_FOP l : StronglySorted chain l -> ForallOrdPairs disj l.
Proof.
  induction 1 as [|a l Hs IH Ha]; constructor; auto.
  eapply Forall_impl; [| exact Ha]. intros b Hb. left. exact Hb.
Qed.

(** sorted by left end + pairwise disjoint + non-empty  =>  each ends before the next starts *)
Lemma sorted_disj_chain l :
  Forall (fun iv : itv => fst iv < snd iv) l ->
  StronglySorted fst_le l -> ForallOrdPairs disj l -> StronglySorted chain l.
Proof.
  induction l as [|a l IH]; intros Hne Hs Hd; [constructor|].
  inversion Hne; subst. inversion Hs as [|? ? Hs' Ha]; subst. inversion Hd as [|? ? Hda Hd']; subst.
  constructor; [apply IH; assumption|].
  rewrite Forall_forall in *. intros b Hb.
  specialize (Ha b Hb). specialize (Hda b Hb).
  match goal with H : forall x, In x l -> fst x < snd x |- _ => specialize (H b Hb) end.
  unfold chain, fst_le, disj in *. lra.
Qed.

(** ** The intervals of preprocess_ts *)
Definition sites_ok (L : R) (sites : list R) : Prop :=
  StronglySorted Rlt sites /\ Forall (fun x => 0 <= x < L) sites.

Lemma gaps_cons mg a b rest :
  gaps RNum mg (a :: b :: rest) =
  (if Rleb mg (b - a) then (if Rltb (a + 1) (b - 1) then [(a + 1, b - 1)] else []) else [])
  ++ gaps RNum mg (b :: rest).
Proof. reflexivity. Qed.

Lemma gaps_spec mg sites iv :
  In iv (gaps RNum mg sites) ->
  exists pre post a b, sites = pre ++ a :: b :: post /\ mg <= b - a /\
                       iv = (a + 1, b - 1) /\ a + 1 < b - 1.
Proof.
  induction sites as [|a rest IH]; [intros []|].
  destruct rest as [|b rest]; [intros []|].
  rewrite gaps_cons. intros H. apply in_app_or in H. destruct H as [H | H].
  - destruct (Rleb mg (b - a)) eqn:E1; [|destruct H].
    destruct (Rltb (a + 1) (b - 1)) eqn:E2; [|destruct H].
    destruct H as [H | []]. apply Rleb_true in E1. apply Rltb_true in E2.
    exists [], rest, a, b. repeat split; auto.
  - destruct (IH H) as (pre & post & a' & b' & Hs & Hm & Hi & Hl).
    exists (a :: pre), post, a', b'. repeat split; auto. simpl. f_equal. exact Hs.
Qed.

(** in a strictly increasing list the elements around a consecutive pair are outside it *)
Lemma sorted_split (pre post : list R) a b :
  StronglySorted Rlt (pre ++ a :: b :: post) ->
  a < b /\ (forall x, In x pre -> x < a) /\ (forall x, In x post -> b < x).
Proof.
  induction pre as [|p pre IH]; simpl; intros H.
  - inversion H as [|? ? Hs Ha]; subst. inversion Ha as [|? ? Hab Hpost]; subst.
    inversion Hs as [|? ? Hs' Hb]; subst.
    split; [exact Hab|]. split; [intros x []|].
    rewrite Forall_forall in Hb. exact Hb.
  - inversion H as [|? ? Hs Hp]; subst. destruct (IH Hs) as (Hab & Hpre & Hpost).
    split; [exact Hab|]. split; [|exact Hpost].
    intros x [Hx | Hx]; [|apply Hpre; exact Hx]. subst x.
    rewrite Forall_forall in Hp. apply Hp. apply in_or_app. right. left. reflexivity.
Qed.

Lemma sorted_head_le (s0 : R) rest x :
  StronglySorted Rlt (s0 :: rest) -> In x (s0 :: rest) -> s0 <= x.
Proof.
  intros H [Hx | Hx]; [subst; lra|]. inversion H as [|? ? _ Hf]; subst.
  rewrite Forall_forall in Hf. specialize (Hf x Hx). lra.
Qed.

Lemma sorted_last_ge (sites : list R) d x :
  StronglySorted Rlt sites -> In x sites -> x <= last sites d.
Proof.
  revert x. induction sites as [|a rest IH]; intros x; [intros _ []|].
  intros H Hx. inversion H as [|? ? Hs Hf]; subst.
  destruct rest as [|b rest]; [destruct Hx as [Hx | []]; subst; simpl; lra|].
  change (last (a :: b :: rest) d) with (last (b :: rest) d).
  destruct Hx as [Hx | Hx].
  - subst x. assert (b <= last (b :: rest) d) by (apply IH; [exact Hs | left; reflexivity]).
    rewrite Forall_forall in Hf. specialize (Hf b (or_introl eq_refl)). lra.
  - apply IH; assumption.
Qed.

Lemma last_in (sites : list R) d : sites <> [] -> In (last sites d) sites.
Proof.
  induction sites as [|a rest IH]; [congruence|]. intros _.
  destruct rest as [|b rest]; [left; reflexivity|].
  right. change (last (a :: b :: rest) d) with (last (b :: rest) d). apply IH. discriminate.
Qed.

(** what each computed interval is *)
Inductive origin (L mg : R) (sites : list R) : itv -> Prop :=
| OLeft s0 rest : sites = s0 :: rest -> 0 < s0 - 1 -> origin L mg sites (0, s0 - 1)
| ORight s0 rest : sites = s0 :: rest -> last sites s0 + 1 < L -> origin L mg sites (last sites s0 + 1, L)
| OGap pre post a b : sites = pre ++ a :: b :: post -> mg <= b - a -> a + 1 < b - 1 ->
                      origin L mg sites (a + 1, b - 1).

Lemma unsorted_origin erase mg L sites iv :
  In iv (unsorted_intervals RNum erase mg L sites) ->
  origin L mg sites iv /\ (erase = false -> exists pre post a b, sites = pre ++ a :: b :: post /\ iv = (a + 1, b - 1)).
Proof.
  unfold unsorted_intervals. intros H. apply in_app_or in H. destruct H as [H | H].
  - destruct erase; [|destruct H]. split; [|discriminate].
    apply in_app_or in H. destruct H as [H | H].
    + unfold left_flank in H. destruct sites as [|s0 rest]; [destruct H|].
      simpl in H. destruct (Rltb 0 (s0 - 1)) eqn:E; [|destruct H]. destruct H as [H | []]. subst iv.
      apply Rltb_true in E. eapply OLeft; eauto.
    + unfold right_flank in H. destruct sites as [|s0 rest]; [destruct H|].
      cbn [add sub one ltb RNum] in H.
      destruct (Rltb (last (s0 :: rest) s0 + 1) L) eqn:E; [|destruct H]. destruct H as [H | []]. subst iv.
      apply Rltb_true in E. eapply ORight; eauto.
  - destruct (gaps_spec mg sites iv H) as (pre & post & a & b & Hs & Hm & Hi & Hl). subst iv.
    split; [eapply OGap; eauto|]. intros _. exists pre, post, a, b. auto.
Qed.

(** an interval of a given origin is inside [0, L], non-empty and contains no site *)
Lemma origin_good L mg sites iv :
  sites_ok L sites -> origin L mg sites iv ->
  0 <= fst iv /\ fst iv < snd iv /\ snd iv <= L /\
  (forall x, In x sites -> ~ (fst iv <= x < snd iv)).
Proof.
  intros [Hs Hr] Ho. rewrite Forall_forall in Hr. destruct Ho as [s0 rest E H0 | s0 rest E H0 | pre post a b E Hm Hl]; simpl.
  - subst sites. assert (0 <= s0 < L) by (apply Hr; left; reflexivity).
    repeat split; try lra. intros x Hx [_ Hc]. pose proof (sorted_head_le s0 rest x Hs Hx). lra.
  - assert (Hin : In (last sites s0) sites) by (apply last_in; subst; discriminate).
    pose proof (Hr _ Hin). repeat split; try lra.
    intros x Hx [Hc _]. pose proof (sorted_last_ge sites s0 x Hs Hx). lra.
  - subst sites. destruct (sorted_split pre post a b Hs) as (Hab & Hpre & Hpost).
    assert (0 <= a < L) by (apply Hr; apply in_or_app; right; left; reflexivity).
    assert (0 <= b < L) by (apply Hr; apply in_or_app; right; right; left; reflexivity).
    repeat split; try lra.
    intros x Hx [H1 H2]. apply in_app_or in Hx. destruct Hx as [Hx | [Hx | [Hx | Hx]]].
    + specialize (Hpre x Hx). lra.
    + subst x. lra.
    + subst x. lra.
    + specialize (Hpost x Hx). lra.
Qed.

Lemma SS_app {A} (Rel : A -> A -> Prop) (l1 l2 : list A) :
  StronglySorted Rel l1 -> StronglySorted Rel l2 ->
  (forall a b, In a l1 -> In b l2 -> Rel a b) -> StronglySorted Rel (l1 ++ l2).
Proof.
  induction l1 as [|x l1 IH]; simpl; intros H1 H2 Hc; [exact H2|].
  inversion H1 as [|? ? Hs Hx]; subst. constructor.
  - apply IH; auto.
  - rewrite Forall_forall in *. intros y Hy. apply in_app_or in Hy. destruct Hy as [Hy | Hy].
    + apply Hx; exact Hy.
    + apply Hc; [left; reflexivity | exact Hy].
Qed.

Lemma gaps_bounds mg (s0 : R) rest iv :
  StronglySorted Rlt (s0 :: rest) -> In iv (gaps RNum mg (s0 :: rest)) ->
  s0 + 1 <= fst iv /\ snd iv <= last (s0 :: rest) s0 - 1.
Proof.
  intros Hs H. destruct (gaps_spec mg _ iv H) as (pre & post & a & b & E & _ & Hi & _). subst iv. cbn [fst snd].
  assert (Ha : In a (s0 :: rest)) by (rewrite E; apply in_or_app; right; left; reflexivity).
  assert (Hb : In b (s0 :: rest)) by (rewrite E; apply in_or_app; right; right; left; reflexivity).
  pose proof (sorted_head_le s0 rest a Hs Ha). pose proof (sorted_last_ge (s0 :: rest) s0 b Hs Hb). split; lra.
Qed.

Lemma gaps_chain mg sites : StronglySorted Rlt sites -> StronglySorted chain (gaps RNum mg sites).
Proof.
  induction sites as [|a rest IH]; intros Hs; [constructor|].
  destruct rest as [|b rest]; [constructor|].
  rewrite gaps_cons. inversion Hs as [|? ? Hs' Ha]; subst.
  apply SS_app.
  - destruct (Rleb mg (b - a)); [|constructor]. destruct (Rltb (a + 1) (b - 1)); repeat constructor.
  - apply IH; exact Hs'.
  - intros x y Hx Hy.
    destruct (Rleb mg (b - a)); [|destruct Hx]. destruct (Rltb (a + 1) (b - 1)); [|destruct Hx].
    destruct Hx as [Hx | []]. subst x. destruct (gaps_bounds mg b rest y Hs' Hy) as [Hy1 _].
    unfold chain; cbn [fst snd T RNum] in *; lra.
Qed.

Definition canonical (erase : bool) (mg L : R) (sites : list R) : list itv :=
  (if erase then left_flank RNum sites else []) ++ gaps RNum mg sites
  ++ (if erase then right_flank RNum L sites else []).

Lemma unsorted_perm erase mg L sites :
  Permutation (unsorted_intervals RNum erase mg L sites) (canonical erase mg L sites).
Proof.
  unfold unsorted_intervals, canonical. destruct erase; simpl.
  - rewrite <- app_assoc. apply Permutation_app_head. apply Permutation_app_comm.
  - rewrite app_nil_r. apply Permutation_refl.
Qed.

Lemma canonical_chain erase mg L sites :
  sites_ok L sites -> StronglySorted chain (canonical erase mg L sites).
Proof.
  intros [Hs Hr]. unfold canonical. destruct sites as [|s0 rest].
  - destruct erase; simpl; constructor.
  - apply SS_app; [| apply SS_app |].
    + destruct erase; [|constructor]. unfold left_flank. cbn [sub one zero ltb RNum].
      match goal with |- context[if ?c then _ else _] => destruct c end; repeat constructor.
    + apply gaps_chain; exact Hs.
    + destruct erase; [|constructor]. unfold right_flank. cbn [add one ltb RNum].
      match goal with |- context[if ?c then _ else _] => destruct c end; repeat constructor.
    + intros x y Hx Hy. destruct erase; [|destruct Hy].
      unfold right_flank in Hy. cbn [add one ltb RNum] in Hy.
      match type of Hy with context[if ?c then _ else _] => destruct c end; [|destruct Hy]. destruct Hy as [Hy | []]. subst y.
      destruct (gaps_bounds mg s0 rest x Hs Hx) as [_ Hx2]. unfold chain; cbn [fst snd T RNum] in *; lra.
    + intros x y Hx Hy. destruct erase; [|destruct Hx].
      unfold left_flank in Hx. cbn [sub one zero ltb RNum] in Hx.
      match type of Hx with context[if ?c then _ else _] => destruct c end; [|destruct Hx]. destruct Hx as [Hx | []]. subst x.
      apply in_app_or in Hy. destruct Hy as [Hy | Hy].
      * destruct (gaps_bounds mg s0 rest y Hs Hy) as [Hy1 _]. unfold chain; cbn [fst snd T RNum] in *; lra.
      * unfold right_flank in Hy. cbn [add one ltb RNum] in Hy.
        match type of Hy with context[if ?c then _ else _] => destruct c end; [|destruct Hy]. destruct Hy as [Hy | []]. subst y.
        pose proof (sorted_last_ge (s0 :: rest) s0 s0 Hs (or_introl eq_refl)). unfold chain; cbn [fst snd T RNum] in *; lra.
Qed.

(** ** The theorems *)
Theorem intervals_site_free (erase : bool) (mg L : R) (sites : list R) (iv : itv) :
  sites_ok L sites ->
  In iv (computed_intervals RNum erase mg L sites) ->
  0 <= fst iv /\ fst iv < snd iv /\ snd iv <= L /\
  (forall x, In x sites -> ~ (fst iv <= x < snd iv)) /\
  origin L mg sites iv /\
  (erase = false -> exists pre post a b, sites = pre ++ a :: b :: post /\ iv = (a + 1, b - 1)).
Proof.
  intros Hok Hin. unfold computed_intervals in Hin.
  apply (Permutation_in _ (sort_perm _)) in Hin.
  destruct (unsorted_origin erase mg L sites iv Hin) as [Ho He].
  destruct (origin_good L mg sites iv Hok Ho) as (H1 & H2 & H3 & H4).
  repeat split; auto.
Qed.

Theorem intervals_disjoint_sorted (erase : bool) (mg L : R) (sites : list R) :
  sites_ok L sites ->
  StronglySorted fst_le (computed_intervals RNum erase mg L sites) /\
  StronglySorted chain (computed_intervals RNum erase mg L sites).
Proof.
  intros Hok. split; [apply sort_sorted|].
  apply sorted_disj_chain.
  - rewrite Forall_forall. intros iv Hin.
    destruct (intervals_site_free erase mg L sites iv Hok Hin) as (_ & H & _). exact H.
  - apply sort_sorted.
  - unfold computed_intervals. eapply FOP_perm.
    + apply Permutation_sym. eapply perm_trans; [apply sort_perm | apply unsorted_perm].
    + apply chain_FOP. apply canonical_chain. exact Hok.
Qed.

(** conversely: the flanks (when erase_flanks) and every gap of at least [minimum_gap]
    that leaves room between the two sites ARE removed *)
Lemma gaps_complete mg pre post a b :
  mg <= b - a -> a + 1 < b - 1 -> In (a + 1, b - 1) (gaps RNum mg (pre ++ a :: b :: post)).
Proof.
  intros Hm Hl. induction pre as [|p pre IH].
  - simpl app. rewrite gaps_cons. apply in_or_app. left.
    destruct (Rleb_true mg (b - a)) as [_ H1]. rewrite (H1 Hm).
    destruct (Rltb_true (a + 1) (b - 1)) as [_ H2]. rewrite (H2 Hl). left; reflexivity.
  - simpl app. destruct (pre ++ a :: b :: post) as [|q r] eqn:E; [destruct pre; discriminate|].
    rewrite gaps_cons. apply in_or_app. right. exact IH.
Qed.

Theorem intervals_complete (erase : bool) (mg L : R) (sites : list R) :
  (forall pre post a b, sites = pre ++ a :: b :: post -> mg <= b - a -> a + 1 < b - 1 ->
     In (a + 1, b - 1) (computed_intervals RNum erase mg L sites)) /\
  (erase = true -> forall s0 rest, sites = s0 :: rest ->
     (0 < s0 - 1 -> In (0, s0 - 1) (computed_intervals RNum erase mg L sites)) /\
     (last sites s0 + 1 < L -> In (last sites s0 + 1, L) (computed_intervals RNum erase mg L sites))).
Proof.
  unfold computed_intervals, unsorted_intervals. split.
  - intros pre post a b E Hm Hl. apply (Permutation_in _ (Permutation_sym (sort_perm _))).
    apply in_or_app. right. subst sites. apply gaps_complete; assumption.
  - intros -> s0 rest E. subst sites. split; intros H;
      apply (Permutation_in _ (Permutation_sym (sort_perm _))); apply in_or_app; left; apply in_or_app.
    + left. unfold left_flank. simpl. simpl in H.
      destruct (Rltb _ _) eqn:Ec; [simpl; left; reflexivity|].
      apply Rltb_false in Ec. lra.
    + right. unfold right_flank. simpl. simpl in H.
      destruct (Rltb _ _) eqn:Ec; [simpl; left; reflexivity|].
      apply Rltb_false in Ec. lra.
Qed.

(** user-supplied intervals: passed on verbatim, and only without minimum_gap / erase_flanks /
    remove_telomeres *)
Theorem user_intervals_verbatim (rt ef : option bool) (mg : option R) (ivs : list itv) L sites r :
  preprocess_intervals RNum rt ef mg (Some ivs) L sites = Some r ->
  r = ivs /\ rt = None /\ ef = None /\ mg = None.
Proof.
  unfold preprocess_intervals. destruct rt, ef, mg; simpl; intros H; try discriminate.
  inversion H; auto.
Qed.

Theorem user_intervals_conflict (rt ef : option bool) (mg : option R) (ivs : list itv) L sites :
  rt <> None \/ ef <> None \/ mg <> None ->
  preprocess_intervals RNum rt ef mg (Some ivs) L sites = None.
Proof.
  unfold preprocess_intervals. destruct rt, ef, mg; simpl; intros [H | [H | H]]; congruence.
Qed.

Theorem computed_when_no_user_intervals (rt ef : option bool) (mg : option R) L sites r :
  preprocess_intervals RNum rt ef mg None L sites = Some r ->
  sites <> [] /\ (rt = None \/ ef = None) /\
  r = computed_intervals RNum
        (match rt, ef with Some b, _ => b | None, Some b => b | None, None => true end)
        (match mg with Some g => g | None => 1000000 end) L sites.
Proof.
  unfold preprocess_intervals. destruct rt as [b1|], ef as [b2|]; simpl; try discriminate;
    destruct sites as [|s0 rest]; try discriminate; intros H; inversion H; subst;
    (split; [discriminate|]); (split; [auto|]); destruct mg; reflexivity.
Qed.

(** non-vacuity over Q: sites 5, 6, 30, 31.5, 90 on [0, 100), minimum_gap 20 *)
Lemma example_nonvacuous :
  computed_intervals QNum true 20%Q 100%Q [5; 6; 30; 63 # 2; 90]%Q
    = [(0, 4); (7, 29); (65 # 2, 89); (91, 100)]%Q /\
  computed_intervals QNum false 24%Q 100%Q [5; 6; 30; 63 # 2; 90]%Q = [(7, 29); (65 # 2, 89)]%Q /\
  computed_intervals QNum false 25%Q 100%Q [5; 6; 30; 63 # 2; 90]%Q = [(65 # 2, 89)]%Q /\
  preprocess_intervals QNum None None None (Some [(10, 20)]%Q) 100%Q [5; 6]%Q = Some [(10, 20)]%Q /\
  preprocess_intervals QNum None (Some false) None (Some [(10, 20)]%Q) 100%Q [5; 6]%Q = None /\
  preprocess_intervals QNum None None None None 100%Q [] = None.
Proof. vm_compute. repeat split; reflexivity. Qed.
