(** * The belief-propagation recursion [U] equals brute-force enumeration (C10).

    A labelling of a tree gives every internal node one grid index in [0, G); [labelings t]
    enumerates ALL of them (G ^ #internal nodes).  The weight of a labelling is the product
    of the priors of the internal nodes at their indices and of the edge likelihoods, and it
    is 0 when a child is younger than... i.e. has a larger index than its parent.  Then
      sum over labelings with root index i of the weight  =  U t i
      sum over all labelings of the weight                =  sum_i U t i  (the normalising constant). *)
From Coq Require Import List Arith Bool Lia Reals Lra Permutation.
From TsdateV Require Import lib.Num model.Discrete proofs.DiscreteBase proofs.DiscreteInside proofs.DiscreteOutside proofs.DiscreteLog proofs.DiscreteTree.
Import ListNotations.
Open Scope R_scope.

(** a labelling: same shape as the tree, one index per internal node *)
Inductive ltree : Type := LLeaf | LNode (i : nat) (ls : list ltree).

(** cartesian product of a list of lists *)
Fixpoint list_prod {A} (ls : list (list A)) : list (list A) :=
  match ls with
  | [] => [[]]
  | l :: r => flat_map (fun x => map (cons x) (list_prod r)) l
  end.

Lemma sumR_app a b : sumR (a ++ b) = sumR a + sumR b.
Proof. induction a as [|x a IH]; unfold sumR in *; cbn [app fold_right]; [lra|]. rewrite IH. lra. Qed.

Lemma sumR_flat_map {A B} (f : B -> R) (g : A -> list B) l :
  sumR (map f (flat_map g l)) = sumR (map (fun x => sumR (map f (g x))) l).
Proof. induction l as [|x l IH]; [reflexivity|]. cbn [flat_map map]. rewrite map_app, sumR_app, IH.
  unfold sumR at 3. cbn [fold_right]. reflexivity. Qed.

Lemma sumR_scale_l {A} (f : A -> R) k l : sumR (map (fun x => k * f x) l) = k * sumR (map f l).
Proof. induction l as [|x l IH]; unfold sumR in *; cbn [map fold_right]; [lra|]. rewrite IH. lra. Qed.

Section Brute.
  Variable G : nat.
  Variable lik : nat -> nat -> nat -> R.
  Variable priorv : nat -> list R.
  Notation pr := (pr priorv).
  Notation U := (U lik priorv).
  Notation M := (M lik priorv).

  (** all labelings of [t]: every internal node independently takes every index below G *)
  Fixpoint labelings (t : tree) : list ltree :=
    match t with
    | Leaf _ _ => [LLeaf]
    | Node _ _ cs => flat_map (fun i => map (LNode i) (list_prod (map labelings cs))) (seq 0 G)
    end.

  (** likelihood of the edge above child [c] (labelled [l]) when the parent sits at index [i]:
      0 if the child has a larger index than its parent *)
  Definition eterm (i : nat) (c : tree) (l : ltree) : R :=
    match c, l with
    | Leaf e _, _ => lik e i 0
    | Node e _ _, LNode j _ => if Nat.leb j i then lik e i j else 0
    | Node _ _ _, LLeaf => 0
    end.

  (** weight of a labelling: priors of the internal nodes times likelihoods of all edges *)
  Fixpoint wt (t : tree) (l : ltree) : R :=
    match t, l with
    | Leaf _ _, _ => 1
    | Node _ u cs, LNode i ls =>
        pr u i * (fix go (cs : list tree) (ls : list ltree) : R :=
                    match cs, ls with
                    | [], [] => 1
                    | c :: cr, l' :: lr => eterm i c l' * wt c l' * go cr lr
                    | _, _ => 0
                    end) cs ls
    | Node _ _ _, LLeaf => 0
    end.

  Definition wchildren (i : nat) : list tree -> list ltree -> R :=
    fix go (cs : list tree) (ls : list ltree) : R :=
      match cs, ls with
      | [], [] => 1
      | c :: cr, l' :: lr => eterm i c l' * wt c l' * go cr lr
      | _, _ => 0
      end.

  Lemma wt_node e u cs i ls : wt (Node e u cs) (LNode i ls) = pr u i * wchildren i cs ls.
  Proof. reflexivity. Qed.

  (** sum over the product of the children's labelings = product of the children's sums *)
  Lemma sum_children i : forall cs,
    sumR (map (wchildren i cs) (list_prod (map labelings cs)))
    = prodR (map (fun c => sumR (map (fun l => eterm i c l * wt c l) (labelings c))) cs).
  Proof. induction cs as [|c r IH]; cbn [map list_prod].
    - unfold sumR, prodR. cbn. lra.
    - rewrite sumR_flat_map. unfold prodR. cbn [fold_right]. fold (prodR (map (fun c0 => sumR (map (fun l => eterm i c0 l * wt c0 l) (labelings c0))) r)).
      rewrite <- IH. rewrite <- (sumR_map_scale (fun l => eterm i c l * wt c l)).
      apply sumR_map_ext. intros x _. rewrite map_map.
      rewrite (sumR_map_ext _ (fun ls => (eterm i c x * wt c x) * wchildren i r ls)) by (intros; reflexivity).
      now rewrite sumR_scale_l. Qed.

  (** sum over [seq 0 G] with the indicator j <= i, for i < G *)
  Lemma sum_indicator (f : nat -> R) i : (i < G)%nat ->
    sumR (map (fun j => if Nat.leb j i then f j else 0) (seq 0 G)) = sumR (map f (seq 0 (i + 1))).
  Proof. intro Hi. replace G with ((i + 1) + (G - (i + 1)))%nat at 1 by lia. rewrite seq_app, map_app, sumR_app.
    rewrite (sumR_map_ext _ f (seq 0 (i + 1))).
    - rewrite (sumR_map_ext _ (fun _ => 0) (seq (0 + (i + 1)) _)).
      + assert (Hz : forall l : list nat, sumR (map (fun _ => 0) l) = 0).
        { induction l as [|x l IHl]; unfold sumR in *; cbn [map fold_right]; [reflexivity|]. rewrite IHl. lra. }
        rewrite Hz. lra.
      + intros j Hj. apply in_seq in Hj. destruct (Nat.leb_spec j i); [lia|reflexivity].
    - intros j Hj. apply in_seq in Hj. destruct (Nat.leb_spec j i); [reflexivity|lia]. Qed.

  (** the labelings of [t] whose root carries index [i] *)
  Definition labelings_at (t : tree) (i : nat) : list ltree :=
    match t with
    | Leaf _ _ => [LLeaf]
    | Node _ _ cs => map (LNode i) (list_prod (map labelings cs))
    end.

  Theorem U_is_brute_force : forall t i, (i < G)%nat ->
    match t with
    | Leaf _ _ => True
    | Node _ _ _ => sumR (map (wt t) (labelings_at t i)) = U t i
    end.
  Proof. induction t as [e u|e u cs IH] using tree_ind'; intros i Hi; [exact I|].
    cbn [labelings_at]. rewrite map_map.
    rewrite (sumR_map_ext _ (fun ls => pr u i * wchildren i cs ls)) by (intros; apply wt_node).
    rewrite sumR_scale_l, sum_children. cbn [DiscreteTree.U]. f_equal. f_equal.
    apply map_ext_in. intros c Hc. rewrite Forall_forall in IH. specialize (IH c Hc).
    destruct c as [e' u'|e' u' cs'].
    - cbn [labelings map eterm wt msgR]. unfold sumR. cbn. lra.
    - cbn [labelings msgR]. rewrite sumR_flat_map.
      rewrite (sumR_map_ext _ (fun j => if Nat.leb j i then U (Node e' u' cs') j * lik e' i j else 0)).
      + now apply sum_indicator.
      + intros j Hj. apply in_seq in Hj. rewrite map_map.
        rewrite (sumR_map_ext _ (fun ls => (if Nat.leb j i then lik e' i j else 0) * wt (Node e' u' cs') (LNode j ls)))
          by (intros; reflexivity).
        rewrite sumR_scale_l. specialize (IH j ltac:(lia)). cbn [labelings_at] in IH. rewrite map_map in IH.
        rewrite IH. destruct (Nat.leb j i); lra. Qed.

  (** the normalising constant: the sum over ALL labelings *)
  Theorem Z_is_brute_force e u cs :
    sumR (map (wt (Node e u cs)) (labelings (Node e u cs))) = sumR (map (U (Node e u cs)) (seq 0 G)).
  Proof. cbn [labelings]. rewrite sumR_flat_map. apply sumR_map_ext. intros i Hi. apply in_seq in Hi.
    apply (U_is_brute_force (Node e u cs) i). lia. Qed.
End Brute.

(** ** C10 for the returned likelihood and for the root: the code against brute force *)
Theorem marginal_likelihood_exact : forall (G : nat) lik sfrac fixed priorv es root e cs st m,
  (forall e i j, 0 <= lik e i j) -> (forall u x, In x (priorv u) -> 0 <= x) -> (forall e, sfrac e = 1) ->
  let gs := groupby e_parent es in
  let t := Node e root cs in
  inside_order fixed [] gs ->
  inside_pass LinR G lik sfrac fixed priorv true es [(root, 1)] = Some (st, m) ->
  tree_ok G fixed priorv gs t -> all_pos G lik priorv t ->
  Permutation.Permutation (inodes t) (filter (fun p => negb (fixed p)) (map fst gs)) ->
  m = sumR (map (wt lik priorv t) (labelings G t)).
Proof. intros G lik sfrac fixed priorv es root e cs st m Hlik Hpr Hsf gs t Hord Hrun Hok Hpos Hperm.
  destruct (inside_pass_tree G lik sfrac fixed priorv es root e cs st m Hlik Hpr Hsf Hord Hrun Hok Hpos Hperm)
    as (_ & _ & ->). symmetry. apply Z_is_brute_force. Qed.

Theorem root_posterior_exact : forall (G : nat) lik sfrac fixed priorv es es_out nonfixed cache std num_nodes
    root e cs st m out,
  (forall e i j, 0 <= lik e i j) -> (forall u x, In x (priorv u) -> 0 <= x) -> (forall e, sfrac e = 1) ->
  let gs := groupby e_parent es in
  let gso := groupby e_child es_out in
  let t := Node e root cs in
  inside_order fixed [] gs ->
  inside_pass LinR G lik sfrac fixed priorv true es [(root, 1)] = Some (st, m) ->
  tree_ok G fixed priorv gs t -> all_pos G lik priorv t ->
  Permutation.Permutation (inodes t) (filter (fun p => negb (fixed p)) (map fst gs)) ->
  outside_order (map fst gso) [] gso -> ~ In root (map fst gso) -> In root nonfixed ->
  outside_pass LinR G lik sfrac fixed st cache std false num_nodes 0 es_out [(root, 1)] nonfixed = Some out ->
  exists v, posterior_grid LinR st out root = Some v /\ length v = G /\
    forall i, (i < G)%nat ->
      nth i v 0 / sumR v
      = sumR (map (wt lik priorv t) (labelings_at G t i)) / sumR (map (wt lik priorv t) (labelings G t)).
Proof. intros G lik sfrac fixed priorv es es_out nonfixed cache std num_nodes root e cs st m out
    Hlik Hpr Hsf gs gso t Hord Hrun Hok Hpos Hperm Hoo Hnc Hnf Hout.
  destruct (inside_pass_tree G lik sfrac fixed priorv es root e cs st m Hlik Hpr Hsf Hord Hrun Hok Hpos Hperm)
    as (HK & Hins & _).
  unfold outside_pass in Hout. fold gso in Hout.
  destruct (out_groups_spec LinR G lik sfrac fixed st cache std false num_nodes (map fst gso) gso [] _ _ Hoo
              (fun g Hg => in_map fst _ g Hg) Hout) as (Hkeep & _).
  assert (Hor : out root = Some (repeat 1 G)).
  { rewrite (Hkeep root Hnc). unfold out0.
    assert (Hex : existsb (Nat.eqb root) nonfixed = true) by (now apply existsb_eqb_In).
    rewrite Hex. cbn [find fst snd]. rewrite Nat.eqb_refl. reflexivity. }
  set (K := prodR (map (denf (i_den LinR st)) (inodes t))) in *.
  exists (map (fun i => U lik priorv t i / K) (seq 0 G)).
  split; [|split].
  - unfold posterior_grid. rewrite Hins, Hor. f_equal.
    apply (nth_ext _ _ 0 0).
    + rewrite (vcomb_length LinR), !map_length, seq_length, repeat_length. lia.
    + intros n Hn. rewrite (vcomb_length LinR), map_length, seq_length, repeat_length in Hn.
      rewrite (vcomb_nth LinR) by (rewrite ?map_length, ?seq_length, ?repeat_length; lia).
      rewrite (nth_indep (repeat 1 G) 0 1) by (rewrite repeat_length; lia).
      rewrite nth_repeat. cbn [s_comb LinR LinSpace mul RNum]. unfold K, t. apply Rmult_1_r.
  - now rewrite map_length, seq_length.
  - intros i Hi. rewrite nth_map_seq by exact Hi. cbn [Nat.add].
    rewrite (sumR_map_ext _ (fun i0 => U lik priorv t i0 * / K)) by (intros; reflexivity).
    rewrite sumR_map_scale.
    pose proof (U_is_brute_force G lik priorv t i Hi) as HU. cbn beta iota in HU. rewrite HU.
    unfold t. rewrite Z_is_brute_force. fold t.
    assert (Hs : 0 <> sumR (map (U lik priorv t) (seq 0 G)) -> U lik priorv t i / K / (sumR (map (U lik priorv t) (seq 0 G)) * / K)
                 = U lik priorv t i / sumR (map (U lik priorv t) (seq 0 G))) by (intro Hne; field; split; [intro E0; apply Hne; lra|unfold K, t; lra]).
    destruct (Req_EM_T 0 (sumR (map (U lik priorv t) (seq 0 G)))) as [E|E]; [|now apply Hs].
    rewrite <- E. unfold Rdiv. rewrite Rmult_0_l, !Rinv_0, !Rmult_0_r. reflexivity. Qed.

(** ** the hypotheses of the tree theorems are satisfiable: the caterpillar of the worked example,
    with all edge likelihoods 1 and small integer priors *)
Definition ex10R_lik (e i j : nat) : R := 1.
Definition ex10R_prior (u : nat) : list R :=
  if Nat.eqb u 3 then [0; 1; 2] else if Nat.eqb u 4 then [0; 3; 1] else [].
Definition ex10R_fixed (u : nat) : bool := Nat.ltb u 3.
Definition ex10R_es : list edge := [(0, 3, 0); (1, 3, 1); (2, 4, 2); (3, 4, 3)]%nat.
Definition ex10R_tree : tree := Node 99 4 [Leaf 2 2; Node 3 3 [Leaf 0 0; Leaf 1 1]].
Lemma C10_real_example :
  (forall e i j, 0 <= ex10R_lik e i j) /\ (forall u x, In x (ex10R_prior u) -> 0 <= x) /\
  inside_order ex10R_fixed [] (groupby e_parent ex10R_es) /\
  tree_ok 3 ex10R_fixed ex10R_prior (groupby e_parent ex10R_es) ex10R_tree /\
  all_pos 3 ex10R_lik ex10R_prior ex10R_tree /\
  Permutation (inodes ex10R_tree) (filter (fun p => negb (ex10R_fixed p)) (map fst (groupby e_parent ex10R_es))) /\
  U ex10R_lik ex10R_prior ex10R_tree 2 = 3.
Proof. split; [|split; [|split; [|split; [|split; [|split]]]]].
  - intros. unfold ex10R_lik. lra.
  - intros u x. unfold ex10R_prior. destruct (Nat.eqb u 3); [|destruct (Nat.eqb u 4)]; cbn [In]; intros H;
      repeat (destruct H as [<-|H]; [lra|]); contradiction.
  - apply inside_orderb_spec. reflexivity.
  - cbn. repeat split; auto.
  - cbn [all_pos]. split; [|split; [exact I|split; [|exact I]]].
    + exists 2%nat. split; [lia|]. cbn. unfold pr, ex10R_prior, ex10R_lik, sumR, prodR. cbn. lra.
    + split; [|cbn; auto]. exists 2%nat. split; [lia|]. cbn. unfold pr, ex10R_prior, ex10R_lik, sumR, prodR. cbn. lra.
  - cbn. apply perm_swap.
  - cbn. unfold pr, ex10R_prior, ex10R_lik, sumR, prodR. cbn. lra.
Qed.
