(** * outside_maximization picks the same grid indices in both probability spaces (C12/C13) *)
From Coq Require Import List Arith Bool Lia Reals Lra.
From TsdateV Require Import lib.Num model.Discrete model.DiscreteER proofs.DiscreteBase proofs.DiscreteInside
  proofs.DiscreteLog proofs.DiscreteLogRun.
Import ListNotations.
Open Scope R_scope.

Section MaxRun.
  Variable fixed : nat -> bool.
  Variable insL : nat -> option (list ER).
  Variable insR : nat -> option (list R).
  Hypothesis ins_rel : forall u, orel (insL u) (insR u).
  Variable poisL : nat -> nat -> nat -> ER.
  Variable poisR : nat -> nat -> nat -> R.
  Hypothesis pois_rel : forall e p t, rel (poisL e p t) (poisR e p t).
  Hypothesis pois_pos : forall e p t, 0 < poisR e p t.

  Lemma ll_mut_rel e p y : vrel (ll_mut LogER poisL e p y) (ll_mut LinR poisR e p y).
  Proof. unfold ll_mut. apply vrel_map2. intros t _. apply pois_rel. Qed.

  Lemma npmax_ll_nonzero (l : list R) : l <> [] -> (forall x, In x l -> 0 < x) -> npmax LinR l <> 0.
  Proof. intros Hne Hall. assert (0 < npmax LinR l) by (apply Hall; now apply npmax_In). lra. Qed.

  Lemma max_step_rel mx accL accR e :
    fst accL = fst accR -> vrel (snd accL) (snd accR) ->
    fst (max_step LogER poisL mx accL e) = fst (max_step LinR poisR mx accR e) /\
    vrel (snd (max_step LogER poisL mx accL e)) (snd (max_step LinR poisR mx accR e)).
  Proof. destruct accL as [yL rL], accR as [yR rR]. cbn [fst snd]. intros -> Hr. unfold max_step. cbn [fst snd].
    split; [reflexivity|].
    set (y := if Nat.ltb (mx (e_parent e)) yR then mx (e_parent e) else yR).
    apply vrel_app; [|now apply vrel_skipn].
    apply vrel_vcomb; [|now apply vrel_firstn].
    assert (Hsl : vrel (firstn (y + 1) (ll_mut LogER poisL (e_id e) (mx (e_parent e)) y))
                       (firstn (y + 1) (ll_mut LinR poisR (e_id e) (mx (e_parent e)) y)))
      by (apply vrel_firstn, ll_mut_rel).
    apply vrel_vratio; [exact Hsl|now apply rel_npmax|].
    apply npmax_ll_nonzero.
    - unfold ll_mut. replace (y + 1)%nat with (Datatypes.S y) by lia. cbn. discriminate.
    - intros x Hx. assert (Hin : In x (ll_mut LinR poisR (e_id e) (mx (e_parent e)) y)).
      { revert Hx. generalize (y + 1)%nat (ll_mut LinR poisR (e_id e) (mx (e_parent e)) y).
        intros n l. revert n. induction l as [|z l IH]; intros [|n]; cbn; try tauto. intros [->|H]; [now left|right; eauto]. }
      unfold ll_mut in Hin. apply in_map_iff in Hin. destruct Hin as (t & <- & _). apply pois_pos. Qed.

  Lemma max_fold_rel mx : forall es accL accR,
    fst accL = fst accR -> vrel (snd accL) (snd accR) ->
    fst (fold_left (max_step LogER poisL mx) es accL) = fst (fold_left (max_step LinR poisR mx) es accR) /\
    vrel (snd (fold_left (max_step LogER poisL mx) es accL)) (snd (fold_left (max_step LinR poisR mx) es accR)).
  Proof. induction es as [|e r IH]; intros accL accR H1 H2; cbn [fold_left]; [auto|].
    destruct (max_step_rel mx accL accR e H1 H2). now apply IH. Qed.

  Lemma max_group_agree mx g :
    max_group LogER fixed insL poisL mx g = max_group LinR fixed insR poisR mx g.
  Proof. destruct g as [c es]. unfold max_group. destruct (fixed c); [reflexivity|]. destruct es as [|e0 rest]; [reflexivity|].
    set (y0 := mx (e_parent e0)).
    assert (H0 : vrel (vratio LogER (ll_mut LogER poisL (e_id e0) y0 y0) (npmax LogER (ll_mut LogER poisL (e_id e0) y0 y0)))
                      (vratio LinR (ll_mut LinR poisR (e_id e0) y0 y0) (npmax LinR (ll_mut LinR poisR (e_id e0) y0 y0)))).
    { apply vrel_vratio; [apply ll_mut_rel|apply rel_npmax, ll_mut_rel|].
      apply npmax_ll_nonzero.
      - unfold ll_mut. replace (y0 + 1)%nat with (Datatypes.S y0) by lia. cbn. discriminate.
      - intros x Hx. unfold ll_mut in Hx. apply in_map_iff in Hx. destruct Hx as (t & <- & _). apply pois_pos. }
    pose proof (max_fold_rel mx rest (y0, _) (y0, _) eq_refl H0) as (Hy & Hres).
    destruct (fold_left (max_step LogER poisL mx) rest _) as [yL resL].
    destruct (fold_left (max_step LinR poisR mx) rest _) as [yR resR]. cbn [fst snd] in Hy, Hres. subst yR.
    pose proof (ins_rel c) as Hc. destruct (insL c) as [l|], (insR c) as [xs|]; cbn [orel] in Hc; try tauto.
    f_equal. f_equal. apply rel_argmax. apply vrel_vcomb; now apply vrel_firstn. Qed.

  Lemma max_groups_agree : forall gs mx,
    max_groups LogER fixed insL poisL mx gs = max_groups LinR fixed insR poisR mx gs.
  Proof. induction gs as [|g r IH]; intro mx; cbn [max_groups]; [reflexivity|].
    rewrite max_group_agree. destruct (max_group LinR fixed insR poisR mx g); [apply IH|reflexivity]. Qed.

  Lemma max_roots_agree : forall rs mx, max_roots LogER fixed insL mx rs = max_roots LinR fixed insR mx rs.
  Proof. induction rs as [|r rest IH]; intro mx; cbn [max_roots]; [reflexivity|].
    destruct (fixed r); [apply IH|]. pose proof (ins_rel r) as Hr.
    destruct (insL r) as [l|], (insR r) as [xs|]; cbn [orel] in Hr; try tauto.
    rewrite (rel_argmax l xs Hr). apply IH. Qed.

  (** the maximisation returns the same indices in both spaces *)
  Theorem maximization_agree n es :
    outside_maximization LogER fixed insL poisL n es = outside_maximization LinR fixed insR poisR n es.
  Proof. unfold outside_maximization. rewrite max_roots_agree.
    destruct (max_roots LinR fixed insR (fun _ => 0%nat) (mrcas n es)); [apply max_groups_agree|reflexivity]. Qed.
End MaxRun.
