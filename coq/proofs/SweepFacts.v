(** * Generic facts about the three-pointer sweep [model.Sweep.loop] with the standard
    condition [while a < num_edges or b < num_edges]:

    for insertion / removal queues sorted by their keys, with keys in [[0, L]], the loop
    terminates within [sweep_fuel], visits the positions [0, nxt 0, nxt (nxt 0), ...], and at
    position [x] runs [rmv] over exactly the edges with removal key [x] (in removal order),
    then [ins] over exactly the edges with insertion key [x], then [after x (nxt x)].
    [loop_sound] packages this as an invariant rule. *)
From Coq Require Import List ZArith Bool Arith Lia Sorting.Permutation Sorting.Sorted.
From TsdateV Require Import lib.Tables model.Sweep.
Import ListNotations.
Open Scope Z_scope.

Lemma filter_true_id {A} (p : A -> bool) l : (forall a, In a l -> p a = true) -> filter p l = l.
Proof. induction l as [|a r IH]; intro H; [reflexivity|]. cbn. rewrite (H a (or_introl eq_refl)).
  f_equal. apply IH. intros b Hb. apply H. right; exact Hb. Qed.

Lemma filter_false_nil {A} (p : A -> bool) l : (forall a, In a l -> p a = false) -> filter p l = [].
Proof. induction l as [|a r IH]; intro H; [reflexivity|]. cbn. rewrite (H a (or_introl eq_refl)).
  apply IH. intros b Hb. apply H. right; exact Hb. Qed.

Lemma filter_filter {A} (p q : A -> bool) l : filter p (filter q l) = filter (fun a => q a && p a) l.
Proof. induction l as [|a r IH]; [reflexivity|]. cbn. destruct (q a); cbn; [destruct (p a)|]; rewrite ?IH; reflexivity. Qed.

Lemma filter_length_le {A} (p : A -> bool) l : (length (filter p l) <= length l)%nat.
Proof. induction l as [|a r IH]; cbn; [lia|]. destruct (p a); cbn; lia. Qed.

Lemma filter_length_mono {A} (p q : A -> bool) l :
  (forall b, In b l -> p b = true -> q b = true) -> (length (filter p l) <= length (filter q l))%nat.
Proof. induction l as [|c r IH]; intro Himp; cbn; [lia|].
  assert (H := Himp c (or_introl eq_refl)).
  assert (IH' := IH (fun d Hd => Himp d (or_intror Hd))).
  destruct (p c) eqn:Ep; [rewrite (H eq_refl); cbn; lia|destruct (q c); cbn; lia]. Qed.

Lemma filter_length_lt {A} (p q : A -> bool) l a :
  (forall b, In b l -> p b = true -> q b = true) -> In a l -> q a = true -> p a = false ->
  (length (filter p l) < length (filter q l))%nat.
Proof. induction l as [|b r IH]; intros Himp Hin Hq Hp; [destruct Hin|].
  assert (Hle := filter_length_mono p q r (fun d Hd => Himp d (or_intror Hd))).
  cbn. destruct Hin as [->|Hin].
  - rewrite Hq, Hp. cbn. lia.
  - assert (Hlt := IH (fun d Hd => Himp d (or_intror Hd)) Hin Hq Hp).
    destruct (p b) eqn:Ep; [rewrite (Himp b (or_introl eq_refl) Ep); cbn; lia|].
    destruct (q b); cbn; lia. Qed.

Lemma sorted_filter key (p : nat -> bool) q : sorted_by key q -> sorted_by key (filter p q).
Proof. unfold sorted_by. induction 1 as [|a r Hs IH Hall]; cbn; [constructor|].
  destruct (p a); [|exact IH]. constructor; [exact IH|].
  rewrite Forall_forall in *. intros b Hb. apply filter_In in Hb. apply Hall. tauto. Qed.

Lemma sorted_head_min key a r b : sorted_by key (a :: r) -> In b (a :: r) -> key a <= key b.
Proof. intros Hs Hin. apply StronglySorted_inv in Hs. destruct Hs as [_ Hall].
  destruct Hin as [->|Hin]; [lia|]. rewrite Forall_forall in Hall. apply Hall; exact Hin. Qed.

Section PopFacts.
  Variable St : Type.
  Variable key : nat -> Z.
  Variable f : Z -> nat -> St -> St.

  Lemma pop_sorted : forall q left s,
    sorted_by key q -> (forall a, In a q -> left <= key a) ->
    pop St key f left q s =
      (filter (fun a => left <? key a) q,
       fold_left (fun s a => f left a s) (filter (fun a => key a =? left) q) s).
  Proof.
    induction q as [|a r IH]; intros left s Hs Hge; [reflexivity|].
    cbn [pop]. destruct (key a =? left) eqn:E.
    - apply Z.eqb_eq in E. cbn [filter]. rewrite E, Z.ltb_irrefl, Z.eqb_refl. cbn [fold_left].
      apply IH.
      + apply StronglySorted_inv in Hs. tauto.
      + intros b Hb. apply Hge. right; exact Hb.
    - apply Z.eqb_neq in E. assert (Hlt : left < key a) by (specialize (Hge a (or_introl eq_refl)); lia).
      rewrite filter_true_id, filter_false_nil; [reflexivity| |].
      + intros b Hb. apply Z.eqb_neq. assert (H := sorted_head_min key a r b Hs Hb). lia.
      + intros b Hb. apply Z.ltb_lt. assert (H := sorted_head_min key a r b Hs Hb). lia.
  Qed.
End PopFacts.

Section LoopFacts.
  Variable St : Type.
  Variables keyI keyR : nat -> Z.
  Variable L : Z.
  Variable rmv : Z -> nat -> St -> St.
  Variable ins : Z -> nat -> St -> St.
  Variable after : Z -> Z -> St -> St.
  Variable stop : St -> bool.
  Variables insq0 remq0 : list nat.
  Hypothesis HsI : sorted_by keyI insq0.
  Hypothesis HsR : sorted_by keyR remq0.
  Hypothesis HkI : forall a, In a insq0 -> 0 <= keyI a <= L.
  Hypothesis HkR : forall b, In b remq0 -> 0 <= keyR b <= L.

  Definition qI (prev : Z) := filter (fun a => prev <? keyI a) insq0.
  Definition qR (prev : Z) := filter (fun b => prev <? keyR b) remq0.
  Definition evI (x : Z) := filter (fun a => keyI a =? x) insq0.
  Definition evR (x : Z) := filter (fun b => keyR b =? x) remq0.
  Definition nxt (x : Z) := next_pos keyI keyR L (qI x) (qR x).
  (** no insertion or removal key lies strictly between [prev] and [left] *)
  Definition nokey (prev left : Z) :=
    (forall a, In a insq0 -> keyI a <= prev \/ left <= keyI a) /\
    (forall b, In b remq0 -> keyR b <= prev \/ left <= keyR b).
  (** some event lies beyond [prev] (the loop condition, with everything up to [prev] consumed) *)
  Definition more (prev : Z) := qI prev <> [] \/ qR prev <> [].
  (** the net effect of one iteration of the outer loop at position [left] *)
  Definition body (left : Z) (s : St) : St :=
    after left (nxt left)
      (fold_left (fun s a => ins left a s) (evI left)
         (fold_left (fun s b => rmv left b s) (evR left) s)).

  Lemma more_cond left prev : cond_std left (qI prev) (qR prev) = true <-> more prev.
  Proof. unfold cond_std, more. destruct (qI prev), (qR prev); split; intro H; try reflexivity;
    try discriminate; try (left; discriminate); try (right; discriminate).
    destruct H as [H|H]; exfalso; apply H; reflexivity. Qed.

  Lemma not_more_cond left prev : cond_std left (qI prev) (qR prev) = false <-> ~ more prev.
  Proof. rewrite <- (more_cond left). destruct (cond_std left (qI prev) (qR prev)); split; intro H;
    try reflexivity; try discriminate. exfalso; apply H; reflexivity. Qed.

  Lemma not_more_keys prev : ~ more prev ->
    (forall a, In a insq0 -> keyI a <= prev) /\ (forall b, In b remq0 -> keyR b <= prev).
  Proof. intro H. split; intros a Ha.
    - destruct (Z.leb_spec (keyI a) prev) as [|Hlt]; [assumption|]. exfalso. apply H. left.
      intro E. assert (Hin : In a (qI prev)) by (apply filter_In; split; [exact Ha|apply Z.ltb_lt; lia]).
      rewrite E in Hin. destruct Hin.
    - destruct (Z.leb_spec (keyR a) prev) as [|Hlt]; [assumption|]. exfalso. apply H. right.
      intro E. assert (Hin : In a (qR prev)) by (apply filter_In; split; [exact Ha|apply Z.ltb_lt; lia]).
      rewrite E in Hin. destruct Hin. Qed.

  Lemma nxt_le_L x : nxt x <= L.
  Proof. unfold nxt, next_pos. destruct (qI x), (qR x); lia. Qed.

  Lemma nxt_gt x : x < L -> x < nxt x.
  Proof. intro HL. unfold nxt, next_pos.
    assert (HI : forall a, In a (qI x) -> x < keyI a).
    { intros a Ha. apply filter_In in Ha. destruct Ha as [_ Ha]. apply Z.ltb_lt in Ha. exact Ha. }
    assert (HR : forall a, In a (qR x) -> x < keyR a).
    { intros a Ha. apply filter_In in Ha. destruct Ha as [_ Ha]. apply Z.ltb_lt in Ha. exact Ha. }
    destruct (qI x) as [|a ?], (qR x) as [|b ?]; try lia.
    - specialize (HR b (or_introl eq_refl)). lia.
    - specialize (HI a (or_introl eq_refl)). lia.
    - specialize (HR b (or_introl eq_refl)). specialize (HI a (or_introl eq_refl)). lia. Qed.

  Lemma more_lt_L prev : more prev -> prev < L.
  Proof. intros [H|H].
    - destruct (qI prev) as [|a r] eqn:E; [exfalso; apply H; reflexivity|].
      assert (Hin : In a (qI prev)) by (rewrite E; left; reflexivity).
      apply filter_In in Hin. destruct Hin as [Hin Hlt]. apply Z.ltb_lt in Hlt.
      specialize (HkI a Hin). lia.
    - destruct (qR prev) as [|a r] eqn:E; [exfalso; apply H; reflexivity|].
      assert (Hin : In a (qR prev)) by (rewrite E; left; reflexivity).
      apply filter_In in Hin. destruct Hin as [Hin Hlt]. apply Z.ltb_lt in Hlt.
      specialize (HkR a Hin). lia. Qed.

  Lemma nxt_nokey x : nokey x (nxt x).
  Proof. unfold nokey, nxt, next_pos. split; intros a Ha.
    - destruct (Z.leb_spec (keyI a) x) as [|Hlt]; [left; assumption|right].
      assert (Hin : In a (qI x)) by (apply filter_In; split; [exact Ha|apply Z.ltb_lt; lia]).
      assert (Hs : sorted_by keyI (qI x)) by (apply sorted_filter; exact HsI).
      destruct (qI x) as [|h t]; [destruct Hin|]. assert (H := sorted_head_min keyI h t a Hs Hin).
      destruct (qR x); lia.
    - destruct (Z.leb_spec (keyR a) x) as [|Hlt]; [left; assumption|right].
      assert (Hin : In a (qR x)) by (apply filter_In; split; [exact Ha|apply Z.ltb_lt; lia]).
      assert (Hs : sorted_by keyR (qR x)) by (apply sorted_filter; exact HsR).
      destruct (qR x) as [|h t]; [destruct Hin|]. assert (H := sorted_head_min keyR h t a Hs Hin).
      destruct (qI x); lia. Qed.

  (** when something is left, the next position is the key of some remaining event *)
  Lemma nxt_is_key x : more x ->
    (exists a, In a insq0 /\ keyI a = nxt x) \/ (exists b, In b remq0 /\ keyR b = nxt x).
  Proof. intro Hm. unfold nxt, next_pos. unfold more in Hm.
    assert (HI : forall a, In a (qI x) -> In a insq0 /\ keyI a <= L).
    { intros a Ha. apply filter_In in Ha. destruct Ha as [Ha _]. split; [exact Ha|apply HkI; exact Ha]. }
    assert (HR : forall a, In a (qR x) -> In a remq0 /\ keyR a <= L).
    { intros a Ha. apply filter_In in Ha. destruct Ha as [Ha _]. split; [exact Ha|apply HkR; exact Ha]. }
    destruct (qI x) as [|a ta], (qR x) as [|b tb].
    - destruct Hm as [H|H]; exfalso; apply H; reflexivity.
    - destruct (HR b (or_introl eq_refl)) as [Hb Hle]. right. exists b. split; [exact Hb|lia].
    - destruct (HI a (or_introl eq_refl)) as [Hb Hle]. left. exists a. split; [exact Hb|lia].
    - destruct (HI a (or_introl eq_refl)) as [Ha Hla]. destruct (HR b (or_introl eq_refl)) as [Hb Hlb].
      destruct (Z.le_ge_cases (keyI a) (keyR b)).
      + left. exists a. split; [exact Ha|lia].
      + right. exists b. split; [exact Hb|lia]. Qed.

  Lemma pop_R prev left s : prev < left -> nokey prev left ->
    pop St keyR rmv left (qR prev) s = (qR left, fold_left (fun s b => rmv left b s) (evR left) s).
  Proof. intros Hlt [_ Hnk]. rewrite pop_sorted.
    - unfold qR, evR. rewrite !filter_filter. f_equal.
      + apply filter_ext_in. intros b Hb. destruct (Hnk b Hb);
          destruct (Z.ltb_spec prev (keyR b)), (Z.ltb_spec left (keyR b)); cbn; try reflexivity; lia.
      + f_equal. apply filter_ext_in. intros b Hb.
        destruct (Z.ltb_spec prev (keyR b)), (Z.eqb_spec (keyR b) left); cbn; try reflexivity; lia.
    - apply sorted_filter; exact HsR.
    - intros b Hb. apply filter_In in Hb. destruct Hb as [Hb Hp]. apply Z.ltb_lt in Hp.
      destruct (Hnk b Hb); lia. Qed.

  Lemma pop_I prev left s : prev < left -> nokey prev left ->
    pop St keyI ins left (qI prev) s = (qI left, fold_left (fun s a => ins left a s) (evI left) s).
  Proof. intros Hlt [Hnk _]. rewrite pop_sorted.
    - unfold qI, evI. rewrite !filter_filter. f_equal.
      + apply filter_ext_in. intros b Hb. destruct (Hnk b Hb);
          destruct (Z.ltb_spec prev (keyI b)), (Z.ltb_spec left (keyI b)); cbn; try reflexivity; lia.
      + f_equal. apply filter_ext_in. intros b Hb.
        destruct (Z.ltb_spec prev (keyI b)), (Z.eqb_spec (keyI b) left); cbn; try reflexivity; lia.
    - apply sorted_filter; exact HsI.
    - intros b Hb. apply filter_In in Hb. destruct Hb as [Hb Hp]. apply Z.ltb_lt in Hp.
      destruct (Hnk b Hb); lia. Qed.

  (** one unfolding of the loop in terms of [body] *)
  Lemma loop_unfold fuel prev left s : prev < left -> nokey prev left -> more prev ->
    loop St keyI keyR L rmv ins after stop (@cond_std) (S fuel) left (qI prev) (qR prev) s =
      if stop (body left s) then Some (body left s)
      else loop St keyI keyR L rmv ins after stop (@cond_std) fuel (nxt left) (qI left) (qR left) (body left s).
  Proof. intros Hlt Hnk Hm. cbn [loop]. apply (more_cond left) in Hm. rewrite Hm.
    rewrite (pop_R prev left s Hlt Hnk).
    rewrite (pop_I prev left _ Hlt Hnk). reflexivity. Qed.

  Lemma loop_exit fuel prev left s : ~ more prev ->
    loop St keyI keyR L rmv ins after stop (@cond_std) (S fuel) left (qI prev) (qR prev) s = Some s.
  Proof. intro Hm. cbn [loop]. apply (not_more_cond left) in Hm. rewrite Hm. reflexivity. Qed.

  Definition measure (prev : Z) : nat := (length (qI prev) + length (qR prev))%nat.

  Lemma measure_decr prev : more prev -> (measure (nxt prev) < measure prev)%nat.
  Proof. intro Hm. assert (Hgt : prev < nxt prev) by (apply nxt_gt, more_lt_L; exact Hm).
    unfold measure.
    assert (HleI : (length (qI (nxt prev)) <= length (qI prev))%nat).
    { unfold qI. apply filter_length_mono. intros c _ Hc. apply Z.ltb_lt in Hc. apply Z.ltb_lt. lia. }
    assert (HleR : (length (qR (nxt prev)) <= length (qR prev))%nat).
    { unfold qR. apply filter_length_mono. intros c _ Hc. apply Z.ltb_lt in Hc. apply Z.ltb_lt. lia. }
    destruct (nxt_is_key prev Hm) as [[a [Ha Hk]]|[b [Hb Hk]]].
    - assert (Hs : (length (qI (nxt prev)) < length (qI prev))%nat).
      { unfold qI. apply (filter_length_lt _ _ insq0 a); [|exact Ha| |].
        - intros c _ Hc. apply Z.ltb_lt in Hc. apply Z.ltb_lt. lia.
        - apply Z.ltb_lt. lia.
        - apply Z.ltb_ge. lia. }
      lia.
    - assert (Hs : (length (qR (nxt prev)) < length (qR prev))%nat).
      { unfold qR. apply (filter_length_lt _ _ remq0 b); [|exact Hb| |].
        - intros c _ Hc. apply Z.ltb_lt in Hc. apply Z.ltb_lt. lia.
        - apply Z.ltb_lt. lia.
        - apply Z.ltb_ge. lia. }
      lia. Qed.

  (** ** The invariant rule.  [G prev left s]: [s] is the state at the head of the outer loop
      when every event at a position [<= prev] has been processed and [left] is the current
      position.  *)
  Variable G : Z -> Z -> St -> Prop.

  (** how the sweep ends: by exhausting both queues, or by [stop] *)
  Definition Post (r : St) : Prop :=
    (exists prev left, G prev left r /\ ~ more prev /\ prev <= left) \/
    (exists prev left s, G prev left s /\ prev < left /\ nokey prev left /\ more prev /\ left <= L /\
                         r = body left s /\ stop r = true).

  Hypothesis Gstep : forall prev left s,
    G prev left s -> prev < left -> nokey prev left -> more prev -> left <= L ->
    stop (body left s) = false -> G left (nxt left) (body left s).

  Lemma loop_inv : forall fuel prev left s,
    G prev left s -> prev <= left -> left <= L -> (more prev -> prev < left) -> nokey prev left ->
    (measure left < fuel)%nat ->
    exists r, loop St keyI keyR L rmv ins after stop (@cond_std) (S fuel) left (qI prev) (qR prev) s = Some r /\ Post r.
  Proof.
    induction fuel as [|fuel IH]; intros prev left s HG Hle HL Hml Hnk Hfuel; [lia|].
    destruct (list_eq_dec Nat.eq_dec (qI prev) []) as [EI|NI];
      [destruct (list_eq_dec Nat.eq_dec (qR prev) []) as [ER|NR]|].
    - (* exit *)
      assert (Hm : ~ more prev) by (intros [H|H]; apply H; assumption).
      rewrite loop_exit by exact Hm. exists s. split; [reflexivity|]. left. exists prev, left. tauto.
    - assert (Hm : more prev) by (right; exact NR).
      rewrite loop_unfold by auto. destruct (stop (body left s)) eqn:Es.
      + exists (body left s). split; [reflexivity|]. right. exists prev, left, s. repeat split; auto; apply Hnk.
      + assert (HG' := Gstep prev left s HG (Hml Hm) Hnk Hm HL Es).
        destruct fuel as [|fuel'].
        { (* measure left = 0: the next head exits *)
          assert (Hz : measure left = 0%nat) by lia.
          assert (Hnm : ~ more left).
          { unfold measure in Hz. intros [H|H]; apply H; apply length_zero_iff_nil; lia. }
          rewrite loop_exit by exact Hnm. exists (body left s). split; [reflexivity|].
          left. exists left, (nxt left). split; [exact HG'|]. split; [exact Hnm|].
          unfold nxt, next_pos. apply not_more_keys in Hnm.
          assert (qI left = []) by (apply filter_false_nil; intros a Ha; apply Z.ltb_ge; apply Hnm; exact Ha).
          assert (qR left = []) by (apply filter_false_nil; intros a Ha; apply Z.ltb_ge; apply Hnm; exact Ha).
          rewrite H, H0. exact HL. }
        apply IH; auto.
        * destruct (Z.eq_dec left L) as [->|]; [|assert (left < nxt left) by (apply nxt_gt; lia); lia].
          unfold nxt, next_pos.
          assert (qI L = []) by (apply filter_false_nil; intros a Ha; apply Z.ltb_ge; apply HkI; exact Ha).
          assert (qR L = []) by (apply filter_false_nil; intros a Ha; apply Z.ltb_ge; apply HkR; exact Ha).
          rewrite H, H0. lia.
        * apply nxt_le_L.
        * intro Hm'. apply nxt_gt, more_lt_L; exact Hm'.
        * apply nxt_nokey.
        * destruct (list_eq_dec Nat.eq_dec (qI left) []) as [EI'|NI'];
            [destruct (list_eq_dec Nat.eq_dec (qR left) []) as [ER'|NR']|].
          -- unfold measure, nxt. rewrite EI', ER'. cbn.
             assert (qI L = []) by (apply filter_false_nil; intros a Ha; apply Z.ltb_ge; apply HkI; exact Ha).
             assert (qR L = []) by (apply filter_false_nil; intros a Ha; apply Z.ltb_ge; apply HkR; exact Ha).
             rewrite H, H0. cbn. lia.
          -- assert (Hd := measure_decr left (or_intror NR')). lia.
          -- assert (Hd := measure_decr left (or_introl NI')). lia.
    - assert (Hm : more prev) by (left; exact NI).
      rewrite loop_unfold by auto. destruct (stop (body left s)) eqn:Es.
      + exists (body left s). split; [reflexivity|]. right. exists prev, left, s. repeat split; auto; apply Hnk.
      + assert (HG' := Gstep prev left s HG (Hml Hm) Hnk Hm HL Es).
        destruct fuel as [|fuel'].
        { assert (Hz : measure left = 0%nat) by lia.
          assert (Hnm : ~ more left).
          { unfold measure in Hz. intros [H|H]; apply H; apply length_zero_iff_nil; lia. }
          rewrite loop_exit by exact Hnm. exists (body left s). split; [reflexivity|].
          left. exists left, (nxt left). split; [exact HG'|]. split; [exact Hnm|].
          unfold nxt, next_pos. apply not_more_keys in Hnm.
          assert (qI left = []) by (apply filter_false_nil; intros a Ha; apply Z.ltb_ge; apply Hnm; exact Ha).
          assert (qR left = []) by (apply filter_false_nil; intros a Ha; apply Z.ltb_ge; apply Hnm; exact Ha).
          rewrite H, H0. exact HL. }
        apply IH; auto.
        * destruct (Z.eq_dec left L) as [->|]; [|assert (left < nxt left) by (apply nxt_gt; lia); lia].
          unfold nxt, next_pos.
          assert (qI L = []) by (apply filter_false_nil; intros a Ha; apply Z.ltb_ge; apply HkI; exact Ha).
          assert (qR L = []) by (apply filter_false_nil; intros a Ha; apply Z.ltb_ge; apply HkR; exact Ha).
          rewrite H, H0. lia.
        * apply nxt_le_L.
        * intro Hm'. apply nxt_gt, more_lt_L; exact Hm'.
        * apply nxt_nokey.
        * destruct (list_eq_dec Nat.eq_dec (qI left) []) as [EI'|NI'];
            [destruct (list_eq_dec Nat.eq_dec (qR left) []) as [ER'|NR']|].
          -- unfold measure, nxt. rewrite EI', ER'. cbn.
             assert (qI L = []) by (apply filter_false_nil; intros a Ha; apply Z.ltb_ge; apply HkI; exact Ha).
             assert (qR L = []) by (apply filter_false_nil; intros a Ha; apply Z.ltb_ge; apply HkR; exact Ha).
             rewrite H, H0. cbn. lia.
          -- assert (Hd := measure_decr left (or_intror NR')). lia.
          -- assert (Hd := measure_decr left (or_introl NI')). lia.
  Qed.

  Theorem loop_sound s0 : G (-1) 0 s0 -> 0 <= L ->
    exists r, loop St keyI keyR L rmv ins after stop (@cond_std) (sweep_fuel insq0 remq0) 0 insq0 remq0 s0 = Some r
              /\ Post r.
  Proof. intros HG HL.
    assert (EI : qI (-1) = insq0) by (apply filter_true_id; intros a Ha; apply Z.ltb_lt; specialize (HkI a Ha); lia).
    assert (ER : qR (-1) = remq0) by (apply filter_true_id; intros a Ha; apply Z.ltb_lt; specialize (HkR a Ha); lia).
    assert (H : forall f, (measure 0 < f)%nat ->
      exists r, loop St keyI keyR L rmv ins after stop (@cond_std) (S f) 0 (qI (-1)) (qR (-1)) s0 = Some r /\ Post r).
    { intros f Hf. apply loop_inv; auto; try lia.
      split; intros a Ha; right; [apply HkI|apply HkR]; exact Ha. }
    rewrite EI, ER in H. apply (H (1 + length insq0 + length remq0)%nat).
    unfold measure. assert (H1 := filter_length_le (fun a => 0 <? keyI a) insq0).
    assert (H2 := filter_length_le (fun a => 0 <? keyR a) remq0). unfold qI, qR. lia. Qed.
End LoopFacts.
