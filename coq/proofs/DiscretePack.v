(** * The triangular packing of discrete.py (index tables, make_*_tri, rowsum_*_tri):
    for EVERY grid size and EVERY probability space,
      rowsum_lower_tri (h(make_lower_tri v) (.) L) [i] = (+)_{j <= i} h(v[j]) (.) lik(i,j)
      rowsum_upper_tri (h(make_upper_tri w) (.) U) [j] = (+)_{i >= j} h(w[i]) (.) lik(i,j)
    as equalities of lists (no algebra is used: the statements hold for floats as well). *)
From Coq Require Import List Arith Bool Lia.
From TsdateV Require Import lib.Num model.Discrete proofs.DiscreteBase.
Import ListNotations.

(** ** triangular numbers *)
Lemma tri_0 : tri 0 = 0.
Proof. reflexivity. Qed.

Lemma tri_S n : tri (Datatypes.S n) = tri n + (n + 1).
Proof. unfold tri. replace (Datatypes.S n * (Datatypes.S n + 1)) with (n * (n + 1) + (n + 1) * 2) by lia.
  now rewrite Nat.div_add by lia. Qed.

Lemma tri_mono a b : a <= b -> tri a <= tri b.
Proof. induction 1; [lia|]. rewrite tri_S. lia. Qed.

(** ** lists of blocks *)
Fixpoint starts_from {A} (s : nat) (rows : list (list A)) : list nat :=
  match rows with
  | [] => []
  | r :: rs => s :: starts_from (s + length r) rs
  end.

Lemma combine_app {A B} (a1 a2 : list A) (b1 b2 : list B) : length a1 = length b1 ->
  combine (a1 ++ a2) (b1 ++ b2) = combine a1 b1 ++ combine a2 b2.
Proof. revert b1. induction a1 as [|x a1 IH]; intros [|y b1] H; cbn in *; try lia; [reflexivity|].
  f_equal. apply IH. lia. Qed.

Lemma combine_concat {A B I} (f1 : I -> list A) (f2 : I -> list B) (is : list I) :
  (forall i, In i is -> length (f1 i) = length (f2 i)) ->
  combine (concat (map f1 is)) (concat (map f2 is)) = concat (map (fun i => combine (f1 i) (f2 i)) is).
Proof. induction is as [|i r IH]; intro H; cbn; [reflexivity|].
  rewrite combine_app by (apply H; now left). f_equal. apply IH. intros; apply H; now right. Qed.

Lemma combine_map_map {A B I} (f : I -> A) (g : I -> B) (l : list I) :
  combine (map f l) (map g l) = map (fun i => (f i, g i)) l.
Proof. induction l; cbn; [reflexivity|]. now f_equal. Qed.

Section Pack.
  Variable P : Space.
  Notation S := (S P).
  Variable G : nat.

  (** reduceat at the block starts of a concatenation sums the blocks *)
  Lemma reduceat_blocks : forall (rows : list (list S)) pre,
    (forall r, In r rows -> r <> []) ->
    reduceat P (pre ++ concat rows) (starts_from (length pre) rows) = map (s_rsum P) rows.
  Proof. induction rows as [|r rs IH]; intros pre Hne; [reflexivity|].
    cbn [starts_from concat map]. destruct rs as [|r2 rs'].
    - cbn [starts_from reduceat concat map]. rewrite app_nil_r. f_equal. f_equal.
      rewrite skipn_app, skipn_all, Nat.sub_diag. reflexivity.
    - assert (Hr : r <> []) by (apply Hne; now left).
      assert (Hlen : 0 < length r) by (destruct r; [congruence|cbn; lia]).
      remember (r2 :: rs') as rs eqn:Ers.
      replace (starts_from (length pre + length r) rs) with (starts_from (length (pre ++ r)) rs)
        by (now rewrite app_length).
      assert (Hst : exists tl, starts_from (length (pre ++ r)) rs = (length pre + length r) :: tl).
      { subst rs. cbn [starts_from]. rewrite app_length. eauto. }
      destruct Hst as (tl & Hst). cbn [reduceat]. rewrite Hst.
      destruct (Nat.ltb_spec (length pre) (length pre + length r)) as [_|]; [|lia].
      f_equal.
      + f_equal. rewrite skipn_app, skipn_all, Nat.sub_diag. cbn [app skipn].
        replace (length pre + length r - length pre) with (length r) by lia.
        rewrite firstn_app, firstn_all, Nat.sub_diag. cbn. now rewrite app_nil_r.
      + rewrite <- Hst. rewrite app_assoc. apply IH. intros; apply Hne; now right. Qed.

  Lemma reduceat_blocks0 (rows : list (list S)) : (forall r, In r rows -> r <> []) ->
    reduceat P (concat rows) (starts_from 0 rows) = map (s_rsum P) rows.
  Proof. intro H. apply (reduceat_blocks rows [] H). Qed.

  (** row starts of the lower triangle: [row_indices 0] *)
  Lemma row_indices0_starts {A} (f : nat -> list A) : (forall i, length (f i) = i + 1) ->
    forall k a, map (fun n => tri n + 0) (seq a k) = starts_from (tri a) (map f (seq a k)).
  Proof. intro Hf. induction k as [|k IH]; intro a; cbn [seq map starts_from]; [reflexivity|].
    f_equal; [lia|]. rewrite Hf, <- tri_S. apply IH. Qed.

  (** column starts of the upper triangle: [col_indices] *)
  Lemma col_go_starts {A} (f : nat -> list A) : (forall i, length (f i) = G - i) ->
    forall k a s, a + k <= G -> col_go G s (seq a k) = starts_from s (map f (seq a k)).
  Proof. intro Hf. induction k as [|k IH]; intros a s Hak; cbn [seq map starts_from col_go]; [reflexivity|].
    f_equal. rewrite Hf. replace (s + (G - a) - 1 + 1) with (s + (G - a)) by lia. apply IH. lia. Qed.

  (** *** lower triangle *)
  Theorem tri_pack_lower (A B : nat -> nat -> S) :
    rowsum_lower_tri P G
      (vcomb P (concat (map (fun i => map (A i) (seq 0 (i + 1))) (seq 0 G)))
               (concat (map (fun i => map (B i) (seq 0 (i + 1))) (seq 0 G))))
    = map (fun i => s_rsum P (map (fun j => s_comb P (A i j) (B i j)) (seq 0 (i + 1)))) (seq 0 G).
  Proof. unfold rowsum_lower_tri, vcomb, row_indices. rewrite Nat.sub_0_r.
    rewrite combine_concat by (intros; now rewrite !map_length).
    rewrite concat_map, map_map.
    rewrite (row_indices0_starts (fun i => map (fun xy => s_comb P (fst xy) (snd xy))
                (combine (map (A i) (seq 0 (i + 1))) (map (B i) (seq 0 (i + 1))))))
      by (intro i; now rewrite map_length, combine_length, !map_length, seq_length, Nat.min_id).
    rewrite tri_0, reduceat_blocks0.
    - rewrite map_map. apply map_ext. intro i. f_equal. rewrite combine_map_map, map_map. reflexivity.
    - intros r Hr E. apply in_map_iff in Hr. destruct Hr as (i & <- & _).
      apply (f_equal (@length _)) in E. rewrite map_length, combine_length, !map_length, seq_length in E.
      cbn in E. lia. Qed.

  Lemma make_lower_tri_blocks (v : list S) :
    make_lower_tri P G v = concat (map (fun i => map (fun j => nth j v (s_null P)) (seq 0 (i + 1))) (seq 0 G)).
  Proof. unfold make_lower_tri, take, to_lower_tri. now rewrite concat_map, map_map. Qed.

  Variable lik : nat -> nat -> nat -> S.

  Lemma liks_lower_blocks e :
    liks P (ll_lower P G lik e)
    = concat (map (fun i => map (fun j => s_comb P (s_id P) (lik e i j)) (seq 0 (i + 1))) (seq 0 G)).
  Proof. unfold liks, ll_lower. rewrite concat_map, map_map. f_equal. apply map_ext. intro i.
    now rewrite map_map. Qed.

  (** get_inside on [h(make_lower_tri v)] *)
  Theorem get_inside_spec (h : S -> S) (v : list S) e :
    get_inside P G lik (map h (make_lower_tri P G v)) e
    = map (fun i => s_rsum P (map (fun j => s_comb P (h (nth j v (s_null P))) (s_comb P (s_id P) (lik e i j)))
                                   (seq 0 (i + 1)))) (seq 0 G).
  Proof. unfold get_inside. rewrite make_lower_tri_blocks, liks_lower_blocks.
    rewrite concat_map, map_map.
    rewrite (map_ext (fun x => map h (map (fun j => nth j v (s_null P)) (seq 0 (x + 1))))
                     (fun i => map (fun j => h (nth j v (s_null P))) (seq 0 (i + 1))))
      by (intro; now rewrite map_map).
    apply (tri_pack_lower (fun _ j => h (nth j v (s_null P))) (fun i j => s_comb P (s_id P) (lik e i j))). Qed.

  (** *** upper triangle *)
  Lemma lower_length {A} (F : nat -> nat -> A) : forall k,
    length (concat (map (fun i => map (F i) (seq 0 (i + 1))) (seq 0 k))) = tri k.
  Proof. induction k as [|k IH]; [reflexivity|].
    rewrite seq_S, map_app, concat_app, app_length, IH. cbn [map concat Nat.add].
    rewrite app_nil_r, map_length, seq_length, tri_S. lia. Qed.

  Lemma lower_nth {A} (F : nat -> nat -> A) d : forall k n t, t <= n -> n < k ->
    nth (tri n + t) (concat (map (fun i => map (F i) (seq 0 (i + 1))) (seq 0 k))) d = F n t.
  Proof. induction k as [|k IH]; intros n t Htn Hnk; [lia|].
    rewrite seq_S, map_app, concat_app. cbn [map concat Nat.add]. rewrite app_nil_r.
    destruct (Nat.eq_dec n k) as [->|Hne].
    - rewrite app_nth2 by (rewrite lower_length; lia). rewrite lower_length.
      replace (tri k + t - tri k) with t by lia. rewrite nth_map_seq by lia. reflexivity.
    - rewrite app_nth1.
      + apply IH; lia.
      + rewrite lower_length. assert (tri (Datatypes.S n) <= tri k) by (apply tri_mono; lia).
        rewrite tri_S in H. lia. Qed.

  Lemma ll_upper_blocks e :
    ll_upper P G lik e = concat (map (fun t => map (fun n => lik e n t) (seq t (G - t))) (seq 0 G)).
  Proof. unfold ll_upper, take. rewrite concat_map, map_map. f_equal. apply map_ext_in. intros t Ht.
    apply in_seq in Ht. unfold row_indices. rewrite map_map. apply map_ext_in. intros n Hn. apply in_seq in Hn.
    unfold ll_lower. apply lower_nth; lia. Qed.

  Lemma make_upper_tri_blocks (w : list S) :
    make_upper_tri P G w = concat (map (fun j => map (fun i => nth i w (s_null P)) (seq j (G - j))) (seq 0 G)).
  Proof. unfold make_upper_tri, take, to_upper_tri. rewrite concat_map, map_map.
    replace (G + 1) with (Datatypes.S G) by lia. rewrite seq_S, map_app, concat_app. cbn [map concat Nat.add].
    rewrite Nat.sub_diag. cbn. now rewrite !app_nil_r. Qed.

  Theorem tri_pack_upper (A B : nat -> nat -> S) :
    rowsum_upper_tri P G
      (vcomb P (concat (map (fun j => map (fun i => A i j) (seq j (G - j))) (seq 0 G)))
               (concat (map (fun j => map (fun i => B i j) (seq j (G - j))) (seq 0 G))))
    = map (fun j => s_rsum P (map (fun i => s_comb P (A i j) (B i j)) (seq j (G - j)))) (seq 0 G).
  Proof. unfold rowsum_upper_tri, vcomb, col_indices.
    rewrite combine_concat by (intros; now rewrite !map_length).
    rewrite concat_map, map_map.
    rewrite (col_go_starts (fun j => map (fun xy => s_comb P (fst xy) (snd xy))
                (combine (map (fun i => A i j) (seq j (G - j))) (map (fun i => B i j) (seq j (G - j))))))
      by (try lia; intro j; now rewrite map_length, combine_length, !map_length, seq_length, Nat.min_id).
    rewrite reduceat_blocks0.
    - rewrite map_map. apply map_ext. intro j. f_equal. rewrite combine_map_map, map_map. reflexivity.
    - intros r Hr E. apply in_map_iff in Hr. destruct Hr as (j & <- & Hj). apply in_seq in Hj.
      apply (f_equal (@length _)) in E. rewrite map_length, combine_length, !map_length, seq_length in E.
      cbn in E. lia. Qed.

  (** get_outside on [h(make_upper_tri w)] *)
  Theorem get_outside_spec (h : S -> S) (w : list S) e :
    get_outside P G lik (map h (make_upper_tri P G w)) e
    = map (fun j => s_rsum P (map (fun i => s_comb P (h (nth i w (s_null P))) (s_comb P (s_id P) (lik e i j)))
                                   (seq j (G - j)))) (seq 0 G).
  Proof. unfold get_outside, liks. rewrite make_upper_tri_blocks, ll_upper_blocks.
    rewrite !concat_map, !map_map.
    rewrite (map_ext (fun x => map h (map (fun i => nth i w (s_null P)) (seq x (G - x))))
                     (fun j => map (fun i => h (nth i w (s_null P))) (seq j (G - j))))
      by (intro; now rewrite map_map).
    rewrite (map_ext (fun x => map (s_comb P (s_id P)) (map (fun n => lik e n x) (seq x (G - x))))
                     (fun j => map (fun i => s_comb P (s_id P) (lik e i j)) (seq j (G - j))))
      by (intro; now rewrite map_map).
    apply (tri_pack_upper (fun i _ => h (nth i w (s_null P))) (fun i j => s_comb P (s_id P) (lik e i j))). Qed.

  (** the index vectors only address existing entries *)
  Lemma to_lower_tri_range k : In k (to_lower_tri G) -> k < G.
  Proof. unfold to_lower_tri. intro H. apply in_concat in H. destruct H as (l & Hl & Hk).
    apply in_map_iff in Hl. destruct Hl as (i & <- & Hi). apply in_seq in Hi. apply in_seq in Hk. lia. Qed.

  Lemma to_upper_tri_range k : In k (to_upper_tri G) -> k < G.
  Proof. unfold to_upper_tri. intro H. apply in_concat in H. destruct H as (l & Hl & Hk).
    apply in_map_iff in Hl. destruct Hl as (i & <- & Hi). apply in_seq in Hi. apply in_seq in Hk. lia. Qed.
End Pack.
