(** * State invariants of the sweep that do not depend on positions: anything preserved by the
    three handlers holds of the result, for ANY queues, loop condition and fuel. *)
From Coq Require Import List ZArith Bool Arith Lia.
From TsdateV Require Import lib.Tables model.Sweep.
Import ListNotations.
Open Scope Z_scope.

Section Preserve.
  Variable St : Type.
  Variables keyI keyR : nat -> Z.
  Variable L : Z.
  Variable rmv : Z -> nat -> St -> St.
  Variable ins : Z -> nat -> St -> St.
  Variable after : Z -> Z -> St -> St.
  Variable stop : St -> bool.
  Variable cond : Z -> list nat -> list nat -> bool.
  Variable Inv : St -> Prop.
  Hypothesis Hr : forall x e s, Inv s -> Inv (rmv x e s).
  Hypothesis Hi : forall x e s, Inv s -> Inv (ins x e s).
  Hypothesis Ha : forall l r s, Inv s -> Inv (after l r s).

  Lemma pop_preserves key f : (forall x e s, Inv s -> Inv (f x e s)) ->
    forall q left s, Inv s -> Inv (snd (pop St key f left q s)).
  Proof. intro Hf. induction q as [|e q IH]; intros left s Hs; cbn [pop]; [exact Hs|].
    destruct (key e =? left); [apply IH, Hf; exact Hs|exact Hs]. Qed.

  Lemma loop_preserves : forall fuel left iq rq s r, Inv s ->
    loop St keyI keyR L rmv ins after stop cond fuel left iq rq s = Some r -> Inv r.
  Proof. induction fuel as [|fuel IH]; intros left iq rq s r Hs H; cbn [loop] in H; [discriminate|].
    destruct (cond left iq rq); [|injection H as <-; exact Hs].
    assert (H1 := pop_preserves keyR rmv Hr rq left s Hs).
    destruct (pop St keyR rmv left rq s) as [rq' s1]. cbn [snd] in H1.
    assert (H2 := pop_preserves keyI ins Hi iq left s1 H1).
    destruct (pop St keyI ins left iq s1) as [iq' s2]. cbn [snd] in H2.
    assert (H3 := Ha left (next_pos keyI keyR L iq' rq') s2 H2).
    destruct (stop (after left (next_pos keyI keyR L iq' rq') s2)); [injection H as <-; exact H3|].
    exact (IH _ _ _ _ _ H3 H). Qed.
End Preserve.
