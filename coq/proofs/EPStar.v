(** * EP is exact in the conjugate star case (C20, first sentence), over the reals.
    Every edge joins a free parent to a child fixed at time zero; projections are the
    closed-form conjugate update (model.EPConj).  Then each message is 0 before the first
    visit of its edge and exactly (y_e, mu_e) afterwards, whatever the damping, no assertion
    fires, and each parent's posterior is the sum over its edges. *)
From Coq Require Import Reals Lra Field List Arith Lia Bool Psatz.
From TsdateV Require Import lib.Num model.EP model.EPConj proofs.EPSpec proofs.EPInv proofs.EPProper.
Import ListNotations.
Open Scope R_scope.

Lemma rsum_nonneg n f : (forall j, (j < n)%nat -> 0 <= f j) -> 0 <= rsum n f.
Proof. induction n as [|n IH]; intro H; cbn; [lra|]. assert (0 <= rsum n f) by (apply IH; intros; apply H; lia).
  assert (0 <= f n) by (apply H; lia). lra. Qed.
Lemma rsum_le n f g : (forall j, (j < n)%nat -> f j <= g j) -> rsum n f <= rsum n g.
Proof. induction n as [|n IH]; intro H; cbn; [lra|]. assert (rsum n f <= rsum n g) by (apply IH; intros; apply H; lia).
  assert (f n <= g n) by (apply H; lia). lra. Qed.
Lemma rsum_ge_term n f i : (i < n)%nat -> (forall j, (j < n)%nat -> 0 <= f j) -> f i <= rsum n f.
Proof. induction n as [|n IH]; intros Hi H; [lia|]. cbn.
  destruct (Nat.eq_dec i n) as [->|Hne].
  - assert (0 <= rsum n f) by (apply rsum_nonneg; intros; apply H; lia). lra.
  - assert (f i <= rsum n f) by (apply IH; [lia|intros; apply H; lia]).
    assert (0 <= f n) by (apply H; lia). lra. Qed.

Lemma rsum_zero n : rsum n (fun _ => 0) = 0.
Proof. induction n as [|n IH]; cbn; [reflexivity|]. rewrite IH. lra. Qed.

Lemma vscal_one (m : RV) : vscal m 1 = m.
Proof. destruct m as [a b]. unfold vscal. cbn [fst snd mul RNum]. f_equal; lra. Qed.

(** the conjugate update adds the (damped) likelihood to the cavity *)
Lemma conj_rootward_add (cav el : RV) :
  0 < fst cav + 1 + fst el -> 0 < snd el + snd cav ->
  conj_rootward RNum cav el = (fst cav + fst el, snd cav + snd el).
Proof. intros Hs Hr. destruct cav as [c0 c1], el as [e0 e1]. unfold conj_rootward, pos2.
  cbn [fst snd ltb add sub mul div zero one RNum T] in *.
  assert (E1 : Rltb 0 (c0 + 1 + e0) = true) by (apply Rltb_true; exact Hs).
  assert (E2 : Rltb 0 (e1 + c1) = true) by (apply Rltb_true; exact Hr).
  rewrite E1, E2. cbn [andb].
  assert (Hm : 0 < (c0 + 1 + e0) / (e1 + c1)) by (apply Rdiv_lt_0_compat; assumption).
  assert (Hv : 0 < (c0 + 1 + e0) / ((e1 + c1) * (e1 + c1))).
  { apply Rdiv_lt_0_compat; [assumption|]. apply Rmult_lt_0_compat; assumption. }
  assert (E3 : Rltb 0 ((c0 + 1 + e0) / (e1 + c1)) = true) by (apply Rltb_true; exact Hm).
  assert (E4 : Rltb 0 ((c0 + 1 + e0) / ((e1 + c1) * (e1 + c1))) = true) by (apply Rltb_true; exact Hv).
  rewrite E3, E4. cbn [andb]. f_equal; field; lra. Qed.

Lemma rescale1_none (x : RV) S : 1 <= S -> 0 <= fst x -> 1 + fst x <= S -> 0 < snd x ->
  rescale1 x S = Some 1.
Proof. intros HS H0 H1 H2. destruct x as [x0 x1]. unfold rescale1.
  cbn [fst snd ltb add sub mul div zero one eqb RNum T] in *.
  assert (Z : viszero (N:=RNum) (x0, x1) = false).
  { destruct (viszero (N:=RNum) (x0, x1)) eqn:Q; [|reflexivity]. apply viszero_true in Q. lra. }
  rewrite Z.
  assert (E1 : Rltb 0 (x0 + 1) = true) by (apply Rltb_true; lra).
  assert (E2 : Rltb 0 x1 = true) by (apply Rltb_true; lra).
  assert (E3 : Rltb S (1 + x0) = false) by (apply Rltb_false; lra).
  pose proof (inv_le_1 S HS) as [_ Hi].
  assert (E4 : Rltb (1 + x0) (1 / S) = false) by (apply Rltb_false; lra).
  rewrite E1, E2, E3, E4. reflexivity. Qed.

(** [_damp] never asserts on the states of the star case *)
Lemma damp_first (x : RV) s : 0 < s < 1 -> (x = (0, 0) \/ (0 <= fst x /\ 0 < snd x)) ->
  damp x (@vzero RNum) s = Some 1.
Proof. intros Hs Hx. destruct x as [x0 x1]. unfold damp.
  cbn [fst snd ltb leb add sub mul div zero one eqb RNum T vzero] in *.
  assert (Zy : viszero (N:=RNum) (0, 0) = true) by (apply viszero_true; split; reflexivity).
  change (@vzero RNum) with ((0, 0) : RV). rewrite Zy. cbn [andb].
  destruct (viszero (N:=RNum) (x0, x1)) eqn:Zx; [reflexivity|].
  destruct Hx as [E|[H0 H1]]; [inversion E; subst; rewrite (proj2 (viszero_true 0 0)) in Zx by auto; discriminate|].
  cbn [fst snd] in *.
  assert (A1 : Rltb 0 s && Rltb s 1 = true) by (apply andb_true_iff; split; apply Rltb_true; lra).
  assert (A2 : Rltb 0 (x0 + 1) = true) by (apply Rltb_true; lra).
  assert (A3 : Rltb 0 x1 = true) by (apply Rltb_true; lra).
  rewrite A1, A2, A3. cbn [negb].
  assert (A4 : Rltb ((1 + x0) * s) (1 + x0 - 0) = true) by (apply Rltb_true; nra).
  assert (A5 : Rltb (x1 * s) (x1 - 0) = true) by (apply Rltb_true; nra).
  rewrite A4, A5.
  assert (A6 : Rltb 1 1 = false) by (apply Rltb_false; lra). rewrite A6.
  assert (A7 : Rltb 0 1 && Rleb 1 1 = true) by (apply andb_true_iff; split; [apply Rltb_true|apply Rleb_true]; lra).
  rewrite A7. reflexivity. Qed.

Lemma damp_again (x m : RV) s : 0 < s < 1 -> 0 <= fst m <= fst x -> 0 < snd m <= snd x ->
  exists d, damp x m s = Some d /\ 0 < d <= 1.
Proof. intros Hs H0 H1. destruct x as [x0 x1], m as [y0 y1]. unfold damp.
  cbn [fst snd ltb leb add sub mul div zero one eqb RNum T] in *.
  assert (Zy : viszero (N:=RNum) (y0, y1) = false).
  { destruct (viszero (N:=RNum) (y0, y1)) eqn:Q; [|reflexivity]. apply viszero_true in Q. lra. }
  rewrite Zy. cbn [andb].
  assert (A1 : Rltb 0 s && Rltb s 1 = true) by (apply andb_true_iff; split; apply Rltb_true; lra).
  assert (A2 : Rltb 0 (x0 + 1) = true) by (apply Rltb_true; lra).
  assert (A3 : Rltb 0 x1 = true) by (apply Rltb_true; lra).
  rewrite A1, A2, A3. cbn [negb].
  set (a := if Rltb ((1 + x0) * s) (1 + x0 - y0) then 1 else (1 - s) * (1 + x0) / y0).
  set (b := if Rltb (x1 * s) (x1 - y1) then 1 else (1 - s) * x1 / y1).
  assert (Ha : 0 < a <= 1).
  { unfold a. destruct (Rltb ((1 + x0) * s) (1 + x0 - y0)) eqn:Q; [lra|]. apply Rltb_false in Q.
    assert (Hy : 0 < y0) by nra. split.
    - apply Rdiv_lt_0_compat; [nra|lra].
    - apply Rmult_le_reg_r with y0; [lra|]. replace ((1 - s) * (1 + x0) / y0 * y0) with ((1 - s) * (1 + x0)) by (field; lra). nra. }
  assert (Hb : 0 < b <= 1).
  { unfold b. destruct (Rltb (x1 * s) (x1 - y1)) eqn:Q; [lra|]. apply Rltb_false in Q. split.
    - apply Rdiv_lt_0_compat; [nra|lra].
    - apply Rmult_le_reg_r with y1; [lra|]. replace ((1 - s) * x1 / y1 * y1) with ((1 - s) * x1) by (field; lra). nra. }
  set (d := if Rltb b a then b else a).
  assert (Hd : 0 < d <= 1) by (unfold d; destruct (Rltb b a); assumption).
  assert (A4 : Rltb 0 d && Rleb d 1 = true) by (apply andb_true_iff; split; [apply Rltb_true|apply Rleb_true]; lra).
  rewrite A4. exists d. split; [reflexivity|exact Hd]. Qed.

Ltac rlra := change (T RNum) with R in *; lra.

Section Star.
  Variable tiny infty : R.
  Hypothesis Htiny : tiny <= 1.
  Variable nE : nat.
  Variable ep ec : nat -> nat.
  Variable nB : nat.
  Variable bj bk : nat -> nat.
  Variable nN : nat.
  Variable lo hi : nat -> R.
  Variable lik : nat -> RV.
  Variable S s : R.
  Hypothesis Hs : 0 < s < 1.
  Hypothesis HS : 1 <= S.

  Notation fixedb := (fixedb RNum lo hi).

  (** every edge: free parent, child fixed at time zero, count >= 0, span * rate > 0 *)
  Definition star : Prop := forall e, (e < nE)%nat ->
    fixedb (ep e) = false /\ fixedb (ec e) = true /\ lo (ec e) = 0 /\
    0 <= fst (lik e) /\ 0 < snd (lik e).
  (** the cap is not reached: 1 + (mutations on the edges of u) <= max_shape *)
  Definition uncapped : Prop := forall u,
    1 + rsum nE (fun e => if Nat.eqb (ep e) u then fst (lik e) else 0) <= S.
  Hypothesis Hstar : star.
  Hypothesis Hcap : uncapped.

  Definition psum (k : bool) (vis : nat -> bool) (u : nat) : R :=
    rsum nE (fun e => if vis e && Nat.eqb (ep e) u then sel k (lik e) else 0).

  Definition J (st : Rstate) (vis : nat -> bool) : Prop :=
    (forall u, scl st u = 1) /\
    (forall e, fst (fedge st e) = if vis e then lik e else vzero) /\
    (forall u k, sel k (post st u) = psum k vis u) /\
    (forall u, post st u = (0, 0) \/ 0 < snd (post st u)).

  Lemma psum_nonneg k vis u : 0 <= psum k vis u.
  Proof. unfold psum. apply rsum_nonneg. intros j Hj. destruct (Hstar j Hj) as (_ & _ & _ & H0 & H1).
    cbn beta. destruct (vis j && Nat.eqb (ep j) u); [destruct k; cbn [sel]; change (T RNum) with R in *; lra|lra]. Qed.

  Lemma psum_ge k vis i : (i < nE)%nat -> vis i = true -> sel k (lik i) <= psum k vis (ep i).
  Proof. intros Hi Hv. unfold psum.
    pose proof (rsum_ge_term nE (fun e => if vis e && Nat.eqb (ep e) (ep i) then sel k (lik e) else 0) i Hi) as Q.
    cbn beta in Q. rewrite Hv, Nat.eqb_refl in Q. cbn [andb] in Q. apply Q.
    intros j Hj. destruct (Hstar j Hj) as (_ & _ & _ & H0 & H1).
    cbn beta. destruct (vis j && Nat.eqb (ep j) (ep i)); [destruct k; cbn [sel]; change (T RNum) with R in *; lra|lra]. Qed.

  Lemma psum_cap vis u : 1 + psum false vis u <= S.
  Proof. eapply Rle_trans; [|apply (Hcap u)]. apply Rplus_le_compat_l. unfold psum. apply rsum_le.
    intros j Hj. destruct (Hstar j Hj) as (_ & _ & _ & H0 & _). cbn beta. cbn [sel].
    change (T RNum) with R in *. destruct (vis j), (Nat.eqb (ep j) u); cbn [andb]; lra. Qed.

  Lemma psum_visit k vis i u : (i < nE)%nat ->
    psum k (updf vis i true) u
    = psum k vis u + (if Nat.eqb (ep i) u then (if vis i then 0 else sel k (lik i)) else 0).
  Proof. intro Hi. unfold psum.
    rewrite (rsum_upd nE (fun e => if vis e && Nat.eqb (ep e) u then sel k (lik e) else 0) _ i Hi).
    2:{ intros j Hj. unfold updf. destruct (Nat.eqb_spec j i); [contradiction|reflexivity]. }
    unfold updf. rewrite Nat.eqb_refl. cbn [andb].
    destruct (vis i), (Nat.eqb (ep i) u); cbn [andb]; lra. Qed.

  Notation edge_step := (edge_step RNum tiny ep ec bj bk lo hi unit (conj_project RNum) false nE ep ec lik S s).

  Lemma star_step st vis i : (i < nE)%nat -> J st vis ->
    exists st', edge_step (st, tt) i = Some (st', tt) /\ J st' (updf vis i true).
  Proof.
    intros Hi (Hscl & Hmsg & Hpost & Hpz).
    destruct (Hstar i Hi) as (Fp & Fc & Hage & Hy0 & Hmu). change (T RNum) with R in *.
    set (p := ep i) in *. set (c := ec i) in *.
    assert (Hmr : (if ltb RNum (scl st p) tiny || ltb RNum (scl st c) tiny
                   then rescale_factors RNum ep ec bj bk st else st) = st).
    { rewrite !Hscl. cbn [ltb RNum]. assert (Q : Rltb 1 tiny = false) by (apply Rltb_false; rlra). rewrite Q. reflexivity. }
    unfold EP.edge_step. fold p c.
    assert (Hlt : Nat.ltb i nE = true) by (apply Nat.ltb_lt; exact Hi). rewrite Hlt. cbn [negb].
    rewrite Hmr, Fp, Fc. cbn [andb fget]. rewrite (Hmsg i), (Hscl p), vscal_one.
    set (x := post st p) in *.
    assert (Hx0 : 0 <= fst x) by (change (fst x) with (sel false x); unfold x; rewrite Hpost; apply psum_nonneg).
    assert (Hx1 : 0 <= snd x) by (change (snd x) with (sel true x); unfold x; rewrite Hpost; apply psum_nonneg).
    assert (Hxcap : 1 + fst x <= S) by (change (fst x) with (sel false x); unfold x; rewrite Hpost; apply psum_cap).
    destruct (vis i) eqn:Hv.
    - (* the edge was visited before: its message is (y, mu); the update is a no-op *)
      assert (Hy : fst (lik i) <= fst x) by (change (fst x) with (sel false x); unfold x; rewrite Hpost; apply (psum_ge false); assumption).
      assert (Hm : snd (lik i) <= snd x) by (change (snd x) with (sel true x); unfold x; rewrite Hpost; apply (psum_ge true); assumption).
      destruct (damp_again x (lik i) s Hs (conj Hy0 Hy) (conj Hmu Hm)) as (d & Hd & Hd01).
      rewrite Hd. cbn [obind].
      unfold conj_project. cbn [Nat.eqb negb andb]. rewrite Hage.
      assert (Qz : eqb RNum 0 (zero RNum) = true) by (apply Reqb_true; reflexivity). rewrite Qz. cbn [andb obind].
      set (cav := vsub x (vscal (lik i) d)). set (el := vscal (lik i) d).
      assert (Hnew : conj_rootward RNum cav el = x).
      { rewrite conj_rootward_add.
        - unfold cav, el, vsub, vscal. destruct x as [x0 x1], (lik i) as [y m]. cbn [fst snd sub mul RNum T]. f_equal; rlra.
        - unfold cav, el, vsub, vscal. destruct x as [x0 x1], (lik i) as [y m]. cbn [fst snd sub mul RNum T] in *. rlra.
        - unfold cav, el, vsub, vscal. destruct x as [x0 x1], (lik i) as [y m]. cbn [fst snd sub mul RNum T] in *. rlra. }
      rewrite Hnew.
      change (T RNum) with R in *.
      assert (Hr : rescale1 x S = Some 1) by (apply rescale1_none; try assumption; rlra).
      rewrite Hr. cbn [obind]. eexists. split; [reflexivity|].
      unfold J, apply_one, fset, fget. cbn [post scl fedge fblock fnode side_get side_set]. repeat split.
      + intro u. unfold updf. destruct (Nat.eqb u p); [rewrite Hscl; cbn [mul RNum]; rlra|apply Hscl].
      + intro e. unfold updf. destruct (Nat.eqb_spec e i) as [->|Hne].
        * cbn [fst]. rewrite Hmsg, Hv, Hscl. fold x. fold cav.
          apply sel_ext. intro k. rewrite sel_vadd, sel_vscal, sel_vdiv, sel_vsub. unfold cav. rewrite sel_vsub, sel_vscal.
          cbn [sub one RNum T]. field.
        * rewrite Hmsg. reflexivity.
      + intros u k. rewrite psum_visit by exact Hi. rewrite Hv. unfold updf. fold p.
        destruct (Nat.eqb_spec u p) as [->|Hne].
        * rewrite Nat.eqb_refl, sel_vscal. fold x. rewrite <- Hpost. fold x. rlra.
        * destruct (Nat.eqb_spec p u); [congruence|]. rewrite Hpost. rlra.
      + intro u. unfold updf. destruct (Nat.eqb u p); [|apply Hpz].
        right. cbn [snd vscal mul RNum]. rlra.
    - (* first visit: the message is 0, delta = 1, the message becomes (y, mu) *)
      assert (Hd : damp x (@vzero RNum) s = Some 1).
      { apply damp_first; [exact Hs|]. destruct (Hpz p) as [E|E]; [left; exact E|right; split; [exact Hx0|exact E]]. }
      rewrite Hd. cbn [obind].
      unfold conj_project. cbn [Nat.eqb negb andb]. rewrite Hage.
      assert (Qz : eqb RNum 0 (zero RNum) = true) by (apply Reqb_true; reflexivity). rewrite Qz. cbn [andb obind].
      set (cav := vsub x (vscal (@vzero RNum) 1)). set (el := vscal (lik i) 1).
      assert (Hnew : conj_rootward RNum cav el = vadd x (lik i)).
      { rewrite conj_rootward_add.
        - unfold cav, el, vsub, vscal, vadd, vzero. destruct x as [x0 x1], (lik i) as [y m]. cbn [fst snd sub mul add zero RNum T]. f_equal; rlra.
        - unfold cav, el, vsub, vscal, vzero. destruct x as [x0 x1], (lik i) as [y m]. cbn [fst snd sub mul zero RNum T] in *. rlra.
        - unfold cav, el, vsub, vscal, vzero. destruct x as [x0 x1], (lik i) as [y m]. cbn [fst snd sub mul zero RNum T] in *. rlra. }
      rewrite Hnew.
      assert (Hn0 : fst (vadd x (lik i)) = psum false (updf vis i true) p).
      { rewrite psum_visit by exact Hi. fold p. rewrite Nat.eqb_refl, Hv. change (fst (vadd x (lik i))) with (sel false (vadd x (lik i))).
        rewrite sel_vadd. unfold x. rewrite Hpost. reflexivity. }
      assert (Hr : rescale1 (vadd x (lik i)) S = Some 1).
      { apply rescale1_none; [exact HS| | |].
        - rewrite Hn0. apply psum_nonneg.
        - rewrite Hn0. apply psum_cap.
        - destruct x as [x0 x1], (lik i) as [y m]. cbn [vadd fst snd add RNum] in *. rlra. }
      rewrite Hr. cbn [obind]. eexists. split; [reflexivity|].
      unfold J, apply_one, fset, fget. cbn [post scl fedge fblock fnode side_get side_set]. repeat split.
      + intro u. unfold updf. destruct (Nat.eqb u p); [rewrite Hscl; cbn [mul RNum]; rlra|apply Hscl].
      + intro e. unfold updf. destruct (Nat.eqb_spec e i) as [->|Hne].
        * cbn [fst]. rewrite Hmsg, Hv, Hscl. fold x. fold cav.
          apply sel_ext. intro k. rewrite sel_vadd, sel_vscal, sel_vdiv, sel_vsub, sel_vadd. unfold cav. rewrite sel_vsub, sel_vscal, !sel_vzero.
          cbn [sub one RNum T]. field.
        * rewrite Hmsg. reflexivity.
      + intros u k. rewrite psum_visit by exact Hi. rewrite Hv. unfold updf. fold p.
        destruct (Nat.eqb_spec u p) as [->|Hne].
        * rewrite Nat.eqb_refl, sel_vscal, sel_vadd. fold x. unfold x. rewrite Hpost. rlra.
        * destruct (Nat.eqb_spec p u); [congruence|]. rewrite Hpost. rlra.
      + intro u. unfold updf. destruct (Nat.eqb u p); [|apply Hpz].
        right. destruct x as [x0 x1], (lik i) as [y m]. cbn [vadd vscal fst snd add mul RNum] in *. rlra.
  Qed.

  Notation edge_loop := (edge_loop RNum tiny ep ec bj bk lo hi unit (conj_project RNum) false nE ep ec lik S s).

  Lemma star_loop order : forall st vis, Forall (fun e => (e < nE)%nat) order -> J st vis ->
    exists st' vis', edge_loop order (st, tt) = Some (st', tt) /\ J st' vis' /\
      (forall e, vis e = true -> vis' e = true) /\ (forall e, In e order -> vis' e = true).
  Proof. induction order as [|i r IH]; intros st vis HF HJ.
    - exists st, vis. cbn [EP.edge_loop]. split; [reflexivity|]. split; [exact HJ|]. split; [auto|intros e []].
    - inversion HF as [|? ? Hi HF']; subst.
      destruct (star_step st vis i Hi HJ) as (st1 & E1 & J1).
      destruct (IH st1 (updf vis i true) HF' J1) as (st2 & vis2 & E2 & J2 & Hmono & Hin).
      exists st2, vis2. cbn [EP.edge_loop]. rewrite E1. cbn [obind]. split; [exact E2|]. split; [exact J2|]. split.
      + intros e He. apply Hmono. unfold updf. destruct (Nat.eqb e i); [reflexivity|exact He].
      + intros e [->|He]; [|apply Hin; exact He]. apply Hmono. unfold updf. rewrite Nat.eqb_refl. reflexivity.
  Qed.

  Lemma J_rescale st vis : J st vis -> J (rescale_factors RNum ep ec bj bk st) vis.
  Proof. intros (Hscl & Hmsg & Hpost & Hpz). unfold J, rescale_factors. cbn [post scl fedge]. repeat split; auto.
    intro e. cbn [fst]. rewrite Hscl, vscal_one. apply Hmsg. Qed.

  Variable order : list nat.
  Hypothesis Hord : Forall (fun e => (e < nE)%nat) order.
  Hypothesis Hcover : forall e, (e < nE)%nat -> In e order.
  Variable blik : nat -> RV.
  Variable free : nat -> bool.
  Variable mx : nat.
  Variable rt : R.

  Notation iterate := (iterate RNum tiny infty nE ep ec nB bj bk nN lo hi unit (conj_project RNum)
                         [] order blik lik free S s mx rt false).

  Lemma asserts_ok : leb RNum (one RNum) S && (ltb RNum (zero RNum) s && ltb RNum s (one RNum)) = true.
  Proof. cbn [leb ltb one zero RNum]. rewrite !andb_true_iff. repeat split; [apply Rleb_true|apply Rltb_true|apply Rltb_true]; lra. Qed.

  Lemma star_iterate st vis : J st vis ->
    exists st' vis', iterate (st, tt) = Some (st', tt) /\ J st' vis' /\
      (forall e, (e < nE)%nat -> vis' e = true).
  Proof. intro HJ. unfold EP.iterate, propagate_likelihood. rewrite asserts_ok. cbn [EP.edge_loop obind].
    destruct (star_loop order st vis Hord HJ) as (st1 & vis1 & E1 & J1 & _ & Hin).
    rewrite E1. cbn [obind fst snd]. exists (rescale_factors RNum ep ec bj bk st1), vis1.
    split; [reflexivity|]. split; [apply J_rescale; exact J1|]. intros e He. apply Hin, Hcover, He. Qed.

  Lemma J_init : J (@init RNum) (fun _ => false).
  Proof. unfold J, init. cbn [post scl fedge fst]. repeat split; auto.
    intros u k. unfold psum. rewrite sel_vzero. rewrite (rsum_ext nE _ (fun _ => 0)) by (intros; reflexivity).
    symmetry. apply rsum_zero. Qed.

  Lemma star_iterate_n k : forall st vis, J st vis ->
    exists st' vis', iterate_n RNum tiny infty nE ep ec nB bj bk nN lo hi unit (conj_project RNum)
                       [] order blik lik free S s mx rt false (Datatypes.S k) (st, tt) = Some (st', tt) /\
      J st' vis' /\ (forall e, (e < nE)%nat -> vis' e = true).
  Proof. induction k as [|k IH]; intros st vis HJ; cbn [iterate_n].
    - destruct (star_iterate st vis HJ) as (st1 & vis1 & E1 & J1 & H1). rewrite E1. cbn [obind].
      exists st1, vis1. auto.
    - destruct (star_iterate st vis HJ) as (st1 & vis1 & E1 & J1 & H1). rewrite E1. cbn [obind].
      apply (IH st1 vis1 J1). Qed.

  Lemma star_exact k : exists st',
    iterate_n RNum tiny infty nE ep ec nB bj bk nN lo hi unit (conj_project RNum)
      [] order blik lik free S s mx rt false (Datatypes.S k) (init, tt) = Some (st', tt) /\
    forall u, post st' u = vsum RNum nE (fun e => if Nat.eqb (ep e) u then lik e else vzero).
  Proof. destruct (star_iterate_n k _ _ J_init) as (st' & vis' & E & (Hscl & Hmsg & Hpost & Hpz) & Hall).
    exists st'. split; [exact E|]. intro u. apply sel_ext. intro kk. rewrite Hpost, sel_vsum.
    unfold psum. apply rsum_ext. intros j Hj. rewrite (Hall j Hj). cbn [andb].
    destruct (Nat.eqb (ep j) u); [reflexivity|rewrite sel_vzero; reflexivity]. Qed.
End Star.

(** the traversal order built by [__init__] (no unphased blocks) covers every edge *)
Lemma mk_edge_order_all nE : Forall (fun e => (e < nE)%nat) (mk_edge_order nE []) /\
  (forall e, (e < nE)%nat -> In e (mk_edge_order nE [])).
Proof. unfold mk_edge_order, edge_unphased. cbn [existsb negb].
  assert (E : filter (fun _ : nat => true) (seq 0 nE) = seq 0 nE).
  { induction (seq 0 nE) as [|a l IH]; cbn; [reflexivity|]. rewrite IH. reflexivity. }
  rewrite E. split.
  - apply Forall_forall. intros e He. apply in_app_or in He. destruct He as [He|He].
    + assert (In e (seq 0 nE)).
      { clear E. revert He. generalize (seq 0 nE). intro l. induction l as [|a [|b l'] IH]; cbn [removelast]; intro H; [destruct H|destruct H|].
        destruct H as [->|H]; [left; reflexivity|right; apply IH; exact H]. }
      apply in_seq in H. lia.
    + apply in_rev in He. apply in_seq in He. lia.
  - intros e He. apply in_or_app. right. apply -> in_rev. apply in_seq. lia.
Qed.

(** ** Statements in the form used by props/C20.v *)
Lemma C20_exact (tiny infty : R) nE ep ec nB bj bk nN (lo hi : nat -> R)
    (lik : nat -> V2 RNum) (S s : R) order blik free mx rt k :
  tiny <= 1 -> 0 < s < 1 -> 1 <= S ->
  star nE ep ec lo hi lik -> uncapped nE ep lik S ->
  Forall (fun e => (e < nE)%nat) order -> (forall e, (e < nE)%nat -> In e order) ->
  exists st',
    iterate_n RNum tiny infty nE ep ec nB bj bk nN lo hi unit (conj_project RNum)
      [] order blik lik free S s mx rt false (Datatypes.S k) (init, tt) = Some (st', tt) /\
    forall u, post st' u = vsum RNum nE (fun e => if Nat.eqb (ep e) u then lik e else vzero).
Proof. intros Ht Hs HS Hst Hc Ho Hcov.
  exact (star_exact tiny infty Ht nE ep ec nB bj bk nN lo hi lik S s Hs HS Hst Hc order Ho Hcov blik free mx rt k). Qed.

Lemma C20_capshape (tiny infty : R) nE ep ec nB bj bk nN (lo hi : nat -> R)
    (S : R) block_order edge_order blik elik free s mx rt regularise k so' :
  1 <= S ->
  iterate_n RNum tiny infty nE ep ec nB bj bk nN lo hi unit (conj_project RNum)
    block_order edge_order blik elik free S s mx rt regularise k (init, tt) = Some so' ->
  forall u, proper S (post (fst so') u).
Proof. intros HS H.
  exact (iterate_n_proper tiny infty nE ep ec nB bj bk nN lo hi unit (conj_project RNum) S HS block_order edge_order blik elik free s mx rt regularise k
           (init, tt) so' H (init_proper S)). Qed.
