(** * Tactics and basic facts for the regenerated text (gen/HypergeoGen.v, gen/ApproxGen.v)
      instantiated over the reals. *)
From Coq Require Import Reals Lra Bool ZArith.
From TsdateV Require Import lib.Num model.ApproxBase gen.HypergeoGen gen.ApproxGen.
Open Scope R_scope.

(** expose the real operations behind the [Num] / [Fns] records and the small helpers *)
Ltac runfold := cbv beta iota zeta delta
  [Num.T Num.zero Num.one Num.add Num.sub Num.mul Num.div Num.neg Num.ltb Num.leb Num.eqb Num.ofZ RNum
   gtb geb neqb pw absN minN isclose
   f_exp f_log f_sqrt f_lgamma f_tan f_sin f_log1p f_expm1 f_pi f_euler_gamma f_isfinite f_isinf f_lit RF
   valid_moments valid_gamma valid_hyp1f1 valid_hyperu valid_hyp2f1].
Ltac runfold_in H := cbv beta iota zeta delta
  [Num.T Num.zero Num.one Num.add Num.sub Num.mul Num.div Num.neg Num.ltb Num.leb Num.eqb Num.ofZ RNum
   gtb geb neqb pw absN minN isclose
   f_exp f_log f_sqrt f_lgamma f_tan f_sin f_log1p f_expm1 f_pi f_euler_gamma f_isfinite f_isinf f_lit RF
   valid_moments valid_gamma valid_hyp1f1 valid_hyperu valid_hyp2f1] in H.

(** decide the first real comparison of the goal *)
Ltac rdec1 :=
  match goal with
  | |- context [Rltb ?a ?b] => unfold Rltb at 1; destruct (Rlt_dec a b)
  | |- context [Rleb ?a ?b] => unfold Rleb at 1; destruct (Rle_dec a b)
  | |- context [Reqb ?a ?b] => unfold Reqb at 1; destruct (Req_EM_T a b)
  end.
(** ... all of them; contradictory combinations are closed by [lra] *)
Ltac rdec := repeat (rdec1; cbn [negb andb orb]; try (exfalso; lra)).

Lemma ratio_lt_1 z : z < 1 -> z / (z - 1) < 1.
Proof.
  intros Hz. assert (Hn : z - 1 < 0) by lra.
  replace (z / (z - 1)) with (1 + / (z - 1)) by (field; lra).
  assert (/ (z - 1) < 0) by (apply Rinv_lt_0_compat; exact Hn). lra.
Qed.

Lemma Rltb_t a b : a < b -> Rltb a b = true.
Proof. intros; apply Rltb_true; assumption. Qed.
Lemma Rltb_f a b : b <= a -> Rltb a b = false.
Proof. intros; apply Rltb_false; assumption. Qed.
Lemma Rleb_t a b : a <= b -> Rleb a b = true.
Proof. intros; apply Rleb_true; assumption. Qed.
Lemma Rleb_f a b : b < a -> Rleb a b = false.
Proof. intros; apply Rleb_false; assumption. Qed.
Lemma Reqb_t a : Reqb a a = true.
Proof. apply Reqb_true; reflexivity. Qed.
Lemma Reqb_f a b : a <> b -> Reqb a b = false.
Proof. intros Hn. unfold Reqb. destruct (Req_EM_T a b); [contradiction|reflexivity]. Qed.

Section Valid.
  Variable lgam : R -> R.
  Variable eg : R.
  Variable H : HypFns RNum.
  Notation F := (RF lgam eg).

  (** the validity predicates of approx.py, read over the reals (where everything is finite) *)
  Lemma valid_moments_R mn va : valid_moments RNum F H mn va = true <-> (0 < mn /\ 0 < va).
  Proof. runfold. cbn [negb andb]. rdec; split; intros; try discriminate; try reflexivity; lra. Qed.

  Lemma valid_gamma_R s r : valid_gamma RNum F H s r = true <-> (0 < s /\ 0 < r).
  Proof. runfold. cbn [negb andb orb]. rdec; split; intros; try discriminate; try reflexivity; lra. Qed.

  Lemma valid_hyp1f1_R a b z : valid_hyp1f1 RNum F H a b z = true <-> (0 < a /\ a <= b).
  Proof. runfold. cbn [negb andb orb]. rdec; split; intros; try discriminate; try reflexivity; lra. Qed.

  Lemma valid_hyperu_R a b z : valid_hyperu RNum F H a b z = true <-> (0 < z /\ 0 < a /\ a < b).
  Proof. runfold. cbn [negb andb orb]. rdec; split; intros; try discriminate; try reflexivity; lra. Qed.

  Lemma valid_hyp2f1_R a b c z : valid_hyp2f1 RNum F H a b c z = true <-> (z < 1 /\ 0 < a /\ 0 < b /\ 0 < c).
  Proof.
    runfold. cbn [negb andb orb]. rdec; split; intros; try discriminate; try reflexivity; try lra.
    exfalso. assert (z / (z - 1) < 1) by (apply ratio_lt_1; lra). lra.
  Qed.
End Valid.
