(** * Fixed (sample) nodes through [_constrain_ages] (C03).
    The least-squares phase never moves a fixed node; the forced pass moves it only to
    a child's output time plus eps. *)
From Coq Require Import List Arith Lia Bool Reals Lra FunctionalExtensionality.
From TsdateV Require Import lib.Num model.Constrain proofs.ConstrainForced proofs.ConstrainLS.
Import ListNotations.
Open Scope R_scope.

Section Fixed.
Variable eps : R.
Variable fixed : nat -> bool.

(** [E e] = (parent, child) of edge number [e] *)
Variable E : nat -> nat * nat.

Definition cav_ok (cav : nat -> R * R) : Prop :=
  forall e, (fixed (snd (E e)) = true -> fst (cav e) = 0) /\
            (fixed (fst (E e)) = true -> snd (cav e) = 0).

Lemma ls_edge_fixed t cav e p c t' cav' :
  cav_ok cav -> E e = (p, c) ->
  ls_edge RNum fixed (t, cav) (e, (p, c)) = Some (t', cav') ->
  cav_ok cav' /\ forall u, fixed u = true -> t' u = t u.
Proof.
  intros Hok HE H. unfold ls_edge in H. cbn [RNum sub add zero ltb T neg div fst snd two one] in H.
  destruct (Hok e) as [Hc Hp]. rewrite HE in Hc, Hp. cbn [fst snd] in Hc, Hp.
  set (a := fst (cav e)) in *. set (b := snd (cav e)) in *.
  set (t1 := upd t c (t c - a)) in *.
  set (t2 := upd t1 p (t1 p - b)) in *.
  set (adj := t2 c - t2 p) in *.
  assert (Hkeep : forall a' b', (fixed c = true -> a' = 0) -> (fixed p = true -> b' = 0) ->
            forall u, fixed u = true ->
            upd (upd t2 c (t2 c + a')) p (upd t2 c (t2 c + a') p + b') u = t u).
  { intros a' b' Ha' Hb' u Hu. unfold upd, t2, t1, upd.
    destruct (Nat.eqb_spec u p) as [->|Hup].
    - specialize (Hb' Hu). specialize (Hp Hu). rewrite Nat.eqb_refl.
      destruct (Nat.eqb_spec p c) as [->|Hpc].
      + specialize (Ha' Hu). specialize (Hc Hu). rewrite ?Nat.eqb_refl. lra.
      + rewrite ?Nat.eqb_refl. lra.
    - destruct (Nat.eqb_spec u c) as [->|Huc].
      + specialize (Ha' Hu). specialize (Hc Hu).
        destruct (Nat.eqb_spec c p) as [->|Hcp]; [congruence|]. rewrite ?Nat.eqb_refl. lra.
      + reflexivity. }
  assert (Hcav : forall cv, (fixed c = true -> fst cv = 0) -> (fixed p = true -> snd cv = 0) ->
            cav_ok (upd cav e cv)).
  { intros cv H1 H2 e'. unfold upd. destruct (Nat.eqb_spec e' e) as [->|Hne].
    - rewrite HE. cbn [fst snd]. split; assumption.
    - apply Hok. }
  cbv zeta in H.
  match type of H with (if Rltb 0 ?x then _ else _) = _ => destruct (Rltb 0 x) end.
  - destruct (fixed c) eqn:Fc; destruct (fixed p) eqn:Fp; cbn [andb negb] in H; try discriminate;
      injection H as Ht' Hcav'; subst t' cav'; cbn [fst snd]; split.
    + apply Hcav; cbn [fst snd]; intros; try reflexivity; discriminate.
    + apply Hkeep; intros; try reflexivity; discriminate.
    + apply Hcav; cbn [fst snd]; intros; try reflexivity; discriminate.
    + apply Hkeep; intros; try reflexivity; discriminate.
    + apply Hcav; cbn [fst snd]; intros; discriminate.
    + apply Hkeep; intros; discriminate.
  - injection H as Ht' Hcav'; subst t' cav'; cbn [fst snd]; split.
    + apply Hcav; cbn [fst snd]; intros; reflexivity.
    + apply Hkeep; intros; reflexivity.
Qed.

Lemma ls_sweep_fixed : forall ies t cav t' cav',
  cav_ok cav -> (forall e p c, In (e, (p, c)) ies -> E e = (p, c)) ->
  ls_sweep RNum fixed (t, cav) ies = Some (t', cav') ->
  cav_ok cav' /\ forall u, fixed u = true -> t' u = t u.
Proof. induction ies as [|[e [p c]] r IH]; intros t cav t' cav' Hok HE H.
  - inversion H; subst. split; [assumption | reflexivity].
  - cbn [ls_sweep] in H.
    destruct (ls_edge RNum fixed (t, cav) (e, (p, c))) as [[t1 cav1]|] eqn:E1; [|discriminate].
    destruct (ls_edge_fixed t cav e p c t1 cav1 Hok (HE e p c (or_introl eq_refl)) E1) as [Hok1 Ht1].
    destruct (IH t1 cav1 t' cav' Hok1 (fun e' p' c' Hin => HE e' p' c' (or_intror Hin)) H) as [Hok' Ht'].
    split; [assumption|]. intros u Hu. rewrite Ht', Ht1; auto. Qed.

Lemma ls_loop_fixed es : (forall e p c, In (e, (p, c)) (index es) -> E e = (p, c)) ->
  forall k t cav r, cav_ok cav ->
  ls_loop RNum eps fixed k es (t, cav) = Some r ->
  match r with
  | inl t' => forall u, fixed u = true -> t' u = t u
  | inr (t', cav') => forall u, fixed u = true -> t' u = t u
  end.
Proof. intros HE. induction k as [|k IH]; intros t cav r Hok H.
  - inversion H; subst. reflexivity.
  - cbn [ls_loop fst] in H. destruct (all_strict RNum eps es t).
    + inversion H; subst. reflexivity.
    + destruct (ls_sweep RNum fixed (t, cav) (index es)) as [[t1 cav1]|] eqn:E1; [|discriminate].
      destruct (ls_sweep_fixed (index es) t cav t1 cav1 Hok HE E1) as [Hok1 Ht1].
      specialize (IH t1 cav1 r Hok1 H). destruct r as [t'|[t' cav']]; intros u Hu; rewrite IH, Ht1; auto. Qed.
End Fixed.

(** the edge table as a function, and [index es] agrees with it *)
Definition edge_fun (es : list (nat * nat)) : nat -> nat * nat := fun e => nth e es (0, 0)%nat.

Lemma index_edge_fun es : forall e p c, In (e, (p, c)) (index es) -> edge_fun es e = (p, c).
Proof. unfold index, edge_fun. intros e p c H.
  assert (G : forall l s, In (e, (p, c)) (combine (seq s (length l)) l) ->
              (s <= e)%nat /\ nth (e - s) l (0, 0)%nat = (p, c)).
  { clear. induction l as [|x l IH]; intros s H; [destruct H|]. cbn in H. destruct H as [H|H].
    - inversion H; subst. split; [lia|]. rewrite Nat.sub_diag. reflexivity.
    - destruct (IH (S s) H) as [Hle Hn]. split; [lia|].
      replace (e - s)%nat with (S (e - S s)) by lia. exact Hn. }
  destruct (G es 0%nat H) as [_ Hn]. rewrite Nat.sub_0_r in Hn. exact Hn. Qed.

(** ** C03: what happens to a fixed (sample) node, for every iteration count *)
Theorem constrain_fixed (eps : R) fixed k es (t t' : nat -> R) u :
  children_first es ->
  constrain RNum eps fixed k es t = Some t' -> fixed u = true ->
  t u <= t' u /\
  (forall c, In (u, c) es -> t' c + eps <= t' u) /\
  (t' u = t u \/ exists c, In (u, c) es /\ t' u = t' c + eps).
Proof.
  intros Hcf H Hu. unfold constrain in H.
  destruct (ls_loop RNum eps fixed k es (st0 RNum t)) as [r|] eqn:EL; [|discriminate].
  assert (Hok : cav_ok fixed (edge_fun es) (fun _ => (zero RNum, zero RNum))).
  { intro e. split; reflexivity. }
  pose proof (ls_loop_fixed eps fixed (edge_fun es) es (index_edge_fun es) k t _ r Hok EL) as HF.
  destruct r as [t1|[t1 cav1]].
  - inversion H; subst t1; clear H. rewrite (HF u Hu). split; [lra|]. split.
    + pose proof (ls_loop_early eps fixed k es _ _ EL) as Hs. rewrite all_strict_spec in Hs.
      intros c Hin. specialize (Hs u c Hin). rewrite (HF u Hu) in Hs. lra.
    + left. reflexivity.
  - inversion H; subst t'; clear H. cbn [fst]. split; [|split].
    + rewrite <- (HF u Hu). apply forcedR_ge.
    + intros c Hin. apply (forcedR_sat eps es t1 Hcf u c Hin).
    + destruct (forcedR_tight eps es t1 u Hcf) as [Heq|Hex].
      * left. rewrite Heq. apply HF; exact Hu.
      * right. exact Hex.
Qed.

Corollary constrain_fixed_leaf (eps : R) fixed k es (t t' : nat -> R) u :
  children_first es ->
  constrain RNum eps fixed k es t = Some t' -> fixed u = true ->
  (forall c, ~ In (u, c) es) -> t' u = t u.
Proof. intros Hcf H Hu Hleaf.
  destruct (constrain_fixed eps fixed k es t t' u Hcf H Hu) as (_ & _ & [Heq|(c & Hin & _)]).
  - exact Heq.
  - exfalso. exact (Hleaf c Hin). Qed.
