(** * C12 at run level for the outside pass *)
From Coq Require Import List Arith Bool Lia Reals Lra.
From TsdateV Require Import lib.Num model.Discrete model.DiscreteER proofs.DiscreteBase proofs.DiscreteInside
  proofs.DiscreteOutside proofs.DiscreteLog proofs.DiscreteLogRun.
Import ListNotations.
Open Scope R_scope.

Lemma vrel_vratio0 a x b y : vrel a x -> vrel b y ->
  (forall r, nth r y 0 <> 0 \/ nth r x 0 = 0) ->
  vrel (vratio0 LogER a b) (vratio0 LinR x y).
Proof. intro H. revert b y. induction H as [|p q a x Hp H IH]; intros b y Hb Hc; unfold vratio0 in *; cbn [combine map]; [constructor|].
  destruct Hb as [|r s b y Hr Hb]; cbn [combine map]; constructor.
  - apply rel_ratio0; [exact Hp|exact Hr|]. exact (Hc 0%nat).
  - apply IH; [exact Hb|]. intro k. exact (Hc (Datatypes.S k)). Qed.

Section OutRun.
  Variable G : nat.
  Variable likL : nat -> nat -> nat -> ER.
  Variable likR : nat -> nat -> nat -> R.
  Hypothesis lik_rel : forall e i j, rel (likL e i j) (likR e i j).
  Variable sfR : nat -> R.
  Hypothesis sf_pos : forall e, 0 < sfR e.
  Notation sfL := (sfL sfR).
  Variable fixed : nat -> bool.
  Variable stL : istate LogER.
  Variable stR : istate LinR.
  Variable std ign : bool.
  Variable num_nodes : nat.

  (** the two inside states correspond, and no linear denominator is 0 *)
  Hypothesis ins_rel : forall u, orel (i_ins LogER stL u) (i_ins LinR stR u).
  Hypothesis den_rel : forall u,
    match i_den LogER stL u, i_den LinR stR u with
    | Some d, Some dl => rel d dl /\ dl <> 0
    | None, None => True
    | _, _ => False
    end.

  (** a node that has a denominator has inside values (both are set together by inside_group) *)
  Hypothesis no_ins_no_den : forall u, i_ins LogER stL u = None -> i_den LogER stL u <> None -> False.

  Notation g_iL := (g_i LogER G likL sfL stL false).
  Notation g_iR := (g_i LinR G likR sfR stR false).

  Lemma g_i_rel e : orel (g_iL e) (g_iR e).
  Proof. unfold g_i. pose proof (den_rel (e_child e)) as Hd.
    destruct (i_den LogER stL (e_child e)) as [d|], (i_den LinR stR (e_child e)) as [dl|]; try tauto.
    destruct Hd as (Hd & Hn). pose proof (ins_rel (e_child e)) as Hi.
    destruct (i_ins LogER stL (e_child e)) as [l|], (i_ins LinR stR (e_child e)) as [xs|]; cbn [orel] in *; try tauto.
    apply vrel_vratio; [|exact Hd|exact Hn]. apply (get_inside_rel G likL likR lik_rel).
    apply (vrel_map (s_geom LogER (sfL (e_id e))) (s_geom LinR (sfR (e_id e)))).
    - intros a x Ha. apply rel_geom; [apply sf_pos|exact Ha].
    - unfold make_lower_tri. now apply vrel_take. Qed.

  (** the linear-space vector whose maximum standardises the message of edge [e] *)
  Definition lin_pv (outR : nat -> option (list R)) (e : edge) : option (list R) :=
    match i_ins LinR stR (e_parent e), outR (e_parent e), g_iR e with
    | Some ip, Some op, Some g =>
        Some (map (s_geom LinR (sfR (e_id e))) (make_upper_tri LinR G (vcomb LinR op (vratio0 LinR ip g))))
    | _, _, _ => None
    end.

  (** side conditions on the linear run for one edge: 0/0 only where div_0_null applies, and
      (with standardisation) a non-zero maximum *)
  Definition edge_safe (outR : nat -> option (list R)) (e : edge) : Prop :=
    (forall ip g, i_ins LinR stR (e_parent e) = Some ip -> g_iR e = Some g ->
       forall r, nth r g 0 <> 0 \/ nth r ip 0 = 0) /\
    (std = true -> forall pv, lin_pv outR e = Some pv -> npmax LinR pv <> 0).

  Lemma get_outside_rel arr arr' e : vrel arr arr' ->
    vrel (get_outside LogER G likL arr e) (get_outside LinR G likR arr' e).
  Proof. intro H. unfold get_outside, rowsum_upper_tri. apply vrel_reduceat. apply vrel_vcomb; [exact H|].
    apply (liks_rel). unfold ll_upper. apply vrel_take. now apply ll_lower_rel. Qed.

  Lemma out_edge_rel outL outR e : orel (outL (e_parent e)) (outR (e_parent e)) -> edge_safe outR e ->
    orel (out_edge LogER G likL sfL stL false std outL e) (out_edge LinR G likR sfR stR false std outR e).
  Proof. intros Ho (Hz & Hs). unfold out_edge. pose proof (ins_rel (e_parent e)) as Hi. pose proof (g_i_rel e) as Hg.
    destruct (i_ins LogER stL (e_parent e)) as [ipL|], (i_ins LinR stR (e_parent e)) as [ipR|] eqn:EiR; cbn [orel] in Hi; try tauto.
    destruct (outL (e_parent e)) as [opL|], (outR (e_parent e)) as [opR|] eqn:EoR; cbn [orel] in Ho; try tauto.
    destruct (g_iL e) as [gL|], (g_iR e) as [gR|] eqn:EgR; cbn [orel] in Hg; try tauto.
    cbn [orel].
    assert (Hpv : vrel (map (s_geom LogER (sfL (e_id e))) (make_upper_tri LogER G (vcomb LogER opL (vratio0 LogER ipL gL))))
                       (map (s_geom LinR (sfR (e_id e))) (make_upper_tri LinR G (vcomb LinR opR (vratio0 LinR ipR gR))))).
    { apply (vrel_map (s_geom LogER (sfL (e_id e))) (s_geom LinR (sfR (e_id e)))).
      - intros a x Ha. apply rel_geom; [apply sf_pos|exact Ha].
      - unfold make_upper_tri. apply vrel_take. apply vrel_vcomb; [exact Ho|].
        apply vrel_vratio0; [exact Hi|exact Hg|]. now apply (Hz ipR gR). }
    apply get_outside_rel. destruct std; [|exact Hpv].
    apply vrel_vratio; [exact Hpv|now apply rel_npmax|]. apply (Hs eq_refl). unfold lin_pv. now rewrite EiR, EoR, EgR. Qed.

  Lemma out_edges_rel outL outR : forall es vL vR,
    (forall e, In e es -> fixed (e_parent e) = false -> orel (outL (e_parent e)) (outR (e_parent e))) ->
    (forall e, In e es -> edge_safe outR e) -> vrel vL vR ->
    orel (out_edges LogER G likL sfL fixed stL false std ign num_nodes outL vL es)
         (out_edges LinR G likR sfR fixed stR false std ign num_nodes outR vR es).
  Proof. induction es as [|e r IH]; intros vL vR Ho Hsafe Hv; cbn [out_edges]; [exact Hv|].
    destruct (ign && Nat.eqb (e_parent e) (num_nodes - 1)).
    - apply IH; [intros; apply Ho; [now right|assumption]|intros; apply Hsafe; now right|exact Hv].
    - destruct (fixed (e_parent e)) eqn:Hf; [exact I|].
      pose proof (out_edge_rel outL outR e (Ho e (or_introl eq_refl) Hf) (Hsafe e (or_introl eq_refl))) as Hm.
      destruct (out_edge LogER G likL sfL stL false std outL e) as [mL|], (out_edge LinR G likR sfR stR false std outR e) as [mR|];
        cbn [orel] in Hm; try tauto.
      apply IH; [intros; apply Ho; [now right|assumption]|intros; apply Hsafe; now right|now apply vrel_vcomb]. Qed.

  (** along any valid order: the solutions of the two outside equation systems are related *)
  Lemma outside_rel_from allc : forall gs seen outL outR,
    outside_order allc seen gs ->
    (forall u, fixed u = false -> In u seen \/ ~ In u allc -> orel (outL u) (outR u)) ->
    (forall g, In g gs -> group_out_eq LogER G likL sfL fixed stL false std ign num_nodes outL g) ->
    (forall g, In g gs -> group_out_eq LinR G likR sfR fixed stR false std ign num_nodes outR g) ->
    (forall g e, In g gs -> In e (snd g) -> edge_safe outR e) ->
    (std = true -> forall g val, In g gs -> fixed (fst g) = false ->
       out_edges LinR G likR sfR fixed stR false std ign num_nodes outR (repeat 1 G) (snd g) = Some val -> npmax LinR val <> 0) ->
    forall g, In g gs -> fixed (fst g) = false -> orel (outL (fst g)) (outR (fst g)) /\ outL (fst g) <> None.
  Proof. induction gs as [|[c es] r IH]; intros seen outL outR Hord Hseen HL HR Hsafe Hstd g Hg Hfx; [destruct Hg|].
    destruct Hord as (Hn & Hpar & Hord).
    assert (Hc : fixed c = false -> orel (outL c) (outR c) /\ outL c <> None).
    { intro Hfc. destruct (HL (c, es) (or_introl eq_refl) Hfc) as (vL & dL & HvL & HdL & _ & HoL).
      destruct (HR (c, es) (or_introl eq_refl) Hfc) as (vR & dR & HvR & HdR & _ & HoR). cbn [fst snd] in *.
      assert (Hv : vrel vL vR).
      { pose proof (out_edges_rel outL outR es (repeat (s_id LogER) G) (repeat (s_id LinR) G)) as Hf.
        rewrite HvL, HvR in Hf. cbn [orel] in Hf. apply Hf.
        - intros e He Hfp. apply Hseen; [exact Hfp|now apply Hpar].
        - intros e He. apply (Hsafe (c, es)); [now left|exact He].
        - apply vrel_repeat. apply rel_id. }
      pose proof (den_rel c) as Hd. rewrite HdL, HdR in Hd. destruct Hd as (Hd & Hdn).
      rewrite HoL, HoR. split; [|discriminate]. cbn [orel]. destruct std eqn:Es.
      - apply vrel_vratio; [exact Hv|now apply rel_npmax|]. apply (Hstd eq_refl (c, es)); [now left|exact Hfc|exact HvR].
      - now apply vrel_vratio. }
    destruct Hg as [<-|Hg]; [exact (Hc Hfx)|].
    apply (IH (c :: seen) outL outR Hord); try assumption.
    - intros u Hfu [[<-|Hu]|Hu]; [now apply Hc|apply Hseen; [exact Hfu|now left]|apply Hseen; [exact Hfu|now right]].
    - intros; apply HL; now right.
    - intros; apply HR; now right.
    - intros g' e Hg' He. apply (Hsafe g'); [now right|exact He].
    - intros Es g' val Hg' Hf' Hv'. apply (Hstd Es g'); [now right|assumption|assumption]. Qed.

  Lemma out0_rel (roots : list (nat * R)) nonfixed u :
    (forall rf, In rf roots -> 0 <= snd rf) ->
    orel (out0 LogER G (EFin 0) (map (fun rf => (fst rf, EFin (snd rf))) roots) nonfixed u)
         (out0 LinR G 0 roots nonfixed u).
  Proof. intro Hr. unfold out0. destruct (existsb (Nat.eqb u) nonfixed); [|exact I].
    induction roots as [|[r f] rest IH]; cbn [map find fst snd].
    - cbn [orel]. apply vrel_repeat. apply rel_oflin. lra.
    - destruct (Nat.eqb r u).
      + cbn [orel snd]. apply vrel_repeat. apply rel_oflin. apply (Hr (r, f)). now left.
      + apply IH. intros; apply Hr; now right. Qed.

  (** ** the outside pass in the two spaces *)
  Theorem outside_pass_agree es_out (roots : list (nat * R)) nonfixed outL outR :
    let gso := groupby e_child es_out in
    outside_order (map fst gso) [] gso ->
    (forall rf, In rf roots -> 0 <= snd rf) ->
    outside_pass LogER G likL sfL fixed stL false std ign num_nodes (EFin 0) es_out
        (map (fun rf => (fst rf, EFin (snd rf))) roots) nonfixed = Some outL ->
    outside_pass LinR G likR sfR fixed stR false std ign num_nodes 0 es_out roots nonfixed = Some outR ->
    (* no 0/0 outside div_0_null and no zero standardisation maximum in the linear run *)
    (forall g e, In g gso -> In e (snd g) -> edge_safe outR e) ->
    (std = true -> forall g val, In g gso -> fixed (fst g) = false ->
       out_edges LinR G likR sfR fixed stR false std ign num_nodes outR (repeat 1 G) (snd g) = Some val -> npmax LinR val <> 0) ->
    forall g, In g gso -> fixed (fst g) = false ->
      exists l xs pl px, outL (fst g) = Some l /\ outR (fst g) = Some xs /\ Forall2 rel l xs /\
        posterior_grid LogER stL outL (fst g) = Some pl /\ posterior_grid LinR stR outR (fst g) = Some px /\ Forall2 rel pl px.
  Proof. intros gso Hord Hroots HL HR Hsafe Hstd g Hg Hfx. unfold outside_pass in HL, HR. fold gso in HL, HR.
    destruct (out_groups_spec LogER G likL sfL fixed stL false std ign num_nodes (map fst gso) gso [] _ _ Hord
                (fun g Hg => in_map fst _ g Hg) HL) as (KL & EL).
    destruct (out_groups_spec LinR G likR sfR fixed stR false std ign num_nodes (map fst gso) gso [] _ _ Hord
                (fun g Hg => in_map fst _ g Hg) HR) as (KR & ER').
    destruct (outside_rel_from (map fst gso) gso [] outL outR Hord) with (g := g) as (Ho & Hsome); try assumption.
    - intros u _ [[]|Hn]. rewrite (KL u Hn), (KR u Hn). now apply out0_rel.
    - destruct (outL (fst g)) as [l|] eqn:EoL; [|exfalso; now apply Hsome].
      destruct (outR (fst g)) as [xs|] eqn:EoR; cbn [orel] in Ho; [|tauto].
      destruct (EL g Hg Hfx) as (_ & dL & _ & HdL & _ & _).
      (* the node has inside values in both runs (it has a denominator) *)
      pose proof (ins_rel (fst g)) as Hi. unfold posterior_grid.
      destruct (i_ins LogER stL (fst g)) as [il|] eqn:EiL, (i_ins LinR stR (fst g)) as [ir|] eqn:EiR; cbn [orel] in Hi; try tauto.
      + exists l, xs, (vcomb LogER il l), (vcomb LinR ir xs). rewrite EoL, EoR.
        split; [reflexivity|]. split; [reflexivity|]. split; [exact Ho|]. split; [reflexivity|]. split; [reflexivity|].
        now apply vrel_vcomb.
      + exfalso. apply (no_ins_no_den (fst g)); [assumption|]. rewrite HdL. discriminate. Qed.
End OutRun.

(** fixed parents are skipped: their entries are never written *)
Lemma inside_groups_keep_fixed (P : Space) G lik sfrac fixed prior std u : fixed u = true ->
  forall gs st st', inside_groups P G lik sfrac fixed prior std st gs = Some st' ->
  i_ins P st' u = i_ins P st u /\ i_den P st' u = i_den P st u.
Proof. intro Hfu. induction gs as [|[p es] r IH]; intros st st' H; cbn [inside_groups] in H; [inversion H; auto|].
  destruct (inside_group P G lik sfrac fixed prior std st (p, es)) as [s1|] eqn:Hg; [|discriminate].
  destruct (IH _ _ H) as (-> & ->). unfold inside_group in Hg. destruct (fixed p) eqn:Hfp; [inversion Hg; auto|].
  destruct (inside_edges P G lik sfrac fixed (i_ins P st) (i_gi P st) (prior p) es) as [[val gi]|]; [|discriminate].
  inversion Hg; subst s1; cbn. rewrite !updf_other by (intro; subst; congruence). auto. Qed.

(** ** inside + outside: the posterior grids of the two spaces correspond *)
Theorem inside_outside_agree :
  forall (G : nat) (likL : nat -> nat -> nat -> ER) (likR : nat -> nat -> nat -> R),
  (forall e i j, rel (likL e i j) (likR e i j)) ->
  forall (sfR : nat -> R), (forall e, 0 < sfR e) ->
  forall (fixed : nat -> bool) (priorL : nat -> list ER) (priorR : nat -> list R),
  (forall u, Forall2 rel (priorL u) (priorR u)) ->
  forall es es_out (roots : list (nat * R)) nonfixed std ign num_nodes stL mL stR mR outL outR,
  let gs := groupby e_parent es in
  let gso := groupby e_child es_out in
  let rootsL := map (fun rf => (fst rf, EFin (snd rf))) roots in
  let sfL := fun e => EFin (sfR e) in
  inside_order fixed [] gs -> outside_order (map fst gso) [] gso ->
  (forall rf, In rf roots -> 0 < snd rf /\ fixed (fst rf) = false /\ In (fst rf) (map fst gs)) ->
  inside_pass LogER G likL sfL fixed priorL true es rootsL = Some (stL, mL) ->
  inside_pass LinR G likR sfR fixed priorR true es roots = Some (stR, mR) ->
  outside_pass LogER G likL sfL fixed stL false std ign num_nodes (EFin 0) es_out rootsL nonfixed = Some outL ->
  outside_pass LinR G likR sfR fixed stR false std ign num_nodes 0 es_out roots nonfixed = Some outR ->
  (* the linear run never divides by zero, except 0/0 under div_0_null *)
  (forall g d, In g gs -> fixed (fst g) = false -> i_den LinR stR (fst g) = Some d -> d <> 0) ->
  (forall g e, In g gso -> In e (snd g) -> edge_safe G likR sfR stR std outR e) ->
  (std = true -> forall g val, In g gso -> fixed (fst g) = false ->
     out_edges LinR G likR sfR fixed stR false std ign num_nodes outR (repeat 1 G) (snd g) = Some val -> npmax LinR val <> 0) ->
  rel mL mR /\
  forall g, In g gso -> fixed (fst g) = false ->
    exists pl px, posterior_grid LogER stL outL (fst g) = Some pl /\ posterior_grid LinR stR outR (fst g) = Some px /\
      Forall2 rel pl px.
Proof. intros G likL likR Hlik sfR Hsf fixed priorL priorR Hprior es es_out roots nonfixed std ign num_nodes
    stL mL stR mR outL outR gs gso rootsL sfL Hord Hoo Hroots HinL HinR HoutL HoutR Hnz Hsafe Hstd.
  destruct (inside_pass_agree G likL likR Hlik sfR Hsf fixed priorL priorR Hprior es roots stL mL stR mR
              Hord HinL HinR Hnz Hroots) as (Hins & Hm).
  split; [exact Hm|].
  unfold inside_pass in HinL, HinR. fold gs in HinL, HinR.
  destruct (inside_groups LogER G likL sfL fixed priorL true (istate0 LogER) gs) as [sL|] eqn:HgL; [|discriminate].
  destruct (inside_groups LinR G likR sfR fixed priorR true (istate0 LinR) gs) as [sR|] eqn:HgR; [|discriminate].
  assert (EsL : stL = sL). { destruct (marg_roots LogER (i_ins LogER sL) (i_marg LogER sL) rootsL); [|discriminate]. congruence. }
  assert (EsR : stR = sR). { destruct (marg_roots LinR (i_ins LinR sR) (i_marg LinR sR) roots); [|discriminate]. congruence. }
  subst sL sR. clear HinL HinR.
  destruct (inside_groups_spec LogER G likL sfL fixed priorL true gs [] _ _ Hord HgL) as (KL & EL & _).
  destruct (inside_groups_spec LinR G likR sfR fixed priorR true gs [] _ _ Hord HgR) as (KR & ER' & _).
  pose proof (inside_rel_from G likL likR Hlik sfR Hsf fixed priorL priorR Hprior gs [] (i_ins LogER stL) (i_den LogER stL)
                (i_ins LinR stR) (i_den LinR stR) Hord (fun u (H : In u []) => match H with end) EL ER' Hnz) as Hrel.
  (* every node is a non-fixed group parent (related values) or untouched (None in both runs) *)
  assert (Hcase : forall u, (exists g, In g gs /\ fst g = u /\ fixed u = false) \/
                            (i_ins LogER stL u = None /\ i_ins LinR stR u = None /\ i_den LogER stL u = None /\ i_den LinR stR u = None)).
  { intro u. destruct (fixed u) eqn:Hfu.
    - right. destruct (inside_groups_keep_fixed LogER G likL sfL fixed priorL true u Hfu _ _ _ HgL) as (-> & ->).
      destruct (inside_groups_keep_fixed LinR G likR sfR fixed priorR true u Hfu _ _ _ HgR) as (-> & ->). cbn. auto.
    - destruct (in_dec Nat.eq_dec u (map fst gs)) as [Hin|Hnin].
      + apply in_map_iff in Hin. destruct Hin as (g & Eg & Hg). left. eauto.
      + right. destruct (KL u Hnin) as (-> & ->). destruct (KR u Hnin) as (-> & ->). cbn. auto. }
  assert (Hir : forall u, orel (i_ins LogER stL u) (i_ins LinR stR u)).
  { intro u. destruct (Hcase u) as [(g & Hg & <- & Hfx)|(-> & -> & _)]; [|exact I]. apply (Hrel g Hg Hfx). }
  assert (Hdr : forall u, match i_den LogER stL u, i_den LinR stR u with
                          | Some d, Some dl => rel d dl /\ dl <> 0 | None, None => True | _, _ => False end).
  { intro u. destruct (Hcase u) as [(g & Hg & <- & Hfx)|(_ & _ & -> & ->)]; [|exact I].
    destruct (Hrel g Hg Hfx) as (_ & _ & d & dl & Ed & Edl & Hd). rewrite Ed, Edl. split; [exact Hd|]. now apply (Hnz g dl). }
  assert (Hnn : forall u, i_ins LogER stL u = None -> i_den LogER stL u <> None -> False).
  { intros u Hn Hd. destruct (Hcase u) as [(g & Hg & <- & Hfx)|(_ & _ & E & _)]; [|now apply Hd].
    destruct (Hrel g Hg Hfx) as (_ & Hs & _). now apply Hs. }
  intros g Hg Hfx.
  destruct (outside_pass_agree G likL likR Hlik sfR Hsf fixed stL stR std ign num_nodes Hir Hdr Hnn es_out roots nonfixed outL outR
              Hoo (fun rf Hrf => Rlt_le _ _ (proj1 (Hroots rf Hrf))) HoutL HoutR Hsafe Hstd g Hg Hfx)
    as (_ & _ & pl & px & _ & _ & _ & Hpl & Hpx & Hp).
  exists pl, px. auto. Qed.
