(** * Basic facts about the model of discrete.py: generic list lemmas, [groupby],
    the order conditions, and the real-number linear space [LinR]. *)
From Coq Require Import List Arith Bool Lia Reals Lra.
From TsdateV Require Import lib.Num model.Discrete.
Import ListNotations.

(** ** generic lists *)
Lemma updf_same {A} (t : nat -> A) u v : updf t u v u = v.
Proof. unfold updf. now rewrite Nat.eqb_refl. Qed.
Lemma updf_other {A} (t : nat -> A) u v w : w <> u -> updf t u v w = t w.
Proof. unfold updf. intro H. destruct (Nat.eqb_spec w u); congruence. Qed.

Lemma combine_nth_min {A B} (a : list A) (b : list B) da db t :
  t < length a -> t < length b -> nth t (combine a b) (da, db) = (nth t a da, nth t b db).
Proof. revert b t. induction a as [|x a IH]; intros [|y b] [|t] Ha Hb; cbn in *; try lia; try reflexivity.
  apply IH; lia. Qed.

Lemma nth_firstn_lt {A} (l : list A) d : forall n t, t < n -> nth t (firstn n l) d = nth t l d.
Proof. induction l as [|x l IH]; intros [|n] [|t] H; cbn; try lia; try reflexivity. apply IH. lia. Qed.

Lemma nth_map_lt {A B} (f : A -> B) (l : list A) d d' t : t < length l -> nth t (map f l) d' = f (nth t l d).
Proof. intro H. rewrite (nth_indep _ d' (f d)) by (now rewrite map_length). apply map_nth. Qed.

Lemma nth_map_seq {B} (f : nat -> B) a n d t : t < n -> nth t (map f (seq a n)) d = f (a + t).
Proof. intro H. rewrite (nth_map_lt f _ 0) by (now rewrite seq_length). now rewrite seq_nth. Qed.

Lemma existsb_eqb_In (u : nat) l : existsb (Nat.eqb u) l = true <-> In u l.
Proof. rewrite existsb_exists. split.
  - intros (x & Hx & E). apply Nat.eqb_eq in E. now subst.
  - intro H. exists u. split; [exact H | apply Nat.eqb_refl]. Qed.

Section Generic.
  Variable P : Space.
  Notation S := (S P).

  Lemma vcomb_length (a b : list S) : length (vcomb P a b) = Nat.min (length a) (length b).
  Proof. unfold vcomb. now rewrite map_length, combine_length. Qed.

  Lemma vcomb_nth (a b : list S) d t : t < length a -> t < length b ->
    nth t (vcomb P a b) d = s_comb P (nth t a d) (nth t b d).
  Proof. intros Ha Hb. unfold vcomb.
    rewrite (nth_indep _ d (s_comb P (fst (d, d)) (snd (d, d)))) by (rewrite map_length, combine_length; lia).
    rewrite (map_nth (fun xy : S * S => s_comb P (fst xy) (snd xy)) (combine a b) (d, d) t).
    now rewrite combine_nth_min by lia. Qed.

  Lemma vratio_length (a : list S) k : length (vratio P a k) = length a.
  Proof. unfold vratio. now rewrite map_length. Qed.

  Lemma vratio_nth (a : list S) k d t : t < length a ->
    nth t (vratio P a k) d = s_ratio P (nth t a d) k.
  Proof. intro Ha. unfold vratio.
    rewrite (nth_indep _ d (s_ratio P d k)) by (now rewrite map_length).
    now rewrite (map_nth (fun x => s_ratio P x k)). Qed.
End Generic.

(** ** [groupby] *)
Lemma groupby_go_concat key : forall es k acc,
  concat (map snd (groupby_go key k acc es)) = rev acc ++ es.
Proof. induction es as [|e r IH]; intros k acc; cbn.
  - now rewrite app_nil_r.
  - destruct (Nat.eqb (key e) k); cbn.
    + rewrite IH. cbn. now rewrite <- app_assoc.
    + rewrite IH. reflexivity. Qed.

Lemma groupby_concat key es : concat (map snd (groupby key es)) = es.
Proof. destruct es as [|e r]; [reflexivity|]. unfold groupby. now rewrite groupby_go_concat. Qed.

Lemma groupby_go_keys key : forall es k acc,
  (forall e, In e acc -> key e = k) ->
  forall g, In g (groupby_go key k acc es) -> forall e, In e (snd g) -> key e = fst g.
Proof. induction es as [|e r IH]; intros k acc Hacc g Hg x Hx; cbn in Hg.
  - destruct Hg as [<-|[]]. cbn in *. apply Hacc. now apply in_rev.
  - destruct (Nat.eqb_spec (key e) k) as [E|E].
    + eapply IH; [|exact Hg|exact Hx]. intros y [<-|Hy]; [exact E|now apply Hacc].
    + destruct Hg as [<-|Hg].
      * cbn in *. apply Hacc. now apply in_rev.
      * eapply IH; [|exact Hg|exact Hx]. intros y [<-|[]]. reflexivity. Qed.

Lemma groupby_keys key es g e : In g (groupby key es) -> In e (snd g) -> key e = fst g.
Proof. destruct es as [|e0 r]; [intros []|]. unfold groupby. intros Hg He.
  eapply groupby_go_keys; [|exact Hg|exact He]. intros y [<-|[]]. reflexivity. Qed.

Lemma groupby_go_nonempty key : forall es k acc, acc <> [] ->
  forall g, In g (groupby_go key k acc es) -> snd g <> [].
Proof. induction es as [|e r IH]; intros k acc Hacc g Hg; cbn in Hg.
  - destruct Hg as [<-|[]]. cbn. intro E. apply Hacc. apply (f_equal (@rev _)) in E.
    now rewrite rev_involutive in E.
  - destruct (Nat.eqb (key e) k).
    + eapply IH; [|exact Hg]. discriminate.
    + destruct Hg as [<-|Hg].
      * cbn. intro E. apply Hacc. apply (f_equal (@rev _)) in E. now rewrite rev_involutive in E.
      * eapply IH; [|exact Hg]. discriminate. Qed.

Lemma groupby_nonempty key es g : In g (groupby key es) -> snd g <> [].
Proof. destruct es as [|e0 r]; [intros []|]. unfold groupby. apply groupby_go_nonempty. discriminate. Qed.

Lemma groupby_In key es e : In e es -> exists g, In g (groupby key es) /\ In e (snd g) /\ fst g = key e.
Proof. intro H. rewrite <- (groupby_concat key es) in H. apply in_concat in H.
  destruct H as (l & Hl & He). apply in_map_iff in Hl. destruct Hl as (g & <- & Hg).
  exists g. split; [exact Hg|]. split; [exact He|]. symmetry. eapply groupby_keys; eassumption. Qed.

(** ** Order condition for the outside pass / maximization, as a proposition *)
Fixpoint outside_order (allc seen : list nat) (gs : list (nat * list edge)) : Prop :=
  match gs with
  | [] => True
  | (c, es) :: r =>
      ~ In c seen /\
      (forall e, In e es -> e_parent e <> c /\ (In (e_parent e) seen \/ ~ In (e_parent e) allc)) /\
      outside_order allc (c :: seen) r
  end.

Lemma outside_orderb_spec allc : forall gs seen,
  outside_orderb allc seen gs = true -> outside_order allc seen gs.
Proof. induction gs as [|[c es] r IH]; intros seen H; [exact I|]. cbn [outside_orderb outside_order] in *.
  apply andb_prop in H. destruct H as [H H3]. apply andb_prop in H. destruct H as [H1 H2].
  split; [|split].
  - intro Hin. apply existsb_eqb_In in Hin. rewrite Hin in H1. discriminate.
  - intros e He. rewrite forallb_forall in H2. specialize (H2 e He).
    apply andb_prop in H2. destruct H2 as [Ha Hb]. split.
    + intro E. rewrite E, Nat.eqb_refl in Ha. discriminate.
    + apply orb_prop in Hb. destruct Hb as [Hb|Hb].
      * left. now apply existsb_eqb_In.
      * right. intro Hin. apply existsb_eqb_In in Hin. rewrite Hin in Hb. discriminate.
  - now apply IH. Qed.

(** ** The linear space over the reals *)
Definition Rpowf (v f : R) : R := if Req_EM_T v 0 then 0%R else Rpower v f.
Definition LinR : Space := LinSpace RNum Rpowf.

Open Scope R_scope.

(** the carrier of [LinR] is [R] only up to conversion; [field]/[ring] want it syntactically *)
Ltac toR := change (Discrete.S LinR) with R in *;
            repeat change (s_comb LinR ?a ?b) with (a * b) in *;
            repeat change (s_ratio LinR ?a ?b) with (a / b) in *.

Lemma LinR_isnan (x : R) : s_isnan LinR x = false.
Proof. cbn. unfold nisnan. cbn. unfold Reqb. destruct (Req_EM_T x x); [reflexivity|congruence]. Qed.

Lemma LinR_leb (x y : R) : s_leb LinR x y = true <-> x <= y.
Proof. cbn. apply Rleb_true. Qed.
Lemma LinR_leb_false (x y : R) : s_leb LinR x y = false <-> y < x.
Proof. cbn. apply Rleb_false. Qed.

Lemma LinR_max2 (a b : R) : s_max2 LinR a b = Rmax a b.
Proof. cbn. unfold nmax2. cbn. destruct (Rleb b a) eqn:E.
  - apply Rleb_true in E. now rewrite Rmax_left.
  - apply Rleb_false in E. unfold nisnan. cbn. unfold Reqb. destruct (Req_EM_T a a); [|congruence].
    cbn. rewrite Rmax_right; [reflexivity|lra]. Qed.

Lemma fold_max_ge (l : list R) : forall x, x <= fold_left (s_max2 LinR) l x.
Proof. induction l as [|y l IH]; intro x; cbn [fold_left]; [lra|].
  eapply Rle_trans; [|apply IH]. rewrite LinR_max2. apply Rmax_l. Qed.

Lemma fold_max_In (l : list R) : forall x, fold_left (s_max2 LinR) l x = x \/ In (fold_left (s_max2 LinR) l x) l.
Proof. induction l as [|y l IH]; intro x; cbn [fold_left]; [now left|].
  destruct (IH (s_max2 LinR x y)) as [E|E].
  - rewrite E. rewrite LinR_max2. unfold Rmax. destruct (Rle_dec x y); [right; now left|now left].
  - right. now right. Qed.

Lemma fold_max_ub (l : list R) : forall x y, In y l -> y <= fold_left (s_max2 LinR) l x.
Proof. induction l as [|z l IH]; intros x y []; cbn [fold_left].
  - subst. eapply Rle_trans; [|apply fold_max_ge]. rewrite LinR_max2. apply Rmax_r.
  - now apply IH. Qed.

Lemma npmax_In (l : list R) : l <> [] -> In (npmax LinR l) l.
Proof. destruct l as [|x r]; [congruence|]. intros _. cbn [npmax].
  destruct (fold_max_In r x) as [E|E]; [rewrite E; now left|now right]. Qed.

Lemma npmax_ub (l : list R) y : In y l -> y <= npmax LinR l.
Proof. destruct l as [|x r]; [intros []|]. cbn [npmax]. intros [<-|H]; [apply fold_max_ge|now apply fold_max_ub]. Qed.

(** [np.argmax] over the reals is the first maximiser *)
Lemma argmax_go_spec : forall (l : list R) mp idx i,
  let k := argmax_go LinR mp idx i l in
  (k = idx /\ (forall j, (j < length l)%nat -> nth j l 0 <= mp)) \/
  (exists j, (j < length l)%nat /\ k = (i + j)%nat /\ mp < nth j l 0 /\
             (forall j', (j' < length l)%nat -> nth j' l 0 <= nth j l 0) /\
             (forall j', (j' < j)%nat -> nth j' l 0 < nth j l 0)).
Proof. induction l as [|x r IH]; intros mp idx i; cbn [argmax_go].
  - left. split; [reflexivity|]. intros j Hj. cbn in Hj. lia.
  - destruct (s_leb LinR x mp) eqn:E.
    + apply LinR_leb in E. destruct (IH mp idx (i + 1)%nat) as [[Hk Hall]|(j & Hj & Hk & Hlt & Hmax & Hfirst)].
      * left. split; [exact Hk|]. intros [|j] Hj; cbn in *; [exact E|apply Hall; lia].
      * right. exists (Datatypes.S j). cbn [length nth]. split; [lia|]. split; [lia|]. split; [exact Hlt|]. split.
        -- intros [|j'] Hj'; [lra|apply Hmax; lia].
        -- intros [|j'] Hj'; [lra|apply Hfirst; lia].
    + apply LinR_leb_false in E. rewrite LinR_isnan.
      destruct (IH x i (i + 1)%nat) as [[Hk Hall]|(j & Hj & Hk & Hlt & Hmax & Hfirst)].
      * right. exists 0%nat. cbn [length nth]. split; [lia|]. split; [lia|]. split; [exact E|]. split.
        -- intros [|j'] Hj'; [lra|apply Hall; lia].
        -- intros j' Hj'; lia.
      * right. exists (Datatypes.S j). cbn [length nth]. split; [lia|]. split; [lia|]. split; [lra|]. split.
        -- intros [|j'] Hj'; [lra|apply Hmax; lia].
        -- intros [|j'] Hj'; [lra|apply Hfirst; lia]. Qed.

Definition first_max (l : list R) (k : nat) : Prop :=
  (k < length l)%nat /\ (forall j, (j < length l)%nat -> nth j l 0 <= nth k l 0) /\
  (forall j, (j < k)%nat -> nth j l 0 < nth k l 0).

Lemma argmax_first_max (l : list R) : l <> [] -> first_max l (argmax LinR l).
Proof. destruct l as [|x r]; [congruence|]. intros _. unfold argmax. rewrite LinR_isnan.
  destruct (argmax_go_spec r x 0%nat 1%nat) as [[Hk Hall]|(j & Hj & Hk & Hlt & Hmax & Hfirst)].
  - rewrite Hk. split; [cbn; lia|]. split.
    + intros [|j] Hj; cbn in *; [lra|apply Hall; lia].
    + intros j Hj; lia.
  - rewrite Hk. replace (1 + j)%nat with (Datatypes.S j) by lia. split; [cbn; lia|]. split.
    + intros [|j'] Hj'; cbn in *; [lra|apply Hmax; lia].
    + intros [|j'] Hj'; cbn in *; [lra|apply Hfirst; lia]. Qed.

Lemma argmax_lt (l : list R) : l <> [] -> (argmax LinR l < length l)%nat.
Proof. intro H. apply (argmax_first_max l H). Qed.

(** dividing every entry by the same positive constant does not move the argmax *)
Lemma argmax_go_scale (K : R) : 0 < K -> forall l mp idx i,
  argmax_go LinR (mp / K) idx i (map (fun x => x / K) l) = argmax_go LinR mp idx i l.
Proof. intros HK. induction l as [|x r IH]; intros mp idx i; cbn [argmax_go map]; [reflexivity|].
  assert (Hiff : s_leb LinR (x / K) (mp / K) = s_leb LinR x mp).
  { destruct (s_leb LinR x mp) eqn:E.
    - apply LinR_leb in E. apply LinR_leb. unfold Rdiv. apply Rmult_le_compat_r; [|exact E].
      left. now apply Rinv_0_lt_compat.
    - apply LinR_leb_false in E. apply LinR_leb_false. unfold Rdiv. apply Rmult_lt_compat_r; [|exact E].
      now apply Rinv_0_lt_compat. }
  rewrite Hiff. destruct (s_leb LinR x mp); [apply IH|]. rewrite !LinR_isnan. apply IH. Qed.

Lemma argmax_scale (K : R) (l : list R) : 0 < K ->
  argmax LinR (map (fun x => x / K) l) = argmax LinR l.
Proof. intro HK. destruct l as [|x r]; [reflexivity|]. cbn [map argmax]. rewrite !LinR_isnan.
  now apply argmax_go_scale. Qed.
