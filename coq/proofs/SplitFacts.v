(** * util._split_disjoint_nodes / _relabel_mutations_node: every new node id maps back, through
    [nodes_order], to the node it was made from (C29). *)
From Coq Require Import List ZArith Bool Arith Lia.
From TsdateV Require Import lib.Tables model.Sweep model.Split proofs.TablesFacts proofs.SweepInv.
Import ListNotations.
Open Scope Z_scope.

(** ** [mk_map]: the copies of node [i] are the [Z.to_nat (seg i)] consecutive new ids starting
    at [nodes_map[i]] *)
Definition copies (seg : nat -> Z) (i : nat) : list nat := repeat i (Z.to_nat (seg i)).

Lemma mk_map_split seg : forall nodes cur, snd (mk_map nodes cur seg) = flat_map (copies seg) nodes.
Proof. induction nodes as [|i r IH]; intro cur; [reflexivity|]. cbn [mk_map flat_map].
  specialize (IH (cur + Z.of_nat (Z.to_nat (seg i)))).
  destruct (mk_map r (cur + Z.of_nat (Z.to_nat (seg i))) seg) as [m sp]. cbn [snd] in *. rewrite IH. reflexivity. Qed.

Lemma mk_map_nth seg : forall nodes cur t, (t < length nodes)%nat -> 0 < seg (nth t nodes O) ->
  nth t (fst (mk_map nodes cur seg)) (-1) = cur + Z.of_nat (length (flat_map (copies seg) (firstn t nodes))).
Proof. induction nodes as [|i r IH]; intros cur t Ht Hpos; [cbn in Ht; lia|]. cbn [mk_map].
  specialize (IH (cur + Z.of_nat (Z.to_nat (seg i)))).
  destruct (mk_map r (cur + Z.of_nat (Z.to_nat (seg i))) seg) as [m sp]. cbn [fst] in *.
  destruct t as [|t]; cbn [nth firstn flat_map length] in *.
  - apply Z.ltb_lt in Hpos. rewrite Hpos. lia.
  - rewrite IH by (try lia; exact Hpos). rewrite app_length. unfold copies at 2. rewrite repeat_length. lia. Qed.

Lemma nth_flat_copies seg : forall nodes t k, (t < length nodes)%nat -> (k < Z.to_nat (seg (nth t nodes O)))%nat ->
  nth (length (flat_map (copies seg) (firstn t nodes)) + k) (flat_map (copies seg) nodes) O = nth t nodes O.
Proof. induction nodes as [|i r IH]; intros t k Ht Hk; [cbn in Ht; lia|].
  destruct t as [|t]; cbn [nth firstn flat_map length] in *.
  - rewrite app_nth1 by (unfold copies; rewrite repeat_length; exact Hk).
    unfold copies. rewrite (nth_indep _ O i) by (rewrite repeat_length; exact Hk). apply nth_repeat.
  - rewrite app_length, <- Nat.add_assoc, app_nth2_plus. apply IH; [lia|exact Hk]. Qed.

Section SplitFacts.
  Variable es : list edge.
  Variable excluded : nat -> bool.
  Variable N : nat.
  Hypothesis Hnodes : forall e, (e < length es)%nat ->
    (eparent (edge_at es e) < N)%nat /\ (echild (edge_at es e) < N)%nat.

  Let par := fun e => eparent (edge_at es e).
  Let chi := fun e => echild (edge_at es e).

  (** labels never exceed the running segment counter of their node *)
  Definition SInv (s : seg_state) : Prop :=
    (forall n, -1 <= sg_seg s n) /\
    (forall e, sg_par s e <= sg_seg s (par e)) /\ (forall e, sg_chi s e <= sg_seg s (chi e)).

  Lemma visit_spec l r n s : -1 <= sg_seg s n ->
    let '(k, s') := visit excluded l r n s in
    (forall u, sg_seg s u <= sg_seg s' u) /\ k <= sg_seg s' n /\ sg_par s' = sg_par s /\ sg_chi s' = sg_chi s /\
    (excluded n = false -> sg_seg s n <= k <= sg_seg s n + 1).
  Proof. intro Hm1. unfold visit. destruct (excluded n) eqn:Ex.
    - repeat split; try lia; try reflexivity; discriminate.
    - cbn [sg_seg sg_par sg_chi].
      assert (Hinc : 0 <= match sg_right s n with None => 1 | Some x => if x <? l then 1 else 0 end <= 1).
      { destruct (sg_right s n) as [x|]; [destruct (x <? l)|]; lia. }
      repeat split; try reflexivity; try lia.
      + intro u. unfold upd. destruct (Nat.eqb u n) eqn:E; [apply Nat.eqb_eq in E; subst; lia|lia].
      + rewrite upd_same. lia. Qed.

  Lemma seg_edge_inv s e : SInv s -> SInv (seg_edge es excluded s e).
  Proof. intros [H0 [Hp Hc]]. unfold seg_edge.
    assert (V1 := visit_spec (eleft (edge_at es e)) (eright (edge_at es e)) (eparent (edge_at es e)) s (H0 _)).
    destruct (visit excluded (eleft (edge_at es e)) (eright (edge_at es e)) (eparent (edge_at es e)) s) as [kp s1].
    destruct V1 as [M1 [K1 [P1 [C1 _]]]].
    set (s1' := mkSeg (sg_seg s1) (sg_right s1) (upd (sg_par s1) e kp) (sg_chi s1)).
    assert (H01 : -1 <= sg_seg s1' (echild (edge_at es e))).
    { unfold s1'. cbn [sg_seg]. specialize (H0 (echild (edge_at es e))). specialize (M1 (echild (edge_at es e))). lia. }
    assert (V2 := visit_spec (eleft (edge_at es e)) (eright (edge_at es e)) (echild (edge_at es e)) s1' H01).
    destruct (visit excluded (eleft (edge_at es e)) (eright (edge_at es e)) (echild (edge_at es e)) s1') as [kc s2].
    destruct V2 as [M2 [K2 [P2 [C2 _]]]]. cbn [sg_seg sg_par sg_chi] in *.
    split; [|split].
    - intro n. cbn [sg_seg]. specialize (H0 n). specialize (M1 n). specialize (M2 n). unfold s1' in M2. cbn [sg_seg] in M2. lia.
    - intro e'. cbn [sg_seg sg_par]. rewrite P2. unfold s1'. cbn [sg_par]. unfold upd. destruct (Nat.eqb e' e) eqn:E.
      + apply Nat.eqb_eq in E. subst e'. specialize (M2 (par e)). unfold s1' in M2. cbn [sg_seg] in M2. unfold par in *. lia.
      + rewrite P1. specialize (Hp e'). specialize (M1 (par e')). specialize (M2 (par e')). unfold s1' in M2. cbn [sg_seg] in M2. lia.
    - intro e'. cbn [sg_seg sg_chi]. unfold upd. destruct (Nat.eqb e' e) eqn:E.
      + apply Nat.eqb_eq in E. subst e'. unfold chi. exact K2.
      + rewrite C2. unfold s1'. cbn [sg_chi]. rewrite C1. specialize (Hc e'). specialize (M1 (chi e')). specialize (M2 (chi e')).
        unfold s1' in M2. cbn [sg_seg] in M2. lia. Qed.

  Lemma seg_pass_inv : SInv (seg_pass es excluded).
  Proof. unfold seg_pass. assert (H0 : SInv seg_init) by (unfold SInv, seg_init; cbn; repeat split; intros; lia).
    revert H0. generalize seg_init. induction (edges_order es) as [|e l IH]; intros s Hs; [exact Hs|].
    cbn [fold_left]. apply IH. apply seg_edge_inv. exact Hs. Qed.

  (** the relabelled id of a (node, label) pair maps back to the node *)
  Lemma relabel_back seg nmap split n k :
    mk_map (seq 0 N) (Z.of_nat N) seg = (nmap, split) -> (n < N)%nat -> k <= seg n ->
    exists c, relabel nmap k n = Z.of_nat c /\ nth c (seq 0 N ++ split) O = n /\
              (k <= 0 -> c = n) /\ (0 < k -> (N <= c)%nat).
  Proof. intros Hmk Hn Hk. unfold relabel. destruct (Z.ltb_spec 0 k) as [Hpos|Hle].
    - assert (Hsp := mk_map_split seg (seq 0 N) (Z.of_nat N)). rewrite Hmk in Hsp. cbn [snd] in Hsp.
      assert (Hnth := mk_map_nth seg (seq 0 N) (Z.of_nat N) n). rewrite Hmk in Hnth. cbn [fst] in Hnth.
      rewrite seq_length, seq_nth in Hnth by exact Hn. cbn [plus] in Hnth.
      rewrite Hnth by (try exact Hn; lia).
      set (off := length (flat_map (copies seg) (firstn n (seq 0 N)))).
      exists (N + (off + Z.to_nat (k - 1)))%nat. split; [lia|]. split; [|split; [lia|lia]].
      replace (N + (off + Z.to_nat (k - 1)))%nat with (length (seq 0 N) + (off + Z.to_nat (k - 1)))%nat
        by (rewrite seq_length; reflexivity).
      rewrite app_nth2_plus. rewrite Hsp.
      assert (H := nth_flat_copies seg (seq 0 N) n (Z.to_nat (k - 1))). rewrite seq_length, seq_nth in H by exact Hn.
      cbn [plus] in H. apply H; [exact Hn|lia].
    - exists n. split; [reflexivity|]. split; [|split; [reflexivity|lia]].
      rewrite app_nth1 by (rewrite seq_length; exact Hn). apply seq_nth. exact Hn. Qed.
End SplitFacts.
