(** Specification of [_fixed_changepoints] over the reals. *)
From Coq Require Import List Arith ZArith Reals Lra Lia Bool.
From TsdateV Require Import lib.Num model.Changepoint.
Import ListNotations.
Open Scope R_scope.

(** ** spec vocabulary: partial sums and cumulative mass fractions *)
Definition Rsum (l : list R) : R := fold_right Rplus 0 l.
Definition psum (l : list R) (i : nat) : R := Rsum (firstn i l).
Definition frac (l : list R) (i : nat) : R := psum l i / Rsum l.

Lemma psum_0 l : psum l 0 = 0.
Proof. reflexivity. Qed.

Lemma psum_cons x r i : psum (x :: r) (S i) = x + psum r i.
Proof. reflexivity. Qed.

Lemma psum_all l : psum l (length l) = Rsum l.
Proof. unfold psum. now rewrite firstn_all. Qed.

Lemma psum_mono l : Forall (fun c => 0 <= c) l ->
  forall i j, (i <= j)%nat -> psum l i <= psum l j.
Proof.
  induction 1 as [|x r Hx Hr IH]; intros i j Hij.
  - unfold psum. rewrite !firstn_nil. lra.
  - destruct i as [|i].
    + rewrite psum_0. clear Hij. revert j.
      assert (forall l, Forall (fun c => 0 <= c) l -> forall j, 0 <= psum l j) as Hnn.
      { induction 1 as [|y s Hy Hs IHs]; intros [|j]; unfold psum; simpl; try lra.
        specialize (IHs j). unfold psum in IHs. lra. }
      intros j. apply Hnn. now constructor.
    + destruct j as [|j]; [lia|]. rewrite !psum_cons.
      specialize (IH i j ltac:(lia)). lra.
Qed.

(** ** cumsum over R *)
Lemma cumsum_from_nth (a : R) (l : list R) : forall i, (i < length l)%nat ->
  nth i (cumsum_from RNum a l) 0 = a + psum l (S i).
Proof.
  revert a. induction l as [|x r IH]; intros a i Hi; simpl in Hi; [lia|].
  destruct i as [|i]; simpl cumsum_from; simpl nth.
  - unfold psum; simpl. destruct r; simpl; lra.
  - rewrite IH by lia. rewrite (psum_cons x r (S i)). lra.
Qed.

Lemma cumsum_from_length (a : R) (l : list R) : length (cumsum_from RNum a l) = length l.
Proof. revert a. induction l; intros; simpl; auto. Qed.

Lemma cum0_length (l : list R) : length (cum0 RNum l) = S (length l).
Proof. unfold cum0, cumsum. destruct l; simpl; auto. now rewrite cumsum_from_length. Qed.

Lemma cum0_nth (l : list R) i : (i <= length l)%nat -> nth i (cum0 RNum l) 0 = psum l i.
Proof.
  intros Hi. unfold cum0. destruct i as [|i]; [reflexivity|].
  simpl nth. destruct l as [|x r]; simpl in Hi; [lia|].
  unfold cumsum. destruct i as [|i]; simpl nth.
  - unfold psum. simpl. destruct r; simpl; lra.
  - rewrite cumsum_from_nth by lia. rewrite (psum_cons x r (S i)). reflexivity.
Qed.

Lemma cum0_eq (l : list R) : cum0 RNum l = map (psum l) (seq 0 (S (length l))).
Proof.
  apply (nth_ext _ _ 0 (psum l 0)).
  - now rewrite cum0_length, map_length, seq_length.
  - intros i Hi. rewrite cum0_length in Hi.
    rewrite cum0_nth by lia.
    rewrite (map_nth (psum l) (seq 0 (S (length l))) 0%nat i).
    now rewrite seq_nth by lia.
Qed.

Lemma nth_map_seq {A} (g : nat -> A) n k d : (k <= n)%nat ->
  nth k (map g (seq 0 (S n))) d = g k.
Proof.
  intros Hk. rewrite (nth_indep _ d (g 0%nat)) by (rewrite map_length, seq_length; lia).
  rewrite (map_nth g (seq 0 (S n)) 0%nat k). now rewrite seq_nth by lia.
Qed.

Lemma last_map_seq {A} (g : nat -> A) n d : last (map g (seq 0 (S n))) d = g n.
Proof. rewrite seq_S, map_app. simpl. now rewrite last_last. Qed.

Lemma mass_fractions_eq (l : list R) :
  mass_fractions RNum l = map (frac l) (seq 0 (S (length l))).
Proof.
  unfold mass_fractions. rewrite cum0_eq.
  rewrite (last_map_seq (psum l) (length l)). rewrite psum_all.
  rewrite map_map. reflexivity.
Qed.

(** ** searchsorted *)
Lemma ss_right_le_length (a : list R) (v : R) : (ss_right RNum a v <= length a)%nat.
Proof. induction a; simpl; [lia|]. destruct (Rltb v a); simpl; lia. Qed.

Lemma ss_right_prefix (a : list R) (v : R) : forall i, (i < ss_right RNum a v)%nat -> nth i a 0 <= v.
Proof.
  induction a as [|x r IH]; simpl; intros i Hi; [lia|].
  destruct (Rltb v x) eqn:E; [lia|]. apply Rltb_false in E.
  destruct i; simpl; [exact E|]. apply IH. lia.
Qed.

Lemma ss_right_next (a : list R) (v : R) : (ss_right RNum a v < length a)%nat ->
  v < nth (ss_right RNum a v) a 0.
Proof.
  induction a as [|x r IH]; simpl; intros Hc; [lia|].
  destruct (Rltb v x) eqn:E.
  - apply Rltb_true in E. exact E.
  - simpl. apply IH. simpl in Hc. lia.
Qed.

Lemma ss_right_mono (a : list R) (v v' : R) : v <= v' -> (ss_right RNum a v <= ss_right RNum a v')%nat.
Proof.
  intros Hv. induction a as [|x r IH]; simpl; [lia|].
  destruct (Rltb v' x) eqn:E'.
  - apply Rltb_true in E'. assert (Rltb v x = true) as -> by (apply Rltb_true; lra). lia.
  - destruct (Rltb v x); lia.
Qed.

(** ** list surgery *)
Lemma upd_first_length {A} (g : A -> A) l : length (upd_first g l) = length l.
Proof. destruct l; reflexivity. Qed.

Lemma upd_last_length {A} (g : A -> A) l : length (upd_last g l) = length l.
Proof. induction l as [|x r IH]; simpl; auto. destruct r; simpl in *; auto. Qed.

Lemma upd_last_nth {A} (g : A -> A) l d k : (S k < length l)%nat ->
  nth k (upd_last g l) d = nth k l d.
Proof.
  revert k. induction l as [|x r IH]; intros k Hk; simpl in Hk; [lia|].
  destruct r as [|y s]; simpl in Hk; [lia|].
  change (upd_last g (x :: y :: s)) with (x :: upd_last g (y :: s)).
  destruct k; simpl nth; [reflexivity|]. apply IH. simpl. lia.
Qed.

Lemma upd_last_last {A} (g : A -> A) l d k : length l = S k ->
  nth k (upd_last g l) d = g (nth k l d).
Proof.
  revert k. induction l as [|x r IH]; intros k Hk; simpl in Hk; [lia|].
  destruct r as [|y s].
  - simpl in Hk. assert (k = 0)%nat as -> by lia. reflexivity.
  - change (upd_last g (x :: y :: s)) with (x :: upd_last g (y :: s)).
    destruct k; simpl in Hk; [lia|]. simpl nth. apply IH. simpl. lia.
Qed.

Lemma upd_first_nth {A} (g : A -> A) l d k : (0 < k)%nat ->
  nth k (upd_first g l) d = nth k l d.
Proof. destruct l; simpl; auto. destruct k; [lia|reflexivity]. Qed.

Lemma upd_first_0 {A} (g : A -> A) l d : l <> [] ->
  nth 0 (upd_first g l) d = g (nth 0 l d).
Proof. destruct l; simpl; congruence. Qed.

(** ** the grid [z] *)
Lemma linspace_length e : length (linspace01 RNum e) = S e.
Proof. unfold linspace01. now rewrite map_length, seq_length. Qed.

Lemma linspace_nth e k : (0 < e)%nat -> (k <= e)%nat ->
  nth k (linspace01 RNum e) 0 = INR k / INR e.
Proof.
  intros He Hk. unfold linspace01. cbv zeta.
  rewrite nth_map_seq by lia.
  assert (INR e <> 0) by (apply not_0_INR; lia).
  destruct (Nat.eqb k e) eqn:E.
  - apply Nat.eqb_eq in E. subst. simpl. field. assumption.
  - simpl. rewrite <- !INR_IZR_INZ. field. assumption.
Qed.

Section Spec.
  Variable counts : list R.
  Variable epochs : nat.
  Hypothesis Hep : (0 < epochs)%nat.
  Hypothesis Hnn : Forall (fun c => 0 <= c) counts.
  Hypothesis Hpos : 0 < Rsum counts.

  Let n := length counts.
  Let Zs := map (frac counts) (seq 0 (S n)).

  Lemma Zs_length : length Zs = S n.
  Proof. unfold Zs. now rewrite map_length, seq_length. Qed.

  Lemma Zs_nth i : (i <= n)%nat -> nth i Zs 0 = frac counts i.
  Proof.
    intros Hi. unfold Zs. now rewrite nth_map_seq by lia.
  Qed.

  Lemma frac_mono i j : (i <= j)%nat -> frac counts i <= frac counts j.
  Proof.
    intros Hij. unfold frac. pose proof (psum_mono counts Hnn i j Hij).
    apply Rmult_le_compat_r; [|assumption].
    left. now apply Rinv_0_lt_compat.
  Qed.

  Lemma frac_0 : frac counts 0 = 0.
  Proof. unfold frac. rewrite psum_0. unfold Rdiv. ring. Qed.

  Lemma frac_n : frac counts n = 1.
  Proof. unfold frac, n. rewrite psum_all. field. lra. Qed.

  (** count of cumulative fractions [<= v], for [0 <= v] *)
  Lemma count_ge1 v : 0 <= v -> (1 <= ss_right RNum Zs v)%nat.
  Proof.
    intros Hv. unfold Zs. rewrite <- cons_seq. simpl. rewrite frac_0.
    assert (Rltb v 0 = false) as -> by (apply Rltb_false; exact Hv). lia.
  Qed.

  Lemma count_lt v : v < 1 -> (ss_right RNum Zs v <= n)%nat.
  Proof.
    intros Hv. pose proof (ss_right_le_length Zs v) as Hl. rewrite Zs_length in Hl.
    destruct (Nat.eq_dec (ss_right RNum Zs v) (S n)) as [E|E]; [|lia].
    exfalso. pose proof (ss_right_prefix Zs v n ltac:(lia)) as Hp.
    rewrite Zs_nth in Hp by lia. rewrite frac_n in Hp. lra.
  Qed.

  Lemma count_spec v : 0 <= v -> v < 1 ->
    let i := (ss_right RNum Zs v - 1)%nat in
    (i < n)%nat /\ frac counts i <= v /\
    forall i', (i < i' <= n)%nat -> v < frac counts i'.
  Proof.
    intros Hv0 Hv1 i. pose proof (count_ge1 v Hv0) as H1. pose proof (count_lt v Hv1) as H2.
    subst i. split; [lia|]. split.
    - rewrite <- Zs_nth by lia. apply ss_right_prefix. lia.
    - intros i' Hi'.
      pose proof (ss_right_next Zs v ltac:(rewrite Zs_length; lia)) as Hn.
      rewrite Zs_nth in Hn by lia.
      eapply Rlt_le_trans; [exact Hn|]. apply frac_mono. lia.
  Qed.

  Theorem fixed_spec :
    exists e, fixed_changepoints RNum counts epochs = Some e /\
      length e = S epochs /\
      nth 0 e 0%Z = 0%Z /\
      nth epochs e 0%Z = Z.of_nat n /\
      (forall k, (k < epochs)%nat -> (nth k e 0 <= nth (S k) e 0)%Z) /\
      (forall k, (0 < k < epochs)%nat ->
         exists i, nth k e 0%Z = Z.of_nat i /\ (i < n)%nat /\
           frac counts i <= INR k / INR epochs /\
           forall i', (i < i' <= n)%nat -> INR k / INR epochs < frac counts i').
  Proof.
    unfold fixed_changepoints.
    assert (Nat.eqb epochs 0 = false) as -> by (apply Nat.eqb_neq; lia).
    rewrite mass_fractions_eq. fold n. fold Zs.
    set (h := fun v : R => (Z.of_nat (ss_right RNum Zs v) - 1)%Z).
    set (e0 := map h (linspace01 RNum epochs)).
    set (g1 := fun x : Z => if (0 <? x)%Z then 0%Z else x).
    set (g2 := fun x : Z => if (x <? Z.of_nat n)%Z then Z.of_nat n else x).
    assert (Hl0 : length e0 = S epochs) by (unfold e0; now rewrite map_length, linspace_length).
    assert (He0 : forall k, (k <= epochs)%nat -> nth k e0 0%Z = h (INR k / INR epochs)).
    { intros k Hk. unfold e0.
      rewrite (nth_indep _ 0%Z (h 0)) by (rewrite map_length, linspace_length; lia).
      rewrite (map_nth h (linspace01 RNum epochs) 0 k). now rewrite linspace_nth by lia. }
    assert (Hpe : 0 < INR epochs) by (apply lt_0_INR; lia).
    assert (Hq : forall k, 0 <= INR k / INR epochs).
    { intros k. apply Rmult_le_pos; [apply pos_INR|]. left. now apply Rinv_0_lt_compat. }
    assert (Hq1 : forall k, (k < epochs)%nat -> INR k / INR epochs < 1).
    { intros k Hk. apply lt_INR in Hk.
      apply (Rmult_lt_reg_r (INR epochs)); [assumption|]. unfold Rdiv.
      rewrite Rmult_assoc, Rinv_l by lra. lra. }
    (* value at each position after the two fix-ups *)
    set (e := upd_last g2 (upd_first g1 e0)).
    assert (Hl : length e = S epochs).
    { unfold e. now rewrite upd_last_length, upd_first_length. }
    assert (Hfirst : nth 0 e 0%Z = 0%Z).
    { unfold e. rewrite upd_last_nth by (rewrite upd_first_length; lia).
      rewrite upd_first_0 by (intro E; rewrite E in Hl0; discriminate).
      rewrite He0 by lia. unfold g1, h.
      pose proof (count_ge1 (INR 0 / INR epochs) (Hq 0%nat)).
      destruct (0 <? _)%Z eqn:E; [reflexivity|]. apply Z.ltb_ge in E. lia. }
    assert (Hlast : nth epochs e 0%Z = Z.of_nat n).
    { unfold e. rewrite upd_last_last by (rewrite upd_first_length; lia).
      rewrite upd_first_nth by lia. rewrite He0 by lia. unfold g2, h.
      pose proof (ss_right_le_length Zs (INR epochs / INR epochs)) as Hc.
      rewrite Zs_length in Hc.
      destruct (_ <? _)%Z eqn:E; [reflexivity|]. apply Z.ltb_ge in E. lia. }
    assert (Hmid : forall k, (0 < k < epochs)%nat -> nth k e 0%Z = h (INR k / INR epochs)).
    { intros k Hk. unfold e. rewrite upd_last_nth by (rewrite upd_first_length; lia).
      rewrite upd_first_nth by lia. apply He0. lia. }
    assert (Hmidr : forall k, (0 < k < epochs)%nat ->
              (0 <= nth k e 0 <= Z.of_nat n - 1)%Z).
    { intros k Hk. rewrite Hmid by assumption. unfold h.
      pose proof (count_ge1 _ (Hq k)). pose proof (count_lt _ (Hq1 k ltac:(lia))). lia. }
    exists e. split; [reflexivity|]. split; [exact Hl|]. split; [exact Hfirst|].
    split; [exact Hlast|]. split.
    - intros k Hk.
      destruct (Nat.eq_dec k 0) as [->|Hk0].
      + rewrite Hfirst. destruct (Nat.eq_dec epochs 1) as [E1|E1].
        * rewrite <- E1 at 1. rewrite Hlast. lia.
        * pose proof (Hmidr 1%nat ltac:(lia)). lia.
      + destruct (Nat.eq_dec (S k) epochs) as [E|E].
        * rewrite E, Hlast. pose proof (Hmidr k ltac:(lia)). lia.
        * rewrite !Hmid by lia. unfold h.
          assert (INR k / INR epochs <= INR (S k) / INR epochs) as Hle.
          { apply Rmult_le_compat_r; [left; now apply Rinv_0_lt_compat|].
            apply le_INR. lia. }
          pose proof (ss_right_mono Zs _ _ Hle). lia.
    - intros k Hk. rewrite Hmid by assumption. unfold h.
      destruct (count_spec (INR k / INR epochs) (Hq k) (Hq1 k ltac:(lia))) as (Hi & Hle & Hgt).
      pose proof (count_ge1 _ (Hq k)) as Hc1.
      exists (Nat.sub (ss_right RNum Zs (INR k / INR epochs)) 1).
      split; [lia|]. split; [exact Hi|]. split; [exact Hle|exact Hgt].
  Qed.
End Spec.
