(** * Facts about the provenance model (model/Glue.v, Section Prov). *)
From Coq Require Import String List Bool Arith ZArith Lia.
From TsdateV Require Import model.Glue.
Import ListNotations.
Open Scope string_scope.

Section ProvFacts.
  Variable pv : Type.
  Variable pv_string : string -> pv.
  Variable record : Type.
  Variable dump : list (string * pv) -> option record.

  Notation record_prov := (record_provenance pv pv_string record dump).
  Notation date_prov := (date_provenance pv pv_string record dump).
  Notation prep_prov := (preprocess_provenance pv pv_string record dump).
  Notation split_prov := (split_provenance pv pv_string record dump).

  (** the parameter dict that is dumped for a dating call *)
  Definition date_params (m : method) (g : generic pv) (args : list pv) : pdict pv :=
    pset pv "command" (pv_string (method_name m))
      (pupdate pv (init_params pv g) (combine (run_keys m) args)).
  Definition prep_final (p : prep pv) : pdict pv :=
    pset pv "command" (pv_string "preprocess_ts") (prep_params pv p).

  Lemma record_prov_spec prov c kw prov' :
    record_prov prov c kw = Some prov' ->
    exists r, dump (pset pv "command" (pv_string c) kw) = Some r /\ prov' = (prov ++ [r])%list.
  Proof.
    unfold record_provenance. destruct (dump _) as [r|]; [|discriminate].
    intros H; inversion H. eauto.
  Qed.

  (** exactly one record when recording, none otherwise; earlier records kept in place *)
  Theorem date_exactly_one rp m g args prov prov' :
    date_prov rp m g args prov = Some prov' ->
    (recording rp = true ->
       exists r, dump (date_params m g args) = Some r /\ prov' = (prov ++ [r])%list) /\
    (recording rp = false -> prov' = prov).
  Proof.
    unfold date_provenance. destruct (recording rp); intros H; split; intros E; try discriminate.
    - exact (record_prov_spec _ _ _ _ H).
    - inversion H; reflexivity.
  Qed.

  Corollary date_count rp m g args prov prov' :
    date_prov rp m g args prov = Some prov' ->
    length prov' = length prov + (if recording rp then 1 else 0) /\
    firstn (length prov) prov' = prov.
  Proof.
    intros H. destruct (date_exactly_one _ _ _ _ _ _ H) as [A B].
    destruct (recording rp).
    - destruct (A eq_refl) as (r & _ & ->). rewrite app_length. simpl. split; [lia|].
      rewrite firstn_app, Nat.sub_diag, firstn_all. simpl. now rewrite app_nil_r.
    - rewrite (B eq_refl). split; [lia | apply firstn_all].
  Qed.

  (** a value that cannot be dumped makes the whole call raise (no tree sequence) *)
  Theorem date_unserialisable m g args prov rp :
    recording rp = true -> dump (date_params m g args) = None ->
    date_prov rp m g args prov = None.
  Proof.
    intros R D. unfold date_provenance, record_provenance. rewrite R.
    fold (date_params m g args). now rewrite D.
  Qed.

  (** the dumped dict holds the command and every parameter with the value passed *)
  Theorem date_parameters m (g : generic pv) args :
    length args = length (run_keys m) ->
    let d := date_params m g args in
    pget pv "command" d = Some (pv_string (method_name m)) /\
    pget pv "mutation_rate" d = Some (g_mutation_rate pv g) /\
    pget pv "recombination_rate" d = Some (g_recombination_rate pv g) /\
    pget pv "time_units" d = Some (g_time_units pv g) /\
    pget pv "progress" d = Some (g_progress pv g) /\
    pget pv "population_size" d = Some (g_population_size pv g) /\
    Forall2 (fun k v => pget pv k d = Some v) (run_keys m) args.
  Proof.
    intros L d. subst d. unfold date_params.
    destruct m; simpl in L.
    - do 7 (destruct args as [|? args]; [discriminate L|]). destruct args; [|discriminate L].
      vm_compute. repeat split; repeat constructor.
    - do 6 (destruct args as [|? args]; [discriminate L|]). destruct args; [|discriminate L].
      vm_compute. repeat split; repeat constructor.
    - do 4 (destruct args as [|? args]; [discriminate L|]). destruct args; [|discriminate L].
      vm_compute. repeat split; repeat constructor.
  Qed.

  Theorem prep_exactly_one rp p prov prov' :
    prep_prov rp p prov = Some prov' ->
    (recording rp = true -> exists r, dump (prep_final p) = Some r /\ prov' = (prov ++ [r])%list) /\
    (recording rp = false -> prov' = prov).
  Proof.
    unfold preprocess_provenance. destruct (recording rp); intros H; split; intros E; try discriminate.
    - exact (record_prov_spec _ _ _ _ H).
    - inversion H; reflexivity.
  Qed.

  Theorem prep_parameters (p : prep pv) :
    let d := prep_final p in
    pget pv "command" d = Some (pv_string "preprocess_ts") /\
    pget pv "minimum_gap" d = Some (p_minimum_gap pv p) /\
    pget pv "erase_flanks" d = Some (p_erase_flanks pv p) /\
    pget pv "split_disjoint" d = Some (p_split_disjoint pv p) /\
    pget pv "filter_populations" d = Some (p_filter_populations pv p) /\
    pget pv "filter_individuals" d = Some (p_filter_individuals pv p) /\
    pget pv "filter_sites" d = Some (p_filter_sites pv p) /\
    pget pv "delete_intervals" d = Some (p_delete_intervals pv p).
  Proof. repeat split. Qed.

  Theorem split_exactly_one rp prov prov' :
    split_prov rp prov = Some prov' ->
    (recording rp = true -> exists r, dump [("command", pv_string "split_disjoint_nodes")] = Some r /\
                                      prov' = (prov ++ [r])%list) /\
    (recording rp = false -> prov' = prov).
  Proof.
    unfold split_provenance. destruct (recording rp); intros H; split; intros E; try discriminate.
    - exact (record_prov_spec _ _ _ _ H).
    - inversion H; reflexivity.
  Qed.
End ProvFacts.

(** ** Concrete runs (harness instance: values are interned JSON texts, 0 = a value json.dumps
    rejects even with provenance._json_default, e.g. an arbitrary object) *)
Definition ex_generic : @generic Z := mkGeneric 11%Z 12%Z 13%Z 14%Z 15%Z.

Lemma prov_example :
  run_date_prov None 1%Z ex_generic [21; 22; 23; 24; 25; 26]%Z [[("command", 99%Z)]]
  = Some [[("command", 99%Z)];
          [("mutation_rate", 11%Z); ("recombination_rate", 12%Z); ("time_units", 13%Z); ("progress", 14%Z);
           ("population_size", 15%Z); ("eps", 21%Z); ("outside_standardize", 22%Z); ("ignore_oldest_root", 23%Z);
           ("probability_space", 24%Z); ("num_threads", 25%Z); ("cache_inside", 26%Z); ("command", (-2)%Z)]]
  /\ run_date_prov (Some false) 1%Z ex_generic [21; 22; 23; 24; 25; 26]%Z [[("command", 99%Z)]]
     = Some [[("command", 99%Z)]].
Proof. split; reflexivity. Qed.

(** recording on, one value that cannot be dumped at all: the call raises (before the repair of
    K4 numpy arrays / numpy scalars were such values; now they are converted) *)
Lemma prov_unserialisable_example :
  run_date_prov (Some true) 1%Z (mkGeneric 11%Z 12%Z 13%Z 14%Z 0%Z) [21; 22; 23; 24; 25; 26]%Z [] = None.
Proof. reflexivity. Qed.
