(** * The level weights W form a probability distribution and give the stored mean, for all n (C14). *)
From Coq Require Import List ZArith Bool Reals Lra Lia Arith Psatz.
From TsdateV Require Import lib.Num model.Prior proofs.PriorMarg.
Import ListNotations.
Open Scope Z_scope.
Notation Zn := Z.of_nat.

(** sum_{i = a}^{a + cnt - 1} f i in Z *)
Fixpoint zs (f : nat -> Z) (a cnt : nat) : Z :=
  match cnt with O => 0 | S c => f a + zs f (S a) c end.

Lemma zs_ext f g : forall cnt a, (forall i, (a <= i < a + cnt)%nat -> f i = g i) -> zs f a cnt = zs g a cnt.
Proof. induction cnt; intros a H; simpl; auto. rewrite H by lia. f_equal. apply IHcnt. intros; apply H; lia. Qed.

Lemma zs_snoc f : forall cnt a, zs f a (S cnt) = zs f a cnt + f (a + cnt)%nat.
Proof.
  induction cnt; intros a.
  - simpl. rewrite Nat.add_0_r. ring.
  - change (zs f a (S (S cnt))) with (f a + zs f (S a) (S cnt)). rewrite IHcnt. simpl zs.
    replace (S a + cnt)%nat with (a + S cnt)%nat by lia. ring.
Qed.

Lemma zs_app f : forall c1 c2 a, zs f a (c1 + c2) = zs f a c1 + zs f (a + c1) c2.
Proof.
  induction c1; intros c2 a; simpl.
  - rewrite Nat.add_0_r. ring.
  - rewrite IHc1. replace (S a + c1)%nat with (a + S c1)%nat by lia. ring.
Qed.

Lemma zs_zero f : forall cnt a, (forall i, (a <= i < a + cnt)%nat -> f i = 0) -> zs f a cnt = 0.
Proof. induction cnt; intros a H; simpl; auto. rewrite H by lia. rewrite IHcnt; auto. intros; apply H; lia. Qed.

Lemma zs_plus f g : forall cnt a, zs (fun i => f i + g i) a cnt = zs f a cnt + zs g a cnt.
Proof. induction cnt; intros a; simpl; auto. rewrite IHcnt. ring. Qed.

(** hockey stick and the upper-index Vandermonde convolution *)
Lemma hockey : forall N r, zs (fun m => zbinom m r) 0 (S N) = zbinom (S N) (S r).
Proof.
  induction N; intros r.
  - destruct r; reflexivity.
  - rewrite zs_snoc, IHN. simpl Nat.add. rewrite (zbinom_S (S N) r). ring.
Qed.

Lemma vandermonde : forall N r s,
  zs (fun m => zbinom m r * zbinom (N - m) s) 0 (S N) = zbinom (S N) (r + s + 1).
Proof.
  induction N; intros r s.
  - destruct r, s; cbn [zs Nat.sub]; rewrite ?zbinom_0; rewrite ?(zbinom_gt 0 (S _)) by lia;
      rewrite ?(zbinom_gt 1) by lia; try reflexivity; ring.
  - rewrite zs_snoc. simpl Nat.add. replace (S N - S N)%nat with 0%nat by lia.
    destruct s as [|s'].
    + rewrite zbinom_0, Z.mul_1_r.
      rewrite (zs_ext _ (fun m => zbinom m r)) by (intros; rewrite zbinom_0; ring).
      rewrite hockey. replace (r + 0 + 1)%nat with (S r) by lia.
      rewrite (zbinom_S (S N) r). ring.
    + rewrite (zbinom_gt 0 (S s')) by lia. rewrite Z.mul_0_r, Z.add_0_r.
      rewrite (zs_ext _ (fun m => zbinom m r * zbinom (N - m) s' + zbinom m r * zbinom (N - m) (S s'))).
      * rewrite zs_plus, !IHN. replace (r + S s' + 1)%nat with (S (r + s' + 1)) by lia.
        rewrite (zbinom_S (S N) (r + s' + 1)). replace (r + S s' + 1)%nat with (S (r + s' + 1)) by lia. ring.
      * intros i Hi. replace (S N - i)%nat with (S (N - i)) by lia. rewrite zbinom_S. ring.
Qed.

Lemma absorb n k : Zn (S k) * zbinom (S n) (S k) = Zn (S n) * zbinom n k.
Proof. rewrite zbinom_S. pose proof (zbinom_step n k). nia. Qed.

Lemma zs_shift f : forall cnt a, zs (fun j => f (S j)) a cnt = zs f (S a) cnt.
Proof. induction cnt; intros a; simpl; auto. rewrite IHcnt. reflexivity. Qed.

Lemma zs_scal c f : forall cnt a, c * zs f a cnt = zs (fun i => c * f i) a cnt.
Proof. induction cnt; intros a; simpl; [ring|]. rewrite <- IHcnt. ring. Qed.

Lemma zbinom_1 m : zbinom m 1 = Zn m.
Proof. pose proof (zbinom_step m 0). rewrite zbinom_0 in H. simpl Zn in H. lia. Qed.

Lemma zbinom_2 m : 2 * zbinom m 2 = Zn m * (Zn m - 1).
Proof. pose proof (zbinom_step m 1). rewrite zbinom_1 in H. simpl Zn in H. lia. Qed.

Lemma Z1 n k : (2 <= k)%nat -> (k + 1 <= n)%nat ->
  zs (fun a => Zn a * (Zn a - 1) * zbinom (n - a - 1) (k - 2)) 2 (n - k) = 2 * zbinom n (k + 1).
Proof.
  intros Hk Hn.
  pose proof (vandermonde (n - 1) 2 (k - 2)) as V.
  replace (S (n - 1)) with (2 + ((n - k) + (k - 2)))%nat in V at 1 by lia.
  replace (S (n - 1)) with n in V by lia. replace (2 + (k - 2) + 1)%nat with (k + 1)%nat in V by lia.
  rewrite zs_app, zs_app in V.
  rewrite (zs_zero _ 2 0) in V.
  2:{ intros i Hi. assert (zbinom i 2 = 0) by (apply zbinom_gt; lia). rewrite H. ring. }
  rewrite (zs_zero _ (k - 2)) in V.
  2:{ intros i Hi. rewrite (zbinom_gt (n - 1 - i)) by lia. ring. }
  rewrite <- V, Z.add_0_l, Z.add_0_r. simpl Nat.add. rewrite zs_scal. apply zs_ext. intros i Hi.
  replace (n - i - 1)%nat with (n - 1 - i)%nat by lia.
  rewrite Z.mul_assoc, zbinom_2. reflexivity.
Qed.

Lemma Z2 n k : (2 <= k)%nat -> (k + 1 <= n)%nat ->
  zs (fun a => (Zn a - 1) * zbinom (n - a - 1) (k - 2)) 2 (n - k) = zbinom (n - 1) k.
Proof.
  intros Hk Hn.
  pose proof (vandermonde (n - 2) 1 (k - 2)) as V.
  replace (S (n - 2)) with (1 + ((n - k) + (k - 2)))%nat in V at 1 by lia.
  replace (S (n - 2)) with (n - 1)%nat in V by lia. replace (1 + (k - 2) + 1)%nat with k in V by lia.
  rewrite zs_app, zs_app in V.
  rewrite (zs_zero _ 1 0) in V.
  2:{ intros i Hi. assert (i = 0)%nat by lia. subst i. simpl. reflexivity. }
  rewrite (zs_zero _ (k - 2)) in V.
  2:{ intros i Hi. rewrite (zbinom_gt (n - 2 - i)) by lia. ring. }
  rewrite <- V, Z.add_0_l, Z.add_0_r. simpl Nat.add.
  rewrite <- (zs_shift (fun a => (Zn a - 1) * zbinom (n - a - 1) (k - 2)) (n - k) 1).
  apply zs_ext. intros i Hi. rewrite zbinom_1.
  replace (n - S i - 1)%nat with (n - 2 - i)%nat by lia. f_equal. lia.
Qed.

Open Scope R_scope.

Lemma IZR_zs f : forall cnt a, IZR (zs f a cnt) = rsum (fun i => IZR (f i)) a cnt.
Proof. induction cnt; intros a; simpl; auto. rewrite plus_IZR, IHcnt. reflexivity. Qed.

Lemma rsum_plus f g : forall cnt a, rsum (fun i => f i + g i) a cnt = rsum f a cnt + rsum g a cnt.
Proof. induction cnt; intros a; simpl; [ring|]. rewrite IHcnt. ring. Qed.

Lemma Hmean_closed : forall n a, (1 <= a <= n)%nat -> Hmean n a = 2 / INR a - 2 / INR n.
Proof.
  induction n as [|n IH]; intros a Ha; [lia|].
  destruct (Nat.eq_dec a (S n)) as [E|E].
  - subst a. unfold Hmean. rewrite Nat.sub_diag. simpl rsum. lra.
  - unfold Hmean in *. replace (S n - a)%nat with (S (n - a)) by lia. rewrite rsum_snoc.
    rewrite IH by lia. replace (S a + (n - a))%nat with (S n) by lia.
    rewrite coal_rate_R by lia. rewrite S_INR.
    assert (INR n <> 0) by (apply not_0_INR; lia).
    assert (INR n + 1 <> 0). { rewrite <- S_INR. apply not_0_INR. lia. }
    assert (INR a <> 0) by (apply not_0_INR; lia).
    field. repeat split; auto. replace (INR n + 1 - 1) with (INR n) by ring. auto.
Qed.

(** the weights are a probability distribution over the levels a = 2 .. n-k+1 *)
Theorem W_sum_one n k : (2 <= k)%nat -> (k + 1 <= n)%nat -> EW n k (fun _ => 1) = 1.
Proof.
  intros Hk Hn. unfold EW.
  pose proof (Wden_pos n k Hn) as P.
  assert (D : IZR (Wden n k) <> 0) by (apply IZR_neq0; lia).
  rewrite (rsum_ext _ (fun a => / IZR (Wden n k) * IZR (Wnum n k a))).
  2:{ intros i _. unfold W. field. exact D. }
  rewrite <- rsum_scal, <- IZR_zs. unfold Wnum. rewrite Z1 by assumption.
  fold (Wden n k). field. exact D.
Qed.

(** ... and their mean age is the stored closed form (k - 1) / n *)
Theorem W_mean n k : (2 <= k)%nat -> (k + 1 <= n)%nat -> EW n k (Hmean n) = tau_expect RNum k n.
Proof.
  intros Hk Hn.
  pose proof (Wden_pos n k Hn) as P.
  assert (D : IZR (Wden n k) <> 0) by (apply IZR_neq0; lia).
  assert (Nn : INR n <> 0) by (apply not_0_INR; lia).
  unfold EW.
  rewrite (rsum_ext _ (fun a => (2 / IZR (Wden n k)) * IZR ((Zn a - 1) * zbinom (n - a - 1) (k - 2))
                                 + (- (2 / INR n)) * (W n k a * 1))).
  2:{ intros i Hi. rewrite Hmean_closed by lia. unfold W, Wnum.
      rewrite !mult_IZR, minus_IZR, <- INR_IZR_INZ.
      assert (INR i <> 0) by (apply not_0_INR; lia). field. repeat split; auto. }
  rewrite rsum_plus, <- !rsum_scal, <- IZR_zs, Z2 by assumption.
  change (rsum (fun a => W n k a * 1) 2 (n - k)) with (EW n k (fun _ => 1)).
  rewrite W_sum_one by assumption.
  unfold tau_expect. assert (E : Nat.eqb k n = false) by (apply Nat.eqb_neq; lia). rewrite E.
  cbn [div ofZ RNum]. unfold Wden.
  pose proof (absorb (n - 1) k) as A. replace (S (n - 1)) with n in A by lia.
  replace (S k) with (k + 1)%nat in A by lia.
  assert (A' : IZR (Zn (k + 1)) * IZR (zbinom n (k + 1)) = IZR (Zn n) * IZR (zbinom (n - 1) k)).
  { rewrite <- !mult_IZR. f_equal. exact A. }
  assert (C1 : IZR (zbinom n (k + 1)) <> 0).
  { apply IZR_neq0. pose proof (zbinom_pos n (k + 1) Hn). lia. }
  rewrite <- !INR_IZR_INZ in A'. rewrite plus_INR in A'. simpl INR in A'.
  rewrite mult_IZR, minus_IZR, <- !INR_IZR_INZ.
  assert (X : IZR (zbinom (n - 1) k) = (INR k + 1) * IZR (zbinom n (k + 1)) / INR n).
  { rewrite A'. field. exact Nn. }
  rewrite X. field. split; assumption.
Qed.

Lemma W_pos n k a : (2 <= k)%nat -> (k + 1 <= n)%nat -> (2 <= a)%nat -> (a + k <= n + 1)%nat -> 0 < W n k a.
Proof.
  intros Hk Hn Ha Hak. unfold W. apply Rdiv_lt_0_compat.
  - apply IZR_lt. unfold Wnum. pose proof (zbinom_pos (n - a - 1) (k - 2) ltac:(lia)).
    apply Z.mul_pos_pos; [apply Z.mul_pos_pos; lia|assumption].
  - apply IZR_lt. apply Wden_pos. assumption.
Qed.

Lemma weights_distribution n k : (2 <= k)%nat -> (k + 1 <= n)%nat ->
  (forall a, (2 <= a)%nat -> (a + k <= n + 1)%nat -> 0 < W n k a) /\
  EW n k (fun _ => 1) = 1 /\ EW n k (Hmean n) = tau_expect RNum k n.
Proof.
  intros Hk Hn. split; [|split].
  - intros a Ha Hak. apply W_pos; assumption.
  - apply W_sum_one; assumption.
  - apply W_mean; assumption.
Qed.
