(** * C30: statements proved from [UnaryFacts], in the form used by [props/C30.v]. *)
From Coq Require Import List ZArith Bool Arith Lia Sorting.Permutation Sorting.Sorted.
From TsdateV Require Import lib.Tables model.Sweep model.Unary proofs.SweepFacts proofs.TablesFacts
  proofs.UnaryFacts.
Import ListNotations.
Open Scope Z_scope.

Lemma C30_util : forall es L mask insq remq,
  edges_in_range L es -> valid_index es insq remq -> 0 <= L ->
  exists b, contains_unary es mask L insq remq = Some b /\
    (b = true <-> exists x u, mask u = false /\ num_children es x u = 1).
Proof. intros. apply contains_unary_exact; assumption. Qed.

Lemma C30_prior : forall es L, edges_in_range L es ->
  (prior_unary es = true <-> exists x u, num_children es x u = 1).
Proof. intros. eapply prior_unary_exact; eassumption. Qed.

Lemma C30_agree : forall es L insq remq,
  edges_in_range L es -> valid_index es insq remq -> 0 <= L ->
  contains_unary es (fun _ => false) L insq remq = Some (prior_unary es).
Proof. intros es L insq remq Hr Hi HL.
  destruct (contains_unary_exact es L (fun _ => false) insq remq Hr Hi HL) as [b [Hb Hiff]].
  rewrite Hb. f_equal. assert (Hp := prior_unary_exact es L Hr).
  destruct b, (prior_unary es); try reflexivity.
  - assert (E : true = true) by reflexivity. apply Hiff in E. destruct E as [x [u [_ H1]]].
    assert (false = true) by (apply Hp; exists x, u; exact H1). discriminate.
  - assert (E : true = true) by reflexivity. apply Hp in E. destruct E as [x [u H1]].
    assert (false = true) by (apply Hiff; exists x, u; split; [reflexivity|exact H1]). discriminate. Qed.

Lemma C30_reject : forall es L is_sample insq remq allow,
  edges_in_range L es -> valid_index es insq remq -> 0 <= L ->
  (exists b, vgamma_rejects allow es is_sample L insq remq = Some b /\
     (b = true <-> allow = false /\ exists x u, is_sample u = false /\ num_children es x u = 1)) /\
  (discrete_rejects allow es = true <-> allow = false /\ exists x u, num_children es x u = 1).
Proof. intros es L is_sample insq remq allow Hr Hi HL. split.
  - unfold vgamma_rejects, contains_unary_nodes. destruct allow.
    + exists false. split; [reflexivity|]. split; [discriminate|]. intros [H _]. discriminate.
    + destruct (contains_unary_exact es L (fun u => true && is_sample u) insq remq Hr Hi HL) as [b [Hb Hiff]].
      exists b. split; [exact Hb|]. rewrite Hiff. cbn [andb]. tauto.
  - unfold discrete_rejects. destruct allow.
    + split; [discriminate|]. intros [H _]. discriminate.
    + rewrite (prior_unary_exact es L Hr). tauto. Qed.

(** non-vacuity: two samples (0, 1), parents 2 and 3 on [[0, 10)]; node 2 has both samples as
    children on [[0, 4)] and only sample 0 on [[4, 10)], where sample 1 hangs below node 3
    together with node 2. *)
Definition ex_edges : list edge :=
  [mkEdge 0 10 2 0; mkEdge 0 4 2 1; mkEdge 4 10 3 1; mkEdge 4 10 3 2].
Definition ex_ins : list nat := [0; 1; 2; 3]%nat.
Definition ex_rem : list nat := [1; 0; 2; 3]%nat.

Lemma C30_example :
  valid_tablesb 10 ex_edges ex_ins ex_rem = true /\
  contains_unary ex_edges (fun _ => false) 10 ex_ins ex_rem = Some true /\
  num_children ex_edges 4 2 = 1 /\
  contains_unary [mkEdge 0 10 2 0; mkEdge 0 10 2 1] (fun _ => false) 10 [0; 1]%nat [0; 1]%nat = Some false.
Proof. vm_compute. repeat split. Qed.
