(** * The logarithmic probability space against the linear one (C12).
    [logsumexp] (discrete.py:370-383) is correct, and [exp] (with exp(-inf) = 0) maps every
    operation of the logarithmic space to the linear one. *)
From Coq Require Import List Arith Bool Lia Reals Lra.
From TsdateV Require Import lib.Num model.Discrete model.DiscreteER proofs.DiscreteBase.
Import ListNotations.
Open Scope R_scope.

(** a log-space value that stands for a probability: -inf or a finite number *)
Definition proper (l : ER) : Prop := l = ENInf \/ exists y, l = EFin y.
(** its linear-space meaning *)
Definition lin (l : ER) : R := match l with EFin y => exp y | _ => 0 end.
(** [rel l x]: the log-space value [l] and the linear-space value [x] denote the same number *)
Definition rel (l : ER) (x : R) : Prop := proper l /\ x = lin l.
(** log of a non-negative real, with log 0 = -inf *)
Definition elog (x : R) : ER := if Req_EM_T x 0 then ENInf else EFin (ln x).

Definition sumlin (l : list ER) : R := fold_right (fun x acc => lin x + acc) 0 l.
Definition sumR (l : list R) : R := fold_right Rplus 0 l.

Lemma lin_nonneg l : 0 <= lin l.
Proof. destruct l; cbn; try lra. left. apply exp_pos. Qed.

Lemma sumlin_nonneg l : 0 <= sumlin l.
Proof. induction l as [|x l IH]; unfold sumlin in *; cbn [fold_right]; [lra|]. pose proof (lin_nonneg x). lra. Qed.

Lemma Reqb_false a b : a <> b -> Reqb a b = false.
Proof. unfold Reqb. destruct (Req_EM_T a b); congruence. Qed.
Lemma Reqb_refl a : Reqb a a = true.
Proof. now apply Reqb_true. Qed.

(** ** logsumexp *)
Notation lse_step := (lse_step ERNum ENInf er_exp).
Notation logsumexpER := (logsumexp ERNum ENInf er_exp er_log).

(** loop invariant: r * exp(alpha) = sum of exp over the elements seen *)
Definition lse_inv (st : ER * ER) (s : R) : Prop :=
  (st = (ENInf, EFin 0) /\ s = 0) \/
  (exists a r0, st = (EFin a, EFin r0) /\ 0 < r0 /\ r0 * exp a = s).

Lemma lse_step_inv st s x : lse_inv st s -> proper x -> lse_inv (lse_step st x) (s + lin x).
Proof. intros Hinv [->|(y & ->)].
  - (* x = -inf: skipped *)
    replace (s + lin ENInf) with s by (cbn; lra).
    destruct Hinv as [(-> & ->)|(a & r0 & -> & Hr & Hs)]; cbn; [left; auto|right; eauto].
  - destruct Hinv as [(-> & ->)|(a & r0 & -> & Hr & Hs)].
    + (* first finite element *)
      right. exists y, 1. cbn. unfold Discrete.lse_step. cbn.
      split; [|split; [lra|lra]]. f_equal. f_equal. lra.
    + cbn [lin]. unfold Discrete.lse_step. cbn [eqb leb ERNum er_eqb er_leb negb].
      destruct (Rleb y a) eqn:E.
      * apply Rleb_true in E. right. exists a, (r0 + exp (y - a)). cbn.
        split; [reflexivity|]. split; [pose proof (exp_pos (y - a)); lra|].
        rewrite Rmult_plus_distr_r, <- exp_plus. replace (y - a + a) with y by lra. lra.
      * apply Rleb_false in E. right. exists y, (r0 * exp (a - y) + 1). cbn.
        split; [reflexivity|]. split; [pose proof (exp_pos (a - y)); nra|].
        rewrite Rmult_plus_distr_r, Rmult_assoc, <- exp_plus. replace (a - y + y) with a by lra. lra. Qed.

Lemma lse_fold_inv : forall l st s, lse_inv st s -> Forall proper l ->
  lse_inv (fold_left lse_step l st) (s + sumlin l).
Proof. induction l as [|x l IH]; intros st s Hinv Hall; cbn [fold_left].
  - unfold sumlin. cbn [fold_right]. now rewrite Rplus_0_r.
  - inversion Hall; subst. change (sumlin (x :: l)) with (lin x + sumlin l).
    replace (s + (lin x + sumlin l)) with ((s + lin x) + sumlin l) by lra.
    apply IH; [|assumption]. now apply lse_step_inv. Qed.

(** [logsumexp xs = log (sum exp xs)], and it is -inf iff all terms are -inf *)
Theorem logsumexp_correct l : Forall proper l -> logsumexpER l = elog (sumlin l).
Proof. intro Hall. unfold Discrete.logsumexp.
  match goal with |- context [fold_left ?f l ?i] =>
    assert (Hinv : lse_inv (fold_left f l i) (0 + sumlin l))
      by (apply lse_fold_inv; [left; split; reflexivity | exact Hall]);
    destruct (fold_left f l i) as [alpha r] end.
  rewrite Rplus_0_l in Hinv.
  destruct Hinv as [(E & Hs)|(a & r0 & E & Hr & Hs)]; inversion E; subst alpha r; clear E.
  - cbn. rewrite Reqb_refl. unfold elog. rewrite Hs. destruct (Req_EM_T 0 0); congruence.
  - cbn. rewrite Reqb_false by lra. destruct (Rlt_dec 0 r0); [|contradiction].
    unfold elog. destruct (Req_EM_T (sumlin l) 0) as [E0|E0].
    + exfalso. pose proof (exp_pos a). nra.
    + f_equal. rewrite <- Hs. rewrite ln_mult by (auto; apply exp_pos). now rewrite ln_exp. Qed.

Lemma sumlin_zero_iff l : Forall proper l -> (sumlin l = 0 <-> Forall (fun x => x = ENInf) l).
Proof. induction l as [|x l IH]; intro Hall; cbn; [split; auto|].
  inversion Hall as [|? ? Hx Hl]; subst. pose proof (lin_nonneg x). pose proof (sumlin_nonneg l).
  split.
  - intro E. assert (lin x = 0) by (unfold sumlin in *; lra). assert (sumlin l = 0) by (unfold sumlin in *; lra).
    constructor; [|now apply IH]. destruct Hx as [->|(y & ->)]; [reflexivity|]. cbn in *. pose proof (exp_pos y). lra.
  - intro E. inversion E; subst. cbn. apply IH in H4; [|assumption]. unfold sumlin in *. lra. Qed.

Corollary logsumexp_neg_inf_iff l : Forall proper l ->
  (logsumexpER l = ENInf <-> Forall (fun x => x = ENInf) l).
Proof. intro Hall. rewrite logsumexp_correct by assumption. rewrite <- sumlin_zero_iff by assumption.
  unfold elog. destruct (Req_EM_T (sumlin l) 0); split; intro; try assumption; try reflexivity; try discriminate; contradiction. Qed.

(** ** exp is a homomorphism from the logarithmic to the linear space, operation by operation *)
Lemma rel_fin y : rel (EFin y) (exp y).
Proof. split; [right; eauto|reflexivity]. Qed.
Lemma rel_ninf : rel ENInf 0.
Proof. split; [now left|reflexivity]. Qed.

Lemma rel_cases l x : rel l x -> (l = ENInf /\ x = 0) \/ (exists y, l = EFin y /\ x = exp y).
Proof. intros ([->|(y & ->)] & ->); [left|right; exists y]; auto. Qed.

Lemma rel_nonneg l x : rel l x -> 0 <= x.
Proof. intros (_ & ->). apply lin_nonneg. Qed.

Lemma rel_zero_iff l x : rel l x -> (x = 0 <-> l = ENInf).
Proof. intro H. destruct (rel_cases _ _ H) as [(-> & ->)|(y & -> & ->)]; split; auto; try discriminate.
  intro E. pose proof (exp_pos y). lra. Qed.

Lemma rel_id : rel (s_id LogER) (s_id LinR).
Proof. cbn. rewrite <- exp_0. apply rel_fin. Qed.
Lemma rel_null : rel (s_null LogER) (s_null LinR).
Proof. apply rel_ninf. Qed.

Lemma rel_comb a x b y : rel a x -> rel b y -> rel (s_comb LogER a b) (s_comb LinR x y).
Proof. intros Ha Hb. destruct (rel_cases _ _ Ha) as [(-> & ->)|(u & -> & ->)];
  destruct (rel_cases _ _ Hb) as [(-> & ->)|(v & -> & ->)]; cbn.
  - replace (0 * 0) with 0 by lra. apply rel_ninf.
  - replace (0 * exp v) with 0 by lra. apply rel_ninf.
  - replace (exp u * 0) with 0 by lra. apply rel_ninf.
  - rewrite <- exp_plus. apply rel_fin. Qed.

(** ratio: the linear denominator must not be 0 (the statement of C12 excludes it) *)
Lemma rel_ratio a x b y : rel a x -> rel b y -> y <> 0 -> rel (s_ratio LogER a b) (s_ratio LinR x y).
Proof. intros Ha Hb Hy. destruct (rel_cases _ _ Hb) as [(-> & ->)|(v & -> & ->)]; [congruence|].
  destruct (rel_cases _ _ Ha) as [(-> & ->)|(u & -> & ->)]; cbn.
  - unfold Rdiv. rewrite Rmult_0_l. apply rel_ninf.
  - replace (exp u / exp v) with (exp (u + - v)) by (rewrite exp_plus, exp_Ropp; reflexivity).
    apply rel_fin. Qed.

Lemma rel_isnan a x : rel a x -> s_isnan LogER a = false.
Proof. intro H. destruct (rel_cases _ _ H) as [(-> & _)|(y & -> & _)]; cbn; unfold nisnan; cbn; [reflexivity|].
  now rewrite Reqb_refl. Qed.

(** ratio with div_0_null: 0/0 is 0 in both spaces (-inf - -inf = NaN -> -inf) *)
Lemma rel_ratio0 a x b y : rel a x -> rel b y -> (y <> 0 \/ x = 0) ->
  rel (ratio0 LogER a b) (ratio0 LinR x y).
Proof. intros Ha Hb Hy. unfold ratio0. rewrite LinR_isnan.
  destruct (rel_cases _ _ Hb) as [(-> & ->)|(v & -> & ->)].
  - destruct Hy as [Hy|Hx]; [congruence|]. subst x.
    assert (Ea : a = ENInf) by (now apply (rel_zero_iff _ _ Ha)). subst a.
    cbn. unfold Rdiv. rewrite Rmult_0_l. apply rel_ninf.
  - assert (Hr : rel (s_ratio LogER a (EFin v)) (s_ratio LinR x (exp v))).
    { apply rel_ratio; [assumption|apply rel_fin|]. pose proof (exp_pos v). lra. }
    rewrite (rel_isnan _ _ Hr). exact Hr. Qed.

Lemma rel_leb a x b y : rel a x -> rel b y -> s_leb LogER a b = s_leb LinR x y.
Proof. intros Ha Hb. destruct (rel_cases _ _ Ha) as [(-> & ->)|(u & -> & ->)];
  destruct (rel_cases _ _ Hb) as [(-> & ->)|(v & -> & ->)]; cbn.
  - symmetry. apply Rleb_true. lra.
  - symmetry. apply Rleb_true. left. apply exp_pos.
  - symmetry. apply Rleb_false. apply exp_pos.
  - destruct (Rleb u v) eqn:E; symmetry.
    + apply Rleb_true in E. apply Rleb_true. destruct E as [E| ->]; [left; now apply exp_increasing|right; reflexivity].
    + apply Rleb_false in E. apply Rleb_false. now apply exp_increasing. Qed.

Lemma rel_max2 a x b y : rel a x -> rel b y -> rel (s_max2 LogER a b) (s_max2 LinR x y).
Proof. intros Ha Hb. cbn [s_max2 LogER LinR LogSpace LinSpace]. unfold nmax2.
  change (leb ERNum b a) with (s_leb LogER b a). change (leb RNum y x) with (s_leb LinR y x).
  rewrite (rel_leb _ _ _ _ Hb Ha). destruct (s_leb LinR y x); [exact Ha|].
  change (nisnan ERNum a) with (s_isnan LogER a). change (nisnan RNum x) with (s_isnan LinR x).
  rewrite (rel_isnan _ _ Ha), LinR_isnan. exact Hb. Qed.

Lemma rel_fold_max : forall l xs a x, Forall2 rel l xs -> rel a x ->
  rel (fold_left (s_max2 LogER) l a) (fold_left (s_max2 LinR) xs x).
Proof. induction l as [|b l IH]; intros xs a x H Ha; inversion H; subst; cbn [fold_left]; [exact Ha|].
  apply IH; [assumption|]. now apply rel_max2. Qed.

Lemma rel_npmax l xs : Forall2 rel l xs -> rel (npmax LogER l) (npmax LinR xs).
Proof. intro H. destruct H; cbn [npmax]; [apply rel_null|]. now apply rel_fold_max. Qed.

(** sums *)
Lemma lin_msum_sumR (xs : list R) : lin_msum RNum xs = sumR xs.
Proof. unfold lin_msum. cbn [add zero RNum]. assert (H : forall a, fold_left Rplus xs a = a + sumR xs).
  { induction xs as [|x xs IH]; intro a; cbn [fold_left sumR fold_right]; [lra|]. rewrite IH. unfold sumR. lra. }
  rewrite H. lra. Qed.

Lemma lin_rsum_sumR (xs : list R) : lin_rsum RNum xs = sumR xs.
Proof. destruct xs as [|x [|y r]]; cbn [lin_rsum sumR fold_right zero add RNum]; try lra.
  assert (H : forall a, fold_left Rplus r a = a + sumR r).
  { induction r as [|z r IH]; intro a; cbn [fold_left sumR fold_right]; [lra|]. rewrite IH. unfold sumR. lra. }
  rewrite H. unfold sumR. lra. Qed.

Lemma rel_sum l xs : Forall2 rel l xs -> Forall proper l /\ sumlin l = sumR xs.
Proof. induction 1 as [|a x l xs Ha H IH]; [split; [constructor|reflexivity]|].
  destruct IH as (Hp & Hs). split; [constructor; [apply Ha|exact Hp]|].
  destruct Ha as (_ & ->). unfold sumlin, sumR in *. cbn [fold_right]. now rewrite Hs. Qed.

Lemma rel_elog s : 0 <= s -> rel (elog s) s.
Proof. intro H. unfold elog. destruct (Req_EM_T s 0) as [->|Hn]; [apply rel_ninf|].
  replace s with (exp (ln s)) at 2 by (apply exp_ln; lra). apply rel_fin. Qed.

Lemma rel_rsum l xs : Forall2 rel l xs -> rel (s_rsum LogER l) (s_rsum LinR xs).
Proof. intro H. destruct (rel_sum _ _ H) as (Hp & Hs). cbn [s_rsum LogER LinR LogSpace LinSpace].
  rewrite logsumexp_correct by exact Hp. rewrite lin_rsum_sumR, <- Hs. apply rel_elog. apply sumlin_nonneg. Qed.

Lemma rel_msum l xs : Forall2 rel l xs -> rel (s_msum LogER l) (s_msum LinR xs).
Proof. intro H. destruct (rel_sum _ _ H) as (Hp & Hs). cbn [s_msum LogER LinR LogSpace LinSpace].
  rewrite logsumexp_correct by exact Hp. rewrite lin_msum_sumR, <- Hs. apply rel_elog. apply sumlin_nonneg. Qed.

(** geometric scaling by a span fraction f > 0:  f * log v  ~  v ** f *)
Lemma rel_geom f v x : 0 < f -> rel v x -> rel (s_geom LogER (EFin f) v) (s_geom LinR f x).
Proof. intros Hf H. destruct (rel_cases _ _ H) as [(-> & ->)|(y & -> & ->)]; cbn.
  - unfold er_sign. destruct (Rlt_dec 0 f); [|contradiction]. cbn. unfold Rpowf.
    destruct (Req_EM_T 0 0); [apply rel_ninf|congruence].
  - unfold Rpowf. destruct (Req_EM_T (exp y) 0) as [E|_]; [pose proof (exp_pos y); lra|].
    unfold Rpower. rewrite ln_exp. apply rel_fin. Qed.

(** a linear-space number brought into the space ([force_probability_space]) *)
Lemma rel_oflin x : 0 <= x -> rel (s_oflin LogER (EFin x)) (s_oflin LinR x).
Proof. intro H. cbn. destruct (Rlt_dec 0 x) as [Hp|Hn].
  - replace x with (exp (ln x)) at 2 by (now apply exp_ln). apply rel_fin.
  - assert (x = 0) by lra. subst. destruct (Req_EM_T 0 0); [apply rel_ninf|congruence]. Qed.

(** argmax: the same index in both spaces (exp is strictly increasing) *)
Lemma rel_argmax_go : forall l xs a x idx i, Forall2 rel l xs -> rel a x ->
  argmax_go LogER a idx i l = argmax_go LinR x idx i xs.
Proof. induction l as [|b l IH]; intros xs a x idx i H Ha; inversion H; subst; cbn [argmax_go]; [reflexivity|].
  rewrite (rel_leb _ _ _ _ H2 Ha). destruct (s_leb LinR y x); [now apply IH|].
  rewrite (rel_isnan _ _ H2), LinR_isnan. now apply IH. Qed.

Lemma rel_argmax l xs : Forall2 rel l xs -> argmax LogER l = argmax LinR xs.
Proof. intro H. destruct H as [|a x l xs Ha H]; cbn [argmax]; [reflexivity|].
  rewrite (rel_isnan _ _ Ha), LinR_isnan. now apply rel_argmax_go. Qed.

(** ** C12: the operation-level statement, collected *)
Theorem homomorphism_ops :
  rel (s_id LogER) (s_id LinR) /\ rel (s_null LogER) (s_null LinR) /\
  (forall a x b y, rel a x -> rel b y -> rel (s_comb LogER a b) (s_comb LinR x y)) /\
  (forall a x b y, rel a x -> rel b y -> y <> 0 -> rel (s_ratio LogER a b) (s_ratio LinR x y)) /\
  (forall a x b y, rel a x -> rel b y -> (y <> 0 \/ x = 0) -> rel (ratio0 LogER a b) (ratio0 LinR x y)) /\
  (forall l xs, Forall2 rel l xs -> rel (s_rsum LogER l) (s_rsum LinR xs)) /\
  (forall l xs, Forall2 rel l xs -> rel (s_msum LogER l) (s_msum LinR xs)) /\
  (forall f v x, 0 < f -> rel v x -> rel (s_geom LogER (EFin f) v) (s_geom LinR f x)) /\
  (forall l xs, Forall2 rel l xs -> rel (npmax LogER l) (npmax LinR xs)) /\
  (forall a x b y, rel a x -> rel b y -> s_leb LogER a b = s_leb LinR x y) /\
  (forall l xs, Forall2 rel l xs -> argmax LogER l = argmax LinR xs) /\
  (forall x, 0 <= x -> rel (s_oflin LogER (EFin x)) (s_oflin LinR x)).
Proof. split; [exact rel_id|]. split; [exact rel_null|]. split; [exact rel_comb|]. split; [exact rel_ratio|].
  split; [exact rel_ratio0|]. split; [exact rel_rsum|]. split; [exact rel_msum|]. split; [exact rel_geom|].
  split; [exact rel_npmax|]. split; [exact rel_leb|]. split; [exact rel_argmax|exact rel_oflin]. Qed.

Lemma C12_example :
  Forall proper [ENInf; EFin 0; EFin 1] /\
  logsumexpER [ENInf; EFin 0; EFin 1] = EFin (ln (0 + (exp 0 + (exp 1 + 0)))) /\
  rel (EFin 0) 1 /\ rel ENInf 0.
Proof. assert (Hp : Forall proper [ENInf; EFin 0; EFin 1]).
  { constructor; [now left|]. constructor; [right; eauto|]. constructor; [right; eauto|constructor]. }
  split; [exact Hp|]. split; [|split; [rewrite <- exp_0; apply rel_fin|apply rel_ninf]].
  rewrite logsumexp_correct by exact Hp. unfold elog, sumlin. cbn [fold_right lin].
  destruct (Req_EM_T _ 0) as [E|_]; [|reflexivity].
  exfalso. pose proof (exp_pos 0). pose proof (exp_pos 1). lra. Qed.
