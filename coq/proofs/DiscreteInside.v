(** * [inside_pass] at the level of messages, for EVERY probability space and every valid
    edge order: after the pass, the inside values satisfy the equation system
      inside p = normalise (prior p (.) combine_{e in group p} msg e (inside (child e)))
    (used by C10: exactness on trees, and by C11: any valid order gives the same values). *)
From Coq Require Import List Arith Bool Lia.
From TsdateV Require Import lib.Num model.Discrete proofs.DiscreteBase.
Import ListNotations.

(** order condition for the inside pass, as a proposition *)
Fixpoint inside_order (fixed : nat -> bool) (seen : list nat) (gs : list (nat * list edge)) : Prop :=
  match gs with
  | [] => True
  | (p, es) :: r =>
      ~ In p seen /\
      (forall e, In e es -> fixed (e_child e) = true \/ In (e_child e) seen) /\
      inside_order fixed (if fixed p then seen else p :: seen) r
  end.

Lemma inside_orderb_spec fixed : forall gs seen,
  inside_orderb fixed seen gs = true -> inside_order fixed seen gs.
Proof. induction gs as [|[p es] r IH]; intros seen H; [exact I|]. cbn [inside_orderb inside_order] in *.
  apply andb_prop in H. destruct H as [H H3]. apply andb_prop in H. destruct H as [H1 H2].
  split; [|split].
  - intro Hin. apply existsb_eqb_In in Hin. rewrite Hin in H1. discriminate.
  - intros e He. rewrite forallb_forall in H2. specialize (H2 e He). apply orb_prop in H2.
    destruct H2 as [H2|H2]; [now left|right; now apply existsb_eqb_In].
  - now apply IH. Qed.

Section Inside.
  Variable P : Space.
  Notation S := (S P).
  Notation V := (list S).
  Variable G : nat.
  Variable lik : nat -> nat -> nat -> S.
  Variable sfrac : nat -> S.
  Variable fixed : nat -> bool.
  Variable prior : nat -> V.

  Notation edge_msg := (edge_msg P G lik sfrac fixed).
  Notation inside_edges := (inside_edges P G lik sfrac fixed).
  Notation inside_group := (inside_group P G lik sfrac fixed prior).
  Notation inside_groups := (inside_groups P G lik sfrac fixed prior).

  (** the product of the messages of a list of edges into [val] *)
  Fixpoint fold_msgs (ins : nat -> option V) (val : V) (es : list edge) : option V :=
    match es with
    | [] => Some val
    | e :: r => match edge_msg ins e with
                | None => None
                | Some m => fold_msgs ins (vcomb P val m) r
                end
    end.

  Lemma inside_edges_fold ins : forall es gi val,
    match inside_edges ins gi val es with
    | Some (v, _) => fold_msgs ins val es = Some v
    | None => fold_msgs ins val es = None
    end.
  Proof. induction es as [|e r IH]; intros gi val; cbn [Discrete.inside_edges fold_msgs]; [reflexivity|].
    destruct (edge_msg ins e) as [m|]; [apply IH|reflexivity]. Qed.

  (** messages only look at the inside values of the (non-fixed) children *)
  Lemma edge_msg_ext ins ins' e :
    (fixed (e_child e) = false -> ins (e_child e) = ins' (e_child e)) -> edge_msg ins e = edge_msg ins' e.
  Proof. intro H. unfold Discrete.edge_msg. destruct (fixed (e_child e)); [reflexivity|]. now rewrite H. Qed.

  Lemma fold_msgs_ext ins ins' : forall es val,
    (forall e, In e es -> fixed (e_child e) = false -> ins (e_child e) = ins' (e_child e)) ->
    fold_msgs ins val es = fold_msgs ins' val es.
  Proof. induction es as [|e r IH]; intros val H; cbn [fold_msgs]; [reflexivity|].
    rewrite (edge_msg_ext ins ins' e) by (apply H; now left).
    destruct (edge_msg ins' e); [|reflexivity]. apply IH. intros; apply H; [now right|assumption]. Qed.

  (** what the pass establishes for the group of one parent, relative to the inside map [ins] *)
  Definition group_eq (standardize : bool) (ins : nat -> option V) (den : nat -> option S)
      (g : nat * list edge) : Prop :=
    fixed (fst g) = false ->
    exists val, fold_msgs ins (prior (fst g)) (snd g) = Some val /\
      let d := if standardize then npmax P val else s_id P in
      ins (fst g) = Some (vratio P val d) /\ den (fst g) = Some d.

  (** denominators multiplied into the marginal likelihood, in group order *)
  Fixpoint marg_acc (den : nat -> option S) (m : S) (gs : list (nat * list edge)) : S :=
    match gs with
    | [] => m
    | (p, _) :: r => if fixed p then marg_acc den m r
                     else match den p with
                          | Some d => marg_acc den (s_comb P m d) r
                          | None => marg_acc den m r
                          end
    end.

  Lemma inside_group_spec std st p es st' :
    inside_group std st (p, es) = Some st' -> fixed p = false ->
    exists val, fold_msgs (i_ins P st) (prior p) es = Some val /\
      let d := if std then npmax P val else s_id P in
      i_ins P st' = updf (i_ins P st) p (Some (vratio P val d)) /\
      i_den P st' = updf (i_den P st) p (Some d) /\
      i_marg P st' = (if std then s_comb P (i_marg P st) d else i_marg P st).
  Proof. intros H Hfx. unfold Discrete.inside_group in H. rewrite Hfx in H.
    pose proof (inside_edges_fold (i_ins P st) es (i_gi P st) (prior p)) as Hf.
    destruct (inside_edges (i_ins P st) (i_gi P st) (prior p) es) as [[val gi]|]; [|discriminate].
    exists val. split; [exact Hf|]. inversion H; subst st'; cbn. auto. Qed.

  Lemma inside_group_fixed std st p es st' :
    inside_group std st (p, es) = Some st' -> fixed p = true -> st' = st.
  Proof. intros H Hfx. unfold Discrete.inside_group in H. rewrite Hfx in H. congruence. Qed.

  Theorem inside_groups_spec std : forall gs seen st st',
    inside_order fixed seen gs ->
    inside_groups std st gs = Some st' ->
    (* nodes that are not the parent of a (non-fixed) group keep their values *)
    (forall u, ~ In u (map fst gs) -> i_ins P st' u = i_ins P st u /\ i_den P st' u = i_den P st u) /\
    (* the equation of every group holds for the final values *)
    (forall g, In g gs -> group_eq std (i_ins P st') (i_den P st') g) /\
    (* the marginal likelihood accumulates the denominators *)
    i_marg P st' = (if std then marg_acc (i_den P st') (i_marg P st) gs else i_marg P st).
  Proof. induction gs as [|[p es] r IH]; intros seen st st' Hord H; cbn [Discrete.inside_groups] in H.
    - inversion H; subst. split; [tauto|]. split; [intros ? []|]. destruct std; reflexivity.
    - destruct (inside_group std st (p, es)) as [st1|] eqn:Hg; [|discriminate].
      destruct Hord as (Hnseen & Hkids & Hord).
      destruct (IH _ st1 st' Hord H) as (Hkeep & Heqs & Hmarg).
      (* the parents of later groups differ from p (when p is non-fixed) and from everything seen *)
      assert (Hlater : forall s gs', inside_order fixed s gs' -> forall g, In g gs' -> ~ In (fst g) s).
      { clear. intros s gs'. revert s. induction gs' as [|[q qs] r' IHr]; intros s Ho g []; cbn [inside_order] in Ho.
        - subst g. apply Ho.
        - destruct Ho as (_ & _ & Ho). intro Hin. apply (IHr _ Ho g H). destruct (fixed q); [exact Hin|now right]. }
      destruct (fixed p) eqn:Hfx.
      + apply inside_group_fixed in Hg; [|exact Hfx]. subst st1. split; [|split].
        * intros u Hu. apply Hkeep. intro; apply Hu; now right.
        * intros g [<-|Hgin]; [unfold group_eq; cbn [fst]; congruence|now apply Heqs].
        * rewrite Hmarg. cbn [marg_acc]. now rewrite Hfx.
      + destruct (inside_group_spec std st p es st1 Hg Hfx) as (val & Hval & Hins & Hden & Hm).
        assert (Hp_later : ~ In p (map fst r)).
        { intro Hin. apply in_map_iff in Hin. destruct Hin as (g & E & Hgin).
          apply (Hlater _ _ Hord g Hgin). left. now rewrite E. }
        split; [|split].
        * intros u Hu. destruct (Hkeep u) as (Ha & Hb); [intro; apply Hu; now right|].
          rewrite Ha, Hb, Hins, Hden. rewrite !updf_other by (intro; subst; apply Hu; now left). auto.
        * intros g [<-|Hgin]; [|now apply Heqs]. unfold group_eq. cbn [fst snd]. intros _.
          destruct (Hkeep p Hp_later) as (Ha & Hb). exists val. split.
          -- rewrite <- Hval. apply fold_msgs_ext. intros e He Hfc.
             assert (Hc_seen : In (e_child e) seen) by (destruct (Hkids e He); [congruence|assumption]).
             assert (Hc_later : ~ In (e_child e) (map fst r)).
             { intro Hin. apply in_map_iff in Hin. destruct Hin as (g & E & Hgin).
               apply (Hlater _ _ Hord g Hgin). right. now rewrite E. }
             destruct (Hkeep _ Hc_later) as (Hc & _). rewrite Hc, Hins. apply updf_other.
             intro E. apply Hnseen. now rewrite <- E.
          -- cbv zeta. rewrite Ha, Hb, Hins, Hden, !updf_same. auto.
        * destruct (Hkeep p Hp_later) as (_ & Hb). destruct std.
          -- rewrite Hmarg. cbn [marg_acc]. rewrite Hfx, Hb, Hden, updf_same, Hm. reflexivity.
          -- rewrite Hmarg. exact Hm. Qed.
End Inside.

(** the statement used by props/C10.v and props/C11.v *)
Theorem inside_equation : forall (P : Space) (G : nat) lik sfrac fixed prior std gs st st',
  inside_order fixed [] gs ->
  inside_groups P G lik sfrac fixed prior std st gs = Some st' ->
  (forall g, In g gs -> fixed (fst g) = false ->
     exists val, fold_msgs P G lik sfrac fixed (i_ins P st') (prior (fst g)) (snd g) = Some val /\
       let d := if std then npmax P val else s_id P in
       i_ins P st' (fst g) = Some (vratio P val d) /\ i_den P st' (fst g) = Some d) /\
  i_marg P st' = (if std then marg_acc P fixed (i_den P st') (i_marg P st) gs else i_marg P st).
Proof. intros P G lik sfrac fixed prior std gs st st' Hord H.
  destruct (inside_groups_spec P G lik sfrac fixed prior std gs [] st st' Hord H) as (_ & Heq & Hm).
  split; [exact Heq|exact Hm]. Qed.

(** ** The equation system has one solution (C11): induction along any valid order *)
Section Unique.
  Variable P : Space.
  Variable G : nat.
  Variable lik : nat -> nat -> nat -> S P.
  Variable sfrac : nat -> S P.
  Variable fixed : nat -> bool.
  Variable prior : nat -> list (S P).
  Variable std : bool.

  Notation group_eq := (group_eq P G lik sfrac fixed prior std).

  Lemma inside_unique_from : forall gs seen ins1 den1 ins2 den2,
    inside_order fixed seen gs ->
    (forall u, In u seen -> ins1 u = ins2 u) ->
    (forall g, In g gs -> group_eq ins1 den1 g) ->
    (forall g, In g gs -> group_eq ins2 den2 g) ->
    forall g, In g gs -> fixed (fst g) = false ->
      ins1 (fst g) = ins2 (fst g) /\ den1 (fst g) = den2 (fst g).
  Proof. induction gs as [|[p es] r IH]; intros seen ins1 den1 ins2 den2 Hord Hseen H1 H2 g Hg Hfx; [destruct Hg|].
    destruct Hord as (Hn & Hkids & Hord).
    assert (Hp : fixed p = false -> ins1 p = ins2 p /\ den1 p = den2 p).
    { intro Hfp. destruct (H1 (p, es) (or_introl eq_refl) Hfp) as (v1 & Hv1 & Hi1 & Hd1).
      destruct (H2 (p, es) (or_introl eq_refl) Hfp) as (v2 & Hv2 & Hi2 & Hd2). cbn [fst snd] in *.
      assert (E : v1 = v2).
      { rewrite (fold_msgs_ext P G lik sfrac fixed ins1 ins2) in Hv1; [congruence|].
        intros e He Hfc. apply Hseen. destruct (Hkids e He); [congruence|assumption]. }
      subst v2. rewrite Hi1, Hi2, Hd1, Hd2. auto. }
    destruct Hg as [<-|Hg]; [exact (Hp Hfx)|].
    apply (IH (if fixed p then seen else p :: seen) ins1 den1 ins2 den2 Hord); try assumption.
    - intros u Hu. destruct (fixed p) eqn:Hfp; [now apply Hseen|].
      destruct Hu as [<-|Hu]; [now apply Hp|now apply Hseen].
    - intros; apply H1; now right.
    - intros; apply H2; now right. Qed.

  (** any two valid orders of the same parent groups give the same inside values,
      denominators (hence the same marginal likelihood factors) *)
  Theorem inside_order_independent gs1 gs2 st1 st2 s1 s2 :
    inside_order fixed [] gs1 -> inside_order fixed [] gs2 ->
    (forall g, In g gs1 <-> In g gs2) ->
    inside_groups P G lik sfrac fixed prior std s1 gs1 = Some st1 ->
    inside_groups P G lik sfrac fixed prior std s2 gs2 = Some st2 ->
    forall g, In g gs1 -> fixed (fst g) = false ->
      i_ins P st1 (fst g) = i_ins P st2 (fst g) /\ i_den P st1 (fst g) = i_den P st2 (fst g).
  Proof. intros Ho1 Ho2 Hsame H1 H2.
    destruct (inside_groups_spec P G lik sfrac fixed prior std gs1 [] s1 st1 Ho1 H1) as (_ & E1 & _).
    destruct (inside_groups_spec P G lik sfrac fixed prior std gs2 [] s2 st2 Ho2 H2) as (_ & E2 & _).
    apply (inside_unique_from gs1 [] _ _ _ _ Ho1); [intros ? []|exact E1|].
    intros g Hg. apply E2. now apply Hsame. Qed.
End Unique.
