(** Concrete evaluations of the model of discrete.py over exact rationals
    (non-vacuity examples and witnesses). *)
From Coq Require Import List QArith Bool.
From TsdateV Require Import lib.Num model.Discrete proofs.DiscreteBase.
Import ListNotations.

(** the linear space over Q; [x ** f] is only ever needed for f = 1 (single trees) *)
Definition LinQ : Space := LinSpace QNum (fun v _ => v).

(** *** C13: a 3-leaf caterpillar, nodes 3 = (0,1), 4 = (3,2), three timepoints *)
Definition ex13_fixed (u : nat) : bool := Nat.ltb u 3.
Definition ex13_ins (u : nat) : option (list Q) :=
  if Nat.eqb u 3 then Some [0; 1; 2 # 3]%Q
  else if Nat.eqb u 4 then Some [0; 1 # 3; 1]%Q
  else None.
(** a likelihood that decays with the branch length: 1 / (1 + p - t) *)
Definition ex13_pois (_ p t : nat) : Q := 1 # Pos.of_nat (1 + p - t).
Definition ex13_es : list edge := [(3, 4, 3); (2, 4, 2); (1, 3, 1); (0, 3, 0)]%nat.

Lemma C13_example :
  outside_order (map fst (groupby e_child ex13_es)) [] (groupby e_child ex13_es) /\
  option_map (fun mx => map mx (seq 0 5))
    (outside_maximization LinQ ex13_fixed ex13_ins ex13_pois 5 ex13_es) = Some [0; 0; 0; 2; 2]%nat /\
  (* node 3 does not sit at the maximum of its inside values (index 1) *)
  argmax LinQ [0; 1; 2 # 3]%Q = 1%nat.
Proof. split; [apply outside_orderb_spec; reflexivity|]. split; vm_compute; reflexivity. Qed.
