(** Concrete evaluations of the model of discrete.py over exact rationals
    (non-vacuity examples and witnesses). *)
From Coq Require Import List QArith Bool.
From TsdateV Require Import lib.Num model.Discrete proofs.DiscreteBase proofs.DiscreteInside.
Import ListNotations.

(** the linear space over Q; [x ** f] is only ever needed for f = 1 (single trees) *)
Definition LinQ : Space := LinSpace QNum (fun v _ => v).

(** *** C13: a 3-leaf caterpillar, nodes 3 = (0,1), 4 = (3,2), three timepoints *)
Definition ex13_fixed (u : nat) : bool := Nat.ltb u 3.
Definition ex13_ins (u : nat) : option (list Q) :=
  if Nat.eqb u 3 then Some [0; 1; 2 # 3]%Q
  else if Nat.eqb u 4 then Some [0; 1 # 3; 1]%Q
  else None.
(** a likelihood that decays with the branch length: 1 / (1 + p - t) *)
Definition ex13_pois (_ p t : nat) : Q := 1 # Pos.of_nat (1 + p - t).
Definition ex13_es : list edge := [(3, 4, 3); (2, 4, 2); (1, 3, 1); (0, 3, 0)]%nat.

Lemma C13_example :
  outside_order (map fst (groupby e_child ex13_es)) [] (groupby e_child ex13_es) /\
  option_map (fun mx => map mx (seq 0 5))
    (outside_maximization LinQ ex13_fixed ex13_ins ex13_pois 5 ex13_es) = Some [0; 0; 0; 2; 2]%nat /\
  (* node 3 does not sit at the maximum of its inside values (index 1) *)
  argmax LinQ [0; 1; 2 # 3]%Q = 1%nat.
Proof. split; [apply outside_orderb_spec; reflexivity|]. split; vm_compute; reflexivity. Qed.

(** *** C10: the same caterpillar, inside + outside over exact rationals against the
    explicit double sum over both internal nodes *)
Definition ex10_lik (e i j : nat) : Q := 1 # Pos.of_nat (1 + e + i - j).
Definition ex10_prior (u : nat) : list Q :=
  if Nat.eqb u 3 then [0; 1 # 2; 1 # 3]%Q else if Nat.eqb u 4 then [0; 1 # 4; 1 # 5]%Q else [].
Definition ex10_es : list edge := [(0, 3, 0); (1, 3, 1); (2, 4, 2); (3, 4, 3)]%nat.
Definition ex10_es_out : list edge := [(3, 4, 3); (2, 4, 2); (1, 3, 1); (0, 3, 0)]%nat.
Definition ex10_roots : list (nat * Q) := [(4%nat, 1%Q)].
Definition sumQ (l : list Q) : Q := fold_right (fun x acc => Qred (x + acc)) 0%Q l.
Definition pr10 (u i : nat) : Q := nth i (ex10_prior u) 0%Q.
(** weight of the assignment (node 4 at index i, node 3 at index j <= i) *)
Definition ex10_w (i j : nat) : Q :=
  Qred (pr10 4 i * pr10 3 j * ex10_lik 3 i j * ex10_lik 2 i 0 * ex10_lik 0 j 0 * ex10_lik 1 j 0).
Definition ex10_Z : Q := sumQ (map (fun i => sumQ (map (fun j => ex10_w i j) (seq 0 (i + 1)))) (seq 0 3)).
(** brute-force marginals of node 3 (index j) and node 4 (index i) *)
Definition ex10_m3 (j : nat) : Q := Qred (sumQ (map (fun i => if Nat.leb j i then ex10_w i j else 0%Q) (seq 0 3)) / ex10_Z).
Definition ex10_m4 (i : nat) : Q := Qred (sumQ (map (fun j => ex10_w i j) (seq 0 (i + 1))) / ex10_Z).

Definition ex10_run :=
  match inside_pass LinQ 3 ex10_lik (fun _ => 1%Q) ex13_fixed ex10_prior true ex10_es ex10_roots with
  | None => None
  | Some (st, m) =>
      match outside_pass LinQ 3 ex10_lik (fun _ => 1%Q) ex13_fixed st false false false 5 0%Q
              ex10_es_out ex10_roots [3; 4]%nat with
      | None => None
      | Some out =>
          let norm v := map (fun x => Qred (x / sumQ v)) v in
          Some (m, option_map norm (posterior_grid LinQ st out 3), option_map norm (posterior_grid LinQ st out 4))
      end
  end.

Lemma C10_example :
  inside_orderb ex13_fixed [] (groupby e_parent ex10_es) = true /\
  outside_orderb (map fst (groupby e_child ex10_es_out)) [] (groupby e_child ex10_es_out) = true /\
  ex10_run = Some (ex10_Z, Some (map ex10_m3 (seq 0 3)), Some (map ex10_m4 (seq 0 3))) /\
  Qlt 0 ex10_Z.
Proof. split; [reflexivity|]. split; [reflexivity|]. split; vm_compute; reflexivity. Qed.

(** *** C11: a balanced 4-leaf tree; the two cherries can be visited in either order *)
Definition ex11_fixed (u : nat) : bool := Nat.ltb u 4.
Definition ex11_prior (u : nat) : list Q :=
  if Nat.eqb u 4 then [0; 1 # 2; 1 # 3]%Q else if Nat.eqb u 5 then [0; 1 # 4; 1 # 5]%Q
  else if Nat.eqb u 6 then [0; 1 # 6; 1 # 7]%Q else [].
Definition ex11_g4 : nat * list edge := (4, [(0, 4, 0); (1, 4, 1)])%nat.
Definition ex11_g5 : nat * list edge := (5, [(2, 5, 2); (3, 5, 3)])%nat.
Definition ex11_g6 : nat * list edge := (6, [(4, 6, 4); (5, 6, 5)])%nat.
Definition ex11_run (gs : list (nat * list edge)) :=
  option_map (fun st => (dump 7 (i_ins LinQ st), i_marg LinQ st))
    (inside_groups LinQ 3 ex10_lik (fun _ => 1%Q) ex11_fixed ex11_prior true (istate0 LinQ) gs).

Lemma C11_example :
  inside_order ex11_fixed [] [ex11_g4; ex11_g5; ex11_g6] /\
  inside_order ex11_fixed [] [ex11_g5; ex11_g4; ex11_g6] /\
  ex11_run [ex11_g4; ex11_g5; ex11_g6] = ex11_run [ex11_g5; ex11_g4; ex11_g6] /\
  ex11_run [ex11_g4; ex11_g5; ex11_g6] <> None.
Proof. split; [apply inside_orderb_spec; reflexivity|]. split; [apply inside_orderb_spec; reflexivity|].
  split; [vm_compute; reflexivity|vm_compute; discriminate]. Qed.

(** *** C38: a 4-leaf caterpillar 4 = (0,1), M = (4,2), R = (M,3).  Numbering A gives the
    root R the highest id (M = 5, R = 6); numbering B swaps the two (M = 6, R = 5), so the
    highest id belongs to the middle node, which is not a root. *)
Definition ex38_fixed (u : nat) : bool := Nat.ltb u 4.
Definition ex38_pr4 : list Q := [0; 1 # 2; 1 # 3]%Q.
Definition ex38_prM : list Q := [0; 1 # 4; 1 # 5]%Q.
Definition ex38_prR : list Q := [0; 1 # 6; 1 # 7]%Q.
Definition ex38_priorA (u : nat) : list Q :=
  if Nat.eqb u 4 then ex38_pr4 else if Nat.eqb u 5 then ex38_prM else if Nat.eqb u 6 then ex38_prR else [].
Definition ex38_priorB (u : nat) : list Q :=
  if Nat.eqb u 4 then ex38_pr4 else if Nat.eqb u 6 then ex38_prM else if Nat.eqb u 5 then ex38_prR else [].
(** edge ids are the same in both numberings (edges sorted by parent time) *)
Definition ex38_esA : list edge := [(0, 4, 0); (1, 4, 1); (2, 5, 2); (3, 5, 4); (4, 6, 3); (5, 6, 5)]%nat.
Definition ex38_esB : list edge := [(0, 4, 0); (1, 4, 1); (2, 6, 2); (3, 6, 4); (4, 5, 3); (5, 5, 6)]%nat.
Definition ex38_outA : list edge := [(5, 6, 5); (3, 5, 4); (4, 6, 3); (2, 5, 2); (1, 4, 1); (0, 4, 0)]%nat.
Definition ex38_outB : list edge := [(5, 5, 6); (3, 6, 4); (4, 5, 3); (2, 6, 2); (1, 4, 1); (0, 4, 0)]%nat.

(** normalised posterior of node [u] with ignore_oldest_root = [ign] *)
Definition ex38_post (prior : nat -> list Q) (es es_out : list edge) (root : nat) (ign : bool) (u : nat)
  : option (list Q) :=
  match inside_pass LinQ 3 ex10_lik (fun _ => 1%Q) ex38_fixed prior true es [(root, 1%Q)] with
  | None => None
  | Some (st, _) =>
      match outside_pass LinQ 3 ex10_lik (fun _ => 1%Q) ex38_fixed st false false ign 7 0%Q
              es_out [(root, 1%Q)] [4; 5; 6]%nat with
      | None => None
      | Some out => option_map (fun v => map (fun x => Qred (x / sumQ v)) v) (posterior_grid LinQ st out u)
      end
  end.

Lemma C38_witness :
  (* both numberings are valid inputs in the order the code visits them *)
  inside_orderb ex38_fixed [] (groupby e_parent ex38_esA) = true /\
  inside_orderb ex38_fixed [] (groupby e_parent ex38_esB) = true /\
  outside_orderb (map fst (groupby e_child ex38_outA)) [] (groupby e_child ex38_outA) = true /\
  outside_orderb (map fst (groupby e_child ex38_outB)) [] (groupby e_child ex38_outB) = true /\
  (* without the option the renumbering changes nothing (node 4 keeps its id) *)
  ex38_post ex38_priorA ex38_esA ex38_outA 6 false 4 = ex38_post ex38_priorB ex38_esB ex38_outB 5 false 4 /\
  ex38_post ex38_priorA ex38_esA ex38_outA 6 false 4 <> None /\
  (* with ignore_oldest_root the posterior of node 4 depends on the numbering *)
  ex38_post ex38_priorA ex38_esA ex38_outA 6 true 4 <> ex38_post ex38_priorB ex38_esB ex38_outB 5 true 4 /\
  (* in numbering B the option changes nothing for the child of the root (the middle node 6): the
     message from the oldest root 5 is NOT ignored *)
  ex38_post ex38_priorB ex38_esB ex38_outB 5 true 6 = ex38_post ex38_priorB ex38_esB ex38_outB 5 false 6.
Proof. repeat split; try reflexivity; vm_compute; try reflexivity; discriminate. Qed.

Lemma C38_option_matters :
  ex38_post ex38_priorA ex38_esA ex38_outA 6 true 5 <> ex38_post ex38_priorA ex38_esA ex38_outA 6 false 5.
Proof. vm_compute. discriminate. Qed.
