(** Concrete evaluations of the model of discrete.py over exact rationals
    (non-vacuity examples and witnesses). *)
From Coq Require Import List QArith Bool.
From TsdateV Require Import lib.Num model.Discrete proofs.DiscreteBase.
Import ListNotations.

(** the linear space over Q; [x ** f] is only ever needed for f = 1 (single trees) *)
Definition LinQ : Space := LinSpace QNum (fun v _ => v).

(** *** C13: a 3-leaf caterpillar, nodes 3 = (0,1), 4 = (3,2), three timepoints *)
Definition ex13_fixed (u : nat) : bool := Nat.ltb u 3.
Definition ex13_ins (u : nat) : option (list Q) :=
  if Nat.eqb u 3 then Some [0; 1; 2 # 3]%Q
  else if Nat.eqb u 4 then Some [0; 1 # 3; 1]%Q
  else None.
(** a likelihood that decays with the branch length: 1 / (1 + p - t) *)
Definition ex13_pois (_ p t : nat) : Q := 1 # Pos.of_nat (1 + p - t).
Definition ex13_es : list edge := [(3, 4, 3); (2, 4, 2); (1, 3, 1); (0, 3, 0)]%nat.

Lemma C13_example :
  outside_order (map fst (groupby e_child ex13_es)) [] (groupby e_child ex13_es) /\
  option_map (fun mx => map mx (seq 0 5))
    (outside_maximization LinQ ex13_fixed ex13_ins ex13_pois 5 ex13_es) = Some [0; 0; 0; 2; 2]%nat /\
  (* node 3 does not sit at the maximum of its inside values (index 1) *)
  argmax LinQ [0; 1; 2 # 3]%Q = 1%nat.
Proof. split; [apply outside_orderb_spec; reflexivity|]. split; vm_compute; reflexivity. Qed.

(** *** C10: the same caterpillar, inside + outside over exact rationals against the
    explicit double sum over both internal nodes *)
Definition ex10_lik (e i j : nat) : Q := 1 # Pos.of_nat (1 + e + i - j).
Definition ex10_prior (u : nat) : list Q :=
  if Nat.eqb u 3 then [0; 1 # 2; 1 # 3]%Q else if Nat.eqb u 4 then [0; 1 # 4; 1 # 5]%Q else [].
Definition ex10_es : list edge := [(0, 3, 0); (1, 3, 1); (2, 4, 2); (3, 4, 3)]%nat.
Definition ex10_es_out : list edge := [(3, 4, 3); (2, 4, 2); (1, 3, 1); (0, 3, 0)]%nat.
Definition ex10_roots : list (nat * Q) := [(4%nat, 1%Q)].
Definition sumQ (l : list Q) : Q := fold_right (fun x acc => Qred (x + acc)) 0%Q l.
Definition pr10 (u i : nat) : Q := nth i (ex10_prior u) 0%Q.
(** weight of the assignment (node 4 at index i, node 3 at index j <= i) *)
Definition ex10_w (i j : nat) : Q :=
  Qred (pr10 4 i * pr10 3 j * ex10_lik 3 i j * ex10_lik 2 i 0 * ex10_lik 0 j 0 * ex10_lik 1 j 0).
Definition ex10_Z : Q := sumQ (map (fun i => sumQ (map (fun j => ex10_w i j) (seq 0 (i + 1)))) (seq 0 3)).
(** brute-force marginals of node 3 (index j) and node 4 (index i) *)
Definition ex10_m3 (j : nat) : Q := Qred (sumQ (map (fun i => if Nat.leb j i then ex10_w i j else 0%Q) (seq 0 3)) / ex10_Z).
Definition ex10_m4 (i : nat) : Q := Qred (sumQ (map (fun j => ex10_w i j) (seq 0 (i + 1))) / ex10_Z).

Definition ex10_run :=
  match inside_pass LinQ 3 ex10_lik (fun _ => 1%Q) ex13_fixed ex10_prior true ex10_es ex10_roots with
  | None => None
  | Some (st, m) =>
      match outside_pass LinQ 3 ex10_lik (fun _ => 1%Q) ex13_fixed st false false false 5 0%Q
              ex10_es_out ex10_roots [3; 4]%nat with
      | None => None
      | Some out =>
          let norm v := map (fun x => Qred (x / sumQ v)) v in
          Some (m, option_map norm (posterior_grid LinQ st out 3), option_map norm (posterior_grid LinQ st out 4))
      end
  end.

Lemma C10_example :
  inside_orderb ex13_fixed [] (groupby e_parent ex10_es) = true /\
  outside_orderb (map fst (groupby e_child ex10_es_out)) [] (groupby e_child ex10_es_out) = true /\
  ex10_run = Some (ex10_Z, Some (map ex10_m3 (seq 0 3)), Some (map ex10_m4 (seq 0 3))) /\
  Qlt 0 ex10_Z.
Proof. split; [reflexivity|]. split; [reflexivity|]. split; vm_compute; reflexivity. Qed.
