(** * Exactness of inside x outside for EVERY internal node of a single tree (C10),
    linear space over the reals, zeros in priors and likelihoods allowed.

    [find_sub t O v] walks from the root of [t] to the node [v] and returns the subtree at
    [v] together with the ideal outside function at [v], given the outside function [O] at
    the root: O_child(j) = sum_{r >= j} O(r) prior_parent(r) prod_{siblings} M(r) lik(r, j).
    (A) ideal identity: sum_r O(r) U'_t(r) = O_v(i) U_v(i), where U' is U for the prior
        restricted at [v] to index [i] (the brute-force numerator of "v sits at i");
    (B) the code: outside_v(j) U_v(j) = kappa O_v(j) U_v(j) for one constant kappa -- where a
        message is 0 the code's 0/0 := 0 differs from the ideal value only at indices whose
        inside value is 0, so the product (the posterior) is unaffected. *)
From Coq Require Import List Arith Bool Lia Reals Lra Permutation.
From TsdateV Require Import lib.Num model.Discrete proofs.DiscreteBase proofs.DiscretePack
  proofs.DiscreteInside proofs.DiscreteOutside proofs.DiscreteLog proofs.DiscreteTree proofs.DiscreteBrute.
Import ListNotations.
Open Scope R_scope.

(** ** sums over the grid *)
Lemma sumR_zero {A} (l : list A) : sumR (map (fun _ => 0) l) = 0.
Proof. induction l as [|x l IH]; unfold sumR in *; cbn [map fold_right]; [reflexivity|]. rewrite IH. lra. Qed.

Lemma sumR_plus {A} (f g : A -> R) l : sumR (map (fun x => f x + g x) l) = sumR (map f l) + sumR (map g l).
Proof. induction l as [|x l IH]; unfold sumR in *; cbn [map fold_right]; [lra|]. rewrite IH. lra. Qed.

Lemma sumR_swap {A B} (F : A -> B -> R) (l1 : list A) (l2 : list B) :
  sumR (map (fun a => sumR (map (fun b => F a b) l2)) l1) = sumR (map (fun b => sumR (map (fun a => F a b) l1)) l2).
Proof. induction l1 as [|a l1 IH]; cbn [map].
  - unfold sumR at 1. cbn [fold_right]. now rewrite sumR_zero.
  - unfold sumR at 1. cbn [fold_right]. fold (sumR (map (fun a0 => sumR (map (fun b => F a0 b) l2)) l1)). rewrite IH.
    rewrite <- sumR_plus. apply sumR_map_ext. intros b _. reflexivity. Qed.

(** sum over [j, n) as a sum over [0, n) with an indicator *)
Lemma sum_indicator_ge (f : nat -> R) n j : (j <= n)%nat ->
  sumR (map (fun r => if Nat.leb j r then f r else 0) (seq 0 n)) = sumR (map f (seq j (n - j))).
Proof. intro Hj. replace n with (j + (n - j))%nat at 1 by lia. rewrite seq_app, map_app, sumR_app. cbn [Nat.add].
  rewrite (sumR_map_ext _ (fun _ => 0) (seq 0 j)).
  - rewrite sumR_zero. rewrite (sumR_map_ext _ f (seq j (n - j))); [lra|].
    intros r Hr. apply in_seq in Hr. destruct (Nat.leb_spec j r); [reflexivity|lia].
  - intros r Hr. apply in_seq in Hr. destruct (Nat.leb_spec j r); [lia|reflexivity]. Qed.

(** sum_{r < n} sum_{j <= r} f r j = sum_{j < n} sum_{r = j}^{n-1} f r j *)
Lemma sum_swap_tri (f : nat -> nat -> R) n :
  sumR (map (fun r => sumR (map (fun j => f r j) (seq 0 (r + 1)))) (seq 0 n))
  = sumR (map (fun j => sumR (map (fun r => f r j) (seq j (n - j)))) (seq 0 n)).
Proof.
  rewrite (sumR_map_ext _ (fun r => sumR (map (fun j => if Nat.leb j r then f r j else 0) (seq 0 n))) (seq 0 n)).
  - rewrite sumR_swap. apply sumR_map_ext. intros j Hj. apply in_seq in Hj.
    apply (sum_indicator_ge (fun r => f r j)). lia.
  - intros r Hr. apply in_seq in Hr. symmetry. apply (sum_indicator n (fun j => f r j)). lia. Qed.

Lemma sumR_indicator_eq (f : nat -> R) n i : (i < n)%nat ->
  sumR (map (fun r => if Nat.eqb r i then f r else 0) (seq 0 n)) = f i.
Proof. intro Hi. replace n with (i + (1 + (n - i - 1)))%nat by lia. rewrite !seq_app, !map_app, !sumR_app.
  cbn [seq map Nat.add]. rewrite Nat.eqb_refl.
  rewrite (sumR_map_ext _ (fun _ => 0) (seq 0 i)).
  - rewrite (sumR_map_ext _ (fun _ => 0) (seq (i + 1) _)).
    + rewrite !sumR_zero. unfold sumR. cbn. lra.
    + intros r Hr. apply in_seq in Hr. destruct (Nat.eqb_spec r i); [lia|reflexivity].
  - intros r Hr. apply in_seq in Hr. destruct (Nat.eqb_spec r i); [lia|reflexivity]. Qed.

Lemma sumR_nonneg_zero {A} (f : A -> R) l : (forall x, In x l -> 0 <= f x) -> sumR (map f l) = 0 ->
  forall x, In x l -> f x = 0.
Proof. induction l as [|y l IH]; intros Hn Hs x []; unfold sumR in *; cbn [map fold_right] in Hs.
  - subst. assert (0 <= f x) by (apply Hn; now left).
    assert (0 <= fold_right Rplus 0 (map f l)).
    { apply (sumR_nonneg (map f l)). intros z Hz. apply in_map_iff in Hz. destruct Hz as (w & <- & Hw). apply Hn. now right. }
    lra.
  - apply IH; [intros; apply Hn; now right| |assumption].
    assert (0 <= f y) by (apply Hn; now left).
    assert (0 <= fold_right Rplus 0 (map f l)).
    { apply (sumR_nonneg (map f l)). intros z Hz. apply in_map_iff in Hz. destruct Hz as (w & <- & Hw). apply Hn. now right. }
    lra. Qed.

(** the first child (with its siblings) on which [f] succeeds *)
Definition first_child {A} (f : list tree -> tree -> option A) : list tree -> list tree -> option A :=
  fix go (before after : list tree) : option A :=
    match after with
    | [] => None
    | c :: rest => match f (before ++ rest) c with
                   | Some r => Some r
                   | None => go (before ++ [c]) rest
                   end
    end.

Section Post.
  Variable G : nat.
  Variable lik : nat -> nat -> nat -> R.
  Hypothesis lik_nonneg : forall e i j, 0 <= lik e i j.

  (** ** (A) the ideal identity *)
  Section Ideal.
    Variable priorv : nat -> list R.
    Hypothesis prior_nonneg : forall u x, In x (priorv u) -> 0 <= x.
    Notation pr := (pr priorv).
    Notation U := (U lik priorv).
    Notation M := (M lik priorv).

    (** ideal outside function of child [c] of [u], given [O] at [u] and the siblings [sibs] *)
    Definition Odown (u : nat) (O : nat -> R) (sibs : list tree) (c : tree) (j : nat) : R :=
      sumR (map (fun r => O r * pr u r * prodR (map (fun s => M s r) sibs) * lik (t_eid c) r j) (seq j (G - j))).

    Fixpoint find_sub (t : tree) (O : nat -> R) (v : nat) {struct t} : option (tree * (nat -> R)) :=
      match t with
      | Leaf _ _ => None
      | Node e u cs =>
          if Nat.eqb u v then Some (t, O)
          else first_child (fun sibs c => find_sub c (Odown u O sibs c) v) [] cs
      end.

    Lemma first_child_spec {A} (f : list tree -> tree -> option A) : forall after before r,
      first_child f before after = Some r ->
      exists b c a, before ++ after = b ++ c :: a /\ f (b ++ a) c = Some r.
    Proof. induction after as [|c rest IH]; intros before r H; cbn [first_child] in H; [discriminate|].
      destruct (f (before ++ rest) c) as [r'|] eqn:E.
      - inversion H; subst. exists before, c, rest. auto.
      - destruct (IH _ _ H) as (b & c' & a & Hsplit & Hf). exists b, c', a. split; [|exact Hf].
        rewrite <- Hsplit. now rewrite <- app_assoc. Qed.

    Lemma find_sub_in : forall t O v s Ov, find_sub t O v = Some (s, Ov) ->
      In v (inodes t) /\ t_id s = v /\ exists e cs, s = Node e v cs.
    Proof. induction t as [e u|e u cs IH] using tree_ind'; intros O v s Ov H; cbn [find_sub] in H; [discriminate|].
      destruct (Nat.eqb_spec u v) as [->|Hne].
      - inversion H; subst. cbn [inodes t_id]. split; [now left|]. split; [reflexivity|eauto].
      - destruct (first_child_spec _ _ _ _ H) as (b & c & a & Hsplit & Hf). cbn [app] in Hsplit.
        rewrite Forall_forall in IH. assert (Hc : In c cs) by (rewrite Hsplit; apply in_or_app; right; now left).
        destruct (IH c Hc _ _ _ _ Hf) as (Hin & Hid & Hs). split; [|split; assumption].
        cbn [inodes]. right. apply in_flat_map. exists c. auto. Qed.
  End Ideal.

  (** the prior with node [v] pinned to index [i] *)
  Definition restrict (priorv : nat -> list R) (v i : nat) : nat -> list R :=
    fun u => if Nat.eqb u v
             then map (fun k => if Nat.eqb k i then nth k (priorv u) 0 else 0) (seq 0 (length (priorv u)))
             else priorv u.

  Lemma pr_restrict_other priorv v i u k : u <> v -> pr (restrict priorv v i) u k = pr priorv u k.
  Proof. intro H. unfold pr, restrict. destruct (Nat.eqb_spec u v); [contradiction|reflexivity]. Qed.

  Lemma pr_restrict_same priorv v i k : pr (restrict priorv v i) v k = if Nat.eqb k i then pr priorv v k else 0.
  Proof. unfold pr, restrict. rewrite Nat.eqb_refl. destruct (Nat.lt_ge_cases k (length (priorv v))) as [H|H].
    - rewrite nth_map_seq by exact H. reflexivity.
    - rewrite nth_overflow by (now rewrite map_length, seq_length). rewrite nth_overflow by exact H.
      now destruct (Nat.eqb k i). Qed.

  Lemma restrict_nonneg priorv v i : (forall u x, In x (priorv u) -> 0 <= x) ->
    forall u x, In x (restrict priorv v i u) -> 0 <= x.
  Proof. intros Hp u x. unfold restrict. destruct (Nat.eqb u v); [|apply Hp].
    intro H. apply in_map_iff in H. destruct H as (k & <- & Hk). apply in_seq in Hk.
    destruct (Nat.eqb k i); [|lra]. apply (Hp u). apply nth_In. lia. Qed.

  Lemma U_node p e u cs r : U lik p (Node e u cs) r = pr p u r * prodR (map (fun c => M lik p c r) cs).
  Proof. reflexivity. Qed.
  Lemma M_node p e u cs r :
    M lik p (Node e u cs) r = sumR (map (fun j => U lik p (Node e u cs) j * lik e r j) (seq 0 (r + 1))).
  Proof. reflexivity. Qed.

  (** U only looks at the priors of the internal nodes of the tree *)
  Lemma U_ext p1 p2 : forall t, (forall u, In u (inodes t) -> p1 u = p2 u) -> forall i, U lik p1 t i = U lik p2 t i.
  Proof. induction t as [e u|e u cs IH] using tree_ind'; intros H i; cbn [U]; [reflexivity|].
    unfold pr. rewrite (H u) by (cbn [inodes]; now left). f_equal. f_equal. apply map_ext_in. intros c Hc.
    rewrite Forall_forall in IH.
    assert (Hsub : forall w, In w (inodes c) -> p1 w = p2 w).
    { intros w Hw. apply H. cbn [inodes]. right. apply in_flat_map. exists c. auto. }
    destruct c as [e' u'|e' u' cs']; cbn [msgR]; [reflexivity|].
    apply sumR_map_ext. intros j _. now rewrite (IH _ Hc Hsub). Qed.

  Lemma M_ext p1 p2 c : (forall u, In u (inodes c) -> p1 u = p2 u) -> forall i, M lik p1 c i = M lik p2 c i.
  Proof. intros H i. unfold M. destruct c as [e' u'|e' u' cs']; cbn [msgR]; [reflexivity|].
    apply sumR_map_ext. intros j _. now rewrite (U_ext p1 p2 _ H). Qed.

  Lemma NoDup_app_inv {A} (l1 l2 : list A) : NoDup (l1 ++ l2) ->
    NoDup l1 /\ NoDup l2 /\ (forall x, In x l1 -> ~ In x l2).
  Proof. induction l1 as [|x l1 IH]; cbn [app]; intro H.
    - split; [constructor|]. split; [exact H|]. intros ? [].
    - inversion H as [|? ? Hn Hnd]; subst. destruct (IH Hnd) as (H1 & H2 & H3). split; [|split; [exact H2|]].
      + constructor; [|exact H1]. intro Hin. apply Hn. apply in_or_app. now left.
      + intros y [<-|Hy]; [|now apply H3]. intro Hin. apply Hn. apply in_or_app. now right. Qed.

  (** in a tree with distinct internal nodes, the node [v] of child [c] occurs in no sibling *)
  Lemma siblings_disjoint b c a v :
    NoDup (flat_map inodes (b ++ c :: a)) -> In v (inodes c) ->
    NoDup (inodes c) /\ forall x, In x (b ++ a) -> ~ In v (inodes x).
  Proof. rewrite flat_map_app. cbn [flat_map]. intros Hnd Hv.
    destruct (NoDup_app_inv _ _ Hnd) as (_ & Hca & Hdis1).
    destruct (NoDup_app_inv _ _ Hca) as (Hc & _ & Hdis2).
    split; [exact Hc|]. intros x Hx Hin. apply in_app_or in Hx. destruct Hx as [Hx|Hx].
    - apply (Hdis1 v); [apply in_flat_map; eauto|apply in_or_app; now left].
    - apply (Hdis2 v Hv). apply in_flat_map. eauto. Qed.

  (** (A): the brute-force numerator of "v at index i", weighted by O at the root *)
  Theorem ideal_identity priorv : forall t O v s Ov i,
    NoDup (inodes t) -> find_sub priorv t O v = Some (s, Ov) -> (i < G)%nat ->
    sumR (map (fun r => O r * U lik (restrict priorv v i) t r) (seq 0 G)) = Ov i * U lik priorv s i.
  Proof. induction t as [e u|e u cs IH] using tree_ind'; intros O v s Ov i Hnd H Hi; cbn [find_sub] in H; [discriminate|].
    cbn [inodes] in Hnd. inversion Hnd as [|? ? Hu_notin Hnd_cs]; subst.
    destruct (Nat.eqb_spec u v) as [->|Hne].
    - inversion H; subst s Ov; clear H.
      rewrite (sumR_map_ext _ (fun r => if Nat.eqb r i then O r * U lik priorv (Node e v cs) r else 0)).
      + now apply sumR_indicator_eq.
      + intros r _. rewrite !U_node. rewrite pr_restrict_same.
        assert (Hcs : map (fun c => M lik (restrict priorv v i) c r) cs = map (fun c => M lik priorv c r) cs).
        { apply map_ext_in. intros c Hc. apply (M_ext (restrict priorv v i) priorv c).
          intros w Hw. unfold restrict. destruct (Nat.eqb_spec w v) as [->|]; [|reflexivity].
          exfalso. apply Hu_notin. apply in_flat_map. eauto. }
        rewrite Hcs. destruct (Nat.eqb r i); lra.
    - destruct (first_child_spec _ _ _ _ H) as (b & c & a & Hsplit & Hf). cbn [app] in Hsplit. subst cs.
      destruct (find_sub_in priorv c _ v s Ov Hf) as (Hvc & _ & _).
      destruct (siblings_disjoint b c a v Hnd_cs Hvc) as (Hnd_c & Hsib).
      rewrite Forall_forall in IH.
      assert (Hcin : In c (b ++ c :: a)) by (apply in_or_app; right; now left).
      specialize (IH c Hcin (Odown priorv u O (b ++ a) c) v s Ov i Hnd_c Hf Hi). rewrite <- IH.
      destruct c as [e' u'|e' u' cs']; [cbn [find_sub] in Hf; discriminate|].
      (* unfold U' at the root *)
      assert (HU' : forall r, U lik (restrict priorv v i) (Node e u (b ++ Node e' u' cs' :: a)) r
                 = pr priorv u r * prodR (map (fun x => M lik priorv x r) (b ++ a))
                   * sumR (map (fun j => U lik (restrict priorv v i) (Node e' u' cs') j * lik e' r j) (seq 0 (r + 1)))).
      { intro r. rewrite U_node. rewrite pr_restrict_other by exact Hne. rewrite !map_app, !prodR_app. cbn [map].
        unfold prodR at 2. cbn [fold_right]. fold (prodR (map (fun c => M lik (restrict priorv v i) c r) a)).
        assert (Hx : forall l, (forall x, In x l -> ~ In v (inodes x)) ->
                   map (fun c => M lik (restrict priorv v i) c r) l = map (fun x => M lik priorv x r) l).
        { intros l Hl. apply map_ext_in. intros x Hxin. apply (M_ext (restrict priorv v i) priorv x).
          intros w Hw. unfold restrict. destruct (Nat.eqb_spec w v) as [->|]; [|reflexivity]. exfalso. now apply (Hl x Hxin). }
        rewrite (Hx b) by (intros; apply Hsib; apply in_or_app; now left).
        rewrite (Hx a) by (intros; apply Hsib; apply in_or_app; now right).
        rewrite M_node. ring. }
      rewrite (sumR_map_ext _ (fun r => sumR (map (fun j =>
                 (O r * pr priorv u r * prodR (map (fun x => M lik priorv x r) (b ++ a)) * lik e' r j)
                 * U lik (restrict priorv v i) (Node e' u' cs') j) (seq 0 (r + 1)))) (seq 0 G)).
      + rewrite (sum_swap_tri (fun r j => (O r * pr priorv u r * prodR (map (fun x => M lik priorv x r) (b ++ a)) * lik e' r j)
                                          * U lik (restrict priorv v i) (Node e' u' cs') j) G).
        apply sumR_map_ext. intros j _. unfold Odown. cbn [t_eid]. now rewrite sumR_map_scale.
      + intros r _. rewrite HU'.
        set (A := pr priorv u r * prodR (map (fun x => M lik priorv x r) (b ++ a))).
        set (f := fun j => U lik (restrict priorv v i) (Node e' u' cs') j * lik e' r j).
        transitivity ((O r * A) * sumR (map f (seq 0 (r + 1)))); [ring|].
        rewrite <- sumR_scale_l. apply sumR_map_ext. intros j _. unfold f, A. ring. Qed.
End Post.

(** ** (B) the code's outside values along the path to a node *)
Lemma Rinv_nonneg x : 0 <= x -> 0 <= / x.
Proof. intros [H| <-]; [left; now apply Rinv_0_lt_compat|rewrite Rinv_0; lra]. Qed.

Lemma npmax_nonneg (l : list R) : (forall x, In x l -> 0 <= x) -> 0 <= npmax LinR l.
Proof. intro H. destruct l as [|x r]; [cbn; lra|]. apply H. apply npmax_In. discriminate. Qed.

Lemma list_as_map (l : list R) n : length l = n -> l = map (fun k => nth k l 0) (seq 0 n).
Proof. intro H. apply (nth_ext _ _ 0 0); [now rewrite map_length, seq_length|].
  intros k Hk. rewrite nth_map_seq by lia. reflexivity. Qed.

Section Code.
  Variable G : nat.
  Variable lik : nat -> nat -> nat -> R.
  Variable sfrac : nat -> R.
  Variable fixed : nat -> bool.
  Variable priorv : nat -> list R.
  Hypothesis lik_nonneg : forall e i j, 0 <= lik e i j.
  Hypothesis prior_nonneg : forall u x, In x (priorv u) -> 0 <= x.
  Hypothesis sfrac_one : forall e, sfrac e = 1.

  Variable st : istate LinR.
  Variable std : bool.
  Variable num_nodes : nat.
  Variable out : nat -> option (list R).

  Notation U := (U lik priorv).
  Notation M := (M lik priorv).
  Notation Kof := (Kof (i_den LinR st)).
  Notation inside_at := (inside_at G lik priorv (i_ins LinR st) (i_den LinR st)).

  Lemma out_edges_single val0 e val :
    out_edges LinR G lik sfrac fixed st false std false num_nodes out val0 [e] = Some val ->
    fixed (e_parent e) = false /\ exists m, out_edge LinR G lik sfrac st false std out e = Some m /\ val = vcomb LinR val0 m.
  Proof. cbn [out_edges andb]. destruct (fixed (e_parent e)); [discriminate|].
    destruct (out_edge LinR G lik sfrac st false std out e) as [m|]; [|discriminate].
    intro H. inversion H. eauto. Qed.

  (** the code's "inside / g_i" factor for the edge from [t] down to its child [c] *)
  Definition Dfac (t c : tree) (d : R) (r : nat) : R :=
    ratio0 LinR (U t r / Kof t) (M c r / Kof c / d).

  Lemma Dfac_nonneg t c d r : 0 < Kof t -> 0 < Kof c -> 0 < d -> 0 <= Dfac t c d r.
  Proof. intros Ht Hc Hd. unfold Dfac, ratio0. rewrite LinR_isnan. cbn [s_ratio LinR LinSpace div RNum].
    unfold Rdiv. apply Rmult_le_pos.
    - apply Rmult_le_pos; [now apply U_nonneg|apply Rinv_nonneg; lra].
    - apply Rinv_nonneg. repeat apply Rmult_le_pos; try (apply Rinv_nonneg; lra). now apply M_nonneg. Qed.

  (** get_inside on the inside values of an internal node *)
  Lemma get_inside_node e' u' cs' : inside_at (Node e' u' cs') ->
    get_inside LinR G lik (map (s_geom LinR (sfrac e')) (make_lower_tri LinR G
        (map (fun i => U (Node e' u' cs') i / Kof (Node e' u' cs')) (seq 0 G)))) e'
    = map (fun r => M (Node e' u' cs') r / Kof (Node e' u' cs')) (seq 0 G).
  Proof. intros (HK & _). rewrite (get_inside_spec LinR G lik (s_geom LinR (sfrac e'))).
    apply map_ext_in. intros i Hi. apply in_seq in Hi.
    cbn [s_rsum LinR LinSpace]. rewrite lin_rsum_sumR. rewrite M_node.
    unfold Rdiv. rewrite <- sumR_map_scale with (k := / Kof (Node e' u' cs')).
    apply sumR_map_ext. intros j Hj. apply in_seq in Hj.
    cbn [s_geom s_comb s_id s_null LinR LinSpace one mul zero RNum].
    rewrite (nth_map_seq (fun i0 => U (Node e' u' cs') i0 * / Kof (Node e' u' cs'))) by lia. cbn [Nat.add].
    rewrite sfrac_one, Rpowf_1.
    - lra.
    - apply Rmult_le_pos; [now apply U_nonneg|]. left. now apply Rinv_0_lt_compat. Qed.

  Lemma repeat_as_map (x : R) n : repeat x n = map (fun _ => x) (seq 0 n).
  Proof. apply (nth_ext _ _ 0 0); [now rewrite repeat_length, map_length, seq_length|].
    intros k Hk. rewrite repeat_length in Hk. rewrite nth_map_seq by lia.
    rewrite (nth_indep _ 0 x) by (now rewrite repeat_length). apply nth_repeat. Qed.

  Lemma out_finish (F : nat -> R) a1 dd :
    vratio LinR (vcomb LinR (repeat 1 G) (map (fun j => a1 * F j) (seq 0 G))) dd
    = map (fun j => (a1 * / dd) * F j) (seq 0 G).
  Proof. rewrite repeat_as_map, vcomb_maps. unfold vratio. rewrite map_map. apply map_ext. intro j.
    cbn [s_ratio LinR LinSpace div RNum]. unfold Rdiv. ring. Qed.

  Lemma out_step_values e u cs e' u' cs' opv :
    let t := Node e u cs in let c := Node e' u' cs' in
    inside_at t -> inside_at c -> fixed u' = false ->
    out u = Some opv -> length opv = G -> (forall r, (r < G)%nat -> 0 <= nth r opv 0) ->
    group_out_eq LinR G lik sfrac fixed st false std false num_nodes out (u', [(e', u, u')]) ->
    exists d a, 0 < d /\ 0 <= a /\ i_den LinR st u' = Some d /\
      out u' = Some (map (fun j => a * sumR (map (fun r => nth r opv 0 * Dfac t c d r * lik e' r j) (seq j (G - j))))
                         (seq 0 G)).
  Proof. intros t c Hit Hic Hfx Hop Hlen Hnn Heq.
    destruct (Heq Hfx) as (val & d & Hval & Hd & Hok & Hout). cbn [fst snd] in *.
    assert (Hdpos : 0 < d).
    { apply orb_false_elim in Hok. destruct Hok as (Hle & _). now apply LinR_leb_false in Hle. }
    destruct (out_edges_single _ _ _ Hval) as (Hfu & m & Hm & ->).
    destruct Hit as (HKt & Hit). destruct Hic as (HKc & Hic). fold t in HKt, Hit. fold c in HKc, Hic.
    unfold out_edge, g_i in Hm. cbn [e_parent e_child e_id fst snd] in Hm.
    rewrite Hit, Hop, Hd, Hic in Hm.
    pose proof (get_inside_node e' u' cs' (conj HKc Hic)) as Hgi. fold c in Hgi. rewrite Hgi in Hm. clear Hgi.
    (* w = outside[parent] * inside[parent] / g_i *)
    set (w := map (fun r => nth r opv 0 * Dfac t c d r) (seq 0 G)).
    assert (Hw : vcomb LinR opv (vratio0 LinR (map (fun i => U t i / Kof t) (seq 0 G))
                                   (vratio LinR (map (fun r => M c r / Kof c) (seq 0 G)) d)) = w).
    { unfold vratio0, vratio. rewrite map_map, combine_map_map, map_map.
      rewrite (list_as_map opv G Hlen) at 1. rewrite vcomb_maps. reflexivity. }
    rewrite Hw in Hm.
    assert (Hwnn : forall k, 0 <= nth k w 0).
    { intro k. destruct (Nat.lt_ge_cases k G) as [Hk|Hk].
      - unfold w. rewrite nth_map_seq by exact Hk. cbn [Nat.add].
        apply Rmult_le_pos; [now apply Hnn|now apply Dfac_nonneg].
      - rewrite nth_overflow; [lra|]. unfold w. now rewrite map_length, seq_length. }
    set (pv := map (s_geom LinR (sfrac e')) (make_upper_tri LinR G w)) in Hm.
    set (mx := npmax LinR pv) in Hm.
    set (a1 := if std then / mx else 1).
    assert (Ha1 : 0 <= a1).
    { unfold a1. destruct std; [|lra]. apply Rinv_nonneg. unfold mx. apply npmax_nonneg. intros x Hx. unfold pv in Hx.
      apply in_map_iff in Hx. destruct Hx as (y & <- & Hy). unfold make_upper_tri, take in Hy.
      apply in_map_iff in Hy. destruct Hy as (k & <- & _). cbn [s_geom s_null LinR LinSpace zero RNum].
      rewrite sfrac_one, Rpowf_1 by apply Hwnn. apply Hwnn. }
    assert (Hmval : m = map (fun j => a1 * sumR (map (fun r => nth r opv 0 * Dfac t c d r * lik e' r j) (seq j (G - j)))) (seq 0 G)).
    { assert (Hgo : forall h : R -> R, (forall x, 0 <= x -> h x = x * a1) ->
                get_outside LinR G lik (map h (make_upper_tri LinR G w)) e'
                = map (fun j => a1 * sumR (map (fun r => nth r opv 0 * Dfac t c d r * lik e' r j) (seq j (G - j)))) (seq 0 G)).
      { intros h Hh. rewrite (get_outside_spec LinR G lik h). apply map_ext_in. intros j Hj. apply in_seq in Hj.
        cbn [s_rsum LinR LinSpace]. rewrite lin_rsum_sumR. rewrite <- sumR_scale_l. apply sumR_map_ext.
        intros r Hr. apply in_seq in Hr. cbn [s_comb s_id s_null LinR LinSpace one mul zero RNum].
        rewrite Hh by apply Hwnn. unfold w. rewrite nth_map_seq by lia. cbn [Nat.add]. ring. }
      destruct std; inversion Hm as [Hm']; clear Hm.
      - unfold pv, vratio. rewrite map_map. apply Hgo. intros x Hx. cbn [s_geom s_ratio LinR LinSpace div RNum].
        rewrite sfrac_one, Rpowf_1 by exact Hx. unfold a1, Rdiv. reflexivity.
      - unfold pv. apply Hgo. intros x Hx. cbn [s_geom LinR LinSpace]. rewrite sfrac_one, Rpowf_1 by exact Hx. unfold a1. ring. }
    subst m. change (s_id LinR) with 1 in Hout.
    set (dd := if std then npmax LinR (vcomb LinR (repeat 1 G) (map (fun j => a1 * sumR (map (fun r => nth r opv 0 * Dfac t c d r * lik e' r j) (seq j (G - j)))) (seq 0 G))) else d).
    exists d, (a1 * / dd). split; [exact Hdpos|]. split; [|split; [exact Hd|]].
    - apply Rmult_le_pos; [exact Ha1|]. apply Rinv_nonneg. unfold dd. destruct std; [|lra].
      apply npmax_nonneg. intros x Hx. rewrite repeat_as_map, vcomb_maps in Hx. apply in_map_iff in Hx.
      destruct Hx as (j & <- & Hj). apply in_seq in Hj. apply Rmult_le_pos; [lra|]. apply Rmult_le_pos; [exact Ha1|].
      apply sumR_nonneg. intros y Hy. apply in_map_iff in Hy. destruct Hy as (r & <- & Hr). apply in_seq in Hr.
      apply Rmult_le_pos; [|apply lik_nonneg]. apply Rmult_le_pos; [apply Hnn; lia|now apply Dfac_nonneg].
    - rewrite Hout. unfold dd. destruct std; rewrite out_finish; reflexivity. Qed.

  (** the algebraic heart: the invariant "outside x U = kappa x O x U" passes from a node to its child;
      where the child's message is 0 both sides vanish (the code's 0/0 := 0 is harmless) *)
  Lemma out_step_invariant e u b a e' u' cs' opv kappa O d av :
    let c := Node e' u' cs' in let t := Node e u (b ++ c :: a) in
    0 < Kof t -> 0 < Kof c -> 0 < d ->
    (forall r, (r < G)%nat -> nth r opv 0 * U t r = kappa * O r * U t r) ->
    forall j, (j < G)%nat ->
      (av * sumR (map (fun r => nth r opv 0 * Dfac t c d r * lik e' r j) (seq j (G - j)))) * U c j
      = (av * (Kof c * d / Kof t) * kappa) * Odown G lik priorv u O (b ++ a) c j * U c j.
  Proof. intros c t HKt HKc Hd Hinv j Hj. unfold Odown. change (t_eid c) with e'.
    set (gam := Kof c * d / Kof t).
    transitivity (av * sumR (map (fun r => (nth r opv 0 * Dfac t c d r * lik e' r j) * U c j) (seq j (G - j)))).
    { rewrite sumR_map_scale. ring. }
    transitivity (av * sumR (map (fun r => (gam * kappa) * ((O r * pr priorv u r * prodR (map (fun s => M s r) (b ++ a)) * lik e' r j) * U c j))
                                 (seq j (G - j)))).
    2:{ rewrite sumR_scale_l, sumR_map_scale. ring. }
    f_equal. apply sumR_map_ext. intros r Hr. apply in_seq in Hr.
    set (Pr := pr priorv u r * prodR (map (fun s => M s r) (b ++ a))).
    assert (HUt : U t r = Pr * M c r).
    { unfold t. rewrite U_node. rewrite !map_app, !prodR_app. cbn [map]. unfold prodR at 2. cbn [fold_right].
      fold (prodR (map (fun c0 => M c0 r) a)). unfold Pr. rewrite map_app, prodR_app. ring. }
    destruct (Req_EM_T (M c r) 0) as [Hz|Hnz].
    - (* zero message: both sides vanish *)
      assert (Hterm : U c j * lik e' r j = 0).
      { unfold c in Hz. rewrite M_node in Hz. fold c in Hz.
        apply (sumR_nonneg_zero (fun j0 => U c j0 * lik e' r j0) (seq 0 (r + 1))); [|exact Hz|apply in_seq; lia].
        intros x _. apply Rmult_le_pos; [now apply U_nonneg|apply lik_nonneg]. }
      assert (HD : Dfac t c d r = 0).
      { unfold Dfac, ratio0. rewrite LinR_isnan. cbn [s_ratio LinR LinSpace div RNum]. rewrite HUt, Hz. unfold Rdiv. ring. }
      rewrite HD. transitivity (gam * kappa * (O r * Pr) * (U c j * lik e' r j)); [rewrite Hterm; ring|unfold Pr; ring].
    - assert (HD : Dfac t c d r = gam * Pr).
      { unfold Dfac, ratio0. rewrite LinR_isnan. cbn [s_ratio LinR LinSpace div RNum]. rewrite HUt. unfold gam.
        field. repeat split; lra. }
      assert (Hop : nth r opv 0 * Pr = kappa * O r * Pr).
      { apply (Rmult_eq_reg_r (M c r)); [|exact Hnz].
        replace (nth r opv 0 * Pr * M c r) with (nth r opv 0 * U t r) by (rewrite HUt; ring).
        rewrite Hinv by lia. rewrite HUt. ring. }
      rewrite HD. transitivity (gam * (nth r opv 0 * Pr) * lik e' r j * U c j); [ring|]. rewrite Hop. unfold Pr. ring. Qed.

  (** ** the path induction *)
  Variable gso : list (nat * list edge).
  Hypothesis out_eqs : forall g, In g gso ->
    group_out_eq LinR G lik sfrac fixed st false std false num_nodes out g.

  (** every internal node is non-fixed and carries the inside values [U / Kof]; every non-root
      internal node has exactly one parent edge, and that is its group in the outside order *)
  Fixpoint good (t : tree) : Prop :=
    match t with
    | Leaf _ _ => True
    | Node _ u cs =>
        fixed u = false /\ inside_at t /\
        (fix all (l : list tree) : Prop :=
           match l with
           | [] => True
           | c :: r => (match c with Leaf _ _ => True | Node e' u' _ => In (u', [(e', u, u')]) gso end /\ good c) /\ all r
           end) cs
    end.

  Lemma good_children u cs :
    (fix all (l : list tree) : Prop :=
       match l with
       | [] => True
       | c :: r => (match c with Leaf _ _ => True | Node e' u' _ => In (u', [(e', u, u')]) gso end /\ good c) /\ all r
       end) cs ->
    forall c, In c cs -> (match c with Leaf _ _ => True | Node e' u' _ => In (u', [(e', u, u')]) gso end) /\ good c.
  Proof. induction cs as [|x r IH]; intros H c []; [subst; apply H|apply IH; [apply H|assumption]]. Qed.

  Theorem outside_path : forall t O kappa opv v s Ov,
    good t ->
    out (t_id t) = Some opv -> length opv = G -> (forall r, (r < G)%nat -> 0 <= nth r opv 0) ->
    (forall r, (r < G)%nat -> nth r opv 0 * U t r = kappa * O r * U t r) ->
    find_sub G lik priorv t O v = Some (s, Ov) ->
    good s /\ exists kappa' ovv, out v = Some ovv /\ length ovv = G /\
      forall j, (j < G)%nat -> nth j ovv 0 * U s j = kappa' * Ov j * U s j.
  Proof. induction t as [e u|e u cs IH] using tree_ind'; intros O kappa opv v s Ov Hgood Hop Hlen Hnn Hinv Hf;
      cbn [find_sub] in Hf; [discriminate|]. cbn [t_id] in Hop.
    destruct (Nat.eqb_spec u v) as [->|Hne].
    - inversion Hf; subst s Ov. split; [exact Hgood|]. exists kappa, opv. auto.
    - destruct (first_child_spec _ _ _ _ Hf) as (b & c & a & Hsplit & Hfc). cbn [app] in Hsplit. subst cs.
      destruct (find_sub_in G lik priorv c _ v s Ov Hfc) as (_ & _ & _).
      destruct c as [e' u'|e' u' cs']; [cbn [find_sub] in Hfc; discriminate|].
      cbn [good] in Hgood. destruct Hgood as (Hfu & Hit & Hall).
      assert (Hcin : In (Node e' u' cs') (b ++ Node e' u' cs' :: a)) by (apply in_or_app; right; now left).
      destruct (good_children u _ Hall _ Hcin) as (Hg & Hgc).
      assert (Hic : inside_at (Node e' u' cs')) by (cbn [good] in Hgc; apply Hgc).
      assert (Hfc' : fixed u' = false) by (cbn [good] in Hgc; apply Hgc).
      destruct (out_step_values e u (b ++ Node e' u' cs' :: a) e' u' cs' opv Hit Hic Hfc' Hop Hlen Hnn (out_eqs _ Hg))
        as (d & av & Hd & Hav & _ & Hout').
      rewrite Forall_forall in IH.
      match type of Hout' with out u' = Some ?l => set (opv' := l) in * end.
      apply (IH _ Hcin (Odown G lik priorv u O (b ++ a) (Node e' u' cs')) (av * (Kof (Node e' u' cs') * d / Kof (Node e u (b ++ Node e' u' cs' :: a))) * kappa) opv' v s Ov Hgc); unfold opv'.
      + cbn [t_id]. exact Hout'.
      + now rewrite map_length, seq_length.
      + intros r Hr. rewrite nth_map_seq by exact Hr. cbn [Nat.add]. apply Rmult_le_pos; [exact Hav|].
        apply sumR_nonneg. intros y Hy. apply in_map_iff in Hy. destruct Hy as (q & <- & Hq). apply in_seq in Hq.
        apply Rmult_le_pos; [|apply lik_nonneg]. apply Rmult_le_pos; [apply Hnn; lia|].
        apply Dfac_nonneg; [apply Hit|apply Hic|exact Hd].
      + intros j Hj. rewrite nth_map_seq by exact Hj. cbn [Nat.add].
        apply (out_step_invariant e u b a e' u' cs' opv kappa O d av); try assumption; [apply Hit|apply Hic].
      + exact Hfc. Qed.
End Code.

(** [find_sub] finds every internal node *)
Lemma first_child_some {A} (f : list tree -> tree -> option A) : forall after before,
  (exists c, In c after /\ forall sibs, f sibs c <> None) -> first_child f before after <> None.
Proof. induction after as [|x rest IH]; intros before (c & Hc & Hf); [destruct Hc|]. cbn [first_child].
  destruct (f (before ++ rest) x) eqn:E; [discriminate|]. destruct Hc as [->|Hc]; [now apply Hf in E|].
  apply IH. eauto. Qed.

Lemma find_sub_total G lik priorv : forall t O v, In v (inodes t) -> find_sub G lik priorv t O v <> None.
Proof. induction t as [e u|e u cs IH] using tree_ind'; intros O v Hv; [destruct Hv|]. cbn [find_sub].
  destruct (Nat.eqb_spec u v); [discriminate|]. cbn [inodes] in Hv. destruct Hv as [->|Hv]; [congruence|].
  apply in_flat_map in Hv. destruct Hv as (c & Hc & Hvc). apply first_child_some. exists c. split; [exact Hc|].
  intro sibs. rewrite Forall_forall in IH. now apply IH. Qed.

Section Final.
  Variable G : nat.
  Variable lik : nat -> nat -> nat -> R.
  Variable sfrac : nat -> R.
  Variable fixed : nat -> bool.
  Variable priorv : nat -> list R.
  Hypothesis lik_nonneg : forall e i j, 0 <= lik e i j.
  Hypothesis prior_nonneg : forall u x, In x (priorv u) -> 0 <= x.
  Hypothesis sfrac_one : forall e, sfrac e = 1.
  Variable gs gso : list (nat * list edge).

  (** every non-root internal node has exactly one parent edge, which is its group in the outside order *)
  Fixpoint out_ok (t : tree) : Prop :=
    match t with
    | Leaf _ _ => True
    | Node _ u cs =>
        (fix all (l : list tree) : Prop :=
           match l with
           | [] => True
           | c :: r => (match c with Leaf _ _ => True | Node e' u' _ => In (u', [(e', u, u')]) gso end /\ out_ok c) /\ all r
           end) cs
    end.

  Lemma good_of st :
    (forall g, In g gs -> group_eq LinR G lik sfrac fixed priorv true (i_ins LinR st) (i_den LinR st) g) ->
    forall t, tree_ok G fixed priorv gs t -> all_pos G lik priorv t -> out_ok t ->
    good G lik fixed priorv st gso t.
  Proof. intros Heqs. induction t as [e u|e u cs IH] using tree_ind'; intros Hok Hpos Hout; [exact I|].
    cbn [good]. split; [apply Hok|]. split.
    - apply (inside_tree G lik sfrac fixed priorv lik_nonneg prior_nonneg sfrac_one gs _ _ Heqs _ Hok Hpos).
    - cbn [tree_ok] in Hok. destruct Hok as (_ & _ & _ & Hoks). cbn [all_pos] in Hpos. destruct Hpos as (_ & Hposs).
      cbn [out_ok] in Hout. clear -IH Hoks Hposs Hout. induction cs as [|c r IHr]; [exact I|].
      inversion IH; subst. destruct Hoks as (Hc & Hr). destruct Hposs as (Hpc & Hpr). destruct Hout as ((Hg & Hoc) & Hor).
      split; [split; [exact Hg|now apply H1]|now apply IHr]. Qed.
End Final.

(** ** C10: the posterior of EVERY internal node against brute force *)
Theorem posterior_exact : forall (G : nat) lik sfrac fixed priorv es es_out nonfixed std num_nodes root e cs st m out v,
  (forall e i j, 0 <= lik e i j) -> (forall u x, In x (priorv u) -> 0 <= x) -> (forall e, sfrac e = 1) ->
  let gs := groupby e_parent es in
  let gso := groupby e_child es_out in
  let t := Node e root cs in
  inside_order fixed [] gs ->
  inside_pass LinR G lik sfrac fixed priorv true es [(root, 1)] = Some (st, m) ->
  tree_ok G fixed priorv gs t -> all_pos G lik priorv t ->
  outside_order (map fst gso) [] gso -> ~ In root (map fst gso) -> In root nonfixed ->
  outside_pass LinR G lik sfrac fixed st false std false num_nodes 0 es_out [(root, 1)] nonfixed = Some out ->
  out_ok gso t -> NoDup (inodes t) -> In v (inodes t) ->
  exists vec kappa, posterior_grid LinR st out v = Some vec /\ length vec = G /\
    forall i, (i < G)%nat ->
      nth i vec 0 = kappa * sumR (map (wt lik (restrict priorv v i) t) (labelings G t)).
Proof. intros G lik sfrac fixed priorv es es_out nonfixed std num_nodes root e cs st m out v
    Hlik Hpr Hsf gs gso t Hord Hrun Hok Hpos Hoo Hnc Hnf Hout Hook Hnd Hv.
  unfold inside_pass in Hrun. fold gs in Hrun.
  destruct (inside_groups LinR G lik sfrac fixed priorv true (istate0 LinR) gs) as [st0|] eqn:Hg; [|discriminate].
  destruct (inside_groups_spec LinR G lik sfrac fixed priorv true gs [] _ _ Hord Hg) as (_ & Heqs & _).
  assert (Est : st = st0). { destruct (marg_roots LinR (i_ins LinR st0) (i_marg LinR st0) [(root, 1)]); [|discriminate]. congruence. }
  subst st0. clear Hrun.
  unfold outside_pass in Hout. fold gso in Hout.
  destruct (out_groups_spec LinR G lik sfrac fixed st false std false num_nodes (map fst gso) gso [] _ _ Hoo
              (fun g Hg => in_map fst _ g Hg) Hout) as (Hkeep & Houteqs).
  assert (Hor : out root = Some (repeat 1 G)).
  { rewrite (Hkeep root Hnc). unfold out0.
    assert (Hex : existsb (Nat.eqb root) nonfixed = true) by (now apply existsb_eqb_In).
    rewrite Hex. cbn [find fst snd]. rewrite Nat.eqb_refl. reflexivity. }
  pose proof (good_of G lik sfrac fixed priorv Hlik Hpr Hsf gs gso st Heqs t Hok Hpos Hook) as Hgood.
  destruct (find_sub G lik priorv t (fun _ => 1) v) as [[s Ov]|] eqn:Hfs; [|now apply find_sub_total in Hfs].
  destruct (outside_path G lik sfrac fixed priorv Hlik Hpr Hsf st std num_nodes out gso Houteqs
              t (fun _ => 1) 1 (repeat 1 G) v s Ov Hgood Hor (repeat_length _ _)) as (Hgs & kappa' & ovv & Hov & Hlen & Hinv).
  - intros r Hr. rewrite (nth_indep _ 0 1) by (now rewrite repeat_length). rewrite nth_repeat. lra.
  - intros r Hr. rewrite (nth_indep _ 0 1) by (now rewrite repeat_length). rewrite nth_repeat. ring.
  - exact Hfs.
  - destruct (find_sub_in G lik priorv t _ v s Ov Hfs) as (_ & _ & es' & css & ->).
    cbn [good] in Hgs. destruct Hgs as (_ & (HK & Hins) & _).
    set (K := Kof (i_den LinR st) (Node es' v css)) in *.
    exists (vcomb LinR (map (fun i => U lik priorv (Node es' v css) i / K) (seq 0 G)) ovv), (kappa' / K).
    split; [|split].
    + unfold posterior_grid. now rewrite Hins, Hov.
    + rewrite (vcomb_length LinR), map_length, seq_length. toR. rewrite Hlen. apply Nat.min_id.
    + intros i Hi. rewrite (vcomb_nth LinR) by (rewrite ?map_length, ?seq_length; toR; lia).
      rewrite nth_map_seq by exact Hi. cbn [Nat.add s_comb LinR LinSpace mul RNum].
      unfold t. rewrite (Z_is_brute_force G lik (restrict priorv v i)). fold t.
      pose proof (ideal_identity G lik priorv t (fun _ => 1) v _ Ov i Hnd Hfs Hi) as Hid.
      rewrite (sumR_map_ext _ (U lik (restrict priorv v i) t)) in Hid by (intros; ring).
      rewrite Hid. toR. transitivity ((nth i ovv 0 * U lik priorv (Node es' v css) i) / K); [unfold Rdiv; ring|].
      rewrite Hinv by exact Hi. unfold Rdiv. ring. Qed.

(** normalised: whenever the posterior row is not identically zero it is the brute-force marginal *)
Corollary posterior_exact_normalised : forall (G : nat) lik sfrac fixed priorv es es_out nonfixed std num_nodes root e cs st m out v,
  (forall e i j, 0 <= lik e i j) -> (forall u x, In x (priorv u) -> 0 <= x) -> (forall e, sfrac e = 1) ->
  let gs := groupby e_parent es in
  let gso := groupby e_child es_out in
  let t := Node e root cs in
  inside_order fixed [] gs ->
  inside_pass LinR G lik sfrac fixed priorv true es [(root, 1)] = Some (st, m) ->
  tree_ok G fixed priorv gs t -> all_pos G lik priorv t ->
  outside_order (map fst gso) [] gso -> ~ In root (map fst gso) -> In root nonfixed ->
  outside_pass LinR G lik sfrac fixed st false std false num_nodes 0 es_out [(root, 1)] nonfixed = Some out ->
  out_ok gso t -> NoDup (inodes t) -> In v (inodes t) ->
  exists vec, posterior_grid LinR st out v = Some vec /\ length vec = G /\
    (sumR vec <> 0 ->
     forall i, (i < G)%nat ->
       nth i vec 0 / sumR vec
       = sumR (map (wt lik (restrict priorv v i) t) (labelings G t))
         / sumR (map (fun k => sumR (map (wt lik (restrict priorv v k) t) (labelings G t))) (seq 0 G))).
Proof. intros G lik sfrac fixed priorv es es_out nonfixed std num_nodes root e cs st m out v
    Hlik Hpr Hsf gs gso t Hord Hrun Hok Hpos Hoo Hnc Hnf Hout Hook Hnd Hv.
  destruct (posterior_exact G lik sfrac fixed priorv es es_out nonfixed std num_nodes root e cs st m out v
              Hlik Hpr Hsf Hord Hrun Hok Hpos Hoo Hnc Hnf Hout Hook Hnd Hv) as (vec & kappa & Hpg & Hlen & Hval).
  exists vec. split; [exact Hpg|]. split; [exact Hlen|]. intros Hnz i Hi.
  set (N := fun k => sumR (map (wt lik (restrict priorv v k) t) (labelings G t))) in *.
  assert (Hvec : vec = map (fun k => kappa * N k) (seq 0 G)).
  { rewrite (list_as_map vec G Hlen). apply map_ext_in. intros k Hk. apply in_seq in Hk. apply Hval. lia. }
  assert (Hsum : sumR vec = kappa * sumR (map N (seq 0 G))) by (rewrite Hvec; apply sumR_scale_l).
  rewrite Hval by exact Hi. rewrite Hsum. fold (N i).
  assert (kappa <> 0) by (intro E; apply Hnz; rewrite Hsum, E; ring).
  assert (sumR (map N (seq 0 G)) <> 0) by (intro E; apply Hnz; rewrite Hsum, E; ring).
  change (sumR (map (wt lik (restrict priorv v i) (Node e root cs)) (labelings G (Node e root cs)))) with (N i).
  field. split; assumption. Qed.

(** the numerators of one node sum to the normalising constant: sum_k O_v(k) U_v(k) = sum_r O(r) U_t(r) *)
Lemma path_sum_identity G lik priorv : forall t O v s Ov,
  find_sub G lik priorv t O v = Some (s, Ov) ->
  sumR (map (fun k => Ov k * U lik priorv s k) (seq 0 G)) = sumR (map (fun r => O r * U lik priorv t r) (seq 0 G)).
Proof. induction t as [e u|e u cs IH] using tree_ind'; intros O v s Ov H; cbn [find_sub] in H; [discriminate|].
  destruct (Nat.eqb_spec u v) as [->|Hne]; [inversion H; reflexivity|].
  destruct (first_child_spec _ _ _ _ H) as (b & c & a & Hsplit & Hf). cbn [app] in Hsplit. subst cs.
  rewrite Forall_forall in IH.
  assert (Hcin : In c (b ++ c :: a)) by (apply in_or_app; right; now left).
  rewrite (IH c Hcin _ v s Ov Hf).
  destruct c as [e' u'|e' u' cs']; [cbn [find_sub] in Hf; discriminate|].
  symmetry.
  rewrite (sumR_map_ext _ (fun r => sumR (map (fun j =>
             (O r * pr priorv u r * prodR (map (fun x => M lik priorv x r) (b ++ a)) * lik e' r j)
             * U lik priorv (Node e' u' cs') j) (seq 0 (r + 1)))) (seq 0 G)).
  - rewrite (sum_swap_tri (fun r j => (O r * pr priorv u r * prodR (map (fun x => M lik priorv x r) (b ++ a)) * lik e' r j)
                                      * U lik priorv (Node e' u' cs') j) G).
    apply sumR_map_ext. intros j _. unfold Odown. cbn [t_eid]. now rewrite sumR_map_scale.
  - intros r _. rewrite U_node. rewrite !map_app, !prodR_app. cbn [map]. unfold prodR at 2. cbn [fold_right].
    fold (prodR (map (fun c => M lik priorv c r) a)). rewrite M_node.
    set (f := fun j => U lik priorv (Node e' u' cs') j * lik e' r j).
    transitivity ((O r * (pr priorv u r * (prodR (map (fun c => M lik priorv c r) b) * prodR (map (fun c => M lik priorv c r) a))))
                  * sumR (map f (seq 0 (r + 1)))); [ring|].
    rewrite <- sumR_scale_l. apply sumR_map_ext. intros j _. unfold f. ring. Qed.

(** the numerators of node [v] over all indices add up to the normalising constant *)
Lemma numerators_sum_to_Z G lik priorv e u cs v :
  let t := Node e u cs in
  NoDup (inodes t) -> In v (inodes t) ->
  sumR (map (fun k => sumR (map (wt lik (restrict priorv v k) t) (labelings G t))) (seq 0 G))
  = sumR (map (wt lik priorv t) (labelings G t)).
Proof. intros t Hnd Hv. subst t. set (t := Node e u cs) in *.
  destruct (find_sub G lik priorv t (fun _ => 1) v) as [[s Ov]|] eqn:Hfs; [|now apply find_sub_total in Hfs].
  assert (HZ : forall p, sumR (map (wt lik p t) (labelings G t)) = sumR (map (U lik p t) (seq 0 G)))
    by (intro p; apply Z_is_brute_force).
  rewrite HZ.
  rewrite (sumR_map_ext (U lik priorv t) (fun r => 1 * U lik priorv t r)) by (intros; ring).
  rewrite <- (path_sum_identity G lik priorv t (fun _ => 1) v s Ov Hfs).
  apply sumR_map_ext. intros k Hk. apply in_seq in Hk. rewrite HZ.
  rewrite <- (ideal_identity G lik priorv t (fun _ => 1) v s Ov k Hnd Hfs) by lia.
  apply sumR_map_ext. intros; ring. Qed.

(** C10, normalised: whenever the posterior row is not identically zero, it is the exact marginal posterior
    (numerator of "v at index i" over the sum of all assignment weights) *)
Corollary posterior_exact_marginal : forall (G : nat) lik sfrac fixed priorv es es_out nonfixed std num_nodes root e cs st m out v,
  (forall e i j, 0 <= lik e i j) -> (forall u x, In x (priorv u) -> 0 <= x) -> (forall e, sfrac e = 1) ->
  let gs := groupby e_parent es in
  let gso := groupby e_child es_out in
  let t := Node e root cs in
  inside_order fixed [] gs ->
  inside_pass LinR G lik sfrac fixed priorv true es [(root, 1)] = Some (st, m) ->
  tree_ok G fixed priorv gs t -> all_pos G lik priorv t ->
  outside_order (map fst gso) [] gso -> ~ In root (map fst gso) -> In root nonfixed ->
  outside_pass LinR G lik sfrac fixed st false std false num_nodes 0 es_out [(root, 1)] nonfixed = Some out ->
  out_ok gso t -> NoDup (inodes t) -> In v (inodes t) ->
  exists vec, posterior_grid LinR st out v = Some vec /\ length vec = G /\
    (sumR vec <> 0 ->
     forall i, (i < G)%nat ->
       nth i vec 0 / sumR vec
       = sumR (map (wt lik (restrict priorv v i) t) (labelings G t)) / sumR (map (wt lik priorv t) (labelings G t))).
Proof. intros G lik sfrac fixed priorv es es_out nonfixed std num_nodes root e cs st m out v
    Hlik Hpr Hsf gs gso t Hord Hrun Hok Hpos Hoo Hnc Hnf Hout Hook Hnd Hv.
  destruct (posterior_exact_normalised G lik sfrac fixed priorv es es_out nonfixed std num_nodes root e cs st m out v
              Hlik Hpr Hsf Hord Hrun Hok Hpos Hoo Hnc Hnf Hout Hook Hnd Hv) as (vec & Hpg & Hlen & Hn).
  exists vec. split; [exact Hpg|]. split; [exact Hlen|]. intros Hnz i Hi.
  rewrite (Hn Hnz i Hi). unfold t. now rewrite (numerators_sum_to_Z G lik priorv e root cs v Hnd Hv). Qed.

(** the additional hypotheses of the posterior theorems on the worked example *)
Definition ex10R_out : list edge := [(3, 4, 3); (2, 4, 2); (1, 3, 1); (0, 3, 0)]%nat.
Lemma C10_real_example_out :
  outside_order (map fst (groupby e_child ex10R_out)) [] (groupby e_child ex10R_out) /\
  ~ In 4%nat (map fst (groupby e_child ex10R_out)) /\
  out_ok (groupby e_child ex10R_out) ex10R_tree /\ NoDup (inodes ex10R_tree) /\ In 3%nat (inodes ex10R_tree).
Proof. split; [apply outside_orderb_spec; reflexivity|]. split; [cbn; intuition lia|]. split; [cbn; tauto|].
  split; [|cbn; auto]. cbn. constructor; [cbn; intuition lia|]. constructor; [intros []|constructor]. Qed.
