(** * Exactness of inside x outside for EVERY internal node of a single tree (C10),
    linear space over the reals, zeros in priors and likelihoods allowed.

    [find_sub t O v] walks from the root of [t] to the node [v] and returns the subtree at
    [v] together with the ideal outside function at [v], given the outside function [O] at
    the root: O_child(j) = sum_{r >= j} O(r) prior_parent(r) prod_{siblings} M(r) lik(r, j).
    (A) ideal identity: sum_r O(r) U'_t(r) = O_v(i) U_v(i), where U' is U for the prior
        restricted at [v] to index [i] (the brute-force numerator of "v sits at i");
    (B) the code: outside_v(j) U_v(j) = kappa O_v(j) U_v(j) for one constant kappa -- where a
        message is 0 the code's 0/0 := 0 differs from the ideal value only at indices whose
        inside value is 0, so the product (the posterior) is unaffected. *)
From Coq Require Import List Arith Bool Lia Reals Lra Permutation.
From TsdateV Require Import lib.Num model.Discrete proofs.DiscreteBase proofs.DiscretePack
  proofs.DiscreteInside proofs.DiscreteOutside proofs.DiscreteLog proofs.DiscreteTree proofs.DiscreteBrute.
Import ListNotations.
Open Scope R_scope.

(** ** sums over the grid *)
Lemma sumR_zero {A} (l : list A) : sumR (map (fun _ => 0) l) = 0.
Proof. induction l as [|x l IH]; unfold sumR in *; cbn [map fold_right]; [reflexivity|]. rewrite IH. lra. Qed.

Lemma sumR_plus {A} (f g : A -> R) l : sumR (map (fun x => f x + g x) l) = sumR (map f l) + sumR (map g l).
Proof. induction l as [|x l IH]; unfold sumR in *; cbn [map fold_right]; [lra|]. rewrite IH. lra. Qed.

Lemma sumR_swap {A B} (F : A -> B -> R) (l1 : list A) (l2 : list B) :
  sumR (map (fun a => sumR (map (fun b => F a b) l2)) l1) = sumR (map (fun b => sumR (map (fun a => F a b) l1)) l2).
Proof. induction l1 as [|a l1 IH]; cbn [map].
  - unfold sumR at 1. cbn [fold_right]. now rewrite sumR_zero.
  - unfold sumR at 1. cbn [fold_right]. fold (sumR (map (fun a0 => sumR (map (fun b => F a0 b) l2)) l1)). rewrite IH.
    rewrite <- sumR_plus. apply sumR_map_ext. intros b _. reflexivity. Qed.

(** sum over [j, n) as a sum over [0, n) with an indicator *)
Lemma sum_indicator_ge (f : nat -> R) n j : (j <= n)%nat ->
  sumR (map (fun r => if Nat.leb j r then f r else 0) (seq 0 n)) = sumR (map f (seq j (n - j))).
Proof. intro Hj. replace n with (j + (n - j))%nat at 1 by lia. rewrite seq_app, map_app, sumR_app. cbn [Nat.add].
  rewrite (sumR_map_ext _ (fun _ => 0) (seq 0 j)).
  - rewrite sumR_zero. rewrite (sumR_map_ext _ f (seq j (n - j))); [lra|].
    intros r Hr. apply in_seq in Hr. destruct (Nat.leb_spec j r); [reflexivity|lia].
  - intros r Hr. apply in_seq in Hr. destruct (Nat.leb_spec j r); [lia|reflexivity]. Qed.

(** sum_{r < n} sum_{j <= r} f r j = sum_{j < n} sum_{r = j}^{n-1} f r j *)
Lemma sum_swap_tri (f : nat -> nat -> R) n :
  sumR (map (fun r => sumR (map (fun j => f r j) (seq 0 (r + 1)))) (seq 0 n))
  = sumR (map (fun j => sumR (map (fun r => f r j) (seq j (n - j)))) (seq 0 n)).
Proof.
  rewrite (sumR_map_ext _ (fun r => sumR (map (fun j => if Nat.leb j r then f r j else 0) (seq 0 n))) (seq 0 n)).
  - rewrite sumR_swap. apply sumR_map_ext. intros j Hj. apply in_seq in Hj.
    apply (sum_indicator_ge (fun r => f r j)). lia.
  - intros r Hr. apply in_seq in Hr. symmetry. apply (sum_indicator n (fun j => f r j)). lia. Qed.

Lemma sumR_indicator_eq (f : nat -> R) n i : (i < n)%nat ->
  sumR (map (fun r => if Nat.eqb r i then f r else 0) (seq 0 n)) = f i.
Proof. intro Hi. replace n with (i + (1 + (n - i - 1)))%nat by lia. rewrite !seq_app, !map_app, !sumR_app.
  cbn [seq map Nat.add]. rewrite Nat.eqb_refl.
  rewrite (sumR_map_ext _ (fun _ => 0) (seq 0 i)).
  - rewrite (sumR_map_ext _ (fun _ => 0) (seq (i + 1) _)).
    + rewrite !sumR_zero. unfold sumR. cbn. lra.
    + intros r Hr. apply in_seq in Hr. destruct (Nat.eqb_spec r i); [lia|reflexivity].
  - intros r Hr. apply in_seq in Hr. destruct (Nat.eqb_spec r i); [lia|reflexivity]. Qed.

Lemma sumR_nonneg_zero {A} (f : A -> R) l : (forall x, In x l -> 0 <= f x) -> sumR (map f l) = 0 ->
  forall x, In x l -> f x = 0.
Proof. induction l as [|y l IH]; intros Hn Hs x []; unfold sumR in *; cbn [map fold_right] in Hs.
  - subst. assert (0 <= f x) by (apply Hn; now left).
    assert (0 <= fold_right Rplus 0 (map f l)).
    { apply (sumR_nonneg (map f l)). intros z Hz. apply in_map_iff in Hz. destruct Hz as (w & <- & Hw). apply Hn. now right. }
    lra.
  - apply IH; [intros; apply Hn; now right| |assumption].
    assert (0 <= f y) by (apply Hn; now left).
    assert (0 <= fold_right Rplus 0 (map f l)).
    { apply (sumR_nonneg (map f l)). intros z Hz. apply in_map_iff in Hz. destruct Hz as (w & <- & Hw). apply Hn. now right. }
    lra. Qed.

(** the first child (with its siblings) on which [f] succeeds *)
Definition first_child {A} (f : list tree -> tree -> option A) : list tree -> list tree -> option A :=
  fix go (before after : list tree) : option A :=
    match after with
    | [] => None
    | c :: rest => match f (before ++ rest) c with
                   | Some r => Some r
                   | None => go (before ++ [c]) rest
                   end
    end.

Section Post.
  Variable G : nat.
  Variable lik : nat -> nat -> nat -> R.
  Hypothesis lik_nonneg : forall e i j, 0 <= lik e i j.

  (** ** (A) the ideal identity *)
  Section Ideal.
    Variable priorv : nat -> list R.
    Hypothesis prior_nonneg : forall u x, In x (priorv u) -> 0 <= x.
    Notation pr := (pr priorv).
    Notation U := (U lik priorv).
    Notation M := (M lik priorv).

    (** ideal outside function of child [c] of [u], given [O] at [u] and the siblings [sibs] *)
    Definition Odown (u : nat) (O : nat -> R) (sibs : list tree) (c : tree) (j : nat) : R :=
      sumR (map (fun r => O r * pr u r * prodR (map (fun s => M s r) sibs) * lik (t_eid c) r j) (seq j (G - j))).

    Fixpoint find_sub (t : tree) (O : nat -> R) (v : nat) {struct t} : option (tree * (nat -> R)) :=
      match t with
      | Leaf _ _ => None
      | Node e u cs =>
          if Nat.eqb u v then Some (t, O)
          else first_child (fun sibs c => find_sub c (Odown u O sibs c) v) [] cs
      end.

    Lemma first_child_spec {A} (f : list tree -> tree -> option A) : forall after before r,
      first_child f before after = Some r ->
      exists b c a, before ++ after = b ++ c :: a /\ f (b ++ a) c = Some r.
    Proof. induction after as [|c rest IH]; intros before r H; cbn [first_child] in H; [discriminate|].
      destruct (f (before ++ rest) c) as [r'|] eqn:E.
      - inversion H; subst. exists before, c, rest. auto.
      - destruct (IH _ _ H) as (b & c' & a & Hsplit & Hf). exists b, c', a. split; [|exact Hf].
        rewrite <- Hsplit. now rewrite <- app_assoc. Qed.

    Lemma find_sub_in : forall t O v s Ov, find_sub t O v = Some (s, Ov) ->
      In v (inodes t) /\ t_id s = v /\ exists e cs, s = Node e v cs.
    Proof. induction t as [e u|e u cs IH] using tree_ind'; intros O v s Ov H; cbn [find_sub] in H; [discriminate|].
      destruct (Nat.eqb_spec u v) as [->|Hne].
      - inversion H; subst. cbn [inodes t_id]. split; [now left|]. split; [reflexivity|eauto].
      - destruct (first_child_spec _ _ _ _ H) as (b & c & a & Hsplit & Hf). cbn [app] in Hsplit.
        rewrite Forall_forall in IH. assert (Hc : In c cs) by (rewrite Hsplit; apply in_or_app; right; now left).
        destruct (IH c Hc _ _ _ _ Hf) as (Hin & Hid & Hs). split; [|split; assumption].
        cbn [inodes]. right. apply in_flat_map. exists c. auto. Qed.
  End Ideal.

  (** the prior with node [v] pinned to index [i] *)
  Definition restrict (priorv : nat -> list R) (v i : nat) : nat -> list R :=
    fun u => if Nat.eqb u v
             then map (fun k => if Nat.eqb k i then nth k (priorv u) 0 else 0) (seq 0 (length (priorv u)))
             else priorv u.

  Lemma pr_restrict_other priorv v i u k : u <> v -> pr (restrict priorv v i) u k = pr priorv u k.
  Proof. intro H. unfold pr, restrict. destruct (Nat.eqb_spec u v); [contradiction|reflexivity]. Qed.

  Lemma pr_restrict_same priorv v i k : pr (restrict priorv v i) v k = if Nat.eqb k i then pr priorv v k else 0.
  Proof. unfold pr, restrict. rewrite Nat.eqb_refl. destruct (Nat.lt_ge_cases k (length (priorv v))) as [H|H].
    - rewrite nth_map_seq by exact H. reflexivity.
    - rewrite nth_overflow by (now rewrite map_length, seq_length). rewrite nth_overflow by exact H.
      now destruct (Nat.eqb k i). Qed.

  Lemma restrict_nonneg priorv v i : (forall u x, In x (priorv u) -> 0 <= x) ->
    forall u x, In x (restrict priorv v i u) -> 0 <= x.
  Proof. intros Hp u x. unfold restrict. destruct (Nat.eqb u v); [|apply Hp].
    intro H. apply in_map_iff in H. destruct H as (k & <- & Hk). apply in_seq in Hk.
    destruct (Nat.eqb k i); [|lra]. apply (Hp u). apply nth_In. lia. Qed.

  Lemma U_node p e u cs r : U lik p (Node e u cs) r = pr p u r * prodR (map (fun c => M lik p c r) cs).
  Proof. reflexivity. Qed.
  Lemma M_node p e u cs r :
    M lik p (Node e u cs) r = sumR (map (fun j => U lik p (Node e u cs) j * lik e r j) (seq 0 (r + 1))).
  Proof. reflexivity. Qed.

  (** U only looks at the priors of the internal nodes of the tree *)
  Lemma U_ext p1 p2 : forall t, (forall u, In u (inodes t) -> p1 u = p2 u) -> forall i, U lik p1 t i = U lik p2 t i.
  Proof. induction t as [e u|e u cs IH] using tree_ind'; intros H i; cbn [U]; [reflexivity|].
    unfold pr. rewrite (H u) by (cbn [inodes]; now left). f_equal. f_equal. apply map_ext_in. intros c Hc.
    rewrite Forall_forall in IH.
    assert (Hsub : forall w, In w (inodes c) -> p1 w = p2 w).
    { intros w Hw. apply H. cbn [inodes]. right. apply in_flat_map. exists c. auto. }
    destruct c as [e' u'|e' u' cs']; cbn [msgR]; [reflexivity|].
    apply sumR_map_ext. intros j _. now rewrite (IH _ Hc Hsub). Qed.

  Lemma M_ext p1 p2 c : (forall u, In u (inodes c) -> p1 u = p2 u) -> forall i, M lik p1 c i = M lik p2 c i.
  Proof. intros H i. unfold M. destruct c as [e' u'|e' u' cs']; cbn [msgR]; [reflexivity|].
    apply sumR_map_ext. intros j _. now rewrite (U_ext p1 p2 _ H). Qed.

  Lemma NoDup_app_inv {A} (l1 l2 : list A) : NoDup (l1 ++ l2) ->
    NoDup l1 /\ NoDup l2 /\ (forall x, In x l1 -> ~ In x l2).
  Proof. induction l1 as [|x l1 IH]; cbn [app]; intro H.
    - split; [constructor|]. split; [exact H|]. intros ? [].
    - inversion H as [|? ? Hn Hnd]; subst. destruct (IH Hnd) as (H1 & H2 & H3). split; [|split; [exact H2|]].
      + constructor; [|exact H1]. intro Hin. apply Hn. apply in_or_app. now left.
      + intros y [<-|Hy]; [|now apply H3]. intro Hin. apply Hn. apply in_or_app. now right. Qed.

  (** in a tree with distinct internal nodes, the node [v] of child [c] occurs in no sibling *)
  Lemma siblings_disjoint b c a v :
    NoDup (flat_map inodes (b ++ c :: a)) -> In v (inodes c) ->
    NoDup (inodes c) /\ forall x, In x (b ++ a) -> ~ In v (inodes x).
  Proof. rewrite flat_map_app. cbn [flat_map]. intros Hnd Hv.
    destruct (NoDup_app_inv _ _ Hnd) as (_ & Hca & Hdis1).
    destruct (NoDup_app_inv _ _ Hca) as (Hc & _ & Hdis2).
    split; [exact Hc|]. intros x Hx Hin. apply in_app_or in Hx. destruct Hx as [Hx|Hx].
    - apply (Hdis1 v); [apply in_flat_map; eauto|apply in_or_app; now left].
    - apply (Hdis2 v Hv). apply in_flat_map. eauto. Qed.

  (** (A): the brute-force numerator of "v at index i", weighted by O at the root *)
  Theorem ideal_identity priorv : forall t O v s Ov i,
    NoDup (inodes t) -> find_sub priorv t O v = Some (s, Ov) -> (i < G)%nat ->
    sumR (map (fun r => O r * U lik (restrict priorv v i) t r) (seq 0 G)) = Ov i * U lik priorv s i.
  Proof. induction t as [e u|e u cs IH] using tree_ind'; intros O v s Ov i Hnd H Hi; cbn [find_sub] in H; [discriminate|].
    cbn [inodes] in Hnd. inversion Hnd as [|? ? Hu_notin Hnd_cs]; subst.
    destruct (Nat.eqb_spec u v) as [->|Hne].
    - inversion H; subst s Ov; clear H.
      rewrite (sumR_map_ext _ (fun r => if Nat.eqb r i then O r * U lik priorv (Node e v cs) r else 0)).
      + now apply sumR_indicator_eq.
      + intros r _. rewrite !U_node. rewrite pr_restrict_same.
        assert (Hcs : map (fun c => M lik (restrict priorv v i) c r) cs = map (fun c => M lik priorv c r) cs).
        { apply map_ext_in. intros c Hc. apply (M_ext (restrict priorv v i) priorv c).
          intros w Hw. unfold restrict. destruct (Nat.eqb_spec w v) as [->|]; [|reflexivity].
          exfalso. apply Hu_notin. apply in_flat_map. eauto. }
        rewrite Hcs. destruct (Nat.eqb r i); lra.
    - destruct (first_child_spec _ _ _ _ H) as (b & c & a & Hsplit & Hf). cbn [app] in Hsplit. subst cs.
      destruct (find_sub_in priorv c _ v s Ov Hf) as (Hvc & _ & _).
      destruct (siblings_disjoint b c a v Hnd_cs Hvc) as (Hnd_c & Hsib).
      rewrite Forall_forall in IH.
      assert (Hcin : In c (b ++ c :: a)) by (apply in_or_app; right; now left).
      specialize (IH c Hcin (Odown priorv u O (b ++ a) c) v s Ov i Hnd_c Hf Hi). rewrite <- IH.
      destruct c as [e' u'|e' u' cs']; [cbn [find_sub] in Hf; discriminate|].
      (* unfold U' at the root *)
      assert (HU' : forall r, U lik (restrict priorv v i) (Node e u (b ++ Node e' u' cs' :: a)) r
                 = pr priorv u r * prodR (map (fun x => M lik priorv x r) (b ++ a))
                   * sumR (map (fun j => U lik (restrict priorv v i) (Node e' u' cs') j * lik e' r j) (seq 0 (r + 1)))).
      { intro r. rewrite U_node. rewrite pr_restrict_other by exact Hne. rewrite !map_app, !prodR_app. cbn [map].
        unfold prodR at 2. cbn [fold_right]. fold (prodR (map (fun c => M lik (restrict priorv v i) c r) a)).
        assert (Hx : forall l, (forall x, In x l -> ~ In v (inodes x)) ->
                   map (fun c => M lik (restrict priorv v i) c r) l = map (fun x => M lik priorv x r) l).
        { intros l Hl. apply map_ext_in. intros x Hxin. apply (M_ext (restrict priorv v i) priorv x).
          intros w Hw. unfold restrict. destruct (Nat.eqb_spec w v) as [->|]; [|reflexivity]. exfalso. now apply (Hl x Hxin). }
        rewrite (Hx b) by (intros; apply Hsib; apply in_or_app; now left).
        rewrite (Hx a) by (intros; apply Hsib; apply in_or_app; now right).
        rewrite M_node. ring. }
      rewrite (sumR_map_ext _ (fun r => sumR (map (fun j =>
                 (O r * pr priorv u r * prodR (map (fun x => M lik priorv x r) (b ++ a)) * lik e' r j)
                 * U lik (restrict priorv v i) (Node e' u' cs') j) (seq 0 (r + 1)))) (seq 0 G)).
      + rewrite (sum_swap_tri (fun r j => (O r * pr priorv u r * prodR (map (fun x => M lik priorv x r) (b ++ a)) * lik e' r j)
                                          * U lik (restrict priorv v i) (Node e' u' cs') j) G).
        apply sumR_map_ext. intros j _. unfold Odown. cbn [t_eid]. now rewrite sumR_map_scale.
      + intros r _. rewrite HU'.
        set (A := pr priorv u r * prodR (map (fun x => M lik priorv x r) (b ++ a))).
        set (f := fun j => U lik (restrict priorv v i) (Node e' u' cs') j * lik e' r j).
        transitivity ((O r * A) * sumR (map f (seq 0 (r + 1)))); [ring|].
        rewrite <- sumR_scale_l. apply sumR_map_ext. intros j _. unfold f, A. ring. Qed.
End Post.
