(** * phasing._block_singletons and the phase switch (C22): the blocks do not look at the phase
    of the input singletons; with every individual phased nothing is blocked and no mutation
    moves. *)
From Coq Require Import List ZArith Bool Arith Lia Sorting.Permutation Sorting.Sorted.
From TsdateV Require Import lib.Tables model.Sweep model.BlockSingletons proofs.SweepFacts proofs.TablesFacts
  proofs.SweepInv.
Import ListNotations.
Open Scope Z_scope.

(** the sweep only sees [after] through its values *)
Lemma loop_ext_after St keyI keyR L rmv ins (after after' : Z -> Z -> St -> St) stop cond :
  (forall l r s, after l r s = after' l r s) ->
  forall fuel left iq rq s,
    loop St keyI keyR L rmv ins after stop cond fuel left iq rq s =
    loop St keyI keyR L rmv ins after' stop cond fuel left iq rq s.
Proof. intro H. induction fuel as [|fuel IH]; intros left iq rq s; cbn [loop]; [reflexivity|].
  destruct (cond left iq rq); [|reflexivity].
  destruct (pop St keyR rmv left rq s) as [rq' s1]. destruct (pop St keyI ins left iq s1) as [iq' s2].
  rewrite H. destruct (stop (after' left (next_pos keyI keyR L iq' rq') s2)); [reflexivity|apply IH]. Qed.

Section PhaseBlind.
  Variable es : list edge.
  Variable unphased : nat -> bool.
  Variable nind : nat -> Z.
  Variable mpos : nat -> Z.
  Variables mnode mnode' : nat -> nat.
  (** the two inputs differ only in which node OF THE SAME INDIVIDUAL each mutation sits on *)
  Hypothesis Hsame : forall m, nind (mnode m) = nind (mnode' m).

  Lemma tracked_same m : tracked unphased nind (mnode m) = tracked unphased nind (mnode' m).
  Proof. unfold tracked. rewrite Hsame. reflexivity. Qed.

  Lemma bs_muts_same right : forall q s,
    bs_muts unphased nind mpos mnode right q s = bs_muts unphased nind mpos mnode' right q s.
  Proof. induction q as [|m q IH]; intro s; cbn [bs_muts]; [reflexivity|].
    rewrite tracked_same. destruct (mpos m <? right); [|reflexivity]. apply IH. Qed.

  Theorem blocks_phase_blind L M insq remq :
    block_singletons es unphased nind mpos mnode L M insq remq =
    block_singletons es unphased nind mpos mnode' L M insq remq.
  Proof. unfold block_singletons, bs_sweep.
    rewrite (loop_ext_after bs_state _ _ L (bs_rmv es unphased nind) (bs_ins es unphased nind)
               (bs_after unphased nind mpos mnode) (bs_after unphased nind mpos mnode')).
    - reflexivity.
    - intros l r s. unfold bs_after. apply bs_muts_same. Qed.
End PhaseBlind.

(** ** all individuals phased: nothing is tracked *)
Section Phased.
  Variable es : list edge.
  Variable nind : nat -> Z.
  Variable mpos : nat -> Z.
  Variable mnode : nat -> nat.
  Let unph : nat -> bool := fun _ => false.

  Lemma tracked_none c : tracked unph nind c = None.
  Proof. unfold tracked, unph. destruct (nind c =? -1); reflexivity. Qed.

  Lemma rmv_id x e s : bs_rmv es unph nind x e s = s.
  Proof. unfold bs_rmv. rewrite tracked_none. reflexivity. Qed.
  Lemma ins_id x e s : bs_ins es unph nind x e s = s.
  Proof. unfold bs_ins. rewrite tracked_none. reflexivity. Qed.

  Definition quiet (s : bs_state) : Prop :=
    bs_blocks s = [] /\ bs_num s = 0 /\ bs_err s = 0 /\ forall m, bs_mblock s m = -1.

  Lemma muts_quiet right : forall q s, quiet s -> quiet (bs_muts unph nind mpos mnode right q s).
  Proof. induction q as [|m q IH]; intros s Hs; cbn [bs_muts].
    - exact Hs.
    - rewrite tracked_none. destruct (mpos m <? right); [apply IH; exact Hs|exact Hs]. Qed.

  Variable L : Z.
  Variables insq remq : list nat.
  Hypothesis Hrange : edges_in_range L es.
  Hypothesis Hidx : valid_index es insq remq.
  Hypothesis HL : 0 <= L.

  Theorem phased_no_blocks M :
    block_singletons es unph nind mpos mnode L M insq remq = inr ([], [], to_list M (fun _ => -1)).
  Proof.
    pose (kl := fun i => eleft (edge_at es i)). pose (kr := fun i => eright (edge_at es i)).
    destruct Hidx as [PI [PR [SI SR]]].
    assert (KI : forall a, In a insq -> 0 <= kl a <= L).
    { intros a Ha. apply (perm_in_ids es insq a PI) in Ha. destruct (Hrange a Ha). unfold kl. lia. }
    assert (KR : forall a, In a remq -> 0 <= kr a <= L).
    { intros a Ha. apply (perm_in_ids es remq a PR) in Ha. destruct (Hrange a Ha). unfold kr. lia. }
    pose (G := fun (_ _ : Z) (s : bs_state) => quiet s).
    assert (Hbody : forall left s, quiet s ->
              quiet (body bs_state kl kr L (bs_rmv es unph nind) (bs_ins es unph nind)
                          (bs_after unph nind mpos mnode) insq remq left s)).
    { intros left s Hq. unfold body, bs_after.
      assert (E1 : forall l s0, fold_left (fun s1 b => bs_rmv es unph nind left b s1) l s0 = s0)
        by (induction l as [|a l IH]; intro s0; cbn [fold_left]; [reflexivity|rewrite rmv_id; apply IH]).
      assert (E2 : forall l s0, fold_left (fun s1 b => bs_ins es unph nind left b s1) l s0 = s0)
        by (induction l as [|a l IH]; intro s0; cbn [fold_left]; [reflexivity|rewrite ins_id; apply IH]).
      rewrite E1, E2. apply muts_quiet. exact Hq. }
    assert (Gstep : forall prev left s, G prev left s -> prev < left -> nokey kl kr insq remq prev left ->
              more kl kr insq remq prev -> left <= L ->
              (fun s => negb (bs_err s =? 0))
                (body bs_state kl kr L (bs_rmv es unph nind) (bs_ins es unph nind) (bs_after unph nind mpos mnode) insq remq left s) = false ->
              G left (nxt kl kr L insq remq left)
                (body bs_state kl kr L (bs_rmv es unph nind) (bs_ins es unph nind) (bs_after unph nind mpos mnode) insq remq left s)).
    { intros prev left s Hq _ _ _ _ _. apply Hbody. exact Hq. }
    assert (HG0 : G (-1) 0 (bs_init mpos M)) by (unfold G, quiet, bs_init; cbn; repeat split).
    destruct (loop_sound bs_state kl kr L (bs_rmv es unph nind) (bs_ins es unph nind) (bs_after unph nind mpos mnode)
                (fun s => negb (bs_err s =? 0)) insq remq SI SR KI KR G Gstep (bs_init mpos M) HG0 HL) as [r [Hr HP]].
    unfold block_singletons, bs_sweep. fold kl kr. rewrite Hr.
    assert (Hq : quiet r).
    { destruct HP as [[prev [left [Hq _]]]|[prev [left [s [Hq [_ [_ [_ [_ [Er _]]]]]]]]]]; [exact Hq|].
      rewrite Er. apply Hbody. exact Hq. }
    destruct Hq as [Hb [Hn [He Hm]]]. rewrite He, Hn, Hb. cbn [Z.eqb negb length Z.of_nat sort_blocks fold_right map].
    f_equal. f_equal. unfold to_list. apply map_ext. intro m. apply Hm. Qed.
End Phased.

(** a mutation whose node changes is in a block and lands on the child of one of the block's
    two edges *)
Lemma switch_local es bedges mblock lt_half mnode m :
  switch_node es bedges mblock lt_half mnode m <> mnode m ->
  mblock m <> -1 /\
  exists e0 e1, nth (Z.to_nat (mblock m)) bedges (-1, -1) = (e0, e1) /\
    (switch_node es bedges mblock lt_half mnode m = echild (edge_at es (Z.to_nat e0)) \/
     switch_node es bedges mblock lt_half mnode m = echild (edge_at es (Z.to_nat e1))).
Proof. unfold switch_node, switch_edge. destruct (mblock m =? -1) eqn:E; [intro H; exfalso; apply H; reflexivity|].
  intros _. apply Z.eqb_neq in E. split; [exact E|].
  destruct (nth (Z.to_nat (mblock m)) bedges (-1, -1)) as [e0 e1]. exists e0, e1. split; [reflexivity|].
  destruct (lt_half m); [right|left]; reflexivity. Qed.

(** with every individual phased nothing moves *)
Lemma phased_identity es nind mpos mnode L insq remq M lt_half :
  edges_in_range L es -> valid_index es insq remq -> 0 <= L ->
  exists stats bedges mblock,
    block_singletons es (fun _ => false) nind mpos mnode L M insq remq = inr (stats, bedges, mblock) /\
    stats = [] /\ bedges = [] /\
    forall m, (m < M)%nat -> switch_node es bedges (of_list (-1) mblock) lt_half mnode m = mnode m.
Proof. intros H1 H2 H3. exists [], [], (to_list M (fun _ => -1)).
  split; [apply phased_no_blocks; assumption|]. split; [reflexivity|]. split; [reflexivity|].
  intros m Hm. unfold switch_node, of_list, to_list.
  assert (E : nth m (map (fun _ : nat => -1) (seq 0 M)) (-1) = -1)
    by (exact (map_nth (fun _ : nat => -1) (seq 0 M) O m)).
  rewrite E. reflexivity. Qed.

(** the switch leaves a mutation alone unless it is in a block *)
Lemma switch_unblocked es bedges mblock lt_half mnode medge m :
  mblock m = -1 ->
  switch_node es bedges mblock lt_half mnode m = mnode m /\ switch_edge bedges mblock lt_half medge m = medge m.
Proof. intro H. unfold switch_node, switch_edge. rewrite H. cbn. split; reflexivity. Qed.
