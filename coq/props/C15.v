(** * C15 -- node span tables behind the mixture prior are exact.
    Only statements, each closed by [exact]; proofs live in proofs/PriorMix.v.

    What is proved here: (a) the REFERENCE span table (the direct per-tree tally
    [spans_ref]) has one entry per pair (T, k), the entry is the total span of the trees
    in which the node has that pair, and the entries add up to the node's total span;
    (b) [mixture_expect_and_var] returns the mean and the variance of the span-weighted
    mixture (law of total variance); (c) the selection logic of
    [get_mixture_prior_params].
    What is NOT proved: that the incremental [SpansBySamples.first_pass] computes
    [spans_ref].  That sentence of the property is decided on every run by an exact
    differential comparison of [SpansBySamples(ts).get_spans(u)] / [node_spans] with
    [spans_ref] evaluated inside Coq on tskit's per-tree sample counts (tools/props/c15.py). *)
From Coq Require Import List ZArith QArith Reals Lra.
From TsdateV Require Import lib.Num model.PriorMix proofs.PriorMix.
Import ListNotations.
Open Scope R_scope.

(** (a1) the reference table has at most one entry per pair (T, k) and that entry is the
    total span of the trees where node [u] has [k] of [tot] samples below it *)
Theorem C15_spans_reference_entries : forall (trees : list (tview RNum)) (u tot k : nat),
  NoDup (map fst (spans_ref RNum trees u)) /\
  lookup (tot, k) (spans_ref RNum trees u) = direct trees u tot k.
Proof. exact (fun trees u tot k => conj (spans_keys_nodup trees u) (spans_lookup trees u tot k)). Qed.
Print Assumptions C15_spans_reference_entries.

(** (a2) the entries sum to the node's total span *)
Theorem C15_spans_sum : forall (trees : list (tview RNum)) (u : nat),
  total RNum (spans_ref RNum trees u) = node_span RNum trees u.
Proof. exact spans_sum. Qed.
Print Assumptions C15_spans_sum.

(** (b) with [cs] the components (weight w = span, mean mu, variance v) of all groups,
    S0 = sum w, S1 = sum w mu, S2 = sum w (v + mu^2): the function returns
    M = S1/S0 and S2/S0 - M^2, which is the variance of the mixture,
    sum (w/S0) (v + (mu - M)^2) *)
Theorem C15_mixture_moments : forall groups : list (list (comp RNum)),
  let cs := concat groups in
  S0 cs <> 0 ->
  let M := S1 cs / S0 cs in
  mixture_expect_and_var RNum groups = (M, S2 cs / S0 cs - M * M) /\
  S2 cs / S0 cs - M * M
  = rsuml (map (fun c => cw RNum c / S0 cs * (cvar RNum c + (cmu RNum c - M) * (cmu RNum c - M))) cs).
Proof. exact mixture_moments. Qed.
Print Assumptions C15_mixture_moments.

(** (c1) a node with a single pair (T, k) gets exactly the coalescent row's parameters,
    and the general (mixture) path would give the same ones *)
Theorem C15_single_component :
  forall (approx : R -> R -> R * R) (table : nat -> nat -> option (row RNum))
         (tot k : nat) (s : R) (rw : row RNum),
  table tot k = Some rw ->
  node_params RNum approx table [(tot, [(k, s)])] = Some (r_alpha RNum rw, r_beta RNum rw) /\
  (s <> 0 -> approx (r_mean RNum rw) (r_var RNum rw) = (r_alpha RNum rw, r_beta RNum rw) ->
   (let '(mean, var) := mixture_expect_and_var RNum [[(s, r_mean RNum rw, r_var RNum rw)]] in
    approx mean var) = (r_alpha RNum rw, r_beta RNum rw)).
Proof. exact single_component. Qed.
Print Assumptions C15_single_component.

(** (c2) every other node gets the moment-matched fit of its mixture moments *)
Theorem C15_mixture_params :
  forall (approx : R -> R -> R * R) (table : nat -> nat -> option (row RNum))
         (m : mixture RNum) (gs : list (list (comp RNum))),
  (forall tot k s, m <> [(tot, [(k, s)])]) -> groups_of RNum table m = Some gs ->
  node_params RNum approx table m
  = Some (let '(mean, var) := mixture_expect_and_var RNum gs in approx mean var).
Proof. exact mixture_params. Qed.
Print Assumptions C15_mixture_params.

(** non-vacuity: three local trees (spans 30, 50, 20; the last with one sample missing),
    node 5 has 2 then 3 of 4 samples below it, node 6 is the root; exact values *)
Example C15_nonvacuous :
  spans_ref QNum ex_trees 5 = [((4, 2)%nat, 30 # 1); ((4, 3)%nat, 50 # 1)]%Q /\
  spans_ref QNum ex_trees 6 = [((4, 4)%nat, 80 # 1); ((3, 3)%nat, 20 # 1)]%Q /\
  node_span QNum ex_trees 5 = (80 # 1)%Q /\ node_span QNum ex_trees 6 = (100 # 1)%Q /\
  mixture_expect_and_var QNum [[(30 # 1, 1 # 4, 1 # 18); (50 # 1, 1 # 2, 23 # 144)]]%Q
    = (13 # 32, 1247 # 9216)%Q.
Proof. exact C15_example. Qed.
